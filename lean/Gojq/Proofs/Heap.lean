/-
  Helper lemmas for the heap model (`Gojq/Model/Heap.lean`): C02 item 4, C05, C06.
  Core Lean only.
-/
import Gojq.Model.Heap
namespace Gojq.Heap
open Gojq

/-! ### lists of children -/

@[simp] theorem cellIds_some (id c : Nat) : cellIds (some (id, c)) = [id] := rfl
@[simp] theorem cellIds_none : cellIds none = [] := rfl

theorem idsK_append (a b : Kids) : idsK (a ++ b) = idsK a ++ idsK b := by
  induction a with
  | nil => simp [idsK]
  | cons x xs ih => obtain ⟨k, t⟩ := x; simp [idsK, ih, List.append_assoc]

theorem absO_append (a b : Kids) : absO (a ++ b) = absO a ++ absO b := by
  induction a with
  | nil => simp [absO]
  | cons x xs ih => obtain ⟨k, t⟩ := x; simp [absO, ih]

theorem absA_append (a b : Kids) : absA (a ++ b) = absA a ++ absA b := by
  induction a with
  | nil => simp [absA]
  | cons x xs ih => obtain ⟨k, t⟩ := x; simp [absA, ih]

theorem absA_length (a : Kids) : (absA a).length = a.length := by
  induction a with
  | nil => simp [absA]
  | cons x xs ih => obtain ⟨k, t⟩ := x; simp [absA, ih]

theorem idsK_nullKids (n : Nat) : idsK (nullKids n) = [] := by
  induction n with
  | zero => simp [nullKids, idsK]
  | succ n ih =>
    simp only [nullKids, List.replicate_succ, idsK, T.null, T.ids, List.nil_append] at ih ⊢
    exact ih

theorem absA_nullKids (n : Nat) : absA (nullKids n) = List.replicate n JV.null := by
  induction n with
  | zero => simp [nullKids, absA]
  | succ n ih =>
    simp only [nullKids, List.replicate_succ, absA, T.null, abs, Sc.toJV] at ih ⊢
    rw [ih]

/-! ### consistency of a write with a tree -/

mutual
  /-- every occurrence of cell `id` in `t` already has content `new` -/
  def cons (id : Nat) (new : Kids) : T → Prop
    | .leaf _ => True
    | .hole => True
    | .node j _ _ ks => (j = id → ks = new) ∧ consK id new ks
  def consK (id : Nat) (new : Kids) : Kids → Prop
    | [] => True
    | (_, t) :: ks => cons id new t ∧ consK id new ks
end

theorem consK_append (id new) (a b : Kids) : consK id new (a ++ b) ↔ consK id new a ∧ consK id new b := by
  induction a with
  | nil => simp [consK]
  | cons x xs ih => obtain ⟨k, t⟩ := x; simp [consK, ih, and_assoc]

mutual
  theorem cons_of_not_mem (id : Nat) (new : Kids) : ∀ t : T, id ∉ t.ids → cons id new t
    | .leaf _, _ => trivial
    | .hole, _ => trivial
    | .node j _ _ ks, h => by
      simp only [T.ids, List.mem_cons, not_or] at h
      exact ⟨fun e => absurd e.symm h.1, consK_of_not_mem id new ks h.2⟩
  theorem consK_of_not_mem (id : Nat) (new : Kids) : ∀ ks : Kids, id ∉ idsK ks → consK id new ks
    | [], _ => trivial
    | (_, t) :: ks, h => by
      simp only [idsK, List.mem_append, not_or] at h
      exact ⟨cons_of_not_mem id new t h.1, consK_of_not_mem id new ks h.2⟩
end

mutual
  theorem subst_of_cons (id : Nat) (new : Kids) : ∀ t : T, cons id new t → subst id new t = t
    | .leaf _, _ => rfl
    | .hole, _ => rfl
    | .node j o c ks, h => by
      simp only [cons] at h
      simp only [subst]
      split
      · rename_i e; rw [h.1 e]
      · rw [substK_of_cons id new ks h.2]
  theorem substK_of_cons (id : Nat) (new : Kids) : ∀ ks : Kids, consK id new ks → substK id new ks = ks
    | [], _ => rfl
    | (k, t) :: ks, h => by
      simp only [consK] at h
      simp only [substK, subst_of_cons id new t h.1, substK_of_cons id new ks h.2]
end

theorem applyLog_id : ∀ (log : Log) (t : T), (∀ e ∈ log, cons e.1 e.2 t) → applyLog log t = t := by
  intro log
  induction log with
  | nil => intro t _; rfl
  | cons e es ih =>
    intro t h
    simp only [applyLog, List.foldl_cons]
    rw [subst_of_cons _ _ _ (h e (by simp))]
    exact ih t (fun e' he' => h e' (by simp [he']))

/-! ### `Bytes.cmp` (what the object scans need) -/

theorem cmp_refl : ∀ a : Bytes, Bytes.cmp a a = .eq
  | [] => rfl
  | a :: as => by
    simp only [Bytes.cmp]
    have : ¬ a < a := UInt8.lt_irrefl a
    simp [this, cmp_refl as]

theorem cmp_eq : ∀ a b : Bytes, Bytes.cmp a b = .eq → a = b
  | [], [], _ => rfl
  | [], _ :: _, h => by simp [Bytes.cmp] at h
  | _ :: _, [], h => by simp [Bytes.cmp] at h
  | a :: as, b :: bs, h => by
    simp only [Bytes.cmp] at h
    split at h
    · cases h
    · split at h
      · cases h
      · rename_i h1 h2
        have : a = b := UInt8.le_antisymm (UInt8.not_lt.mp h2) (UInt8.not_lt.mp h1)
        rw [this, cmp_eq as bs h]

/-! ### finding a child -/

theorem splitKey_found : ∀ (k : Bytes) (ks pre post : Kids) (x : T), splitKey k ks = (pre, some x, post) →
    ks = pre ++ (k, x) :: post
  | _, [], _, _, _, h => by simp [splitKey] at h
  | k, (k', y) :: rest, pre, post, x, h => by
    simp only [splitKey] at h
    split at h
    · simp at h
    · rename_i heq
      simp only [Prod.mk.injEq, Option.some.injEq] at h
      obtain ⟨rfl, rfl, rfl⟩ := h
      rw [cmp_eq _ _ heq]; rfl
    · simp only [Prod.mk.injEq] at h
      obtain ⟨rfl, h2, h3⟩ := h
      have := splitKey_found k rest (splitKey k rest).1 post x (by rw [← h2, ← h3])
      simp only [List.cons_append]
      rw [← this]

theorem splitKey_absent : ∀ (k : Bytes) (ks pre post : Kids), splitKey k ks = (pre, none, post) →
    ks = pre ++ post
  | _, [], _, _, h => by simp only [splitKey, Prod.mk.injEq] at h; obtain ⟨rfl, _, rfl⟩ := h; rfl
  | k, (k', y) :: rest, pre, post, h => by
    simp only [splitKey] at h
    split at h
    · simp only [Prod.mk.injEq] at h; obtain ⟨rfl, _, rfl⟩ := h; rfl
    · simp at h
    · simp only [Prod.mk.injEq] at h
      obtain ⟨rfl, h2, h3⟩ := h
      have := splitKey_absent k rest (splitKey k rest).1 post (by rw [← h2, ← h3])
      simp only [List.cons_append]
      rw [← this]

theorem splitIdx_eq : ∀ (j : Nat) (ks pre post : Kids) (x : T), splitIdx j ks = some (pre, x, post) →
    ∃ k, ks = pre ++ (k, x) :: post ∧ pre.length = j := by
  intro j
  induction j with
  | zero =>
    intro ks pre post x h
    cases ks with
    | nil => simp [splitIdx] at h
    | cons y ys =>
      obtain ⟨k, t⟩ := y
      simp only [splitIdx, Option.some.injEq, Prod.mk.injEq] at h
      obtain ⟨rfl, rfl, rfl⟩ := h
      exact ⟨k, rfl, rfl⟩
  | succ j ih =>
    intro ks pre post x h
    cases ks with
    | nil => simp [splitIdx] at h
    | cons y ys =>
      simp only [splitIdx, Option.map_eq_some_iff] at h
      obtain ⟨⟨p1, x1, q1⟩, h1, h2⟩ := h
      simp only [Prod.mk.injEq] at h2
      obtain ⟨rfl, rfl, rfl⟩ := h2
      obtain ⟨k, e1, e2⟩ := ih ys p1 q1 x1 h1
      exact ⟨k, by simp [e1], by simp [e2]⟩

theorem splitIdx_none : ∀ (j : Nat) (ks : Kids), splitIdx j ks = none → ks.length ≤ j := by
  intro j
  induction j with
  | zero => intro ks h; cases ks with
    | nil => simp
    | cons y ys => obtain ⟨k, t⟩ := y; simp [splitIdx] at h
  | succ j ih => intro ks h; cases ks with
    | nil => simp
    | cons y ys =>
      simp only [splitIdx, Option.map_eq_none_iff] at h
      have := ih ys h
      simp; omega


/-! ### `enter`: what a path element finds, at label level and at value level -/

theorem splitKey_abs (w : JV) : ∀ (k : Bytes) (ks : Kids),
    kvFind k (absO ks) = (splitKey k ks).2.1.map abs ∧
    kvInsert k w (absO ks) = absO (splitKey k ks).1 ++ (k, w) :: absO (splitKey k ks).2.2
  | _, [] => by simp [splitKey, absO, kvFind, kvInsert]
  | k, (k', y) :: rest => by
    simp only [splitKey, absO, kvFind, kvInsert]
    cases h : Bytes.cmp k k' with
    | lt => simp [absO]
    | eq => simp [absO]
    | gt =>
      have ih := splitKey_abs w k rest
      simp only [absO, List.cons_append]
      exact ⟨ih.1, by rw [ih.2]⟩

theorem splitKey_ids (k : Bytes) (ks : Kids) :
    idsK ks = idsK (splitKey k ks).1 ++ ((splitKey k ks).2.1.getD T.null).ids ++ idsK (splitKey k ks).2.2 := by
  rcases h : splitKey k ks with ⟨pre, o, post⟩
  cases o with
  | none =>
    rw [splitKey_absent k ks pre post h]
    simp [idsK_append, T.null, T.ids]
  | some x =>
    rw [splitKey_found k ks pre post x h]
    simp [idsK_append, idsK]

theorem splitIdx_abs (w : JV) (j : Nat) (ks pre post : Kids) (x : T) (h : splitIdx j ks = some (pre, x, post)) :
    (absA ks).getD j JV.null = abs x ∧ (absA ks).set j w = absA pre ++ w :: absA post := by
  obtain ⟨k, rfl, rfl⟩ := splitIdx_eq j ks pre post x h
  constructor
  · simp [absA_append, absA, List.getD, absA_length]
  · simp [absA_append, absA, ← absA_length pre]

/-- value-level reconstruction of the container around the focus -/
def plug (o : Bool) (fo : Focus) (w : JV) : JV :=
  if o then .obj (absO fo.pre ++ (fo.key, w) :: absO fo.post) else .arr (absA fo.pre ++ w :: absA fo.post)

theorem abs_node_plug (id : Nat) (o : Bool) (c : Nat) (fo : Focus) (u : T) :
    abs (.node id o c (fo.pre ++ (fo.key, u) :: fo.post)) = plug o fo (abs u) := by
  cases o <;> simp [abs, plug, absO_append, absA_append, absO, absA]

theorem getD_map_abs (o : Option T) : (o.map abs).getD JV.null = abs (o.getD T.null) := by
  cases o <;> simp [T.null, abs, Sc.toJV]

theorem resolve_zero_not_inr (i : Int) (j : Nat) : resolve i 0 ≠ .inr j := by
  unfold resolve; split
  · split
    · simp
    · omega
  · split
    · omega
    · simp

/-- at value level, entering `e` and rebuilding around the updated child is `setpath (e :: p)` -/
theorem enter_abs (e : PE) (v : T) (cell o fo) (h : enter e v = some (cell, o, fo)) (p : Path) (n : JV) :
    setpath (e :: p) (abs v) n = (setpath p (abs fo.child) n).map (plug o fo) := by
  cases e with
  | key k =>
    cases v with
    | hole => simp [enter] at h
    | leaf s =>
      cases s <;> simp only [enter, Option.some.injEq, Prod.mk.injEq, reduceCtorEq] at h
      obtain ⟨rfl, rfl, rfl⟩ := h
      simp only [abs, Sc.toJV, setpath, T.null]
      congr 1
    | node id ob c ks =>
      cases ob with
      | false => simp [enter] at h
      | true =>
        simp only [enter, Option.some.injEq, Prod.mk.injEq] at h
        obtain ⟨rfl, rfl, rfl⟩ := h
        simp only [abs, setpath, (splitKey_abs JV.null k ks).1, getD_map_abs]
        congr 1
        funext w
        simp [plug, (splitKey_abs w k ks).2]
  | idx i =>
    cases v with
    | hole => simp [enter] at h
    | leaf s =>
      cases s <;> simp only [enter, reduceCtorEq] at h
      simp only [abs, Sc.toJV, setpath]
      split at h
      · rename_i i' hr
        split at h
        · cases h
        · rename_i hlt
          simp only [Option.some.injEq, Prod.mk.injEq] at h
          obtain ⟨rfl, rfl, rfl⟩ := h
          simp only [hlt, if_false, T.null, abs, Sc.toJV]
          congr 1
          funext w
          simp [plug, absA_nullKids, absA]
      · cases h
    | node id ob c ks =>
      cases ob with
      | true => simp [enter] at h
      | false =>
        simp only [enter] at h
        simp only [abs, setpath, absA_length]
        split at h
        · cases h
        · rename_i j hr
          simp only [Option.map_eq_some_iff] at h
          obtain ⟨⟨pre, x, post⟩, hs, h2⟩ := h
          simp only [Prod.mk.injEq] at h2
          obtain ⟨rfl, rfl, rfl⟩ := h2
          simp only [(splitIdx_abs JV.null j ks pre post x hs).1]
          congr 1
          funext w
          simp [plug, (splitIdx_abs w j ks pre post x hs).2]
        · rename_i i' hr
          split at h
          · cases h
          · rename_i hlt
            simp only [Option.some.injEq, Prod.mk.injEq] at h
            obtain ⟨rfl, rfl, rfl⟩ := h
            simp only [hlt, if_false, T.null, abs, Sc.toJV]
            congr 1
            funext w
            simp [plug, absA_append, absA_nullKids, absA]

/-- at label level: the labels of `v` are its own cell followed by those of the three parts of the focus -/
theorem enter_ids (e : PE) (v : T) (cell o fo) (h : enter e v = some (cell, o, fo)) :
    v.ids = cellIds cell ++ (idsK fo.pre ++ fo.child.ids ++ idsK fo.post) := by
  cases e with
  | key k =>
    cases v with
    | hole => simp [enter] at h
    | leaf s =>
      cases s <;> simp only [enter, Option.some.injEq, Prod.mk.injEq, reduceCtorEq] at h
      obtain ⟨rfl, rfl, rfl⟩ := h
      simp [T.ids, idsK, T.null]
    | node id ob c ks =>
      cases ob with
      | false => simp [enter] at h
      | true =>
        simp only [enter, Option.some.injEq, Prod.mk.injEq] at h
        obtain ⟨rfl, rfl, rfl⟩ := h
        simp only [T.ids, cellIds_some, List.singleton_append, List.cons.injEq, true_and]
        exact splitKey_ids k ks
  | idx i =>
    cases v with
    | hole => simp [enter] at h
    | leaf s =>
      cases s <;> simp only [enter, reduceCtorEq] at h
      split at h
      · split at h
        · cases h
        · simp only [Option.some.injEq, Prod.mk.injEq] at h
          obtain ⟨rfl, rfl, rfl⟩ := h
          simp [T.ids, idsK, T.null, idsK_nullKids]
      · cases h
    | node id ob c ks =>
      cases ob with
      | true => simp [enter] at h
      | false =>
        simp only [enter] at h
        split at h
        · cases h
        · simp only [Option.map_eq_some_iff] at h
          obtain ⟨⟨pre, x, post⟩, hs, h2⟩ := h
          simp only [Prod.mk.injEq] at h2
          obtain ⟨rfl, rfl, rfl⟩ := h2
          obtain ⟨k, rfl, _⟩ := splitIdx_eq _ ks pre post x hs
          simp [T.ids, idsK_append, idsK]
        · split at h
          · cases h
          · simp only [Option.some.injEq, Prod.mk.injEq] at h
            obtain ⟨rfl, rfl, rfl⟩ := h
            simp [T.ids, idsK_append, idsK, T.null, idsK_nullKids]

/-! ### (1) value-level meaning of `upd`: the spine rewrite is `setpath` -/

theorem upd_abs : ∀ (p : Path) (v n : T) (A : List Nat) (f : Nat) r,
    upd A f p v n = some r → setpath p (abs v) (abs n) = some (abs r.1) := by
  intro p
  induction p with
  | nil => intro v n A f r h; simp only [upd, Option.some.injEq] at h; subst h; simp [setpath]
  | cons e p ih =>
    intro v n A f r h
    simp only [upd] at h
    split at h
    · cases h
    · rename_i cell o fo he
      split at h
      · cases h
      · rename_i u A1 f1 log hu
        rw [enter_abs e v cell o fo he, ih _ _ _ _ _ hu]
        simp only [Option.map_some, Option.some.injEq]
        split at h
        · split at h
          · split at h <;> (simp only [Option.some.injEq] at h; subst h; exact (abs_node_plug _ _ _ _ _).symm)
          · simp only [Option.some.injEq] at h; subst h; exact (abs_node_plug _ _ _ _ _).symm
        · simp only [Option.some.injEq] at h; subst h; exact (abs_node_plug _ _ _ _ _).symm


/-- the two ways a container on the path is produced: written in place (owned), or a fresh owned copy;
    the copy of an owned array that outgrew its capacity unregisters the old cell (`a.free`) -/
theorem upd_step (A : List Nat) (f : Nat) (e : PE) (p : Path) (v n v' : T) (A' : List Nat) (f' : Nat) (log : Log)
    (h : upd A f (e :: p) v n = some (v', A', f', log)) :
    ∃ cell o fo u A1 f1 log1, enter e v = some (cell, o, fo) ∧ upd A f p fo.child n = some (u, A1, f1, log1) ∧
      ((∃ id c, cell = some (id, c) ∧ id ∈ A1 ∧ v' = .node id o c (fo.pre ++ (fo.key, u) :: fo.post) ∧
          A' = A1 ∧ f' = f1 ∧ log = log1 ++ [(id, fo.pre ++ (fo.key, u) :: fo.post)]) ∨
       (∃ c' A2, v' = .node f1 o c' (fo.pre ++ (fo.key, u) :: fo.post) ∧ A' = f1 :: A2 ∧ f' = f1 + 1 ∧ log = log1 ∧
          ((A2 = A1 ∧ ∀ id c, cell = some (id, c) → id ∉ A1) ∨
            ∃ id c, cell = some (id, c) ∧ id ∈ A1 ∧ A2 = A1.filter (· ≠ id)))) := by
  simp only [upd] at h
  split at h
  · cases h
  · rename_i cell o fo he
    split at h
    · cases h
    · rename_i u A1 f1 log1 hu
      refine ⟨cell, o, fo, u, A1, f1, log1, he, hu, ?_⟩
      split at h
      · rename_i id c
        split at h
        · rename_i hin
          split at h
          · simp only [Option.some.injEq, Prod.mk.injEq] at h
            obtain ⟨rfl, rfl, rfl, rfl⟩ := h
            exact Or.inl ⟨id, c, rfl, hin, rfl, rfl, rfl, rfl⟩
          · simp only [Option.some.injEq, Prod.mk.injEq] at h
            obtain ⟨rfl, rfl, rfl, rfl⟩ := h
            exact Or.inr ⟨_, _, rfl, rfl, rfl, rfl, Or.inr ⟨id, c, rfl, hin, rfl⟩⟩
        · rename_i hnin
          simp only [Option.some.injEq, Prod.mk.injEq] at h
          obtain ⟨rfl, rfl, rfl, rfl⟩ := h
          refine Or.inr ⟨_, _, rfl, rfl, rfl, rfl, Or.inl ⟨rfl, ?_⟩⟩
          intro id' c' hc
          simp only [Option.some.injEq, Prod.mk.injEq] at hc
          obtain ⟨rfl, rfl⟩ := hc
          exact hnin
      · simp only [Option.some.injEq, Prod.mk.injEq] at h
        obtain ⟨rfl, rfl, rfl, rfl⟩ := h
        exact Or.inr ⟨_, _, rfl, rfl, rfl, rfl, Or.inl ⟨rfl, fun id c hc => by cases hc⟩⟩

theorem ids_node_plug (id : Nat) (o : Bool) (c : Nat) (pre post : Kids) (k : Bytes) (u : T) :
    (T.node id o c (pre ++ (k, u) :: post)).ids = id :: (idsK pre ++ u.ids ++ idsK post) := by
  simp [T.ids, idsK_append, idsK]

theorem count_eq_zero_of_lt {l : List Nat} {f a : Nat} (h : ∀ j ∈ l, j < f) (ha : f ≤ a) : l.count a = 0 := by
  apply List.count_eq_zero.mpr
  intro hm
  have := h a hm
  omega

/-- (2) bookkeeping of `upd`: fresh labels, the allocator, the labels of the result (with multiplicity),
    and the in-place writes: every written cell is owned and lies on the path in `v`. -/
theorem upd_book : ∀ (p : Path) (v n : T) (A : List Nat) (f : Nat) v' A' f' log,
    upd A f p v n = some (v', A', f', log) →
    (∀ j ∈ v.ids, j < f) → (∀ j ∈ n.ids, j < f) → (∀ a ∈ A, a < f) →
    f ≤ f' ∧ (∀ a ∈ A', a ∈ A ∨ (f ≤ a ∧ a < f')) ∧ (∀ a ∈ A, a ∈ A' ∨ a ∈ spine p v) ∧
    (∀ j ∈ v'.ids, j < f') ∧
    (∀ a, a < f → v'.ids.count a ≤ v.ids.count a + n.ids.count a) ∧
    (∀ a, f ≤ a → v'.ids.count a ≤ 1) ∧
    (∀ e ∈ log, e.1 ∈ A ∧ e.1 ∈ v.ids) := by
  intro p
  induction p with
  | nil =>
    intro v n A f v' A' f' log h hv hn hA
    simp only [upd, Option.some.injEq, Prod.mk.injEq] at h
    obtain ⟨rfl, rfl, rfl, rfl⟩ := h
    refine ⟨Nat.le_refl _, fun a h => Or.inl h, fun a h => Or.inl h, hn, fun a _ => by omega, ?_, by simp⟩
    intro a ha
    rw [count_eq_zero_of_lt hn ha]; omega
  | cons e p ih =>
    intro v n A f v' A' f' log h hv hn hA
    obtain ⟨cell, o, fo, u, A1, f1, log1, he, hu, hcase⟩ := upd_step A f e p v n v' A' f' log h
    have hids := enter_ids e v cell o fo he
    have hpre : ∀ j ∈ idsK fo.pre, j < f := fun j hj => hv j (by rw [hids]; simp [hj])
    have hpost : ∀ j ∈ idsK fo.post, j < f := fun j hj => hv j (by rw [hids]; simp [hj])
    have hchild : ∀ j ∈ fo.child.ids, j < f := fun j hj => hv j (by rw [hids]; simp [hj])
    obtain ⟨hf, hA1, hAA1, hub, hcnt, hfresh, hlog⟩ := ih fo.child n A f u A1 f1 log1 hu hchild hn hA
    have hlogv : ∀ e ∈ log1, e.1 ∈ A ∧ e.1 ∈ v.ids := fun e he' =>
      ⟨(hlog e he').1, by rw [hids]; simp [(hlog e he').2]⟩
    have hspine : spine (e :: p) v = cellIds cell ++ spine p fo.child := by
      simp only [spine, he]
    have hAA1' : ∀ a ∈ A, a ∈ A1 ∨ a ∈ spine (e :: p) v := fun a ha => by
      rcases hAA1 a ha with h | h
      · exact Or.inl h
      · exact Or.inr (by rw [hspine]; exact List.mem_append_right _ h)
    rcases hcase with ⟨id, c, rfl, hin, rfl, rfl, rfl, rfl⟩ | ⟨c', A2, rfl, rfl, rfl, rfl, hA2⟩
    · -- in place
      have hidv : id ∈ v.ids := by rw [hids]; simp
      have hidf : id < f := hv id hidv
      have hidA : id ∈ A := by
        rcases hA1 id hin with h | h
        · exact h
        · omega
      refine ⟨hf, hA1, hAA1', ?_, ?_, ?_, ?_⟩
      · intro j hj
        rw [ids_node_plug] at hj
        simp only [List.mem_cons, List.mem_append] at hj
        rcases hj with rfl | (hj | hj) | hj
        · omega
        · have := hpre j hj; omega
        · exact hub j hj
        · have := hpost j hj; omega
      · intro a ha
        have := hcnt a ha
        rw [ids_node_plug, hids]
        simp only [cellIds_some, List.count_cons, List.count_append, List.count_nil]
        split <;> omega
      · intro a ha
        have := hfresh a ha
        rw [ids_node_plug]
        simp only [List.count_cons, List.count_append]
        rw [count_eq_zero_of_lt hpre ha, count_eq_zero_of_lt hpost ha]
        have : ¬ (id == a) = true := by simp; omega
        simp only [this, Bool.false_eq_true, ↓reduceIte]; omega
      · intro e' he'
        simp only [List.mem_append, List.mem_singleton] at he'
        rcases he' with he' | rfl
        · exact hlogv e' he'
        · exact ⟨hidA, hidv⟩
    · -- fresh copy
      have hA2sub : ∀ a ∈ A2, a ∈ A1 := by
        rcases hA2 with ⟨rfl, _⟩ | ⟨id, c, _, _, rfl⟩
        · exact fun a h => h
        · exact fun a h => (List.mem_filter.mp h).1
      have hA2keep : ∀ a ∈ A1, a ∈ A2 ∨ a ∈ spine (e :: p) v := by
        rcases hA2 with ⟨rfl, _⟩ | ⟨id, c, rfl, _, rfl⟩
        · exact fun a h => Or.inl h
        · intro a h
          by_cases hai : a = id
          · exact Or.inr (by rw [hspine, hai]; simp)
          · exact Or.inl (List.mem_filter.mpr ⟨h, by simpa using hai⟩)
      refine ⟨by omega, ?_, ?_, ?_, ?_, ?_, hlogv⟩
      · intro a ha
        simp only [List.mem_cons] at ha
        rcases ha with rfl | ha
        · exact Or.inr ⟨hf, by omega⟩
        · rcases hA1 a (hA2sub a ha) with h | h
          · exact Or.inl h
          · exact Or.inr ⟨h.1, by omega⟩
      · intro a ha
        rcases hAA1' a ha with h | h
        · rcases hA2keep a h with h' | h'
          · exact Or.inl (List.mem_cons_of_mem _ h')
          · exact Or.inr h'
        · exact Or.inr h
      · intro j hj
        rw [ids_node_plug] at hj
        simp only [List.mem_cons, List.mem_append] at hj
        rcases hj with rfl | (hj | hj) | hj
        · omega
        · have := hpre j hj; omega
        · have := hub j hj; omega
        · have := hpost j hj; omega
      · intro a ha
        have := hcnt a ha
        have hge : v.ids.count a ≥ (idsK fo.pre).count a + fo.child.ids.count a + (idsK fo.post).count a := by
          rw [hids]; simp only [List.count_append]; omega
        rw [ids_node_plug]
        simp only [List.count_cons, List.count_append]
        have : ¬ (f1 == a) = true := by simp; omega
        simp only [this, Bool.false_eq_true, ↓reduceIte]
        omega
      · intro a ha
        rw [ids_node_plug]
        simp only [List.count_cons, List.count_append]
        rw [count_eq_zero_of_lt hpre ha, count_eq_zero_of_lt hpost ha]
        by_cases hfa : f1 = a
        · subst hfa
          rw [count_eq_zero_of_lt hub (Nat.le_refl _)]
          simp
        · have := hfresh a ha
          have : ¬ (f1 == a) = true := by simp; omega
          simp only [this, Bool.false_eq_true, ↓reduceIte]; omega


theorem not_mem_of_count_zero {l : List Nat} {a : Nat} (h : l.count a = 0) : a ∉ l :=
  List.count_eq_zero.mp h

theorem count_pos_of_mem {l : List Nat} {a : Nat} (h : a ∈ l) : 0 < l.count a :=
  List.count_pos_iff.mpr h

/-- (3) every logged in-place write is already reflected at every occurrence of its cell in the result -/
theorem upd_cons : ∀ (p : Path) (v n : T) (A : List Nat) (f : Nat) v' A' f' log,
    upd A f p v n = some (v', A', f', log) →
    (∀ a ∈ A, v.ids.count a ≤ 1) → (∀ a ∈ A, a ∉ n.ids) →
    (∀ j ∈ v.ids, j < f) → (∀ j ∈ n.ids, j < f) → (∀ a ∈ A, a < f) →
    ∀ e ∈ log, cons e.1 e.2 v' := by
  intro p
  induction p with
  | nil =>
    intro v n A f v' A' f' log h _ _ _ _ _
    simp only [upd, Option.some.injEq, Prod.mk.injEq] at h
    obtain ⟨rfl, rfl, rfl, rfl⟩ := h
    simp
  | cons e p ih =>
    intro v n A f v' A' f' log h hu1 hnA hv hn hA
    obtain ⟨cell, o, fo, u, A1, f1, log1, he, hu, hcase⟩ := upd_step A f e p v n v' A' f' log h
    have hids := enter_ids e v cell o fo he
    have hchild : ∀ j ∈ fo.child.ids, j < f := fun j hj => hv j (by rw [hids]; simp [hj])
    have hge : ∀ a, v.ids.count a ≥ (idsK fo.pre).count a + fo.child.ids.count a + (idsK fo.post).count a := by
      intro a; rw [hids]; simp only [List.count_append]; omega
    have huc : ∀ a ∈ A, fo.child.ids.count a ≤ 1 := fun a ha => by have := hu1 a ha; have := hge a; omega
    obtain ⟨hf, hA1, hAA1, hub, hcnt, hfresh, hlog⟩ := upd_book p fo.child n A f u A1 f1 log1 hu hchild hn hA
    have hrec := ih fo.child n A f u A1 f1 log1 hu huc hnA hchild hn hA
    have consKids : ∀ e ∈ log1, consK e.1 e.2 (fo.pre ++ (fo.key, u) :: fo.post) := by
      intro e' he'
      obtain ⟨h1, h2⟩ := hlog e' he'
      have := hu1 e'.1 h1
      have := hge e'.1
      have := count_pos_of_mem h2
      rw [consK_append]
      refine ⟨consK_of_not_mem _ _ _ (not_mem_of_count_zero (by omega)), ?_, consK_of_not_mem _ _ _ (not_mem_of_count_zero (by omega))⟩
      exact hrec e' he'
    rcases hcase with ⟨id, c, rfl, hin, rfl, rfl, rfl, rfl⟩ | ⟨c', A2, rfl, rfl, rfl, rfl, _⟩
    · have hidv : id ∈ v.ids := by rw [hids]; simp
      have hidf : id < f := hv id hidv
      have hidA : id ∈ A := by
        rcases hA1 id hin with h | h
        · exact h
        · omega
      have hroot : ∀ a, v.ids.count a = (if id == a then 1 else 0) +
          ((idsK fo.pre).count a + fo.child.ids.count a + (idsK fo.post).count a) := by
        intro a; rw [hids]; simp only [cellIds_some, List.count_append, List.count_cons, List.count_nil]; omega
      intro e' he'
      simp only [List.mem_append, List.mem_singleton] at he'
      rcases he' with he' | rfl
      · refine ⟨?_, consKids e' he'⟩
        intro heq
        exfalso
        obtain ⟨h1, h2⟩ := hlog e' he'
        have := hu1 id hidA
        have h3 := hroot id
        simp only [beq_self_eq_true, if_true] at h3
        have := count_pos_of_mem (heq ▸ h2)
        omega
      · refine ⟨fun _ => rfl, ?_⟩
        apply consK_of_not_mem
        have h1 := hu1 id hidA
        have h3 := hroot id
        simp only [beq_self_eq_true, if_true] at h3
        have h4 := hcnt id hidf
        have h5 : n.ids.count id = 0 := List.count_eq_zero.mpr (hnA id hidA)
        simp only [idsK_append, idsK, List.mem_append, not_or]
        exact ⟨not_mem_of_count_zero (by omega), not_mem_of_count_zero (by omega), not_mem_of_count_zero (by omega)⟩
    · intro e' he'
      refine ⟨?_, consKids e' he'⟩
      intro heq
      have := hA e'.1 (hlog e' he').1
      omega

/-- owned labels occur at most once -/
def Uniq (A : List Nat) (t : T) : Prop := ∀ a ∈ A, t.ids.count a ≤ 1

/-- (4) `upd` re-establishes uniqueness of owned labels for the new allocator -/
theorem upd_uniq (p : Path) (v n : T) (A : List Nat) (f : Nat) v' A' f' log
    (h : upd A f p v n = some (v', A', f', log))
    (hu : Uniq A v) (hnA : ∀ a ∈ A, a ∉ n.ids)
    (hv : ∀ j ∈ v.ids, j < f) (hn : ∀ j ∈ n.ids, j < f) (hA : ∀ a ∈ A, a < f) : Uniq A' v' := by
  obtain ⟨hf, hA1, hAA1, hub, hcnt, hfresh, hlog⟩ := upd_book p v n A f v' A' f' log h hv hn hA
  intro a ha
  rcases hA1 a ha with h1 | h1
  · have := hcnt a (hA a h1)
    have := hu a h1
    have : n.ids.count a = 0 := List.count_eq_zero.mpr (hnA a h1)
    omega
  · exact hfresh a h1.1


/-! ### the owned cells form a top-closed part of the value -/

mutual
  /-- below a cell that is not owned nothing is owned (`allocator.release` prunes there) -/
  def tc (A : List Nat) : T → Prop
    | .leaf _ => True
    | .hole => True
    | .node id _ _ ks => (id ∈ A → tcK A ks) ∧ (id ∉ A → ∀ a ∈ idsK ks, a ∉ A)
  def tcK (A : List Nat) : Kids → Prop
    | [] => True
    | (_, t) :: ks => tc A t ∧ tcK A ks
end

theorem mem_idsK {x : Bytes × T} {ks : Kids} (h : x ∈ ks) : ∀ a ∈ x.2.ids, a ∈ idsK ks := by
  induction ks with
  | nil => cases h
  | cons y ys ih =>
    obtain ⟨k, t⟩ := y
    intro a ha
    simp only [idsK, List.mem_append]
    rcases List.mem_cons.mp h with rfl | h
    · exact Or.inl ha
    · exact Or.inr (ih h a ha)

theorem tcK_iff (A : List Nat) (ks : Kids) : tcK A ks ↔ ∀ x ∈ ks, tc A x.2 := by
  induction ks with
  | nil => simp [tcK]
  | cons y ys ih => obtain ⟨k, t⟩ := y; simp [tcK, ih]

mutual
  theorem tc_of_disjoint (A : List Nat) : ∀ t : T, (∀ a ∈ t.ids, a ∉ A) → tc A t
    | .leaf _, _ => trivial
    | .hole, _ => trivial
    | .node id _ _ ks, h => by
      simp only [T.ids, List.mem_cons, forall_eq_or_imp] at h
      exact ⟨fun hin => absurd hin h.1, fun _ => h.2⟩
  theorem tcK_of_disjoint (A : List Nat) : ∀ ks : Kids, (∀ a ∈ idsK ks, a ∉ A) → tcK A ks
    | [], _ => trivial
    | (_, t) :: ks, h => by
      simp only [idsK, List.mem_append] at h
      exact ⟨tc_of_disjoint A t (fun a ha => h a (Or.inl ha)), tcK_of_disjoint A ks (fun a ha => h a (Or.inr ha))⟩
end

mutual
  theorem tc_congr (A A' : List Nat) : ∀ t : T, (∀ j ∈ t.ids, (j ∈ A ↔ j ∈ A')) → tc A t → tc A' t
    | .leaf _, _, _ => trivial
    | .hole, _, _ => trivial
    | .node id _ _ ks, h, ht => by
      simp only [T.ids, List.mem_cons, forall_eq_or_imp] at h
      simp only [tc] at ht ⊢
      constructor
      · intro hin
        exact tcK_congr A A' ks h.2 (ht.1 (h.1.mpr hin))
      · intro hnin a ha hA'
        exact ht.2 (fun hA => hnin (h.1.mp hA)) a ha ((h.2 a ha).mpr hA')
  theorem tcK_congr (A A' : List Nat) : ∀ ks : Kids, (∀ j ∈ idsK ks, (j ∈ A ↔ j ∈ A')) → tcK A ks → tcK A' ks
    | [], _, _ => trivial
    | (_, t) :: ks, h, ht => by
      simp only [idsK, List.mem_append] at h
      simp only [tcK] at ht ⊢
      exact ⟨tc_congr A A' t (fun j hj => h j (Or.inl hj)) ht.1, tcK_congr A A' ks (fun j hj => h j (Or.inr hj)) ht.2⟩
end

theorem tc_kid {A : List Nat} {id : Nat} {o : Bool} {c : Nat} {ks : Kids} (h : tc A (.node id o c ks)) :
    ∀ x ∈ ks, tc A x.2 := by
  simp only [tc] at h
  by_cases hin : id ∈ A
  · exact (tcK_iff A ks).mp (h.1 hin)
  · intro x hx
    exact tc_of_disjoint A x.2 (fun a ha => h.2 hin a (mem_idsK hx a ha))

theorem tc_null (A : List Nat) : tc A T.null := trivial

/-- every part of the focus is a child of the entered container or `null` -/
theorem enter_mem (e : PE) (v : T) (cell o fo) (h : enter e v = some (cell, o, fo)) :
    (∀ id c, cell = some (id, c) → ∃ o' ks, v = .node id o' c ks) ∧
    ∀ t, (t = fo.child ∨ (∃ x ∈ fo.pre ++ fo.post, x.2 = t)) →
      t = T.null ∨ ∃ id o' c ks, v = .node id o' c ks ∧ ∃ x ∈ ks, x.2 = t := by
  cases e with
  | key k =>
    cases v with
    | hole => simp [enter] at h
    | leaf s =>
      cases s <;> simp only [enter, Option.some.injEq, Prod.mk.injEq, reduceCtorEq] at h
      obtain ⟨rfl, rfl, rfl⟩ := h
      refine ⟨by simp, ?_⟩
      intro t ht
      rcases ht with rfl | ⟨x, hx, _⟩
      · exact Or.inl rfl
      · simp at hx
    | node id ob c ks =>
      cases ob with
      | false => simp [enter] at h
      | true =>
        simp only [enter, Option.some.injEq, Prod.mk.injEq] at h
        obtain ⟨rfl, rfl, rfl⟩ := h
        refine ⟨fun id' c' hc => by simp only [Option.some.injEq, Prod.mk.injEq] at hc; obtain ⟨rfl, rfl⟩ := hc; exact ⟨_, _, rfl⟩, ?_⟩
        intro t ht
        rcases hs : splitKey k ks with ⟨pre, ox, post⟩
        simp only [hs] at ht
        cases ox with
        | none =>
          have hks := splitKey_absent k ks pre post hs
          rcases ht with rfl | ⟨x, hx, rfl⟩
          · exact Or.inl rfl
          · exact Or.inr ⟨id, true, c, ks, rfl, x, by rw [hks]; exact hx, rfl⟩
        | some y =>
          have hks := splitKey_found k ks pre post y hs
          right
          refine ⟨id, true, c, ks, rfl, ?_⟩
          rcases ht with rfl | ⟨x, hx, rfl⟩
          · exact ⟨(k, _), by rw [hks]; simp, rfl⟩
          · refine ⟨x, ?_, rfl⟩
            rw [hks]
            simp only [List.mem_append, List.mem_cons] at hx ⊢
            rcases hx with hx | hx
            · exact Or.inl hx
            · exact Or.inr (Or.inr hx)
  | idx i =>
    cases v with
    | hole => simp [enter] at h
    | leaf s =>
      cases s <;> simp only [enter, reduceCtorEq] at h
      split at h
      · split at h
        · cases h
        · simp only [Option.some.injEq, Prod.mk.injEq] at h
          obtain ⟨rfl, rfl, rfl⟩ := h
          refine ⟨by simp, ?_⟩
          intro t ht
          rcases ht with rfl | ⟨x, hx, rfl⟩
          · exact Or.inl rfl
          · simp only [List.append_nil, nullKids, List.mem_replicate] at hx
            exact Or.inl (by rw [hx.2])
      · cases h
    | node id ob c ks =>
      cases ob with
      | true => simp [enter] at h
      | false =>
        simp only [enter] at h
        split at h
        · cases h
        · simp only [Option.map_eq_some_iff] at h
          obtain ⟨⟨pre, y, post⟩, hs, h2⟩ := h
          simp only [Prod.mk.injEq] at h2
          obtain ⟨rfl, rfl, rfl⟩ := h2
          obtain ⟨k, hks, _⟩ := splitIdx_eq _ ks pre post y hs
          refine ⟨fun id' c' hc => by simp only [Option.some.injEq, Prod.mk.injEq] at hc; obtain ⟨rfl, rfl⟩ := hc; exact ⟨_, _, rfl⟩, ?_⟩
          intro t ht
          right
          refine ⟨id, false, c, ks, rfl, ?_⟩
          rcases ht with rfl | ⟨x, hx, rfl⟩
          · exact ⟨(k, _), by rw [hks]; simp, rfl⟩
          · refine ⟨x, ?_, rfl⟩
            rw [hks]
            simp only [List.mem_append, List.mem_cons] at hx ⊢
            rcases hx with hx | hx
            · exact Or.inl hx
            · exact Or.inr (Or.inr hx)
        · split at h
          · cases h
          · simp only [Option.some.injEq, Prod.mk.injEq] at h
            obtain ⟨rfl, rfl, rfl⟩ := h
            refine ⟨fun id' c' hc => by simp only [Option.some.injEq, Prod.mk.injEq] at hc; obtain ⟨rfl, rfl⟩ := hc; exact ⟨_, _, rfl⟩, ?_⟩
            intro t ht
            rcases ht with rfl | ⟨x, hx, rfl⟩
            · exact Or.inl rfl
            · simp only [List.append_nil, List.mem_append, nullKids, List.mem_replicate] at hx
              rcases hx with hx | hx
              · exact Or.inr ⟨id, false, c, ks, rfl, x, hx, rfl⟩
              · exact Or.inl (by rw [hx.2])

theorem enter_tc (A : List Nat) (e : PE) (v : T) (cell o fo) (h : enter e v = some (cell, o, fo)) (ht : tc A v) :
    tc A fo.child ∧ (∀ x ∈ fo.pre, tc A x.2) ∧ (∀ x ∈ fo.post, tc A x.2) := by
  have key : ∀ t, (t = fo.child ∨ (∃ x ∈ fo.pre ++ fo.post, x.2 = t)) → tc A t := by
    intro t htm
    rcases (enter_mem e v cell o fo h).2 t htm with rfl | ⟨id, o', c, ks, rfl, x, hx, rfl⟩
    · exact tc_null A
    · exact tc_kid ht x hx
  exact ⟨key _ (Or.inl rfl), fun x hx => key _ (Or.inr ⟨x, by simp [hx], rfl⟩), fun x hx => key _ (Or.inr ⟨x, by simp [hx], rfl⟩)⟩

theorem spine_count : ∀ (p : Path) (v : T) (a : Nat), (spine p v).count a ≤ v.ids.count a := by
  intro p
  induction p with
  | nil => intro v a; simp [spine]
  | cons e p ih =>
    intro v a
    simp only [spine]
    cases he : enter e v with
    | none => simp
    | some r =>
      obtain ⟨cell, o, fo⟩ := r
      have := ih fo.child a
      rw [enter_ids e v cell o fo he]
      simp only [List.count_append]
      omega

/-- (5) `upd` keeps the owned part top-closed -/
theorem upd_tc : ∀ (p : Path) (v n : T) (A : List Nat) (f : Nat) v' A' f' log,
    upd A f p v n = some (v', A', f', log) →
    tc A v → Uniq A v → (∀ a ∈ A, a ∉ n.ids) →
    (∀ j ∈ v.ids, j < f) → (∀ j ∈ n.ids, j < f) → (∀ a ∈ A, a < f) → tc A' v' := by
  intro p
  induction p with
  | nil =>
    intro v n A f v' A' f' log h _ _ hnA _ _ _
    simp only [upd, Option.some.injEq, Prod.mk.injEq] at h
    obtain ⟨rfl, rfl, rfl, rfl⟩ := h
    exact tc_of_disjoint _ _ (fun a ha hA => hnA a hA ha)
  | cons e p ih =>
    intro v n A f v' A' f' log h ht hu1 hnA hv hn hA
    obtain ⟨cell, o, fo, u, A1, f1, log1, he, hu, hcase⟩ := upd_step A f e p v n v' A' f' log h
    have hids := enter_ids e v cell o fo he
    have hpre : ∀ j ∈ idsK fo.pre, j < f := fun j hj => hv j (by rw [hids]; simp [hj])
    have hpost : ∀ j ∈ idsK fo.post, j < f := fun j hj => hv j (by rw [hids]; simp [hj])
    have hchild : ∀ j ∈ fo.child.ids, j < f := fun j hj => hv j (by rw [hids]; simp [hj])
    have hge : ∀ a, v.ids.count a = (cellIds cell).count a +
        ((idsK fo.pre).count a + fo.child.ids.count a + (idsK fo.post).count a) := by
      intro a; rw [hids]; simp only [List.count_append]
    have huc : Uniq A fo.child := fun a ha => by have := hu1 a ha; have := hge a; omega
    obtain ⟨hf, hA1, hAA1, hub, hcnt, hfresh, hlog⟩ := upd_book p fo.child n A f u A1 f1 log1 hu hchild hn hA
    obtain ⟨tcc, tcpre, tcpost⟩ := enter_tc A e v cell o fo he ht
    have htu := ih fo.child n A f u A1 f1 log1 hu tcc huc hnA hchild hn hA
    -- an owned label of a sibling is not on the spine below, so it is still registered
    have sibKeep : ∀ j, j ∈ A → (idsK fo.pre).count j + (idsK fo.post).count j > 0 → j ∈ A1 := by
      intro j hj hpos
      rcases hAA1 j hj with h | h
      · exact h
      · exfalso
        have := spine_count p fo.child j
        have := count_pos_of_mem h
        have := hu1 j hj
        have := hge j
        omega
    have sibAgree : ∀ (l : Kids) (x : Bytes × T), x ∈ l → (∀ a, (idsK l).count a ≤ (idsK fo.pre).count a + (idsK fo.post).count a) →
        (∀ j ∈ idsK l, j < f) → ∀ j ∈ x.2.ids, (j ∈ A ↔ j ∈ A1) := by
      intro l x hx hl hb j hj
      have hjl : j ∈ idsK l := mem_idsK hx j hj
      constructor
      · intro h; exact sibKeep j h (by have := hl j; have := count_pos_of_mem hjl; omega)
      · intro h
        rcases hA1 j h with h2 | h2
        · exact h2
        · have := hb j hjl; omega
    rcases hcase with ⟨id, c, rfl, hin, rfl, rfl, rfl, rfl⟩ | ⟨c', A2, rfl, rfl, rfl, rfl, hA2⟩
    · simp only [tc]
      refine ⟨fun _ => ?_, fun hnin => absurd hin hnin⟩
      rw [tcK_iff]
      intro x hx
      simp only [List.mem_append, List.mem_cons] at hx
      rcases hx with hx | rfl | hx
      · exact tc_congr A _ x.2 (sibAgree fo.pre x hx (fun a => by omega) hpre) (tcpre x hx)
      · exact htu
      · exact tc_congr A _ x.2 (sibAgree fo.post x hx (fun a => by omega) hpost) (tcpost x hx)
    · simp only [tc]
      refine ⟨fun _ => ?_, fun hnin => absurd (List.mem_cons_self) hnin⟩
      -- membership in the new allocator for labels below `f1` other than a freed root
      have a2 : ∀ j, j < f1 → (j ∈ A1 ∧ (∀ id c, cell = some (id, c) → j ≠ id) → j ∈ f1 :: A2) ∧ (j ∈ f1 :: A2 → j ∈ A1) := by
        intro j hj
        constructor
        · intro ⟨h1, h2⟩
          rcases hA2 with ⟨hEq, _⟩ | ⟨id, c, hc, _, hEq⟩
          · rw [hEq]; exact List.mem_cons_of_mem _ h1
          · rw [hEq]; exact List.mem_cons_of_mem _ (List.mem_filter.mpr ⟨h1, by simpa using h2 id c hc⟩)
        · intro hm
          rcases List.mem_cons.mp hm with rfl | hm
          · omega
          · rcases hA2 with ⟨hEq, _⟩ | ⟨id, c, _, _, hEq⟩
            · rw [hEq] at hm; exact hm
            · rw [hEq] at hm; exact (List.mem_filter.mp hm).1
      -- the root of `v`, when it is an owned cell, occurs nowhere below
      have rootOnce : ∀ id c, cell = some (id, c) → id ∈ A →
          (idsK fo.pre).count id + fo.child.ids.count id + (idsK fo.post).count id = 0 := by
        intro id c hc hidA
        have := hu1 id hidA
        have := hge id
        rw [hc] at this
        simp only [cellIds_some, List.count_cons, List.count_nil, beq_self_eq_true, if_true] at this
        omega
      have sib : ∀ (l : Kids) (x : Bytes × T), x ∈ l → (∀ a, (idsK l).count a ≤ (idsK fo.pre).count a + (idsK fo.post).count a) →
          (∀ j ∈ idsK l, j < f) → tc A x.2 → tc (f1 :: A2) x.2 := by
        intro l x hx hl hb htx
        refine tc_congr A _ x.2 ?_ htx
        intro j hj
        have hjl : j ∈ idsK l := mem_idsK hx j hj
        have hjf : j < f := hb j hjl
        constructor
        · intro hm
          refine (a2 j (by omega)).1 ⟨(sibAgree l x hx hl hb j hj).mp hm, ?_⟩
          intro id c hc heq
          subst heq
          have := rootOnce j c hc hm
          have := hl j
          have := count_pos_of_mem hjl
          omega
        · intro hm
          exact (sibAgree l x hx hl hb j hj).mpr ((a2 j (by omega)).2 hm)
      rw [tcK_iff]
      intro x hx
      simp only [List.mem_append, List.mem_cons] at hx
      rcases hx with hx | rfl | hx
      · exact sib fo.pre x hx (fun a => by omega) hpre (tcpre x hx)
      · refine tc_congr A1 (f1 :: A2) u ?_ htu
        intro j hj
        have hjf1 := hub j hj
        constructor
        · intro hm
          refine (a2 j hjf1).1 ⟨hm, ?_⟩
          intro id c hc heq
          subst heq
          -- the root of `v`, if owned, is below `f` and unique: it does not occur in `u`
          rcases hA1 j hm with h2 | h2
          · have h0 := rootOnce j c hc h2
            have := hcnt j (hA j h2)
            have : n.ids.count j = 0 := List.count_eq_zero.mpr (hnA j h2)
            have := count_pos_of_mem hj
            omega
          · have : j ∈ v.ids := by rw [hids, hc]; simp
            have := hv j this
            omega
        · exact (a2 j hjf1).2
      · exact sib fo.post x hx (fun a => by omega) hpost (tcpost x hx)

end Gojq.Heap

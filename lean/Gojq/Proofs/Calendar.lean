/- Helper lemmas for C13: the civil-calendar algorithms are inverse to each other. Core Lean only. -/
import Gojq.Model.Calendar
namespace Gojq.Calendar
open Gojq

/-- year-of-era computed from day-of-era stays in 0..399 -/
theorem yoe_range (doe : Int) (h0 : 0 ≤ doe) (h1 : doe ≤ 146096) :
    0 ≤ (doe - doe / 1460 + doe / 36524 - doe / 146096) / 365 ∧
    (doe - doe / 1460 + doe / 36524 - doe / 146096) / 365 ≤ 399 := by omega

/-- the day of the (March-based) year is in 0..365: `omega` needs the century of the day, the
    century of the year and the last-day flag fixed. -/
theorem doy_range (doe yoe : Int) (h0 : 0 ≤ doe) (h1 : doe ≤ 146096)
    (hy : yoe = (doe - doe / 1460 + doe / 36524 - doe / 146096) / 365) :
    0 ≤ doe - (365 * yoe + yoe / 4 - yoe / 100) ∧ doe - (365 * yoe + yoe / 4 - yoe / 100) ≤ 365 := by
  subst hy
  generalize hf : doe / 36524 = f
  generalize hg : doe / 146096 = g
  have hf' : f = 0 ∨ f = 1 ∨ f = 2 ∨ f = 3 ∨ f = 4 := by omega
  have hg' : g = 0 ∨ g = 1 := by omega
  generalize hb : (doe - doe / 1460 + f - g) / 365 = b
  generalize hd : b / 100 = d
  have hd' : d = 0 ∨ d = 1 ∨ d = 2 ∨ d = 3 := by omega
  rcases hf' with rfl | rfl | rfl | rfl | rfl <;> rcases hg' with rfl | rfl <;>
    rcases hd' with rfl | rfl | rfl | rfl <;> omega

/-- month index (March = 0) and day of month from the day of year -/
theorem mp_range (doy : Int) (h0 : 0 ≤ doy) (h1 : doy ≤ 365) :
    0 ≤ (5 * doy + 2) / 153 ∧ (5 * doy + 2) / 153 ≤ 11 ∧
    1 ≤ doy - (153 * ((5 * doy + 2) / 153) + 2) / 5 + 1 ∧
    doy - (153 * ((5 * doy + 2) / 153) + 2) / 5 + 1 ≤ 31 := by omega

/-- the second stage: (month, day) ↦ day of year is a left inverse -/
theorem doy_roundtrip (doy mp m d : Int) (h0 : 0 ≤ doy) (h1 : doy ≤ 365)
    (hmp : mp = (5 * doy + 2) / 153) (hm : m = if mp < 10 then mp + 3 else mp - 9)
    (hd : d = doy - (153 * mp + 2) / 5 + 1) :
    (153 * (if m > 2 then m - 3 else m + 9) + 2) / 5 + d - 1 = doy ∧ 1 ≤ m ∧ m ≤ 12 ∧ 1 ≤ d ∧ d ≤ 31 := by
  have := mp_range doy h0 h1
  subst hmp
  split at hm <;> subst hm <;> subst hd <;> (split <;> omega)

/-- the first stage: (era, year of era) are recovered from the civil year -/
theorem era_roundtrip (era yoe c : Int) (h0 : 0 ≤ yoe) (h1 : yoe ≤ 399) :
    (yoe + era * 400 + c - c) / 400 = era ∧ yoe + era * 400 + c - c - era * 400 = yoe := by omega

/-- `daysFromCivil ∘ civilFromDays = id` on every day number -/
theorem daysFromCivil_civilFromDays (z : Int) :
    daysFromCivil (civilFromDays z).1 (civilFromDays z).2.1 (civilFromDays z).2.2 = z := by
  unfold civilFromDays
  simp only []
  generalize hera : (z + 719468) / 146097 = era
  generalize hdoe : z + 719468 - era * 146097 = doe
  have hdoe0 : 0 ≤ doe ∧ doe ≤ 146096 := by omega
  generalize hyoe : (doe - doe / 1460 + doe / 36524 - doe / 146096) / 365 = yoe
  have hy := yoe_range doe hdoe0.1 hdoe0.2
  rw [hyoe] at hy
  have hdoy := doy_range doe yoe hdoe0.1 hdoe0.2 hyoe.symm
  generalize hdoyv : doe - (365 * yoe + yoe / 4 - yoe / 100) = doy at hdoy
  generalize hmp : (5 * doy + 2) / 153 = mp
  generalize hm : (if mp < 10 then mp + 3 else mp - 9) = m
  generalize hd : doy - (153 * mp + 2) / 5 + 1 = d
  have h2 := doy_roundtrip doy mp m d hdoy.1 hdoy.2 hmp.symm hm.symm hd.symm
  unfold daysFromCivil
  simp only []
  generalize hc : (if m ≤ 2 then (1 : Int) else 0) = c
  have h1 := era_roundtrip era yoe c hy.1 hy.2
  rw [h1.1, h1.2, h2.1]
  omega

/-- fields of the civil date are in calendar range -/
theorem civilFromDays_range (z : Int) :
    1 ≤ (civilFromDays z).2.1 ∧ (civilFromDays z).2.1 ≤ 12 ∧
    1 ≤ (civilFromDays z).2.2 ∧ (civilFromDays z).2.2 ≤ 31 := by
  unfold civilFromDays
  simp only []
  generalize hera : (z + 719468) / 146097 = era
  generalize hdoe : z + 719468 - era * 146097 = doe
  have hdoe0 : 0 ≤ doe ∧ doe ≤ 146096 := by omega
  generalize hyoe : (doe - doe / 1460 + doe / 36524 - doe / 146096) / 365 = yoe
  have hdoy := doy_range doe yoe hdoe0.1 hdoe0.2 hyoe.symm
  generalize hdoyv : doe - (365 * yoe + yoe / 4 - yoe / 100) = doy at hdoy
  generalize hmp : (5 * doy + 2) / 153 = mp
  generalize hm : (if mp < 10 then mp + 3 else mp - 9) = m
  generalize hd : doy - (153 * mp + 2) / 5 + 1 = d
  have h2 := doy_roundtrip doy mp m d hdoy.1 hdoy.2 hmp.symm hm.symm hd.symm
  exact h2.2


theorem mktime_gmtime (t : Int) : mktime (gmtime t) = t := by
  unfold gmtime mktime mktimeFields
  simp only []
  have hr := civilFromDays_range (t / 86400)
  have hd := daysFromCivil_civilFromDays (t / 86400)
  generalize civilFromDays (t / 86400) = c at hr hd
  obtain ⟨y, m, d⟩ := c
  simp only [] at hr hd ⊢
  have h1 : (m - 1) / 12 = 0 := by omega
  have h2 : (m - 1) % 12 + 1 = m := by omega
  rw [h1, h2, Int.add_zero, hd]
  omega

theorem toNat_digit (n : Int) : (digit n).toNat = 48 + (n % 10).toNat := by
  unfold digit
  rw [UInt8.toNat_ofNat']
  omega

theorem dig_digit (n : Int) : dig (digit n) = some (n % 10) := by
  unfold dig
  rw [toNat_digit]
  have : 0 ≤ n % 10 ∧ n % 10 < 10 := by omega
  rw [if_pos (by omega)]
  congr 1
  omega

theorem num2_fmt (n : Int) (h0 : 0 ≤ n) (h1 : n ≤ 99) : num2 (digit (n / 10)) (digit n) = some n := by
  unfold num2
  simp only [dig_digit]
  congr 1
  omega

theorem num4_fmt (n : Int) (h0 : 0 ≤ n) (h1 : n ≤ 9999) :
    num4 (digit (n / 1000)) (digit (n / 100)) (digit (n / 10)) (digit n) = some n := by
  unfold num4
  simp only [dig_digit]
  congr 1
  omega

theorem dateShape_formatDate (b : Broken) (hy : 0 ≤ b.year ∧ b.year ≤ 9999)
    (hm : 0 ≤ b.month0 + 1 ∧ b.month0 + 1 ≤ 99) (hd : 0 ≤ b.day ∧ b.day ≤ 99) (hh : 0 ≤ b.hour ∧ b.hour ≤ 99)
    (hi : 0 ≤ b.minute ∧ b.minute ≤ 99) (hs : 0 ≤ b.second ∧ b.second ≤ 99) :
    dateShape (formatDate b) = some (b.year, b.month0 + 1, b.day, b.hour, b.minute, b.second) := by
  unfold formatDate fmt4 fmt2
  simp only [List.cons_append, List.nil_append, dateShape]
  simp [num4_fmt _ hy.1 hy.2, num2_fmt _ hm.1 hm.2, num2_fmt _ hd.1 hd.2, num2_fmt _ hh.1 hh.2,
    num2_fmt _ hi.1 hi.2, num2_fmt _ hs.1 hs.2]


theorem year_range (t : Int) (h0 : -62135596800 ≤ t) (h1 : t ≤ 253402300799) :
    1 ≤ (gmtime t).year ∧ (gmtime t).year ≤ 9999 := by
  unfold gmtime civilFromDays
  simp only []
  generalize hz : t / 86400 + 719468 = z
  have hz0 : 306 ≤ z ∧ z ≤ 3652364 := by omega
  generalize hera : z / 146097 = era
  generalize hdoe : z - era * 146097 = doe
  have hdoe0 : 0 ≤ doe ∧ doe ≤ 146096 := by omega
  have hera0 : 0 ≤ era ∧ era ≤ 24 := by omega
  generalize hyoe : (doe - doe / 1460 + doe / 36524 - doe / 146096) / 365 = yoe
  have hy := yoe_range doe hdoe0.1 hdoe0.2
  rw [hyoe] at hy
  have hdoy := doy_range doe yoe hdoe0.1 hdoe0.2 hyoe.symm
  generalize hdoyv : doe - (365 * yoe + yoe / 4 - yoe / 100) = doy at hdoy
  generalize hmp : (5 * doy + 2) / 153 = mp
  have hmp0 := mp_range doy hdoy.1 hdoy.2
  rw [hmp] at hmp0
  constructor
  · by_cases he : era = 0
    · subst he
      by_cases hy0 : yoe = 0
      · subst hy0
        split <;> split <;> omega
      · split <;> split <;> omega
    · split <;> split <;> omega
  · by_cases he : era = 24
    · subst he
      by_cases hy0 : yoe = 399
      · subst hy0
        split <;> split <;> omega
      · split <;> split <;> omega
    · split <;> split <;> omega

/-- every field `gmtime` produces is in its calendar range -/
theorem gmtime_fields_range (t : Int) :
    1 ≤ (gmtime t).month0 + 1 ∧ (gmtime t).month0 + 1 ≤ 12 ∧ 1 ≤ (gmtime t).day ∧ (gmtime t).day ≤ 31 ∧
    0 ≤ (gmtime t).hour ∧ (gmtime t).hour ≤ 23 ∧ 0 ≤ (gmtime t).minute ∧ (gmtime t).minute ≤ 59 ∧
    0 ≤ (gmtime t).second ∧ (gmtime t).second ≤ 59 := by
  have hr := civilFromDays_range (t / 86400)
  unfold gmtime
  simp only []
  generalize civilFromDays (t / 86400) = c at hr
  obtain ⟨y, m, d⟩ := c
  simp only [] at hr ⊢
  omega

/-- parsing the fixed layout gives back the instant, for years 0..9999 (model without the quirk) -/
theorem parseDate_todate (t : Int) (hy : 0 ≤ (gmtime t).year ∧ (gmtime t).year ≤ 9999) :
    parseDate (todate t) = some (some t) := by
  have hf := gmtime_fields_range t
  have hm := mktime_gmtime t
  unfold parseDate todate
  rw [dateShape_formatDate (gmtime t) hy (by omega) (by omega) (by omega) (by omega) (by omega)]
  simp only []
  have hok : fieldsOk ((gmtime t).month0 + 1) (gmtime t).day (gmtime t).hour (gmtime t).minute (gmtime t).second = true := by
    unfold fieldsOk
    simp only [Bool.and_eq_true, decide_eq_true_eq]
    omega
  rw [if_pos hok]
  unfold mktime at hm
  rw [Int.add_sub_cancel, hm]

end Gojq.Calendar

/-
  Helper lemmas for Props/C13Pairs.lean, part 1: what the transliterated natives `funcGetpath` and
  `funcSetpath` (Model/Native/Path.lean: `getpathLoop`, `update` on marked values) compute on
  KEY/INDEX paths — paths whose elements are strings and numbers (any number: `toInt` truncates
  and saturates), i.e. everything but slices and ill-typed elements — as two plain structural
  functions on JSON values, `getKI` and `setKI` (errors collapsed to `none`):

      (funcGetpath v (.arr p)).toOption   = getKI p v
      (funcSetpath v (.arr p) n).toOption = setKI n p v          for every key/index path p

  All laws of part 2 are proved about `getKI` / `setKI` and transported through these equations.
-/
import Gojq.Model.Pairs
namespace Gojq.Pairs
open Gojq

/-- the Go `int` a number path element denotes (`toInt`: truncating, saturating) -/
def idxOf (m : Num) : Int := (toInt? (.num m)).getD 0

/-- key/index path: strings and numbers only -/
def KIPath (p : List JV) : Prop := ∀ e ∈ p, (∃ k, e = .str k) ∨ (∃ m, e = .num m)

theorem KIPath.nil : KIPath [] := by intro e he; cases he

theorem KIPath.cons {e : JV} {p : List JV} (he : (∃ k, e = .str k) ∨ (∃ m, e = .num m)) (hp : KIPath p) :
    KIPath (e :: p) := by
  intro x hx
  rcases List.mem_cons.mp hx with rfl | hx
  · exact he
  · exact hp x hx

theorem KIPath.tail {e : JV} {p : List JV} (h : KIPath (e :: p)) : KIPath p :=
  fun x hx => h x (List.mem_cons_of_mem _ hx)

theorem KIPath.append {p q : List JV} (hp : KIPath p) (hq : KIPath q) : KIPath (p ++ q) := by
  intro x hx
  rcases List.mem_append.mp hx with h | h
  · exact hp x h
  · exact hq x h

/-- `v` as the array `updateArrayIndex` works on (`nil` is the empty array) -/
def arrOf : JV → Option (List JV)
  | .null => some []
  | .arr xs => some xs
  | _ => none

/-- `getpath` on a key/index path; `none` = any error -/
def getKI : List JV → JV → Option JV
  | [], v => some v
  | .str _ :: rest, .null => getKI rest .null
  | .str k :: rest, .obj kvs => getKI rest ((kvLookup k kvs).getD .null)
  | .num _ :: rest, .null => getKI rest .null
  | .num m :: rest, .arr xs => getKI rest (indexArr xs (idxOf m))
  | _ :: _, _ => none

/-- `setpath` on a key/index path; `none` = any error -/
def setKI (n : JV) : List JV → JV → Option JV
  | [], _ => some n
  | .str k :: rest, .null => (setKI n rest .null).map fun w => .obj [(k, w)]
  | .str k :: rest, .obj kvs =>
    (setKI n rest ((kvLookup k kvs).getD .null)).map fun w => .obj (kvInsert k w kvs)
  | .num m :: rest, v =>
    match arrOf v with
    | none => none
    | some xs =>
      let i := idxOf m
      let j := clampIndex i (-1) xs.length
      if j < 0 then none
      else if j < xs.length then
        (setKI n rest (xs.getD j.toNat .null)).map fun w => .arr (xs.set j.toNat w)
      else if i ≥ 536870912 then none
      else (setKI n rest .null).map fun w => .arr (xs ++ List.replicate (i.toNat - xs.length) .null ++ [w])
  | _ :: _, _ => none

/-! ### getpath -/

theorem toOption_ok {α ε} (x : α) : (Except.ok x : Except ε α).toOption = some x := rfl
theorem toOption_error {α ε} (e : ε) : (Except.error e : Except ε α).toOption = none := rfl

theorem toOption_eq_some {α ε} {r : Except ε α} {x : α} : r.toOption = some x ↔ r = .ok x := by
  cases r with
  | ok y => simp [Except.toOption]
  | error e => simp [Except.toOption]

theorem getpathLoop_eq (u p0 : JV) : ∀ (p : List JV) (v : JV), KIPath p →
    (getpathLoop u p0 v p).toOption = getKI p v
  | [], v, _ => rfl
  | e :: rest, v, hp => by
    have ih := fun w => getpathLoop_eq u p0 rest w hp.tail
    rcases hp e (by simp) with ⟨k, rfl⟩ | ⟨m, rfl⟩
    · cases v with
      | null => simpa [getpathLoop, funcIndex2, getKI, pure, Except.pure] using ih .null
      | obj kvs => simpa [getpathLoop, funcIndex2, getKI, pure, Except.pure] using ih _
      | arr xs => simp [getpathLoop, funcIndex2, getKI, throw, throwThe, MonadExceptOf.throw, Except.toOption]
      | bool b => simp [getpathLoop, getKI, throw, throwThe, MonadExceptOf.throw, Except.toOption]
      | num b => simp [getpathLoop, getKI, throw, throwThe, MonadExceptOf.throw, Except.toOption]
      | str b => simp [getpathLoop, getKI, throw, throwThe, MonadExceptOf.throw, Except.toOption]
    · cases v with
      | null => simpa [getpathLoop, funcIndex2, getKI, pure, Except.pure] using ih .null
      | arr xs => simpa [getpathLoop, funcIndex2, getKI, pure, Except.pure, idxOf] using ih _
      | obj kvs => simp [getpathLoop, funcIndex2, getKI, throw, throwThe, MonadExceptOf.throw, Except.toOption]
      | bool b => simp [getpathLoop, getKI, throw, throwThe, MonadExceptOf.throw, Except.toOption]
      | num b => simp [getpathLoop, getKI, throw, throwThe, MonadExceptOf.throw, Except.toOption]
      | str b => simp [getpathLoop, getKI, throw, throwThe, MonadExceptOf.throw, Except.toOption]

/-- `funcGetpath` on a key/index path is `getKI` -/
theorem funcGetpath_eq (v : JV) (p : List JV) (hp : KIPath p) :
    (funcGetpath v (.arr p)).toOption = getKI p v := by
  simp only [funcGetpath]
  exact getpathLoop_eq v (.arr p) p v hp

theorem funcGetpath_ok {v : JV} {p : List JV} (hp : KIPath p) {x : JV} :
    funcGetpath v (.arr p) = .ok x ↔ getKI p v = some x := by
  rw [← funcGetpath_eq v p hp, toOption_eq_some]

end Gojq.Pairs

/-
  Helper lemmas for Props/C13Pairs.lean, part 1: what the transliterated natives `funcGetpath` and
  `funcSetpath` (Model/Native/Path.lean: `getpathLoop`, `update` on marked values) compute on
  KEY/INDEX paths — paths whose elements are strings and numbers (any number: `toInt` truncates
  and saturates), i.e. everything but slices and ill-typed elements — as two plain structural
  functions on JSON values, `getKI` and `setKI` (errors collapsed to `none`):

      (funcGetpath v (.arr p)).toOption   = getKI p v
      (funcSetpath v (.arr p) n).toOption = setKI n p v          for every key/index path p

  All laws of part 2 are proved about `getKI` / `setKI` and transported through these equations.
-/
import Gojq.Model.Pairs
namespace Gojq.Pairs
open Gojq

theorem KIPath.nil : KIPath [] := by intro e he; cases he

theorem KIPath.cons {e : JV} {p : List JV} (he : (∃ k, e = .str k) ∨ (∃ m, e = .num m)) (hp : KIPath p) :
    KIPath (e :: p) := by
  intro x hx
  rcases List.mem_cons.mp hx with rfl | hx
  · exact he
  · exact hp x hx

theorem KIPath.tail {e : JV} {p : List JV} (h : KIPath (e :: p)) : KIPath p :=
  fun x hx => h x (List.mem_cons_of_mem _ hx)

theorem KIPath.append {p q : List JV} (hp : KIPath p) (hq : KIPath q) : KIPath (p ++ q) := by
  intro x hx
  rcases List.mem_append.mp hx with h | h
  · exact hp x h
  · exact hq x h

/-- `v` as the array `updateArrayIndex` works on (`nil` is the empty array) -/
def arrOf : JV → Option (List JV)
  | .null => some []
  | .arr xs => some xs
  | _ => none

/-- `getpath` on a key/index path; `none` = any error -/
def getKI : List JV → JV → Option JV
  | [], v => some v
  | .str _ :: rest, .null => getKI rest .null
  | .str k :: rest, .obj kvs => getKI rest ((kvLookup k kvs).getD .null)
  | .num _ :: rest, .null => getKI rest .null
  | .num m :: rest, .arr xs => getKI rest (indexArr xs (idxOf m))
  | _ :: _, _ => none

/-- `setpath` on a key/index path; `none` = any error -/
def setKI (n : JV) : List JV → JV → Option JV
  | [], _ => some n
  | .str k :: rest, .null => (setKI n rest .null).map fun w => .obj [(k, w)]
  | .str k :: rest, .obj kvs =>
    (setKI n rest ((kvLookup k kvs).getD .null)).map fun w => .obj (kvInsert k w kvs)
  | .num m :: rest, v =>
    match arrOf v with
    | none => none
    | some xs =>
      let i := idxOf m
      let j := clampIndex i (-1) xs.length
      if j < 0 then none
      else if j < xs.length then
        (setKI n rest (xs.getD j.toNat .null)).map fun w => .arr (xs.set j.toNat w)
      else if i ≥ 536870912 then none
      else (setKI n rest .null).map fun w => .arr (xs ++ List.replicate (i.toNat - xs.length) .null ++ [w])
  | _ :: _, _ => none

/-! ### getpath -/

theorem toOption_ok {α ε} (x : α) : (Except.ok x : Except ε α).toOption = some x := rfl
theorem toOption_error {α ε} (e : ε) : (Except.error e : Except ε α).toOption = none := rfl

theorem toOption_eq_some {α ε} {r : Except ε α} {x : α} : r.toOption = some x ↔ r = .ok x := by
  cases r with
  | ok y => simp [Except.toOption]
  | error e => simp [Except.toOption]

theorem getpathLoop_eq (u p0 : JV) : ∀ (p : List JV) (v : JV), KIPath p →
    (getpathLoop u p0 v p).toOption = getKI p v
  | [], v, _ => rfl
  | e :: rest, v, hp => by
    have ih := fun w => getpathLoop_eq u p0 rest w hp.tail
    rcases hp e (by simp) with ⟨k, rfl⟩ | ⟨m, rfl⟩
    · cases v with
      | null => simpa [getpathLoop, funcIndex2, getKI, pure, Except.pure] using ih .null
      | obj kvs => simpa [getpathLoop, funcIndex2, getKI, pure, Except.pure] using ih _
      | arr xs => simp [getpathLoop, funcIndex2, getKI, throw, throwThe, MonadExceptOf.throw, Except.toOption]
      | bool b => simp [getpathLoop, getKI, throw, throwThe, MonadExceptOf.throw, Except.toOption]
      | num b => simp [getpathLoop, getKI, throw, throwThe, MonadExceptOf.throw, Except.toOption]
      | str b => simp [getpathLoop, getKI, throw, throwThe, MonadExceptOf.throw, Except.toOption]
    · cases v with
      | null => simpa [getpathLoop, funcIndex2, getKI, pure, Except.pure] using ih .null
      | arr xs => simpa [getpathLoop, funcIndex2, getKI, pure, Except.pure, idxOf] using ih _
      | obj kvs => simp [getpathLoop, funcIndex2, getKI, throw, throwThe, MonadExceptOf.throw, Except.toOption]
      | bool b => simp [getpathLoop, getKI, throw, throwThe, MonadExceptOf.throw, Except.toOption]
      | num b => simp [getpathLoop, getKI, throw, throwThe, MonadExceptOf.throw, Except.toOption]
      | str b => simp [getpathLoop, getKI, throw, throwThe, MonadExceptOf.throw, Except.toOption]

/-- `funcGetpath` on a key/index path is `getKI` -/
theorem funcGetpath_eq (v : JV) (p : List JV) (hp : KIPath p) :
    (funcGetpath v (.arr p)).toOption = getKI p v := by
  simp only [funcGetpath]
  exact getpathLoop_eq v (.arr p) p v hp

theorem funcGetpath_ok {v : JV} {p : List JV} (hp : KIPath p) {x : JV} :
    funcGetpath v (.arr p) = .ok x ↔ getKI p v = some x := by
  rw [← funcGetpath_eq v p hp, toOption_eq_some]

/-! ### setpath -/

def valKv (kv : Bytes × JV) : Bytes × MV := (kv.1, .val kv.2)

theorem shape_val_obj (kvs : List (Bytes × JV)) : MV.shape (.val (.obj kvs)) = .obj (kvs.map valKv) := rfl
theorem shape_val_arr (xs : List JV) : MV.shape (.val (.arr xs)) = .arr (xs.map .val) := rfl

theorem kvLookupM_map (k : Bytes) : ∀ kvs : List (Bytes × JV),
    MV.kvLookupM k (kvs.map valKv) = (kvLookup k kvs).map MV.val
  | [] => rfl
  | (k', v') :: rest => by
    simp only [List.map_cons, valKv, MV.kvLookupM, kvLookup]
    split
    · rfl
    · exact kvLookupM_map k rest

theorem toJVKvs_map_val : ∀ kvs : List (Bytes × JV), MV.toJVKvs? (kvs.map valKv) = some kvs
  | [] => rfl
  | (k, v) :: rest => by
    have ih := toJVKvs_map_val rest
    simp only [List.map_cons, valKv, MV.toJVKvs?, MV.toJV?] at ih ⊢
    rw [ih]

theorem toJVKvs_insert (k : Bytes) (u : MV) : ∀ kvs : List (Bytes × JV),
    MV.toJVKvs? (MV.kvInsertM k u (kvs.map valKv)) = u.toJV?.map fun w => kvInsert k w kvs
  | [] => by
    simp only [List.map_nil, MV.kvInsertM, MV.toJVKvs?, kvInsert]
    cases u.toJV? <;> rfl
  | (k', v') :: rest => by
    simp only [List.map_cons, valKv, MV.kvInsertM, kvInsert]
    cases h : Bytes.cmp k k' with
    | lt =>
      have := toJVKvs_map_val rest
      simp only [MV.toJVKvs?, MV.toJV?, this]
      cases u.toJV? <;> rfl
    | eq =>
      have := toJVKvs_map_val rest
      simp only [MV.toJVKvs?, this]
      cases u.toJV? <;> rfl
    | gt =>
      have ih := toJVKvs_insert k u rest
      simp only [MV.toJVKvs?, MV.toJV?, ih]
      cases u.toJV? <;> rfl

theorem toJVList_map_val : ∀ xs : List JV, MV.toJVList? (xs.map .val) = some xs
  | [] => rfl
  | x :: rest => by
    have ih := toJVList_map_val rest
    simp only [List.map_cons, MV.toJVList?, MV.toJV?, ih]

theorem toJVList_append : ∀ (a b : List MV), MV.toJVList? (a ++ b) =
    (MV.toJVList? a).bind fun xs => (MV.toJVList? b).map fun ys => xs ++ ys
  | [], b => by cases h : MV.toJVList? b <;> simp [MV.toJVList?, h]
  | x :: a, b => by
    have ih := toJVList_append a b
    simp only [List.cons_append, MV.toJVList?, ih]
    cases x.toJV? <;> cases MV.toJVList? a <;> cases MV.toJVList? b <;> rfl

theorem toJVList_set (u : MV) : ∀ (xs : List JV) (j : Nat), j < xs.length →
    MV.toJVList? ((xs.map MV.val).set j u) = u.toJV?.map fun w => xs.set j w
  | [], j, h => by simp at h
  | x :: rest, 0, _ => by
    simp only [List.map_cons, List.set_cons_zero, MV.toJVList?, toJVList_map_val]
    cases u.toJV? <;> rfl
  | x :: rest, j + 1, h => by
    have ih := toJVList_set u rest j (by simpa using h)
    simp only [List.map_cons, List.set_cons_succ, MV.toJVList?, MV.toJV?, ih]
    cases u.toJV? <;> rfl

theorem toJVList_replicate (m : Nat) : MV.toJVList? (List.replicate m (MV.val .null)) = some (List.replicate m .null) := by
  have := toJVList_map_val (List.replicate m .null)
  simpa using this

theorem toJVList_extend (u : MV) (xs : List JV) (m : Nat) :
    MV.toJVList? (xs.map MV.val ++ List.replicate m (MV.val .null) ++ [u]) =
      u.toJV?.map fun w => xs ++ List.replicate m .null ++ [w] := by
  rw [toJVList_append, toJVList_append, toJVList_map_val, toJVList_replicate]
  simp only [MV.toJVList?, Option.bind_some, Option.map_some]
  cases u.toJV? <;> simp

theorem getD_map_val (xs : List JV) (j : Nat) : (xs.map MV.val).getD j (.val .null) = .val (xs.getD j .null) := by
  simp only [List.getD_eq_getElem?_getD, List.getElem?_map]
  cases xs[j]? <;> rfl



theorem update_null_num (n : JV) (m : Num) (rest : List JV) :
    update (.val n) (.val .null) (.num m :: rest) = update (.val n) (.val (.arr [])) (.num m :: rest) := by
  simp only [update, MV.shape, List.map_nil, MV.isDel, Bool.false_eq_true, if_false]

theorem setKI_null_num (n : JV) (m : Num) (rest : List JV) :
    setKI n (.num m :: rest) .null = setKI n (.num m :: rest) (.arr []) := by
  simp only [setKI, arrOf]

theorem update_eq_arr (n : JV) (m : Num) (rest : List JV) (xs : List JV)
    (ih : ∀ w, (update (.val n) (.val w) rest).toOption.bind MV.toJV? = setKI n rest w) :
    (update (.val n) (.val (.arr xs)) (.num m :: rest)).toOption.bind MV.toJV? = setKI n (.num m :: rest) (.arr xs) := by
  simp only [update, shape_val_arr, setKI, arrOf, idxOf, List.length_map, MV.isDel, Bool.false_eq_true, if_false]
  by_cases h1 : clampIndex ((toInt? (.num m)).getD 0) (-1) xs.length < 0
  · simp [h1, throw, throwThe, MonadExceptOf.throw, Except.toOption]
  · simp only [h1, if_false]
    by_cases h2 : clampIndex ((toInt? (.num m)).getD 0) (-1) xs.length < xs.length
    · simp only [h2, if_true]
      rw [getD_map_val, ← ih]
      have hlt : (clampIndex ((toInt? (.num m)).getD 0) (-1) xs.length).toNat < xs.length := by omega
      cases update (.val n) (.val (xs.getD (clampIndex ((toInt? (.num m)).getD 0) (-1) xs.length).toNat .null)) rest with
      | error e => rfl
      | ok u =>
        simp only [bind, Except.bind, pure, Except.pure, toOption_ok, Option.bind_some, MV.toJV?, toJVList_set u xs _ hlt]
        cases u.toJV? <;> rfl
    · simp only [h2, if_false]
      by_cases h3 : (toInt? (.num m)).getD 0 ≥ 536870912
      · simp [h3, throw, throwThe, MonadExceptOf.throw, Except.toOption]
      · simp only [h3, if_false]
        rw [← ih]
        cases update (.val n) (.val .null) rest with
        | error e => rfl
        | ok u =>
          simp only [bind, Except.bind, pure, Except.pure, toOption_ok, Option.bind_some, MV.toJV?, toJVList_extend]
          cases u.toJV? <;> rfl

theorem update_eq (n : JV) : ∀ (p : List JV) (v : JV), KIPath p →
    (update (.val n) (.val v) p).toOption.bind MV.toJV? = setKI n p v
  | [], v, _ => rfl
  | e :: rest, v, hp => by
    have ih := fun w => update_eq n rest w hp.tail
    rcases hp e (by simp) with ⟨k, rfl⟩ | ⟨m, rfl⟩
    · cases v with
      | null =>
        have := ih .null
        simp only [update, MV.shape, MV.kvLookupM, MV.isDel, Bool.false_eq_true, if_false, setKI, ← this]
        cases update (.val n) (.val .null) rest with
        | error e => rfl
        | ok u =>
          simp only [bind, Except.bind, pure, Except.pure, toOption_ok, Option.bind_some, MV.kvInsertM, MV.toJV?, MV.toJVKvs?]
          cases u.toJV? <;> rfl
      | obj kvs =>
        have := ih ((kvLookup k kvs).getD .null)
        simp only [update, shape_val_obj, kvLookupM_map, setKI, ← this]
        cases hl : kvLookup k kvs with
        | none =>
          simp only [Option.map_none, MV.isDel, Bool.false_eq_true, if_false, Option.getD_none]
          cases update (.val n) (.val .null) rest with
          | error e => rfl
          | ok u =>
            simp only [bind, Except.bind, pure, Except.pure, toOption_ok, Option.bind_some, MV.toJV?, toJVKvs_insert]
            cases u.toJV? <;> rfl
        | some x =>
          simp only [Option.map_some, Option.getD_some]
          cases update (.val n) (.val x) rest with
          | error e => rfl
          | ok u =>
            simp only [bind, Except.bind, pure, Except.pure, toOption_ok, Option.bind_some, MV.toJV?, toJVKvs_insert]
            cases u.toJV? <;> rfl
      | arr xs => simp [update, shape_val_arr, setKI, throw, throwThe, MonadExceptOf.throw, Except.toOption]
      | bool b => simp [update, MV.shape, setKI, throw, throwThe, MonadExceptOf.throw, Except.toOption]
      | num b => simp [update, MV.shape, setKI, throw, throwThe, MonadExceptOf.throw, Except.toOption]
      | str b => simp [update, MV.shape, setKI, throw, throwThe, MonadExceptOf.throw, Except.toOption]
    · cases v with
      | null => rw [update_null_num, setKI_null_num]; exact update_eq_arr n m rest [] ih
      | arr xs => exact update_eq_arr n m rest xs ih
      | obj kvs => simp [update, shape_val_obj, setKI, arrOf, throw, throwThe, MonadExceptOf.throw, Except.toOption]
      | bool b => simp [update, MV.shape, setKI, arrOf, throw, throwThe, MonadExceptOf.throw, Except.toOption]
      | num b => simp [update, MV.shape, setKI, arrOf, throw, throwThe, MonadExceptOf.throw, Except.toOption]
      | str b => simp [update, MV.shape, setKI, arrOf, throw, throwThe, MonadExceptOf.throw, Except.toOption]

/-- `funcSetpath` on a key/index path is `setKI` -/
theorem funcSetpath_eq (v : JV) (p : List JV) (n : JV) (hp : KIPath p) :
    (funcSetpath v (.arr p) n).toOption = setKI n p v := by
  rw [← update_eq n p v hp]
  simp only [funcSetpath]
  cases update (.val n) (.val v) p with
  | error e => rfl
  | ok u =>
    simp only [toOption_ok, Option.bind_some]
    cases u.toJV? <;> rfl

theorem funcSetpath_ok {v : JV} {p : List JV} {n : JV} (hp : KIPath p) {w : JV} :
    funcSetpath v (.arr p) n = .ok w ↔ setKI n p v = some w := by
  rw [← funcSetpath_eq v p n hp, toOption_eq_some]

end Gojq.Pairs

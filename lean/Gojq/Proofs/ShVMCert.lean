/-
  Certificate checking for C20 (helper definitions and lemmas; the property theorems are in
  Gojq/Props/C20.lean).

  A certificate for a program is a literal list `I` of shapes and, per shape, the list of
  the positions in `I` of its successors.  Both are computed outside the kernel (the
  worklist `ShVM.explore`, run by `drv_c20 certs`) and are untrusted: `checkCert` recomputes
  every successor with `ShVM.step` and compares it with the shape found at the claimed
  position — one equality per transition, no search.
-/
import Gojq.Model.ShVM
namespace Gojq.ShVM

/-- generic runs of a nondeterministic transition system -/
inductive Reach {σ : Type} (step : σ → List σ) (init : σ) : Nat → σ → Prop where
  | zero : Reach step init 0 init
  | succ {n : Nat} {s t : σ} : Reach step init n s → t ∈ step s → Reach step init (n + 1) t

theorem reach_in_invariant {σ : Type} (step : σ → List σ) (init : σ) (I : List σ)
    (h0 : init ∈ I) (hcl : ∀ s ∈ I, ∀ t ∈ step s, t ∈ I) :
    ∀ n s, Reach step init n s → s ∈ I := by
  intro n s h
  induction h with
  | zero => exact h0
  | succ _ ht ih => exact hcl _ ih _ ht

theorem reachN_iff (code : Code) (n : Nat) (s : Shape) :
    ReachN code n s ↔ Reach (step code) (init code) n s := by
  constructor
  · intro h
    induction h with
    | zero => exact .zero
    | succ _ ht ih => exact .succ ih ht
  · intro h
    induction h with
    | zero => exact .zero
    | succ _ ht ih => exact .succ ih ht

/-- `ts` are exactly the shapes found in `I` at the positions `idxs` -/
def matchIdx (I : List Shape) : List Shape → List Nat → Bool
  | [], [] => true
  | t :: ts, i :: is =>
    (match I[i]? with
     | some u => decide (t = u)
     | none => false) && matchIdx I ts is
  | _, _ => false

/-- one row: no outcome leaves the model, every successor is where the certificate says,
    and the footprint is within the bound -/
def checkRow (code : Code) (I : List Shape) (B : Nat) (s : Shape) (idxs : List Nat) : Bool :=
  stuckFree code s && decide (footprint s ≤ B) && matchIdx I (step code s) idxs

def checkRows (code : Code) (I : List Shape) (B : Nat) : List Shape → List (List Nat) → Bool
  | [], [] => true
  | s :: ss, r :: rs => checkRow code I B s r && checkRows code I B ss rs
  | _, _ => false

/-- the whole certificate: `I` starts with the initial shape and every row checks -/
def checkCert (code : Code) (I : List Shape) (succ : List (List Nat)) (B : Nat) : Bool :=
  (match I with
   | s0 :: _ => decide (s0 = init code)
   | [] => false) && checkRows code I B I succ

theorem matchIdx_sound (I : List Shape) : ∀ (ts : List Shape) (idxs : List Nat),
    matchIdx I ts idxs = true → ∀ t ∈ ts, t ∈ I := by
  intro ts
  induction ts with
  | nil => intro _ _ t ht; cases ht
  | cons t ts ih =>
    intro idxs h u hu
    cases idxs with
    | nil => simp [matchIdx] at h
    | cons i is =>
      simp only [matchIdx, Bool.and_eq_true] at h
      obtain ⟨h1, h2⟩ := h
      rcases List.mem_cons.mp hu with rfl | hmem
      · split at h1
        · rename_i v hv
          have : u = v := of_decide_eq_true h1
          subst this
          exact List.mem_of_getElem? hv
        · cases h1
      · exact ih is h2 u hmem

theorem checkRows_sound (code : Code) (I : List Shape) (B : Nat) : ∀ (ss : List Shape) (rs : List (List Nat)),
    checkRows code I B ss rs = true →
    ∀ s ∈ ss, stuckFree code s = true ∧ footprint s ≤ B ∧ ∀ t ∈ step code s, t ∈ I := by
  intro ss
  induction ss with
  | nil => intro _ _ s hs; cases hs
  | cons s ss ih =>
    intro rs h u hu
    cases rs with
    | nil => simp [checkRows] at h
    | cons r rs =>
      simp only [checkRows, checkRow, Bool.and_eq_true] at h
      obtain ⟨⟨⟨h1, h2⟩, h3⟩, h4⟩ := h
      rcases List.mem_cons.mp hu with rfl | hmem
      · exact ⟨h1, of_decide_eq_true h2, matchIdx_sound I _ _ h3⟩
      · exact ih rs h4 u hmem

theorem checkCert_sound (code : Code) (I : List Shape) (succ : List (List Nat)) (B : Nat)
    (h : checkCert code I succ B = true) :
    init code ∈ I ∧ ∀ s ∈ I, stuckFree code s = true ∧ footprint s ≤ B ∧ ∀ t ∈ step code s, t ∈ I := by
  simp only [checkCert, Bool.and_eq_true] at h
  obtain ⟨h1, h2⟩ := h
  refine ⟨?_, checkRows_sound code I B I succ h2⟩
  cases I with
  | nil => simp at h1
  | cons s0 rest =>
    have : s0 = init code := of_decide_eq_true h1
    subst this
    exact List.mem_cons_self

/-- `t` is one of the successors of `s` (boolean form, for `decide`) -/
def isSucc (code : Code) (s t : Shape) : Bool := (step code s).any fun u => decide (u = t)

theorem mem_step_of_isSucc {code : Code} {s t : Shape} (h : isSucc code s t = true) : t ∈ step code s := by
  simp only [isSucc, List.any_eq_true] at h
  obtain ⟨u, hu, he⟩ := h
  have : u = t := of_decide_eq_true he
  exact this ▸ hu

theorem PS.setAt_length {α : Type} : ∀ (l : List (Option (α × Int))) (n : Nat) (b : α × Int),
    (PS.setAt l n b).length = l.length
  | [], _, _ => rfl
  | _ :: _, 0, _ => rfl
  | _ :: xs, n+1, b => by simp [PS.setAt, PS.setAt_length xs n b]

theorem PS.block_some {α : Type} {s : PS α} {i : Int} {b : α × Int} (h : s.block i = some b) :
    0 ≤ i ∧ i.toNat < s.data.length := by
  unfold PS.block at h
  split at h
  · cases h
  · rename_i hi
    refine ⟨by omega, ?_⟩
    split at h
    · rename_i x heq
      exact (List.getElem?_eq_some_iff.mp heq).1
    · cases h

end Gojq.ShVM

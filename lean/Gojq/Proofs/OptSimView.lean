/-
  The restatement `optV` of the peephole pass on interpreter code (Model/OptVM.lean) agrees with the
  pass model `Opt.optimizeCodeOps` (Model/Optimize.lean) through the dump `view`, for EVERY code:
  running the pass model on the dumped instruction list gives, up to the dead operands the pass
  model leaves on instructions it turned into `nop`, the dump of `optV`'s result; and the two fail
  (Go panic) on the same codes.
-/
import Gojq.Model.OptVM
set_option linter.unusedSimpArgs false
set_option linter.unusedVariables false
namespace Gojq.OptVM
open Gojq Gojq.VM

/-- the dumped list, compared up to the dead operands of `nop`s -/
def Vw (A : Array Opt.Instr) (a : Array Instr) : Prop := A.map normNop = a.map view

theorem Vw.size {A : Array Opt.Instr} {a : Array Instr} (h : Vw A a) : A.size = a.size := by
  have := congrArg Array.size h
  simpa using this

theorem Vw.get {A : Array Opt.Instr} {a : Array Instr} (h : Vw A a) (k : Nat) :
    (A[k]?).map normNop = (a[k]?).map view := by
  have := congrArg (fun (z : Array Opt.Instr) => z[k]?) h
  simpa [Array.getElem?_map] using this

theorem Vw.set {A : Array Opt.Instr} {a : Array Instr} (h : Vw A a) (k : Nat) (Y : Opt.Instr) (y : Instr)
    (hy : normNop Y = view y) : Vw (A.set! k Y) (a.set! k y) := by
  unfold Vw at *
  rw [Array.set!_eq_setIfInBounds, Array.set!_eq_setIfInBounds, Array.map_setIfInBounds,
    Array.map_setIfInBounds, h, hy]

theorem normNop_op (X : Opt.Instr) : (normNop X).op = X.op := by
  unfold normNop
  by_cases h : (X.op == "nop") = true
  · simp only [h, if_true]; exact (beq_iff_eq.mp h).symm
  · have h' : (X.op == "nop") = false := by simpa using h
    simp [h']

theorem op_of_view {X : Opt.Instr} {x : Instr} (h : normNop X = view x) : X.op = opName x := by
  rw [← normNop_op, h]; rfl

theorem eq_view_of_ne_nop {X : Opt.Instr} {x : Instr} (h : normNop X = view x) (hn : (X.op == "nop") = false) :
    X = view x := by
  unfold normNop at h
  simp only [hn, Bool.false_eq_true, if_false] at h
  exact h

theorem normNop_nop (X : Opt.Instr) : normNop { X with op := "nop" } = view .nop := by
  simp [normNop, view, opName, intOperand]

/-- both `none` (the Go code panics), or both `some` with matching dumps -/
def OptRel : Option (Array Opt.Instr) → Option (Array Instr) → Prop
  | none, none => True
  | some A, some a => Vw A a
  | _, _ => False

theorem isPushLike_view (x : Instr) : Opt.isPushLike (opName x) = isPushLike x := by cases x <;> rfl

theorem jump_view (x : Instr) :
    (opName x == "jump" || opName x == "jumpifnot") = (jumpTgt x).isSome ∧
    ((jumpTgt x).isSome = true → intOperand x = jumpTgt x ∧ (opName x == "nop") = false) := by
  cases x <;> exact ⟨rfl, fun h => by first | exact ⟨rfl, rfl⟩ | cases h⟩

/-- one iteration of the backward loop commutes with the dump -/
theorem step_view {A : Array Opt.Instr} {a : Array Instr} (T : Array Bool) (i : Nat) (h : Vw A a) :
    OptRel (Opt.codeOpsStep T A i) (stepV T a i) := by
  unfold Opt.codeOpsStep stepV
  have hi := h.get i
  cases hai : a[i]? with
  | none =>
    rw [hai] at hi
    cases hAi : A[i]? with
    | none => trivial
    | some X => rw [hAi] at hi; simp at hi
  | some x =>
    rw [hai] at hi
    cases hAi : A[i]? with
    | none => rw [hAi] at hi; simp at hi
    | some X =>
      rw [hAi] at hi
      simp only [Option.map_some, Option.some.injEq] at hi
      have hop := op_of_view hi
      simp only [hop, isPushLike_view]
      by_cases hpl : isPushLike x = true
      · simp only [hpl, if_true]
        cases hT : T.getD (i + 1) false with
        | true => simp only [if_true]; exact h
        | false =>
          simp only [Bool.false_eq_true, if_false]
          have hi1 := h.get (i + 1)
          cases hb : a[i + 1]? with
          | none =>
            rw [hb] at hi1
            cases hB : A[i + 1]? with
            | none => trivial
            | some NX => rw [hB] at hi1; simp at hi1
          | some b =>
            rw [hb] at hi1
            cases hB : A[i + 1]? with
            | none => rw [hB] at hi1; simp at hi1
            | some NX =>
              rw [hB] at hi1
              simp only [Option.map_some, Option.some.injEq] at hi1
              have hopb := op_of_view hi1
              simp only [hopb]
              cases b <;> simp only [opName] <;> first
                | exact h
                | exact (h.set i _ _ (normNop_nop X)).set (i + 1) _ _ (normNop_nop NX)
                | (refine (h.set i _ _ (normNop_nop X)).set (i + 1) _ _ ?_
                   have hnn : (NX.op == "nop") = false := by rw [hopb]; rfl
                   have := eq_view_of_ne_nop hi1 hnn
                   subst this
                   rfl)
      · have hpl' : isPushLike x = false := by simpa using hpl
        simp only [hpl', Bool.false_eq_true, if_false]
        obtain ⟨hj1, hj2⟩ := jump_view x
        cases hjt : jumpTgt x with
        | none =>
          rw [hjt] at hj1
          simp only [Option.isSome_none] at hj1
          simp only [hj1, Bool.false_eq_true, if_false]
          exact h
        | some t =>
          rw [hjt] at hj1 hj2
          simp only [Option.isSome_some] at hj1
          obtain ⟨hint, hnn⟩ := hj2 rfl
          have hX : X = view x := eq_view_of_ne_nop hi (by rw [hop]; exact hnn)
          have htg : X.tgt = some t := by rw [hX]; exact hint
          simp only [hj1, if_true, htg]
          by_cases hnext : (t - 1 == (i : Int)) = true
          · simp only [hnext, if_true]
            exact h.set i _ _ (normNop_nop X)
          · simp only [hnext, Bool.false_eq_true, if_false]
            by_cases hneg : t < 0
            · simp only [hneg, if_true]; trivial
            · simp only [hneg, if_false]
              have hit := h.get t.toNat
              cases hy : a[t.toNat]? with
              | none =>
                rw [hy] at hit
                cases hY : A[t.toNat]? with
                | none => trivial
                | some TT => rw [hY] at hit; simp at hit
              | some y =>
                rw [hy] at hit
                cases hY : A[t.toNat]? with
                | none => rw [hY] at hit; simp at hit
                | some TT =>
                  rw [hY] at hit
                  simp only [Option.map_some, Option.some.injEq] at hit
                  have hopy := op_of_view hit
                  simp only [hopy]
                  cases y <;> simp only [opName] <;> first
                    | exact h
                    | (have hnn : (TT.op == "nop") = false := by rw [hopy]; rfl
                       have hTT := eq_view_of_ne_nop hit hnn
                       subst hTT
                       subst hX
                       refine h.set i _ _ ?_
                       cases x <;> simp [jumpTgt] at hjt <;> rfl)

theorem fold_view (T : Array Bool) : ∀ (is : List Nat) (A : Array Opt.Instr) (a : Array Instr), Vw A a →
    OptRel (is.foldlM (Opt.codeOpsStep T) A) (is.foldlM (stepV T) a) := by
  intro is
  induction is with
  | nil => intro A a h; exact h
  | cons i is ih =>
    intro A a h
    simp only [List.foldlM_cons]
    have := step_view T i h
    cases h1 : Opt.codeOpsStep T A i with
    | none =>
      cases h2 : stepV T a i with
      | none => trivial
      | some a1 => rw [h1, h2] at this; exact this.elim
    | some A1 =>
      cases h2 : stepV T a i with
      | none => rw [h1, h2] at this; exact this.elim
      | some a1 =>
        rw [h1, h2] at this
        exact ih A1 a1 this

theorem targets_view (c : Array Instr) : Opt.targetsOf (c.map view) = targetsV c := by
  unfold Opt.targetsOf targetsV
  rw [Array.foldl_map, Array.size_map]
  congr 1
  funext t x
  cases x <;> rfl

/-- THE TIE: `Opt.optimizeCodeOps` on the dump = the dump of `optV`, up to dead `nop` operands -/
theorem optV_view (c : Array Instr) :
    (Opt.optimizeCodeOps (c.map view)).map (Array.map normNop) = (optV c).map (Array.map view) := by
  unfold Opt.optimizeCodeOps optV
  simp only [targets_view, Array.size_map]
  have hv : Vw (c.map view) c := by
    unfold Vw
    rw [Array.map_map]
    congr 1
    funext x
    simp only [Function.comp]
    unfold normNop
    by_cases hx : ((view x).op == "nop") = true
    · simp only [hx, if_true]
      cases x <;> first | rfl | (exact absurd hx (by simp [view, opName]))
    · have hx' : ((view x).op == "nop") = false := by simpa using hx
      simp [hx']
  have := fold_view (targetsV c) (List.range c.size).reverse _ _ hv
  cases h1 : (List.range c.size).reverse.foldlM (Opt.codeOpsStep (targetsV c)) (c.map view) with
  | none =>
    cases h2 : (List.range c.size).reverse.foldlM (stepV (targetsV c)) c with
    | none => rfl
    | some a1 => rw [h1, h2] at this; exact this.elim
  | some A1 =>
    cases h2 : (List.range c.size).reverse.foldlM (stepV (targetsV c)) c with
    | none => rw [h1, h2] at this; exact this.elim
    | some a1 =>
      rw [h1, h2] at this
      simp only [Option.map_some]
      exact congrArg some this

/-- the static scan on the dump is the static scan on the interpreter code -/
theorem wfCheckView_view (c : Array Instr) : wfCheckView (c.map view) = wfCheck c := by
  unfold wfCheckView wfCheck
  simp only [Array.size_map, Array.getElem?_map]
  congr 1
  · congr 1
    funext pc
    cases hc : c[pc]? with
    | none => rfl
    | some ins =>
      simp only [Option.map_some]
      congr 1
      · cases ins <;> simp only [view, opName, intOperand, callTarget] <;> first
          | rfl
          | (rename_i t
             show (decide (0 ≤ t) && _) = (decide (0 ≤ t) && _)
             congr 1
             cases c[t.toNat]? with
             | none => rfl
             | some sc => cases sc <;> rfl)
      · cases ins <;> rfl
  · cases c.size with
    | zero => rfl
    | succ n =>
      simp only
      cases c[n]? with
      | none => rfl
      | some i => cases i <;> rfl

end Gojq.OptVM

/-
  C08 (bytecode checker): what an accepted annotation says statically (`Checked`), and the dynamic
  invariant it induces on the states of a run (`Inv`).

  The data stack is split among the pending activations: the current one owns at least `h` entries
  (the annotation at its pc), and every caller below owns at least `hAfter r - 1` entries under the
  result its callee will leave, where `r` is the return address saved in the callee's frame
  (`need`).  A pending fork records the same for the lists it restores (`ForksConf`), and in
  backtrack mode the instruction at the pc is a breaker or a fork-like instruction whose restored
  state is the one its backtrack branch expects (`BConf`).
-/
import Gojq.Proofs.SafeVMPaths
set_option linter.unusedSimpArgs false
set_option linter.unusedVariables false
namespace Gojq.SafeVM
open Gojq Gojq.VM

/-! ## static facts -/

def SC.size (S : SC) : Int := S.code.size

def annAt (S : SC) (pc : Int) : Option Abs := if 0 ≤ pc then (S.ann[pc.toNat]?).join else none
def codeAt (S : SC) (pc : Int) : Option Shape := if 0 ≤ pc then S.code[pc.toNat]? else none

theorem codeAt_range {S : SC} {pc : Int} {i : Shape} (h : codeAt S pc = some i) : 0 ≤ pc ∧ pc < S.size := by
  unfold codeAt at h
  split at h
  · rename_i h0
    have := (Array.getElem?_eq_some_iff.mp h).1
    exact ⟨h0, by unfold SC.size; omega⟩
  · simp at h

/-- a successor accepted by the verifier -/
def SuccOK (S : SC) (s : Int × Abs) : Prop :=
  ∃ b i, annAt S s.1 = some b ∧ codeAt S s.1 = some i ∧ isScope i = false ∧ b.h ≤ s.2.h ∧
    (b.pend = true → s.2.pend = true) ∧ b.pd ≤ s.2.pd

structure Checked (S : SC) : Prop where
  last : codeAt S (S.size - 1) = some .ret
  root : entryH S.code S.nvars 0 = some (S.nvars + 1)
  step : ∀ (pc : Int) (a : Abs) (ins : Shape), annAt S pc = some a → codeAt S pc = some ins →
    (isScope ins = true → entryAbs S.code S.nvars pc.toNat = some a) ∧
    ∃ succs, step1 S.code S.tab S.nvars pc.toNat a ins = some succs ∧ (∀ s ∈ succs, SuccOK S s) ∧
      ((pc.toNat : Nat) : Int) = pc
  entry : ∀ (pc : Int) (ins : Shape), codeAt S pc = some ins → isScope ins = true →
    ∃ a, annAt S pc = some a ∧ entryAbs S.code S.nvars pc.toNat = some a

theorem succOK_sound {S : SC} {s : Int × Abs} (h : succOK S.code S.ann s = true) : SuccOK S s := by
  unfold succOK at h
  simp only [Bool.and_eq_true, decide_eq_true_eq] at h
  obtain ⟨⟨⟨h0, h1⟩, h2⟩, h3⟩ := h
  cases ha : S.ann[s.1.toNat]? with
  | none => rw [ha] at h2; simp at h2
  | some ob =>
    cases ob with
    | none => rw [ha] at h2; simp at h2
    | some b =>
      rw [ha] at h2
      simp only [Abs.accepts, Bool.and_eq_true, decide_eq_true_eq, Bool.or_eq_true, Bool.not_eq_true'] at h2
      cases hc : S.code[s.1.toNat]? with
      | none => rw [hc] at h3; simp at h3
      | some i =>
        rw [hc] at h3
        simp only [Bool.not_eq_true'] at h3
        refine ⟨b, i, ?_, ?_, h3, h2.1.1, ?_, h2.2⟩
        · unfold annAt; simp [h0, ha]
        · unfold codeAt; simp [h0, hc]
        · intro hb
          rcases h2.1.2 with h | h
          · rw [hb] at h; simp at h
          · exact h

theorem checked_of_verify {S : SC} (h : verify S.code S.nvars S.ann = true) : Checked S := by
  unfold verify at h
  simp only [Bool.and_eq_true, beq_iff_eq, List.all_eq_true, List.mem_range] at h
  obtain ⟨⟨⟨hsz, hroot⟩, hlast⟩, hall⟩ := h
  have hstep : ∀ (pc : Int) (a : Abs) (ins : Shape), annAt S pc = some a → codeAt S pc = some ins →
      (isScope ins = true → entryAbs S.code S.nvars pc.toNat = some a) ∧
      ∃ succs, step1 S.code S.tab S.nvars pc.toNat a ins = some succs ∧ (∀ s ∈ succs, SuccOK S s) ∧
        ((pc.toNat : Nat) : Int) = pc := by
    intro pc a ins ha hc
    have hr := codeAt_range hc
    have hlt : pc.toNat < S.code.size := by unfold SC.size at hr; omega
    have hv := hall pc.toNat hlt
    unfold codeAt at hc
    unfold annAt at ha
    simp only [hr.1, if_true] at hc ha
    unfold verifyAt at hv
    rw [hc] at hv
    cases hann : S.ann[pc.toNat]? with
    | none => rw [hann] at ha; simp at ha
    | some oa =>
      rw [hann] at ha hv
      cases oa with
      | none => simp at ha
      | some a' =>
        have ha : a' = a := by simpa using ha
        subst ha
        simp only [Bool.and_eq_true] at hv
        obtain ⟨hv1, hv2⟩ := hv
        refine ⟨?_, ?_⟩
        · intro hsc
          rw [if_pos hsc] at hv1
          simpa using hv1
        · cases hst : step1 S.code (scopeTab S.code) S.nvars pc.toNat a' ins with
          | none => rw [hst] at hv2; simp at hv2
          | some succs =>
            rw [hst] at hv2
            simp only [List.all_eq_true] at hv2
            exact ⟨succs, hst, fun s hs => succOK_sound (hv2 s hs), Int.toNat_of_nonneg hr.1⟩
  refine ⟨?_, hroot, hstep, ?_⟩
  · cases hn : S.code.size with
    | zero => rw [hn] at hlast; simp at hlast
    | succ n =>
      rw [hn] at hlast
      simp only at hlast
      unfold codeAt SC.size
      rw [hn]
      have : ((n + 1 : Nat) : Int) - 1 = (n : Int) := by omega
      rw [this]
      simp only [Int.natCast_nonneg, if_true, Int.toNat_natCast]
      cases hc : S.code[n]? with
      | none => rw [hc] at hlast; simp at hlast
      | some i =>
        rw [hc] at hlast
        cases i <;> simp at hlast
        rfl
  · intro pc ins hc hsc
    have hr := codeAt_range hc
    have hlt : pc.toNat < S.code.size := by unfold SC.size at hr; omega
    have hv := hall pc.toNat hlt
    have hc' := hc
    unfold codeAt at hc'
    simp only [hr.1, if_true] at hc'
    unfold verifyAt at hv
    rw [hc'] at hv
    have hannsz : pc.toNat < S.ann.size := by rw [hsz]; exact hlt
    cases hann : S.ann[pc.toNat]? with
    | none =>
      have := Array.getElem?_eq_none_iff.mp hann
      omega
    | some oa =>
      rw [hann] at hv
      cases oa with
      | none => simp [hsc] at hv
      | some a =>
        refine ⟨a, ?_, ?_⟩
        · unfold annAt; simp [hr.1, hann]
        · have hA : annAt S pc = some a := by unfold annAt; simp [hr.1, hann]
          exact (hstep pc a ins hA hc).1 hsc

/-! ## the dynamic invariant -/

/-- the height the annotation relies on after the call at `r` returns -/
def hAfter (S : SC) (r : Int) : Nat :=
  match annAt S (r + 1) with
  | some b => b.h
  | none => 0

/-- the open `pathbegin`s the annotation relies on after the call at `r` returns -/
def pdAfter (S : SC) (r : Int) : Nat :=
  match annAt S (r + 1) with
  | some b => b.pd
  | none => 0

/-- segments of the paths stack owned by the callers below the current activation -/
def needP (S : SC) : List (Int × Scope) → Nat
  | [] => 0
  | [_] => 0
  | f :: g :: r => pdAfter S f.2.pc + needP S (g :: r)

/-- entries owned by the callers below the current activation (under the results still to come) -/
def need (S : SC) : List (Int × Scope) → Nat
  | [] => 0
  | [_] => 0
  | f :: g :: r => (hAfter S f.2.pc - 1) + need S (g :: r)

/-- a return address `r`: the pc after it is annotated, is not a function entry, and claims a
    pending fork only if there is one -/
def RetPt (S : SC) (fne : Prop) (r : Int) : Prop :=
  ∃ b i, annAt S (r + 1) = some b ∧ codeAt S (r + 1) = some i ∧ isScope i = false ∧ (b.pend = true → fne)

/-- every frame but the oldest returns to a `RetPt`; the oldest returns to the last instruction -/
def FramesOK (S : SC) (fne : Prop) : List (Int × Scope) → Prop
  | [] => True
  | [f] => f.2.pc = S.size - 1
  | f :: g :: r => RetPt S fne f.2.pc ∧ FramesOK S fne (g :: r)

structure HConf (S : SC) (fne : Prop) (a : Abs) (stk : List (Int × V)) (paths : List (Int × V))
    (frames : List (Int × Scope)) : Prop where
  ne : frames ≠ []
  fr : FramesOK S fne frames
  len : a.h + need S frames ≤ stk.length
  plen : a.pd + needP S frames ≤ segs paths

def isLabel : V → Bool
  | .jv (.num (.int _)) => true
  | _ => false

/-- what re-entering the instruction at `pc` in backtrack mode needs of the (restored) state -/
def BConf (S : SC) (fne : Prop) (pc : Int) (err : Option Err) (stk : List (Int × V)) (paths : List (Int × V))
    (frames : List (Int × Scope)) : Prop :=
  match codeAt S pc with
  | some (.fork _) | some (.forkalt _) | some (.forktrybegin _) | some .iter =>
    ∃ a, annAt S pc = some a ∧ HConf S fne a stk paths frames ∧ (a.pend = true → fne)
  | some (.forklabel _ _) =>
    ∃ i v r, stk = (i, v) :: r ∧ (err = none ∨ isLabel v = true) ∧ (err ≠ none → r ≠ [] ∨ fne)
  | some .forktryend | some (.object _) | some .backtrack | some (.index _) | some (.indexarray _)
  | some (.call _) | some (.callNative _ _) | some .ret | some .pathend => True
  | _ => False

def ForksConf (S : SC) : List FView → Prop
  | [] => True
  | f :: rest => (∀ err, BConf S (rest ≠ []) f.pc err f.stk f.paths f.frames) ∧ ForksConf S rest

/-- at a `scope` instruction: how the registers `callpc`, `index` set by the call relate to the state -/
def EntryConf (S : SC) (fne : Prop) (l : L) (a : Abs) (A : AView) : Prop :=
  FramesOK S fne A.frames ∧
  ((0 ≤ l.callpc ∧ (A.frames = [] → l.callpc = S.size - 1) ∧ (A.frames ≠ [] → RetPt S fne l.callpc) ∧
      a.h + (if A.frames = [] then 0 else hAfter S l.callpc - 1) + need S A.frames ≤ A.stk.length ∧
      a.pd + (if A.frames = [] then 0 else pdAfter S l.callpc) + needP S A.frames ≤ segs A.paths) ∨
   (l.callpc = -1 ∧ (∃ i s r, A.frames = (i, s) :: r ∧ l.index = i) ∧ a.h + need S A.frames ≤ A.stk.length ∧
      a.pd + needP S A.frames ≤ segs A.paths))

def NMode (S : SC) (l : L) (e : Env) (A : AView) : Prop :=
  l.err = none ∧ ∃ a ins, annAt S l.pc = some a ∧ codeAt S l.pc = some ins ∧ (a.pend = true → A.forks ≠ []) ∧
    (if isScope ins = true then EntryConf S (A.forks ≠ []) l a A ∧ l.index < e.scopes.data.size
     else HConf S (A.forks ≠ []) a A.stk A.paths A.frames)

def BMode (S : SC) (l : L) (e : Env) (A : AView) : Prop :=
  eokO S e.scopes.data.size l.err ∧ (l.pc = S.size ∨ BConf S (A.forks ≠ []) l.pc l.err A.stk A.paths A.frames)

/-- the paths stack, and the paths stack every pending fork restores, are well-shaped -/
def PathsInv (A : AView) : Prop := POK A.paths ∧ ∀ f ∈ A.forks, POK f.paths

def Inv (S : SC) (l : L) (e : Env) : Prop :=
  ∃ A, View e A ∧ GInv S e ∧ ForksConf S A.forks ∧ PathsInv A ∧
    (if l.backtrack = true then BMode S l e A else NMode S l e A)

/-- what one instruction establishes -/
def Post (S : SC) (r : Ctl × L) (e' : Env) : Prop :=
  ∃ A', View e' A' ∧ GInv S e' ∧ ForksConf S A'.forks ∧ PathsInv A' ∧
    match r.1 with
    | .fall => r.2.backtrack = false ∧ NMode S { r.2 with pc := r.2.pc + 1 } e' A'
    | .jump => r.2.backtrack = false ∧ NMode S r.2 e' A'
    | .brk => eokO S e'.scopes.data.size r.2.err ∧
        (A'.forks = [] → r.2.err ≠ none → BConf S False r.2.pc none A'.stk A'.paths A'.frames)
    | .ret _ => r.2.pc = S.size - 1

/-! ## monotonicity in "a fork is pending" -/

theorem RetPt.mono {S : SC} {p q : Prop} (hpq : p → q) {r : Int} (h : RetPt S p r) : RetPt S q r := by
  obtain ⟨b, i, h1, h2, h3, h4⟩ := h
  exact ⟨b, i, h1, h2, h3, fun hb => hpq (h4 hb)⟩

theorem FramesOK.mono {S : SC} {p q : Prop} (hpq : p → q) : ∀ {fr : List (Int × Scope)}, FramesOK S p fr → FramesOK S q fr
  | [], _ => trivial
  | [_], h => h
  | _ :: g :: r, h => ⟨h.1.mono hpq, FramesOK.mono hpq (fr := g :: r) h.2⟩

theorem HConf.mono {S : SC} {p q : Prop} (hpq : p → q) {a a' : Abs}
    {stk paths frames} (c : HConf S p a stk paths frames) (hh : a'.h ≤ a.h := by exact Nat.le_refl _)
    (hd : a'.pd ≤ a.pd := by exact Nat.le_refl _) : HConf S q a' stk paths frames :=
  ⟨c.ne, c.fr.mono hpq, by have := c.len; omega, by have := c.plen; omega⟩

theorem BConf.mono {S : SC} {p q : Prop} (hpq : p → q) {pc err stk paths frames}
    (c : BConf S p pc err stk paths frames) : BConf S q pc err stk paths frames := by
  unfold BConf at *
  split
  all_goals (rename_i hc; simp only [hc] at c)
  · obtain ⟨a, h1, h2, h3⟩ := c; exact ⟨a, h1, h2.mono hpq, fun hb => hpq (h3 hb)⟩
  · obtain ⟨a, h1, h2, h3⟩ := c; exact ⟨a, h1, h2.mono hpq, fun hb => hpq (h3 hb)⟩
  · obtain ⟨a, h1, h2, h3⟩ := c; exact ⟨a, h1, h2.mono hpq, fun hb => hpq (h3 hb)⟩
  · obtain ⟨a, h1, h2, h3⟩ := c; exact ⟨a, h1, h2.mono hpq, fun hb => hpq (h3 hb)⟩
  · obtain ⟨i, v, r, h1, h2, h3⟩ := c
    exact ⟨i, v, r, h1, h2, fun he => (h3 he).imp id hpq⟩
  all_goals first | trivial | exact c

theorem FramesOK.tail {S : SC} {p : Prop} {f : Int × Scope} {r : List (Int × Scope)}
    (h : FramesOK S p (f :: r)) : FramesOK S p r := by
  cases r with
  | nil => trivial
  | cons g r => exact h.2

/-- entering a successor accepted by the verifier -/
theorem NMode.of_succ {S : SC} {s : Int × Abs} (hs : SuccOK S s) {l : L} {e : Env} {A : AView}
    (herr : l.err = none) (hpc : l.pc = s.1) (hp : s.2.pend = true → A.forks ≠ [])
    (hc : HConf S (A.forks ≠ []) s.2 A.stk A.paths A.frames) : NMode S l e A := by
  obtain ⟨b, i, h1, h2, h3, h4, h5, h6⟩ := hs
  refine ⟨herr, b, i, by rw [hpc]; exact h1, by rw [hpc]; exact h2, fun hb => hp (h5 hb), ?_⟩
  rw [if_neg (by rw [h3]; simp)]
  exact hc.mono id h4 h6

/-! ## oracle answers -/

mutual
/-- no closure inside, no empty `[]pathValue` -/
def vpure : V → Bool
  | .clo _ _ => false
  | .pvs xs => !xs.isEmpty && ppure xs
  | _ => true
def ppure : List (V × V) → Bool
  | [] => true
  | pv :: xs => vpure pv.2 && notNullV pv.1 && ppure xs
end

def epure : Err → Bool
  | .value v => vpure v
  | .halt v => vpure v
  | .brk _ v => vpure v
  | .tryEnd e => epure e
  | _ => true

mutual
theorem vok_of_pure (S : SC) (n : Int) : ∀ (v : V), vpure v = true → vok S n v = true
  | .clo _ _, h => by simp [vpure] at h
  | .pvs xs, h => by
    simp only [vpure, Bool.and_eq_true] at h
    simp only [vok, Bool.and_eq_true]
    exact ⟨h.1, pok_of_pure S n xs h.2⟩
  | .jv _, _ => rfl
  | .pv _ _, _ => rfl
  | .iter _, _ => rfl
  | .emptyIter, _ => rfl
  | .tok, _ => rfl
theorem pok_of_pure (S : SC) (n : Int) : ∀ (xs : List (V × V)), ppure xs = true → pok S n xs = true
  | [], _ => rfl
  | pv :: xs, h => by
    simp only [ppure, Bool.and_eq_true] at h
    simp only [pok, Bool.and_eq_true]
    exact ⟨⟨vok_of_pure S n pv.2 h.1.1, h.1.2⟩, pok_of_pure S n xs h.2⟩
end

theorem eok_of_pure (S : SC) (n : Int) : ∀ (er : Err), epure er = true → eok S n er = true
  | .value v, h => vok_of_pure S n v h
  | .halt v, h => vok_of_pure S n v h
  | .brk _ v, h => vok_of_pure S n v h
  | .tryEnd e, h => eok_of_pure S n e h
  | .msg _, _ => rfl
  | .vm _ _, _ => rfl

/-- what a native / `funcIndex2` / iterator answer may be: no closure (`[2]int`) inside and no empty
    `[]pathValue` — natives return JSON values, iterators, opaque tokens and errors carrying those -/
def ExtOK (x : ExtRec) : Prop :=
  match x.call with
  | some (.val w) => vpure w = true
  | some (.err er) => epure er = true
  | _ => True

end Gojq.SafeVM

/-
  Whole programs (C01.3): the layout `compileProg` produces satisfies `FuncsOK`, the machine
  started as `env.execute` does reaches the main query's code, and `Yields` of the main
  segment is the sequence of values successive `Next()` calls return (`Run`, `exec`).
  Core Lean only.
-/
import Gojq.Proofs.MiniVMRefineCall
import Gojq.Proofs.MiniVMRefineTry
import Gojq.Proofs.MiniVMRefineCond
import Gojq.Proofs.MiniVMRefineVar
import Gojq.Proofs.MiniVMRefineLoop
import Gojq.Proofs.MiniVMRefineForeach
import Gojq.Proofs.MiniVMRefineObj
namespace Gojq.MiniVM
variable [IterMsg]
set_option linter.unusedSectionVars false

/-- `compile_yields`: induction on the fuel, one lemma per construct -/
theorem compile_yields {code defs entry nf} (hfun : FuncsOK code defs entry nf) :
    ∀ (n : Nat) (q : Q) (g : Ctx) (e p : Nat), e ≤ p → Seg code p (compile entry g e p q) → q.Closed nf (g.vars.map (·.1)) →
    ∀ (ρ : Env) v S F R fr o cp (P : Nat → Prop), TopIs fr e → scopeOf entry g ≤ e → (q.HasParam → ρ.clo ≠ .none) →
      (∀ a, P a → a < base fr + (p - e)) →
      EnvOK code entry nf P R fr ρ g →
      base fr + (p + (compile entry g e p q).length - e) ≤ o → ND (eval defs n g ρ q v).stop →
      Yields code (Own (base fr) e p (compile entry g e p q).length) P o fr F (p + (compile entry g e p q).length) S
        (.run p (.v v :: S) F false none R fr o cp) (eval defs n g ρ q v).outs (eval defs n g ρ q v).stop.toErr := by
  intro n
  have key : CY code defs entry nf n := by
    induction n with
    | zero => intro q g e p _ _ _ ρ v S F R fr o cp P _ _ _ _ _ _ hnd; simp [eval, ND] at hnd
    | succ n ihn =>
      intro q
      cases q with
      | id => exact cy_id hfun ihn
      | const c => exact cy_const hfun ihn c
      | empty => exact cy_empty hfun ihn
      | iter => exact cy_iter hfun ihn
      | pipe a b => exact cy_pipe hfun ihn a b
      | comma a b => exact cy_comma hfun ihn a b
      | arr q => exact cy_arr hfun ihn q
      | param => exact cy_param hfun ihn
      | call1 f a => exact cy_call1 hfun ihn f a
      | error => exact cy_error hfun ihn
      | try_ b => exact cy_try hfun ihn b
      | tryCatch b h => exact cy_tryCatch hfun ihn b h
      | index k => exact cy_index hfun ihn k
      | ite c a b => exact cy_ite hfun ihn c a b
      | alt l r => exact cy_alt hfun ihn l r
      | var x => exact cy_var hfun ihn x
      | bind x s b => exact cy_bind hfun ihn x s b
      | reduce x src init upd => exact cy_reduce hfun ihn x src init upd
      | foreach x src init upd ext => exact cy_foreach hfun ihn x src init upd ext
      | obj sp => exact cy_obj hfun ihn sp
      | objStart => exact cy_objStart hfun ihn
      | objSnoc init k v => exact cy_objSnoc hfun ihn init k v
      | objSnocC init key v => exact cy_objSnocC hfun ihn init key v
      | delay q => exact cy_delay hfun ihn q
  exact key


/-! ## code layout -/

theorem compile_length (entry : Name → Nat) : ∀ (q : Q) (g : Ctx) (e p : Nat), (compile entry g e p q).length = q.size := by
  intro q
  induction q with
  | id => intros; rfl
  | const c => intros; rfl
  | pipe a b iha ihb => intro g e p; simp [compile, Q.size, iha, ihb]
  | comma a b iha ihb => intro g e p; simp [compile, Q.size, iha, ihb]; omega
  | iter => intros; rfl
  | empty => intros; rfl
  | arr q ih => intro g e p; simp [compile, Q.size, ih]
  | param => intros; rfl
  | call1 f a ih => intro g e p; simp [compile, Q.size, ih]
  | error => intros; rfl
  | try_ b ih => intro g e p; simp [compile, Q.size, ih]
  | tryCatch b h ihb ihh => intro g e p; simp [compile, Q.size, ihb, ihh]; omega
  | index k => intros; rfl
  | ite c a b ihc iha ihb => intro g e p; simp [compile, Q.size, ihc, iha, ihb]; omega
  | alt l r ihl ihr => intro g e p; simp [compile, Q.size, ihl, ihr]; omega
  | var x => intros; rfl
  | bind x s b ihs ihb => intro g e p; simp [compile, Q.size, ihs, ihb]; omega
  | reduce x src init upd i1 i2 i3 => intro g e p; simp [compile, Q.size, i1, i2, i3]; omega
  | foreach x src init upd ext i1 i2 i3 i4 => intro g e p; simp [compile, Q.size, i1, i2, i3, i4]; omega
  | obj sp ih => intro g e p; simp [compile, Q.size, ih]
  | objStart => intros; rfl
  | objSnoc init k v i1 i2 i3 => intro g e p; simp [compile, Q.size, i1, i2, i3]; omega
  | objSnocC init key v i1 i2 => intro g e p; simp [compile, Q.size, i1, i2]; omega
  | delay q ih => intro g e p; simp [compile, Q.size, ih]

theorem Seg.mid (A B C : List Instr) : Seg (A ++ B ++ C) A.length B := by
  intro i hi
  rw [List.append_assoc, List.getElem?_append_right (by omega)]
  simp [List.getElem?_append_left hi]

theorem Seg.mid' (A B C : List Instr) (n : Nat) (h : A.length = n) : Seg (A ++ B ++ C) n B := h ▸ Seg.mid A B C

theorem getElem?_mid (A : List Instr) (x : Instr) (C : List Instr) (n : Nat) (h : A.length = n) :
    (A ++ x :: C)[n]? = some x := by
  subst h; simp

theorem compileFunc_length (entry : Name → Nat) (f : Name) (q : Q) (start : Nat) :
    (compileFunc entry f q start).length = q.size + 6 := by
  simp [compileFunc, compile_length]

theorem funcsLen_append (a b : List Q) : funcsLen (a ++ b) = funcsLen a + funcsLen b := by
  simp [funcsLen]

theorem funcsLen_cons (q : Q) (qs : List Q) : funcsLen (q :: qs) = q.size + 6 + funcsLen qs := by
  simp [funcsLen]

theorem compileFuncs_length (entry : Name → Nat) : ∀ (qs : List Q) (f start : Nat),
    (compileFuncs entry f start qs).length = funcsLen qs := by
  intro qs
  induction qs with
  | nil => intros; rfl
  | cons q qs ih => intro f start; simp [compileFuncs, compileFunc_length, ih, funcsLen_cons]

theorem compileFuncs_append (entry : Name → Nat) : ∀ (pre post : List Q) (f start : Nat),
    compileFuncs entry f start (pre ++ post) =
      compileFuncs entry f start pre ++ compileFuncs entry (f + pre.length) (start + funcsLen pre) post := by
  intro pre
  induction pre with
  | nil => intro post f start; simp [compileFuncs, funcsLen]
  | cons q pre ih =>
    intro post f start
    simp only [List.cons_append, compileFuncs, ih, List.append_assoc, List.length_cons, funcsLen_cons]
    rw [show f + (pre.length + 1) = f + 1 + pre.length by omega,
      show start + (q.size + 6 + funcsLen pre) = start + q.size + 6 + funcsLen pre by omega]

/-- the block of function `k` inside the program -/
theorem prog_func_seg (p : Prog) (k : Nat) (hk : k < p.defs.length) :
    Seg (compileProg p) (1 + funcsLen (p.defs.take k))
      (compileFunc (entryOf p.defs) k p.defs[k] (1 + funcsLen (p.defs.take k))) := by
  have hsplit : p.defs = p.defs.take k ++ p.defs[k] :: p.defs.drop (k+1) := by
    rw [List.getElem_cons_drop hk, List.take_append_drop]
  have hlen : (p.defs.take k).length = k := by simp; omega
  have hc : compileProg p =
      ([Instr.scope 0 (1 + funcsLen p.defs + p.main.size) 0] ++ compileFuncs (entryOf p.defs) 0 1 (p.defs.take k)) ++
        compileFunc (entryOf p.defs) k p.defs[k] (1 + funcsLen (p.defs.take k)) ++
        (compileFuncs (entryOf p.defs) (k + 1) (1 + funcsLen (p.defs.take k) + p.defs[k].size + 6) (p.defs.drop (k+1)) ++
          compile (entryOf p.defs) ⟨none, []⟩ 0 (1 + funcsLen p.defs) p.main ++ [Instr.ret]) := by
    simp only [compileProg]
    conv => lhs; rw [hsplit]
    rw [compileFuncs_append]
    simp only [compileFuncs, hlen, Nat.zero_add, List.append_assoc]
    rw [← hsplit]
  have := Seg.mid' ([Instr.scope 0 (1 + funcsLen p.defs + p.main.size) 0] ++ compileFuncs (entryOf p.defs) 0 1 (p.defs.take k))
    (compileFunc (entryOf p.defs) k p.defs[k] (1 + funcsLen (p.defs.take k)))
    (compileFuncs (entryOf p.defs) (k + 1) (1 + funcsLen (p.defs.take k) + p.defs[k].size + 6) (p.defs.drop (k+1)) ++
          compile (entryOf p.defs) ⟨none, []⟩ 0 (1 + funcsLen p.defs) p.main ++ [Instr.ret])
    (1 + funcsLen (p.defs.take k)) (by simp [compileFuncs_length]; omega)
  rw [← hc] at this
  exact this

theorem prog_main_seg (p : Prog) :
    Seg (compileProg p) (1 + funcsLen p.defs) (compile (entryOf p.defs) ⟨none, []⟩ 0 (1 + funcsLen p.defs) p.main) := by
  exact Seg.mid' ([Instr.scope 0 (1 + funcsLen p.defs + p.main.size) 0] ++ compileFuncs (entryOf p.defs) 0 1 p.defs)
    (compile (entryOf p.defs) ⟨none, []⟩ 0 (1 + funcsLen p.defs) p.main) [Instr.ret] _ (by simp [compileFuncs_length]; omega)

theorem prog_ret (p : Prog) : (compileProg p)[1 + funcsLen p.defs + p.main.size]? = some .ret := by
  exact getElem?_mid ([Instr.scope 0 (1 + funcsLen p.defs + p.main.size) 0] ++ compileFuncs (entryOf p.defs) 0 1 p.defs ++
    compile (entryOf p.defs) ⟨none, []⟩ 0 (1 + funcsLen p.defs) p.main) .ret [] _
    (by simp [compileFuncs_length, compile_length]; omega)

theorem prog_scope0 (p : Prog) : (compileProg p)[0]? = some (.scope 0 (1 + funcsLen p.defs + p.main.size) 0) := by
  simp [compileProg]

theorem prog_length (p : Prog) : (compileProg p).length = 1 + funcsLen p.defs + p.main.size + 1 := by
  simp [compileProg, compileFuncs_length, compile_length]; omega

theorem defsFn_get (p : Prog) (k : Nat) (hk : k < p.defs.length) : p.defsFn k = p.defs[k] := by
  simp [Prog.defsFn, List.getD, List.getElem?_eq_getElem hk]

/-- `compileProg` lays every function out as `compile_yields` needs -/
theorem funcsOK_compileProg (p : Prog) (hwf : p.WF) :
    FuncsOK (compileProg p) p.defsFn (entryOf p.defs) p.defs.length := by
  have blk := prog_func_seg p
  have hent : ∀ k, entryOf p.defs k = 1 + funcsLen (p.defs.take k) + 1 := by intro k; simp [entryOf]; omega
  refine ⟨?_, ?_, ?_, ?_, ?_, ?_, ?_⟩
  · intro f hf
    have := blk f hf 1 (by simp [compileFunc_length])
    rw [defsFn_get p f hf, compile_length, hent]
    simpa [compileFunc] using this
  · intro f hf
    have := blk f hf 2 (by simp [compileFunc_length])
    rw [hent]
    simpa [compileFunc] using this
  · intro f hf
    have := blk f hf 3 (by simp [compileFunc_length])
    rw [hent]
    simpa [compileFunc] using this
  · intro f hf
    have := blk f hf 4 (by simp [compileFunc_length])
    rw [hent]
    simpa [compileFunc] using this
  · intro f hf
    have h := blk f hf
    simp only [compileFunc] at h
    have h2 := Seg.append_right (Seg.append_left h)
    rw [defsFn_get p f hf, hent]
    simpa [Nat.add_assoc] using h2
  · intro f hf
    have h := blk f hf
    simp only [compileFunc] at h
    have h2 := Seg.head (Seg.append_right h)
    rw [defsFn_get p f hf, hent, compile_length]
    simp only [List.length_append, List.length_cons, List.length_nil, compile_length] at h2
    rw [show 1 + funcsLen (List.take f p.defs) + 1 + 4 + p.defs[f].size =
      1 + funcsLen (List.take f p.defs) + (0 + 1 + 1 + 1 + 1 + 1 + p.defs[f].size) by omega]
    exact h2
  · intro f hf
    rw [defsFn_get p f hf]
    exact hwf.defs_closed _ (List.getElem_mem hf)

/-! ## from `env.execute` to the main query: `opscope`, then one `jump` per definition -/

theorem funcsLen_take_succ (qs : List Q) (k : Nat) (hk : k < qs.length) :
    funcsLen (qs.take (k+1)) = funcsLen (qs.take k) + (qs[k].size + 6) := by
  rw [List.take_add_one, List.getElem?_eq_getElem hk, funcsLen_append]
  simp [funcsLen]

theorem skip_defs (p : Prog) (st : List SV) (F : List Fork) (bt : Bool) (e : Option VErr) (R : Regs) (fr : List Frame)
    (off : Nat) (cp : CP) :
    ∀ (j k : Nat), k + j = p.defs.length →
      Steps (compileProg p) (.run (1 + funcsLen (p.defs.take k)) st F bt e R fr off cp)
        (.run (1 + funcsLen p.defs) st F bt e R fr off cp) := by
  intro j
  induction j with
  | zero => intro k hk; have : k = p.defs.length := by omega
            subst this; simp; exact .refl _
  | succ j ih =>
    intro k hk
    have hk' : k < p.defs.length := by omega
    have hj := prog_func_seg p k hk' 0 (by simp [compileFunc_length])
    simp only [compileFunc, Nat.add_zero, List.cons_append, List.getElem_cons_zero] at hj
    refine .head (c' := .run (1 + funcsLen (p.defs.take (k+1))) st F bt e R fr off cp) ?_ (ih (k+1) (by omega))
    rw [funcsLen_take_succ _ _ hk']
    simp [step, hj, Nat.add_assoc]

/-! ## the values successive `Next()` calls return -/

/-- `Run code c outs e`: from `c` the machine emits exactly `outs` (each at the main frame's `ret`,
    resuming as `Next` does) and then stops with no pending fork, carrying the error `e` -/
inductive Run (code : Code) : Cfg → List V → Option Err → Prop where
  | stop {c e R} : Steps code c (.fail [] (e.map .plain) R) → Run code c [] e
  | emit {c c' c'' w ws e} : Steps code c c' → emits code c' = some (w, c'') → Run code c'' ws e → Run code c (w :: ws) e

theorem yields_run {code O P o m pr} (hret : code[pr]? = some .ret) {c outs e}
    (y : Yields code O P o [m] [] pr [] c outs e) : Run code c outs e := by
  induction y with
  | done hs _ => exact .stop hs
  | @out c w ws e F' R1 o1 cp _ hs _ _ _ _ ih =>
    exact .emit hs (by simp [emits, hret]) (ih R1 EqOn.refl)

theorem emits_step_none {code c w c'} (h : emits code c = some (w, c')) : step code c = none := by
  unfold emits at h
  split at h
  · rename_i pc w' st fs R m off cp
    split at h
    · rename_i hc; simp [step, hc]
    · cases h
  · cases h

theorem exec_steps {code c c'} (hs : Steps code c c') : ∀ n acc, ∃ k, exec code (n + k) c acc = exec code n c' acc := by
  induction hs with
  | refl => intro n acc; exact ⟨0, rfl⟩
  | head h _ ih =>
    intro n acc
    obtain ⟨k, hk⟩ := ih n acc
    exact ⟨k + 1, by rw [← Nat.add_assoc]; simp only [exec, h]; exact hk⟩

theorem exec_emit {code c w c'} (h : emits code c = some (w, c')) (n : Nat) (acc : List V) :
    exec code (n+1) c acc = exec code n c' (w :: acc) := by
  have hs := emits_step_none h
  cases c with
  | fail fs e R => simp [emits] at h
  | run pc st fs bt e R fr off cp => simp only [exec, hs, h]

theorem run_exec {code c outs e} (r : Run code c outs e) :
    ∀ acc, ∃ n, exec code n c acc = .finished (acc.reverse ++ outs) (e.map .plain) := by
  induction r with
  | @stop c e R hs =>
    intro acc
    obtain ⟨k, hk⟩ := exec_steps hs 1 acc
    exact ⟨1 + k, by rw [hk]; simp [exec, step]⟩
  | @emit c c' c'' w ws e hs hem _ ih =>
    intro acc
    obtain ⟨n, hn⟩ := ih (w :: acc)
    obtain ⟨k, hk⟩ := exec_steps hs (n+1) acc
    exact ⟨n + 1 + k, by rw [hk, exec_emit hem, hn]; simp⟩

/-- more fuel does not change a finished run -/
theorem exec_mono {code} : ∀ (n : Nat) (c : Cfg) (acc : List V) (o : List V) (e : Option VErr),
    exec code n c acc = .finished o e → ∀ k, exec code (n + k) c acc = .finished o e := by
  intro n
  induction n with
  | zero => intro c acc o e h; simp [exec] at h
  | succ n ih =>
    intro c acc o e h k
    have e1 : n + 1 + k = (n + k) + 1 := by omega
    rw [e1]
    simp only [exec] at h ⊢
    cases hs : step code c with
    | some c' => rw [hs] at h; simp only []; exact ih _ _ _ _ h k
    | none =>
      rw [hs] at h
      simp only [] at h ⊢
      cases c with
      | fail fs e' R =>
        cases fs with
        | nil => simpa using h
        | cons f fs => simp [step] at hs
      | run pc st fs bt e' R fr off cp =>
        simp only [] at h ⊢
        cases hem : emits code (.run pc st fs bt e' R fr off cp) with
        | none => rw [hem] at h; simp at h
        | some r => obtain ⟨w, c'⟩ := r; rw [hem] at h; simp only [] at h ⊢; exact ih _ _ _ _ h k

theorem Run.steps_left {code c c' outs e} (hs : Steps code c c') (r : Run code c' outs e) : Run code c outs e := by
  cases r with
  | stop h => exact .stop (hs.trans h)
  | emit h hem r' => exact .emit (hs.trans h) hem r'

instance (s : Stop) : Decidable (ND s) := by
  unfold ND; cases s <;> infer_instance

/-- the whole program: `env.execute`, then `Next()` until exhaustion -/
theorem prog_refines (p : Prog) (hwf : p.WF) (v : V) (n : Nat)
    (hnd : ND (eval p.defsFn n ⟨none, []⟩ ⟨.none, []⟩ p.main v).stop) :
    Run (compileProg p) (initCfg (compileProg p) v)
      (eval p.defsFn n ⟨none, []⟩ ⟨.none, []⟩ p.main v).outs (eval p.defsFn n ⟨none, []⟩ ⟨.none, []⟩ p.main v).stop.toErr := by
  let m : Frame := ⟨0, (compileProg p).length - 1, 0, 0, none⟩
  let cp : CP := ((compileProg p).length - 1, none)
  have s1 : Steps (compileProg p) (initCfg (compileProg p) v)
      (.run 1 [.v v] [] false none (fun _ => .v .null) [m] (1 + funcsLen p.defs + p.main.size) cp) :=
    Steps.one (by simp [step, initCfg, prog_scope0, m, cp])
  have s2 := skip_defs p [.v v] [] false none (fun _ => .v .null) [m] (1 + funcsLen p.defs + p.main.size) cp p.defs.length 0 (by omega)
  simp only [List.take_zero, funcsLen, List.map_nil, List.sum_nil, Nat.add_zero] at s2
  have y := compile_yields (funcsOK_compileProg p hwf) n p.main ⟨none, []⟩ 0 (1 + funcsLen p.defs) (Nat.zero_le _)
    (prog_main_seg p) hwf.main_closed ⟨.none, []⟩ v [] [] (fun _ => .v .null) [m] (1 + funcsLen p.defs + p.main.size) cp
    (fun _ => False) ⟨m, [], rfl, rfl⟩ (by simp [scopeOf, scopeOfFn]) (fun h => absurd h hwf.main_noparam) (fun _ h => h.elim)
    ⟨EnvRel.none, fun x r hx => by simp [lookup] at hx⟩
    (by simp only [base, m, compile_length]; omega) hnd
  have hret : (compileProg p)[1 + funcsLen p.defs + (compile (entryOf p.defs) ⟨none, []⟩ 0 (1 + funcsLen p.defs) p.main).length]? = some .ret := by
    rw [compile_length]; exact prog_ret p
  exact (yields_run hret y).steps_left (s1.trans (by simpa [funcsLen] using s2))

/-! ## example programs for Props/C01Compile.lean -/

/-- `def f₀(g): g, (.[] | f₀(g)); f₀(.)` : recursive descent -/
def exProg : Prog :=
  { defs := [.comma .param (.pipe .iter (.call1 0 .param))], main := .call1 0 .id }
/-- `[[], [[]]]` -/
def exInput : V := .arr [.arr [], .arr [.arr []]]

/-- `try ((.[] | error), 1) catch [.]` : the first error of the body ends it and runs the handler -/
def exTry : Prog :=
  { defs := [], main := .tryCatch (.comma (.pipe .iter .error) (.const (.num (.int 1)))) (.arr .id) }
/-- `(try 1 catch 2) | error` : the error is raised by the continuation of the `try`: not caught -/
def exTryCont : Prog :=
  { defs := [], main := .pipe (.tryCatch (.const (.num (.int 1))) (.const (.num (.int 2)))) .error }
/-- `[7, 8]` -/
def exInput2 : V := .arr [.num (.int 7), .num (.int 8)]

/-- `reduce .[] as $x (0; [., $x])` : the state is threaded through the elements -/
def exReduce : Prog :=
  { defs := [], main := .reduce 0 .iter (.const (.num (.int 0))) (.arr (.comma .id (.var 0))) }
/-- `reduce .[] as $x (0; empty)` : an empty update keeps the state -/
def exReduceEmpty : Prog :=
  { defs := [], main := .reduce 0 .iter (.const (.num (.int 0))) .empty }
/-- `foreach .[] as $x (0; $x, [.]; [$x, .])` : every output of the update becomes the state and is
    extracted; the next element sees the LAST one -/
def exForeach : Prog :=
  { defs := [], main := .foreach 0 .iter (.const (.num (.int 0))) (.comma (.var 0) (.arr .id)) (.arr (.comma (.var 0) .id)) }

/-- a message function for evaluating examples -/
def exMsg : IterMsg := ⟨fun _ => .str [], fun _ _ => some .null, fun _ _ => .null, fun _ => .null⟩

end Gojq.MiniVM

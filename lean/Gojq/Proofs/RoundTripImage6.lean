/-
  The image of the reference parser is Printable, part 5: the operator loop, the assembly by
  induction on the recursion budget, and the theorem.
-/
import Gojq.Proofs.RoundTripImage5
namespace Gojq.RefTerm
open Gojq Gojq.Lexer

theorem lhsInvQ_term (item : Bool) (min : Nat) (t : Term) (ts : List Tok) (h : okT t = true) :
    LhsInvQ item min (.term t) ts :=
  ⟨by rw [okQ_term]; exact h, fun hc => by simp [closedQ] at hc, fun _ _ _ _ _ => by rw [okQ_term]; exact h,
    fun _ _ => by rw [okQ_term]; exact h⟩

theorem step_climb (f : Nat) (ih : IH f) : ∀ (item : Bool) (min : Nat) (ts : List Tok) (q : Query) (rest : List Tok),
    pClimb (f + 1) item min ts = some (q, rest) → Good ts → (item = true → min ≤ 3) →
      okQ item min q = true ∧ Good rest ∧ LoopStop item min rest ∧ OpenStop q rest := by
  intro item min ts q rest h hg hmin
  unfold pClimb at h
  split at h
  · split at h
    · next hi =>
      ext_do h
      obtain ⟨fd, ts1, h1, q', ts2, h2, rfl, rfl⟩ := h
      obtain ⟨a1, a2⟩ := ih.funcDef _ fd ts1 h1 hg.tail
      obtain ⟨p1, p2, p3, _⟩ := ih.climb true 1 ts1 q' ts2 h2 a2 (fun _ => by omega)
      subst hi
      exact ⟨by rw [okQ_def]; simp [a1, p1], p2, loopStop_open _ _ _ p3, openStop_of_loopStop _ _ p3⟩
    · cases h
  · split at h
    · next hi =>
      ext_do h
      obtain ⟨b, ts2, h2, rfl, rfl⟩ := h
      obtain ⟨p1, p2, p3, _⟩ := ih.climb true 1 _ b ts2 h2 hg.tail3 (fun _ => by omega)
      subst hi
      exact ⟨by rw [okQ_label]; simp [wf_var hg.tail.head, p1], p2, loopStop_open _ _ _ p3,
        openStop_of_loopStop _ _ p3⟩
    · cases h
  · ext_do h
    obtain ⟨t, ts1, h1, h2⟩ := h
    obtain ⟨a1, a2, _, _⟩ := ih.term _ t ts1 h1 hg
    exact ih.loop item min (.term t) ts1 q rest h2 a2 hmin (lhsInvQ_term _ _ _ _ a1)

theorem step_loop (f : Nat) (ih : IH f) : ∀ (item : Bool) (min : Nat) (lhs : Query) (ts : List Tok) (q : Query)
    (rest : List Tok), pLoop (f + 1) item min lhs ts = some (q, rest) → Good ts → (item = true → min ≤ 3) →
      LhsInvQ item min lhs ts → okQ item min q = true ∧ Good rest ∧ LoopStop item min rest ∧ OpenStop q rest := by
  intro item min lhs ts q rest h hg hmin hinv
  obtain ⟨hok, hopen, hext, has⟩ := hinv
  unfold pLoop at h
  split at h
  · simp only [Option.some.injEq, Prod.mk.injEq] at h
    obtain ⟨rfl, rfl⟩ := h
    exact ⟨hok, hg, ⟨fun _ _ hx => by simp at hx, fun hx => by simp at hx⟩,
      fun _ => ⟨fun _ _ hx => by simp at hx, by simp⟩⟩
  · next x rest' =>
    split at h
    · next o ho =>
      split at h
      · next hlt =>
        simp only [Option.some.injEq, Prod.mk.injEq] at h
        obtain ⟨rfl, rfl⟩ := h
        refine ⟨hok, hg, ⟨fun y o' hy ho' => ?_, fun hy => ?_⟩, hopen⟩
        · simp at hy; subst hy; rw [ho] at ho'; cases ho'; exact hlt
        · simp at hy; subst hy; simp [binopOfTok] at ho
      · next hge =>
        have hge' : min ≤ o.lv := by omega
        ext_do h
        obtain ⟨rhs, ts', h1, h2⟩ := h
        have hritem : (decide (o.lv ≤ 2) = true → o.rmin ≤ 3) := by
          intro hd; simp at hd; cases o <;> simp_all [BOp.lv, BOp.rmin, BOp.assoc, assocOfLv]
        obtain ⟨r1, rg, r2, r3⟩ := ih.climb _ _ _ rhs ts' h1 hg.tail hritem
        split at h2
        · cases h2
        · next hcl =>
          have hl : okQ false o.lmin lhs = true := hext x o rfl ho hge'
          have hclosed : closedQ lhs = true := by
            cases hc : closedQ lhs
            · exact absurd ho (by intro ho'; exact (hopen hc).1 x o rfl ho')
            · rfl
          have hnew : okQ item min (.binop o lhs rhs) = true := by
            rw [okQ_binop]; simp [hge', hl, hclosed, r1]
          refine ih.loop item min (.binop o lhs rhs) ts' q rest h2 rg hmin ⟨hnew, ?_, ?_, ?_⟩
          · intro hc; simp only [closedQ] at hc; exact r3 hc
          · intro y o2 hy ho2 _
            have h21 := r2.1 y o2 hy ho2
            have hnc : ¬ (o.assoc = .non ∧ o2.lv = o.lv) := by
              intro ⟨ha, he⟩
              apply hcl
              cases ts' with
              | nil => simp at hy
              | cons z zs =>
                simp at hy; subst hy
                simp [ha, clash, ho2, he]
            rw [okQ_binop]
            simp [lmin_of_follow o2 o h21 hnc, hl, hclosed, r1]
          · intro hy _
            have := r2.2 hy
            have h3 : 3 ≤ o.lv := by simp at this; omega
            rw [okQ_binop]
            simp [h3, hl, hclosed, r1]
    · next hno =>
      split at h
      · split at h
        · next hi =>
          ext_do h
          obtain ⟨p, ts1, h1, ps, ts2, h2, ts3, h3, b, ts4, h4, rfl, rfl⟩ := h
          obtain ⟨a1, a2⟩ := ih.pattern _ p ts1 h1 hg.tail
          obtain ⟨b1, b2⟩ := ih.altT _ ps ts2 h2 a2
          have := expect_some h3; subst this
          obtain ⟨p1, p2, p3, _⟩ := ih.climb true 1 ts3 b ts4 h4 b2.tail (fun _ => by omega)
          subst hi
          have h3' := hmin rfl
          have hs := has rfl rfl
          exact ⟨by rw [okQ_bind]; simp [h3', hs, a1, b1, p1], p2, loopStop_open _ _ _ p3,
            openStop_of_loopStop _ _ p3⟩
        · next hi =>
          simp only [Option.some.injEq, Prod.mk.injEq] at h
          obtain ⟨rfl, rfl⟩ := h
          have hi' : item = false := by simpa using hi
          refine ⟨hok, hg, ⟨fun y o' hy ho' => ?_, fun _ => hi'⟩, hopen⟩
          simp at hy; subst hy; simp [binopOfTok] at ho'
      · next hx =>
        simp only [Option.some.injEq, Prod.mk.injEq] at h
        obtain ⟨rfl, rfl⟩ := h
        refine ⟨hok, hg, ⟨fun y o' hy ho' => ?_, fun hy => ?_⟩, hopen⟩
        · simp at hy; subst hy; rw [hno] at ho'; cases ho'
        · simp at hy; subst hy; exact absurd rfl (hx)

theorem ih_zero : IH 0 where
  climb := fun _ _ _ _ _ h => by simp [pClimb] at h
  loop := fun _ _ _ _ _ _ h => by simp [pLoop] at h
  funcDef := fun _ _ _ h => by simp [pFuncDef] at h
  term := fun _ _ _ h => by simp [pTerm] at h
  suf := fun _ _ _ _ h => by simp [pSuf] at h
  bracket := fun _ _ _ h => by simp [pBracket] at h
  primary := fun _ _ _ h => by simp [pPrimary] at h
  parts := fun _ _ _ h => by simp [pParts] at h
  argsT := fun _ _ _ h => by simp [pArgsT] at h
  objVal := fun _ _ _ h => by simp [pObjVal] at h
  kv := fun _ _ _ h => by simp [pKV] at h
  kvsT := fun _ _ _ h => by simp [pKVsT] at h
  pattern := fun _ _ _ h => by simp [pPattern] at h
  psT := fun _ _ _ h => by simp [pPsT] at h
  altT := fun _ _ _ h => by simp [pAltT] at h
  pkv := fun _ _ _ h => by simp [pPKV] at h
  pkvsT := fun _ _ _ h => by simp [pPKVsT] at h
  ifRest := fun _ _ _ h => by simp [pIfRest] at h

theorem ih_all : ∀ f, IH f := by
  intro f
  induction f with
  | zero => exact ih_zero
  | succ f ih =>
    exact {
      climb := step_climb f ih, loop := step_loop f ih, funcDef := step_funcDef f ih, term := step_term f ih,
      suf := step_suf f ih, bracket := step_bracket f ih, primary := step_primary f ih, parts := step_parts f ih,
      argsT := step_argsT f ih, objVal := step_objVal f ih, kv := step_kv f ih, kvsT := step_kvsT f ih,
      pattern := step_pattern f ih, psT := step_psT f ih, altT := step_altT f ih, pkv := step_pkv f ih,
      pkvsT := step_pkvsT f ih, ifRest := step_ifRest f ih }

/-- THE IMAGE OF THE REFERENCE PARSER IS PRINTABLE: on a token list the lexer can have produced
    (`Good`: every token well-formed, interpolation tokens in lexer order) every query it returns
    is Printable -/
theorem refParse_printable (f : Nat) (ts : List Tok) (q : Query) (hg : Good ts) (h : refParseQ f ts = some q) :
    Printable q = true := by
  unfold refParseQ at h
  split at h
  · next q' heq =>
    simp only [Option.some.injEq] at h
    subst h
    exact ((ih_all f).climb true 1 ts q' [] heq hg (fun _ => by omega)).1
  · cases h

end Gojq.RefTerm

/-
  Congruence: every instruction other than call / callrec / pushpc / callpc / scope / ret respects
  the relation `TRel` of Proofs/TailSimRel.lean (in the style of Proofs/OptSimCong.lean).  Run from
  the related environments of the original and the optimised run, `exec ins x l` fails the same
  way on both sides or returns the same control result and related environments.  The two places
  where the scope stack is READ by such an instruction are
    * `env.index` (load, store, append, forklabel): same slot on both sides by `LEq`, provided the
      scope id is not `Dead` (static condition on the code);
    * `pushfork`: both sides save their own scope-stack position; the saved positions are related.
-/
import Gojq.Proofs.TailSimRel
set_option linter.unusedSimpArgs false
set_option linter.unusedVariables false
namespace Gojq.TailVM
open Gojq Gojq.VM Gojq.OptVM

/-- `TRel`, while the optimised scope stack is not empty -/
def TRelN (c : Array Instr) (e e' : Env) : Prop := TRel c e e' ∧ 0 ≤ e'.scopes.index

/-- related results: same failure, or same value and related environments -/
def RResT {α : Type} (c : Array Instr) : Res α → Res α → Prop
  | .ok a e, .ok a' e' => a = a' ∧ TRelN c e e'
  | .panic s, .panic s' => s = s'
  | .stuck w, .stuck w' => w = w'
  | _, _ => False

/-- `m` respects the relation -/
def TCong {α : Type} (c : Array Instr) (m : M α) : Prop := ∀ e e', TRelN c e e' → RResT c (m e) (m e')

theorem TCong.pure {α : Type} {c : Array Instr} (a : α) : TCong c (pure a : M α) := fun _ _ h => ⟨rfl, h⟩

theorem TCong.bind {α β : Type} {c : Array Instr} {m : M α} {f : α → M β} (hm : TCong c m)
    (hf : ∀ a, TCong c (f a)) : TCong c (m >>= f) := by
  intro e e' h
  have := hm e e' h
  show RResT c (M.bind m f e) (M.bind m f e')
  unfold M.bind
  cases h1 : m e with
  | ok a e1 =>
    cases h2 : m e' with
    | ok a' e1' =>
      rw [h1, h2] at this
      obtain ⟨rfl, hr⟩ := this
      exact hf a e1 e1' hr
    | panic s => rw [h1, h2] at this; exact this.elim
    | stuck w => rw [h1, h2] at this; exact this.elim
  | panic s =>
    cases h2 : m e' with
    | ok a' e1' => rw [h1, h2] at this; exact this.elim
    | panic s' => rw [h1, h2] at this; exact this
    | stuck w => rw [h1, h2] at this; exact this.elim
  | stuck w =>
    cases h2 : m e' with
    | ok a' e1' => rw [h1, h2] at this; exact this.elim
    | panic s' => rw [h1, h2] at this; exact this.elim
    | stuck w' => rw [h1, h2] at this; exact this

theorem TCong.panic {α : Type} {c : Array Instr} (s : Site) : TCong c (panic s : M α) := fun _ _ _ => rfl
theorem TCong.stuck {α : Type} {c : Array Instr} (w : String) : TCong c (stuck w : M α) := fun _ _ _ => rfl

/-- `m` neither reads nor writes the scope stack and the fork list, keeps `offset`, and never
    shrinks the variable array -/
def FrameS {α : Type} (m : M α) : Prop :=
  (∀ (e : Env) (sc : Stack Scope) (fk : List Fork),
    m { e with scopes := sc, forks := fk } =
      match m e with
      | .ok a e1 => .ok a { e1 with scopes := sc, forks := fk }
      | .panic s => .panic s
      | .stuck w => .stuck w) ∧
  (∀ e a e1, m e = .ok a e1 → e1.offset = e.offset ∧ e.values.size ≤ e1.values.size)

theorem TCong.frame {α : Type} {c : Array Instr} {m : M α} (h : FrameS m) : TCong c m := by
  intro e e' hr
  obtain ⟨hr, hne⟩ := hr
  obtain ⟨sc, fk, rfl, hs, ho⟩ := hr.elim
  have h1 := h.1 e sc fk
  have h0 := h.1 e e.scopes e.forks
  rw [h1]
  cases hm : m e with
  | ok a e1 =>
    rw [hm] at h0
    have h0' : Res.ok a e1 = Res.ok a { e1 with scopes := e.scopes, forks := e.forks } := h0
    simp only [Res.ok.injEq, true_and] at h0'
    have hsc : e1.scopes = e.scopes := by rw [h0']
    have hfk : e1.forks = e.forks := by rw [h0']
    obtain ⟨hoff, hsz⟩ := h.2 e a e1 hm
    refine ⟨rfl, TRel.mk' ?_ ?_, hne⟩
    · rw [hsc, hfk, hoff]; exact hs
    · refine ⟨by rw [hoff]; exact Int.le_trans ho.off (by omega), ?_, ?_⟩
      · intro j b hb
        rw [hsc] at hb
        exact Int.le_trans (ho.frames j b hb) (by omega)
      · intro f hf
        rw [hfk] at hf
        exact Int.le_trans (ho.forks f hf) (by omega)
  | panic s => exact rfl
  | stuck w => exact rfl

theorem FrameS.pure {α : Type} (a : α) : FrameS (pure a : M α) :=
  ⟨fun _ _ _ => rfl, fun e a' e1 h => by
    have h' : Res.ok a e = Res.ok a' e1 := h
    simp only [Res.ok.injEq] at h'
    obtain ⟨_, rfl⟩ := h'
    exact ⟨rfl, Nat.le_refl _⟩⟩

theorem FrameS.bind {α β : Type} {m : M α} {f : α → M β} (hm : FrameS m) (hf : ∀ a, FrameS (f a)) :
    FrameS (m >>= f) := by
  refine ⟨?_, ?_⟩
  · intro e sc fk
    show M.bind m f _ = match M.bind m f e with | .ok a e1 => _ | .panic s => _ | .stuck w => _
    unfold M.bind
    rw [hm.1 e sc fk]
    cases m e with
    | ok a e1 => simp only; exact (hf a).1 e1 sc fk
    | panic s => rfl
    | stuck w => rfl
  · intro e b e2 h
    obtain ⟨a, e1, h1, h2⟩ := bind_ok h
    obtain ⟨o1, s1⟩ := hm.2 e a e1 h1
    obtain ⟨o2, s2⟩ := (hf a).2 e1 b e2 h2
    exact ⟨by rw [o2, o1], by omega⟩

theorem FrameS.panic {α : Type} (s : Site) : FrameS (panic s : M α) :=
  ⟨fun _ _ _ => rfl, fun e a e1 h => by simp [VM.panic] at h⟩
theorem FrameS.stuck {α : Type} (w : String) : FrameS (stuck w : M α) :=
  ⟨fun _ _ _ => rfl, fun e a e1 h => by simp [VM.stuck] at h⟩

/-- a primitive that is a function of the environment leaving scopes, forks, offset, values alone -/
theorem FrameS.of_eq {α : Type} {m : M α}
    (h1 : ∀ (e : Env) (sc : Stack Scope) (fk : List Fork),
      m { e with scopes := sc, forks := fk } =
        match m e with
        | .ok a e1 => .ok a { e1 with scopes := sc, forks := fk }
        | .panic s => .panic s
        | .stuck w => .stuck w)
    (h2 : ∀ e a e1, m e = .ok a e1 → e1.offset = e.offset ∧ e1.values.size = e.values.size) : FrameS m :=
  ⟨h1, fun e a e1 h => ⟨(h2 e a e1 h).1, by rw [(h2 e a e1 h).2]; exact Nat.le_refl _⟩⟩

/-- `let e ← getEnv; f e` where `f` only looks at fields other than the scope stack and forks -/
theorem TCong.getEnv_bind {β : Type} {c : Array Instr} (f : Env → M β)
    (hf : ∀ (e : Env) (sc : Stack Scope) (fk : List Fork), f { e with scopes := sc, forks := fk } = f e)
    (h : ∀ e0, TCong c (f e0)) : TCong c (getEnv >>= f) := by
  intro e e' hr
  obtain ⟨sc, fk, rfl, hs, ho⟩ := hr.1.elim
  show RResT c (f e e) (f _ _)
  rw [hf e sc fk]
  exact h e e _ hr

/-! ## primitives that do not touch the scope stack -/

theorem FrameS.push (v : V) : FrameS (push v) :=
  FrameS.of_eq (fun _ _ _ => rfl) (fun e a e1 h => by
    have h' : Res.ok () { e with stack := e.stack.push v } = Res.ok a e1 := h
    simp only [Res.ok.injEq] at h'
    obtain ⟨_, rfl⟩ := h'
    exact ⟨rfl, rfl⟩)

theorem FrameS.pop : FrameS pop := by
  refine FrameS.of_eq ?_ ?_
  · intro e sc fk
    simp only [VM.pop]
    cases e.stack.pop? with
    | none => rfl
    | some p => rfl
  · intro e a e1 h
    simp only [VM.pop] at h
    cases hp : e.stack.pop? with
    | none => rw [hp] at h; simp at h
    | some p =>
      rw [hp] at h
      simp only [Res.ok.injEq] at h
      obtain ⟨_, rfl⟩ := h
      exact ⟨rfl, rfl⟩

theorem FrameS.stackTop : FrameS stackTop := by
  refine FrameS.of_eq ?_ ?_
  · intro e sc fk
    simp only [VM.stackTop]
    cases e.stack.top? with
    | none => rfl
    | some p => rfl
  · intro e a e1 h
    simp only [VM.stackTop] at h
    cases hp : e.stack.top? with
    | none => rw [hp] at h; simp at h
    | some p =>
      rw [hp] at h
      simp only [Res.ok.injEq] at h
      obtain ⟨_, rfl⟩ := h
      exact ⟨rfl, rfl⟩

theorem FrameS.pathsPush (v : V) : FrameS (pathsPush v) :=
  FrameS.of_eq (fun _ _ _ => rfl) (fun e a e1 h => by
    have h' : Res.ok () { e with paths := e.paths.push v } = Res.ok a e1 := h
    simp only [Res.ok.injEq] at h'
    obtain ⟨_, rfl⟩ := h'
    exact ⟨rfl, rfl⟩)

theorem FrameS.pathsPop : FrameS pathsPop := by
  refine FrameS.of_eq ?_ ?_
  · intro e sc fk
    simp only [VM.pathsPop]
    cases e.paths.pop? with
    | none => rfl
    | some p => rfl
  · intro e a e1 h
    simp only [VM.pathsPop] at h
    cases hp : e.paths.pop? with
    | none => rw [hp] at h; simp at h
    | some p =>
      rw [hp] at h
      simp only [Res.ok.injEq] at h
      obtain ⟨_, rfl⟩ := h
      exact ⟨rfl, rfl⟩

theorem FrameS.pathsTop : FrameS pathsTop := by
  refine FrameS.of_eq ?_ ?_
  · intro e sc fk
    simp only [VM.pathsTop]
    cases e.paths.top? with
    | none => rfl
    | some p => rfl
  · intro e a e1 h
    simp only [VM.pathsTop] at h
    cases hp : e.paths.top? with
    | none => rw [hp] at h; simp at h
    | some p =>
      rw [hp] at h
      simp only [Res.ok.injEq] at h
      obtain ⟨_, rfl⟩ := h
      exact ⟨rfl, rfl⟩

theorem FrameS.getValue (i : Int) : FrameS (getValue i) := by
  refine FrameS.of_eq ?_ ?_
  · intro e sc fk
    simp only [VM.getValue]
    split
    · cases e.values[i.toNat]? <;> rfl
    · rfl
  · intro e a e1 h
    simp only [VM.getValue] at h
    split at h
    · cases hp : e.values[i.toNat]? with
      | none => rw [hp] at h; simp at h
      | some p =>
        rw [hp] at h
        simp only [Res.ok.injEq] at h
        obtain ⟨_, rfl⟩ := h
        exact ⟨rfl, rfl⟩
    · simp at h

theorem FrameS.setValue (i : Int) (v : V) : FrameS (setValue i v) := by
  refine FrameS.of_eq ?_ ?_
  · intro e sc fk
    simp only [VM.setValue]
    split <;> rfl
  · intro e a e1 h
    simp only [VM.setValue] at h
    split at h
    · simp only [Res.ok.injEq] at h
      obtain ⟨_, rfl⟩ := h
      exact ⟨rfl, by simp⟩
    · simp at h

theorem FrameS.extCall (x : ExtRec) : FrameS (extCall x) := by
  refine FrameS.of_eq ?_ ?_
  · intro e sc fk
    simp only [VM.extCall]
    cases x.call <;> rfl
  · intro e a e1 h
    simp only [VM.extCall] at h
    cases hp : x.call with
    | none => rw [hp] at h; simp at h
    | some p =>
      rw [hp] at h
      simp only [Res.ok.injEq] at h
      obtain ⟨_, rfl⟩ := h
      exact ⟨rfl, rfl⟩

theorem FrameS.tracking : FrameS tracking :=
  FrameS.of_eq (fun _ _ _ => rfl) (fun e a e1 h => by
    have h' : Res.ok (!e.paths.empty && e.expdepth == 0) e = Res.ok a e1 := h
    simp only [Res.ok.injEq] at h'
    obtain ⟨_, rfl⟩ := h'
    exact ⟨rfl, rfl⟩)

theorem FrameS.asJV (v : V) : FrameS (asJV v) := by
  unfold VM.asJV; split
  · exact FrameS.pure _
  · exact FrameS.stuck _

theorem FrameS.modify (f : Env → Env)
    (hf : ∀ (e : Env) (sc : Stack Scope) (fk : List Fork),
      f { e with scopes := sc, forks := fk } = { f e with scopes := sc, forks := fk })
    (ho : ∀ e, (f e).offset = e.offset ∧ (f e).values.size = e.values.size) :
    FrameS (modifyEnv f) := by
  refine FrameS.of_eq ?_ ?_
  · intro e sc fk
    simp only [modifyEnv]
    rw [hf]
  · intro e a e1 h
    have h' : Res.ok () (f e) = Res.ok a e1 := h
    simp only [Res.ok.injEq] at h'
    obtain ⟨_, rfl⟩ := h'
    exact ho e

theorem FrameS.pathIntact (x : ExtRec) : FrameS (pathIntact x) := by
  unfold VM.pathIntact
  refine FrameS.bind FrameS.pathsTop (fun w => ?_)
  split
  · split
    · exact FrameS.pure _
    · exact FrameS.stuck _
  · exact FrameS.panic _

theorem FrameS.poppathsLoop : ∀ (n : Nat) (acc : List JV), FrameS (poppathsLoop n acc) := by
  intro n
  induction n with
  | zero => intro acc; unfold VM.poppathsLoop; exact FrameS.stuck _
  | succ n ih =>
    intro acc
    unfold VM.poppathsLoop
    refine FrameS.bind FrameS.pathsPop (fun p => ?_)
    split
    · exact FrameS.pure _
    · exact FrameS.bind (FrameS.asJV _) (fun j => ih _)
    · exact FrameS.panic _

theorem FrameS.poppaths : FrameS poppaths := by
  refine ⟨?_, ?_⟩
  · intro e sc fk
    exact (FrameS.poppathsLoop _ _).1 e sc fk
  · intro e a e1 h
    exact (FrameS.poppathsLoop _ _).2 e a e1 h

theorem FrameS.pushPaths (w : V) : ∀ (ps : List JV), FrameS (pushPaths w ps) := by
  intro ps
  induction ps with
  | nil => unfold VM.pushPaths; exact FrameS.pure _
  | cons p ps ih =>
    unfold VM.pushPaths
    exact FrameS.bind (FrameS.pathsPush _) (fun _ => ih)

theorem FrameS.objectLoop (x : ExtRec) : ∀ (n : Nat) (m : List (Bytes × JV)), FrameS (objectLoop x n m) := by
  intro n
  induction n with
  | zero => intro m; unfold VM.objectLoop; exact FrameS.pure _
  | succ n ih =>
    intro m
    unfold VM.objectLoop
    refine FrameS.bind FrameS.pop (fun v => ?_)
    refine FrameS.bind FrameS.pop (fun k => ?_)
    split
    · exact FrameS.bind (FrameS.asJV _) (fun j => ih _)
    · exact FrameS.pure _

theorem FrameS.popArgs : ∀ (n : Nat), FrameS (popArgs n) := by
  intro n
  induction n with
  | zero => unfold VM.popArgs; exact FrameS.pure _
  | succ n ih =>
    unfold VM.popArgs
    exact FrameS.bind FrameS.pop (fun a => FrameS.bind ih (fun r => FrameS.pure _))

/-! ## the two primitives that read the scope stack -/

/-- `env.index` for a scope id the code may name: the same slot on both sides -/
theorem TCong.envIndex {c : Array Instr} (id off : Int) (hid : ¬ Dead c id) : TCong c (envIndex id off) := by
  intro e e' hr
  obtain ⟨sc, fk, rfl, hs, ho⟩ := hr.1.elim
  obtain ⟨r, h1, h2⟩ := hs.sr.leq id hid
  have w1 := h1.walk off (e.scopes.data.size + 1) (by omega) (by have := h1.lt_size; omega)
  have w2 := h2.walk off (sc.data.size + 1) (by omega) (by have := h2.lt_size; omega)
  simp only [VM.envIndex]
  rw [w1, w2]
  cases r with
  | none => exact rfl
  | some o => exact ⟨rfl, hr⟩

theorem ScRel.save {c : Array Instr} {a b : Stack Scope} {fa fb : List Fork} {off : Int}
    (h : ScRel c a fa b fb off) (f g : Fork) (hc : ForkCoreS f g)
    (hf1 : f.scopeindex = a.index) (hf2 : f.scopelimit = a.limit)
    (hg1 : g.scopeindex = b.index) (hg2 : g.scopelimit = b.limit) (hfo : f.offset = off)
    (hb0 : 0 ≤ b.index) (hp : ForkAt c f.pc) :
    ScRel c a.save.2 (f :: fa) b.save.2 (g :: fb) off := by
  obtain ⟨hsr, hfk, la, lb, fwa, fwb⟩ := h
  obtain ⟨a0, a1, a2, a3⟩ := save_facts' a
  obtain ⟨b0, b1, b2, b3⟩ := save_facts' b
  obtain ⟨hi1, hi2⟩ := hsr.lt_size
  refine ⟨?_, ⟨hc, ?_, by rw [hg1]; exact hb0, hp, ?_⟩, ?_, ?_, ?_, ?_⟩
  · rw [a1, a2, a3, b1, b2, b3]
    exact hsr.raise _ _ _ (by omega) (by omega)
  · rw [a1, b1, hf1, hf2, hg1, hg2, hfo]; exact hsr
  · rw [a1, b1]; exact hfk
  · rw [a1, a3]; omega
  · rw [b1, b3]; omega
  · rw [a3]; exact ⟨by omega, by omega, by omega, by rw [hf2]; exact fwa⟩
  · rw [b3]; exact ⟨by omega, by omega, by omega, by rw [hg2]; exact fwb⟩

/-- the environment `pushfork pc` leaves -/
def pushforkEnv (pc : Int) (e : Env) : Env :=
  { e with
    stack := e.stack.save.2
    scopes := e.scopes.save.2
    paths := e.paths.save.2
    forks := { pc := pc, offset := e.offset, expdepth := e.expdepth,
               stackindex := e.stack.save.1.1, stacklimit := e.stack.save.1.2,
               scopeindex := e.scopes.save.1.1, scopelimit := e.scopes.save.1.2,
               pathindex := e.paths.save.1.1, pathlimit := e.paths.save.1.2 } :: e.forks }

theorem pushfork_eq (pc : Int) (e : Env) : pushfork pc e = .ok () (pushforkEnv pc e) := rfl

theorem TCong.pushfork {c : Array Instr} (pc : Int) (hp : ForkAt c pc) : TCong c (pushfork pc) := by
  intro e e' hr
  obtain ⟨hr, hne⟩ := hr
  obtain ⟨sc, fk, rfl, hs, ho⟩ := hr.elim
  rw [pushfork_eq, pushfork_eq]
  obtain ⟨a0, a1, a2, a3⟩ := save_facts' e.scopes
  obtain ⟨b0, b1, b2, b3⟩ := save_facts' sc
  refine ⟨rfl, ?_, ?_⟩
  · refine TRel.mk' (e := pushforkEnv pc e) ?_ ?_
    · exact hs.save _ _ ⟨rfl, rfl, rfl, rfl, rfl, rfl, rfl⟩ (by rw [a0]) (by rw [a0]) (by rw [b0]) (by rw [b0])
        rfl hne hp
    · refine ⟨ho.off, ?_, ?_⟩
      · intro j b hb
        have hb' : e.scopes.save.2.data[j]? = some b := hb
        rw [a1] at hb'
        exact ho.frames j b hb'
      · intro f hf
        have hf' : f ∈ _ :: e.forks := hf
        simp only [List.mem_cons] at hf'
        rcases hf' with rfl | hf'
        · exact ho.off
        · exact ho.forks f hf'
  · show 0 ≤ sc.save.2.index
    rw [b2]; exact hne

theorem TCong.pushforkOver {c : Array Instr} (v : V) (pc : Int) (hp : ForkAt c pc) : TCong c (pushforkOver v pc) := by
  unfold VM.pushforkOver
  exact TCong.bind (TCong.frame (FrameS.push v)) (fun _ => TCong.bind (TCong.pushfork pc hp)
    (fun _ => TCong.bind (TCong.frame FrameS.pop) (fun _ => TCong.pure _)))

theorem TCong.modify {c : Array Instr} (f : Env → Env)
    (hf : ∀ (e : Env) (sc : Stack Scope) (fk : List Fork),
      f { e with scopes := sc, forks := fk } = { f e with scopes := sc, forks := fk })
    (ho : ∀ e, (f e).offset = e.offset ∧ (f e).values.size = e.values.size) :
    TCong c (modifyEnv f) := TCong.frame (FrameS.modify f hf ho)

end Gojq.TailVM

/-
  Helper lemmas for Props/C01Tie.lean, part 1: the relation `Rel` between a result of `Spec.eval`
  and a result of the mini reference evaluator (Model/MiniVM.lean `eval`), and its compatibility
  with the stream combinators of the two evaluators (`Res.bind` / `Res.bindL`, `Res.append` /
  `Res.seq`, array collection, `try`, `//`).

  `Rel b rs rm` is used under the assumption that `rm` is complete (`ND rm.stop`: the mini
  evaluator did not run out of fuel).  It says: the outputs of `rs` carry no tracking context and
  no `pend` flag, and
    * if `rs` ended definitely (normally or by an error) then `rs` and `rm` have the same output
      values and ended the same way (`trStop`);
    * if `rs` ended indefinitely (out of fuel, or `unmodelled`) then the output values of `rs` are a
      PREFIX of those of `rm` — `Spec.eval` keeps the outputs produced before the fuel ran out and
      sequencing processes them, so a definite result can be built on an indefinite sub-result;
    * if `b` then `rs` did not run out of fuel (`b` is "the fuel of `Spec.eval` is at least six times
      the fuel of the mini evaluator").
  Core Lean only.
-/
import Gojq.Model.MiniSpec
import Gojq.Proofs.SpecLaws
import Gojq.Proofs.SpecPathUnfold
import Gojq.Proofs.MiniVMYields
namespace Gojq.MiniSpec
open Gojq Gojq.MiniVM

/-- no tracking context, no `pend` flag: what flows between filters of the fragment -/
def Clean (s : Spec.St) : Prop := s.ctx = none ∧ s.pend = false

/-- the one `unmodelled` outcome of `Spec.eval` on the fragment: the handler of `try … catch` would
    receive the text of a built-in error that the message model does not compute (a value with a
    float whose digits the encoder model does not produce) -/
def catchWhy : String := "catch: message of a built-in error not computed by the model"

/-- `Spec.eval` gave up: out of fuel, or the error text `catch` needs is outside the model -/
def Indef (st : Spec.Stop) : Prop := st = .fuel ∨ st = .unmodelled catchWhy

/-- the values of a list of states -/
def vals (xs : List Spec.St) : List V := xs.map (·.v)

@[simp] theorem vals_nil : vals [] = [] := rfl
@[simp] theorem vals_cons (x : Spec.St) (xs : List Spec.St) : vals (x :: xs) = x.v :: vals xs := rfl
@[simp] theorem vals_append (xs ys : List Spec.St) : vals (xs ++ ys) = vals xs ++ vals ys := by
  simp [vals]

inductive Rel (b : Bool) : Spec.Res → MiniVM.Res → Prop where
  | done (outs : List Spec.St) (hc : ∀ x ∈ outs, Clean x) : Rel b ⟨outs, .done⟩ ⟨vals outs, .done⟩
  | err (outs : List Spec.St) (e : MiniVM.Err) (hc : ∀ x ∈ outs, Clean x) :
      Rel b ⟨outs, .err (trErr e)⟩ ⟨vals outs, .err e⟩
  | indef (outs : List Spec.St) (st : Spec.Stop) (rm : MiniVM.Res) (hc : ∀ x ∈ outs, Clean x) (hi : Indef st)
      (hp : vals outs <+: rm.outs) (hb : b = true → st ≠ .fuel) : Rel b ⟨outs, st⟩ rm

theorem Indef.ne_done {st : Spec.Stop} (h : Indef st) : st ≠ .done := by
  intro e; subst e; rcases h with h | h <;> simp at h

theorem Indef.ne_err {st : Spec.Stop} (h : Indef st) (e : Gojq.Err) : st ≠ .err e := by
  intro e; subst e; rcases h with h | h <;> simp at h

theorem Rel.stop_cases {b rs rm} (h : Rel b rs rm) :
    (rs.stop = .done ∧ rm = ⟨vals rs.outs, .done⟩) ∨
    (∃ e, rs.stop = .err (trErr e) ∧ rm = ⟨vals rs.outs, .err e⟩) ∨ Indef rs.stop := by
  cases h with
  | done => exact .inl ⟨rfl, rfl⟩
  | err _ e => exact .inr (.inl ⟨e, rfl, rfl⟩)
  | indef _ _ _ _ hi => exact .inr (.inr hi)

/-- out of fuel on the `Spec` side is related to everything, unless `b` forbids it -/
theorem Rel.fuel {b : Bool} (hb : b = true → False) (rm : MiniVM.Res) : Rel b Spec.Res.outOfFuel rm :=
  .indef [] .fuel rm (by simp) (.inl rfl) (List.nil_prefix) (fun h => (hb h).elim)

theorem Rel.clean {b rs rm} (h : Rel b rs rm) : ∀ x ∈ rs.outs, Clean x := by
  cases h <;> assumption

theorem Rel.prefix {b rs rm} (h : Rel b rs rm) : vals rs.outs <+: rm.outs := by
  cases h with
  | done => exact List.prefix_refl _
  | err => exact List.prefix_refl _
  | indef _ _ _ _ _ hp _ => exact hp

theorem Rel.nofuel {b rs rm} (h : Rel b rs rm) (hb : b = true) : rs.stop ≠ .fuel := by
  cases h with
  | done => simp
  | err => simp
  | indef _ _ _ _ _ _ hb' => exact hb' hb

/-- a definite result determines the mini result -/
theorem Rel.of_done {b rs rm} (h : Rel b rs rm) (hs : rs.stop = .done) : rm = ⟨vals rs.outs, .done⟩ := by
  cases h with
  | done => rfl
  | err => simp at hs
  | indef _ _ _ _ hi => exact absurd hs hi.ne_done

theorem Rel.of_err {b rs rm e} (h : Rel b rs rm) (hs : rs.stop = .err e) :
    ∃ e', e = trErr e' ∧ rm = ⟨vals rs.outs, .err e'⟩ := by
  cases h with
  | done => simp at hs
  | err _ e' => simp at hs; exact ⟨e', hs.symm, rfl⟩
  | indef _ _ _ _ hi => exact absurd hs (hi.ne_err e)

/-- weaken the mini side of an indefinite result -/
theorem Rel.indef_mono {b outs st rm} (rm' : MiniVM.Res) (h : Rel b ⟨outs, st⟩ rm) (hi : Indef st)
    (hp : rm.outs <+: rm'.outs) : Rel b ⟨outs, st⟩ rm' := by
  cases h with
  | done => exact absurd rfl hi.ne_done
  | err _ e => exact absurd rfl (hi.ne_err _)
  | indef _ _ _ hc hi' hp' hb => exact .indef _ _ _ hc hi (hp'.trans hp) hb

theorem Rel.one {b : Bool} (s : Spec.St) (hs : Clean s) : Rel b (Spec.Res.one s) ⟨[s.v], .done⟩ :=
  .done [s] (by intro x hx; simp at hx; subst hx; exact hs)

theorem Rel.empty {b : Bool} : Rel b Spec.Res.empty ⟨[], .done⟩ := .done [] (by simp)

/-- outputs already emitted on both sides -/
theorem Rel.append_left {b : Bool} {r2 : Spec.Res} {m2 : MiniVM.Res} (o : List Spec.St) (ho : ∀ x ∈ o, Clean x)
    (h : Rel b r2 m2) : Rel b ⟨o ++ r2.outs, r2.stop⟩ ⟨vals o ++ m2.outs, m2.stop⟩ := by
  have hc : ∀ x ∈ o ++ r2.outs, Clean x := by
    intro x hx
    rcases List.mem_append.mp hx with hx | hx
    · exact ho x hx
    · exact h.clean x hx
  cases h with
  | done outs _ => simpa using Rel.done (b := b) (o ++ outs) hc
  | err outs e _ => simpa using Rel.err (b := b) (o ++ outs) e hc
  | indef outs st rm _ hi hp hb =>
    refine .indef _ _ _ hc hi ?_ hb
    simpa using (List.prefix_append_right_inj (vals o)).mpr hp

/-- splitting the first output off -/
theorem Rel.cons_inv {b : Bool} {x : Spec.St} {xs : List Spec.St} {st : Spec.Stop} {ym : List V} {stM : MiniVM.Stop}
    (h : Rel b ⟨x :: xs, st⟩ ⟨ym, stM⟩) : ∃ ys, ym = x.v :: ys ∧ Clean x ∧ Rel b ⟨xs, st⟩ ⟨ys, stM⟩ := by
  cases h with
  | done _ hc => exact ⟨vals xs, rfl, hc x (by simp), .done xs (fun y hy => hc y (by simp [hy]))⟩
  | err _ e hc => exact ⟨vals xs, rfl, hc x (by simp), .err xs e (fun y hy => hc y (by simp [hy]))⟩
  | indef _ _ _ hc hi hp hb =>
    obtain ⟨t, ht⟩ := hp
    simp at ht
    exact ⟨vals xs ++ t, by simpa using ht.symm, hc x (by simp),
      .indef xs st _ (fun y hy => hc y (by simp [hy])) hi (by simp) hb⟩

/-! ### the mini evaluator: out of fuel is absorbing -/

theorem guardND_nd {r k : MiniVM.Res} (h : ND (guardND r k).stop) : ND r.stop ∧ guardND r k = k := by
  unfold guardND at *
  cases hr : r.stop <;> simp_all [ND]

theorem bindL_head_nd {f : V → MiniVM.Res} {y : V} {ys : List V} {st : MiniVM.Stop}
    (h : ND (Res.bindL f (y :: ys) st).stop) : ND (f y).stop := by
  unfold Res.bindL at h
  rcases hfy : f y with ⟨o, s⟩
  rw [hfy] at h
  cases s <;> simp_all [ND]

theorem bindL_outs_prefix (f : V → MiniVM.Res) (y : V) (ys : List V) (st : MiniVM.Stop) :
    (f y).outs <+: (Res.bindL f (y :: ys) st).outs := by
  unfold Res.bindL
  rcases hfy : f y with ⟨o, s⟩
  cases s <;> simp

theorem seq_outs_prefix (m1 m2 : MiniVM.Res) : m1.outs <+: (m1.seq m2).outs := by
  unfold Res.seq
  rcases m1 with ⟨o, s⟩
  cases s <;> simp

theorem bindL_cons_done {f : V → MiniVM.Res} {y : V} {ys : List V} {st : MiniVM.Stop} {o : List V}
    (h : f y = ⟨o, .done⟩) :
    Res.bindL f (y :: ys) st = ⟨o ++ (Res.bindL f ys st).outs, (Res.bindL f ys st).stop⟩ := by
  simp [Res.bindL, h]

theorem bindL_cons_err {f : V → MiniVM.Res} {y : V} {ys : List V} {st : MiniVM.Stop} {o : List V} {e : MiniVM.Err}
    (h : f y = ⟨o, .err e⟩) : Res.bindL f (y :: ys) st = ⟨o, .err e⟩ := by
  simp [Res.bindL, h]

/-! ### sequencing -/

theorem Rel.bindList {b : Bool} {fs : Spec.St → Spec.Res} {fm : V → MiniVM.Res}
    (hf : ∀ x, Clean x → ND (fm x.v).stop → Rel b (fs x) (fm x.v)) :
    ∀ (outs : List Spec.St) (st : Spec.Stop) (ym : List V) (stM : MiniVM.Stop),
      Rel b ⟨outs, st⟩ ⟨ym, stM⟩ → ND (Res.bindL fm ym stM).stop →
      Rel b (Spec.Res.bindList fs st outs) (Res.bindL fm ym stM) := by
  intro outs
  induction outs with
  | nil =>
    intro st ym stM h _
    rw [Spec.bindList_nil]
    cases h with
    | done => exact .done [] (by simp)
    | err _ e => exact .err [] e (by simp)
    | indef _ _ _ hc hi hp hb => exact .indef [] st _ (by simp) hi (List.nil_prefix) hb
  | cons x xs ih =>
    intro st ym stM h hnd
    obtain ⟨ys, rfl, hx, htail⟩ := h.cons_inv
    have hndx := bindL_head_nd hnd
    have hrx := hf x hx hndx
    have hpre := bindL_outs_prefix fm x.v ys stM
    rw [Spec.bindList_cons_nopend _ _ _ _ hx.2]
    generalize fs x = rx at hrx ⊢
    generalize hmx : fm x.v = mx at hrx
    cases hrx with
    | done o hc =>
      rw [bindL_cons_done hmx] at hnd ⊢
      exact Rel.append_left o hc (ih st ys stM htail hnd)
    | err o e hc =>
      rw [bindL_cons_err hmx]
      exact .err o e hc
    | indef o s m hc hi hp hb =>
      rw [← hmx] at hp
      cases s with
      | done => exact absurd rfl hi.ne_done
      | _ => exact .indef o _ _ hc hi (hp.trans hpre) hb

/-- `Res.bind` against `Res.bindL` -/
theorem Rel.bind {b : Bool} {rs : Spec.Res} {rm : MiniVM.Res} {fs : Spec.St → Spec.Res} {fm : V → MiniVM.Res}
    (h : Rel b rs rm) (hnd : ND (Res.bindL fm rm.outs rm.stop).stop)
    (hf : ∀ x, Clean x → ND (fm x.v).stop → Rel b (fs x) (fm x.v)) :
    Rel b (rs.bind fs) (Res.bindL fm rm.outs rm.stop) := by
  rcases rs with ⟨o, st⟩
  rcases rm with ⟨ym, stM⟩
  exact Rel.bindList hf o st ym stM h hnd


/-! ### comma -/

/-- `Res.append` against `Res.seq` -/
theorem Rel.seq {b : Bool} {r1 : Spec.Res} {r2 : Unit → Spec.Res} {m1 m2 : MiniVM.Res}
    (h1 : Rel b r1 m1) (h2 : m1.stop = .done → Rel b (r2 ()) m2) : Rel b (r1.append r2) (m1.seq m2) := by
  have hpre := seq_outs_prefix m1 m2
  cases h1 with
  | done o hc => exact Rel.append_left o hc (h2 rfl)
  | err o e hc => exact .err o e hc
  | indef o st m hc hi hp hb =>
    unfold Spec.Res.append
    cases st with
    | done => exact absurd rfl hi.ne_done
    | _ => exact .indef o _ _ hc hi (hp.trans hpre) hb

theorem seq_nd {m1 m2 : MiniVM.Res} (h : ND (m1.seq m2).stop) : ND m1.stop ∧ (m1.stop = .done → ND m2.stop) := by
  rcases m1 with ⟨o, s⟩
  cases s <;> simp_all [Res.seq, ND]

/-! ### `[q]` -/

def arrS (s : Spec.St) (r : Spec.Res) : Spec.Res :=
  match r.stop with
  | .done => .one (Spec.computed s (.arr (r.outs.map (·.v))))
  | st => ⟨[], st⟩

def arrM (m : MiniVM.Res) : MiniVM.Res :=
  match m with
  | ⟨o, .done⟩ => ⟨[.arr o], .done⟩
  | ⟨_, st⟩ => ⟨[], st⟩

theorem arrM_nd {m : MiniVM.Res} (h : ND (arrM m).stop) : ND m.stop := by
  rcases m with ⟨o, s⟩
  cases s <;> simp_all [arrM, ND]

theorem Rel.arr {b : Bool} {s : Spec.St} {r : Spec.Res} {m : MiniVM.Res} (hs : s.ctx = none) (h : Rel b r m) :
    Rel b (arrS s r) (arrM m) := by
  cases h with
  | done o hc =>
    exact Rel.one (Spec.computed s (.arr (o.map (·.v)))) ⟨hs, rfl⟩
  | err o e hc => exact .err [] e (by simp)
  | indef o st m hc hi hp hb =>
    unfold arrS
    cases st with
    | done => exact absurd rfl hi.ne_done
    | _ => exact .indef [] _ _ (by simp) hi List.nil_prefix hb

/-! ### `try` -/

theorem trErr_plain (e : MiniVM.Err) : (∃ v, e = .user v ∧ trErr e = .user v) ∨ (∃ k a, trErr e = .builtin k a) := by
  cases e with
  | user v => exact .inl ⟨v, rfl, rfl⟩
  | notIter v => exact .inr ⟨_, _, rfl⟩
  | noParam => exact .inr ⟨_, _, rfl⟩
  | noVar x => exact .inr ⟨_, _, rfl⟩
  | keyNotStr k => exact .inr ⟨_, _, rfl⟩
  | idx v k =>
    right
    simp only [trErr]
    split
    · exact ⟨_, _, rfl⟩
    · exact ⟨_, _, rfl⟩

def tryM (m : MiniVM.Res) : MiniVM.Res :=
  match m with
  | ⟨o, .err _⟩ => ⟨o, .done⟩
  | r => r

theorem tryM_nd {m : MiniVM.Res} (h : ND (tryM m).stop) : ND m.stop := by
  rcases m with ⟨o, s⟩
  cases s <;> simp_all [tryM, ND]

theorem Rel.try_ {b : Bool} {r : Spec.Res} {m : MiniVM.Res} (fuel : Nat) (cfg : Spec.Cfg) (env : Spec.Env)
    (s : Spec.St) (h : Rel b r m) : Rel b (Spec.tryResult fuel cfg env none s r) (tryM m) := by
  cases h with
  | done o hc => exact .done o hc
  | err o e hc =>
    rcases trErr_plain e with ⟨v, _, h⟩ | ⟨k, a, h⟩ <;> simp only [Spec.tryResult, h] <;> exact .done o hc
  | indef o st m hc hi hp hb =>
    have hpre : m.outs <+: (tryM m).outs := by
      rcases m with ⟨o', s'⟩
      cases s' <;> simp [tryM]
    unfold Spec.tryResult
    cases st with
    | done => exact absurd rfl hi.ne_done
    | err e => exact absurd rfl (hi.ne_err e)
    | _ => exact .indef o _ _ hc hi (hp.trans hpre) hb

attribute [local instance] specMsg

/-- what the handler of `try … catch` receives is the same on both sides whenever the message
    model computes it -/
theorem catch_msg (e : MiniVM.Err) (m : V)
    (h : (match trErr e with
      | .user v => some v
      | e => (Spec.errMessage e).map JV.str) = some m) : m = e.toV := by
  cases e with
  | user v => simpa [trErr, Err.toV] using h.symm
  | notIter v =>
    simp only [trErr] at h
    simp only [Err.toV, IterMsg.msg, errMsgV]
    cases hm : Spec.errMessage (.builtin "iterator" [v]) <;> simp_all
  | keyNotStr k =>
    simp only [trErr] at h
    simp only [Err.toV, IterMsg.keyMsg, errMsgV]
    cases hm : Spec.errMessage (.builtin "objectKeyNotString" [k]) <;> simp_all
  | noParam =>
    simp only [trErr] at h
    have : Spec.errMessage (.builtin "" []) = none := by decide
    simp [this] at h
  | noVar x =>
    simp only [trErr] at h
    have : Spec.errMessage (.builtin "" []) = none := by decide
    simp [this] at h
  | idx v k =>
    have h0 : Spec.errMessage (.builtin "" []) = none := by decide
    simp only [trErr] at h
    simp only [Err.toV, IterMsg.indexMsg, errMsgV]
    cases hfi : funcIndex2 v k with
    | ok w => simp [hfi, h0] at h
    | error e' =>
      cases e' with
      | builtin kind args =>
        simp only [hfi] at h ⊢
        cases hm : Spec.errMessage (.builtin kind args) <;> simp_all
      | _ => simp [hfi, h0] at h

def tryCatchM (hm : V → MiniVM.Res) (m : MiniVM.Res) : MiniVM.Res :=
  match m with
  | ⟨o, .err e⟩ => let rh := hm e.toV; ⟨o ++ rh.outs, rh.stop⟩
  | r => r

theorem tryCatchM_nd {hm : V → MiniVM.Res} {m : MiniVM.Res} (h : ND (tryCatchM hm m).stop) : ND m.stop := by
  rcases m with ⟨o, s⟩
  cases s <;> simp_all [tryCatchM, ND]

theorem Rel.tryCatch {b : Bool} {r : Spec.Res} {m : MiniVM.Res} (fuel : Nat) (cfg : Spec.Cfg) (env : Spec.Env)
    (c : Query) (s : Spec.St) (hs : s.ctx = none) (hm : V → MiniVM.Res) (h : Rel b r m)
    (hnd : ND (tryCatchM hm m).stop)
    (hh : ∀ x, Clean x → ND (hm x.v).stop → Rel b (Spec.eval fuel cfg env c x) (hm x.v)) :
    Rel b (Spec.tryResult fuel cfg env (some c) s r) (tryCatchM hm m) := by
  cases h with
  | done o hc => exact .done o hc
  | err o e hc =>
    have hmsg := catch_msg e
    simp only [tryCatchM] at hnd ⊢
    rcases trErr_plain e with ⟨v, rfl, h⟩ | ⟨k, a, h⟩
    · simp only [Spec.tryResult, h]
      have := hh { v := v, id := if Spec.isContainer v then .unknown else .fresh, ctx := s.ctx } ⟨hs, rfl⟩ hnd
      exact Rel.seq (r1 := ⟨o, .done⟩) (.done o hc) (fun _ => this)
    · rw [h] at hmsg
      simp only [Spec.tryResult, h]
      cases hm' : Spec.errMessage (.builtin k a) with
      | none =>
        exact .indef o _ _ hc (.inr rfl) (List.prefix_append _ _) (by simp)
      | some msg =>
        have hv : JV.str msg = e.toV := hmsg (.str msg) (by simp [hm'])
        simp only [Option.map_some]
        have := hh { v := .str msg, id := if Spec.isContainer (.str msg) then .unknown else .fresh, ctx := s.ctx }
          ⟨hs, rfl⟩ (by simpa [hv] using hnd)
        rw [← hv]
        exact Rel.seq (r1 := ⟨o, .done⟩) (.done o hc) (fun _ => this)
  | indef o st m hc hi hp hb =>
    have hpre : m.outs <+: (tryCatchM hm m).outs := by
      rcases m with ⟨o', s'⟩
      cases s' <;> simp [tryCatchM]
    unfold Spec.tryResult
    cases st with
    | done => exact absurd rfl hi.ne_done
    | err e => exact absurd rfl (hi.ne_err e)
    | _ => exact .indef o _ _ hc hi (hp.trans hpre) hb

/-! ### `//` -/

theorem isFalsy_eq (v : V) : isFalsy v = falsy v := by
  cases v with
  | bool b => cases b <;> rfl
  | _ => rfl

def altS (rl : Spec.Res) (rr : Unit → Spec.Res) : Spec.Res :=
  let truthy := rl.outs.filter fun x => !isFalsy x.v
  match rl.stop with
  | .done => if truthy.isEmpty then rr () else ⟨truthy, .done⟩
  | st => if truthy.isEmpty then ⟨[], st⟩ else ⟨truthy, st⟩

def altM (ml mr : MiniVM.Res) : MiniVM.Res :=
  let truthy := ml.outs.filter fun w => !falsy w
  match ml.stop with
  | .diverge => ⟨[], .diverge⟩
  | .done => if truthy.isEmpty then mr else ⟨truthy, .done⟩
  | .err e => ⟨truthy, .err e⟩

theorem altM_nd {ml mr : MiniVM.Res} (h : ND (altM ml mr).stop) : ND ml.stop := by
  unfold altM at h
  cases hs : ml.stop <;> simp_all [ND]

theorem vals_filter (o : List Spec.St) :
    vals (o.filter fun x => !isFalsy x.v) = (vals o).filter fun w => !falsy w := by
  induction o with
  | nil => rfl
  | cons x xs ih =>
    simp only [isFalsy_eq] at ih ⊢
    simp only [List.filter_cons, vals_cons]
    cases falsy x.v <;> simp [ih]

theorem Rel.alt {b : Bool} {rl : Spec.Res} {rr : Unit → Spec.Res} {ml mr : MiniVM.Res} (h : Rel b rl ml)
    (hnd : ND (altM ml mr).stop) (hr : ND mr.stop → Rel b (rr ()) mr) : Rel b (altS rl rr) (altM ml mr) := by
  have hcl : ∀ o : List Spec.St, (∀ x ∈ o, Clean x) → ∀ x ∈ (o.filter fun x => !isFalsy x.v), Clean x :=
    fun o hc x hx => hc x (List.mem_filter.mp hx).1
  cases h with
  | done o hc =>
    simp only [altS, altM] at hnd ⊢
    rw [← vals_filter] at hnd ⊢
    by_cases he : (o.filter fun x => !isFalsy x.v) = []
    · simp only [he, vals_nil, List.isEmpty_nil, if_true] at hnd ⊢
      exact hr hnd
    · have he' : vals (o.filter fun x => !isFalsy x.v) ≠ [] := by
        simpa [vals] using he
      simp only [List.isEmpty_iff, he, he', if_false]
      exact .done _ (hcl o hc)
  | err o e hc =>
    simp only [altS, altM]
    rw [← vals_filter]
    by_cases he : (o.filter fun x => !isFalsy x.v) = []
    · simp only [he, vals_nil, List.isEmpty_nil, if_true]
      exact .err [] e (by simp)
    · simp only [List.isEmpty_iff, he, if_false]
      exact .err _ e (hcl o hc)
  | indef o st _ hc hi hp hb =>
    have hpre : vals (o.filter fun x => !isFalsy x.v) <+: (altM ml mr).outs := by
      rw [vals_filter]
      have h1 := hp.filter (fun w => !falsy w)
      unfold altM
      cases hs : ml.stop with
      | diverge => simp [altM, hs, ND] at hnd
      | err e => simpa using h1
      | done =>
        simp only
        split
        · rename_i hem
          have : (ml.outs.filter fun w => !falsy w) = [] := by simpa using hem
          rw [this] at h1
          rw [List.prefix_nil.mp h1]
          exact List.nil_prefix
        · exact h1
    unfold altS
    cases st with
    | done => exact absurd rfl hi.ne_done
    | err e => exact absurd rfl (hi.ne_err e)
    | fuel =>
      simp only
      split
      · exact .indef [] _ _ (by simp) hi List.nil_prefix hb
      · exact .indef _ _ _ (hcl o hc) hi hpre hb
    | unmodelled w =>
      simp only
      split
      · exact .indef [] _ _ (by simp) hi List.nil_prefix hb
      · exact .indef _ _ _ (hcl o hc) hi hpre hb

end Gojq.MiniSpec

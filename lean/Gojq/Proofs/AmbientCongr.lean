/-
  The world-derived run (Model/Ambient.lean) depends on the callbacks only through their answers:
  two semantics (over possibly different world types) and two namings of the same instruction list
  whose call sites answer alike give the same run.  This is the interpreter-level content of "a Go
  callback and a builtin native with the same relation are interchangeable".  Core Lean only.
-/
import Gojq.Proofs.Ambient
namespace Gojq.Ambient
open Gojq Gojq.VM

variable {W₁ W₂ H : Type}

def isNativeCall : Instr → Bool
  | .callNative _ _ => true
  | _ => false

/-- the callbacks of the two codes answer alike, call site by call site (the names may differ), and
    so do the two `funcIndex2` -/
def SameAnswers (sem₁ : Sem W₁ H) (w₁ : W₁) (nc₁ : NCode) (sem₂ : Sem W₂ H) (w₂ : W₂) (nc₂ : NCode) : Prop :=
  (∀ (pc : Nat) (p₁ p₂ : Instr × String), nc₁[pc]? = some p₁ → nc₂[pc]? = some p₂ → isNativeCall p₁.1 = true →
      ∀ x args h, sem₁.native w₁ pc p₁.2 x args h = sem₂.native w₂ pc p₂.2 x args h) ∧
  (∀ (pc : Nat) x args h, sem₁.native w₁ pc "_index" x args h = sem₂.native w₂ pc "_index" x args h)

theorem answer_native_congr {sem₁ : Sem W₁ H} {w₁ : W₁} {sem₂ : Sem W₂ H} {w₂ : W₂} (pc : Nat) (hid : Hid H)
    (nm₁ nm₂ : String) (x : V) (args : List V)
    (h : sem₁.native w₁ pc nm₁ x args hid.h = sem₂.native w₂ pc nm₂ x args hid.h) :
    answer sem₁ w₁ pc hid (some (.native nm₁ x args)) = answer sem₂ w₂ pc hid (some (.native nm₂ x args)) := by
  simp only [answer, h]

theorem answer_requestOf_congr {sem₁ : Sem W₁ H} {w₁ : W₁} {sem₂ : Sem W₂ H} {w₂ : W₂}
    (ins : Instr) (nm₁ nm₂ : String) (l : L) (e : Env) (pc : Nat) (hid : Hid H)
    (hn : isNativeCall ins = true → ∀ x args h, sem₁.native w₁ pc nm₁ x args h = sem₂.native w₂ pc nm₂ x args h)
    (hi : ∀ x args h, sem₁.native w₁ pc "_index" x args h = sem₂.native w₂ pc "_index" x args h) :
    answer sem₁ w₁ pc hid (requestOf ins nm₁ l e) = answer sem₂ w₂ pc hid (requestOf ins nm₂ l e) := by
  have hidx : ∀ (isArray : Bool) (k : JV),
      answer sem₁ w₁ pc hid (indexReq isArray k l e) = answer sem₂ w₂ pc hid (indexReq isArray k l e) := by
    intro isArray k
    cases hr : indexReq isArray k l e with
    | none => rfl
    | some r =>
      cases r with
      | native nm x args =>
        obtain ⟨h1, _⟩ := indexReq_native hr
        subst h1
        exact answer_native_congr pc hid _ _ x args (hi x args hid.h)
      | next k => rfl
  cases ins <;> try rfl
  case callNative kind argc =>
    simp only [requestOf]
    split
    · rfl
    · split
      · exact answer_native_congr pc hid _ _ _ _ (hn rfl _ _ _)
      · rfl
  case index k => exact hidx false k
  case indexarray k => exact hidx true k
  case iter =>
    simp only [requestOf]
    split
    · rfl
    · split <;> rfl

theorem codeOf_getD (nc : NCode) (i : Nat) : (codeOf nc).getD i .bad = (nc.getD i (.bad, "")).1 := by
  rw [Array.getD_eq_getD_getElem?, Array.getD_eq_getD_getElem?, codeOf, Array.getElem?_map]
  cases nc[i]? <;> rfl

theorem codeOf_size' (nc : NCode) : (codeOf nc).size = nc.size := by simp [codeOf]

theorem recordAt_congr {sem₁ : Sem W₁ H} {w₁ : W₁} {nc₁ : NCode} {sem₂ : Sem W₂ H} {w₂ : W₂} {nc₂ : NCode}
    (hcode : codeOf nc₁ = codeOf nc₂) (hobs : sem₁.observe = sem₂.observe)
    (hans : SameAnswers sem₁ w₁ nc₁ sem₂ w₂ nc₂) (cancelled : Nat → Bool) (l : L) (s : St) (hid : Hid H) :
    recordAt sem₁ w₁ nc₁ cancelled l s hid = recordAt sem₂ w₂ nc₂ cancelled l s hid := by
  have hsize : nc₁.size = nc₂.size := by rw [← codeOf_size', ← codeOf_size' nc₂, hcode]
  have hans' : answer sem₁ w₁ l.pc.toNat hid (turnRequest nc₁ cancelled l s) =
      answer sem₂ w₂ l.pc.toNat hid (turnRequest nc₂ cancelled l s) := by
    unfold turnRequest
    rw [← hsize]
    split
    · rename_i hc
      have hlt : l.pc.toNat < nc₁.size := by omega
      have hins : (nc₂.getD l.pc.toNat (.bad, "")).1 = (nc₁.getD l.pc.toNat (.bad, "")).1 := by
        rw [← codeOf_getD, ← codeOf_getD, hcode]
      rw [hins]
      apply answer_requestOf_congr
      · intro hnat x args h
        refine hans.1 l.pc.toNat _ _ ?_ ?_ hnat x args h
        · simp [Array.getD, hlt]
        · simp [Array.getD, hsize ▸ hlt]
      · exact hans.2 _
    · rfl
  unfold recordAt
  rw [hans', hobs]

theorem stepW_congr {sem₁ : Sem W₁ H} {w₁ : W₁} {nc₁ : NCode} {sem₂ : Sem W₂ H} {w₂ : W₂} {nc₂ : NCode}
    (hcode : codeOf nc₁ = codeOf nc₂) (hobs : sem₁.observe = sem₂.observe)
    (hans : SameAnswers sem₁ w₁ nc₁ sem₂ w₂ nc₂) (cancelled : Nat → Bool) (l : L) (s : St) (hid : Hid H) :
    stepW sem₁ w₁ nc₁ cancelled l s hid = stepW sem₂ w₂ nc₂ cancelled l s hid := by
  unfold stepW
  rw [recordAt_congr hcode hobs hans, hcode]

theorem loopW_congr {sem₁ : Sem W₁ H} {w₁ : W₁} {nc₁ : NCode} {sem₂ : Sem W₂ H} {w₂ : W₂} {nc₂ : NCode}
    (hcode : codeOf nc₁ = codeOf nc₂) (hobs : sem₁.observe = sem₂.observe)
    (hans : SameAnswers sem₁ w₁ nc₁ sem₂ w₂ nc₂) (cancelled : Nat → Bool) :
    ∀ (fuel : Nat) (l : L) (s : St) (hid : Hid H),
      loopW sem₁ w₁ nc₁ cancelled fuel l s hid = loopW sem₂ w₂ nc₂ cancelled fuel l s hid := by
  intro fuel
  induction fuel with
  | zero =>
    intro l s hid
    unfold loopW
    rw [stepW_congr hcode hobs hans]
  | succ n ih =>
    intro l s hid
    unfold loopW
    rw [stepW_congr hcode hobs hans]
    split
    · rfl
    · exact ih _ _ _

theorem runW_congr {sem₁ : Sem W₁ H} {w₁ : W₁} {nc₁ : NCode} {sem₂ : Sem W₂ H} {w₂ : W₂} {nc₂ : NCode}
    (hcode : codeOf nc₁ = codeOf nc₂) (hobs : sem₁.observe = sem₂.observe)
    (hans : SameAnswers sem₁ w₁ nc₁ sem₂ w₂ nc₂) (cancelled : Nat → Bool) (fuel : Nat) :
    ∀ (n : Nat) (s : St) (hid : Hid H),
      runW sem₁ w₁ nc₁ cancelled fuel n s hid = runW sem₂ w₂ nc₂ cancelled fuel n s hid := by
  intro n
  induction n with
  | zero => intro s hid; rfl
  | succ n ih =>
    intro s hid
    have hnext : nextW sem₁ w₁ nc₁ cancelled fuel s hid = nextW sem₂ w₂ nc₂ cancelled fuel s hid := by
      unfold nextW
      rw [loopW_congr hcode hobs hans, hcode]
    simp only [runW, hnext, ih]

end Gojq.Ambient

/-
  C04, the two whole-code passes together (Props/C04TailClos.lean): helper lemmas.

  * `Refines'`-style composition: the tail-call pass followed by the peephole pass (the order of
    `compiler.go`: `c.optimizeTailRec(); c.optimizeCodeOps()`), from the two semantic theorems
    `tail_refines` (Proofs/TailSimRun.lean) and `optV_refines` (Proofs/OptSimPass.lean).
  * `wfCheck_before_tail`: the static scan of the peephole theorem holds of the code BEFORE the
    tail-call pass when it holds of the code after it (the pass only replaces calls of scopes by jumps).
  * `applyPasses`: the four subsets of the two whole-code passes.
-/
import Gojq.Proofs.TailSimCheck
import Gojq.Proofs.OptSimPass
set_option linter.unusedSimpArgs false
set_option linter.unusedVariables false
namespace Gojq.TailVM
open Gojq Gojq.VM Gojq.OptVM

/-- the code the compiler produces with the chosen whole-code passes on: `optimizeTailRec` first, then
    `optimizeCodeOps` (compiler.go, `compile`); `none` = a pass panics -/
def applyPasses (tail ops : Bool) (c : Array Instr) : Option (Array Instr) :=
  match (if tail then optTailV c else some c) with
  | none => none
  | some c1 => if ops then optV c1 else some c1

/-- the scan `wfCheck` of the peephole theorem, read instruction by instruction -/
theorem wfCheck_iff (c : Array Instr) : wfCheck c = true ↔
    (∀ (pc : Nat) (ins : Instr), c[pc]? = some ins →
      (∀ t, callTarget ins = some t → 0 ≤ t ∧ ∃ sc, c[t.toNat]? = some sc ∧ isScope sc = true) ∧
      (∀ t, ins = .jumpifnot t → t ≠ (pc : Int) + 1)) ∧
    (0 < c.size ∧ c[c.size - 1]? = some .ret) := by
  unfold wfCheck
  simp only [Bool.and_eq_true, List.all_eq_true, List.mem_range]
  constructor
  · rintro ⟨hall, hlast⟩
    refine ⟨?_, ?_⟩
    · intro pc ins hins
      have hlt := (Array.getElem?_eq_some_iff.mp hins).1
      have := hall pc hlt
      rw [hins] at this
      simp only [Bool.and_eq_true] at this
      obtain ⟨h1, h2⟩ := this
      refine ⟨?_, ?_⟩
      · intro t ht
        rw [ht] at h1
        simp only [Bool.and_eq_true, decide_eq_true_eq] at h1
        refine ⟨h1.1, ?_⟩
        cases hsc : c[t.toNat]? with
        | none => rw [hsc] at h1; simp at h1
        | some sc => rw [hsc] at h1; exact ⟨sc, rfl, h1.2⟩
      · intro t ht
        subst ht
        simpa using h2
    · cases hsz : c.size with
      | zero => rw [hsz] at hlast; simp at hlast
      | succ n =>
        rw [hsz] at hlast
        simp only at hlast
        refine ⟨by omega, ?_⟩
        have : n + 1 - 1 = n := by omega
        rw [this]
        cases hn : c[n]? with
        | none => rw [hn] at hlast; simp at hlast
        | some i =>
          rw [hn] at hlast
          cases i <;> simp at hlast
          rfl
  · rintro ⟨hall, hpos, hlast⟩
    refine ⟨?_, ?_⟩
    · intro pc hpc
      cases hins : c[pc]? with
      | none => rfl
      | some ins =>
        simp only [Bool.and_eq_true]
        obtain ⟨h1, h2⟩ := hall pc ins hins
        refine ⟨?_, ?_⟩
        · cases hct : callTarget ins with
          | none => rfl
          | some t =>
            obtain ⟨h0, sc, hsc, hs⟩ := h1 t hct
            simp only [Bool.and_eq_true, decide_eq_true_eq]
            rw [hsc]
            exact ⟨h0, hs⟩
        · cases ins <;> try rfl
          rename_i t
          simpa using h2 t rfl
    · cases hsz : c.size with
      | zero => omega
      | succ n =>
        simp only
        have : c.size - 1 = n := by omega
        rw [this] at hlast
        rw [hlast]

/-- The tail-call pass replaces calls of scopes by jumps and nothing else, so the scan `wfCheck` holds
    of the code before the pass when it holds of the code after it. -/
theorem wfCheck_before_tail {c c1 : Array Instr} (S : TailStatic c c1) (h1 : wfCheck c1 = true) :
    wfCheck c = true := by
  rw [wfCheck_iff] at h1 ⊢
  obtain ⟨hall, _, _⟩ := h1
  refine ⟨?_, S.pos, S.last⟩
  intro pc ins hins
  refine ⟨?_, ?_⟩
  · intro t ht
    have hnc := S.noclo pc ins hins
    cases ins <;> simp [callTarget] at ht
    · subst ht
      obtain ⟨h0, id, v, n, hsc⟩ := S.call pc _ hins
      exact ⟨h0, _, hsc, rfl⟩
    · exact absurd rfl (hnc.2.2 _)
    · exact absurd rfl (hnc.1 _)
  · intro t ht
    subst ht
    rcases S.site pc _ hins with h | ⟨j, id, hj, _⟩
    · exact (hall pc _ h).2 t rfl
    · cases hj

/-- THE COMPOSITION.  `c1` refines `c` on the runs of `c` that end properly, `c2` refines `c1` on the
    runs of `c1` that end properly: `c2` refines `c` on the runs of `c` that end properly. -/
theorem refines_trans {c c1 c2 : Array Instr} {ext : Nat → ExtRec} {fuel n : Nat} {s : St}
    (h1 : (∀ o ∈ historyC c ext fuel n s, o.proper = true) → historyC c1 ext fuel n s = historyC c ext fuel n s)
    (h2 : (∀ o ∈ historyC c1 ext fuel n s, o.proper = true) → historyC c2 ext fuel n s = historyC c1 ext fuel n s)
    (hp : ∀ o ∈ historyC c ext fuel n s, o.proper = true) :
    historyC c2 ext fuel n s = historyC c ext fuel n s := by
  have e1 := h1 hp
  have e2 := h2 (by rw [e1]; exact hp)
  rw [e2, e1]

/-- tail-call pass (jump case, closure-free), then peephole pass -/
theorem tail_then_ops_refines {c c1 c2 : Array Instr} (hwf : tailWfCheck c = true) (h1 : optTailV c = some c1)
    (hnc : noCallrec c1 = true) (hwf1 : wfCheck c1 = true) (h2 : optV c1 = some c2)
    (ext : Nat → ExtRec) (hext : ExtClean ext) (fuel n : Nat) (input : JV) (vars : List JV)
    (hp : ∀ o ∈ historyC c ext fuel n (initJ input vars), o.proper = true) :
    historyC c2 ext fuel n (initJ input vars) = historyC c ext fuel n (initJ input vars) :=
  refines_trans
    (fun hp => tail_refines (tailStatic_of_check hwf h1 hnc) ext fuel n (.jv input) (vars.map .jv) hp)
    (fun hp => optV_refines (wfCheck_sound hwf1) h2 ext hext fuel n input vars hp) hp

/-- every subset of the two whole-code passes gives the outputs of the code with both passes off -/
theorem applyPasses_refines {c : Array Instr} (hwf : tailWfCheck c = true)
    (hmid : ∀ c1, optTailV c = some c1 → noCallrec c1 = true ∧ wfCheck c1 = true)
    (tail ops : Bool) {c' : Array Instr} (h : applyPasses tail ops c = some c')
    (hsome : (optTailV c).isSome = true)
    (ext : Nat → ExtRec) (hext : ExtClean ext) (fuel n : Nat) (input : JV) (vars : List JV)
    (hp : ∀ o ∈ historyC c ext fuel n (initJ input vars), o.proper = true) :
    historyC c' ext fuel n (initJ input vars) = historyC c ext fuel n (initJ input vars) := by
  obtain ⟨c1, hc1⟩ := Option.isSome_iff_exists.mp hsome
  obtain ⟨hnc, hwf1⟩ := hmid c1 hc1
  have hwf0 : wfCheck c = true := wfCheck_before_tail (tailStatic_of_check hwf hc1 hnc) hwf1
  unfold applyPasses at h
  cases tail <;> cases ops <;> simp only [if_true, if_false, Bool.false_eq_true] at h
  · cases h; rfl
  · exact optV_refines (wfCheck_sound hwf0) h ext hext fuel n input vars hp
  · rw [hc1] at h
    cases h
    exact tail_refines (tailStatic_of_check hwf hc1 hnc) ext fuel n (.jv input) (vars.map .jv) hp
  · rw [hc1] at h
    exact tail_then_ops_refines hwf hc1 hnc hwf1 h ext hext fuel n input vars hp

end Gojq.TailVM

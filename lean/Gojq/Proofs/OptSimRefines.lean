/-
  `Refines c c'`: from `execute`'s initial state on a JSON input, under every call-indexed oracle
  that never answers a closure, if every call of `Next` on `c` ends properly then `c'` gives the
  same call history.  Reflexive, transitive, and implied by each rewrite of the peephole pass.
-/
import Gojq.Proofs.OptSimJumpLayer
set_option linter.unusedSimpArgs false
set_option linter.unusedVariables false
namespace Gojq.OptVM
open Gojq Gojq.VM

/-- the oracle never answers a closure value (natives return JSON values, iterators, errors) -/
def ExtClean (ext : Nat → ExtRec) : Prop := ∀ (k : Nat) (B : Int), ExtOK B (ext k)

/-- `execute` on a JSON input and JSON variable values -/
def initJ (input : JV) (vars : List JV) : St := initSt (.jv input) (vars.map .jv)

def Refines (c c' : Array Instr) : Prop :=
  ∀ (ext : Nat → ExtRec), ExtClean ext → ∀ (fuel n : Nat) (input : JV) (vars : List JV),
    (∀ o ∈ historyC c ext fuel n (initJ input vars), o.proper = true) →
    historyC c' ext fuel n (initJ input vars) = historyC c ext fuel n (initJ input vars)

theorem Refines.refl (c : Array Instr) : Refines c c := fun _ _ _ _ _ _ _ => rfl

theorem Refines.trans {a b c : Array Instr} (h1 : Refines a b) (h2 : Refines b c) : Refines a c := by
  intro ext hext fuel n input vars hp
  have e1 := h1 ext hext fuel n input vars hp
  have e2 := h2 ext hext fuel n input vars (by rw [e1]; exact hp)
  rw [e2, e1]

/-! ## the initial state -/

theorem envRel_empty : EnvRel ({} : Env) ({} : Env) := by
  refine ⟨rfl, ⟨[], .nil (by decide), .nil (by decide)⟩, trivial, ⟨by decide, by decide⟩, ⟨by decide, by decide⟩, trivial, trivial⟩

theorem envRel_push {e : Env} (h : EnvRel e e) (v : V) :
    EnvRel { e with stack := e.stack.push v } { e with stack := e.stack.push v } :=
  (Cong.push v e e h).2

theorem envRel_foldl (vs : List V) : ∀ (e : Env), EnvRel e e →
    EnvRel (vs.foldl (fun e v => { e with stack := e.stack.push v }) e)
      (vs.foldl (fun e v => { e with stack := e.stack.push v }) e) := by
  induction vs with
  | nil => intro e h; exact h
  | cons v vs ih => intro e h; exact ih _ (envRel_push h v)

theorem initSt_envRel (input : V) (vars : List V) : EnvRel (initSt input vars).env (initSt input vars).env := by
  unfold initSt
  exact envRel_foldl _ _ (envRel_push envRel_empty input)

theorem hyg_empty (B : Int) : HygEnv B ({} : Env) :=
  ⟨fun j b h => by simp at h, fun j v h => by simp at h, fun j b h => by simp at h, fun f h => by simp at h⟩

theorem hyg_push {B : Int} {e : Env} (h : HygEnv B e) (v : V) (hv : vclean B v = true) :
    HygEnv B { e with stack := e.stack.push v } :=
  ⟨push_all (fun b => vclean B b.value = true) e.stack v h.stack hv, h.values, h.scopes, h.forks⟩

theorem hyg_foldl {B : Int} (vs : List V) (hvs : ∀ v ∈ vs, vclean B v = true) : ∀ (e : Env), HygEnv B e →
    HygEnv B (vs.foldl (fun e v => { e with stack := e.stack.push v }) e) := by
  induction vs with
  | nil => intro e h; exact h
  | cons v vs ih =>
    intro e h
    exact ih (fun w hw => hvs w (List.mem_cons_of_mem _ hw)) _ (hyg_push h v (hvs v (by simp)))

theorem initJ_hyg (B : Int) (input : JV) (vars : List JV) : HygEnv B (initJ input vars).env := by
  unfold initJ initSt
  refine hyg_foldl _ ?_ _ (hyg_push (hyg_empty B) _ rfl)
  intro v hv
  simp only [List.mem_reverse, List.mem_map] at hv
  obtain ⟨j, _, rfl⟩ := hv
  rfl

theorem foldl_pc (vs : List V) : ∀ (e : Env),
    (vs.foldl (fun e v => { e with stack := e.stack.push v }) e).pc = e.pc := by
  induction vs with
  | nil => intro e; rfl
  | cons v vs ih => intro e; rw [List.foldl_cons, ih]

theorem initJ_pc (input : JV) (vars : List JV) : (initJ input vars).env.pc = 0 := by
  unfold initJ initSt
  rw [foldl_pc]

/-! ## `Next`'s entry from related states -/

theorem entry_rel {c c' : Array Instr} {ext : Nat → ExtRec} {s s' : St} (hsize : c'.size = c.size)
    (h : EnvRel s.env s'.env) : entry ⟨c', never, ext⟩ s' = entry ⟨c, never, ext⟩ s := by
  obtain ⟨st, fk, he, _⟩ := h.elim
  unfold entry
  simp only [hsize, he]

/-! ## the layers -/

theorem refines_of_jump {c c' : Array Instr} (hsize : c'.size = c.size)
    (hsim : ∀ ext, SimStep c c' ext IJump FJump) : Refines c c' := by
  intro ext hext fuel n input vars hp
  have := historyC_sim (hsim ext) (fun s s' hF => ⟨hF, entry_rel hsize hF.1⟩) fuel n
    (initJ input vars) (initJ input vars) ⟨initSt_envRel _ _, rfl⟩ hp
  exact this.1

theorem jumpnext_refines (c : Array Instr) (i : Nat) (hj : c[i]? = some (.jump ((i : Int) + 1))) :
    Refines c (c.set! i .nop) :=
  refines_of_jump (size_set! _ _ _) (jumpnext_simstep c i hj)

theorem thread_refines (c : Array Instr) (i : Nat) (j : Instr) (t u : Int) (hj : c[i]? = some j)
    (hjt : jumpTgt j = some t) (ht0 : 0 ≤ t) (htj : c[t.toNat]? = some (.jump u)) :
    Refines c (c.set! i (retarget j u)) :=
  refines_of_jump (size_set! _ _ _) (thread_simstep c i j t u hj hjt ht0 htj)

theorem pair_refines (c : Array Instr) (i : Nat) (a b b' : Instr) (ha : c[i]? = some a)
    (hpl : isPushLike a = true) (hb : c[i + 1]? = some b) (hbb : PairSecond b b')
    (S : StaticOK ((i : Int) + 1) c) : Refines c ((c.set! i .nop).set! (i + 1) b') := by
  intro ext hext fuel n input vars hp
  have hsize : ((c.set! i .nop).set! (i + 1) b').size = c.size := by rw [size_set!, size_set!]
  have hsim := pair_simstep c i a b b' ha hpl hb hbb S ext (fun k => hext k _)
  have hentry : ∀ s s', FPair ((i : Int) + 1) s s' →
      IPair ((i : Int) + 1) (entry ⟨c, never, ext⟩ s) s s' ∧
      entry ⟨(c.set! i .nop).set! (i + 1) b', never, ext⟩ s' = entry ⟨c, never, ext⟩ s := by
    intro s s' hF
    obtain ⟨h1, h2, h3, h4⟩ := hF
    refine ⟨⟨h1, h2, h3, ?_, ErrOK.none, h4⟩, entry_rel hsize h1⟩
    have := S.size
    show PcOK _ ((c.size : Int) - 1)
    exact ⟨by omega, by omega⟩
  have hinit : FPair ((i : Int) + 1) (initJ input vars) (initJ input vars) :=
    ⟨initSt_envRel _ _, rfl, initJ_hyg _ _ _, by rw [initJ_pc]; omega⟩
  exact (historyC_sim hsim hentry fuel n _ _ hinit hp).1

end Gojq.OptVM

/-
  Round trip, part 9: patterns (variables, arrays, objects, `?//` alternatives) and function
  definitions.
-/
import Gojq.Proofs.RoundTripObjects
namespace Gojq.RefTerm
open Gojq

/-! ### patterns -/

theorem pPattern_var (f : Nat) (n : Bytes) (rest : List Tok) :
    pPattern (f + 1) (.var n :: rest) = some (.var n, rest) := by rw [pPattern]

theorem pPattern_arr (f : Nat) (X Y ts : List Tok) (p : Pattern) (ps : List Pattern)
    (h1 : pPattern f X = some (p, Y)) (h2 : pPsT f Y = some (ps, ts)) :
    pPattern (f + 1) (.ch 91 :: X) = some (.arr (p :: ps), ts) := by
  rw [pPattern]; simp [h1, h2]

theorem pPattern_obj (f : Nat) (X Y ts : List Tok) (kv : PKV) (kvs : List PKV)
    (h1 : pPKV f X = some (kv, Y)) (h2 : pPKVsT f Y = some (kvs, ts)) :
    pPattern (f + 1) (.ch 123 :: X) = some (.obj (kv :: kvs), ts) := by
  rw [pPattern]; simp [h1, h2]

theorem pat_var (n : Bytes) : RTP (.var n) := fun rest _ => ⟨1, fun f hf => by
  obtain ⟨k, rfl⟩ : ∃ k, f = k + 1 := ⟨f - 1, by omega⟩
  have e : toks (itemsP (.var n)) ++ rest = .var n :: rest := by simp [itemsP]
  rw [e]; exact pPattern_var k n rest⟩

theorem pat_arr (p : Pattern) (ps : List Pattern) (ihp : RTP p) (ih : RTPsT ps) : RTP (.arr (p :: ps)) :=
  fun rest hok => by
  simp only [okP, okPs, Bool.and_eq_true] at hok
  obtain ⟨Fp, hP⟩ := ihp (toks (itemsPsT ps) ++ .ch 93 :: rest) hok.2.1
  obtain ⟨F, h⟩ := ih rest hok.2.2
  refine ⟨Fp + F + 1, fun f hf => ?_⟩
  obtain ⟨k, rfl⟩ : ∃ k, f = k + 1 := ⟨f - 1, by omega⟩
  have e : toks (itemsP (.arr (p :: ps))) ++ rest =
      .ch 91 :: (toks (itemsP p) ++ (toks (itemsPsT ps) ++ .ch 93 :: rest)) := by simp [itemsP]
  rw [e]; exact pPattern_arr k _ _ rest p ps (hP k (by omega)) (h k (by omega))

theorem pat_obj (kv : PKV) (kvs : List PKV) (ihkv : RTPKV kv) (ih : RTPKVsT kvs) : RTP (.obj (kv :: kvs)) :=
  fun rest hok => by
  simp only [okP, okPKVs, Bool.and_eq_true] at hok
  have hend : (toks (itemsPKVsT kvs) ++ .ch 125 :: rest).head? = some (.ch 44) ∨
      (toks (itemsPKVsT kvs) ++ .ch 125 :: rest).head? = some (.ch 125) := by
    cases kvs with
    | nil => right; rfl
    | cons kv kvs => left; simp [itemsPKVsT]
  obtain ⟨Fk, hK⟩ := ihkv (toks (itemsPKVsT kvs) ++ .ch 125 :: rest) hok.2.1 hend
  obtain ⟨F, h⟩ := ih rest hok.2.2
  refine ⟨Fk + F + 1, fun f hf => ?_⟩
  obtain ⟨k, rfl⟩ : ∃ k, f = k + 1 := ⟨f - 1, by omega⟩
  have e : toks (itemsP (.obj (kv :: kvs))) ++ rest =
      .ch 123 :: (toks (itemsPKV kv) ++ (toks (itemsPKVsT kvs) ++ .ch 125 :: rest)) := by simp [itemsP]
  rw [e]; exact pPattern_obj k _ _ rest kv kvs (hK k (by omega)) (h k (by omega))

theorem pPsT_end (f : Nat) (rest : List Tok) : pPsT (f + 1) (.ch 93 :: rest) = some ([], rest) := by rw [pPsT]

theorem pPsT_more (f : Nat) (X Y ts : List Tok) (p : Pattern) (ps : List Pattern)
    (h1 : pPattern f X = some (p, Y)) (h2 : pPsT f Y = some (ps, ts)) :
    pPsT (f + 1) (.ch 44 :: X) = some (p :: ps, ts) := by
  rw [pPsT]; simp [h1, h2]

theorem psT_nil : RTPsT [] := fun rest _ => ⟨1, fun f hf => by
  obtain ⟨k, rfl⟩ : ∃ k, f = k + 1 := ⟨f - 1, by omega⟩
  exact pPsT_end k rest⟩

theorem psT_cons (p : Pattern) (ps : List Pattern) (ihp : RTP p) (ih : RTPsT ps) : RTPsT (p :: ps) :=
  fun rest hok => by
  simp only [okPs, Bool.and_eq_true] at hok
  obtain ⟨Fp, hP⟩ := ihp (toks (itemsPsT ps) ++ .ch 93 :: rest) hok.1
  obtain ⟨F, h⟩ := ih rest hok.2
  refine ⟨Fp + F + 1, fun f hf => ?_⟩
  obtain ⟨k, rfl⟩ : ∃ k, f = k + 1 := ⟨f - 1, by omega⟩
  have e : toks (itemsPsT (p :: ps)) ++ .ch 93 :: rest =
      .ch 44 :: (toks (itemsP p) ++ (toks (itemsPsT ps) ++ .ch 93 :: rest)) := by simp [itemsPsT]
  rw [e]; exact pPsT_more k _ _ rest p ps (hP k (by omega)) (h k (by omega))

theorem pAltT_none (f : Nat) (rest : List Tok) (hne : ∀ r', rest ≠ .destAlt :: r') :
    pAltT (f + 1) rest = some ([], rest) := by
  rw [pAltT]
  intro r e; exact hne r e

theorem pAltT_more (f : Nat) (X Y ts : List Tok) (p : Pattern) (ps : List Pattern)
    (h1 : pPattern f X = some (p, Y)) (h2 : pAltT f Y = some (ps, ts)) :
    pAltT (f + 1) (.destAlt :: X) = some (p :: ps, ts) := by
  rw [pAltT]; simp [h1, h2]

theorem altT_nil : RTAltT [] := fun rest _ hne => ⟨1, fun f hf => by
  obtain ⟨k, rfl⟩ : ∃ k, f = k + 1 := ⟨f - 1, by omega⟩
  have e : toks (itemsAltT []) ++ rest = rest := by simp [itemsAltT]
  rw [e]
  refine pAltT_none k rest ?_
  intro r' e'; subst e'; exact hne rfl⟩

theorem altT_cons (p : Pattern) (ps : List Pattern) (ihp : RTP p) (ih : RTAltT ps) : RTAltT (p :: ps) :=
  fun rest hok hne => by
  simp only [okPs, Bool.and_eq_true] at hok
  obtain ⟨Fp, hP⟩ := ihp (toks (itemsAltT ps) ++ rest) hok.1
  obtain ⟨F, h⟩ := ih rest hok.2 hne
  refine ⟨Fp + F + 1, fun f hf => ?_⟩
  obtain ⟨k, rfl⟩ : ∃ k, f = k + 1 := ⟨f - 1, by omega⟩
  have e : toks (itemsAltT (p :: ps)) ++ rest = .destAlt :: (toks (itemsP p) ++ (toks (itemsAltT ps) ++ rest)) := by
    simp [itemsAltT]
  rw [e]; exact pAltT_more k _ _ rest p ps (hP k (by omega)) (h k (by omega))

/-! ### object pattern entries -/

theorem pPKV_nameVal (f : Nat) (t : Tok) (n : Bytes) (X ts : List Tok) (p : Pattern)
    (h1 : ∀ w, t ≠ .str w) (h2 : t ≠ .strStart) (h3 : t ≠ .ch 40) (hk : keyOfTok t = some n)
    (hp : pPattern f X = some (p, ts)) : pPKV (f + 1) (t :: .ch 58 :: X) = some (.nameVal n p, ts) := by
  rw [pPKV]
  · simp [hk, hp]
  all_goals (intros; simp_all)

theorem pPKV_name (f : Nat) (n : Bytes) (rest : List Tok) (hne : ∀ r', rest ≠ .ch 58 :: r') :
    pPKV (f + 1) (.var n :: rest) = some (.name n, rest) := by
  rw [pPKV]
  all_goals (intros; simp_all)

theorem pPKV_strVal (f : Nat) (w : Bytes) (X ts : List Tok) (p : Pattern) (hp : pPattern f X = some (p, ts)) :
    pPKV (f + 1) (.str w :: .ch 58 :: X) = some (.strVal (.lit w) p, ts) := by
  rw [pPKV]; simp [hp]

theorem pPKV_strIVal (f : Nat) (X Y ts : List Tok) (ps : List Part) (p : Pattern)
    (hs : pParts f X = some (ps, .ch 58 :: Y)) (hp : pPattern f Y = some (p, ts)) :
    pPKV (f + 1) (.strStart :: X) = some (.strVal (.interp ps) p, ts) := by
  rw [pPKV]; simp [hs, hp, expect]

theorem pPKV_qVal (f : Nat) (X Y ts : List Tok) (kq : Query) (p : Pattern)
    (hq : pClimb f true 1 X = some (kq, .ch 41 :: .ch 58 :: Y)) (hp : pPattern f Y = some (p, ts)) :
    pPKV (f + 1) (.ch 40 :: X) = some (.qVal kq p, ts) := by
  rw [pPKV]; simp [hq, hp, expect]

theorem pkv_nameVal (n : Bytes) (p : Pattern) (ih : RTP p) : RTPKV (.nameVal n p) := fun rest hok _ => by
  simp only [okPKV, Bool.and_eq_true] at hok
  obtain ⟨F, h⟩ := ih rest hok.2
  refine ⟨F + 1, fun f hf => ?_⟩
  obtain ⟨k, rfl⟩ : ∃ k, f = k + 1 := ⟨f - 1, by omega⟩
  have e : toks (itemsPKV (.nameVal n p)) ++ rest = keyTok n :: .ch 58 :: (toks (itemsP p) ++ rest) := by
    simp [itemsPKV]
  obtain ⟨h1, h2, h3, _⟩ := keyTok_shape n
  rw [e]; exact pPKV_nameVal k _ n _ rest p h1 h2 h3 (keyOfTok_keyTok n) (h k (by omega))

theorem pkv_name (n : Bytes) : RTPKV (.name n) := fun rest hok hend => ⟨1, fun f hf => by
  obtain ⟨k, rfl⟩ : ∃ k, f = k + 1 := ⟨f - 1, by omega⟩
  simp only [okPKV] at hok
  have e : toks (itemsPKV (.name n)) ++ rest = .var n :: rest := by simp [itemsPKV, keyTok_var n hok]
  rw [e]; exact pPKV_name k n rest (kvEnd_ne58 hend)⟩

theorem pkv_strLitVal (w : Bytes) (p : Pattern) (ih : RTP p) : RTPKV (.strVal (.lit w) p) := fun rest hok _ => by
  simp only [okPKV, Bool.and_eq_true] at hok
  obtain ⟨F, h⟩ := ih rest hok.2
  refine ⟨F + 1, fun f hf => ?_⟩
  obtain ⟨k, rfl⟩ : ∃ k, f = k + 1 := ⟨f - 1, by omega⟩
  have e : toks (itemsPKV (.strVal (.lit w) p)) ++ rest = .str w :: .ch 58 :: (toks (itemsP p) ++ rest) := by
    simp [itemsPKV, itemsS]
  rw [e]; exact pPKV_strVal k w _ rest p (h k (by omega))

theorem pkv_strIVal (ps : List Part) (p : Pattern) (ihs : RTParts ps) (ih : RTP p) :
    RTPKV (.strVal (.interp ps) p) := fun rest hok _ => by
  simp only [okPKV, okS, Bool.and_eq_true] at hok
  obtain ⟨Fs, hS⟩ := ihs (.ch 58 :: (toks (itemsP p) ++ rest)) hok.1.2
  obtain ⟨F, h⟩ := ih rest hok.2
  refine ⟨Fs + F + 1, fun f hf => ?_⟩
  obtain ⟨k, rfl⟩ : ∃ k, f = k + 1 := ⟨f - 1, by omega⟩
  have e : toks (itemsPKV (.strVal (.interp ps) p)) ++ rest =
      .strStart :: (toks (itemsParts ps) ++ .strEnd :: .ch 58 :: (toks (itemsP p) ++ rest)) := by
    simp [itemsPKV, itemsS]
  rw [e]; exact pPKV_strIVal k _ _ rest ps p (hS k (by omega)) (h k (by omega))

theorem pkv_qVal (kq : Query) (p : Pattern) (ihq : RTQ kq) (ih : RTP p) : RTPKV (.qVal kq p) := fun rest hok _ => by
  simp only [okPKV, Bool.and_eq_true] at hok
  obtain ⟨Fq, hQ⟩ := climb_stop kq ihq true 1 (.ch 41) (.ch 58 :: (toks (itemsP p) ++ rest)) hok.1 rfl
  obtain ⟨F, h⟩ := ih rest hok.2
  refine ⟨Fq + F + 1, fun f hf => ?_⟩
  obtain ⟨k, rfl⟩ : ∃ k, f = k + 1 := ⟨f - 1, by omega⟩
  have e : toks (itemsPKV (.qVal kq p)) ++ rest =
      .ch 40 :: (toks (itemsQ kq) ++ .ch 41 :: .ch 58 :: (toks (itemsP p) ++ rest)) := by simp [itemsPKV]
  rw [e]; exact pPKV_qVal k _ _ rest kq p (hQ k (by omega)) (h k (by omega))

theorem pPKVsT_end (f : Nat) (rest : List Tok) : pPKVsT (f + 1) (.ch 125 :: rest) = some ([], rest) := by
  rw [pPKVsT]

theorem pPKVsT_more (f : Nat) (X Y ts : List Tok) (kv : PKV) (kvs : List PKV)
    (h1 : pPKV f X = some (kv, Y)) (h2 : pPKVsT f Y = some (kvs, ts)) :
    pPKVsT (f + 1) (.ch 44 :: X) = some (kv :: kvs, ts) := by
  rw [pPKVsT]; simp [h1, h2]

theorem pkvsT_nil : RTPKVsT [] := fun rest _ => ⟨1, fun f hf => by
  obtain ⟨k, rfl⟩ : ∃ k, f = k + 1 := ⟨f - 1, by omega⟩
  exact pPKVsT_end k rest⟩

theorem pkvsT_cons (kv : PKV) (kvs : List PKV) (ihkv : RTPKV kv) (ih : RTPKVsT kvs) : RTPKVsT (kv :: kvs) :=
  fun rest hok => by
  simp only [okPKVs, Bool.and_eq_true] at hok
  have hend : (toks (itemsPKVsT kvs) ++ .ch 125 :: rest).head? = some (.ch 44) ∨
      (toks (itemsPKVsT kvs) ++ .ch 125 :: rest).head? = some (.ch 125) := by
    cases kvs with
    | nil => right; rfl
    | cons kv kvs => left; simp [itemsPKVsT]
  obtain ⟨Fk, hK⟩ := ihkv (toks (itemsPKVsT kvs) ++ .ch 125 :: rest) hok.1 hend
  obtain ⟨F, h⟩ := ih rest hok.2
  refine ⟨Fk + F + 1, fun f hf => ?_⟩
  obtain ⟨k, rfl⟩ : ∃ k, f = k + 1 := ⟨f - 1, by omega⟩
  have e : toks (itemsPKVsT (kv :: kvs)) ++ .ch 125 :: rest =
      .ch 44 :: (toks (itemsPKV kv) ++ (toks (itemsPKVsT kvs) ++ .ch 125 :: rest)) := by simp [itemsPKVsT]
  rw [e]; exact pPKVsT_more k _ _ rest kv kvs (hK k (by omega)) (h k (by omega))

/-! ### function definitions -/

theorem pFuncDef_plain (f : Nat) (name : Bytes) (X ts : List Tok) (b : Query)
    (h : pClimb f true 1 X = some (b, .ch 59 :: ts)) :
    pFuncDef (f + 1) (.ident name :: .ch 58 :: X) = some (.mk name [] b, ts) := by
  rw [pFuncDef]; simp [h, expect]

theorem pFuncDef_params (f : Nat) (name p : Bytes) (t : Tok) (X Y ts : List Tok) (ps : List Bytes) (b : Query)
    (ht : paramOfTok t = some p) (hps : pParamsT X = some (ps, .ch 58 :: Y))
    (h : pClimb f true 1 Y = some (b, .ch 59 :: ts)) :
    pFuncDef (f + 1) (.ident name :: .ch 40 :: t :: X) = some (.mk name (p :: ps) b, ts) := by
  rw [pFuncDef]; simp [ht, hps, h, expect]

theorem toks_params (ps : List Bytes) :
    toks (ps.flatMap (fun p => [c 59, Item.sp, Item.t (keyTok p)])) = ps.flatMap (fun p => [.ch 59, keyTok p]) := by
  induction ps with
  | nil => rfl
  | cons p ps ih => simp [List.flatMap_cons, ih]

theorem pParamsT_ok (ps : List Bytes) (rest : List Tok)
    (h : ps.all (fun p => isPlainIdent p || isVarName p) = true) :
    pParamsT (ps.flatMap (fun p => [.ch 59, keyTok p]) ++ .ch 41 :: rest) = some (ps, rest) := by
  induction ps with
  | nil => simp [pParamsT]
  | cons p ps ih =>
    simp only [List.all_cons, Bool.and_eq_true] at h
    simp only [List.flatMap_cons, List.cons_append, List.nil_append, List.append_assoc]
    rw [pParamsT]
    simp [paramOfTok_keyTok p h.1, ih h.2]

theorem rt_funcDef (name : Bytes) (params : List Bytes) (body : Query) (ih : RTQ body) :
    RTFD (.mk name params body) := fun rest hok => by
  simp only [okFD, Bool.and_eq_true] at hok
  obtain ⟨⟨_, hps⟩, hb⟩ := hok
  obtain ⟨F, h⟩ := climb_stop body ih true 1 (.ch 59) rest hb rfl
  refine ⟨F + 1, fun f hf => ?_⟩
  obtain ⟨k, rfl⟩ : ∃ k, f = k + 1 := ⟨f - 1, by omega⟩
  cases params with
  | nil =>
    have e : (toks (itemsFD (.mk name [] body))).drop 1 ++ rest =
        .ident name :: .ch 58 :: (toks (itemsQ body) ++ .ch 59 :: rest) := by simp [itemsFD]
    rw [e]; exact pFuncDef_plain k name _ rest body (h k (by omega))
  | cons p ps =>
    simp only [List.all_cons, Bool.and_eq_true] at hps
    have e : (toks (itemsFD (.mk name (p :: ps) body))).drop 1 ++ rest =
        .ident name :: .ch 40 :: keyTok p :: (ps.flatMap (fun p => [.ch 59, keyTok p]) ++ .ch 41 ::
          (.ch 58 :: (toks (itemsQ body) ++ .ch 59 :: rest))) := by
      simp [itemsFD, toks_params]
    rw [e]
    exact pFuncDef_params k name p _ _ _ rest ps body (paramOfTok_keyTok p hps.1) (pParamsT_ok ps _ hps.2)
      (h k (by omega))

end Gojq.RefTerm

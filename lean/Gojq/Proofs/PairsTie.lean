/-
  Helper definitions for Props/C13Pairs.lean, part 6: the tie of the value-level functions of
  Model/Pairs.lean (and of `Stream.streamSpec` / `Stream.fromstreamSpec`) to the SHIPPED
  definitions of builtin.jq — the queries below are the ASTs the real parser dumps for the texts in
  their doc comments (harness/jqast), evaluated by `Spec.eval` with the regenerated
  `Generated/BuiltinDefs.lean` as the builtin table, on the values `tieValues` / `tieEvents`.
  Props/C13Pairs.lean states the agreements; the kernel evaluates them (`decide +kernel`), so an
  edit of builtin.jq that changes the behaviour of one of these definitions on these inputs breaks
  the build.  (No theorem here: definitions only.)
-/
import Gojq.Model.Spec
import Gojq.Model.Pairs
import Gojq.Generated.BuiltinDefs
namespace Gojq.Pairs.Tie
open Gojq Gojq.Spec Gojq.Pairs

/-- the evaluation context with the real jq-defined builtins (`builtin.jq` as generated) -/
def cfgGo : Cfg := { builtins := ⟨Gojq.Generated.Builtins.builtinGo⟩ }

/-- outcome of a run, as far as the tie looks: exactly one output then a normal end; a jq error
    (whatever was emitted before); anything else (several outputs, fuel, unmodelled) -/
inductive Out where
  | one (w : JV)
  | err
  | other

def run (fuel : Nat) (q : Query) (v : JV) : Out :=
  let r := eval fuel cfgGo .empty q { v := v, id := .known 0 [] }
  match r.stop, r.outs with
  | .done, [x] => .one x.v
  | .err _, _ => .err
  | _, _ => .other

/-- does the run of the shipped definition agree with the value-level function (`none` = error) -/
def agrees (o : Out) (m : Option JV) : Bool :=
  match o, m with
  | .one w, some w' => w == w'
  | .err, none => true
  | _, _ => false

def ofNRes : NRes → Option JV
  | .ok w => some w
  | .error _ => none

/-- the native succeeded with (structurally) this value -/
def okIs (r : NRes) (x : JV) : Bool :=
  match r with
  | .ok w => w == x
  | .error _ => false

def ofFOut : Stream.FOut → Option JV
  | .ok outs => some (.arr outs)
  | .error _ => none

/-- does a result of `Spec.eval` agree with a value-level function's answer: exactly that one value
    and a normal end — or, for `none`, nothing emitted and a jq error -/
def Agrees (r : Res) (o : Option JV) : Prop :=
  match o with
  | some w => r.outs.map (·.v) = [w] ∧ r.stop = .done
  | none => r.outs = [] ∧ ∃ e, r.stop = .err e

/-! ### the queries (as the real parser dumps them) -/

/-- `to_entries` -/
def qToEntries : Query := (Query.term [] (Term.mk (TermCore.func "to_entries" []) []))
/-- `from_entries` -/
def qFromEntries : Query := (Query.term [] (Term.mk (TermCore.func "from_entries" []) []))
/-- `with_entries(.)` -/
def qWithEntriesId : Query := (Query.term [] (Term.mk (TermCore.func "with_entries" [(Query.term [] (Term.mk TermCore.identity []))]) []))
/-- `to_entries | from_entries` -/
def qToFrom : Query := (Query.binop [] Op.pipe (Query.term [] (Term.mk (TermCore.func "to_entries" []) [])) (Query.term [] (Term.mk (TermCore.func "from_entries" []) [])))
/-- `[paths]` -/
def qPaths : Query := (Query.term [] (Term.mk (TermCore.array (some (Query.term [] (Term.mk (TermCore.func "paths" []) [])))) []))
/-- `[path(..)]` -/
def qPathRecurse : Query := (Query.term [] (Term.mk (TermCore.array (some (Query.term [] (Term.mk (TermCore.func "path" [(Query.term [] (Term.mk TermCore.recurse []))]) [])))) []))
/-- `[path(..)] - [[]]` -/
def qPathRecurseMinusRoot : Query := (Query.binop [] Op.sub (Query.term [] (Term.mk (TermCore.array (some (Query.term [] (Term.mk (TermCore.func "path" [(Query.term [] (Term.mk TermCore.recurse []))]) [])))) [])) (Query.term [] (Term.mk (TermCore.array (some (Query.term [] (Term.mk (TermCore.array none) [])))) [])))
/-- `[tostream]` -/
def qTostream : Query := (Query.term [] (Term.mk (TermCore.array (some (Query.term [] (Term.mk (TermCore.func "tostream" []) [])))) []))
/-- `[fromstream(.[])]` -/
def qFromstreamIter : Query := (Query.term [] (Term.mk (TermCore.array (some (Query.term [] (Term.mk (TermCore.func "fromstream" [(Query.term [] (Term.mk TermCore.identity [Suffix.iter]))]) [])))) []))
/-- `[fromstream(tostream)]` -/
def qFromstreamTostream : Query := (Query.term [] (Term.mk (TermCore.array (some (Query.term [] (Term.mk (TermCore.func "fromstream" [(Query.term [] (Term.mk (TermCore.func "tostream" []) []))]) [])))) []))
/-- `reduce (tostream | select(length == 2)) as [$p, $x] (null; setpath($p; $x))` -/
def qReplay : Query := (Query.term [] (Term.mk (TermCore.reduce (Query.term [] (Term.mk (TermCore.query (Query.binop [] Op.pipe (Query.term [] (Term.mk (TermCore.func "tostream" []) [])) (Query.term [] (Term.mk (TermCore.func "select" [(Query.binop [] Op.eq (Query.term [] (Term.mk (TermCore.func "length" []) [])) (Query.term [] (Term.mk (TermCore.number "2") [])))]) [])))) [])) (Pattern.array [(Pattern.var "$p"), (Pattern.var "$x")]) (Query.term [] (Term.mk TermCore.null [])) (Query.term [] (Term.mk (TermCore.func "setpath" [(Query.term [] (Term.mk (TermCore.func "$p" []) [])), (Query.term [] (Term.mk (TermCore.func "$x" []) []))]) []))) []))
/-- `. as $v | [tostream | select(length == 2) | . as [$p, $x] | ($v | getpath($p)) == $x]` -/
def qEventsGetpath : Query := (Query.bind [] (Query.term [] (Term.mk TermCore.identity [])) [(Pattern.var "$v")] (Query.term [] (Term.mk (TermCore.array (some (Query.binop [] Op.pipe (Query.term [] (Term.mk (TermCore.func "tostream" []) [])) (Query.binop [] Op.pipe (Query.term [] (Term.mk (TermCore.func "select" [(Query.binop [] Op.eq (Query.term [] (Term.mk (TermCore.func "length" []) [])) (Query.term [] (Term.mk (TermCore.number "2") [])))]) [])) (Query.bind [] (Query.term [] (Term.mk TermCore.identity [])) [(Pattern.array [(Pattern.var "$p"), (Pattern.var "$x")])] (Query.binop [] Op.eq (Query.term [] (Term.mk (TermCore.query (Query.binop [] Op.pipe (Query.term [] (Term.mk (TermCore.func "$v" []) [])) (Query.term [] (Term.mk (TermCore.func "getpath" [(Query.term [] (Term.mk (TermCore.func "$p" []) []))]) [])))) [])) (Query.term [] (Term.mk (TermCore.func "$x" []) [])))))))) [])))
/-- `. as $v | [paths | . as $p | $v | setpath($p; getpath($p)) == $v]` -/
def qPathsSetGet : Query := (Query.bind [] (Query.term [] (Term.mk TermCore.identity [])) [(Pattern.var "$v")] (Query.term [] (Term.mk (TermCore.array (some (Query.binop [] Op.pipe (Query.term [] (Term.mk (TermCore.func "paths" []) [])) (Query.bind [] (Query.term [] (Term.mk TermCore.identity [])) [(Pattern.var "$p")] (Query.binop [] Op.pipe (Query.term [] (Term.mk (TermCore.func "$v" []) [])) (Query.binop [] Op.eq (Query.term [] (Term.mk (TermCore.func "setpath" [(Query.term [] (Term.mk (TermCore.func "$p" []) [])), (Query.term [] (Term.mk (TermCore.func "getpath" [(Query.term [] (Term.mk (TermCore.func "$p" []) []))]) []))]) [])) (Query.term [] (Term.mk (TermCore.func "$v" []) [])))))))) [])))

/-! ### the inputs -/

def s (x : String) : JV := .str (B x)

/-- `{"a":1,"b":[null,{}]}` -/
def exObj : JV := .obj [(B "a", jvInt 1), (B "b", .arr [.null, .obj []])]
/-- an object whose keys are the names `from_entries` looks for -/
def exAwkward : JV := .obj [(B "", .arr []), (B "Key", s "value"), (B "key", s "Key"), (B "name", .bool false), (B "value", s "key")]
/-- `[5,["x"],{"k":[[],{}]},-0.5]` (deeply nested, empty containers inside) -/
def exNested : JV := .arr [jvInt 5, .arr [s "x"], .obj [(B "k", .arr [.arr [], .obj []])], .num (.flt (-1/2))]

/-- `{"a":[null,{}],"b":{"":[[]]}}` (the document of the non-vacuity examples) -/
def exDoc : JV := .obj [([97], .arr [.null, .obj []]), ([98], .obj [([], .arr [.arr []])])]

/-- documents: scalars, empty containers at the root, nested containers, awkward keys -/
def tieValues : List JV :=
  [.null, .bool false, jvInt 3, s "", s "x", .arr [], .obj [], exObj, exAwkward, exNested,
   .arr [.arr []], .arr [.obj []], .obj [(B "a", .obj [(B "b", .obj [])])], .arr [.null, .null, .arr [.bool true]]]

/-- inputs for `from_entries`: every key spelling, `false`/`null` keys falling through to the next
    spelling, `value` present but null, `Value`, missing value, a number as key (error), a null
    entry (error), an array entry (error), an object of entries, a repeated key (the later wins) -/
def tieEntryLists : List JV :=
  [.arr [],
   .arr [entry (s "b") (jvInt 1), entry (s "a") (jvInt 2)],
   .arr [.obj [(B "Key", s "a"), (B "Value", jvInt 2)]],
   .arr [.obj [(B "key", .bool false), (B "name", s "b"), (B "value", .null)]],
   .arr [.obj [(B "Name", s "z"), (B "key", .null)]],
   .arr [.obj [(B "name", s "n")]],
   .arr [.obj [(B "Value", jvInt 1), (B "key", s "k"), (B "value", .null)]],
   .arr [.obj [(B "key", jvInt 1)]],
   .arr [.obj [(B "key", .bool false)]],
   .arr [.obj []],
   .arr [.null],
   .arr [.arr []],
   .arr [jvInt 1],
   .obj [(B "x", entry (s "q") (jvInt 1))],
   .arr [entry (s "a") (jvInt 1), entry (s "a") (jvInt 2)],
   .null, jvInt 0, s "key"]

/-- event lists for `fromstream`: the events of each document, of two documents in a row, a
    truncated list, events in the wrong order, ill-formed events -/
def tieEvents : List (List JV) :=
  tieValues.map Stream.streamSpec ++
  [Stream.streamSpecDocs [exObj, .null, .arr [], exNested],
   (Stream.streamSpec exNested).take 3,
   (Stream.streamSpec exObj).reverse,
   [.arr [.arr [jvInt 0], jvInt 1], .arr [.arr [s "a"], jvInt 2]],
   [jvInt 1],
   [.arr [.arr [jvInt 1], jvInt 7], .arr [.arr [jvInt 1]]],
   [.arr [.arr [], jvInt 1], .arr [.arr [], jvInt 2]]]

end Gojq.Pairs.Tie

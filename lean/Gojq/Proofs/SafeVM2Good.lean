/-
  C08 (bytecode checker, layer 2): what it means for a frame, a variable slot and a value to be
  GOOD in a state — one inductive predicate over three kinds of judgment:
    `.v id o`      a frame of scope `id` whose `outerindex` is `o` finds on its outer chain every
                   scope id of `avail id`, and every outer variable of `assume id` holds a good value
                   of its stable kind;
    `.s j sc i k`  slot `i` of the frame `sc` at scope-stack slot `j` holds a good value of kind `k`,
                   created strictly below `j`;
    `.g k v m`     `v` is a good value of kind `k` created at or below slot `m`: an array, or a
                   closure whose target is a checked entry and whose defining frame is good for it.
  A judgment only reads scope-stack slots at or below its bound (`bnd`) and variable slots of the
  frames there, which is what makes it stable (`Good.transport`).
-/
import Gojq.Model.SafeVM2
import Gojq.Proofs.SafeVMRun
set_option linter.unusedSimpArgs false
set_option linter.unusedVariables false
namespace Gojq.SafeVM
open Gojq Gojq.VM

/-- the frame at slot `j` of the scope array -/
def blockAt (data : Array (Block Scope)) (j : Int) : Option Scope :=
  if 0 ≤ j then (data[j.toNat]?).map (·.value) else none

/-- the frames along the `outerindex` chain from slot `o`; links strictly decrease -/
inductive OChain (data : Array (Block Scope)) : Int → List (Int × Scope) → Prop
  | nil {o : Int} : o < 0 → OChain data o []
  | cons {o : Int} {sc : Scope} {xs : List (Int × Scope)} : 0 ≤ o → blockAt data o = some sc → sc.outerindex < o →
      OChain data sc.outerindex xs → OChain data o ((o, sc) :: xs)

def findId (xs : List (Int × Scope)) (id : Int) : Option (Int × Scope) := xs.find? fun p => p.2.id == id

/-- `opscope`: the outer frame of a new frame of scope `idt` entered with register `index = idx`,
    where `sc` is the frame at `idx` -/
def effOuter (sc : Scope) (idx idt : Int) : Int := if sc.id = idt then sc.outerindex else idx

inductive J where
  | v (id o : Int)
  | s (j : Int) (sc : Scope) (i : Int) (k : Kind)
  | g (k : Kind) (v : V) (m : Int)

/-- the highest scope-stack slot a judgment reads -/
def J.bnd : J → Int
  | .v _ o => o
  | .s j _ _ _ => j
  | .g _ _ m => m

inductive Good (S : SC) (Ct : Cert) (data : Array (Block Scope)) (vals : Array V) : J → Prop
  | v {id o : Int} {xs : List (Int × Scope)} (hch : OChain data o xs)
      (hav : ∀ x ∈ Ct.availOf id, x = id ∨ ∃ p ∈ xs, p.2.id = x)
      (hres : ∀ xi ∈ Ct.assumeOf id, (findId xs xi.1).isSome = true)
      (hgood : ∀ xi ∈ Ct.assumeOf id, ∀ p, findId xs xi.1 = some p → Good S Ct data vals (.s p.1 p.2 xi.2 (Ct.stabOf xi))) :
      Good S Ct data vals (.v id o)
  | s {j : Int} {sc : Scope} {i : Int} {k : Kind} {v : V} {nv : Nat} (hb : blockAt data j = some sc) (h0 : 0 ≤ i)
      (hnv : S.tab.lookup sc.id = some nv) (hi : i < nv)
      (hv : vals[(sc.offset + i).toNat]? = some v) (hg : Good S Ct data vals (.g k v (j - 1))) :
      Good S Ct data vals (.s j sc i k)
  | any {v : V} {m : Int} : Good S Ct data vals (.g .any v m)
  | arr {xs : List JV} {m : Int} : Good S Ct data vals (.g .arr (.jv (.arr xs)) m)
  | clo {t idx m : Int} {sc : Scope} {idt : Int} {nv na : Nat} (ht : S.target t = true) (h0 : 0 ≤ idx) (hm : idx ≤ m)
      (hb : blockAt data idx = some sc) (ho : sc.outerindex < idx) (hsc : scopeAtI S.code t = some (idt, nv, na))
      (hv : Good S Ct data vals (.v idt (effOuter sc idx idt))) : Good S Ct data vals (.g .clo (.clo t idx) m)

/-! ## chains -/

theorem OChain.slot_le {data : Array (Block Scope)} {o : Int} {xs : List (Int × Scope)} (h : OChain data o xs) :
    ∀ p ∈ xs, 0 ≤ p.1 ∧ p.1 ≤ o ∧ blockAt data p.1 = some p.2 := by
  induction h with
  | nil _ => intro p hp; simp at hp
  | cons h0 hb hlt _ ih =>
    intro p hp
    simp only [List.mem_cons] at hp
    rcases hp with rfl | hp
    · exact ⟨h0, Int.le_refl _, hb⟩
    · have := ih p hp
      exact ⟨this.1, by omega, this.2.2⟩

theorem OChain.transport {data data' : Array (Block Scope)} {o : Int} {xs : List (Int × Scope)} (h : OChain data o xs)
    (hd : ∀ n : Int, n ≤ o → blockAt data' n = blockAt data n) : OChain data' o xs := by
  induction h with
  | nil hlt => exact .nil hlt
  | cons h0 hb hlt _ ih =>
    refine .cons h0 (by rw [hd _ (Int.le_refl _)]; exact hb) hlt (ih ?_)
    intro n hn; exact hd n (by omega)

theorem OChain.unique {data : Array (Block Scope)} {o : Int} {xs ys : List (Int × Scope)} (h : OChain data o xs)
    (g : OChain data o ys) : xs = ys := by
  induction h generalizing ys with
  | nil hlt =>
    cases g with
    | nil _ => rfl
    | cons g0 _ _ _ => omega
  | cons h0 hb hlt _ ih =>
    cases g with
    | nil glt => omega
    | cons g0 gb glt gt =>
      rw [hb] at gb
      simp only [Option.some.injEq] at gb
      subst gb
      rw [ih gt]

theorem findId_mem {xs : List (Int × Scope)} {id : Int} {p : Int × Scope} (h : findId xs id = some p) :
    p ∈ xs ∧ p.2.id = id := by
  unfold findId at h
  have h1 := List.mem_of_find?_eq_some h
  have h2 := List.find?_some h
  exact ⟨h1, by simpa using h2⟩

/-! ## stability -/

/-- a good judgment stays good when the scope array is unchanged at or below its bound and the
    variable slots of the frames there keep their contents -/
theorem Good.transport {S : SC} {Ct : Cert} {data data' : Array (Block Scope)} {vals vals' : Array V} {M : Int}
    (hd : ∀ n : Int, n ≤ M → blockAt data' n = blockAt data n)
    (hv : ∀ (j : Int) (sc : Scope) (i : Int) (nv : Nat), j ≤ M → blockAt data j = some sc → 0 ≤ i →
      S.tab.lookup sc.id = some nv → i < nv → vals'[(sc.offset + i).toNat]? = vals[(sc.offset + i).toNat]?)
    {q : J} (h : Good S Ct data vals q) : q.bnd ≤ M → Good S Ct data' vals' q := by
  induction h with
  | @v id o xs hch hav hres hgood ih =>
    intro hb
    simp only [J.bnd] at hb
    refine .v (hch.transport (fun n hn => hd n (by omega))) hav hres ?_
    intro xi hxi p hp
    have hm := findId_mem hp
    have := hch.slot_le p hm.1
    exact ih xi hxi p hp (by simp only [J.bnd]; omega)
  | @s j sc i k v nv hb h0 hnv hi hv' hg ih =>
    intro hbn
    simp only [J.bnd] at hbn
    refine .s (by rw [hd j hbn]; exact hb) h0 hnv hi ?_ (ih (by simp only [J.bnd]; omega))
    rw [hv j sc i nv hbn hb h0 hnv hi]; exact hv'
  | any => intro _; exact .any
  | arr => intro _; exact .arr
  | @clo t idx m sc idt nv na ht h0 hm hb ho hsc hv' ih =>
    intro hbn
    simp only [J.bnd] at hbn
    refine .clo ht h0 hm (by rw [hd idx (by omega)]; exact hb) ho hsc (ih ?_)
    simp only [J.bnd]
    unfold effOuter
    split <;> omega

/-- weaker bound -/
theorem Good.g_mono {S : SC} {Ct : Cert} {data : Array (Block Scope)} {vals : Array V} {k : Kind} {v : V} {m m' : Int}
    (h : Good S Ct data vals (.g k v m)) (hm : m ≤ m') : Good S Ct data vals (.g k v m') := by
  cases h with
  | any => exact .any
  | arr => exact .arr
  | clo ht h0 hm' hb ho hsc hv => exact .clo ht h0 (by omega) hb ho hsc hv

/-- a judgment about slot `i0` of the frame at `jt` claims its stable kind -/
def J.stabAt (Ct : Cert) (jt : Int) (idt i0 : Int) : J → Prop
  | .s j _ i k => j = jt → i = i0 → k = Ct.stabOf (idt, i0)
  | _ => True

/-- STORE.  Writing a value `w` into slot `i0` of the frame `sct` at scope-stack slot `jt` keeps every
    good judgment below `M` that claims at most the stable kind of that slot, provided `w` is good
    for the stable kind and the variable slots of the other frames at or below `M` are elsewhere. -/
theorem Good.store {S : SC} {Ct : Cert} {data : Array (Block Scope)} {vals : Array V} {M jt i0 : Int} {sct : Scope}
    {w : V} {qw : Nat}
    (hbt : blockAt data jt = some sct) (hq : qw = (sct.offset + i0).toNat)
    (hdis : ∀ (j : Int) (sc : Scope) (i : Int) (nv : Nat), j ≤ M → blockAt data j = some sc → 0 ≤ i →
      S.tab.lookup sc.id = some nv → i < nv → ¬ (j = jt ∧ i = i0) → (sc.offset + i).toNat ≠ qw)
    (hw : Ct.stabOf (sct.id, i0) ≠ .any → Good S Ct data vals (.g (Ct.stabOf (sct.id, i0)) w (jt - 1)))
    (hlt : qw < vals.size)
    {q : J} (h : Good S Ct data vals q) : q.bnd ≤ M → q.stabAt Ct jt sct.id i0 →
    Good S Ct data (vals.setIfInBounds qw w) q := by
  induction h with
  | @v id o xs hch hav hres hgood ih =>
    intro hb _
    simp only [J.bnd] at hb
    refine .v hch hav hres ?_
    intro xi hxi p hp
    have hm := findId_mem hp
    have hsl := hch.slot_le p hm.1
    refine ih xi hxi p hp (by simp only [J.bnd]; omega) ?_
    intro hj hi
    have : p.2 = sct := by
      have h1 := hsl.2.2
      rw [hj, hbt] at h1
      exact (Option.some.inj h1).symm
    have hxi' : xi = (sct.id, i0) := by
      rw [← this, hm.2, ← hi]
    rw [hxi']
  | @s j sc i k v nv hb h0 hnv hi hv' hg ih =>
    intro hbn hst
    simp only [J.bnd] at hbn
    simp only [J.stabAt] at hst
    by_cases hsame : j = jt ∧ i = i0
    · obtain ⟨rfl, rfl⟩ := hsame
      have hsc : sc = sct := by rw [hbt] at hb; exact (Option.some.inj hb).symm
      subst hsc
      have hk := hst rfl rfl
      subst hk
      refine .s hb h0 hnv hi (v := w) ?_ ?_
      · rw [← hq]; simp [hlt]
      · by_cases hany : Ct.stabOf (sc.id, i) = .any
        · rw [hany]; exact .any
        · refine (hw hany).transport (M := j - 1) (fun _ _ => rfl) ?_ (Int.le_refl _)
          intro j' sc' i' nv' hj' hb' h0' hnv' hi'
          have := hdis j' sc' i' nv' (by omega) hb' h0' hnv' hi' (by omega)
          rw [Array.getElem?_setIfInBounds_ne (Ne.symm this)]
    · have := hdis j sc i nv hbn hb h0 hnv hi hsame
      refine .s hb h0 hnv hi ?_ (ih (by simp only [J.bnd]; omega) trivial)
      rw [Array.getElem?_setIfInBounds_ne (Ne.symm this)]; exact hv'
  | any => intro _ _; exact .any
  | arr => intro _ _; exact .arr
  | @clo t idx m sc idt nv na ht h0 hm hb ho hsc hv' ih =>
    intro hbn _
    simp only [J.bnd] at hbn
    refine .clo ht h0 hm hb ho hsc (ih ?_ trivial)
    simp only [J.bnd]
    unfold effOuter
    split <;> omega

end Gojq.SafeVM

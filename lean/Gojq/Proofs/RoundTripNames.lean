/-
  Round trip, part 6: names — which token a Printable function / variable / key name is printed as
  (`nameTok`, `keyTok`) and what the parser reads back from it.
-/
import Gojq.Proofs.RoundTripBasic
namespace Gojq.RefTerm
open Gojq Gojq.Lexer

theorem isIdent_ne_colon (b : UInt8) (t : Bool) (h : isIdent b t = true) : b ≠ 58 := by
  intro e; subst e; cases t <;> revert h <;> decide

theorem isIdent_ne_dollar (b : UInt8) (t : Bool) (h : isIdent b t = true) : b ≠ 36 := by
  intro e; subst e; cases t <;> revert h <;> decide

theorem isIdent_tail (b : UInt8) (h : isIdent b false = true) : isIdent b true = true := by
  simp only [isIdent, Bool.false_and, Bool.or_false, Bool.true_and] at h ⊢
  simp [h]

theorem hasColons_false (n : Bytes) (h : ∀ x ∈ n, x ≠ 58) : hasColons n = false := by
  induction n with
  | nil => rfl
  | cons b r ih =>
    have hb := h b (by simp)
    have hr := ih (fun x hx => h x (by simp [hx]))
    unfold hasColons
    split
    · next heq => injection heq with e _; exact absurd e hb
    · next heq => injection heq with _ e; subst e; exact hr
    · next heq => cases heq

theorem identName_bytes (n : Bytes) (h : isIdentName n = true) : ∀ x ∈ n, isIdent x true = true := by
  cases n with
  | nil => simp
  | cons b r =>
    simp only [isIdentName, Bool.and_eq_true, List.all_eq_true] at h
    intro x hx
    simp only [List.mem_cons] at hx
    rcases hx with rfl | hx
    · exact isIdent_tail _ h.1
    · exact h.2 x hx

theorem identName_head (n : Bytes) (h : isIdentName n = true) : (n.head? == some 36) = false := by
  cases n with
  | nil => rfl
  | cons b r =>
    simp only [isIdentName, Bool.and_eq_true] at h
    have := isIdent_ne_dollar b false h.1
    simp [this]

theorem identName_noColons (n : Bytes) (h : isIdentName n = true) : hasColons n = false :=
  hasColons_false n (fun x hx => isIdent_ne_colon x true (identName_bytes n h x hx))

theorem nameTok_ident (n : Bytes) (h : isIdentName n = true) : nameTok n = .ident n := by
  simp [nameTok, identName_head n h, identName_noColons n h]

theorem hasColons_cons (b : UInt8) (r : Bytes) (h : hasColons r = true) : hasColons (b :: r) = true := by
  unfold hasColons
  split
  · rfl
  · next heq => injection heq with _ e; subst e; exact h
  · next heq => cases heq

theorem splitColons_hasColons' (n : Bytes) : ∀ a z, splitColons n = some (a, z) → hasColons n = true := by
  fun_induction splitColons n with
  | case1 r => intro _ _ _; rfl
  | case2 b r hne a z hs ih => intro _ _ _; exact hasColons_cons b r (ih a z hs)
  | case3 b r hne hs => intro a z h; simp at h
  | case4 => intro a z h; cases h

theorem splitColons_hasColons (n a z : Bytes) (h : splitColons n = some (a, z)) : hasColons n = true :=
  splitColons_hasColons' n a z h

theorem splitColons_head' (n : Bytes) : ∀ a z, splitColons n = some (a, z) → isIdentName a = true →
    (n.head? == some 36) = false := by
  fun_induction splitColons n with
  | case1 r => intro a z h ha; injection h with h; injection h with h1 _; subst h1; simp [isIdentName] at ha
  | case2 b r hne a z hs ih =>
    intro a' z' h ha
    simp only [Option.some.injEq, Prod.mk.injEq] at h
    obtain ⟨h1, _⟩ := h
    subst h1
    simp only [isIdentName, Bool.and_eq_true] at ha
    have : b ≠ 36 := by intro e; subst e; exact absurd ha.1 (by decide)
    simp [this]
  | case3 b r hne hs => intro a z h; simp at h
  | case4 => intro a z h; cases h

theorem splitColons_head (n a z : Bytes) (h : splitColons n = some (a, z)) (ha : isIdentName a = true) :
    (n.head? == some 36) = false := splitColons_head' n a z h ha

theorem nameTok_modIdent (n : Bytes) (h : isModIdent n = true) : nameTok n = .modIdent n := by
  unfold isModIdent at h
  split at h
  · next a z hs =>
    simp only [Bool.and_eq_true] at h
    simp [nameTok, splitColons_head n a z hs h.1, splitColons_hasColons n a z hs]
  · cases h

theorem nameTok_var (n : Bytes) (h : isVarName n = true) : nameTok n = .var n := by
  unfold isVarName at h
  split at h
  · next r =>
    have hc : hasColons (36 :: r) = false :=
      hasColons_false _ (fun x hx => by
        simp only [List.mem_cons] at hx
        rcases hx with rfl | hx
        · decide
        · exact isIdent_ne_colon x true (identName_bytes r h x hx))
    simp [nameTok, hc]
  · cases h

theorem nameTok_modVar (n : Bytes) (h : isModVar n = true) : nameTok n = .modVar n := by
  unfold isModVar at h
  split at h
  · next r =>
    unfold isModIdent at h
    split at h
    · next a z hs =>
      simp [nameTok, hasColons_cons 36 r (splitColons_hasColons r a z hs)]
    · cases h
  · cases h

/-! ### keys -/

theorem kwOfText_text (n : Bytes) (w : Kw) (h : kwOfText n = some w) : w.text = n := by
  unfold kwOfText at h
  have := List.find?_some h
  simpa using this

theorem keyOfTok_keyTok (n : Bytes) : keyOfTok (keyTok n) = some n := by
  unfold keyTok
  split
  · rfl
  · split
    · next w hw => simp [keyOfTok, kwOfText_text n w hw]
    · rfl

theorem keyTok_var (n : Bytes) (h : isVarName n = true) : keyTok n = .var n := by
  unfold isVarName at h
  split at h
  · simp [keyTok]
  · cases h

theorem keyTok_plain (n : Bytes) (h : isPlainIdent n = true) : keyTok n = .ident n := by
  simp only [isPlainIdent, Bool.and_eq_true, Option.isNone_iff_eq_none] at h
  simp [keyTok, identName_head n h.1, h.2]

/-- a key token is none of the tokens the key parsers look at first -/
theorem keyTok_shape (n : Bytes) :
    (∀ v, keyTok n ≠ .str v) ∧ keyTok n ≠ .strStart ∧ keyTok n ≠ .ch 40 ∧ keyTok n ≠ .ch 125 := by
  unfold keyTok
  split
  · simp
  · split <;> simp

theorem paramOfTok_keyTok (p : Bytes) (h : (isPlainIdent p || isVarName p) = true) :
    paramOfTok (keyTok p) = some p := by
  simp only [Bool.or_eq_true] at h
  rcases h with h | h
  · rw [keyTok_plain p h]; rfl
  · rw [keyTok_var p h]; rfl

end Gojq.RefTerm

/-
  Round trip, part 4: terms — atoms, the forms that delimit themselves (parentheses, array, object,
  `if`, `reduce`, `foreach`, function calls, strings), the forms that end with a term (sign, `try`),
  and suffix lists.
-/
import Gojq.Proofs.RoundTripQuery
namespace Gojq.RefTerm
open Gojq

theorem pTerm_eq (f : Nat) (ts : List Tok) :
    pTerm (f + 1) ts = (do let (t, ts) ← pPrimary f ts; pSuf f t ts) := by
  simp [pTerm]

/-- a query parsed to its end: the loop stops at `rest` -/
theorem climb_done (q : Query) (ih : RTQ q) (item : Bool) (min : Nat) (rest : List Tok)
    (hok : okQ item min q = true) (hfol : followQ q rest.head? = true)
    (hop : ∀ x o, rest.head? = some x → binopOfTok x = some o → o.lv < min)
    (has : rest.head? = some (.kw .as_) → item = false) :
    ∃ F, ∀ f, F ≤ f → pClimb f item min (toks (itemsQ q) ++ rest) = some (q, rest) := by
  obtain ⟨d, F, h⟩ := ih item min rest hok hfol
  refine ⟨d + F + 1, fun f hf => ?_⟩
  obtain ⟨k, rfl⟩ : ∃ k, f = k + d := ⟨f - d, by omega⟩
  rw [h k (by omega), pLoop_done k item min q rest (by omega) hop has]

/-- a query followed by a stop token -/
theorem climb_stop (q : Query) (ih : RTQ q) (item : Bool) (min : Nat) (x : Tok) (rest : List Tok)
    (hok : okQ item min q = true) (hx : stopTok x = true) :
    ∃ F, ∀ f, F ≤ f → pClimb f item min (toks (itemsQ q) ++ x :: rest) = some (q, x :: rest) := by
  refine climb_done q ih item min (x :: rest) hok (by simpa using followQ_stop q x hx) ?_ ?_
  · intro y o hy ho
    simp at hy; subst hy
    rw [stop_notop hx] at ho; cases ho
  · intro hy
    simp at hy; subst hy
    cases hx

/-- an operator expression followed by `as` -/
theorem climb_as (q : Query) (ih : RTQ q) (rest : List Tok) (hok : okQ false 3 q = true) :
    ∃ F, ∀ f, F ≤ f → pClimb f false 3 (toks (itemsQ q) ++ .kw .as_ :: rest) = some (q, .kw .as_ :: rest) := by
  refine climb_done q ih false 3 (.kw .as_ :: rest) hok (by simpa using followQ_as q 3 (Nat.le_refl _) hok) ?_ ?_
  · intro y o hy ho
    simp at hy; subst hy
    simp [binopOfTok] at ho
  · intro _; rfl

/-- a term parsed to its end -/
theorem term_done (t : Term) (ih : RTT t) (rest : List Tok) (hok : okT t = true)
    (hfol : followT t rest.head? = true) (hns : noSuf rest.head? = true) :
    ∃ F, ∀ f, F ≤ f → pTerm f (toks (itemsT t) ++ rest) = some (t, rest) := by
  obtain ⟨d, F, h⟩ := ih rest hok hfol
  refine ⟨d + F + 1, fun f hf => ?_⟩
  obtain ⟨k, rfl⟩ : ∃ k, f = k + d := ⟨f - d, by omega⟩
  rw [h k (by omega), pSuf_done k t rest (by omega) hns]

/-- a term is a primary form -/
theorem rtT_of_prim (t : Term)
    (h : ∀ rest, okT t = true → followT t rest.head? = true →
      ∃ F, ∀ g, F ≤ g → pPrimary g (toks (itemsT t) ++ rest) = some (t, rest)) : RTT t := by
  intro rest hok hfol
  obtain ⟨F, hF⟩ := h rest hok hfol
  refine ⟨1, F, fun f hf => ?_⟩
  rw [pTerm_eq, hF f hf]; rfl

/-! ### atoms -/

theorem rt_atom (t : Term) (ts : List Tok) (hts : toks (itemsT t) = ts)
    (h : ∀ g rest, followT t rest.head? = true → pPrimary (g + 1) (ts ++ rest) = some (t, rest)) : RTT t :=
  rtT_of_prim t (fun rest _ hfol => ⟨1, fun g hg => by
    obtain ⟨g, rfl⟩ : ∃ k, g = k + 1 := ⟨g - 1, by omega⟩
    rw [hts]; exact h g rest hfol⟩)

theorem pPrimary_identity (g : Nat) (rest : List Tok)
    (h1 : ∀ r', rest ≠ .ch 91 :: r') (h2 : ∀ v r', rest ≠ .str v :: r') (h3 : ∀ r', rest ≠ .strStart :: r') :
    pPrimary (g + 1) (.ch 46 :: rest) = some (.identity, rest) := by
  rw [pPrimary]
  all_goals simp_all

theorem rt_identity : RTT .identity := rt_atom _ [.ch 46] rfl (fun g rest hfol => by
  simp only [List.cons_append, List.nil_append]
  apply pPrimary_identity <;> (cases rest with
    | nil => simp
    | cons x r => cases x <;> simp_all [followT] <;> (intro hc; subst hc; simp at hfol)))

theorem rt_recurse : RTT .recurse := rt_atom _ [.recurse] rfl (fun g rest _ => by simp only [List.cons_append, List.nil_append]; unfold pPrimary; simp)
theorem rt_null : RTT .null := rt_atom _ [.kw .null_] rfl (fun g rest _ => by simp only [List.cons_append, List.nil_append]; unfold pPrimary; simp)
theorem rt_true : RTT .true_ := rt_atom _ [.kw .true_] rfl (fun g rest _ => by simp only [List.cons_append, List.nil_append]; unfold pPrimary; simp)
theorem rt_false : RTT .false_ := rt_atom _ [.kw .false_] rfl (fun g rest _ => by simp only [List.cons_append, List.nil_append]; unfold pPrimary; simp)
theorem rt_number (s : Bytes) : RTT (.number s) := rt_atom _ [.number s] rfl (fun g rest _ => by simp only [List.cons_append, List.nil_append]; unfold pPrimary; simp)
theorem rt_break (v : Bytes) : RTT (.break_ v) :=
  rt_atom _ [.kw .break_, .var v] rfl (fun g rest _ => by simp only [List.cons_append, List.nil_append]; unfold pPrimary; simp)
theorem rt_arrayEmpty : RTT .arrayEmpty := rt_atom _ [.ch 91, .ch 93] rfl (fun g rest _ => by simp only [List.cons_append, List.nil_append]; unfold pPrimary; simp)
theorem rt_objectEmpty : RTT (.object []) := rt_atom _ [.ch 123, .ch 125] rfl (fun g rest _ => by simp only [List.cons_append, List.nil_append]; unfold pPrimary; simp)
theorem rt_strLit (v : Bytes) : RTT (.str (.lit v)) := rt_atom _ [.str v] rfl (fun g rest _ => by simp only [List.cons_append, List.nil_append]; unfold pPrimary; simp)

theorem pPrimary_format (g : Nat) (s : Bytes) (rest : List Tok)
    (h2 : ∀ v r', rest ≠ .str v :: r') (h3 : ∀ r', rest ≠ .strStart :: r') :
    pPrimary (g + 1) (.format s :: rest) = some (.format s, rest) := by
  rw [pPrimary]
  all_goals simp_all

theorem rt_format (s : Bytes) : RTT (.format s) := rt_atom _ [.format s] rfl (fun g rest hfol => by
  simp only [List.cons_append, List.nil_append]
  apply pPrimary_format <;> (cases rest with
    | nil => simp
    | cons x r => cases x <;> simp_all [followT] <;> (intro hc; subst hc; simp at hfol)))

theorem pPrimary_ident (g : Nat) (n : Bytes) (rest : List Tok) (h : ∀ r', rest ≠ .ch 40 :: r') :
    pPrimary (g + 1) (.ident n :: rest) = some (.func n [], rest) := by
  rw [pPrimary]
  all_goals simp_all

theorem pPrimary_modIdent (g : Nat) (n : Bytes) (rest : List Tok) (h : ∀ r', rest ≠ .ch 40 :: r') :
    pPrimary (g + 1) (.modIdent n :: rest) = some (.func n [], rest) := by
  rw [pPrimary]
  all_goals simp_all

theorem rt_func0 (n : Bytes) : RTT (.func n []) := rt_atom _ [nameTok n] rfl (fun g rest hfol => by
  simp only [List.cons_append, List.nil_append]
  have h : ∀ r', rest ≠ .ch 40 :: r' := by
    cases rest with
    | nil => simp
    | cons x r => cases x <;> simp_all [followT] <;> (intro hc; subst hc; simp at hfol)
  unfold nameTok
  split <;> split
  · unfold pPrimary; simp
  · unfold pPrimary; simp
  · exact pPrimary_modIdent g n rest h
  · exact pPrimary_ident g n rest h)

/-! ### forms that delimit themselves -/

theorem pPrimary_paren (f : Nat) (rest : List Tok) :
    pPrimary (f + 1) (.ch 40 :: rest) = (do
        let (q, ts) ← pClimb f true 1 rest
        let ts ← expect (.ch 41) ts
        some (.paren q, ts)) := by
  rw [pPrimary]

theorem rt_paren (q : Query) (ih : RTQ q) : RTT (.paren q) := rtT_of_prim _ (fun rest hok _ => by
  simp only [okT] at hok
  obtain ⟨F, h⟩ := climb_stop q ih true 1 (.ch 41) rest hok rfl
  refine ⟨F + 1, fun g hg => ?_⟩
  obtain ⟨k, rfl⟩ : ∃ k, g = k + 1 := ⟨g - 1, by omega⟩
  have e : toks (itemsT (.paren q)) ++ rest = .ch 40 :: (toks (itemsQ q) ++ .ch 41 :: rest) := by simp [itemsT]
  rw [e, pPrimary_paren, h k (by omega)]
  simp [expect])

theorem pPrimary_array (f : Nat) (rest : List Tok) (h : ∀ r', rest ≠ .ch 93 :: r') :
    pPrimary (f + 1) (.ch 91 :: rest) = (do
        let (q, ts) ← pClimb f true 1 rest
        let ts ← expect (.ch 93) ts
        some (.array q, ts)) := by
  rw [pPrimary]
  all_goals simp_all

theorem rt_array (q : Query) (ih : RTQ q) : RTT (.array q) := rtT_of_prim _ (fun rest hok _ => by
  simp only [okT] at hok
  obtain ⟨F, h⟩ := climb_stop q ih true 1 (.ch 93) rest hok rfl
  refine ⟨F + 1, fun g hg => ?_⟩
  obtain ⟨k, rfl⟩ : ∃ k, g = k + 1 := ⟨g - 1, by omega⟩
  have e : toks (itemsT (.array q)) ++ rest = .ch 91 :: (toks (itemsQ q) ++ .ch 93 :: rest) := by simp [itemsT]
  obtain ⟨x, r, hx, hs⟩ := toksQ_head q
  rw [e, pPrimary_array _ _ (by intro r'; rw [hx]; intro e'; injection e' with e' _; exact (queryStart_ne hs).1 e'),
    h k (by omega)]
  simp [expect])

/-! ### forms that end with a term: sign, `try` -/

theorem pPrimary_neg (f : Nat) (rest : List Tok) :
    pPrimary (f + 1) (.ch 45 :: rest) = (do let (t, ts) ← pTerm f rest; some (.unary true t, ts)) := by
  rw [pPrimary]

theorem pPrimary_pos (f : Nat) (rest : List Tok) :
    pPrimary (f + 1) (.ch 43 :: rest) = (do let (t, ts) ← pTerm f rest; some (.unary false t, ts)) := by
  rw [pPrimary]

theorem rt_unary (neg : Bool) (t : Term) (ih : RTT t) : RTT (.unary neg t) := rtT_of_prim _ (fun rest hok hfol => by
  simp only [okT] at hok
  simp only [followT, Bool.and_eq_true] at hfol
  obtain ⟨F, h⟩ := term_done t ih rest hok hfol.1 hfol.2
  refine ⟨F + 1, fun g hg => ?_⟩
  obtain ⟨k, rfl⟩ : ∃ k, g = k + 1 := ⟨g - 1, by omega⟩
  cases neg
  · have e : toks (itemsT (.unary false t)) ++ rest = .ch 43 :: (toks (itemsT t) ++ rest) := by simp [itemsT]
    rw [e, pPrimary_pos, h k (by omega)]; rfl
  · have e : toks (itemsT (.unary true t)) ++ rest = .ch 45 :: (toks (itemsT t) ++ rest) := by simp [itemsT]
    rw [e, pPrimary_neg, h k (by omega)]; rfl)

theorem pPrimary_try_nocatch (f : Nat) (rest : List Tok) (b : Term) (ts : List Tok)
    (h1 : pTerm f rest = some (b, ts)) (hne : ∀ r', ts ≠ .kw .catch_ :: r') :
    pPrimary (f + 1) (.kw .try_ :: rest) = some (.try_ (.term b), ts) := by
  rw [pPrimary]
  simp only [h1, Option.bind_eq_bind, Option.bind_some]

theorem pPrimary_try_catch (f : Nat) (rest : List Tok) (b hd : Term) (r' ts : List Tok)
    (h1 : pTerm f rest = some (b, .kw .catch_ :: r')) (h2 : pTerm f r' = some (hd, ts)) :
    pPrimary (f + 1) (.kw .try_ :: rest) = some (.tryCatch (.term b) (.term hd), ts) := by
  rw [pPrimary]
  simp only [h1, h2, Option.bind_eq_bind, Option.bind_some]

theorem rt_try (b : Term) (ih : RTT b) : RTT (.try_ (.term b)) := rtT_of_prim _ (fun rest hok hfol => by
  simp only [okT] at hok
  simp only [followT, Bool.and_eq_true] at hfol
  obtain ⟨F, h⟩ := term_done b ih rest hok hfol.1.1 hfol.1.2
  refine ⟨F + 1, fun g hg => ?_⟩
  obtain ⟨k, rfl⟩ : ∃ k, g = k + 1 := ⟨g - 1, by omega⟩
  have e : toks (itemsT (.try_ (.term b))) ++ rest = .kw .try_ :: (toks (itemsT b) ++ rest) := by simp [itemsT, itemsQ]
  rw [e]
  refine pPrimary_try_nocatch k _ b rest (h k (by omega)) ?_
  intro r' e'
  have hc := hfol.2
  rw [e'] at hc
  simp at hc)

/-- a following `catch` does not attach to a term that does not end in a `try` without `catch` -/
theorem followT_catch : ∀ (t : Term), openTryT t = false → followT t (some (.kw .catch_)) = true
  | .unary _ t, h => by
    simp only [openTryT] at h
    simp only [followT, followT_catch t h, noSuf, Bool.and_self]
  | .try_ (.term _), h => by simp [openTryT] at h
  | .tryCatch _ (.term hd), h => by
    simp only [openTryT, openTryQ] at h
    simp only [followT, followT_catch hd h, noSuf, Bool.and_self]
  | .identity, _ => rfl
  | .func _ [], _ => rfl
  | .format _, _ => rfl
  | .recurse, _ => rfl
  | .null, _ => rfl
  | .true_, _ => rfl
  | .false_, _ => rfl
  | .index _, _ => rfl
  | .func _ (_ :: _), _ => rfl
  | .object _, _ => rfl
  | .arrayEmpty, _ => rfl
  | .array _, _ => rfl
  | .number _, _ => rfl
  | .formatStr _ _, _ => rfl
  | .str _, _ => rfl
  | .if_ _ _ _, _ => rfl
  | .try_ (.binop _ _ _), _ => rfl
  | .try_ (.bind _ _ _), _ => rfl
  | .try_ (.def_ _ _), _ => rfl
  | .try_ (.label _ _), _ => rfl
  | .tryCatch _ (.binop _ _ _), _ => rfl
  | .tryCatch _ (.bind _ _ _), _ => rfl
  | .tryCatch _ (.def_ _ _), _ => rfl
  | .tryCatch _ (.label _ _), _ => rfl
  | .reduce _ _ _ _, _ => rfl
  | .foreach _ _ _ _, _ => rfl
  | .foreach3 _ _ _ _ _, _ => rfl
  | .break_ _, _ => rfl
  | .paren _, _ => rfl
  | .suf _ _, _ => rfl

theorem rt_tryCatch (b hd : Term) (ihb : RTT b) (ihh : RTT hd) : RTT (.tryCatch (.term b) (.term hd)) :=
  rtT_of_prim _ (fun rest hok hfol => by
  simp only [okT, Bool.and_eq_true, Bool.not_eq_true'] at hok
  simp only [followT, Bool.and_eq_true] at hfol
  obtain ⟨Fb, hB⟩ := term_done b ihb (.kw .catch_ :: (toks (itemsT hd) ++ rest)) hok.1.1
    (by simpa using followT_catch b hok.1.2) rfl
  obtain ⟨Fh, hH⟩ := term_done hd ihh rest hok.2 hfol.1 hfol.2
  refine ⟨Fb + Fh + 1, fun g hg => ?_⟩
  obtain ⟨k, rfl⟩ : ∃ k, g = k + 1 := ⟨g - 1, by omega⟩
  have e : toks (itemsT (.tryCatch (.term b) (.term hd))) ++ rest =
      .kw .try_ :: (toks (itemsT b) ++ .kw .catch_ :: (toks (itemsT hd) ++ rest)) := by simp [itemsT, itemsQ]
  rw [e]
  exact pPrimary_try_catch k _ b hd _ rest (hB k (by omega)) (hH k (by omega)))

end Gojq.RefTerm

/-
  The `Yields` predicate of the compiler-refinement proof (C01.3) and its algebra:
  sequential composition (`bind`), re-basing a leg under pending forks (`rebase`), weakening
  (`mono`), errors unwinding through pending forks (`err_through`).  Independent of which
  instructions the compiler emits, except that a pending fork sits at a `fork` or `iter`.
  Port of the kernel-checked prototype (proto-vm-refinement); core Lean only.
-/
import Gojq.Model.MiniVM
namespace Gojq.MiniVM
variable [IterMsg]
set_option linter.unusedSectionVars false

inductive Steps (code : Code) : Cfg → Cfg → Prop where
  | refl (c) : Steps code c c
  | head {c c' c''} : step code c = some c' → Steps code c' c'' → Steps code c c''

theorem Steps.trans {code} {a b c : Cfg} (h1 : Steps code a b) (h2 : Steps code b c) : Steps code a c := by
  induction h1 with
  | refl => exact h2
  | head hs _ ih => exact .head hs (ih h2)

theorem Steps.one {code} {a b : Cfg} (h : step code a = some b) : Steps code a b := .head h (.refl _)


def Seg (code : Code) (p : Nat) (seg : List Instr) : Prop :=
  ∀ i (h : i < seg.length), code[p + i]? = some seg[i]

theorem Seg.append_left {code p a b} (h : Seg code p (a ++ b)) : Seg code p a := by
  intro i hi
  have := h i (by simp; omega)
  simpa [List.getElem_append_left hi] using this

theorem Seg.append_right {code p a b} (h : Seg code p (a ++ b)) : Seg code (p + a.length) b := by
  intro i hi
  have := h (a.length + i) (by simp; omega)
  rw [Nat.add_assoc]
  simpa [List.getElem_append_right] using this

theorem Seg.head {code p x xs} (h : Seg code p (x :: xs)) : code[p]? = some x := by
  have := h 0 (by simp)
  simp only [Nat.add_zero, List.getElem_cons_zero] at this
  exact this


/-! ## register frames -/

def EqOff (O : Nat → Prop) (R R' : Regs) : Prop := ∀ i, ¬ O i → R i = R' i
def EqOn (O : Nat → Prop) (R R' : Regs) : Prop := ∀ i, O i → R i = R' i

theorem EqOff.refl {O R} : EqOff O R R := fun _ _ => rfl
theorem EqOff.trans {O R1 R2 R3} (a : EqOff O R1 R2) (b : EqOff O R2 R3) : EqOff O R1 R3 :=
  fun i h => (a i h).trans (b i h)
theorem EqOff.mono {O O' : Nat → Prop} {R R'} (h : ∀ i, O i → O' i) (a : EqOff O R R') : EqOff O' R R' :=
  fun i hi => a i (fun ho => hi (h i ho))
theorem EqOn.refl {O R} : EqOn O R R := fun _ _ => rfl
theorem EqOn.trans {O R1 R2 R3} (a : EqOn O R1 R2) (b : EqOn O R2 R3) : EqOn O R1 R3 :=
  fun i h => (a i h).trans (b i h)
theorem EqOn.mono {O O' : Nat → Prop} {R R'} (h : ∀ i, O i → O' i) (a : EqOn O' R R') : EqOn O R R' :=
  fun i hi => a i (h i hi)
theorem EqOff.toOn {O K : Nat → Prop} {R R'} (hd : ∀ i, K i → ¬ O i) (a : EqOff O R R') : EqOn K R R' :=
  fun i hi => a i (hd i hi)

/-- what a leg may write: its static registers and the fresh area above the entry offset -/
def Wr (O : Nat → Prop) (o : Nat) : Nat → Prop := fun a => O a ∨ o ≤ a
/-- what the rest of the program must preserve between two outputs -/
def Keep (O : Nat → Prop) (o o1 : Nat) : Nat → Prop := fun a => O a ∨ (o ≤ a ∧ a < o1)

/-- the forks a segment leaves pending: ordinary `fork` / `iter` forks and, properly nested,
    pairs `forktryend … forktrybegin` (the fork pushed after an output of a `try` body, the forks
    of the body, the fork of the `try` itself) -/
inductive ForksOK (code : Code) : List Fork → Prop where
  | nil : ForksOK code []
  | plain {f F} : ((∃ t, code[f.pc]? = some (.fork t)) ∨ code[f.pc]? = some .iter) → ForksOK code F →
      ForksOK code (f :: F)
  | tri {fe M fb F t} : code[fe.pc]? = some .forktryend → ForksOK code M →
      code[fb.pc]? = some (.forktrybegin t) → ForksOK code F → ForksOK code (fe :: (M ++ fb :: F))

theorem ForksOK.append {code A B} (ha : ForksOK code A) (hb : ForksOK code B) : ForksOK code (A ++ B) := by
  induction ha with
  | nil => exact hb
  | plain h _ ih => exact .plain h ih
  | tri h1 hM h2 _ _ ih =>
    have := ForksOK.tri h1 hM h2 ih
    simpa [List.append_assoc] using this

/-- an error — wrapped or not — raised while these forks are pending unwinds through all of them
    unchanged: `fork` / `iter` break the loop again, a `forktryend` wraps it and the matching
    `forktrybegin` unwraps it instead of catching it -/
theorem err_through {code} {F'} (h : ForksOK code F') : ∀ (F : List Fork) (x : VErr) (R : Regs),
    Steps code (.fail (F' ++ F) (some x) R) (.fail F (some x) R) := by
  induction h with
  | nil => intro F x R; exact .refl _
  | @plain f F1 hf _ ih =>
    intro F x R
    refine .head (c' := .run f.pc f.stack (F1 ++ F) true (some x) R f.frames f.off 0) (by simp [step]) ?_
    refine .head (c' := .fail (F1 ++ F) (some x) R) ?_ (ih F x R)
    rcases hf with ⟨t, ht⟩ | ht <;> simp [step, ht]
  | @tri fe M fb F1 t h1 _ h2 _ ihM ihF =>
    intro F x R
    have e1 : (fe :: (M ++ fb :: F1)) ++ F = fe :: (M ++ (fb :: (F1 ++ F))) := by simp
    rw [e1]
    refine .head (c' := .run fe.pc fe.stack (M ++ (fb :: (F1 ++ F))) true (some x) R fe.frames fe.off 0) (by simp [step]) ?_
    refine .head (c' := .fail (M ++ (fb :: (F1 ++ F))) (some (.tryEnd x)) R) (by simp [step, h1]) ?_
    refine (ihM (fb :: (F1 ++ F)) (.tryEnd x) R).trans ?_
    refine .head (c' := .run fb.pc fb.stack (F1 ++ F) true (some (.tryEnd x)) R fb.frames fb.off 0) (by simp [step]) ?_
    refine .head (c' := .fail (F1 ++ F) (some x) R) (by simp [step, h2]) ?_
    exact ihF F x R

/-- what the rest of the program must preserve between two outputs: the static registers `O`, the
    read-only registers `P` (parameter slots of the live frames), the frames allocated so far -/
def KeepP (O P : Nat → Prop) (o o1 : Nat) : Nat → Prop := Keep (fun a => O a ∨ P a) o o1

/-- `O`: static registers (absolute addresses) of the segment in the current frame, which it may
    write; `P`: registers it only reads (the closure slots of the live frames); `o`: `offset` at
    entry; `fr`: frames at entry, restored at every exit. -/
inductive Yields (code : Code) (O P : Nat → Prop) (o : Nat) (fr : List Frame) (F : List Fork) (p' : Nat)
    (S : List SV) : Cfg → List V → Option Err → Prop where
  | done {c e R'} : Steps code c (.fail F (e.map .plain) R') → EqOff (Wr O o) c.regs R' → Yields code O P o fr F p' S c [] e
  | out {c w ws e F' R1 o1 cp} :
      ForksOK code F' →
      Steps code c (.run p' (.v w :: S) (F' ++ F) false none R1 fr o1 cp) →
      o ≤ o1 →
      EqOff (Wr O o) c.regs R1 →
      (F' = [] → ws = [] ∧ e = none) →
      (∀ R2, EqOn (KeepP O P o o1) R1 R2 → Yields code O P o fr F p' S (.fail (F' ++ F) none R2) ws e) →
      Yields code O P o fr F p' S c (w :: ws) e

theorem Yields.steps_left {code O P o fr F p' S c c' outs e} (h : Steps code c c')
    (hr : EqOff (Wr O o) c.regs c'.regs)
    (y : Yields code O P o fr F p' S c' outs e) : Yields code O P o fr F p' S c outs e := by
  cases y with
  | done hs hf => exact .done (h.trans hs) (hr.trans hf)
  | out hF hs ho hf hn y' => exact .out hF (h.trans hs) ho (hr.trans hf) hn y'

/-- weakening: a larger static set, an earlier entry offset; static registers dropped from `O` must lie
    between the new and the old entry offset -/
theorem Yields.mono {code} {O O' P P' : Nat → Prop} {o o' fr F p' S c outs e}
    (hO : ∀ a, O a → O' a ∨ (o' ≤ a ∧ a < o)) (hP : ∀ a, P a → O' a ∨ P' a ∨ (o' ≤ a ∧ a < o)) (ho : o' ≤ o)
    (y : Yields code O P o fr F p' S c outs e) : Yields code O' P' o' fr F p' S c outs e := by
  have hW : ∀ a, Wr O o a → Wr O' o' a := by
    intro a h; rcases h with h | h
    · rcases hO a h with h | h
      · exact Or.inl h
      · exact Or.inr h.1
    · exact Or.inr (Nat.le_trans ho h)
  induction y with
  | done hs hf => exact .done hs (hf.mono hW)
  | @out c w ws e F' R1 o1 cp hF hs ho1 hf hn _ ih =>
    refine .out hF hs (Nat.le_trans ho ho1) (hf.mono hW) hn (fun R2 h2 => ih R2 (h2.mono ?_))
    intro a h; rcases h with (h | h) | h
    · rcases hO a h with h | h
      · exact Or.inl (Or.inl h)
      · exact Or.inr ⟨h.1, Nat.lt_of_lt_of_le h.2 ho1⟩
    · rcases hP a h with h | h | h
      · exact Or.inl (Or.inl h)
      · exact Or.inl (Or.inr h)
      · exact Or.inr ⟨h.1, Nat.lt_of_lt_of_le h.2 ho1⟩
    · exact Or.inr ⟨Nat.le_trans ho h.1, h.2⟩

/-- Re-basing with frames. `K`: what the tail needs preserved. -/
theorem Yields.rebase_aux {code O1 P1 o1 fr G p' S c out1 e1}
    (y1 : Yields code O1 P1 o1 fr G p' S c out1 e1) :
    ∀ {O P K : Nat → Prop} {o : Nat} {F F' out2 e} {Rref : Regs}, G = F' ++ F → ForksOK code F' →
    (∀ a, O1 a → O a ∨ (o ≤ a ∧ a < o1)) → (∀ a, P1 a → O a ∨ P a ∨ (o ≤ a ∧ a < o1)) → o ≤ o1 →
    (∀ a, K a → O a ∨ P a ∨ (o ≤ a ∧ a < o1)) → (∀ a, K a → ¬ Wr O1 o1 a) →
    (F' = [] → e1 = none → out2 = [] ∧ e = none) →
    EqOn K Rref c.regs →
    (∀ R', EqOn K Rref R' → Yields code O P o fr F p' S (.fail (F' ++ F) (e1.map .plain) R') out2 e) →
    Yields code O P o fr F p' S c (out1 ++ out2) e := by
  induction y1 with
  | @done c e R' hs hf =>
    intro O P K o F F' out2 e Rref hG _ hO _ ho _ hd _ hK y2
    subst hG
    have hW : ∀ a, Wr O1 o1 a → Wr O o a := by
      intro a h; rcases h with h | h
      · rcases hO a h with h | h
        · exact Or.inl h
        · exact Or.inr h.1
      · exact Or.inr (Nat.le_trans ho h)
    have : EqOn K Rref R' := hK.trans (hf.toOn hd)
    exact (y2 R' this).steps_left hs (hf.mono hW)
  | @out c w ws e' F'' R1 oo cp hF'' hs ho1 hf hn _ ih =>
    intro O P K o F F' out2 e Rref hG hF' hO hP ho hk hd hnil hK y2
    subst hG
    have hW : ∀ a, Wr O1 o1 a → Wr O o a := by
      intro a h; rcases h with h | h
      · rcases hO a h with h | h
        · exact Or.inl h
        · exact Or.inr h.1
      · exact Or.inr (Nat.le_trans ho h)
    have hs' : Steps code c (.run p' (.v w :: S) ((F'' ++ F') ++ F) false none R1 fr oo cp) := by
      simpa [List.append_assoc] using hs
    refine .out (hF''.append hF') hs' (Nat.le_trans ho ho1) (hf.mono hW) ?_ ?_
    · intro hnl
      have h1 : F'' = [] := by cases F'' <;> simp_all
      have h2 : F' = [] := by cases F'' <;> simp_all
      obtain ⟨rfl, rfl⟩ := hn h1
      simpa using hnil h2 rfl
    · intro R2 h2
      have hKeep : ∀ a, KeepP O1 P1 o1 oo a → KeepP O P o oo a := by
        intro a h; rcases h with (h | h) | h
        · rcases hO a h with h | h
          · exact Or.inl (Or.inl h)
          · exact Or.inr ⟨h.1, Nat.lt_of_lt_of_le h.2 ho1⟩
        · rcases hP a h with h | h | h
          · exact Or.inl (Or.inl h)
          · exact Or.inl (Or.inr h)
          · exact Or.inr ⟨h.1, Nat.lt_of_lt_of_le h.2 ho1⟩
        · exact Or.inr ⟨Nat.le_trans ho h.1, h.2⟩
      have hKK : ∀ a, K a → KeepP O P o oo a := by
        intro a h; rcases hk a h with h | h | h
        · exact Or.inl (Or.inl h)
        · exact Or.inl (Or.inr h)
        · exact Or.inr ⟨h.1, Nat.lt_of_lt_of_le h.2 ho1⟩
      have hK2 : EqOn K Rref R2 := (hK.trans (hf.toOn hd)).trans (h2.mono hKK)
      have := ih R2 (h2.mono hKeep) rfl hF' hO hP ho hk hd hnil (by simpa using hK2) y2
      simpa [List.append_assoc] using this

theorem Yields.rebase {code} {O1 P1 O P K : Nat → Prop} {o1 o fr F F' p' S c out1 e1 out2 e}
    (y1 : Yields code O1 P1 o1 fr (F' ++ F) p' S c out1 e1) (hF' : ForksOK code F')
    (hO : ∀ a, O1 a → O a ∨ (o ≤ a ∧ a < o1)) (hP : ∀ a, P1 a → O a ∨ P a ∨ (o ≤ a ∧ a < o1)) (ho : o ≤ o1)
    (hk : ∀ a, K a → O a ∨ P a ∨ (o ≤ a ∧ a < o1)) (hd : ∀ a, K a → ¬ Wr O1 o1 a)
    (hnil : F' = [] → e1 = none → out2 = [] ∧ e = none)
    (y2 : ∀ R', EqOn K c.regs R' → Yields code O P o fr F p' S (.fail (F' ++ F) (e1.map .plain) R') out2 e) :
    Yields code O P o fr F p' S c (out1 ++ out2) e :=
  Yields.rebase_aux y1 rfl hF' hO hP ho hk hd hnil EqOn.refl y2

theorem Yields.rebase_err {code} {O1 P1 O P : Nat → Prop} {o1 o fr F F' p' S c out1 e}
    (y1 : Yields code O1 P1 o1 fr (F' ++ F) p' S c out1 (some e)) (hF' : ForksOK code F')
    (hO : ∀ a, O1 a → O a ∨ (o ≤ a ∧ a < o1)) (hP : ∀ a, P1 a → O a ∨ P a ∨ (o ≤ a ∧ a < o1)) (ho : o ≤ o1) :
    Yields code O P o fr F p' S c out1 (some e) := by
  have := Yields.rebase (K := fun _ => False) (O := O) (P := P) y1 hF' hO hP ho (fun _ h => h.elim) (fun _ h => h.elim)
    (fun _ h => by cases h)
    (fun R' _ => .done (e := some e) (err_through hF' F (.plain e) R') EqOff.refl)
  simpa using this

theorem Yields.exit_steps {code O P o fr F p1 p2 S c outs e}
    (h : ∀ w G R o1 cp, ∃ cp', Steps code (.run p1 (.v w :: S) G false none R fr o1 cp)
      (.run p2 (.v w :: S) G false none R fr o1 cp'))
    (y : Yields code O P o fr F p1 S c outs e) : Yields code O P o fr F p2 S c outs e := by
  induction y with
  | done hs hf => exact .done hs hf
  | @out c w ws e F' R1 o1 cp hF hs ho hf hn _ ih =>
    obtain ⟨cp', hst⟩ := h w (F' ++ F) R1 o1 cp
    exact .out hF (hs.trans hst) ho hf hn ih

def ND (s : Stop) : Prop := match s with | .diverge => False | _ => True

/-- sequential composition (pipe).  `R0`: the registers the read-only set `P` is read from. -/
theorem Yields.bind {code} {Oa Ob O P : Nat → Prop} {o fr F pm p' S Sa c xs ea} {f : V → Res} {R0 : Regs}
    (ha : ∀ i, Oa i → O i) (hbO : ∀ i, Ob i → O i) (hdis : ∀ i, Oa i → ¬ Ob i) (hlt : ∀ i, O i → i < o)
    (hPlt : ∀ i, P i → i < o ∧ ¬ O i)
    (ya : Yields code Oa P o fr F pm Sa c xs ea)
    (hb : ∀ x G R o1 cp, o ≤ o1 → EqOn P R0 R → ND (f x).stop →
      Yields code Ob P o1 fr G p' S (.run pm (.v x :: Sa) G false none R fr o1 cp) (f x).outs (f x).stop.toErr) :
    ∀ sa, ea = sa.toErr → EqOn P R0 c.regs → ND (Res.bindL f xs sa).stop →
    Yields code O P o fr F p' S c (Res.bindL f xs sa).outs (Res.bindL f xs sa).stop.toErr := by
  induction ya with
  | done hs hf =>
    intro sa hsa _ _
    subst hsa
    have hW : ∀ a, Wr Oa o a → Wr O o a := fun a h => h.elim (fun h => Or.inl (ha a h)) Or.inr
    simpa [Res.bindL] using Yields.done (P := P) (p' := p') (S := S) hs (hf.mono hW)
  | @out c x ws e F' R1 o1 cp hF' hs ho1 hf hn _ ih =>
    intro sa hsa hR0 hnd
    have hW : ∀ a, Wr Oa o a → Wr O o a := fun a h => h.elim (fun h => Or.inl (ha a h)) Or.inr
    have hPW : ∀ a, P a → ¬ Wr Oa o a := by
      intro a hp hw; rcases hw with hw | hw
      · exact (hPlt a hp).2 (ha a hw)
      · have := (hPlt a hp).1; omega
    have hR1 : EqOn P R0 R1 := hR0.trans (hf.toOn hPW)
    have hndx : ND (f x).stop := by
      unfold ND at *
      unfold Res.bindL at hnd
      rcases hfx : f x with ⟨ox, st⟩
      rw [hfx] at hnd
      cases st <;> simp_all
    have yb := hb x (F' ++ F) R1 o1 cp ho1 hR1 hndx
    unfold Res.bindL at hnd ⊢
    generalize f x = rx at hnd yb hndx ⊢
    rcases rx with ⟨ox, st⟩
    cases st with
    | diverge => exact (by simpa [ND] using hndx : False).elim
    | err e' =>
      simp only [Stop.toErr] at yb ⊢
      exact (Yields.rebase_err yb hF' (fun a h => Or.inl (hbO a h)) (fun a h => Or.inr (Or.inl h)) ho1).steps_left hs (hf.mono hW)
    | done =>
      simp only [Stop.toErr] at yb ⊢
      refine (Yields.rebase (K := KeepP Oa P o o1) yb hF' (fun a h => Or.inl (hbO a h)) (fun a h => Or.inr (Or.inl h)) ho1
        ?_ ?_ ?_ ?_).steps_left hs (hf.mono hW)
      · intro a h; rcases h with (h | h) | h
        · exact Or.inl (ha a h)
        · exact Or.inr (Or.inl h)
        · exact Or.inr (Or.inr h)
      · intro a h hw; rcases h with (h | h) | h
        · rcases hw with hw | hw
          · exact hdis a h hw
          · have := hlt a (ha a h); omega
        · rcases hw with hw | hw
          · exact (hPlt a h).2 (hbO a hw)
          · have := (hPlt a h).1; omega
        · rcases hw with hw | hw
          · have := hlt a (hbO a hw); omega
          · omega
      · intro hnl _
        obtain ⟨rfl, rfl⟩ := hn hnl
        refine ⟨by simp only [Res.bindL], ?_⟩
        simp only [Res.bindL]
        exact hsa.symm
      · intro R' hR'
        have hR'' : EqOn (KeepP Oa P o o1) R1 R' := by simpa using hR'
        exact ih R' hR'' sa hsa (hR1.trans (hR''.mono (fun a h => Or.inl (Or.inr h)))) (by simpa using hnd)


end Gojq.MiniVM

/-
  The lexer delivers well-formed tokens, part 3: every token `Lex` returns, classified, is
  well-formed (`lx_wfI`).
-/
import Gojq.Proofs.LexImage2
namespace Gojq.RefTerm
open Gojq Gojq.Lexer Gojq.Generated.Lalr

theorem classify_unterminated (b : Bool) (lv : LVal) : (classify b tokUnterminatedString lv).wfI = true := by
  cases b <;> rfl
theorem classify_invalidEscape (b : Bool) (lv : LVal) : (classify b tokInvalidEscapeSequence lv).wfI = true := by
  cases b <;> rfl
theorem classify_strStart (b : Bool) (lv : LVal) : (classify b tokStringStart lv).wfI = true := by cases b <;> rfl
theorem classify_strQuery (b : Bool) (lv : LVal) : (classify b tokStringQuery lv).wfI = true := by cases b <;> rfl
theorem classify_strEnd (b : Bool) (lv : LVal) : (classify b tokStringEnd lv).wfI = true := by cases b <;> rfl
theorem classify_string_false (lv : LVal) : classify false tokString lv = .str lv.token := rfl
theorem classify_string_true (lv : LVal) : classify true tokString lv = .chunk lv.token := rfl

/-- a piece of text `scanString` accepted, as a token value -/
theorem strTok_wfI (inStr : Bool) (r : Bytes) (k : Nat) (hk : k ≤ r.length)
    (h : scanString r 0 = .quote k ∨ scanString r 0 = .interp k) (hpos : inStr = true → 0 < k) :
    (classify inStr tokString { token := unquoteStr (r.take k) }).wfI = true := by
  have he := (scanString_escaped r 0 k h).2
  simp only [Nat.sub_zero] at he
  cases inStr
  · rw [classify_string_false]; exact okLit_unquote _ he
  · rw [classify_string_true]
    have hne : r.take k ≠ [] := by
      intro e
      have := congrArg List.length e
      rw [List.length_take, Nat.min_eq_left hk] at this
      have := hpos rfl
      simp at *; omega
    have := unquoteStr_ne_nil _ he hne
    simp [Tok.wfI, Tok.wf, okLit_unquote _ he, this]

theorem scanStringTok_wfI (inStr : Bool) (o : Option UInt8) (r : Bytes) :
    (classify inStr (scanStringTok inStr o r).ty (scanStringTok inStr o r).lval).wfI = true := by
  have hb := scanString_bounds r 0 r.length (by omega)
  unfold scanStringTok
  cases hs : scanString r 0 with
  | unterminated => exact classify_unterminated _ _
  | invalidEscape e len => exact classify_invalidEscape _ _
  | interp k =>
    rw [hs] at hb
    simp only [StrScan.inBounds] at hb
    simp only []
    split
    · exact classify_strStart _ _
    · split
      · exact classify_strQuery _ _
      · next hi hk =>
        exact strTok_wfI inStr r k (by omega) (Or.inr hs) (fun _ => by simp at hk; omega)
  | quote k =>
    rw [hs] at hb
    simp only [StrScan.inBounds] at hb
    simp only []
    split
    · next hi =>
      have : inStr = false := by simpa using hi
      subst this
      exact strTok_wfI false r k (by omega) (Or.inl hs) (fun h => by cases h)
    · split
      · next hi hk => exact strTok_wfI inStr r k (by omega) (Or.inl hs) (fun _ => hk)
      · exact classify_strEnd _ _

/-! ### outside strings -/

def ScOK (sc : Scan) : Prop := (classify false sc.ty sc.lval).wfI = true

theorem ite_ScOK {c : Prop} [Decidable c] {a b : Scan} (ha : c → ScOK a) (hb : ¬c → ScOK b) :
    ScOK (if c then a else b) := by
  split
  · exact ha ‹_›
  · exact hb ‹_›

theorem sc_word (ch : UInt8) (r : Bytes) (h : isIdent ch false = true) :
    ScOK { n := (scanIdentOrModule r).fst, token := some (ch :: List.take (scanIdentOrModule r).fst r),
           ty := if (scanIdentOrModule r).snd = true then tokModuleIdent
           else (bytesLookup (ch :: List.take (scanIdentOrModule r).fst r) keywords).getD tokIdent,
           lval := { token := ch :: List.take (scanIdentOrModule r).fst r } } := by
  unfold ScOK
  rcases scanIdentOrModule_cases r with e | ⟨c, r2, hd, hc, e⟩
  · simp only [e, Bool.false_eq_true, if_false]
    exact word_wfI _ (identName_word ch r h)
  · simp only [e, if_true, classify_modIdent, take_module r r2 c hd]
    have := modIdent_word (ch :: r.take (identLen r)) (c :: r2.take (identLen r2)) (identName_word ch r h)
      (identName_word c r2 hc)
    simpa [Tok.wfI, Tok.wf] using this

theorem sc_var (r : Bytes) (h : isIdent (peek r) false = true) :
    ScOK { n := (scanIdentOrModule r).fst, token := some (36 :: List.take (scanIdentOrModule r).fst r),
           ty := if (scanIdentOrModule r).snd = true then tokModuleVariable else tokVariable,
           lval := { token := 36 :: List.take (scanIdentOrModule r).fst r } } := by
  unfold ScOK
  rcases scanIdentOrModule_cases r with e | ⟨c, r2, hd, hc, e⟩
  · simp only [e, Bool.false_eq_true, if_false, classify_var]
    simpa [Tok.wfI, Tok.wf, isVarName] using identName_take r h
  · simp only [e, if_true, classify_modVar, take_module r r2 c hd]
    have := modIdent_word (r.take (identLen r)) (c :: r2.take (identLen r2)) (identName_take r h)
      (identName_word c r2 hc)
    simpa [Tok.wfI, Tok.wf, isModVar] using this

theorem sc_number (st : NumState) (b : UInt8) (r : Bytes) (hok : (scanNumber st r).snd = true)
    (h : (st = .lead ∧ isNumber b = true) ∨ (st = .float ∧ b = 46 ∧ isNumber (peek r) = true)) :
    ScOK { n := (scanNumber st r).fst, token := some (b :: List.take (scanNumber st r).fst r), ty := tokNumber,
           lval := { token := b :: List.take (scanNumber st r).fst r } } := by
  unfold ScOK
  have e : scanNumber st r = ((scanNumber st r).fst, true) := by rw [← hok]
  simp only [classify_number, Tok.wfI, Tok.wf]
  rcases h with ⟨rfl, hb⟩ | ⟨rfl, rfl, hp⟩
  · exact okNumber_lead b r _ hb e
  · exact okNumber_float r _ hp e

theorem sc_index (r : Bytes) (h : isIdent (peek r) false = true) :
    ScOK { n := identLen r, token := some (46 :: List.take (identLen r) r), ty := tokIndex,
           lval := { token := List.take (identLen r) r } } := by
  unfold ScOK
  simpa [classify_index, Tok.wfI, Tok.wf] using identName_take r h

theorem sc_format (r : Bytes) (h : isIdent (peek r) true = true) :
    ScOK { n := identLen r, token := some (64 :: List.take (identLen r) r), ty := tokFormat,
           lval := { token := 64 :: List.take (identLen r) r } } := by
  unfold ScOK
  simp only [classify_format, Tok.wfI, Tok.wf, okFormat, Bool.and_eq_true, Bool.not_eq_true', List.all_eq_true]
  refine ⟨?_, take_identLen r⟩
  cases r with
  | nil => exact absurd h (by decide)
  | cons c r' => simp only [peek_cons] at h; simp [identLen, h]

/-- EVERY TOKEN SCANNED OUTSIDE A STRING IS WELL-FORMED -/
theorem scanTok_wfI (ch : UInt8) (r : Bytes) : ScOK (scanTok false ch r) := by
  unfold scanTok
  simp only []
  repeat' (apply ite_ScOK <;> intro _)
  all_goals (try (exact classify_byte false ch.toNat ch.toNat_lt _))
  all_goals (try (exact scanStringTok_wfI false _ r))
  all_goals (try (exact classify_invalid false _))
  all_goals (try (unfold ScOK; decide))
  · exact sc_word ch r ‹_›
  · exact sc_number .lead ch r ‹_› (Or.inl ⟨rfl, ‹_›⟩)
  · have : ch = 46 := by simpa using ‹(ch == 46) = true›
    subst this; exact sc_index r ‹_›
  · have : ch = 46 := by simpa using ‹(ch == 46) = true›
    subst this; exact sc_number .float 46 r ‹_› (Or.inr ⟨rfl, rfl, ‹_›⟩)
  · have : ch = 36 := by simpa using ‹(ch == 36) = true›
    subst this; exact sc_var r ‹_›
  · have : ch = 64 := by simpa using ‹(ch == 64) = true›
    subst this; exact sc_format r ‹_›

/-- EVERY TOKEN `Lex` RETURNS IS WELL-FORMED (single bytes and error tokens carry no content) -/
theorem lx_wfI (r : Bytes) (inStr : Bool) : (classify inStr (lx r inStr).1 (lx r inStr).2.1).wfI = true := by
  unfold lx lex
  simp only []
  split
  · cases inStr <;> rfl
  · split
    · next hi =>
      simp only [commit]
      have : inStr = true := hi
      subst this
      exact scanStringTok_wfI true none r
    · next hi =>
      have : inStr = false := by simpa using hi
      subst this
      split
      · rfl
      · rfl
      · simp only [commit]; exact scanTok_wfI _ _

end Gojq.RefTerm

/-
  The lexer delivers well-formed tokens, part 3: every token `Lex` returns, classified, is
  well-formed (`lx_wfI`).
-/
import Gojq.Proofs.LexImage2
namespace Gojq.RefTerm
open Gojq Gojq.Lexer Gojq.Generated.Lalr

theorem classify_unterminated (b : Bool) (lv : LVal) : (classify b tokUnterminatedString lv).wfI = true := by
  cases b <;> rfl
theorem classify_invalidEscape (b : Bool) (lv : LVal) : (classify b tokInvalidEscapeSequence lv).wfI = true := by
  cases b <;> rfl
theorem classify_strStart (b : Bool) (lv : LVal) : (classify b tokStringStart lv).wfI = true := by cases b <;> rfl
theorem classify_strQuery (b : Bool) (lv : LVal) : (classify b tokStringQuery lv).wfI = true := by cases b <;> rfl
theorem classify_strEnd (b : Bool) (lv : LVal) : (classify b tokStringEnd lv).wfI = true := by cases b <;> rfl
theorem classify_string_false (lv : LVal) : classify false tokString lv = .str lv.token := rfl
theorem classify_string_true (lv : LVal) : classify true tokString lv = .chunk lv.token := rfl

/-- a piece of text `scanString` accepted, as a token value -/
theorem strTok_wfI (inStr : Bool) (r : Bytes) (k : Nat) (hk : k ≤ r.length)
    (h : scanString r 0 = .quote k ∨ scanString r 0 = .interp k) (hpos : inStr = true → 0 < k) :
    (classify inStr tokString { token := unquoteStr (r.take k) }).wfI = true := by
  have he := (scanString_escaped r 0 k h).2
  simp only [Nat.sub_zero] at he
  cases inStr
  · rw [classify_string_false]; exact okLit_unquote _ he
  · rw [classify_string_true]
    have hne : r.take k ≠ [] := by
      intro e
      have := congrArg List.length e
      rw [List.length_take, Nat.min_eq_left hk] at this
      have := hpos rfl
      simp at *; omega
    have := unquoteStr_ne_nil _ he hne
    simp [Tok.wfI, Tok.wf, okLit_unquote _ he, this]

theorem scanStringTok_wfI (inStr : Bool) (o : Option UInt8) (r : Bytes) :
    (classify inStr (scanStringTok inStr o r).ty (scanStringTok inStr o r).lval).wfI = true := by
  have hb := scanString_bounds r 0 r.length (by omega)
  unfold scanStringTok
  cases hs : scanString r 0 with
  | unterminated => exact classify_unterminated _ _
  | invalidEscape e len => exact classify_invalidEscape _ _
  | interp k =>
    rw [hs] at hb
    simp only [StrScan.inBounds] at hb
    simp only []
    split
    · exact classify_strStart _ _
    · split
      · exact classify_strQuery _ _
      · next hi hk =>
        exact strTok_wfI inStr r k (by omega) (Or.inr hs) (fun _ => by simp at hk; omega)
  | quote k =>
    rw [hs] at hb
    simp only [StrScan.inBounds] at hb
    simp only []
    split
    · next hi =>
      have : inStr = false := by simpa using hi
      subst this
      exact strTok_wfI false r k (by omega) (Or.inl hs) (fun h => by cases h)
    · split
      · next hi hk => exact strTok_wfI inStr r k (by omega) (Or.inl hs) (fun _ => hk)
      · exact classify_strEnd _ _

end Gojq.RefTerm

/-
  Helper lemmas, part 4: func.go's `delpaths` (mark with `struct{}{}` through `update`, then
  `deleteEmpty`) denotes the value-level `delpaths` of Model/Heap.lean (C02 item 3).

  Device: `HV`, JSON values with holes and without labels.
    eraseH : T → HV                      forget labels, keep holes
    markH  : Path → HV → Option HV       the marking pass on `HV` (what `mark` does, labels aside)
    specH  : List Path → JV → HV         the value `v` with ALL positions denoted by the paths marked
    sweepV : HV → JV                     remove the holes
  Steps:  eraseH (mark p t) = markH p (eraseH t)            (`mark_eraseH`)
          markH p (specH ps v) = specH (ps ++ [p]) v         (`markH_specH`, needs sorted object keys)
          sweepV (specH ps v) = delpaths ps v                (`sweepV_specH`)
          abs (sweep A t) = sweepV (eraseH t)                (`sweep_abs`, holes lie below owned cells only)
  Core Lean only.
-/
import Gojq.Proofs.HeapChain
import Gojq.Proofs.HeapAlgebra
namespace Gojq.Heap
open Gojq

inductive HV where
  | leaf (s : Sc)
  | hole
  | arr (xs : List HV)
  | obj (kvs : List (Bytes × HV))
  deriving Inhabited

mutual
  def eraseH : T → HV
    | .leaf s => .leaf s
    | .hole => .hole
    | .node _ true _ ks => .obj (eraseHO ks)
    | .node _ false _ ks => .arr (eraseHA ks)
  def eraseHO : Kids → List (Bytes × HV)
    | [] => []
    | (k, t) :: ks => (k, eraseH t) :: eraseHO ks
  def eraseHA : Kids → List HV
    | [] => []
    | (_, t) :: ks => eraseH t :: eraseHA ks
end

/-- the key scan of `splitKey` on `HV` objects: (before, found, after) -/
def splitKeyH (k : Bytes) : List (Bytes × HV) → List (Bytes × HV) × Option HV × List (Bytes × HV)
  | [] => ([], none, [])
  | (k', x) :: rest =>
    match Bytes.cmp k k' with
    | .lt => ([], none, (k', x) :: rest)
    | .eq => ([], some x, rest)
    | .gt => let r := splitKeyH k rest; ((k', x) :: r.1, r.2.1, r.2.2)

/-- the marking pass without labels -/
def markH : Path → HV → Option HV
  | [], _ => some .hole
  | _ :: _, .hole => some .hole
  | .key _ :: _, .leaf .null => some (.leaf .null)
  | .key k :: p, .obj kvs =>
    match splitKeyH k kvs with
    | (pre, some x, post) => (markH p x).map fun u => .obj (pre ++ (k, u) :: post)
    | _ => some (.obj kvs)
  | .idx _ :: _, .leaf .null => some (.leaf .null)
  | .idx i :: p, .arr xs =>
    match resolve i xs.length with
    | .inr j => match xs[j]? with
      | some x => (markH p x).map fun u => .arr (xs.set j u)
      | none => some (.arr xs)
    | _ => some (.arr xs)
  | _ :: _, _ => none

mutual
  /-- remove the holes (a hole that is not inside a container becomes `null`) -/
  def sweepV : HV → JV
    | .leaf s => s.toJV
    | .hole => .null
    | .arr xs => .arr (sweepVA xs)
    | .obj kvs => .obj (sweepVO kvs)
  def sweepVA : List HV → List JV
    | [] => []
    | .hole :: xs => sweepVA xs
    | .leaf s :: xs => s.toJV :: sweepVA xs
    | .arr ys :: xs => .arr (sweepVA ys) :: sweepVA xs
    | .obj kvs :: xs => .obj (sweepVO kvs) :: sweepVA xs
  def sweepVO : List (Bytes × HV) → List (Bytes × JV)
    | [] => []
    | (_, .hole) :: kvs => sweepVO kvs
    | (k, .leaf s) :: kvs => (k, s.toJV) :: sweepVO kvs
    | (k, .arr ys) :: kvs => (k, .arr (sweepVA ys)) :: sweepVO kvs
    | (k, .obj ws) :: kvs => (k, .obj (sweepVO ws)) :: sweepVO kvs
end

theorem sweepVA_cons (x : HV) (xs : List HV) (h : x ≠ .hole) : sweepVA (x :: xs) = sweepV x :: sweepVA xs := by
  cases x <;> simp_all [sweepVA, sweepV]

theorem sweepVO_cons (k : Bytes) (x : HV) (kvs : List (Bytes × HV)) (h : x ≠ .hole) :
    sweepVO ((k, x) :: kvs) = (k, sweepV x) :: sweepVO kvs := by
  cases x <;> simp_all [sweepVO, sweepV]

/-! ### the specification with holes -/

def scOf : JV → Sc
  | .bool b => .bool b
  | .num n => .num n
  | .str s => .str s
  | _ => .null

mutual
  /-- `v` with every position denoted by a path of `ps` replaced by a hole; assumes `[] ∉ ps` -/
  def specB (ps : List Path) : JV → HV
    | .arr xs => .arr (specBA ps xs.length 0 xs)
    | .obj kvs => .obj (specBO ps kvs)
    | v => .leaf (scOf v)
  def specBA (ps : List Path) (len j : Nat) : List JV → List HV
    | [] => []
    | x :: xs =>
      (if (subPaths (selIdx len j) ps).contains [] then HV.hole else specB (subPaths (selIdx len j) ps) x)
        :: specBA ps len (j + 1) xs
  def specBO (ps : List Path) : List (Bytes × JV) → List (Bytes × HV)
    | [] => []
    | (k, x) :: kvs =>
      (k, if (subPaths (selKey k) ps).contains [] then HV.hole else specB (subPaths (selKey k) ps) x)
        :: specBO ps kvs
end

def specH (ps : List Path) (v : JV) : HV := if ps.contains [] then .hole else specB ps v

theorem specB_ne_hole (ps : List Path) (v : JV) : specB ps v ≠ .hole := by
  cases v <;> simp [specB]

mutual
  theorem sweepV_specB : ∀ (v : JV) (ps : List Path), sweepV (specB ps v) = delv ps v
    | .null, _ => rfl
    | .bool _, _ => rfl
    | .num _, _ => rfl
    | .str _, _ => rfl
    | .arr xs, ps => by simp only [specB, sweepV, delv, sweepVA_specBA xs ps]
    | .obj kvs, ps => by simp only [specB, sweepV, delv, sweepVO_specBO kvs ps]
  theorem sweepVA_specBA : ∀ (xs : List JV) (ps : List Path) (len j : Nat),
      sweepVA (specBA ps len j xs) = delvA ps len j xs
    | [], _, _, _ => by simp [specBA, delvA, sweepVA]
    | x :: xs, ps, len, j => by
      simp only [specBA, delvA]
      split
      · simp only [sweepVA]; exact sweepVA_specBA xs ps len (j + 1)
      · rw [sweepVA_cons _ _ (specB_ne_hole _ _), sweepV_specB x, sweepVA_specBA xs ps len (j + 1)]
  theorem sweepVO_specBO : ∀ (kvs : List (Bytes × JV)) (ps : List Path),
      sweepVO (specBO ps kvs) = delvO ps kvs
    | [], _ => by simp [specBO, delvO, sweepVO]
    | (k, x) :: kvs, ps => by
      simp only [specBO, delvO]
      split
      · simp only [sweepVO]; exact sweepVO_specBO kvs ps
      · rw [sweepVO_cons _ _ _ (specB_ne_hole _ _), sweepV_specB x, sweepVO_specBO kvs ps]
end

/-- sweeping the fully marked value is the value-level `delpaths` -/
theorem sweepV_specH (ps : List Path) (v : JV) : sweepV (specH ps v) = delpaths ps v := by
  simp only [specH, delpaths]
  split
  · rfl
  · exact sweepV_specB v ps


/-! ### marking one more path of the fully marked value -/

theorem subPaths_snoc (sel : PE → Bool) (ps : List Path) (q : Path) :
    subPaths sel (ps ++ [q]) = subPaths sel ps ++ (match q with | [] => [] | e :: t => if sel e then [t] else []) := by
  simp only [subPaths, List.filterMap_append, List.filterMap_cons, List.filterMap_nil]
  cases q with
  | nil => rfl
  | cons e t => by_cases h : sel e <;> simp [h]

theorem contains_nil_snoc (ps : List Path) (e : PE) (t : Path) : (ps ++ [e :: t]).contains [] = ps.contains [] := by
  rw [Bool.eq_iff_iff]
  simp [List.contains_iff_mem]

theorem specBA_length (ps : List Path) (len : Nat) : ∀ (xs : List JV) (j : Nat), (specBA ps len j xs).length = xs.length
  | [], _ => by simp [specBA]
  | x :: xs, j => by simp [specBA, specBA_length ps len xs (j + 1)]

theorem specBA_getElem (ps : List Path) (len : Nat) : ∀ (xs : List JV) (j m : Nat),
    (specBA ps len j xs)[m]? = (xs[m]?).map (specH (subPaths (selIdx len (j + m)) ps))
  | [], _, _ => by simp [specBA]
  | x :: xs, j, 0 => by simp [specBA, specH]
  | x :: xs, j, m + 1 => by
    simp only [specBA, List.getElem?_cons_succ]
    rw [specBA_getElem ps len xs (j + 1) m]
    have : j + 1 + m = j + (m + 1) := by omega
    rw [this]

/-- the key scan on plain values -/
def splitKeyJ (k : Bytes) : List (Bytes × JV) → List (Bytes × JV) × Option JV × List (Bytes × JV)
  | [] => ([], none, [])
  | (k', x) :: rest =>
    match Bytes.cmp k k' with
    | .lt => ([], none, (k', x) :: rest)
    | .eq => ([], some x, rest)
    | .gt => let r := splitKeyJ k rest; ((k', x) :: r.1, r.2.1, r.2.2)

theorem specBO_scan (ps : List Path) (k : Bytes) : ∀ kvs : List (Bytes × JV),
    splitKeyH k (specBO ps kvs) =
      (specBO ps (splitKeyJ k kvs).1, (splitKeyJ k kvs).2.1.map (specH (subPaths (selKey k) ps)),
        specBO ps (splitKeyJ k kvs).2.2)
  | [] => by simp [specBO, splitKeyH, splitKeyJ]
  | (k', x) :: rest => by
    simp only [specBO, splitKeyH, splitKeyJ]
    cases h : Bytes.cmp k k' with
    | lt => simp [specBO]
    | eq => simp [specBO, specH, cmp_eq _ _ h]
    | gt => simp [specBO, specBO_scan ps k rest]

theorem specBO_snoc_none (ps : List Path) (k : Bytes) (p' : Path) : ∀ kvs : List (Bytes × JV),
    (∀ y ∈ kvs, y.1 ≠ k) → specBO (ps ++ [.key k :: p']) kvs = specBO ps kvs
  | [], _ => by simp [specBO]
  | (k', x) :: rest, h => by
    have hne : (k' == k) = false := by simpa using h (k', x) (by simp)
    simp only [specBO, subPaths_snoc, selKey, hne, Bool.false_eq_true, if_false, List.append_nil]
    rw [specBO_snoc_none ps k p' rest (fun y hy => h y (by simp [hy]))]

theorem sorted_head_lt : ∀ (k' : Bytes) (x : JV) (rest : List (Bytes × JV)), kvSorted ((k', x) :: rest) = true →
    ∀ y ∈ rest, Bytes.cmp k' y.1 = .lt
  | _, _, [], _ => by simp
  | k', x, (k'', x'') :: rest, h => by
    simp only [kvSorted, Bool.and_eq_true, Bytes.lt, beq_iff_eq] at h
    intro y hy
    rcases List.mem_cons.mp hy with rfl | hy
    · exact h.1
    · exact cmp_lt_trans _ _ _ h.1 (sorted_head_lt k'' x'' rest h.2 y hy)

theorem sorted_tail : ∀ (k' : Bytes) (x : JV) (rest : List (Bytes × JV)), kvSorted ((k', x) :: rest) = true →
    kvSorted rest = true
  | _, _, [], _ => rfl
  | _, _, _ :: _, h => by simp only [kvSorted, Bool.and_eq_true] at h; exact h.2

theorem ne_of_cmp_lt {a b : Bytes} (h : Bytes.cmp a b = .lt) : b ≠ a := by
  intro e; rw [e, cmp_refl] at h; cases h

theorem ne_of_cmp_gt {a b : Bytes} (h : Bytes.cmp a b = .gt) : b ≠ a := by
  intro e; rw [e, cmp_refl] at h; cases h

theorem specBO_snoc (ps : List Path) (k : Bytes) (p' : Path) : ∀ kvs : List (Bytes × JV), kvSorted kvs = true →
    specBO (ps ++ [.key k :: p']) kvs =
      specBO ps (splitKeyJ k kvs).1 ++
        (match (splitKeyJ k kvs).2.1 with
          | some x0 => [(k, specH (subPaths (selKey k) ps ++ [p']) x0)]
          | none => []) ++
        specBO ps (splitKeyJ k kvs).2.2
  | [], _ => by simp [specBO, splitKeyJ]
  | (k', x) :: rest, hs => by
    have hlt := sorted_head_lt k' x rest hs
    simp only [splitKeyJ]
    cases h : Bytes.cmp k k' with
    | lt =>
      simp only [specBO, List.nil_append]
      exact specBO_snoc_none ps k p' ((k', x) :: rest) (fun y hy => by
        rcases List.mem_cons.mp hy with rfl | hy
        · exact ne_of_cmp_lt h
        · exact ne_of_cmp_lt (cmp_lt_trans _ _ _ h (hlt y hy)))
    | eq =>
      have hk := cmp_eq _ _ h
      subst hk
      have hrest := specBO_snoc_none ps k p' rest (fun y hy => ne_of_cmp_lt (hlt y hy))
      simp only [specBO, List.nil_append, List.singleton_append, subPaths_snoc, selKey, beq_self_eq_true, if_true, hrest]
      simp only [specH]
    | gt =>
      have hne : (k' == k) = false := by simpa using ne_of_cmp_gt h
      simp only [specBO, subPaths_snoc, selKey, hne, Bool.false_eq_true, if_false, List.append_nil, List.cons_append]
      rw [specBO_snoc ps k p' rest (sorted_tail k' x rest hs)]


theorem specBO_append (ps : List Path) : ∀ a b : List (Bytes × JV), specBO ps (a ++ b) = specBO ps a ++ specBO ps b
  | [], _ => by simp [specBO]
  | (k, x) :: a, b => by simp [specBO, specBO_append ps a b]

theorem splitKeyJ_eq (k : Bytes) : ∀ kvs : List (Bytes × JV),
    kvs = (splitKeyJ k kvs).1 ++ (match (splitKeyJ k kvs).2.1 with | some x => [(k, x)] | none => []) ++ (splitKeyJ k kvs).2.2
  | [] => by simp [splitKeyJ]
  | (k', x) :: rest => by
    simp only [splitKeyJ]
    cases h : Bytes.cmp k k' with
    | lt => simp
    | eq => simp [cmp_eq _ _ h]
    | gt =>
      have := splitKeyJ_eq k rest
      simp only [List.cons_append]
      rw [← this]

theorem specBA_snoc_none (ps : List Path) (i : Int) (p' : Path) (len : Nat)
    (h : ∀ m, (resolve i len == .inr m) = false) : ∀ (xs : List JV) (j : Nat),
    specBA (ps ++ [.idx i :: p']) len j xs = specBA ps len j xs
  | [], _ => by simp [specBA]
  | x :: xs, j => by
    simp only [specBA, subPaths_snoc, selIdx, h j, Bool.false_eq_true, if_false, List.append_nil]
    rw [specBA_snoc_none ps i p' len h xs (j + 1)]

theorem wf_arr {xs : List JV} (h : JV.wf (.arr xs) = true) : ∀ x ∈ xs, JV.wf x = true := by
  simp only [JV.wf] at h
  induction xs with
  | nil => intro x hx; cases hx
  | cons y ys ih =>
    simp only [JV.wfList, Bool.and_eq_true] at h
    intro x hx
    rcases List.mem_cons.mp hx with rfl | hx
    · exact h.1
    · exact ih h.2 x hx

theorem wf_obj {kvs : List (Bytes × JV)} (h : JV.wf (.obj kvs) = true) :
    kvSorted kvs = true ∧ ∀ y ∈ kvs, JV.wf y.2 = true := by
  simp only [JV.wf, Bool.and_eq_true] at h
  refine ⟨h.1, ?_⟩
  have h2 := h.2
  clear h
  induction kvs with
  | nil => intro y hy; cases hy
  | cons z zs ih =>
    obtain ⟨k, x⟩ := z
    simp only [JV.wfKvs, Bool.and_eq_true] at h2
    intro y hy
    rcases List.mem_cons.mp hy with rfl | hy
    · exact h2.1
    · exact ih h2.2 y hy

/-- marking one more path in the fully marked value gives the value fully marked for the longer list -/
theorem markH_specH : ∀ (p : Path) (ps : List Path) (v : JV) (h' : HV), JV.wf v = true →
    markH p (specH ps v) = some h' → h' = specH (ps ++ [p]) v := by
  intro p
  induction p with
  | nil =>
    intro ps v h' _ hm
    simp only [markH, Option.some.injEq] at hm
    subst hm
    simp [specH, List.contains_iff_mem]
  | cons e p' ih =>
    intro ps v h' hwf hm
    by_cases hmem : ([] : Path) ∈ ps
    · have h1 : specH ps v = .hole := by simp [specH, hmem]
      have h2 : specH (ps ++ [e :: p']) v = .hole := by simp [specH, hmem]
      rw [h1] at hm
      simp only [markH, Option.some.injEq] at hm
      subst hm
      exact h2.symm
    · have hs : specH ps v = specB ps v := by simp [specH, hmem]
      have hs' : specH (ps ++ [e :: p']) v = specB (ps ++ [e :: p']) v := by simp [specH, hmem]
      rw [hs] at hm
      rw [hs']
      cases v with
      | null =>
        cases e <;> (simp only [specB, scOf, markH, Option.some.injEq] at hm; subst hm; rfl)
      | bool b => cases e <;> simp [specB, scOf, markH] at hm
      | num n => cases e <;> simp [specB, scOf, markH] at hm
      | str s => cases e <;> simp [specB, scOf, markH] at hm
      | arr xs =>
        cases e with
        | key k => simp [specB, markH] at hm
        | idx i =>
          simp only [specB, markH, specBA_length] at hm
          cases hr : resolve i xs.length with
          | neg =>
            simp only [hr, Option.some.injEq] at hm
            subst hm
            simp only [specB]
            rw [specBA_snoc_none ps i p' xs.length (by intro m; simp [hr])]
          | beyond b =>
            simp only [hr, Option.some.injEq] at hm
            subst hm
            simp only [specB]
            rw [specBA_snoc_none ps i p' xs.length (by intro m; simp [hr])]
          | inr j =>
            obtain ⟨hj, _⟩ := resolve_inr hr
            simp only [hr, specBA_getElem, Nat.zero_add] at hm
            have hxj : xs[j]? = some xs[j] := List.getElem?_eq_getElem hj
            simp only [hxj, Option.map_some, Option.map_eq_some_iff] at hm
            obtain ⟨u, hu, rfl⟩ := hm
            have hu' := ih _ xs[j] u (wf_arr hwf _ (List.getElem_mem hj)) hu
            simp only [specB, HV.arr.injEq]
            apply List.ext_getElem?
            intro m
            simp only [List.getElem?_set, specBA_length, specBA_getElem, Nat.zero_add, subPaths_snoc, selIdx, hr]
            by_cases hjm : j = m
            · subst hjm
              simp [hj, hxj, hu']
            · have : (Res.inr j == Res.inr m) = false := by simpa using hjm
              simp [hjm, this]
      | obj kvs =>
        cases e with
        | idx i => simp [specB, markH] at hm
        | key k =>
          obtain ⟨hsorted, hwfk⟩ := wf_obj hwf
          simp only [specB, markH, specBO_scan] at hm
          have heq := splitKeyJ_eq k kvs
          have hsn := specBO_snoc ps k p' kvs hsorted
          cases ho : (splitKeyJ k kvs).2.1 with
          | none =>
            simp only [ho, Option.map_none, Option.some.injEq] at hm
            subst hm
            simp only [specB, HV.obj.injEq]
            rw [hsn]
            simp only [ho] at heq ⊢
            conv => lhs; rw [heq]
            simp [specBO_append]
          | some x0 =>
            simp only [ho, Option.map_some, Option.map_eq_some_iff] at hm
            obtain ⟨u, hu, rfl⟩ := hm
            have hx0 : JV.wf x0 = true := by
              apply hwfk (k, x0)
              rw [heq]; simp [ho]
            have hu' := ih _ x0 u hx0 hu
            simp only [specB, HV.obj.injEq]
            rw [hsn]
            simp [ho, hu']


/-! ### `mark` on labelled trees is `markH` on their erasure -/

theorem eraseHO_append (a b : Kids) : eraseHO (a ++ b) = eraseHO a ++ eraseHO b := by
  induction a with
  | nil => simp [eraseHO]
  | cons x xs ih => obtain ⟨k, t⟩ := x; simp [eraseHO, ih]

theorem eraseHA_append (a b : Kids) : eraseHA (a ++ b) = eraseHA a ++ eraseHA b := by
  induction a with
  | nil => simp [eraseHA]
  | cons x xs ih => obtain ⟨k, t⟩ := x; simp [eraseHA, ih]

theorem eraseHA_length (a : Kids) : (eraseHA a).length = a.length := by
  induction a with
  | nil => simp [eraseHA]
  | cons x xs ih => obtain ⟨k, t⟩ := x; simp [eraseHA, ih]

theorem splitKeyH_erase (k : Bytes) : ∀ ks : Kids,
    splitKeyH k (eraseHO ks) = (eraseHO (splitKey k ks).1, (splitKey k ks).2.1.map eraseH, eraseHO (splitKey k ks).2.2)
  | [] => by simp [splitKey, splitKeyH, eraseHO]
  | (k', x) :: rest => by
    simp only [splitKey, splitKeyH, eraseHO]
    cases h : Bytes.cmp k k' with
    | lt => simp [eraseHO]
    | eq => simp [eraseHO]
    | gt => simp [eraseHO, splitKeyH_erase k rest]

theorem eraseH_node_plug (id : Nat) (o : Bool) (c : Nat) (pre post : Kids) (k : Bytes) (u : T) :
    eraseH (.node id o c (pre ++ (k, u) :: post)) =
      if o then .obj (eraseHO pre ++ (k, eraseH u) :: eraseHO post) else .arr (eraseHA pre ++ eraseH u :: eraseHA post) := by
  cases o <;> simp [eraseH, eraseHO_append, eraseHA_append, eraseHO, eraseHA]

theorem mark_eraseH : ∀ (p : Path) (t : T) (A : List Nat) (f : Nat) r,
    mark A f p t = some r → markH p (eraseH t) = some (eraseH r.1) := by
  intro p
  induction p with
  | nil => intro t A f r h; simp only [mark, Option.some.injEq] at h; subst h; simp [markH, eraseH]
  | cons e p ih =>
    intro t A f r h
    simp only [mark] at h
    cases e with
    | key k =>
      cases t with
      | hole => simp only [enterDel, Option.some.injEq] at h; subst h; simp [markH, eraseH]
      | leaf s =>
        cases s <;> simp only [enterDel, Option.some.injEq, reduceCtorEq] at h
        subst h; simp [markH, eraseH]
      | node id ob c ks =>
        cases ob with
        | false => simp [enterDel] at h
        | true =>
          simp only [enterDel] at h
          rcases hs : splitKey k ks with ⟨pre, ox, post⟩
          simp only [hs] at h
          have hE := splitKeyH_erase k ks
          simp only [hs] at hE
          cases ox with
          | none =>
            simp only [Option.some.injEq] at h
            subst h
            simp [markH, eraseH, hE]
          | some x =>
            have hks := splitKey_found k ks pre post x hs
            simp only at h
            split at h
            · cases h
            · rename_i u A1 f1 log1 hu
              have hrec := ih x A f _ hu
              simp only [eraseH, markH, hE, Option.map_some, hrec]
              split at h <;> (simp only [Option.some.injEq] at h; subst h; simp [eraseH_node_plug])
    | idx i =>
      cases t with
      | hole => simp only [enterDel, Option.some.injEq] at h; subst h; simp [markH, eraseH]
      | leaf s =>
        cases s <;> simp only [enterDel, Option.some.injEq, reduceCtorEq] at h
        subst h; simp [markH, eraseH]
      | node id ob c ks =>
        cases ob with
        | true => simp [enterDel] at h
        | false =>
          simp only [enterDel] at h
          simp only [eraseH, markH, eraseHA_length]
          cases hr : resolve i ks.length with
          | neg => simp only [hr, Option.some.injEq] at h; subst h; simp [eraseH]
          | beyond b => simp only [hr, Option.some.injEq] at h; subst h; simp [eraseH]
          | inr j =>
            simp only [hr] at h
            cases hs : splitIdx j ks with
            | none =>
              simp only [hs, Option.some.injEq] at h
              subst h
              have := splitIdx_none j ks hs
              have hnone : (eraseHA ks)[j]? = none := by simp [eraseHA_length, this]
              simp [hnone, eraseH]
            | some r3 =>
              obtain ⟨pre, x, post⟩ := r3
              obtain ⟨k', hks, hlen⟩ := splitIdx_eq j ks pre post x hs
              simp only [hs] at h
              split at h
              · cases h
              · rename_i u A1 f1 log1 hu
                have hrec := ih x A f _ hu
                have hget : (eraseHA ks)[j]? = some (eraseH x) := by
                  rw [hks, eraseHA_append, ← hlen, ← eraseHA_length pre]
                  simp [eraseHA]
                have hset : (eraseHA ks).set j (eraseH u) = eraseHA pre ++ eraseH u :: eraseHA post := by
                  rw [hks, eraseHA_append, ← hlen, ← eraseHA_length pre]
                  simp [eraseHA]
                simp only [hget, hrec, Option.map_some, hset]
                split at h <;> (simp only [Option.some.injEq] at h; subst h; simp [eraseH_node_plug])

/-! ### holes lie below owned cells only, so sweeping the owned cells removes them all -/

mutual
  def holeFree : T → Prop
    | .hole => False
    | .leaf _ => True
    | .node _ _ _ ks => holeFreeK ks
  def holeFreeK : Kids → Prop
    | [] => True
    | (_, t) :: ks => holeFree t ∧ holeFreeK ks
end

mutual
  /-- every hole other than the root itself is a child of an owned cell whose ancestors are owned -/
  def ho (A : List Nat) : T → Prop
    | .hole => True
    | .leaf _ => True
    | .node id _ _ ks => (id ∈ A → hoK A ks) ∧ (id ∉ A → holeFreeK ks)
  def hoK (A : List Nat) : Kids → Prop
    | [] => True
    | (_, .hole) :: ks => hoK A ks
    | (_, t) :: ks => ho A t ∧ hoK A ks
end

theorem hoK_cons (A : List Nat) (k : Bytes) (t : T) (ks : Kids) : hoK A ((k, t) :: ks) ↔ ho A t ∧ hoK A ks := by
  cases t <;> simp [hoK, ho]

theorem holeFreeK_append (a b : Kids) : holeFreeK (a ++ b) ↔ holeFreeK a ∧ holeFreeK b := by
  induction a with
  | nil => simp [holeFreeK]
  | cons x xs ih => obtain ⟨k, t⟩ := x; simp [holeFreeK, ih, and_assoc]

theorem hoK_append (A : List Nat) (a b : Kids) : hoK A (a ++ b) ↔ hoK A a ∧ hoK A b := by
  induction a with
  | nil => simp [hoK]
  | cons x xs ih => obtain ⟨k, t⟩ := x; simp [hoK_cons, ih, and_assoc]

mutual
  theorem ho_of_holeFree (A : List Nat) : ∀ t : T, holeFree t → ho A t
    | .hole, h => by simp [holeFree] at h
    | .leaf _, _ => trivial
    | .node id _ _ ks, h => by
      simp only [holeFree] at h
      exact ⟨fun _ => hoK_of_holeFreeK A ks h, fun _ => h⟩
  theorem hoK_of_holeFreeK (A : List Nat) : ∀ ks : Kids, holeFreeK ks → hoK A ks
    | [], _ => trivial
    | (k, t) :: ks, h => by
      simp only [holeFreeK] at h
      rw [hoK_cons]
      exact ⟨ho_of_holeFree A t h.1, hoK_of_holeFreeK A ks h.2⟩
end

mutual
  theorem ho_mono (A A' : List Nat) (hA : ∀ a ∈ A, a ∈ A') : ∀ t : T, ho A t → ho A' t
    | .hole, _ => trivial
    | .leaf _, _ => trivial
    | .node id _ _ ks, h => by
      simp only [ho] at h ⊢
      constructor
      · intro _
        by_cases hin : id ∈ A
        · exact hoK_mono A A' hA ks (h.1 hin)
        · exact hoK_of_holeFreeK A' ks (h.2 hin)
      · intro hnin
        exact h.2 (fun hin => hnin (hA id hin))
  theorem hoK_mono (A A' : List Nat) (hA : ∀ a ∈ A, a ∈ A') : ∀ ks : Kids, hoK A ks → hoK A' ks
    | [], _ => trivial
    | (k, t) :: ks, h => by
      rw [hoK_cons] at h ⊢
      exact ⟨ho_mono A A' hA t h.1, hoK_mono A A' hA ks h.2⟩
end

theorem ho_kid_parts {A : List Nat} {id : Nat} {o : Bool} {c : Nat} {pre post : Kids} {k : Bytes} {x : T}
    (h : ho A (.node id o c (pre ++ (k, x) :: post))) :
    ho A x ∧ ((id ∈ A → hoK A pre ∧ hoK A post) ∧ (id ∉ A → holeFreeK pre ∧ holeFreeK post)) := by
  simp only [ho] at h
  refine ⟨?_, ?_, ?_⟩
  · by_cases hin : id ∈ A
    · have := h.1 hin
      rw [hoK_append, hoK_cons] at this
      exact this.2.1
    · have := h.2 hin
      rw [holeFreeK_append] at this
      simp only [holeFreeK] at this
      exact ho_of_holeFree A x this.2.1
  · intro hin
    have := h.1 hin
    rw [hoK_append, hoK_cons] at this
    exact ⟨this.1, this.2.2⟩
  · intro hin
    have := h.2 hin
    rw [holeFreeK_append] at this
    simp only [holeFreeK] at this
    exact ⟨this.1, this.2.2⟩

theorem mark_ho : ∀ (p : Path) (t : T) (A : List Nat) (f : Nat) t' A' f' log,
    mark A f p t = some (t', A', f', log) → ho A t → ho A' t' := by
  intro p
  induction p with
  | nil =>
    intro t A f t' A' f' log h _
    simp only [mark, Option.some.injEq, Prod.mk.injEq] at h
    obtain ⟨rfl, rfl, rfl, rfl⟩ := h
    trivial
  | cons e p ih =>
    intro t A f t' A' f' log h hho
    have hconf := mark_confined (e :: p) t A f t' A' f' log h
    simp only [mark] at h
    split at h
    · cases h
    · simp only [Option.some.injEq, Prod.mk.injEq] at h
      obtain ⟨rfl, rfl, rfl, rfl⟩ := h
      exact hho
    · rename_i id o c cCopy pre key child post hed
      -- the entered node is `pre ++ (_, child) :: post`
      have hshape : ∃ k', t = .node id o c (pre ++ (k', child) :: post) := by
        cases e with
        | key k =>
          cases t with
          | hole => simp [enterDel] at hed
          | leaf s => cases s <;> simp [enterDel] at hed
          | node id2 ob c2 ks =>
            cases ob with
            | false => simp [enterDel] at hed
            | true =>
              simp only [enterDel] at hed
              rcases hs : splitKey k ks with ⟨pre2, ox, post2⟩
              simp only [hs] at hed
              cases ox with
              | none => cases hed
              | some x =>
                simp only [EnterDel.at.injEq] at hed
                obtain ⟨rfl, rfl, rfl, _, rfl, rfl, rfl, rfl⟩ := hed
                exact ⟨k, by rw [splitKey_found k ks _ _ x hs]⟩
        | idx i =>
          cases t with
          | hole => simp [enterDel] at hed
          | leaf s => cases s <;> simp [enterDel] at hed
          | node id2 ob c2 ks =>
            cases ob with
            | true => simp [enterDel] at hed
            | false =>
              simp only [enterDel] at hed
              split at hed
              · split at hed
                · rename_i pre2 x post2 hs
                  simp only [EnterDel.at.injEq] at hed
                  obtain ⟨rfl, rfl, rfl, _, rfl, _, rfl, rfl⟩ := hed
                  obtain ⟨k', hks, _⟩ := splitIdx_eq _ ks _ _ _ hs
                  exact ⟨k', by rw [hks]⟩
                · cases hed
              · cases hed
      obtain ⟨k', rfl⟩ := hshape
      obtain ⟨hx, hown, hnown⟩ := ho_kid_parts hho
      split at h
      · cases h
      · rename_i u A1 f1 log1 hu
        have hu' := ih child A f u A1 f1 log1 hu hx
        obtain ⟨_, hAA1, _, _⟩ := mark_confined p child A f u A1 f1 log1 hu
        split at h
        · rename_i hin
          simp only [Option.some.injEq, Prod.mk.injEq] at h
          obtain ⟨rfl, rfl, rfl, rfl⟩ := h
          simp only [ho]
          refine ⟨fun _ => ?_, fun hn => absurd hin hn⟩
          rw [hoK_append, hoK_cons]
          by_cases hinA : id ∈ A
          · exact ⟨hoK_mono A _ hAA1 pre (hown hinA).1, hu', hoK_mono A _ hAA1 post (hown hinA).2⟩
          · exact ⟨hoK_of_holeFreeK _ pre (hnown hinA).1, hu', hoK_of_holeFreeK _ post (hnown hinA).2⟩
        · simp only [Option.some.injEq, Prod.mk.injEq] at h
          obtain ⟨rfl, rfl, rfl, rfl⟩ := h
          simp only [ho]
          refine ⟨fun _ => ?_, fun hn => absurd List.mem_cons_self hn⟩
          rw [hoK_append, hoK_cons]
          have hAA' : ∀ a ∈ A1, a ∈ f1 :: A1 := fun a h => List.mem_cons_of_mem _ h
          have hAA'' : ∀ a ∈ A, a ∈ f1 :: A1 := fun a h => hAA' a (hAA1 a h)
          by_cases hinA : id ∈ A
          · exact ⟨hoK_mono A _ hAA'' pre (hown hinA).1, ho_mono A1 _ hAA' u hu', hoK_mono A _ hAA'' post (hown hinA).2⟩
          · exact ⟨hoK_of_holeFreeK _ pre (hnown hinA).1, ho_mono A1 _ hAA' u hu', hoK_of_holeFreeK _ post (hnown hinA).2⟩


theorem eraseH_ne_hole {t : T} (h : t ≠ .hole) : eraseH t ≠ .hole := by
  cases t with
  | hole => exact absurd rfl h
  | leaf s => simp [eraseH]
  | node id o c ks => cases o <;> simp [eraseH]

mutual
  theorem holeFree_sweepV : ∀ t : T, holeFree t → sweepV (eraseH t) = abs t
    | .hole, h => by simp [holeFree] at h
    | .leaf _, _ => by simp [eraseH, sweepV, abs]
    | .node _ true _ ks, h => by
      simp only [holeFree] at h
      simp only [eraseH, sweepV, abs, (holeFreeK_sweepV ks h).2]
    | .node _ false _ ks, h => by
      simp only [holeFree] at h
      simp only [eraseH, sweepV, abs, (holeFreeK_sweepV ks h).1]
  theorem holeFreeK_sweepV : ∀ ks : Kids, holeFreeK ks →
      sweepVA (eraseHA ks) = absA ks ∧ sweepVO (eraseHO ks) = absO ks
    | [], _ => by simp [eraseHA, eraseHO, sweepVA, sweepVO, absA, absO]
    | (k, t) :: ks, h => by
      simp only [holeFreeK] at h
      have ht : t ≠ .hole := by intro e; rw [e] at h; simp [holeFree] at h
      have ih := holeFreeK_sweepV ks h.2
      simp only [eraseHA, eraseHO, absA, absO]
      rw [sweepVA_cons _ _ (eraseH_ne_hole ht), sweepVO_cons _ _ _ (eraseH_ne_hole ht), holeFree_sweepV t h.1, ih.1, ih.2]
      exact ⟨rfl, rfl⟩
end

theorem sweepK_cons (A : List Nat) (k : Bytes) (t : T) (ks : Kids) (h : t ≠ .hole) :
    sweepK A ((k, t) :: ks) = (k, sweep A t) :: sweepK A ks := by
  cases t with
  | hole => exact absurd rfl h
  | leaf s => simp [sweepK]
  | node id o c ks' => simp [sweepK]

mutual
  /-- `deleteEmpty` removes every hole when the holes lie below owned cells only -/
  theorem sweep_abs (A : List Nat) : ∀ t : T, ho A t → abs (sweep A t) = sweepV (eraseH t)
    | .hole, _ => by simp [sweep, eraseH, sweepV, abs, T.null, Sc.toJV]
    | .leaf _, _ => by simp [sweep, eraseH, sweepV, abs]
    | .node id true c ks, h => by
      simp only [ho] at h
      simp only [sweep]
      split
      · rename_i hin
        simp only [abs, eraseH, sweepV, (sweepK_abs A ks (h.1 hin)).2]
      · rename_i hnin
        simp only [abs, eraseH, sweepV, (holeFreeK_sweepV ks (h.2 hnin)).2]
    | .node id false c ks, h => by
      simp only [ho] at h
      simp only [sweep]
      split
      · rename_i hin
        simp only [abs, eraseH, sweepV, (sweepK_abs A ks (h.1 hin)).1]
      · rename_i hnin
        simp only [abs, eraseH, sweepV, (holeFreeK_sweepV ks (h.2 hnin)).1]
  theorem sweepK_abs (A : List Nat) : ∀ ks : Kids, hoK A ks →
      absA (sweepK A ks) = sweepVA (eraseHA ks) ∧ absO (sweepK A ks) = sweepVO (eraseHO ks)
    | [], _ => by simp [sweepK, eraseHA, eraseHO, sweepVA, sweepVO, absA, absO]
    | (k, .hole) :: ks, h => by
      simp only [hoK] at h
      simp only [sweepK, eraseHA, eraseHO, eraseH, sweepVA, sweepVO]
      exact sweepK_abs A ks h
    | (k, .leaf s) :: ks, h => by
      simp only [hoK] at h
      have ih := sweepK_abs A ks h.2
      simp [sweepK, sweep, eraseHA, eraseHO, eraseH, sweepVA, sweepVO, absA, absO, abs, ih.1, ih.2]
    | (k, .node id o c ks') :: ks, h => by
      simp only [hoK] at h
      have ih := sweepK_abs A ks h.2
      have ht := sweep_abs A (.node id o c ks') h.1
      have hne : eraseH (.node id o c ks') ≠ .hole := eraseH_ne_hole (by simp)
      rw [sweepK_cons A k _ ks (by simp)]
      simp only [absA, absO, eraseHA, eraseHO]
      rw [sweepVA_cons _ _ hne, sweepVO_cons _ _ _ hne, ht, ih.1, ih.2]
      exact ⟨rfl, rfl⟩
end

/-! ### the whole `delpaths` -/

theorem scOf_toJV (s : Sc) : scOf s.toJV = s := by cases s <;> rfl

mutual
  theorem eraseH_specB_nil : ∀ t : T, holeFree t → eraseH t = specB [] (abs t)
    | .hole, h => by simp [holeFree] at h
    | .leaf s, _ => by cases s <;> simp [eraseH, abs, Sc.toJV, specB, scOf]
    | .node _ true _ ks, h => by
      simp only [holeFree] at h
      simp only [eraseH, abs, specB, (eraseHK_specB_nil ks h).2]
    | .node _ false _ ks, h => by
      simp only [holeFree] at h
      simp only [eraseH, abs, specB, (eraseHK_specB_nil ks h).1 (absA ks).length 0]
  theorem eraseHK_specB_nil : ∀ ks : Kids, holeFreeK ks →
      (∀ len j, eraseHA ks = specBA [] len j (absA ks)) ∧ eraseHO ks = specBO [] (absO ks)
    | [], _ => by simp [eraseHA, eraseHO, specBA, specBO, absA, absO]
    | (k, t) :: ks, h => by
      simp only [holeFreeK] at h
      have ih := eraseHK_specB_nil ks h.2
      have ht := eraseH_specB_nil t h.1
      constructor
      · intro len j
        simp only [eraseHA, absA, specBA, subPaths, List.filterMap_nil, List.contains_nil, Bool.false_eq_true, if_false]
        rw [ht, ih.1 len (j + 1)]
      · simp only [eraseHO, absO, specBO, subPaths, List.filterMap_nil, List.contains_nil, Bool.false_eq_true, if_false]
        rw [ht, ih.2]
end

theorem markAll_spec (v0 : JV) (hwf : JV.wf v0 = true) : ∀ (ps done : List Path) (t : T) (A : List Nat) (f : Nat) (log0 : Log) u A1 f1 log,
    markAll ps (t, A, f, log0) = some (u, A1, f1, log) → eraseH t = specH done v0 → ho A t →
    eraseH u = specH (done ++ ps) v0 ∧ ho A1 u := by
  intro ps
  induction ps with
  | nil =>
    intro done t A f log0 u A1 f1 log h he hh
    simp only [markAll, Option.some.injEq, Prod.mk.injEq] at h
    obtain ⟨rfl, rfl, rfl, rfl⟩ := h
    simpa using ⟨he, hh⟩
  | cons p ps ih =>
    intro done t A f log0 u A1 f1 log h he hh
    simp only [markAll] at h
    split at h
    · cases h
    · rename_i t1 A2 f2 log1 hm
      have h1 := mark_eraseH p t A f _ hm
      rw [he] at h1
      have h2 := markH_specH p done v0 _ hwf h1
      have h3 := mark_ho p t A f t1 A2 f2 log1 hm hh
      have := ih (done ++ [p]) t1 A2 f2 (log0 ++ log1) u A1 f1 log h h2 h3
      simpa [List.append_assoc] using this

mutual
  theorem delv_nil : ∀ v : JV, delv [] v = v
    | .null => rfl
    | .bool _ => rfl
    | .num _ => rfl
    | .str _ => rfl
    | .arr xs => by simp only [delv, delvA_nil xs]
    | .obj kvs => by simp only [delv, delvO_nil kvs]
  theorem delvA_nil : ∀ (xs : List JV) (len j : Nat), delvA [] len j xs = xs
    | [], _, _ => rfl
    | x :: xs, len, j => by
      simp only [delvA, subPaths, List.filterMap_nil, List.contains_nil, Bool.false_eq_true, if_false]
      rw [delv_nil x, delvA_nil xs len (j + 1)]
  theorem delvO_nil : ∀ (kvs : List (Bytes × JV)), delvO [] kvs = kvs
    | [] => rfl
    | (k, x) :: kvs => by
      simp only [delvO, subPaths, List.filterMap_nil, List.contains_nil, Bool.false_eq_true, if_false]
      rw [delv_nil x, delvO_nil kvs]
end

/-- **func.go's `delpaths` denotes the value-level `delpaths`** -/
theorem delpathsT_abs (A : List Nat) (f : Nat) (ps : List Path) (v : T) r
    (hfree : holeFree v) (hwf : JV.wf (abs v) = true) (h : delpathsT A f ps v = some r) :
    abs r.1 = delpaths ps (abs v) := by
  simp only [delpathsT] at h
  split at h
  · rename_i hemp
    simp only [Option.some.injEq] at h
    subst h
    have : ps = [] := by simpa using hemp
    subst this
    simp [delpaths, delv_nil]
  · split at h
    · cases h
    · rename_i u A1 f1 log hm
      simp only [Option.some.injEq] at h
      subst h
      have he : eraseH v = specH [] (abs v) := by
        rw [eraseH_specB_nil v hfree]; simp [specH]
      obtain ⟨h1, h2⟩ := markAll_spec (abs v) hwf ps [] v A f [] u A1 f1 log hm he (ho_of_holeFree A v hfree)
      simp only [List.nil_append] at h1
      rw [sweep_abs A1 u h2, h1, sweepV_specH]

end Gojq.Heap

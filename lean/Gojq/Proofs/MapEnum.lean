/-
  Lemmas for Props/C05Maps.lean: the result of each map traversal of Model/MapEnum.lean does not
  depend on the enumeration.
-/
import Gojq.Model.MapEnum
import Gojq.Proofs.EncodeKeyOrder
import Gojq.Proofs.Native
namespace Gojq.MapEnum
open Gojq Gojq.KeyOrder

/-! ### 1. a list arranged by an antisymmetric relation is unique among its rearrangements -/

theorem pairwise_perm_unique {α : Type} (R : α → α → Prop) (anti : ∀ a b, R a b → R b a → a = b) :
    ∀ (a b : List α), a.Pairwise R → b.Pairwise R → a.Perm b → a = b
  | [], _, _, _, h => List.Perm.nil_eq h
  | _ :: _, [], _, _, h => absurd h.symm (by simp)
  | x :: xs, y :: ys, ha, hb, h => by
    have ha' := List.pairwise_cons.mp ha
    have hb' := List.pairwise_cons.mp hb
    have hxy : x = y := by
      have hx : x ∈ y :: ys := h.subset (by simp)
      have hy : y ∈ x :: xs := h.symm.subset (by simp)
      rcases List.mem_cons.mp hx with hx | hx
      · exact hx
      · rcases List.mem_cons.mp hy with hy | hy
        · exact hy.symm
        · exact anti x y (ha'.1 y hy) (hb'.1 x hx)
    subst hxy
    rw [pairwise_perm_unique R anti xs ys ha'.2 hb'.2 (List.Perm.cons_inv h)]

/-- strictly increasing in `key` (bytewise) -/
def SortedOn {α : Type} (key : α → Bytes) (l : List α) : Prop := l.Pairwise fun a b => Bytes.cmp (key a) (key b) = .lt

/-- no two elements with the same `key` -/
def DistinctOn {α : Type} (key : α → Bytes) (l : List α) : Prop := l.Pairwise fun a b => key a ≠ key b

/-- what a sorting routine called with the comparison `key_i < key_j` guarantees on distinct keys:
    an increasing rearrangement -/
def SortsOn {α : Type} (key : α → Bytes) (s : List α → List α) : Prop :=
  ∀ l, DistinctOn key l → (s l).Perm l ∧ SortedOn key (s l)

theorem DistinctOn.of_perm {α : Type} {key : α → Bytes} {l₁ l₂ : List α} (hp : l₁.Perm l₂) (hd : DistinctOn key l₁) :
    DistinctOn key l₂ :=
  (hp.pairwise_iff (R := fun a b => key a ≠ key b) (fun h => Ne.symm h)).mp hd

theorem SortedOn.distinct {α : Type} {key : α → Bytes} {l : List α} (h : SortedOn key l) : DistinctOn key l := by
  refine List.Pairwise.imp ?_ h
  intro a b hab he
  rw [he] at hab
  exact bcmp_irrefl _ hab

theorem sortedOn_perm_unique {α : Type} (key : α → Bytes) (a b : List α) (ha : SortedOn key a) (hb : SortedOn key b)
    (h : a.Perm b) : a = b :=
  pairwise_perm_unique _ (fun _ _ h1 h2 => absurd h2 (bcmp_asymm h1)) a b ha hb h

theorem sort_of_perm_on {α : Type} {key : α → Bytes} {s : List α → List α} (hs : SortsOn key s) {l₁ l₂ : List α}
    (hp : l₁.Perm l₂) (hd : DistinctOn key l₁) : s l₁ = s l₂ := by
  obtain ⟨p1, s1⟩ := hs l₁ hd
  obtain ⟨p2, s2⟩ := hs l₂ (hd.of_perm hp)
  exact sortedOn_perm_unique key _ _ s1 s2 (p1.trans (hp.trans p2.symm))

theorem sort_eq_sorted {α : Type} {key : α → Bytes} {s : List α → List α} (hs : SortsOn key s) {l' l : List α}
    (hl : SortedOn key l) (hp : l'.Perm l) : s l' = l := by
  have hd : DistinctOn key l' := (SortedOn.distinct hl).of_perm hp.symm
  obtain ⟨p1, s1⟩ := hs l' hd
  exact sortedOn_perm_unique key _ _ s1 hl (p1.trans hp)

/-! insertion sort is such a routine -/

theorem insertOn_perm {α : Type} (key : α → Bytes) (x : α) : ∀ l : List α, (insertOn key x l).Perm (x :: l)
  | [] => List.Perm.refl _
  | y :: ys => by
    simp only [insertOn]
    split
    · exact ((insertOn_perm key x ys).cons y).trans (List.Perm.swap _ _ _)
    · exact List.Perm.refl _

theorem sortOn_cons {α : Type} (key : α → Bytes) (x : α) (xs : List α) :
    sortOn key (x :: xs) = insertOn key x (sortOn key xs) := rfl

theorem sortOn_perm {α : Type} (key : α → Bytes) : ∀ l : List α, (sortOn key l).Perm l
  | [] => List.Perm.refl _
  | x :: xs => by
    rw [sortOn_cons]
    exact (insertOn_perm key x (sortOn key xs)).trans ((sortOn_perm key xs).cons x)

theorem insertOn_sorted {α : Type} (key : α → Bytes) (x : α) :
    ∀ l : List α, SortedOn key l → (∀ y ∈ l, key x ≠ key y) → SortedOn key (insertOn key x l)
  | [], _, _ => by simp [insertOn, SortedOn]
  | y :: ys, hs, hne => by
    have hs' := List.pairwise_cons.mp hs
    simp only [insertOn]
    split
    · rename_i hgt
      refine List.pairwise_cons.mpr ⟨fun z hz => ?_, insertOn_sorted key x ys hs'.2 (fun w hw => hne w (List.mem_cons_of_mem _ hw))⟩
      rcases List.mem_cons.mp ((insertOn_perm key x ys).subset hz) with hz | hz
      · rw [hz, Bytes.cmp_swap (key x) (key y), hgt]; rfl
      · exact hs'.1 z hz
    · rename_i hngt
      have hlt : Bytes.cmp (key x) (key y) = .lt := by
        cases h : Bytes.cmp (key x) (key y) with
        | lt => rfl
        | eq => exact absurd ((Bytes.cmp_eq_iff _ _).mp h) (hne y (by simp))
        | gt => exact absurd h (by intro h'; exact hngt h')
      refine List.pairwise_cons.mpr ⟨fun z hz => ?_, hs⟩
      rcases List.mem_cons.mp hz with hz | hz
      · rw [hz]; exact hlt
      · exact bcmp_trans hlt (hs'.1 z hz)

theorem sortOn_sorted {α : Type} (key : α → Bytes) : ∀ l : List α, DistinctOn key l → SortedOn key (sortOn key l)
  | [], _ => List.Pairwise.nil
  | x :: xs, hd => by
    have hd' := List.pairwise_cons.mp hd
    rw [sortOn_cons]
    exact insertOn_sorted key x _ (sortOn_sorted key xs hd'.2) (fun y hy => hd'.1 y ((sortOn_perm key xs).subset hy))

theorem sortOn_sorts {α : Type} (key : α → Bytes) : SortsOn key (sortOn key) :=
  fun l hd => ⟨sortOn_perm key l, sortOn_sorted key l hd⟩

/-! ### 2. lookups -/

theorem mem_of_kvLookup : ∀ (l : List (Bytes × JV)) (k : Bytes) (x : JV), kvLookup k l = some x → (k, x) ∈ l
  | [], _, _, h => by simp [kvLookup] at h
  | (k', v') :: rest, k, x, h => by
    simp only [kvLookup] at h
    split at h
    · rename_i he
      have hk : k = k' := by simpa using he
      cases h
      subst hk
      simp
    · exact List.mem_cons_of_mem _ (mem_of_kvLookup rest k x h)

/-- a traversal order does not change what `m[k]` is -/
theorem kvLookup_perm {l₁ l₂ : List (Bytes × JV)} (hp : l₁.Perm l₂) (hd : Distinct l₁) (k : Bytes) :
    kvLookup k l₁ = kvLookup k l₂ := by
  have hd2 : Distinct l₂ := DistinctOn.of_perm (key := fun kv : Bytes × JV => kv.1) hp hd
  cases h : kvLookup k l₁ with
  | some x =>
    exact (kvLookup_of_mem l₂ k x hd2 (hp.subset (mem_of_kvLookup l₁ k x h))).symm
  | none =>
    cases h2 : kvLookup k l₂ with
    | none => rfl
    | some y =>
      have := kvLookup_of_mem l₁ k y hd (hp.symm.subset (mem_of_kvLookup l₂ k y h2))
      rw [h] at this
      cases this

theorem kvLookup_tail_none {k : Bytes} {v : JV} {rest : List (Bytes × JV)} (h : Sorted ((k, v) :: rest)) :
    kvLookup k rest = none := by
  cases hl : kvLookup k rest with
  | none => rfl
  | some x =>
    have := (List.pairwise_cons.mp h).1 (k, x) (mem_of_kvLookup rest k x hl)
    exact absurd this (bcmp_irrefl k)

/-- two maps (increasing member lists) with the same `m[k]` for every `k` are the same -/
theorem sorted_ext : ∀ (a b : List (Bytes × JV)), Sorted a → Sorted b → (∀ k, kvLookup k a = kvLookup k b) → a = b
  | [], [], _, _, _ => rfl
  | [], (k, v) :: bs, _, _, h => by have := h k; simp [kvLookup] at this
  | (k, v) :: as, [], _, _, h => by have := h k; simp [kvLookup] at this
  | (k, v) :: as, (k', v') :: bs, ha, hb, h => by
    have ha' := List.pairwise_cons.mp ha
    have hb' := List.pairwise_cons.mp hb
    have hk : k = k' := by
      apply Classical.byContradiction
      intro hkk
      have h1 := h k
      have h2 := h k'
      have hkk' : ¬ k' = k := fun e => hkk e.symm
      simp only [kvLookup, beq_self_eq_true, if_true, beq_iff_eq, hkk, hkk', if_false] at h1 h2
      have m1 := mem_of_kvLookup bs k v h1.symm
      have m2 := mem_of_kvLookup as k' v' h2
      exact bcmp_asymm (ha'.1 _ m2) (hb'.1 _ m1)
    subst hk
    have hv : v = v' := by
      have h1 := h k
      simp only [kvLookup, beq_self_eq_true, if_true] at h1
      exact Option.some.inj h1
    subst hv
    have : as = bs := by
      apply sorted_ext as bs ha'.2 hb'.2
      intro j
      by_cases hj : j = k
      · subst hj
        rw [kvLookup_tail_none ha, kvLookup_tail_none hb]
      · have h1 := h j
        simpa only [kvLookup, beq_iff_eq, hj, if_false] using h1
    rw [this]

/-! ### 3. stores at the range key commute -/

/-- one iteration of `for k, v := range src { m[k] = g(k, m[k], v) }` -/
def step (g : Bytes → Option JV → JV → JV) (m : List (Bytes × JV)) (kv : Bytes × JV) : List (Bytes × JV) :=
  kvInsert kv.1 (g kv.1 (kvLookup kv.1 m) kv.2) m

theorem foldAtKey_eq (g : Bytes → Option JV → JV → JV) (m enum : List (Bytes × JV)) :
    foldAtKey g m enum = enum.foldl (step g) m := rfl

theorem step_sorted (g : Bytes → Option JV → JV → JV) (m : List (Bytes × JV)) (kv : Bytes × JV) (hm : Sorted m) :
    Sorted (step g m kv) := kvInsert_sorted _ _ m hm

theorem step_lookup (g : Bytes → Option JV → JV → JV) (m : List (Bytes × JV)) (kv : Bytes × JV) (j : Bytes) :
    kvLookup j (step g m kv) = if j = kv.1 then some (g kv.1 (kvLookup kv.1 m) kv.2) else kvLookup j m := by
  unfold step
  by_cases hj : j = kv.1
  · rw [if_pos hj, hj, Native.kvLookup_kvInsert_self]
  · rw [if_neg hj, Native.kvLookup_kvInsert_ne _ _ _ hj]

theorem step_comm (g : Bytes → Option JV → JV → JV) (m : List (Bytes × JV)) (a b : Bytes × JV) (hm : Sorted m)
    (hne : a.1 ≠ b.1) : step g (step g m a) b = step g (step g m b) a := by
  apply sorted_ext _ _ (step_sorted g _ _ (step_sorted g _ _ hm)) (step_sorted g _ _ (step_sorted g _ _ hm))
  intro j
  have hne' : b.1 ≠ a.1 := fun e => hne e.symm
  rw [step_lookup, step_lookup, step_lookup, step_lookup, step_lookup, step_lookup]
  by_cases hja : j = a.1
  · subst hja
    simp [hne]
  · by_cases hjb : j = b.1
    · subst hjb
      simp [hne']
    · simp [hja, hjb]

/-- the destination after the loop does not depend on the traversal order -/
theorem foldl_step_perm (g : Bytes → Option JV → JV → JV) {l₁ l₂ : List (Bytes × JV)} (hp : l₁.Perm l₂) :
    Distinct l₁ → ∀ m, Sorted m → l₁.foldl (step g) m = l₂.foldl (step g) m := by
  induction hp with
  | nil => intros; rfl
  | cons x _ ih =>
    intro hd m hm
    simp only [List.foldl_cons]
    exact ih (List.pairwise_cons.mp hd).2 _ (step_sorted g m x hm)
  | swap x y l =>
    intro hd m hm
    simp only [List.foldl_cons]
    have hne : y.1 ≠ x.1 := (List.pairwise_cons.mp hd).1 x (by simp)
    rw [step_comm g m y x hm hne]
  | trans p1 _ ih1 ih2 =>
    intro hd m hm
    rw [ih1 hd m hm, ih2 (DistinctOn.of_perm (key := fun kv : Bytes × JV => kv.1) p1 hd) m hm]

theorem foldl_step_sorted (g : Bytes → Option JV → JV → JV) : ∀ (l m : List (Bytes × JV)), Sorted m →
    Sorted (l.foldl (step g) m)
  | [], _, hm => hm
  | x :: xs, m, hm => foldl_step_sorted g xs _ (step_sorted g m x hm)

theorem foldAtKey_perm (g : Bytes → Option JV → JV → JV) (m : List (Bytes × JV)) (hm : Sorted m)
    {enum es : List (Bytes × JV)} (hp : enum.Perm es) (hd : Distinct es) :
    foldAtKey g m enum = foldAtKey g m es := by
  rw [foldAtKey_eq, foldAtKey_eq]
  exact foldl_step_perm g hp (DistinctOn.of_perm (key := fun kv : Bytes × JV => kv.1) hp.symm hd) m hm

theorem foldAtKey_sorted (g : Bytes → Option JV → JV → JV) (m enum : List (Bytes × JV)) (hm : Sorted m) :
    Sorted (foldAtKey g m enum) := foldl_step_sorted g enum m hm

/-- copying a map that is already in model form into the empty map gives it back -/
theorem copyGo_nil_sorted : ∀ (es m : List (Bytes × JV)), Sorted (m ++ es) →
    copyGo m es = m ++ es := by
  intro es
  induction es with
  | nil => intro m _; simp [copyGo, foldAtKey]
  | cons kv rest ih =>
    intro m hs
    have hins : kvInsert kv.1 kv.2 m = m ++ [kv] := by
      clear ih
      induction m with
      | nil => simp [kvInsert]
      | cons p ps ihm =>
        have hs' := List.pairwise_cons.mp hs
        have hlt : Bytes.cmp p.1 kv.1 = .lt := hs'.1 kv (by simp)
        have hgt : Bytes.cmp kv.1 p.1 = .gt := by rw [Bytes.cmp_swap p.1 kv.1, hlt]; rfl
        simp only [kvInsert, hgt, List.cons_append]
        rw [ihm hs'.2]
    have := ih (m ++ [kv]) (by simpa using hs)
    simp only [copyGo, foldAtKey, List.foldl_cons] at this ⊢
    rw [hins, this]
    simp

/-! ### 4. early exit -/

theorem allExit_eq_all {α : Type} (p : α → Bool) : ∀ l : List α, allExit p l = l.all p
  | [] => rfl
  | x :: xs => by
    simp only [allExit, List.all_cons, allExit_eq_all p xs]
    cases p x <;> simp

theorem allExit_perm {α : Type} (p : α → Bool) {l₁ l₂ : List α} (hp : l₁.Perm l₂) : allExit p l₁ = allExit p l₂ := by
  rw [allExit_eq_all, allExit_eq_all]
  exact hp.all_eq

/-! ### 5. the remaining sites -/

theorem firstNonEq_congr (cmpV : JV → JV → Ordering) {l l' r r' : List (Bytes × JV)}
    (h1 : ∀ k, kvLookup k l = kvLookup k l') (h2 : ∀ k, kvLookup k r = kvLookup k r') :
    ∀ ks, firstNonEq cmpV l r ks = firstNonEq cmpV l' r' ks
  | [] => rfl
  | k :: ks => by simp only [firstNonEq, h1, h2, firstNonEq_congr cmpV h1 h2 ks]

/-- `enums[i]` is a traversal order of the map with members `ess[i]`, for every `i` -/
def EnumsOf : List (List (Bytes × JV)) → List (List (Bytes × JV)) → Prop
  | [], [] => True
  | e :: es, s :: ss => e.Perm s ∧ Distinct s ∧ EnumsOf es ss
  | _, _ => False

theorem foldl_copy_perm : ∀ (enums ess : List (List (Bytes × JV))), EnumsOf enums ess →
    ∀ acc, Sorted acc → enums.foldl copyGo acc = ess.foldl copyGo acc
  | [], [], _, _, _ => rfl
  | [], _ :: _, h, _, _ => by simp [EnumsOf] at h
  | _ :: _, [], h, _, _ => by simp [EnumsOf] at h
  | e :: es, s :: ss, h, acc, hacc => by
    simp only [EnumsOf] at h
    simp only [List.foldl_cons]
    rw [show copyGo acc e = copyGo acc s from foldAtKey_perm _ acc hacc h.1 h.2.1]
    exact foldl_copy_perm es ss h.2.2 _ (foldAtKey_sorted _ _ _ hacc)

theorem copyGo_eq_objMerge (m es : List (Bytes × JV)) : copyGo m es = objMerge m es := rfl

theorem deepMerge_eq_fold : ∀ (r l : List (Bytes × JV)),
    deepMerge l r = foldAtKey (fun _ mk v => mergeVal mk v) l r
  | [], l => by simp [deepMerge, foldAtKey]
  | (k, v) :: rest, l => by
    simp only [deepMerge, foldAtKey, List.foldl_cons]
    exact deepMerge_eq_fold rest _

theorem containsKey_eq : ∀ (l : List (Bytes × JV)) (k : Bytes) (rv : JV),
    containsKey l k rv = (match kvLookup k l with
      | none => false
      | some lv => contains lv rv == some true)
  | [], _, _ => by simp [containsKey, kvLookup]
  | (k', lv) :: rest, k, rv => by
    simp only [containsKey, kvLookup]
    split
    · rfl
    · exact containsKey_eq rest k rv

/-- the arity entries of `builtins` are ordered by an antisymmetric comparison -/
theorem builtinLess_anti (a b : Bytes × Nat) (h1 : builtinLess b a = false) (h2 : builtinLess a b = false) : a = b := by
  obtain ⟨n1, i1⟩ := a
  obtain ⟨n2, i2⟩ := b
  simp only [builtinLess, Bool.or_eq_false_iff, Bool.and_eq_false_imp, Bytes.lt, beq_eq_false_iff_ne, ne_eq,
    decide_eq_false_iff_not, beq_iff_eq] at h1 h2
  have hc : Bytes.cmp n1 n2 = .eq := by
    cases h : Bytes.cmp n1 n2 with
    | eq => rfl
    | lt => exact absurd h h2.1
    | gt =>
      have := Bytes.cmp_swap n1 n2
      rw [h] at this
      exact absurd this h1.1
  have hn : n1 = n2 := (Bytes.cmp_eq_iff _ _).mp hc
  subst hn
  have ha := h1.2 rfl
  have hb := h2.2 rfl
  have : i1 = i2 := by omega
  rw [this]

/-- the pair a named argument contributes, when its conversion succeeds -/
def convPair {ε : Type} (conv : Bytes → Bytes → Except ε JV) (kv : Bytes × Bytes) : Option (Bytes × JV) :=
  match conv kv.1 kv.2 with
  | .ok x => some (kv.1, x)
  | .error _ => none

theorem argLoop_ok {ε : Type} (conv : Bytes → Bytes → Except ε JV) :
    ∀ (l : List (Bytes × Bytes)) (acc r : List (Bytes × JV)), argLoopGo conv acc l = .ok r →
      r = acc ++ l.filterMap (convPair conv) ∧ ∀ kv ∈ l, (convPair conv kv).isSome = true
  | [], acc, r, h => by
    simp only [argLoopGo, Except.ok.injEq] at h
    simp [h]
  | (k, v) :: rest, acc, r, h => by
    simp only [argLoopGo] at h
    cases hc : conv k v with
    | error e => rw [hc] at h; cases h
    | ok x =>
      rw [hc] at h
      obtain ⟨h1, h2⟩ := argLoop_ok conv rest _ r h
      have hp : convPair conv (k, v) = some (k, x) := by simp [convPair, hc]
      refine ⟨?_, ?_⟩
      · rw [h1, List.filterMap_cons, hp]; simp
      · intro kv hkv
        rcases List.mem_cons.mp hkv with e | e
        · rw [e, hp]; rfl
        · exact h2 kv e

theorem argLoop_all_ok {ε : Type} (conv : Bytes → Bytes → Except ε JV) :
    ∀ (l : List (Bytes × Bytes)) (acc : List (Bytes × JV)), (∀ kv ∈ l, (convPair conv kv).isSome = true) →
      argLoopGo conv acc l = .ok (acc ++ l.filterMap (convPair conv))
  | [], acc, _ => by simp [argLoopGo]
  | (k, v) :: rest, acc, h => by
    have hkv := h (k, v) (by simp)
    cases hc : conv k v with
    | error e => simp [convPair, hc] at hkv
    | ok x =>
      have hp : convPair conv (k, v) = some (k, x) := by simp [convPair, hc]
      simp only [argLoopGo, hc]
      rw [argLoop_all_ok conv rest _ (fun kv hk => h kv (List.mem_cons_of_mem _ hk)), List.filterMap_cons, hp]
      simp

/-! ### 6. deleteEmpty: keep-or-drop at the range key -/

/-- one iteration of `deleteEmpty`'s loop, as a store into the map being built -/
def stepO (f : JV → Option JV) (m : List (Bytes × JV)) (kv : Bytes × JV) : List (Bytes × JV) :=
  match f kv.2 with
  | some w => kvInsert kv.1 w m
  | none => m

theorem sweepGo_eq (f : JV → Option JV) (enum : List (Bytes × JV)) : sweepGo f enum = enum.foldl (stepO f) [] := rfl

theorem stepO_some (f : JV → Option JV) (m : List (Bytes × JV)) (kv : Bytes × JV) (w : JV) (h : f kv.2 = some w) :
    stepO f m kv = step (fun _ _ v => (f v).getD .null) m kv := by
  simp [stepO, step, h]

theorem stepO_none (f : JV → Option JV) (m : List (Bytes × JV)) (kv : Bytes × JV) (h : f kv.2 = none) :
    stepO f m kv = m := by
  simp [stepO, h]

theorem stepO_sorted (f : JV → Option JV) (m : List (Bytes × JV)) (kv : Bytes × JV) (hm : Sorted m) :
    Sorted (stepO f m kv) := by
  cases h : f kv.2 with
  | none => rw [stepO_none f m kv h]; exact hm
  | some w => rw [stepO_some f m kv w h]; exact step_sorted _ m kv hm

theorem stepO_comm (f : JV → Option JV) (m : List (Bytes × JV)) (a b : Bytes × JV) (hm : Sorted m)
    (hne : a.1 ≠ b.1) : stepO f (stepO f m a) b = stepO f (stepO f m b) a := by
  cases ha : f a.2 with
  | none => rw [stepO_none f m a ha, stepO_none f _ a ha]
  | some wa =>
    cases hb : f b.2 with
    | none => rw [stepO_none f m b hb, stepO_none f _ b hb]
    | some wb =>
      rw [stepO_some f m a wa ha, stepO_some f _ b wb hb, stepO_some f m b wb hb, stepO_some f _ a wa ha]
      exact step_comm _ m a b hm hne

theorem foldl_stepO_perm (f : JV → Option JV) {l₁ l₂ : List (Bytes × JV)} (hp : l₁.Perm l₂) :
    Distinct l₁ → ∀ m, Sorted m → l₁.foldl (stepO f) m = l₂.foldl (stepO f) m := by
  induction hp with
  | nil => intros; rfl
  | cons x _ ih =>
    intro hd m hm
    simp only [List.foldl_cons]
    exact ih (List.pairwise_cons.mp hd).2 _ (stepO_sorted f m x hm)
  | swap x y l =>
    intro hd m hm
    simp only [List.foldl_cons]
    have hne : y.1 ≠ x.1 := (List.pairwise_cons.mp hd).1 x (by simp)
    rw [stepO_comm f m y x hm hne]
  | trans p1 _ ih1 ih2 =>
    intro hd m hm
    rw [ih1 hd m hm, ih2 (DistinctOn.of_perm (key := fun kv : Bytes × JV => kv.1) p1 hd) m hm]

end Gojq.MapEnum

/-
  Helper lemmas for the slice extension of the heap model, part 6: what `delpaths` through slice paths
  deletes (C02 item 3).  A path with slices denotes, in a value `v`, a list of key/index paths
  (`normP p v`: every slice is resolved against the length of the array it cuts, a slice at the end of the
  path denotes all the indices of its range).  Marking a path with slices on a partly marked value is
  marking those key/index paths one by one (`markHS_norm`); marking does not change lengths and keys, so
  every path is resolved as in the ORIGINAL value; hence mark-then-sweep deletes, all at once, the
  positions the paths denote in the original value (`delpathsVS_spec`), whatever their order.
  Core Lean only.
-/
import Gojq.Proofs.HeapSliceDel
namespace Gojq.Heap
open Gojq

/-! ### the key/index paths a path with slices denotes -/

/-- an index path relative to a view that starts at `st`, as a path of the whole array -/
def shiftIdx (st : Nat) : Path → Path
  | .idx i :: q => .idx (i + st) :: q
  | q => q

/-- the key/index paths that `p` denotes in `v`; nothing where the path leaves the value or meets a
    value of the wrong type (the marking pass then marks nothing, or fails) -/
def normP : PathS → JV → List Path
  | [], _ => [[]]
  | e :: p, v =>
    match e, v with
    | .key k, .obj kvs =>
      match kvFind k kvs with
      | some x => (normP p x).map (.key k :: ·)
      | none => []
    | .idx i, .arr xs =>
      match resolve i xs.length with
      | .inr j => (normP p (xs.getD j .null)).map (.idx (j : Nat) :: ·)
      | _ => []
    | .slice s e', .arr xs =>
      if p.isEmpty then
        (List.range ((sliceBounds s e' xs.length).2 - (sliceBounds s e' xs.length).1)).map fun j =>
          [PE.idx (((sliceBounds s e' xs.length).1 + j : Nat) : Int)]
      else (normP p (.arr (sliceV s e' xs))).map (shiftIdx (sliceBounds s e' xs.length).1)
    | _, _ => []

/-- marking key/index paths one by one -/
def markAllH : List Path → HV → Option HV
  | [], v => some v
  | p :: ps, v => (markH p v).bind (markAllH ps)

theorem markAllH_append : ∀ (a b : List Path) (v : HV), markAllH (a ++ b) v = (markAllH a v).bind (markAllH b) := by
  intro a
  induction a with
  | nil => intro b v; rfl
  | cons p ps ih =>
    intro b v
    simp only [List.cons_append, markAllH]
    cases markH p v with
    | none => rfl
    | some v' => simp only [Option.bind_some, ih]

/-! ### a partly marked value has the shape of the original -/

mutual
  /-- `hv` is `v` with some positions replaced by holes -/
  def Shape : HV → JV → Prop
    | .hole, _ => True
    | .arr xs, .arr ys => ShapeA xs ys
    | .obj kvs, .obj kvs0 => ShapeO kvs kvs0
    | .leaf s, v => v = s.toJV
    | _, _ => False
  def ShapeA : List HV → List JV → Prop
    | [], [] => True
    | x :: xs, y :: ys => Shape x y ∧ ShapeA xs ys
    | _, _ => False
  def ShapeO : List (Bytes × HV) → List (Bytes × JV) → Prop
    | [], [] => True
    | (k, x) :: xs, (k', y) :: ys => k = k' ∧ Shape x y ∧ ShapeO xs ys
    | _, _ => False
end

theorem ShapeA_length : ∀ (xs : List HV) (ys : List JV), ShapeA xs ys → xs.length = ys.length
  | [], [], _ => rfl
  | [], _ :: _, h => by simp [ShapeA] at h
  | _ :: _, [], h => by simp [ShapeA] at h
  | x :: xs, y :: ys, h => by simp only [ShapeA] at h; simp [ShapeA_length xs ys h.2]

theorem ShapeA_get : ∀ (xs : List HV) (ys : List JV), ShapeA xs ys → ∀ j x, xs[j]? = some x → Shape x (ys.getD j .null)
  | [], _, _, j, x, hx => by simp at hx
  | _ :: _, [], h, _, _, _ => by simp [ShapeA] at h
  | x0 :: xs, y :: ys, h, j, x, hx => by
    simp only [ShapeA] at h
    cases j with
    | zero => simp only [List.getElem?_cons_zero, Option.some.injEq] at hx; subst hx; simpa [List.getD] using h.1
    | succ j =>
      simp only [List.getElem?_cons_succ] at hx
      have := ShapeA_get xs ys h.2 j x hx
      simpa [List.getD] using this

theorem ShapeA_drop : ∀ (n : Nat) (xs : List HV) (ys : List JV), ShapeA xs ys → ShapeA (xs.drop n) (ys.drop n)
  | 0, _, _, h => h
  | n + 1, [], [], _ => by simp [ShapeA]
  | n + 1, [], _ :: _, h => by simp [ShapeA] at h
  | n + 1, _ :: _, [], h => by simp [ShapeA] at h
  | n + 1, x :: xs, y :: ys, h => by simp only [ShapeA] at h; simpa using ShapeA_drop n xs ys h.2

theorem ShapeA_take : ∀ (n : Nat) (xs : List HV) (ys : List JV), ShapeA xs ys → ShapeA (xs.take n) (ys.take n)
  | 0, _, _, _ => by simp [ShapeA]
  | n + 1, [], [], _ => by simp [ShapeA]
  | n + 1, [], _ :: _, h => by simp [ShapeA] at h
  | n + 1, _ :: _, [], h => by simp [ShapeA] at h
  | n + 1, x :: xs, y :: ys, h => by
    simp only [ShapeA] at h
    simp only [List.take_succ_cons, ShapeA]
    exact ⟨h.1, ShapeA_take n xs ys h.2⟩

/-- the key scans of `splitKeyH` and `kvFind` agree on values of the same shape -/
theorem ShapeO_find (k : Bytes) : ∀ (kvs : List (Bytes × HV)) (kvs0 : List (Bytes × JV)), ShapeO kvs kvs0 →
    ((splitKeyH k kvs).2.1 = none → kvFind k kvs0 = none) ∧
    (∀ x, (splitKeyH k kvs).2.1 = some x → ∃ x0, kvFind k kvs0 = some x0 ∧ Shape x x0)
  | [], [], _ => by simp [splitKeyH, kvFind]
  | [], _ :: _, h => by simp [ShapeO] at h
  | _ :: _, [], h => by simp [ShapeO] at h
  | (k1, x1) :: kvs, (k2, y2) :: kvs0, h => by
    simp only [ShapeO] at h
    obtain ⟨rfl, h1, h2⟩ := h
    simp only [splitKeyH, kvFind]
    cases hc : Bytes.cmp k k1 with
    | lt => simp
    | eq => simp; exact h1
    | gt => simpa using ShapeO_find k kvs kvs0 h2

mutual
  theorem Shape_specB (ps : List Path) : ∀ v : JV, Shape (specB ps v) v
    | .null => by simp [specB, Shape, scOf, Sc.toJV]
    | .bool b => by simp [specB, Shape, scOf, Sc.toJV]
    | .num n => by simp [specB, Shape, scOf, Sc.toJV]
    | .str s => by simp [specB, Shape, scOf, Sc.toJV]
    | .arr xs => by simp only [specB, Shape]; exact ShapeA_specBA ps xs.length 0 xs
    | .obj kvs => by simp only [specB, Shape]; exact ShapeO_specBO ps kvs
  theorem ShapeA_specBA (ps : List Path) (len : Nat) : ∀ (j : Nat) (xs : List JV), ShapeA (specBA ps len j xs) xs
    | _, [] => by simp [specBA, ShapeA]
    | j, x :: xs => by
      simp only [specBA, ShapeA]
      refine ⟨?_, ShapeA_specBA ps len (j + 1) xs⟩
      split
      · simp [Shape]
      · exact Shape_specB _ x
  theorem ShapeO_specBO (ps : List Path) : ∀ (kvs : List (Bytes × JV)), ShapeO (specBO ps kvs) kvs
    | [] => by simp [specBO, ShapeO]
    | (k, x) :: kvs => by
      simp only [specBO, ShapeO]
      refine ⟨trivial, ?_, ShapeO_specBO ps kvs⟩
      split
      · simp [Shape]
      · exact Shape_specB _ x
end

theorem Shape_specH (ps : List Path) (v : JV) : Shape (specH ps v) v := by
  unfold specH
  split
  · simp [Shape]
  · exact Shape_specB ps v

/-! ### marking under a key, under an index, inside a view -/

theorem markAllH_hole : ∀ (qs : List Path), (∀ q ∈ qs, q ≠ []) → markAllH qs .hole = some .hole := by
  intro qs
  induction qs with
  | nil => intro _; rfl
  | cons q qs ih =>
    intro h
    cases q with
    | nil => exact absurd rfl (h [] (by simp))
    | cons e q' =>
      simp only [markAllH, markH, Option.bind_some]
      exact ih (fun q hq => h q (by simp [hq]))

/-- rescanning an object after the value found under `k` was replaced finds the same position -/
theorem splitKeyH_replace (k : Bytes) : ∀ (kvs pre post : List (Bytes × HV)) (x x' : HV),
    splitKeyH k kvs = (pre, some x, post) → splitKeyH k (pre ++ (k, x') :: post) = (pre, some x', post)
  | [], _, _, _, _, h => by simp [splitKeyH] at h
  | (k1, x1) :: rest, pre, post, x, x', h => by
    simp only [splitKeyH] at h
    cases hc : Bytes.cmp k k1 with
    | lt => simp [hc] at h
    | eq =>
      simp only [hc, Prod.mk.injEq, Option.some.injEq] at h
      obtain ⟨rfl, rfl, rfl⟩ := h
      simp [splitKeyH, cmp_refl]
    | gt =>
      simp only [hc, Prod.mk.injEq] at h
      obtain ⟨rfl, h2, h3⟩ := h
      have ih := splitKeyH_replace k rest (splitKeyH k rest).1 post x x' (by rw [← h2, ← h3])
      simp only [List.cons_append, splitKeyH, hc, ih]

theorem markAllH_key (k : Bytes) : ∀ (qs : List Path) (kvs pre post : List (Bytes × HV)) (x : HV),
    splitKeyH k kvs = (pre, some x, post) →
    markAllH (qs.map (PE.key k :: ·)) (.obj kvs) = (markAllH qs x).map fun u => .obj (pre ++ (k, u) :: post) := by
  intro qs
  induction qs with
  | nil =>
    intro kvs pre post x h
    simp only [List.map_nil, markAllH, Option.map_some]
    have := splitKeyH_replace k kvs pre post x x h
    -- the object itself
    have hk : kvs = pre ++ (k, x) :: post := by
      clear this
      induction kvs generalizing pre with
      | nil => simp [splitKeyH] at h
      | cons y ys ihk =>
        obtain ⟨k1, x1⟩ := y
        simp only [splitKeyH] at h
        cases hc : Bytes.cmp k k1 with
        | lt => simp [hc] at h
        | eq =>
          simp only [hc, Prod.mk.injEq, Option.some.injEq] at h
          obtain ⟨rfl, rfl, rfl⟩ := h
          rw [cmp_eq _ _ hc]; rfl
        | gt =>
          simp only [hc, Prod.mk.injEq] at h
          obtain ⟨rfl, h2, h3⟩ := h
          have := ihk (splitKeyH k ys).1 (by rw [← h2, ← h3])
          simp only [List.cons_append]
          rw [← this]
    rw [hk]
  | cons q qs ih =>
    intro kvs pre post x h
    simp only [List.map_cons, markAllH, markH, h]
    cases hq : markH q x with
    | none => simp
    | some u =>
      simp only [Option.map_some, Option.bind_some]
      exact ih _ pre post u (splitKeyH_replace k kvs pre post x u h)

theorem resolve_nat (j len : Nat) (h : j < len) : resolve (j : Int) len = .inr j := by
  unfold resolve
  have h1 : ¬ ((j : Int) < 0) := by omega
  have h2 : (j : Int) < (len : Int) := by omega
  simp [h1, h2]

theorem set_self {α : Type} (xs : List α) (j : Nat) (x : α) (h : xs[j]? = some x) : xs.set j x = xs := by
  apply List.ext_getElem?
  intro m
  by_cases hjm : j = m
  · subst hjm
    have hj : j < xs.length := by
      rcases Nat.lt_or_ge j xs.length with h1 | h1
      · exact h1
      · simp [List.getElem?_eq_none h1] at h
    rw [List.getElem?_eq_getElem hj] at h
    simp only [Option.some.injEq] at h
    simp [hj, h]
  · simp [hjm]

theorem markAllH_idx (j : Nat) : ∀ (qs : List Path) (xs : List HV) (x : HV), xs[j]? = some x →
    markAllH (qs.map (PE.idx (j : Nat) :: ·)) (.arr xs) = (markAllH qs x).map fun u => .arr (xs.set j u) := by
  intro qs
  induction qs with
  | nil =>
    intro xs x h
    simp only [List.map_nil, markAllH, Option.map_some, Option.some.injEq, HV.arr.injEq]
    exact (set_self xs j x h).symm
  | cons q qs ih =>
    intro xs x h
    have hj : j < xs.length := by
      rcases Nat.lt_or_ge j xs.length with h1 | h1
      · exact h1
      · simp [List.getElem?_eq_none h1] at h
    simp only [List.map_cons, markAllH, markH, resolve_nat j xs.length hj, h]
    cases hq : markH q x with
    | none => simp
    | some u =>
      simp only [Option.map_some, Option.bind_some]
      rw [ih (xs.set j u) u (by simp [hj])]
      simp [List.set_set]

theorem get_mid {α : Type} (pre mid post : List α) (j : Nat) (hj : j < mid.length) :
    (pre ++ mid ++ post)[pre.length + j]? = mid[j]? := by
  rw [List.append_assoc, List.getElem?_append_right (by omega)]
  simp only [Nat.add_sub_cancel_left]
  rw [List.getElem?_append_left hj]

theorem set_mid {α : Type} (pre mid post : List α) (j : Nat) (u : α) (hj : j < mid.length) :
    (pre ++ mid ++ post).set (pre.length + j) u = pre ++ mid.set j u ++ post := by
  rw [List.append_assoc, List.set_append_right _ _ (by omega)]
  simp only [Nat.add_sub_cancel_left]
  rw [List.set_append_left _ _ hj, List.append_assoc]

/-- every path starts with a non-negative index below `n` -/
def Heads (n : Nat) (qs : List Path) : Prop := ∀ q ∈ qs, ∃ (j : Nat) (q' : Path), q = PE.idx (j : Nat) :: q' ∧ j < n

theorem markAllH_view : ∀ (qs : List Path) (pre mid post : List HV), Heads mid.length qs →
    markAllH (qs.map (shiftIdx pre.length)) (.arr (pre ++ mid ++ post)) =
      (markAllH qs (.arr mid)).bind fun r => match r with
        | .arr us => some (.arr (pre ++ us ++ post))
        | _ => none := by
  intro qs
  induction qs with
  | nil => intro pre mid post _; rfl
  | cons q qs ih =>
    intro pre mid post hh
    obtain ⟨j, q', rfl, hj⟩ := hh q (by simp)
    have hcast : ((j : Nat) : Int) + ((pre.length : Nat) : Int) = ((pre.length + j : Nat) : Int) := by omega
    have hlen : pre.length + j < (pre ++ mid ++ post).length := by simp; omega
    simp only [List.map_cons, shiftIdx, markAllH, markH, hcast, resolve_nat _ _ hlen, resolve_nat j mid.length hj,
      get_mid pre mid post j hj]
    have hx : mid[j]? = some mid[j] := List.getElem?_eq_getElem hj
    simp only [hx]
    cases hq : markH q' mid[j] with
    | none => simp
    | some u =>
      simp only [Option.map_some, Option.bind_some, set_mid pre mid post j u hj]
      exact ih pre (mid.set j u) post (by
        intro q hq'
        obtain ⟨j', q'', h1, h2⟩ := hh q (by simp [hq'])
        exact ⟨j', q'', h1, by simpa using h2⟩)

theorem markAllH_range : ∀ (mid pre post : List HV),
    markAllH ((List.range mid.length).map fun j => [PE.idx ((pre.length + j : Nat) : Int)]) (.arr (pre ++ mid ++ post)) =
      some (.arr (pre ++ mid.map (fun _ => HV.hole) ++ post)) := by
  intro mid
  induction mid with
  | nil => intro pre post; rfl
  | cons x m ih =>
    intro pre post
    have hlen : pre.length + 0 < (pre ++ (x :: m) ++ post).length := by simp
    have hget : (pre ++ (x :: m) ++ post)[pre.length + 0]? = some x := by
      rw [get_mid pre (x :: m) post 0 (by simp)]; rfl
    simp only [List.length_cons, List.range_succ_eq_map, List.map_cons, List.map_map, markAllH, markH,
      resolve_nat _ _ hlen, hget, Option.map_some, Option.bind_some, set_mid pre (x :: m) post 0 HV.hole (by simp),
      List.set_cons_zero]
    have := ih (pre ++ [HV.hole]) post
    simp only [List.length_append, List.length_singleton] at this
    have hfun : ((fun j => [PE.idx ((pre.length + j : Nat) : Int)]) ∘ Nat.succ) =
        fun j => [PE.idx ((pre.length + 1 + j : Nat) : Int)] := by
      funext j; simp only [Function.comp, Nat.succ_eq_add_one]; congr 3; omega
    rw [hfun]
    simp only [List.append_assoc, List.singleton_append, List.map_cons] at this ⊢
    exact this

/-! ### the paths `normP` yields -/

theorem sliceV_length (s e : Option Int) (xs : List JV) :
    (sliceV s e xs).length = (sliceBounds s e xs.length).2 - (sliceBounds s e xs.length).1 := by
  have := sliceBounds_le s e xs.length
  simp only [sliceV, List.length_take, List.length_drop]
  omega

theorem normP_heads : ∀ (p : PathS) (xs : List JV), p ≠ [] → Heads xs.length (normP p (.arr xs)) := by
  intro p
  induction p with
  | nil => intro xs h; exact absurd rfl h
  | cons e p ih =>
    intro xs _ q hq
    cases e with
    | key k => simp [normP] at hq
    | idx i =>
      simp only [normP] at hq
      split at hq
      · rename_i j hr
        simp only [List.mem_map] at hq
        obtain ⟨q', _, rfl⟩ := hq
        exact ⟨j, q', rfl, (resolve_inr hr).1⟩
      · simp at hq
    | slice s e' =>
      have hb := sliceBounds_le s e' xs.length
      simp only [normP] at hq
      split at hq
      · simp only [List.mem_map, List.mem_range] at hq
        obtain ⟨j, hj, rfl⟩ := hq
        exact ⟨_, [], rfl, by omega⟩
      · rename_i hp
        simp only [List.mem_map] at hq
        obtain ⟨q0, hq0, rfl⟩ := hq
        obtain ⟨j, q', rfl, hj⟩ := ih (sliceV s e' xs) (by intro h; simp [h] at hp) q0 hq0
        rw [sliceV_length] at hj
        refine ⟨j + (sliceBounds s e' xs.length).1, q', ?_, by omega⟩
        simp only [shiftIdx, List.cons.injEq, PE.idx.injEq, and_true]
        omega

theorem normP_ne_nil (e : PES) (p : PathS) (v : JV) : ∀ q ∈ normP (e :: p) v, q ≠ [] := by
  intro q hq
  cases e with
  | key k =>
    cases v <;> simp only [normP, List.not_mem_nil] at hq
    split at hq
    · simp only [List.mem_map] at hq; obtain ⟨_, _, rfl⟩ := hq; simp
    · simp at hq
  | idx i =>
    cases v <;> simp only [normP, List.not_mem_nil] at hq
    split at hq
    · simp only [List.mem_map] at hq; obtain ⟨_, _, rfl⟩ := hq; simp
    · simp at hq
  | slice s e' =>
    cases v with
    | arr xs =>
      obtain ⟨j, q', rfl, _⟩ := normP_heads (.slice s e' :: p) xs (by simp) q hq
      simp
    | _ => simp [normP] at hq

theorem normP_arr_nil : ∀ (p : PathS), p ≠ [] → normP p (.arr []) = [] := by
  intro p hp
  have := normP_heads p [] hp
  cases hn : normP p (.arr []) with
  | nil => rfl
  | cons q qs =>
    obtain ⟨j, _, _, hj⟩ := this q (by rw [hn]; simp)
    simp at hj

/-! ### marking a path with slices is marking the key/index paths it denotes -/

theorem markHS_arr_hole (p : PathS) (xs : List HV) (h : markHS p (.arr xs) = some .hole) : p = [] := by
  cases p with
  | nil => rfl
  | cons e p =>
    exfalso
    cases e with
    | key k => simp [markHS] at h
    | idx i =>
      simp only [markHS] at h
      split at h
      · split at h
        · simp only [Option.map_eq_some_iff] at h; obtain ⟨_, _, h2⟩ := h; cases h2
        · cases h
      · cases h
    | slice s e' =>
      simp only [markHS] at h
      split at h
      · cases h
      · split at h <;> cases h

theorem markHS_norm : ∀ (p : PathS) (hv : HV) (v0 : JV) (h' : HV), Shape hv v0 →
    markHS p hv = some h' → markAllH (normP p v0) hv = some h' := by
  intro p
  induction p with
  | nil =>
    intro hv v0 h' _ hm
    simp only [markHS, Option.some.injEq] at hm
    subst hm
    simp [normP, markAllH, markH]
  | cons e p ih =>
    intro hv v0 h' hs hm
    -- a hole stays a hole
    by_cases hh : hv = .hole
    · subst hh
      have : h' = .hole := by cases e <;> simpa [markHS] using hm.symm
      subst this
      exact markAllH_hole _ (normP_ne_nil e p v0)
    cases e with
    | key k =>
      cases hv with
      | hole => exact absurd rfl hh
      | arr xs => simp [markHS] at hm
      | leaf sc =>
        cases sc <;> simp only [markHS, Option.some.injEq, reduceCtorEq] at hm
        subst hm
        simp only [Shape, Sc.toJV] at hs
        subst hs
        simp [normP, markAllH]
      | obj kvs =>
        cases v0 <;> simp only [Shape] at hs
        rename_i kvs0
        simp only [markHS] at hm
        rcases hsp : splitKeyH k kvs with ⟨pre, ox, post⟩
        have hf := ShapeO_find k kvs kvs0 hs
        rw [hsp] at hf hm
        cases ox with
        | none =>
          simp only [Option.some.injEq] at hm
          subst hm
          simp [normP, hf.1 rfl, markAllH]
        | some x =>
          obtain ⟨x0, hx0, hsx⟩ := hf.2 x rfl
          simp only [Option.map_eq_some_iff] at hm
          obtain ⟨u, hu, rfl⟩ := hm
          simp only [normP, hx0]
          rw [markAllH_key k _ kvs pre post x hsp, ih x x0 u hsx hu]
          rfl
    | idx i =>
      cases hv with
      | hole => exact absurd rfl hh
      | obj kvs => simp [markHS] at hm
      | leaf sc =>
        cases sc <;> simp only [markHS, Option.some.injEq, reduceCtorEq] at hm
        subst hm
        simp only [Shape, Sc.toJV] at hs
        subst hs
        simp [normP, markAllH]
      | arr xs =>
        cases v0 <;> simp only [Shape] at hs
        rename_i ys
        have hlen := ShapeA_length xs ys hs
        simp only [markHS] at hm
        simp only [normP, ← hlen]
        cases hr : resolve i xs.length with
        | neg => simp only [hr, Option.some.injEq] at hm; subst hm; rfl
        | beyond b => simp only [hr, Option.some.injEq] at hm; subst hm; rfl
        | inr j =>
          simp only [hr] at hm
          have hj := (resolve_inr hr).1
          have hx : xs[j]? = some xs[j] := List.getElem?_eq_getElem hj
          simp only [hx, Option.map_eq_some_iff] at hm
          obtain ⟨u, hu, rfl⟩ := hm
          simp only []
          rw [markAllH_idx j _ xs xs[j] hx, ih xs[j] _ u (ShapeA_get xs ys hs j xs[j] hx) hu]
          rfl
    | slice s e' =>
      cases hv with
      | hole => exact absurd rfl hh
      | obj kvs => simp [markHS] at hm
      | leaf sc =>
        cases sc <;> simp only [markHS, Option.some.injEq, reduceCtorEq] at hm
        subst hm
        simp only [Shape, Sc.toJV] at hs
        subst hs
        simp [normP, markAllH]
      | arr xs =>
        cases v0 <;> simp only [Shape] at hs
        rename_i ys
        have hlen := ShapeA_length xs ys hs
        have hb := sliceBounds_le s e' xs.length
        simp only [markHS] at hm
        simp only [normP, ← hlen]
        -- the three parts of the array
        have hparts := take_mid_drop xs (sliceBounds s e' xs.length).1 (sliceBounds s e' xs.length).2 hb.1
        have hprelen : (xs.take (sliceBounds s e' xs.length).1).length = (sliceBounds s e' xs.length).1 := by
          simp only [List.length_take]; omega
        have hmidlen : ((xs.drop (sliceBounds s e' xs.length).1).take ((sliceBounds s e' xs.length).2 - (sliceBounds s e' xs.length).1)).length =
            (sliceBounds s e' xs.length).2 - (sliceBounds s e' xs.length).1 := by
          simp only [List.length_take, List.length_drop]; omega
        have hsmid : ShapeA ((xs.drop (sliceBounds s e' xs.length).1).take ((sliceBounds s e' xs.length).2 - (sliceBounds s e' xs.length).1))
            (sliceV s e' ys) := by
          simp only [sliceV, ← hlen]
          exact ShapeA_take _ _ _ (ShapeA_drop _ _ _ hs)
        split at hm
        · -- an empty range: nothing is marked
          rename_i hemp
          simp only [Option.some.injEq] at hm
          subst hm
          have h0 : (sliceBounds s e' xs.length).2 - (sliceBounds s e' xs.length).1 = 0 := by
            have := hmidlen
            rw [List.isEmpty_iff.mp hemp] at this
            simpa using this.symm
          split
          · simp [h0, markAllH]
          · rename_i hp
            have hv0 : sliceV s e' ys = [] := by
              apply List.eq_nil_of_length_eq_zero
              rw [sliceV_length, ← hlen]; exact h0
            rw [hv0, normP_arr_nil p (by intro h; simp [h] at hp)]
            rfl
        · rename_i hne
          split at hm
          · -- the marked view is an array
            rename_i us hus
            simp only [Option.some.injEq] at hm
            subst hm
            have hp : p ≠ [] := by
              intro h
              subst h
              simp [markHS] at hus
            have hpe : p.isEmpty = false := by
              cases p with
              | nil => exact absurd rfl hp
              | cons _ _ => rfl
            simp only [hpe, Bool.false_eq_true, if_false]
            have hrec := ih _ (.arr (sliceV s e' ys)) _ (by simpa [Shape] using hsmid) hus
            have hheads := normP_heads p (sliceV s e' ys) hp
            rw [sliceV_length, ← hlen, ← hmidlen] at hheads
            have hv := markAllH_view _ (xs.take (sliceBounds s e' xs.length).1) _ (xs.drop (sliceBounds s e' xs.length).2) hheads
            rw [hprelen, ← hparts, hrec] at hv
            exact hv
          · -- the path ended at the slice: the whole range is marked
            rename_i hus
            simp only [Option.some.injEq] at hm
            subst hm
            have hp : p = [] := markHS_arr_hole p _ hus
            subst hp
            simp only [List.isEmpty_nil, if_true]
            have hr := markAllH_range ((xs.drop (sliceBounds s e' xs.length).1).take ((sliceBounds s e' xs.length).2 - (sliceBounds s e' xs.length).1))
              (xs.take (sliceBounds s e' xs.length).1) (xs.drop (sliceBounds s e' xs.length).2)
            rw [hprelen, hmidlen, ← hparts] at hr
            exact hr
          · cases hm

/-! ### mark-then-sweep deletes the positions the paths denote in the original value -/

theorem markAllH_specH (v0 : JV) (hwf : JV.wf v0 = true) : ∀ (qs done : List Path) (h' : HV),
    markAllH qs (specH done v0) = some h' → h' = specH (done ++ qs) v0 := by
  intro qs
  induction qs with
  | nil => intro done h' hm; simp only [markAllH, Option.some.injEq] at hm; subst hm; simp
  | cons q qs ih =>
    intro done h' hm
    simp only [markAllH, Option.bind_eq_some_iff] at hm
    obtain ⟨h1, hq, hm⟩ := hm
    have := markH_specH q done v0 h1 hwf hq
    subst this
    have := ih (done ++ [q]) h' hm
    simpa [List.append_assoc] using this

theorem markAllHS_spec (v0 : JV) (hwf : JV.wf v0 = true) : ∀ (ps : List PathS) (done : List Path) (h' : HV),
    markAllHS ps (specH done v0) = some h' → h' = specH (done ++ ps.flatMap (normP · v0)) v0 := by
  intro ps
  induction ps with
  | nil => intro done h' hm; simp only [markAllHS, Option.some.injEq] at hm; subst hm; simp
  | cons p ps ih =>
    intro done h' hm
    simp only [markAllHS] at hm
    split at hm
    · cases hm
    · rename_i h1 hp
      have hn := markHS_norm p (specH done v0) v0 h1 (Shape_specH done v0) hp
      have := markAllH_specH v0 hwf (normP p v0) done h1 hn
      subst this
      have := ih (done ++ normP p v0) h' hm
      simpa [List.flatMap_cons, List.append_assoc] using this

/-- **what `delpaths` through slice paths deletes**: whenever mark-then-sweep succeeds, it removes — all
    at once — exactly the positions that the paths denote in the ORIGINAL value -/
theorem delpathsVS_spec (ps : List PathS) (w z : JV) (hwf : JV.wf w = true) (h : delpathsVS ps w = some z) :
    z = delpaths (ps.flatMap (normP · w)) w := by
  unfold delpathsVS at h
  split at h
  · rename_i hemp
    simp only [Option.some.injEq] at h
    have : ps = [] := by cases ps <;> simp_all
    subst this h
    simp [delpaths, delv_nil]
  · simp only [Option.map_eq_some_iff] at h
    obtain ⟨h', hm, rfl⟩ := h
    have := markAllHS_spec w hwf ps [] h' (by simpa [specH] using hm)
    simp only [List.nil_append] at this
    rw [this, sweepV_specH]

end Gojq.Heap

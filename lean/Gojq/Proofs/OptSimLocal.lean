/-
  Locality of one turn of the loop of `Next` (Model/VM.lean): a turn reads the code only at the
  current pc (and its length), consults the oracle only at the current poll, and does not depend
  on the poll counter otherwise.  `VM.step` factors through `stepE` (Model/OptVM.lean).
-/
import Gojq.Model.OptVM
import Gojq.Proofs.VM
set_option linter.unusedSimpArgs false
set_option linter.unusedVariables false
namespace Gojq.OptVM
open Gojq Gojq.VM

theorem unwind_eq_unwindE (P : Params) (l : L) (s : St) :
    unwind P l s = (unwindE P.code.size l s.env).toStep s.polls := by
  unfold unwind unwindE finish
  cases hf : s.env.forks with
  | nil =>
    simp only
    cases he : l.err with
    | none => rfl
    | some er => rfl
  | cons f rest => rfl

/-- `VM.step` at a poll that is not cancelled = `stepE` on the environment, plus poll counting -/
theorem step_eq_stepE (P : Params) (l : L) (s : St) (hc : P.cancelled s.polls = false) :
    step P l s = (stepE P.code (P.ext s.polls) l s.env).toStep
      (if 0 ≤ l.pc ∧ l.pc < P.code.size then s.polls + 1 else s.polls) := by
  unfold step stepE
  by_cases h1 : l.pc < P.code.size
  · by_cases h0 : l.pc < 0
    · have hn : ¬ (0 ≤ l.pc ∧ l.pc < P.code.size) := fun h => absurd h.1 (Int.not_le.mpr h0)
      rw [if_neg hn]
      simp only [h1, h0, if_true]
      rfl
    · have hr : 0 ≤ l.pc ∧ l.pc < P.code.size := ⟨Int.not_lt.mp h0, h1⟩
      rw [if_pos hr]
      simp only [h1, h0, hc, if_true, if_false, Bool.false_eq_true]
      cases hex : exec (P.code.getD l.pc.toNat .bad) (P.ext s.polls) l s.env with
      | panic site => rfl
      | stuck why => rfl
      | ok r e' =>
        obtain ⟨ctl, l'⟩ := r
        cases ctl with
        | fall => rfl
        | jump => rfl
        | ret v => rfl
        | brk => simp only; rw [unwind_eq_unwindE]
  · have hn : ¬ (0 ≤ l.pc ∧ l.pc < P.code.size) := fun h => h1 h.2
    rw [if_neg hn]
    simp only [h1, if_false]
    rw [unwind_eq_unwindE]

/-- `stepE` reads the code only at the current pc (and its length) -/
theorem stepE_local (c d : Array Instr) (x : ExtRec) (l : L) (e : Env) (hsize : c.size = d.size)
    (hat : c.getD l.pc.toNat .bad = d.getD l.pc.toNat .bad) : stepE c x l e = stepE d x l e := by
  unfold stepE
  rw [hsize, hat]

/-- instructions outside `usesExt` do not look at the oracle record -/
theorem exec_ext_irrelevant (ins : Instr) (h : usesExt ins = false) (x y : ExtRec) (l : L) :
    exec ins x l = exec ins y l := by
  cases ins <;> first | rfl | (simp [usesExt] at h)

theorem stepE_ext_irrelevant (c : Array Instr) (x y : ExtRec) (l : L) (e : Env)
    (h : usesExt (c.getD l.pc.toNat .bad) = false) : stepE c x l e = stepE c y l e := by
  unfold stepE
  rw [exec_ext_irrelevant _ h x y]

/-- the key locality lemma on `VM.step` itself: if two codes of the same length agree at the
    current pc and the two oracles agree at the current poll, one turn from the same state gives
    the same result -/
theorem step_local (P Q : Params) (l : L) (s : St) (hsize : P.code.size = Q.code.size)
    (hat : P.code.getD l.pc.toNat .bad = Q.code.getD l.pc.toNat .bad)
    (hext : P.ext s.polls = Q.ext s.polls) (hc : P.cancelled s.polls = Q.cancelled s.polls) :
    step P l s = step Q l s := by
  unfold step unwind finish
  rw [hsize, hat, hext, hc]

/-- `stepC` through `stepE` -/
theorem stepC_eq (code : Array Instr) (ext : Nat → ExtRec) (l : L) (s : St) :
    stepC code ext l s = (stepE code (ext s.polls) l s.env).toStep (s.polls + tickAt code l) := by
  unfold stepC
  rw [step_eq_stepE _ _ _ rfl]
  cases stepE code (ext s.polls) l s.env <;> rfl

theorem loopC_zero (code : Array Instr) (ext : Nat → ExtRec) (l : L) (s : St) :
    loopC code ext 0 l s =
      match stepC code ext l s with
      | .fin o s' => (o, s')
      | .cont l' s' => (.outOfFuel, s'.save l'.pc) := by
  rw [loopC]; rfl

theorem loopC_succ (code : Array Instr) (ext : Nat → ExtRec) (n : Nat) (l : L) (s : St) :
    loopC code ext (n + 1) l s =
      match stepC code ext l s with
      | .fin o s' => (o, s')
      | .cont l' s' => loopC code ext n l' s' := by
  rw [loopC]; rfl

/-- a call that ended properly ends the same way with more fuel -/
theorem loopC_fuel_mono (code : Array Instr) (ext : Nat → ExtRec) : ∀ (n : Nat) (l : L) (s : St),
    (loopC code ext n l s).1 ≠ .outOfFuel → loopC code ext (n + 1) l s = loopC code ext n l s := by
  intro n
  induction n with
  | zero =>
    intro l s h
    rw [loopC_zero] at h
    rw [loopC_succ, loopC_zero]
    cases hs : stepC code ext l s with
    | fin o s' => rfl
    | cont l' s' => rw [hs] at h; simp at h
  | succ n ih =>
    intro l s h
    rw [loopC_succ] at h
    rw [loopC_succ, loopC_succ]
    cases hs : stepC code ext l s with
    | fin o s' => rfl
    | cont l' s' => rw [hs] at h; exact ih l' s' h

theorem loopC_fuel_le (code : Array Instr) (ext : Nat → ExtRec) (n m : Nat) (hnm : n ≤ m) (l : L) (s : St)
    (h : (loopC code ext n l s).1 ≠ .outOfFuel) : loopC code ext m l s = loopC code ext n l s := by
  induction m with
  | zero => have : n = 0 := by omega
            subst this; rfl
  | succ m ih =>
    by_cases hn : n = m + 1
    · subst hn; rfl
    · have hle : n ≤ m := by omega
      have := ih hle
      rw [← this] at h
      rw [loopC_fuel_mono code ext m l s h, this]

end Gojq.OptVM

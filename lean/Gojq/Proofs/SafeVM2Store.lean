/-
  C08 (bytecode checker, layer 2): writing a variable slot of the current frame keeps every claim of
  the invariant that claims at most the stable kind of that slot.
-/
import Gojq.Proofs.SafeVM2Exec5
set_option linter.unusedSimpArgs false
set_option linter.unusedVariables false
namespace Gojq.SafeVM
open Gojq Gojq.VM

variable {S : SC} {Ct : Cert}

/-- the hypotheses of `Good.store`, bundled -/
structure StoreCtx (S : SC) (Ct : Cert) (d : Array (Block Scope)) (vs : Array V) (M jt i0 : Int) (sct : Scope) (w : V)
    (qw : Nat) : Prop where
  hbt : blockAt d jt = some sct
  hq : qw = (sct.offset + i0).toNat
  hdis : ∀ (j : Int) (sc : Scope) (i : Int) (nv : Nat), j ≤ M → blockAt d j = some sc → 0 ≤ i →
    S.tab.lookup sc.id = some nv → i < nv → ¬ (j = jt ∧ i = i0) → (sc.offset + i).toNat ≠ qw
  hw : Ct.stabOf (sct.id, i0) ≠ .any → Good S Ct d vs (.g (Ct.stabOf (sct.id, i0)) w (jt - 1))
  hlt : qw < vs.size

theorem StoreCtx.good {d vs M jt i0 sct w qw} (c : StoreCtx S Ct d vs M jt i0 sct w qw) {q : J}
    (h : Good S Ct d vs q) (hb : q.bnd ≤ M) (hs : q.stabAt Ct jt sct.id i0) :
    Good S Ct d (vs.setIfInBounds qw w) q :=
  Good.store c.hbt c.hq c.hdis c.hw c.hlt h hb hs

theorem StoreCtx.kok {d vs M jt i0 sct w qw} (c : StoreCtx S Ct d vs M jt i0 sct w qw) {k : Kind} {v : V} {j : Int}
    (hj : j ≤ M) (h : KOK S Ct d vs k v j) : KOK S Ct d (vs.setIfInBounds qw w) k v j := by
  unfold KOK at *
  cases k with
  | any => trivial
  | arr => exact c.good h (by simp only [J.bnd]; omega) trivial
  | clo => exact c.good h (by simp only [J.bnd]; omega) trivial
  | cloL => exact c.good h (by simp only [J.bnd]; omega) trivial

theorem StoreCtx.stackCl {d vs M jt i0 sct w qw} (c : StoreCtx S Ct d vs M jt i0 sct w qw) {j : Int} {ks stk}
    (hj : j ≤ M) (h : StackCl S Ct d vs j ks stk) : StackCl S Ct d (vs.setIfInBounds qw w) j ks stk := by
  intro n k hk hne
  obtain ⟨p, hp, hg⟩ := h n k hk hne
  exact ⟨p, hp, c.kok hj hg⟩

/-- slot claims of a frame: either another frame / another slot, or the stable kind -/
theorem StoreCtx.slotCl {d vs M jt i0 sct w qw} (c : StoreCtx S Ct d vs M jt i0 sct w qw) {j : Int} {sc : Scope} {sl}
    (hj : j ≤ M) (hst : j = jt → ∀ (i : Nat) (k : Kind), sl[i]? = some k → k ≠ .any → (i : Int) = i0 → k = Ct.stabOf (sct.id, i0))
    (h : SlotCl S Ct d vs j sc sl) : SlotCl S Ct d (vs.setIfInBounds qw w) j sc sl := by
  intro i k hk hne
  refine c.good (h i k hk hne) (by simp only [J.bnd]; omega) ?_
  intro hjj hii
  exact hst hjj i k hk hne hii

theorem StoreCtx.slotCl_stable {d vs M jt i0 sct w qw} (c : StoreCtx S Ct d vs M jt i0 sct w qw) {j : Int} {sc : Scope} {sl}
    (hj : j ≤ M) (hb : blockAt d j = some sc) (hst : StableSl Ct sc.id sl)
    (h : SlotCl S Ct d vs j sc sl) : SlotCl S Ct d (vs.setIfInBounds qw w) j sc sl := by
  refine c.slotCl hj ?_ h
  intro hjj i k hk hne hii
  subst hjj
  have : sc = sct := by rw [c.hbt] at hb; exact (Option.some.inj hb).symm
  subst this
  rcases hst i k hk with h | h
  · exact absurd h hne
  · rw [h, hii]

theorem StoreCtx.susp {d vs M jt i0 sct w qw} (c : StoreCtx S Ct d vs M jt i0 sct w qw) :
    ∀ {r : Int} {frames : List (Int × Scope)}, (∀ p ∈ frames, p.1 ≤ M ∧ blockAt d p.1 = some p.2) →
    Susp S Ct d vs r frames → Susp S Ct d (vs.setIfInBounds qw w) r frames
  | _, [], _, _ => trivial
  | r, (j, sc) :: rest, hle, h => by
    obtain ⟨a2, h1, h2, h3, h4, h5⟩ := h
    have := hle (j, sc) (by simp)
    exact ⟨a2, h1, h2, h3, c.slotCl_stable this.1 this.2 h3.1 h4,
      StoreCtx.susp c (fun p hp => hle p (by simp [hp])) h5⟩

theorem StoreCtx.fcur {d vs M jt i0 sct w qw} (c : StoreCtx S Ct d vs M jt i0 sct w qw) {a2 : Abs2} {frames}
    (hle : ∀ p ∈ frames, p.1 ≤ M ∧ blockAt d p.1 = some p.2) (h : FCur S Ct d vs a2 frames) :
    FCur S Ct d (vs.setIfInBounds qw w) a2 frames := by
  obtain ⟨j, sc, rest, rfl, h2, h3, h4⟩ := h
  have := hle (j, sc) (by simp)
  exact ⟨j, sc, rest, rfl, h2, c.slotCl_stable this.1 this.2 (StableSl.resume _ _) h3,
    c.susp (fun p hp => hle p (by simp [hp])) h4⟩

theorem StoreCtx.bconf2 {d vs M jt i0 sct w qw} (c : StoreCtx S Ct d vs M jt i0 sct w qw) {pc : Int} {frames}
    (hle : ∀ p ∈ frames, p.1 ≤ M ∧ blockAt d p.1 = some p.2) (h : BConf2 S Ct d vs pc frames) :
    BConf2 S Ct d (vs.setIfInBounds qw w) pc frames := by
  unfold BConf2 at *
  split
  all_goals (rename_i hc; simp only [hc] at h)
  · obtain ⟨a2, h1, h2⟩ := h; exact ⟨a2, h1, c.fcur hle h2⟩
  · obtain ⟨a2, h1, h2⟩ := h; exact ⟨a2, h1, c.fcur hle h2⟩
  · obtain ⟨a2, h1, h2⟩ := h; exact ⟨a2, h1, c.fcur hle h2⟩
  · obtain ⟨a2, h1, h2⟩ := h; exact ⟨a2, h1, c.fcur hle h2⟩
  · trivial

theorem StoreCtx.forks {d vs M jt i0 sct w qw} (c : StoreCtx S Ct d vs M jt i0 sct w qw) {fs : List FView}
    (hle : ∀ f ∈ fs, ∀ p ∈ f.frames, p.1 ≤ M ∧ blockAt d p.1 = some p.2) (h : ForksConf2 S Ct d vs fs) :
    ForksConf2 S Ct d (vs.setIfInBounds qw w) fs :=
  fun f hf => c.bconf2 (hle f hf) (h f hf)

/-- the region facts after the write -/
theorem StoreCtx.reg {e : Env} {jt i0 sct w qw} (c : StoreCtx S Ct e.scopes.data e.values (Rg e.scopes) jt i0 sct w qw)
    (R : RegInv S Ct e) : RegInv S Ct { e with values := e.values.setIfInBounds qw w } := by
  refine ⟨?_, R.o1, R.o2, R.o3⟩
  intro j h0 hj
  have hj' : j ≤ Rg e.scopes := hj
  obtain ⟨sc, hb, h1, h2, hg⟩ := R.reg j h0 hj'
  exact ⟨sc, hb, h1, h2, c.good hg (by simp only [J.bnd]; omega) trivial⟩

/-- the store context of a slot of the current frame -/
theorem storeCtx_of {e : Env} {A : AView} (hV : View e A) (G : GInv S e) (R : RegInv S Ct e) {jt : Int} {sct : Scope}
    {rest : List (Int × Scope)} (hfr : A.frames = (jt, sct) :: rest) {i0 : Int} {nv : Nat} (h0 : 0 ≤ i0)
    (hnv : S.tab.lookup sct.id = some nv) (hi : i0 < nv) {w : V}
    (hw : Ct.stabOf (sct.id, i0) ≠ .any → Good S Ct e.scopes.data e.values (.g (Ct.stabOf (sct.id, i0)) w (jt - 1))) :
    StoreCtx S Ct e.scopes.data e.values (Rg e.scopes) jt i0 sct w (sct.offset + i0).toNat := by
  have hmem := hV.frames_le (jt, sct) (by rw [hfr]; simp)
  have hjR : jt ≤ Rg e.scopes := by have := index_le_Rg e.scopes; omega
  obtain ⟨_, bt, hbt, hbtv⟩ := blockAt_get hmem.2.2
  obtain ⟨hofft, nt, hnt, hlet⟩ := G.slots _ _ hbt
  rw [hbtv] at hofft hnt hlet
  rw [hnv] at hnt; simp only [Option.some.injEq] at hnt; subst hnt
  have hend : ∀ (sc : Scope) (n : Nat), S.tab.lookup sc.id = some n → endOf S sc = sc.offset + n := by
    intro sc n hn; unfold endOf; rw [hn]; rfl
  simp only at hofft hlet hmem
  have hq0 : 0 ≤ sct.offset + i0 := by omega
  refine ⟨hmem.2.2, rfl, ?_, hw, by omega⟩
  intro j sc i n hj hb hi0 hn hin hne
  obtain ⟨_, b, hbb, hbv⟩ := blockAt_get hb
  obtain ⟨hoff, n', hn', hle⟩ := G.slots _ _ hbb
  rw [hbv] at hoff hn' hle
  rw [hn] at hn'; simp only [Option.some.injEq] at hn'; subst hn'
  have key : sc.offset + i ≠ sct.offset + i0 := by
    by_cases hjj : j = jt
    · subst hjj
      have : sc = sct := by rw [hmem.2.2] at hb; exact (Option.some.inj hb).symm
      subst this
      have : i ≠ i0 := fun h => hne ⟨rfl, h⟩
      omega
    · rcases Int.lt_or_gt_of_ne hjj with hlt | hgt
      · have := R.o2 j jt sc sct hlt hjR hb hmem.2.2
        rw [hend sc n hn] at this
        omega
      · have := R.o2 jt j sct sc hgt hj hmem.2.2 hb
        rw [hend sct nv hnv] at this
        omega
  intro heq
  apply key
  have e1 : ((sc.offset + i).toNat : Int) = sc.offset + i := Int.toNat_of_nonneg (by omega)
  have e2 : ((sct.offset + i0).toNat : Int) = sct.offset + i0 := Int.toNat_of_nonneg hq0
  rw [← e1, ← e2, heq]

end Gojq.SafeVM

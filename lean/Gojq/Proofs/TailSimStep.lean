/-
  One turn of the loop of `Next` on the original code against zero or one turn on the optimised
  code, from states related by `Inv` (Proofs/TailSimInv.lean): the stuttering diagram `StepOut`.
-/
import Gojq.Proofs.TailSimInv
set_option linter.unusedSimpArgs false
set_option linter.unusedVariables false
namespace Gojq.TailVM
open Gojq Gojq.VM Gojq.OptVM

/-- the diagram: the original ends the call and the optimised code ends it the same way; or both
    make one turn; or the original makes a turn alone (it consumes no oracle answer) -/
def StepOut (c c' : Array Instr) (x : ExtRec) (lo lp : L) (eo ep : Env) : Prop :=
  match stepE c x lo eo with
  | .fin o ef => o.proper = true →
      ∃ ef', stepE c' x lp ep = .fin o ef' ∧ FRel c c' ef ef' ∧ tickAt c lo = tickAt c' lp
  | .cont lo1 eo1 =>
    (∃ lp1 ep1, stepE c' x lp ep = .cont lp1 ep1 ∧ Inv c c' lo1 lp1 eo1 ep1 ∧ tickAt c lo = tickAt c' lp) ∨
    (Inv c c' lo1 lp eo1 ep ∧ tickAt c lo = 0)

/-! ## static facts -/

theorem TailStatic.same {c c' : Array Instr} (S : TailStatic c c') {i : Nat} {a : Instr} (h : c[i]? = some a)
    (hn : ∀ j, a ≠ .call j) : c'[i]? = some a := by
  rcases S.site i a h with h' | ⟨j, id, rfl, _⟩
  · exact h'
  · exact absurd rfl (hn j)

theorem TailStatic.not_scope_succ {c c' : Array Instr} (S : TailStatic c c') {pc : Int} {a : Instr} (h0 : 0 ≤ pc)
    (h : c[pc.toNat]? = some a) (hn : ∀ u, a ≠ .jump u) : ¬ AtScope c (pc + 1) := by
  rintro ⟨_, id, v, n, hs⟩
  have ht : (pc + 1).toNat = pc.toNat + 1 := by omega
  rw [ht] at hs
  obtain ⟨u, hu⟩ := S.scopePrev (pc.toNat + 1) id v n hs (by omega)
  simp only [Nat.add_sub_cancel] at hu
  rw [h] at hu
  simp only [Option.some.injEq] at hu
  exact hn u hu

theorem forkLike_breaker {ins : Instr} (h : forkLike ins = true) : isBreaker ins = true := by
  cases ins <;> simp [forkLike] at h <;> rfl

theorem TailStatic.forkAt {c c' : Array Instr} (S : TailStatic c c') {pc : Int} (h : ForkAt c pc) :
    BtAt c' pc ∧ ¬ AtScope c pc := by
  obtain ⟨h0, ins, hi, hf⟩ := h
  refine ⟨.inr ⟨h0, ins, S.same hi ?_, forkLike_breaker hf⟩, ?_⟩
  · intro j e; subst e; simp [forkLike] at hf
  · rintro ⟨_, id, v, n, hs⟩
    rw [hi] at hs
    simp only [Option.some.injEq] at hs
    subst hs
    simp [forkLike] at hf

theorem TailStatic.last' {c c' : Array Instr} (S : TailStatic c c') :
    AtRet c ((c.size : Int) - 1) ∧ BtAt c' ((c.size : Int) - 1) := by
  have hp := S.pos
  have ht : ((c.size : Int) - 1).toNat = c.size - 1 := by omega
  refine ⟨⟨by omega, by rw [ht]; exact S.last⟩, .inr ⟨by omega, .ret, ?_, rfl⟩⟩
  rw [ht]
  exact S.same S.last (by intro j e; cases e)

/-! ## `saveE`, `popfork` and the relation -/

theorem TRel.saveE {c : Array Instr} {e e' : Env} (h : TRel c e e') (pc : Int) :
    TRel c (saveE e pc) (saveE e' pc) := by
  obtain ⟨sc, fk, rfl, hs, ho⟩ := h.elim
  exact TRel.mk' (e := OptVM.saveE e pc) hs ⟨ho.off, ho.frames, ho.forks⟩

/-- after a `break loop`: both sides end the call, or both resume at the fork they pop -/
theorem unwind_sim {c c' : Array Instr} (S : TailStatic c c') {lo lp : L} {eo ep : Env} (hr : TRel c eo ep)
    (hpc : lp.pc = lo.pc) (herr : lp.err = lo.err) (hbt : BtAt c' lo.pc)
    (hne : 0 ≤ ep.scopes.index ∨ (c.size : Int) ≤ lo.pc ∨ AtRet c lo.pc) :
    match unwindE c.size lo eo with
    | .fin o ef => ∃ ef', unwindE c.size lp ep = .fin o ef' ∧ FRel c c' ef ef'
    | .cont lo1 eo1 => ∃ lp1 ep1, unwindE c.size lp ep = .cont lp1 ep1 ∧ Inv c c' lo1 lp1 eo1 ep1 := by
  obtain ⟨sc, fk, rfl, hs, ho⟩ := hr.elim
  unfold unwindE
  cases hfa : eo.forks with
  | nil =>
    have hfk : fk = [] := by
      have := hs.forks; rw [hfa] at this
      cases fk with
      | nil => rfl
      | cons g gs => exact this.elim
    subst hfk
    simp only [herr, hpc]
    cases he : lo.err with
    | some er =>
      simp only
      refine ⟨_, rfl, TRel.saveE hr _, .inr ⟨rfl, hbt, hne⟩⟩
    | none =>
      simp only
      refine ⟨_, rfl, TRel.saveE hr _, .inr ⟨rfl, .inl ?_, .inr (.inl ?_)⟩⟩
      · show (c'.size : Int) ≤ c.size
        rw [S.size]; exact Int.le_refl _
      · exact Int.le_refl _
  | cons f fs =>
    cases fk with
    | nil => have := hs.forks; rw [hfa] at this; exact this.elim
    | cons g gs =>
      rw [hfa] at hs
      obtain ⟨hc, hg0, hfat, hrs⟩ := hs.restore
      obtain ⟨c1, c2, c3, c4, c5, c6, c7⟩ := hc
      obtain ⟨hbt', hns⟩ := S.forkAt hfat
      refine ⟨_, _, rfl, ?_⟩
      have hrel : TRel c (popfork f fs eo).1
          (popfork g gs { eo with scopes := sc, forks := g :: gs }).1 := by
        have hoff : OffInv (popfork f fs eo).1 := by
          refine ⟨ho.forks f (by rw [hfa]; simp), ho.frames, ?_⟩
          intro f' hf'
          exact ho.forks f' (by rw [hfa]; exact List.mem_cons_of_mem _ hf')
        have := TRel.mk' (c := c) (e := (popfork f fs eo).1) (sc := sc.restore g.scopeindex g.scopelimit) (fk := gs) hrs hoff
        simp only [popfork] at this ⊢
        rw [← c2, ← c3, ← c4, ← c5, ← c6, ← c7]
        exact this
      refine ⟨hrel, rfl, herr, .sync c1 (fun h => absurd h hns), ?_, .inl hg0⟩
      intro _
      exact ⟨c1, by show BtAt c' g.pc; rw [← c1]; exact hbt'⟩


/-! ## the opcodes that neither call nor return: lock-step -/

theorem L_eq_setCI {lo lp : L} (hpc : lp.pc = lo.pc) (hbt : lp.backtrack = lo.backtrack) (herr : lp.err = lo.err) :
    lp = setCI lo lp.callpc lp.index := by
  obtain ⟨a1, a2, a3, a4, a5⟩ := lo
  obtain ⟨b1, b2, b3, b4, b5⟩ := lp
  simp only at hpc hbt herr
  subst hpc hbt herr
  rfl

theorem Inv.breaker_of_bt {c c' : Array Instr} (S : TailStatic c c') {lo lp : L} {eo ep : Env}
    (h : Inv c c' lo lp eo ep) {ins : Instr} (h0 : 0 ≤ lp.pc) (hi' : c'[lp.pc.toNat]? = some ins)
    (hb : lo.backtrack = true) : isBreaker ins = true := by
  have hlt := (Array.getElem?_eq_some_iff.mp hi').1
  obtain ⟨_, hbt⟩ := h.btpc (by rw [h.bt]; exact hb)
  rcases hbt with h1 | ⟨_, ins', h2, h3⟩
  · omega
  · rw [hi'] at h2
    simp only [Option.some.injEq] at h2
    subst h2; exact h3

theorem easy_sim {c c' : Array Instr} (S : TailStatic c c') (x : ExtRec) {lo lp : L} {eo ep : Env}
    (h : Inv c c' lo lp eo ep) (hsync : lo.pc = lp.pc) (h0 : 0 ≤ lo.pc) {ins : Instr}
    (hi : c[lo.pc.toNat]? = some ins) (he : easy ins = true) : StepOut c c' x lo lp eo ep := by
  have hi' : c'[lp.pc.toNat]? = some ins := by
    rw [← hsync]; exact S.same hi (by intro j e; subst e; simp [easy] at he)
  have hlt := (Array.getElem?_eq_some_iff.mp hi).1
  have h0' : 0 ≤ lp.pc := by omega
  have hne : 0 ≤ ep.scopes.index := by
    rcases h.ne with h1 | ⟨_, h2 | h2⟩ | ⟨_, h3⟩
    · exact h1
    · omega
    · exfalso
      obtain ⟨_, hr⟩ := h2
      rw [← hsync, hi] at hr
      simp only [Option.some.injEq] at hr
      subst hr; simp [easy] at he
    · exfalso
      obtain ⟨_, id, v, n, hs⟩ := h3
      rw [← hsync, hi] at hs
      simp only [Option.some.injEq] at hs
      subst hs; simp [easy] at he
  have hN : TRelN c eo ep := ⟨h.rel, hne⟩
  have hD : ∀ id, varId ins = some id → ¬ Dead c id := fun id hv => S.vars _ ins id hi hv
  have hF : forkLike ins = true → ForkAt c lo.pc := fun hf => ⟨h0, ins, hi, hf⟩
  have hcong := exec_tcong (c := c) ins x lo he hD hF eo ep hN
  have hpost := exec_post ins he x lo eo
  have hlp : lp = setCI lo lp.callpc lp.index := L_eq_setCI hsync.symm h.bt h.err
  have hci := exec_setCI ins he x lo lp.callpc lp.index ep
  rw [← hlp] at hci
  have htick : tickAt c lo = tickAt c' lp := by
    rw [tickAt_at c lo ins h0 hi, tickAt_at c' lp ins h0' hi']
  have hbrk : lo.backtrack = false ∨ isBreaker ins = true := by
    cases hb : lo.backtrack with
    | false => exact .inl rfl
    | true => exact .inr (h.breaker_of_bt S h0' hi' hb)
  unfold StepOut
  rw [stepE_at c x lo eo ins h0 hi, stepE_at c' x lp ep ins h0' hi', S.size]
  cases hR : exec ins x lo eo with
  | panic s => simp [contOf, Outcome.proper]
  | stuck w => simp [contOf, Outcome.proper]
  | ok r e1 =>
    obtain ⟨ctl, l1⟩ := r
    rw [hR] at hcong hpost
    simp only at hpost
    cases hR' : exec ins x lo ep with
    | panic s => rw [hR'] at hcong; exact hcong.elim
    | stuck w => rw [hR'] at hcong; exact hcong.elim
    | ok r' e1' =>
      rw [hR'] at hcong hci
      obtain ⟨hrr, hN1⟩ := hcong
      subst hrr
      rw [hci]
      simp only [mapCI]
      cases ctl with
      | fall =>
        simp only [contOf]
        obtain ⟨p1, p2, p3⟩ := hpost
        refine .inl ⟨_, _, rfl, ⟨hN1.1, rfl, rfl, .sync rfl (fun hs => ?_), ?_, .inl hN1.2⟩, htick⟩
        · exfalso
          have hs' : AtScope c (lo.pc + 1) := by rw [← p1]; exact hs
          exact S.not_scope_succ h0 hi p2 hs'
        · intro hb
          have : l1.backtrack = true := hb
          rw [p3 hbrk] at this
          cases this
      | jump =>
        simp only [contOf]
        obtain ⟨p1, p3⟩ := hpost
        refine .inl ⟨_, _, rfl, ⟨hN1.1, rfl, rfl, .sync rfl (fun hs => ?_), ?_, .inl hN1.2⟩, htick⟩
        · exact absurd hs (S.target _ ins _ hi p1)
        · intro hb
          have : l1.backtrack = true := hb
          rw [p3 hbrk] at this
          cases this
      | ret v => exact hpost.elim
      | brk =>
        simp only [contOf]
        obtain ⟨p1, p2⟩ := hpost
        have hu := unwind_sim S (lo := l1) (lp := setCI l1 lp.callpc lp.index) hN1.1 rfl rfl
          (by rw [p1, hsync]; exact .inr ⟨h0', ins, hi', p2⟩) (.inl hN1.2)
        cases hU : unwindE c.size l1 e1 with
        | fin o ef =>
          rw [hU] at hu
          intro _
          obtain ⟨ef', q1, q2⟩ := hu
          exact ⟨ef', q1, q2, htick⟩
        | cont lo1 eo1 =>
          rw [hU] at hu
          obtain ⟨lp1, ep1, q1, q2⟩ := hu
          exact .inl ⟨lp1, ep1, q1, q2, htick⟩


/-! ## `call` -/

/-- from the invariant at an instruction that is neither `scope` nor `ret`, out of backtrack mode: the
    optimised scope stack is not empty -/
theorem Inv.nonempty {c c' : Array Instr} {lo lp : L} {eo ep : Env} (h : Inv c c' lo lp eo ep)
    (hb : lo.backtrack = false) (hs : ¬ AtScope c lp.pc) : 0 ≤ ep.scopes.index := by
  rcases h.ne with h1 | ⟨h2, _⟩ | ⟨_, h3⟩
  · exact h1
  · rw [h.bt, hb] at h2; cases h2
  · exact absurd h3 hs

/-- a `call` that the pass left alone: both sides jump to the function entry -/
theorem call_sim {c c' : Array Instr} (S : TailStatic c c') (x : ExtRec) {lo lp : L} {eo ep : Env}
    (h : Inv c c' lo lp eo ep) (hsync : lo.pc = lp.pc) (h0 : 0 ≤ lo.pc) {t : Int}
    (hi : c[lo.pc.toNat]? = some (.call t)) (hi' : c'[lo.pc.toNat]? = some (.call t)) :
    StepOut c c' x lo lp eo ep := by
  have hlt := (Array.getElem?_eq_some_iff.mp hi).1
  have h0' : 0 ≤ lp.pc := by omega
  have hi'' : c'[lp.pc.toNat]? = some (.call t) := by rw [← hsync]; exact hi'
  have hnsc : ¬ AtScope c lp.pc := by
    rintro ⟨_, id, v, n, hs⟩
    rw [← hsync, hi] at hs
    cases hs
  have htick : tickAt c lo = tickAt c' lp := by
    rw [tickAt_at c lo _ h0 hi, tickAt_at c' lp _ h0' hi'']
  unfold StepOut
  rw [stepE_at c x lo eo _ h0 hi, stepE_at c' x lp ep _ h0' hi'', S.size]
  cases hb : lo.backtrack with
  | true =>
    have hb' : lp.backtrack = true := by rw [h.bt]; exact hb
    rw [exec_call_bt t x lo eo hb, exec_call_bt t x lp ep hb']
    simp only [contOf]
    obtain ⟨_, hbt⟩ := h.btpc hb'
    have hne : 0 ≤ ep.scopes.index ∨ (c.size : Int) ≤ lo.pc ∨ AtRet c lo.pc := by
      rcases h.ne with h1 | ⟨_, h2⟩ | ⟨_, h3⟩
      · exact .inl h1
      · rw [hsync]; exact .inr h2
      · exact absurd h3 hnsc
    have hu := unwind_sim S (lo := lo) (lp := lp) h.rel hsync.symm h.err (by rw [hsync]; exact hbt) hne
    cases hU : unwindE c.size lo eo with
    | fin o ef =>
      rw [hU] at hu
      intro _
      obtain ⟨ef', q1, q2⟩ := hu
      exact ⟨ef', q1, q2, htick⟩
    | cont lo1 eo1 =>
      rw [hU] at hu
      obtain ⟨lp1, ep1, q1, q2⟩ := hu
      exact .inl ⟨lp1, ep1, q1, q2, htick⟩
  | false =>
    have hb' : lp.backtrack = false := by rw [h.bt]; exact hb
    rw [exec_call_nb t x lo eo hb, exec_call_nb t x lp ep hb']
    simp only [contOf]
    have hne := h.nonempty hb hnsc
    refine .inl ⟨_, _, rfl, ⟨h.rel, h.bt, h.err, .sync rfl (fun _ => ?_), ?_, .inl hne⟩, htick⟩
    · exact ⟨rfl, rfl, hsync, .inl ⟨h0', t, by rw [← hsync]; exact hi⟩, h0', fun hn => by omega⟩
    · intro hbb
      have : lp.backtrack = true := hbb
      rw [hb'] at this; cases this

/-- a rewritten `call`: the original makes the call alone; the optimised run stays at its `jump` -/
theorem site_call {c c' : Array Instr} (S : TailStatic c c') (x : ExtRec) {lo lp : L} {eo ep : Env}
    (h : Inv c c' lo lp eo ep) (hsync : lo.pc = lp.pc) (h0 : 0 ≤ lo.pc) {j id : Int}
    (hi : c[lo.pc.toNat]? = some (.call j)) (hj0 : 0 ≤ j) (hsc : c[j.toNat]? = some (.scope id 0 0))
    (hi' : c'[lo.pc.toNat]? = some (.jump (j + 1))) (hjr : JumpsToRet c ((lo.pc.toNat : Int) + 1)) :
    StepOut c c' x lo lp eo ep := by
  have hlt := (Array.getElem?_eq_some_iff.mp hi).1
  have h0' : 0 ≤ lp.pc := by omega
  have hi'' : c'[lp.pc.toNat]? = some (.jump (j + 1)) := by rw [← hsync]; exact hi'
  have hnsc : ¬ AtScope c lp.pc := by
    rintro ⟨_, id, v, n, hs⟩
    rw [← hsync, hi] at hs
    cases hs
  have hb : lo.backtrack = false := by
    cases hb : lo.backtrack with
    | false => rfl
    | true =>
      have := h.breaker_of_bt S h0' hi'' hb
      simp [isBreaker] at this
  unfold StepOut
  rw [stepE_at c x lo eo _ h0 hi, exec_call_nb j x lo eo hb]
  simp only [contOf]
  have hne := h.nonempty hb hnsc
  refine .inr ⟨⟨h.rel, h.bt, h.err, ?_, ?_, .inl hne⟩, ?_⟩
  · refine .callmid lo.pc.toNat j id hb (by omega) hi' hj0 hsc rfl (by show lo.pc = _; omega) rfl hne hjr
  · intro hbb
    rw [h.bt, hb] at hbb; cases hbb
  · rw [tickAt_at c lo _ h0 hi]; rfl

/-- the original's `scope` of the dropped frame against the optimised `jump f+1` -/
theorem callmid_sim {c c' : Array Instr} (S : TailStatic c c') (x : ExtRec) {lo lp : L} {eo ep : Env}
    (h : Inv c c' lo lp eo ep) {i : Nat} {j id : Int} (hb : lo.backtrack = false) (hlp : lp.pc = i)
    (hi' : c'[i]? = some (.jump (j + 1))) (hj0 : 0 ≤ j) (hsc : c[j.toNat]? = some (.scope id 0 0))
    (hlo : lo.pc = j) (hcp : lo.callpc = i) (hix : lo.index = eo.scopes.index) (hne : 0 ≤ ep.scopes.index)
    (hjr : JumpsToRet c ((i : Int) + 1)) : StepOut c c' x lo lp eo ep := by
  obtain ⟨sc, fk, rfl, hs, ho⟩ := h.rel.elim
  have h0 : 0 ≤ lo.pc := by omega
  have h0' : 0 ≤ lp.pc := by omega
  have hi0 : c[lo.pc.toNat]? = some (.scope id 0 0) := by rw [hlo]; exact hsc
  have hi1 : c'[lp.pc.toNat]? = some (.jump (j + 1)) := by
    have : lp.pc.toNat = i := by omega
    rw [this]; exact hi'
  obtain ⟨hi1s, hi2s⟩ := hs.sr.lt_size
  have hbk : 0 ≤ eo.scopes.index → ∃ b, eo.scopes.data[eo.scopes.index.toNat]? = some b := by
    intro hk
    have : eo.scopes.index.toNat < eo.scopes.data.size := by omega
    exact ⟨_, Array.getElem?_eq_getElem this⟩
  unfold StepOut
  rw [stepE_at c x lo eo _ h0 hi0, stepE_at c' x lp _ _ h0' hi1,
    exec_scope_call id 0 0 x lo eo hix (by rw [hcp]; omega) hbk, exec_jump]
  simp only [contOf]
  -- the dead scope changes nothing but the scope stack
  have henv : scopeEnv id 0 lo.callpc eo =
      { eo with scopes := eo.scopes.push (newFrame eo.scopes id eo.offset lo.callpc) } := by
    unfold scopeEnv growValues
    have hoff := ho.off
    simp only [Int.add_zero]
    rw [if_neg (by omega)]
  rw [henv, hcp]
  have hdead : Dead c id := ⟨j.toNat, hsc⟩
  have hsr := hs.pushDrop id (i : Int) hdead hjr hne
  have hoi : OffInv { eo with scopes := eo.scopes.push (newFrame eo.scopes id eo.offset (i : Int)) } := by
    refine ⟨ho.off, ?_, ho.forks⟩
    exact push_all (fun b => b.value.offset ≤ (eo.values.size : Int)) eo.scopes
      (newFrame eo.scopes id eo.offset (i : Int)) ho.frames (by show eo.offset ≤ _; exact ho.off)
  refine .inl ⟨_, _, rfl, ⟨TRel.mk' (e := { eo with scopes := eo.scopes.push (newFrame eo.scopes id eo.offset (i : Int)) }) hsr hoi,
    h.bt, h.err, .sync (by show lo.pc + 1 = j + 1; omega) (fun hsx => ?_), ?_, .inl hne⟩, ?_⟩
  · exfalso
    have : AtScope c (j + 1) := by
      have e1 : lo.pc + 1 = j + 1 := by omega
      rw [← e1]; exact hsx
    exact S.not_scope_succ hj0 hsc (by intro u e; cases e) this
  · intro hbb
    have : lp.backtrack = true := hbb
    rw [h.bt, hb] at this; cases this
  · rw [tickAt_at c lo _ h0 hi0, tickAt_at c' lp _ h0' hi1]; rfl

/-- the original follows a jump on its way to the next `ret`; the optimised run waits at its `ret` -/
theorem detour_jump {c c' : Array Instr} (S : TailStatic c c') (x : ExtRec) {lo lp : L} {eo ep : Env}
    (h : Inv c c' lo lp eo ep) (hb : lo.backtrack = false) (hr : AtRet c lp.pc) {t : Int} (h0 : 0 ≤ lo.pc)
    (hi : c[lo.pc.toNat]? = some (.jump t)) (hj : JumpsToRet c t) : StepOut c c' x lo lp eo ep := by
  have hne : 0 ≤ ep.scopes.index := by
    refine h.nonempty hb ?_
    rintro ⟨_, id, v, n, hs⟩
    rw [hr.2] at hs; cases hs
  unfold StepOut
  rw [stepE_at c x lo eo _ h0 hi, exec_jump]
  simp only [contOf]
  refine .inr ⟨⟨h.rel, h.bt, h.err, .detour hb hr hj, ?_, .inl hne⟩, ?_⟩
  · intro hbb
    rw [h.bt, hb] at hbb; cases hbb
  · rw [tickAt_at c lo _ h0 hi]; rfl


/-! ## `scope` -/

theorem scopeEnv_frame (id v cp : Int) (e : Env) (sc : Stack Scope) (fk : List Fork) :
    scopeEnv id v cp { e with scopes := sc, forks := fk } =
      { scopeEnv id v cp e with scopes := sc.push (newFrame sc id e.offset cp), forks := fk } := by
  unfold scopeEnv growValues
  simp only
  split <;> rfl

theorem scopeEnv_fields (id v cp : Int) (e : Env) :
    (scopeEnv id v cp e).scopes = e.scopes.push (newFrame e.scopes id e.offset cp) ∧
    (scopeEnv id v cp e).forks = e.forks ∧ (scopeEnv id v cp e).offset = e.offset + v ∧
    e.values.size ≤ (scopeEnv id v cp e).values.size ∧
    (scopeEnv id v cp e).offset ≤ (scopeEnv id v cp e).values.size := by
  unfold scopeEnv
  obtain ⟨g1, g2, g3, g4, g5⟩ := growValues_fields
    { e with scopes := e.scopes.push (newFrame e.scopes id e.offset cp), offset := e.offset + v }
  exact ⟨g1, g2, g3, g4, g5⟩

/-- a function entry reached by a `call` on both sides: both push a frame -/
theorem scope_sim {c c' : Array Instr} (S : TailStatic c c') (x : ExtRec) {lo lp : L} {eo ep : Env}
    (h : Inv c c' lo lp eo ep) (hsync : lo.pc = lp.pc) (h0 : 0 ≤ lo.pc) {id v n : Int}
    (hi : c[lo.pc.toNat]? = some (.scope id v n)) (se : ScopeEntry c lo lp eo ep) :
    StepOut c c' x lo lp eo ep := by
  have hlt := (Array.getElem?_eq_some_iff.mp hi).1
  have h0' : 0 ≤ lp.pc := by omega
  have hi' : c'[lp.pc.toNat]? = some (.scope id v n) := by
    rw [← hsync]; exact S.same hi (by intro j e; cases e)
  have hb : lo.backtrack = false := by
    cases hb : lo.backtrack with
    | false => rfl
    | true =>
      have := h.breaker_of_bt S h0' hi' hb
      simp [isBreaker] at this
  obtain ⟨sc, fk, rfl, hs, ho⟩ := h.rel.elim
  obtain ⟨hi1s, hi2s⟩ := hs.sr.lt_size
  have hbk : 0 ≤ eo.scopes.index → ∃ b, eo.scopes.data[eo.scopes.index.toNat]? = some b := by
    intro hk
    have : eo.scopes.index.toNat < eo.scopes.data.size := by omega
    exact ⟨_, Array.getElem?_eq_getElem this⟩
  have hbk' : 0 ≤ sc.index → ∃ b, sc.data[sc.index.toNat]? = some b := by
    intro hk
    have : sc.index.toNat < sc.data.size := by omega
    exact ⟨_, Array.getElem?_eq_getElem this⟩
  unfold StepOut
  rw [stepE_at c x lo eo _ h0 hi, stepE_at c' x lp _ _ h0' hi',
    exec_scope_call id v n x lo eo se.io (by rw [se.cp]; exact se.nonneg) hbk,
    exec_scope_call id v n x lp _ se.ip se.nonneg hbk']
  simp only [contOf]
  rw [se.cp, scopeEnv_frame]
  obtain ⟨f1, f2, f3, f4, f5⟩ := scopeEnv_fields id v lp.callpc eo
  have hsr := hs.pushKeep id lp.callpc (eo.offset + v) se.kept se.bot
  have hoi : OffInv (scopeEnv id v lp.callpc eo) := by
    refine ⟨f5, ?_, ?_⟩
    · rw [f1]
      refine push_all (fun b => b.value.offset ≤ ((scopeEnv id v lp.callpc eo).values.size : Int)) eo.scopes
        (newFrame eo.scopes id eo.offset lp.callpc) ?_ ?_
      · intro j b hb'
        exact Int.le_trans (ho.frames j b hb') (by omega)
      · show eo.offset ≤ _
        exact Int.le_trans ho.off (by omega)
    · intro f hf
      rw [f2] at hf
      exact Int.le_trans (ho.forks f hf) (by omega)
  have hrel : TRel c (scopeEnv id v lp.callpc eo)
      { scopeEnv id v lp.callpc eo with scopes := sc.push (newFrame sc id eo.offset lp.callpc), forks := fk } := by
    refine TRel.mk' ?_ hoi
    rw [f1, f2, f3]; exact hsr
  have hidx : 0 ≤ (sc.push (newFrame sc id eo.offset lp.callpc)).index := by
    have := (push_spec' sc (newFrame sc id eo.offset lp.callpc) hs.lb.1 hs.lb.2 hi2s).1
    rw [this]; have := hs.lb.1; omega
  refine .inl ⟨_, _, rfl, ⟨hrel, h.bt, h.err, .sync (by show lo.pc + 1 = lp.pc + 1; omega) (fun hsx => ?_), ?_,
    .inl hidx⟩, ?_⟩
  · exact absurd hsx (S.not_scope_succ h0 hi (by intro u e; cases e))
  · intro hbb
    have : lp.backtrack = true := hbb
    rw [h.bt, hb] at this; cases this
  · rw [tickAt_at c lo _ h0 hi, tickAt_at c' lp _ h0' hi']

/-! ## `ret` -/

theorem retTail_more (l : L) (e1 : Env) (h : 0 ≤ e1.scopes.index) : retTail l e1 = .ok (.fall, l) e1 := by
  unfold retTail
  have : e1.scopes.empty = false := by
    show decide (e1.scopes.index < 0) = false
    exact decide_eq_false (by omega)
  rw [this]; rfl

theorem retTail_empty (l : L) (e1 : Env) (h : e1.scopes.index < 0) :
    retTail l e1 = match e1.stack.pop? with
      | some (v, s) => .ok (.ret v, l) { e1 with stack := s }
      | none => .panic .stackPop := by
  unfold retTail
  have : e1.scopes.empty = true := by
    show decide (e1.scopes.index < 0) = true
    exact decide_eq_true h
  rw [this]; rfl

theorem TRel.setStack {c : Array Instr} {e e' : Env} (h : TRel c e e') (s : Stack V) :
    TRel c { e with stack := s } { e' with stack := s } := by
  obtain ⟨sc, fk, rfl, hs, ho⟩ := h.elim
  exact TRel.mk' (e := { e with stack := s }) hs ⟨ho.off, ho.frames, ho.forks⟩

/-- `ret`: in backtrack mode both break; on an empty scope stack the original panics; a dropped frame
    on top is popped by the original alone; a kept frame is popped by both -/
theorem ret_sim {c c' : Array Instr} (S : TailStatic c c') (x : ExtRec) {lo lp : L} {eo ep : Env}
    (h : Inv c c' lo lp eo ep) (h0 : 0 ≤ lo.pc) (hi : c[lo.pc.toNat]? = some .ret) (hr : AtRet c lp.pc)
    (hm : lo.backtrack = true → lo.pc = lp.pc) : StepOut c c' x lo lp eo ep := by
  have h0' : 0 ≤ lp.pc := hr.1
  have hi' : c'[lp.pc.toNat]? = some .ret := S.same hr.2 (by intro j e; cases e)
  have htick : tickAt c lo = tickAt c' lp := by
    rw [tickAt_at c lo _ h0 hi, tickAt_at c' lp _ h0' hi']
  have htick0 : tickAt c lo = 0 := by rw [tickAt_at c lo _ h0 hi]; rfl
  unfold StepOut
  rw [stepE_at c x lo eo _ h0 hi, stepE_at c' x lp ep _ h0' hi', S.size]
  cases hb : lo.backtrack with
  | true =>
    have hsync := hm hb
    have hb' : lp.backtrack = true := by rw [h.bt]; exact hb
    rw [exec_ret_bt x lo eo hb, exec_ret_bt x lp ep hb']
    simp only [contOf]
    obtain ⟨_, hbt⟩ := h.btpc hb'
    have hne : 0 ≤ ep.scopes.index ∨ (c.size : Int) ≤ lo.pc ∨ AtRet c lo.pc := .inr (.inr ⟨h0, hi⟩)
    have hu := unwind_sim S (lo := lo) (lp := lp) h.rel hsync.symm h.err (by rw [hsync]; exact hbt) hne
    cases hU : unwindE c.size lo eo with
    | fin o ef =>
      rw [hU] at hu
      intro _
      obtain ⟨ef', q1, q2⟩ := hu
      exact ⟨ef', q1, q2, htick⟩
    | cont lo1 eo1 =>
      rw [hU] at hu
      obtain ⟨lp1, ep1, q1, q2⟩ := hu
      exact .inl ⟨lp1, ep1, q1, q2, htick⟩
  | false =>
    have hb' : lp.backtrack = false := by rw [h.bt]; exact hb
    obtain ⟨sc, fk, rfl, hs, ho⟩ := h.rel.elim
    cases hs.top with
    | nil ha hbn =>
      rw [exec_ret_empty x lo eo hb ha]
      simp [contOf, Outcome.proper]
    | drop d na ha0 hb0 hda hj e3 hna hoff hpop =>
      rw [exec_ret_nb x lo eo d na hb ha0 hda e3, retTail_more _ _ (by show 0 ≤ d.saveindex; omega)]
      simp only [contOf]
      -- popping the dropped frame changes nothing but the scope-stack index
      have henv : popEnv eo d = { eo with scopes := { eo.scopes with index := na } } := by
        unfold popEnv
        rw [e3]
        by_cases hfree : eo.scopes.limit < eo.scopes.index
        · have : eo.scopes.index > eo.scopes.limit := hfree
          rw [if_pos this, hoff hfree]
        · have : ¬ eo.scopes.index > eo.scopes.limit := hfree
          rw [if_neg this]
      rw [henv]
      have hsr := hpop _ _ hs
      refine .inr ⟨⟨TRel.mk' (e := { eo with scopes := { eo.scopes with index := na } }) hsr
        ⟨ho.off, ho.frames, ho.forks⟩, h.bt, h.err, .detour hb hr hj, ?_, .inl hb0⟩, htick0⟩
      intro hbb
      rw [hb'] at hbb; cases hbb
    | keep ga gb na nb ha0 hb0 hda hdb e1 e2 e3 e4 hl hk hbot hnn hpop =>
      rw [exec_ret_nb x lo eo ga na hb ha0 hda e3, exec_ret_nb x lp _ gb nb hb' hb0 hdb e4]
      have hsr := hpop _ _ hs
      -- the two pops restore the same offset
      have hE : popEnv { eo with scopes := sc, forks := fk } gb =
          { popEnv eo ga with scopes := { sc with index := nb }, forks := fk } := by
        unfold popEnv
        simp only [e4]
        by_cases hfree : eo.scopes.limit < eo.scopes.index
        · have h1 : eo.scopes.index > eo.scopes.limit := hfree
          have h2 : sc.index > sc.limit := hl.mp hfree
          rw [if_pos h1, if_pos h2, e2]
        · have h1 : ¬ eo.scopes.index > eo.scopes.limit := hfree
          have h2 : ¬ sc.index > sc.limit := fun hh => hfree (hl.mpr hh)
          rw [if_neg h1, if_neg h2]
      have hoi : OffInv (popEnv eo ga) := by
        refine ⟨?_, ho.frames, ho.forks⟩
        show (if eo.scopes.index > eo.scopes.limit then ga.offset else eo.offset) ≤ _
        split
        · exact ho.frames _ _ hda
        · exact ho.off
      have hrel : TRel c (popEnv eo ga) (popEnv { eo with scopes := sc, forks := fk } gb) := by
        rw [hE]
        refine TRel.mk' ?_ hoi
        show ScRel c { eo.scopes with index := ga.saveindex } eo.forks { sc with index := nb } fk
          (if eo.scopes.index > eo.scopes.limit then ga.offset else eo.offset)
        rw [e3]
        exact hsr
      by_cases hn : na < 0
      · -- both scope stacks are empty now: the value on the data stack is returned
        have hn' : nb < 0 := hnn.mp hn
        rw [retTail_empty _ _ (by show ga.saveindex < 0; omega),
          retTail_empty _ _ (by show gb.saveindex < 0; omega)]
        have hst : (popEnv { eo with scopes := sc, forks := fk } gb).stack = (popEnv eo ga).stack := rfl
        rw [hst]
        cases hp : (popEnv eo ga).stack.pop? with
        | none => simp [contOf, Outcome.proper]
        | some p =>
          obtain ⟨v, s⟩ := p
          simp only [contOf]
          intro _
          refine ⟨_, by rw [e1], ⟨(hrel.setStack s).saveE _, .inr ⟨rfl, ?_, .inr (.inr ?_)⟩⟩, htick⟩
          · show BtAt c' ga.pc
            rw [e1, hbot hn']; exact S.last'.2
          · show AtRet c ga.pc
            rw [e1, hbot hn']; exact S.last'.1
      · have hn' : ¬ nb < 0 := fun hh => hn (hnn.mpr hh)
        rw [retTail_more _ _ (by show 0 ≤ ga.saveindex; omega), retTail_more _ _ (by show 0 ≤ gb.saveindex; omega)]
        simp only [contOf]
        refine .inl ⟨_, _, rfl, ⟨hrel, h.bt, h.err, .sync (by show ga.pc + 1 = gb.pc + 1; rw [e1]) (fun hsx => ?_), ?_,
          .inl (by show 0 ≤ gb.saveindex; omega)⟩, htick⟩
        · exfalso
          have hsx' : AtScope c (gb.pc + 1) := by rw [← e1]; exact hsx
          rcases hk with ⟨hk0, t, hkc⟩ | hk
          · exact S.not_scope_succ hk0 hkc (by intro u e; cases e) hsx'
          · obtain ⟨_, id, v, n, hsc⟩ := hsx'
            have hlt := (Array.getElem?_eq_some_iff.mp hsc).1
            omega
        · intro hbb
          have : lp.backtrack = true := hbb
          rw [hb'] at this; cases this


/-! ## one turn -/

/-- THE DIAGRAM: from related states, one turn of the original code is matched by one turn of the
    optimised code, or made by the original alone without consuming an oracle answer -/
theorem step_sim {c c' : Array Instr} (S : TailStatic c c') (x : ExtRec) {lo lp : L} {eo ep : Env}
    (h : Inv c c' lo lp eo ep) : StepOut c c' x lo lp eo ep := by
  cases h.mode with
  | sync hsync hse =>
    by_cases hneg : lo.pc < 0
    · unfold StepOut
      rw [stepE_neg c x lo eo hneg]
      simp [Outcome.proper]
    by_cases hge : (c.size : Int) ≤ lo.pc
    · unfold StepOut
      rw [stepE_past c x lo eo hge, stepE_past c' x lp ep (by rw [S.size, ← hsync]; exact hge), S.size]
      have hu := unwind_sim S (lo := lo) (lp := lp) h.rel hsync.symm h.err (.inl (by rw [S.size]; exact hge))
        (.inr (.inl hge))
      have htick : tickAt c lo = tickAt c' lp := by
        unfold tickAt
        rw [if_neg (by omega), if_neg (by rw [S.size]; omega)]
      cases hU : unwindE c.size lo eo with
      | fin o ef =>
        rw [hU] at hu
        intro _
        obtain ⟨ef', q1, q2⟩ := hu
        exact ⟨ef', q1, q2, htick⟩
      | cont lo1 eo1 =>
        rw [hU] at hu
        obtain ⟨lp1, ep1, q1, q2⟩ := hu
        exact .inl ⟨lp1, ep1, q1, q2, htick⟩
    · have h0 : 0 ≤ lo.pc := by omega
      have hlt : lo.pc.toNat < c.size := by omega
      have hi : c[lo.pc.toNat]? = some c[lo.pc.toNat] := Array.getElem?_eq_getElem hlt
      generalize c[lo.pc.toNat] = a at hi
      rcases S.site _ a hi with hi' | ⟨j, id, rfl, hj0, hsc, hi', hjr⟩
      · by_cases he : easy a = true
        · exact easy_sim S x h hsync h0 hi he
        · cases a with
          | call t => exact call_sim S x h hsync h0 hi hi'
          | callrec t => exact absurd rfl ((S.noclo _ _ hi).2.2 t)
          | pushpc t => exact absurd rfl ((S.noclo _ _ hi).1 t)
          | callpc => exact absurd rfl (S.noclo _ _ hi).2.1
          | scope id v n => exact scope_sim S x h hsync h0 hi (hse ⟨h0, id, v, n, hi⟩)
          | ret => exact ret_sim S x h h0 hi (by rw [← hsync]; exact ⟨h0, hi⟩) (fun _ => hsync)
          | _ => simp [easy] at he
      · exact site_call S x h hsync h0 hi hj0 hsc hi' hjr
  | detour hb hr hj =>
    cases hj with
    | ret h0 hi => exact ret_sim S x h h0 hi hr (fun hbt => by rw [hb] at hbt; cases hbt)
    | jump h0 hi hj' => exact detour_jump S x h hb hr h0 hi hj'
  | callmid i j id hb hlp hi' hj0 hsc hlo hcp hix hne hjr =>
    exact callmid_sim S x h hb hlp hi' hj0 hsc hlo hcp hix hne hjr

end Gojq.TailVM

/-
  Helper lemmas for Props/C13Shipped.lean, part 4 (value level): the event `tostream` makes of one
  node (`evOf`), `Stream.spec` as the events of the post-order nodes (`spec_nodes`), every node is a
  real location (`nodes_loc`) and the evaluator's own `getpath` (`Spec.getpathV`) finds what a real
  location holds (`getpathV_of_Loc`).
-/
import Gojq.Proofs.PairsShippedPaths
namespace Gojq.Pairs
open Gojq Gojq.Spec Gojq.Stream

/-! ### the evaluator's `getpath` at a real location -/

theorem getpathV_go_of_Loc (v0 : JV) (path0 : List JV) : ∀ (q : List JV) (cur x : JV), Loc q cur x →
    getpathV.go v0 path0 cur q = .ok x
  | [], cur, x, h => by simp only [Loc] at h; subst h; rfl
  | e :: q, cur, x, h => by
    rcases Loc_cases h with ⟨k, kvs, y, rfl, rfl, h1, h2⟩ | ⟨m, xs, y, rfl, rfl, h0, h1, hy, h2⟩
    · simp only [getpathV.go, funcIndex2, pure, Except.pure, h1, Option.getD_some]
      exact getpathV_go_of_Loc v0 path0 q y x h2
    · simp only [idxOf] at h0 h1 hy
      have : indexArr xs ((toInt? (JV.num m)).getD 0) = y := by
        simp only [indexArr]
        rw [if_pos ⟨h0, h1⟩]
        simp [List.getD_eq_getElem?_getD, hy]
      simp only [getpathV.go, funcIndex2, pure, Except.pure, this]
      exact getpathV_go_of_Loc v0 path0 q y x h2

/-- `Spec.getpathV` (what `Spec.eval` runs for `getpath(p)`) finds what a real location holds -/
theorem getpathV_of_Loc (q : List JV) (v x : JV) (h : Loc q v x) : getpathV v q = .ok x :=
  getpathV_go_of_Loc v q q v x h

/-! ### every node is a real location holding its value -/

mutual
theorem nodes_loc (post : Bool) : ∀ (v : JV) (rp : List JV) (nd : List JV × JV), nd ∈ nodes post rp v → nodup v → Indexable v →
    ∃ q, nd.1 = rp.reverse ++ q ∧ Loc q v nd.2
  | .null, rp, nd, h, _, _ => by simp only [nodes, List.mem_singleton] at h; subst h; exact ⟨[], by simp, rfl⟩
  | .bool b, rp, nd, h, _, _ => by simp only [nodes, List.mem_singleton] at h; subst h; exact ⟨[], by simp, rfl⟩
  | .num n, rp, nd, h, _, _ => by simp only [nodes, List.mem_singleton] at h; subst h; exact ⟨[], by simp, rfl⟩
  | .str s, rp, nd, h, _, _ => by simp only [nodes, List.mem_singleton] at h; subst h; exact ⟨[], by simp, rfl⟩
  | .arr xs, rp, nd, h, hn, hs => by
    have hself : nd = (rp.reverse, JV.arr xs) → ∃ q, nd.1 = rp.reverse ++ q ∧ Loc q (.arr xs) nd.2 := by
      intro he; subst he; exact ⟨[], by simp, rfl⟩
    have hkids : nd ∈ nodesL post rp 0 xs → ∃ q, nd.1 = rp.reverse ++ q ∧ Loc q (.arr xs) nd.2 := by
      intro h
      simp only [nodup] at hn
      simp only [ArrLe] at hs
      obtain ⟨j, y, q, hy, hp, hl⟩ := nodesL_loc post xs rp 0 nd h hn hs.2
      exact ⟨idxJV j :: q, by simpa using hp, Loc_child_idx xs j y q nd.2 hs.1 hy hl⟩
    simp only [nodes] at h
    cases post with
    | false =>
      simp only [Bool.false_eq_true, if_false, List.mem_cons] at h
      exact h.elim hself hkids
    | true =>
      simp only [if_true, List.mem_append, List.mem_singleton] at h
      exact h.elim hkids hself
  | .obj kvs, rp, nd, h, hn, hs => by
    have hself : nd = (rp.reverse, JV.obj kvs) → ∃ q, nd.1 = rp.reverse ++ q ∧ Loc q (.obj kvs) nd.2 := by
      intro he; subst he; exact ⟨[], by simp, rfl⟩
    have hkids : nd ∈ nodesM post rp kvs → ∃ q, nd.1 = rp.reverse ++ q ∧ Loc q (.obj kvs) nd.2 := by
      intro h
      simp only [nodup] at hn
      simp only [ArrLe] at hs
      obtain ⟨k, y, q, hy, hp, hl⟩ := nodesM_loc post kvs rp nd h hn hs
      exact ⟨.str k :: q, hp, (Loc_key k q kvs nd.2).mpr ⟨y, kvLookup_of_mem k y kvs hn hy, hl⟩⟩
    simp only [nodes] at h
    cases post with
    | false =>
      simp only [Bool.false_eq_true, if_false, List.mem_cons] at h
      exact h.elim hself hkids
    | true =>
      simp only [if_true, List.mem_append, List.mem_singleton] at h
      exact h.elim hkids hself
theorem nodesL_loc (post : Bool) : ∀ (xs : List JV) (rp : List JV) (i : Nat) (nd : List JV × JV), nd ∈ nodesL post rp i xs →
    nodupL xs → ArrLeL 9223372036854775807 xs →
    ∃ j y q, xs[j]? = some y ∧ nd.1 = rp.reverse ++ idxJV (i + j) :: q ∧ Loc q y nd.2
  | [], _, _, _, h, _, _ => by simp [nodesL] at h
  | x0 :: xs, rp, i, nd, h, hn, hs => by
    simp only [nodesL, List.mem_append] at h
    simp only [nodupL] at hn
    simp only [ArrLeL] at hs
    rcases h with h | h
    · obtain ⟨q, hp, hl⟩ := nodes_loc post x0 (jvInt (i : Nat) :: rp) nd h hn.1 hs.1
      exact ⟨0, x0, q, rfl, by simpa [idxJV, jvInt] using hp, hl⟩
    · obtain ⟨j, y, q, hy, hp, hl⟩ := nodesL_loc post xs rp (i + 1) nd h hn.2 hs.2
      exact ⟨j + 1, y, q, by simpa using hy, by rw [hp]; congr 3; omega, hl⟩
theorem nodesM_loc (post : Bool) : ∀ (kvs : List (Bytes × JV)) (rp : List JV) (nd : List JV × JV), nd ∈ nodesM post rp kvs →
    nodupM kvs → ArrLeM 9223372036854775807 kvs →
    ∃ k y q, (k, y) ∈ kvs ∧ nd.1 = rp.reverse ++ JV.str k :: q ∧ Loc q y nd.2
  | [], _, _, h, _, _ => by simp [nodesM] at h
  | (k0, x0) :: kvs, rp, nd, h, hn, hs => by
    simp only [nodesM, List.mem_append] at h
    simp only [nodupM] at hn
    simp only [ArrLeM] at hs
    rcases h with h | h
    · obtain ⟨q, hp, hl⟩ := nodes_loc post x0 (.str k0 :: rp) nd h hn.2.1 hs.1
      exact ⟨k0, x0, q, by simp, by simpa using hp, hl⟩
    · obtain ⟨k, y, q, hy, hp, hl⟩ := nodesM_loc post kvs rp nd h hn.2.2 hs.2
      exact ⟨k, y, q, List.mem_cons_of_mem _ hy, hp, hl⟩
end

/-- every node of a value with distinct keys and indexable arrays: `getpath` of its path is its value -/
theorem nodes_getpathV (post : Bool) (v : JV) (hn : nodup v) (hs : Indexable v) (nd : List JV × JV)
    (h : nd ∈ nodes post [] v) : getpathV v nd.1 = .ok nd.2 := by
  obtain ⟨q, hq, hl⟩ := nodes_loc post v [] nd h hn hs
  simp only [List.reverse_nil, List.nil_append] at hq
  rw [hq]
  exact getpathV_of_Loc q v nd.2 hl

/-! ### the event of one node -/

/-- the (key, value) pairs `.[]` iterates over; none for scalars -/
def itemsAll (w : JV) : List (JV × JV) := (iterItems w).getD []

/-- `reduce path(.[]?) as $q ([$p, .]; [$p + $q])` at value level: `[p, w]` for a scalar or an empty
    container, `[p + [k]]` for the LAST key `k` of a non-empty one -/
def evOf (p : List JV) (w : JV) : JV :=
  (itemsAll w).foldl (fun _ kw => JV.arr [.arr (p ++ [kw.1])]) (.arr [.arr p, w])

theorem evOf_scalar (p : List JV) (w : JV) (h : iterItems w = none) : evOf p w = .arr [.arr p, w] := by
  simp [evOf, itemsAll, h]

theorem foldl_itemsFrom {β : Type} (F : JV → β) : ∀ (xs : List JV) (i : Nat) (a : β), xs ≠ [] →
    (itemsFrom i xs).foldl (fun _ kw => F kw.1) a = F (jvInt ((i + xs.length - 1 : Nat) : Nat))
  | [], _, _, h => absurd rfl h
  | [x], i, a, _ => by simp [itemsFrom]
  | x :: y :: ys, i, a, _ => by
    rw [itemsFrom, List.foldl_cons, foldl_itemsFrom F (y :: ys) (i + 1) _ (by simp)]
    rw [show i + 1 + (y :: ys).length - 1 = i + (x :: y :: ys).length - 1 from by simp only [List.length_cons]; omega]

theorem foldl_itemsOf {β : Type} (F : JV → β) : ∀ (kvs : List (Bytes × JV)) (a : β) (hne : kvs ≠ []),
    (itemsOf kvs).foldl (fun _ kw => F kw.1) a = F (.str (kvs.getLast hne).1)
  | [], _, h => absurd rfl h
  | [(k, x)], a, _ => by simp [itemsOf]
  | (k, x) :: kv :: kvs, a, _ => by
    have := foldl_itemsOf F (kv :: kvs) (F (.str k)) (by simp)
    simp only [itemsOf, List.map_cons, List.foldl_cons, List.getLast_cons_cons] at this ⊢
    exact this

mutual
/-- `Stream.spec` is: the events of the post-order nodes -/
theorem spec_nodes : ∀ (v : JV) (rp : List JV), spec rp v = (nodes true rp v).map fun nd => evOf nd.1 nd.2
  | .null, rp => rfl
  | .bool _, rp => rfl
  | .num _, rp => rfl
  | .str _, rp => rfl
  | .arr [], rp => rfl
  | .obj [], rp => rfl
  | .arr (x :: xs), rp => by
    have := specL_nodes (x :: xs) rp 0 (by simp)
    simp only [spec, nodes, if_true, List.map_append, List.map_cons, List.map_nil]
    rw [this]
    congr 2
    simp only [evOf, itemsAll, iterItems_arr, Option.getD_some]
    rw [foldl_itemsFrom (fun k => JV.arr [.arr (rp.reverse ++ [k])]) (x :: xs) 0 _ (by simp)]
    simp only [closeEv, pathJV, List.reverse_cons]
    rfl
  | .obj (kv :: kvs), rp => by
    have := specM_nodes (kv :: kvs) rp (by simp)
    simp only [spec, nodes, if_true, List.map_append, List.map_cons, List.map_nil]
    rw [this]
    congr 2
    simp only [evOf, itemsAll, iterItems_obj, Option.getD_some]
    rw [foldl_itemsOf (fun k => JV.arr [.arr (rp.reverse ++ [k])]) (kv :: kvs) _ (by simp)]
    simp only [closeEv, pathJV, List.reverse_cons]
/-- the events of the members of a non-empty array from index `i` on, then the closing event that
    names the last index -/
theorem specL_nodes : ∀ (xs : List JV) (rp : List JV) (i : Nat), xs ≠ [] →
    specL rp i xs = ((nodesL true rp i xs).map fun nd => evOf nd.1 nd.2) ++ [closeEv (idxJV (i + xs.length - 1) :: rp)]
  | [], _, _, h => absurd rfl h
  | [x], rp, i, _ => by
    simp only [specL, nodesL, List.append_nil, spec_nodes x, List.length_cons, List.length_nil, Nat.zero_add, Nat.add_sub_cancel]
    rfl
  | x :: y :: ys, rp, i, _ => by
    simp only [specL, nodesL, List.map_append, spec_nodes x, List.append_assoc]
    rw [specL_nodes (y :: ys) rp (i + 1) (by simp)]
    simp only [nodesL, List.map_append, List.append_assoc]
    rw [show i + 1 + (y :: ys).length - 1 = i + (x :: y :: ys).length - 1 from by simp only [List.length_cons]; omega]
    rfl
/-- the same for the members of a non-empty object -/
theorem specM_nodes : ∀ (kvs : List (Bytes × JV)) (rp : List JV) (hne : kvs ≠ []),
    specM rp kvs = ((nodesM true rp kvs).map fun nd => evOf nd.1 nd.2) ++ [closeEv (.str (kvs.getLast hne).1 :: rp)]
  | [], _, h => absurd rfl h
  | [(k, x)], rp, _ => by
    simp only [specM, nodesM, List.append_nil, spec_nodes x, List.getLast_singleton]
  | (k, x) :: kv :: kvs, rp, _ => by
    simp only [specM, nodesM, List.map_append, spec_nodes x, List.append_assoc]
    rw [specM_nodes (kv :: kvs) rp (by simp)]
    simp only [nodesM, List.map_append, List.append_assoc, List.getLast_cons_cons]
end

/-- `Stream.streamSpec` is: the events of the post-order nodes -/
theorem streamSpec_nodes (v : JV) : streamSpec v = (nodes true [] v).map fun nd => evOf nd.1 nd.2 := spec_nodes v []

end Gojq.Pairs

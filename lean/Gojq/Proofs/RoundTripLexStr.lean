/-
  Lexing printed text, part 5: string literals.  `scanString` runs over everything
  `jsonEncodeString` writes (it writes only valid escapes, and never a bare `"` or `\(`), so a
  printed literal ends at its closing quote and a printed piece of an interpolated string at the
  next `\(` or `"`.
-/
import Gojq.Proofs.RoundTripLexTok3
namespace Gojq.RefTerm
open Gojq Gojq.Lexer Gojq.Generated.Lalr Gojq.Printer

theorem scan_plain (blk : Bytes) (h : ∀ x ∈ blk, x ≠ 92 ∧ x ≠ 34) (Y : Bytes) (k : Nat) :
    scanString (blk ++ Y) k = scanString Y (k + blk.length) := by
  induction blk generalizing k with
  | nil => rfl
  | cons c blk ih =>
    obtain ⟨h1, h2⟩ := h c (by simp)
    rw [List.cons_append, scanString.eq_def]
    simp only [beq_iff_eq, h1, h2, if_false]
    rw [ih (fun x hx => h x (by simp [hx]))]
    simp only [List.length_cons]; congr 1; omega

theorem hexLower_isHex : ∀ n, n < 16 → isHex (hexLower n) = true := by decide

theorem scan_esc2 (e : UInt8) (Y : Bytes) (k : Nat)
    (he : e = 34 ∨ e = 92 ∨ e = 98 ∨ e = 102 ∨ e = 110 ∨ e = 114 ∨ e = 116) :
    scanString (92 :: e :: Y) k = scanString Y (k + 2) := by
  rcases he with rfl | rfl | rfl | rfl | rfl | rfl | rfl <;> (rw [scanString.eq_def]; simp)

theorem scan_escU (a b c d : UInt8) (Y : Bytes) (k : Nat) (ha : isHex a = true) (hb : isHex b = true)
    (hc : isHex c = true) (hd : isHex d = true) :
    scanString (92 :: 117 :: a :: b :: c :: d :: Y) k = scanString Y (k + 6) := by
  rw [scanString.eq_def]; simp [ha, hb, hc, hd]

/-- the escape `encodeBody` writes for a byte it does not copy -/
def escOf (c : UInt8) : Bytes :=
  if c == 34 then [92, 34] else if c == 92 then [92, 92] else if c == 8 then [92, 98]
  else if c == 12 then [92, 102] else if c == 10 then [92, 110] else if c == 13 then [92, 114]
  else if c == 9 then [92, 116]
  else [92, 117, 48, 48, hexLower (c.toNat / 16), hexLower (c.toNat % 16)]

theorem scan_esc (c : UInt8) (Z : Bytes) (k : Nat) :
    scanString (escOf c ++ Z) k = scanString Z (k + (escOf c).length) := by
  have h1 : c.toNat / 16 < 16 := by have := c.toNat_lt; omega
  have h2 : c.toNat % 16 < 16 := by omega
  unfold escOf
  repeat' split
  all_goals first
    | exact scan_esc2 _ Z k (by simp)
    | exact scan_escU _ _ _ _ Z k (by decide) (by decide) (hexLower_isHex _ h1) (hexLower_isHex _ h2)

theorem isCont_ge (b : UInt8) (h : Utf8.isCont b = true) : 128 ≤ b.toNat := by
  simp [Utf8.isCont] at h; omega

theorem ite_ge (c : Prop) [Decidable c] (a b : Nat) (ha : 128 ≤ a) (hb : 128 ≤ b) : 128 ≤ (if c then a else b) := by
  split <;> assumption

/-- a valid multi-byte UTF-8 sequence consists of bytes ≥ 128 -/
theorem decodeRune_valid_bytes (s : Bytes) :
    (Utf8.decodeRune s).2.2 = true → 128 ≤ (s.headD 0).toNat →
    ∀ x ∈ s.take (Utf8.decodeRune s).2.1, 128 ≤ x.toNat := by
  fun_cases Utf8.decodeRune s
  all_goals (intro hv hc x hx)
  all_goals (try (simp at hv; done))
  · rename_i h; simp at hc; omega
  · rename_i h
    simp at hx hc
    rcases hx with rfl | rfl
    · exact hc
    · exact isCont_ge _ h
  · rename_i h
    simp only [Bool.and_eq_true, decide_eq_true_eq] at h
    simp at hx hc
    rcases hx with rfl | rfl | rfl
    · exact hc
    · exact Nat.le_trans (ite_ge _ 160 128 (by decide) (by decide)) h.1.1
    · exact isCont_ge _ h.2
  · rename_i h
    simp only [Bool.and_eq_true, decide_eq_true_eq] at h
    simp at hx hc
    rcases hx with rfl | rfl | rfl | rfl
    · exact hc
    · exact Nat.le_trans (ite_ge _ 144 128 (by decide) (by decide)) h.1.1.1
    · exact isCont_ge _ h.1.2
    · exact isCont_ge _ h.2

/-- an invalid sequence is one byte wide -/
theorem decodeRune_invalid_width (c : UInt8) (r : Bytes) :
    (Utf8.decodeRune (c :: r)).2.2 = false → (Utf8.decodeRune (c :: r)).2.1 = 1 := by
  generalize hs : c :: r = s
  fun_cases Utf8.decodeRune s <;> simp_all

/-- `scanString` runs over everything `encodeBody` writes -/
theorem scan_encodeBody (fuel : Nat) (v : Bytes) : ∀ (Y : Bytes) (k : Nat),
    scanString (encodeBody fuel v ++ Y) k = scanString Y (k + (encodeBody fuel v).length) := by
  fun_induction encodeBody fuel v
  case case1 => intro Y k; rfl
  case case2 => intro Y k; rfl
  case case3 c r hc hp ih =>
    intro Y k
    simp only [Bool.and_eq_true, bne_iff_ne, ne_eq] at hp
    rw [List.cons_append, scanString.eq_def]
    simp only [beq_iff_eq, hp.2, hp.1.2, if_false]
    rw [ih]; simp only [List.length_cons]; congr 1; omega
  case case4 c r hc hp esc ih =>
    intro Y k
    rw [List.append_assoc]
    show scanString (escOf c ++ _) k = scanString Y (k + (escOf c ++ _).length)
    rw [scan_esc, ih, List.length_append, Nat.add_assoc]
  case case5 c r hc _ w ok hx hinv ih =>
    intro Y k
    simp only [List.cons_append, List.nil_append]
    rw [scan_escU 102 102 102 100 _ k (by decide) (by decide) (by decide) (by decide), ih]
    simp only [List.length_cons, List.length_append, List.length_nil]; congr 1; omega
  case case6 c r hc _ w ok hx hval ih =>
    intro Y k
    have hok : ok = true := by
      cases hok : ok
      · have := decodeRune_invalid_width c r (by rw [hx, hok])
        rw [hx] at this
        simp only at this
        simp [hok, this] at hval
      · rfl
    have hc' : 128 ≤ c.toNat := by
      have : ¬ c.toNat < 128 := hc
      omega
    have hb := decodeRune_valid_bytes (c :: r) (by rw [hx, hok]) (by simpa using hc')
    rw [hx] at hb
    simp only at hb
    rw [List.append_assoc, scan_plain _ ?_ _ k, ih, List.length_append, Nat.add_assoc]
    intro x hx'
    have := hb x hx'
    constructor <;> (intro e; subst e; simp at this)

theorem escOf_ne_nil (c : UInt8) : escOf c ≠ [] := by
  unfold escOf; repeat' split
  all_goals simp

theorem encodeBody_ne_nil (v : Bytes) (h : v ≠ []) : encodeBody (v.length + 1) v ≠ [] := by
  cases v with
  | nil => exact absurd rfl h
  | cons c r =>
    unfold encodeBody
    split
    · split
      · simp
      · intro e
        have e' : escOf c ++ _ = [] := e
        exact escOf_ne_nil c (List.append_eq_nil_iff.mp e').1
    · split
      · split
        · simp
        · rename_i w ok hx hval
          have hw : w ≠ 0 := by
            have := (decodeRune_width c r).1
            rw [hx] at this; simp at this; omega
          intro e
          simp at e
          exact hw e.1

theorem take_succ_app (l1 l2 : Bytes) (a : UInt8) : (l1 ++ a :: l2).take (l1.length + 1) = l1 ++ [a] := by
  induction l1 with
  | nil => simp
  | cons x l1 ih => simp [ih]

theorem drop_succ_app (l1 l2 : Bytes) (a : UInt8) : (l1 ++ a :: l2).drop (l1.length + 1) = l2 := by
  induction l1 with
  | nil => simp
  | cons x l1 ih => simp [ih]

theorem classify_str (lv : LVal) : classify false tokString lv = .str lv.token := rfl
theorem classify_chunk (lv : LVal) : classify true tokString lv = .chunk lv.token := rfl

/-! ### the string tokens -/

theorem lx_inStr (r : Bytes) (hne : r ≠ []) :
    lx r true = ((scanStringTok true none r).ty, (scanStringTok true none r).lval,
      r.drop (scanStringTok true none r).n, (scanStringTok true none r).inString.getD true) := by
  have : r.isEmpty = false := by cases r <;> simp_all
  simp [lx, lex, this, commit]

theorem scanTok_quote (r : Bytes) : scanTok false 34 r = scanStringTok false (some 34) r := by
  simp [scanTok, isIdent, isNumber]

/-- a complete string literal -/
theorem step_str (v fol : Bytes) (hv : okLit v = true) :
    LexStep false (encodeString v ++ fol) (.str v) fol false := by
  simp only [okLit, beq_iff_eq] at hv
  generalize hE : encodeBody (v.length + 1) v = E at hv
  have e : encodeString v ++ fol = 34 :: (E ++ 34 :: fol) := by simp [encodeString, hE]
  have hs : scanString (E ++ 34 :: fol) 0 = .quote E.length := by
    rw [← hE, scan_encodeBody, scanString.eq_def]; simp
  rw [e]
  refine step_scan 34 _ fol _ (E.length + 1) (some (34 :: (E ++ [34]))) tokString { token := v }
    (by decide) (by decide) ?_ (by decide) rfl (drop_succ_app E fol 34)
  rw [scanTok_quote]
  simp only [scanStringTok, hs, Bool.not_false, if_true, take_succ_app, List.take_left', hv]

/-- the opening quote of an interpolated string -/
theorem step_strStart (fol : Bytes) (h : stops .strStart fol = true) :
    LexStep false (34 :: fol) .strStart fol true := by
  simp only [stops] at h
  split at h
  · next k hk =>
    exact step_of_scan 34 fol fol .strStart
      { n := 0, token := some [34], ty := tokStringStart, inString := some true } (by decide) (by decide)
      (by rw [scanTok_quote]; simp [scanStringTok, hk]) (by decide) rfl rfl
  · cases h

/-- a literal piece inside an interpolated string -/
theorem step_chunk (v fol : Bytes) (hv : okLit v = true) (hne : v ≠ []) (h : stops (.chunk v) fol = true) :
    LexStep true (encodeBody (v.length + 1) v ++ fol) (.chunk v) fol true := by
  simp only [okLit, beq_iff_eq] at hv
  have hen := encodeBody_ne_nil v hne
  have hs := scan_encodeBody (v.length + 1) v fol 0
  generalize hE : encodeBody (v.length + 1) v = E at hv hen hs
  have hpos : ¬ E.length = 0 := by
    intro e; exact hen (List.length_eq_zero_iff.mp e)
  have hne' : E ++ fol ≠ [] := by simp [hen]
  simp only [Nat.zero_add] at hs
  have hsc : scanStringTok true none (E ++ fol) =
      { n := E.length, token := some E, ty := tokString, lval := { token := v } } := by
    simp only [stops] at h
    split at h
    · next r' =>
      have hq : scanString (34 :: r') E.length = .quote E.length := by rw [scanString.eq_def]; simp
      simp only [scanStringTok, hs, hq]
      simp [Nat.pos_of_ne_zero hpos, hv]
    · next r' =>
      have hq : scanString (92 :: 40 :: r') E.length = .interp E.length := by rw [scanString.eq_def]; simp
      simp only [scanStringTok, hs, hq]
      simp [hpos, hv]
    · cases h
  unfold LexStep
  rw [lx_inStr _ hne', hsc]
  exact ⟨by show (tokString == eof) = false; decide, rfl, by simp, rfl⟩

theorem step_strQuery (fol : Bytes) : LexStep true (92 :: 40 :: fol) .strQuery fol false := by
  have hq : scanString (92 :: 40 :: fol) 0 = .interp 0 := by rw [scanString.eq_def]; simp
  have hsc : scanStringTok true none (92 :: 40 :: fol) =
      { n := 2, token := none, ty := tokStringQuery, inString := some false } := by
    simp [scanStringTok, hq]
  unfold LexStep
  rw [lx_inStr _ (by simp), hsc]
  exact ⟨by show (tokStringQuery == eof) = false; decide, rfl, rfl, rfl⟩

theorem step_strEnd (fol : Bytes) : LexStep true (34 :: fol) .strEnd fol false := by
  have hq : scanString (34 :: fol) 0 = .quote 0 := by rw [scanString.eq_def]; simp
  have hsc : scanStringTok true none (34 :: fol) =
      { n := 1, token := none, ty := tokStringEnd, inString := some false } := by
    simp [scanStringTok, hq]
  unfold LexStep
  rw [lx_inStr _ (by simp), hsc]
  exact ⟨by show (tokStringEnd == eof) = false; decide, rfl, rfl, rfl⟩

end Gojq.RefTerm

/-
  The relation between the environments of two runs that the peephole rewrites keep.

  `push x; pop` is NOT the identity on stack.go's representation (the pushed block stays in the
  array above the live region), and `dup; const v` leaves the data stack at a different slot than
  `push v` when the duplicated value lies under a fork's `limit` (the copy goes above the limit).
  So the two runs are related by what the persistent stack DENOTES: the list of values along the
  `next` chain from `index` (`Chain`), and for every pending fork the list its saved `index`
  denotes; everything else (paths, scopes, values, registers, fork pcs) is equal.  Each side also
  carries stack.go's protection invariant (`FW`): a pending fork's chain lies at or below the
  `limit` in force, so a push (which writes at `max(index, limit) + 1`) never clobbers it.
-/
import Gojq.Model.OptVM
set_option linter.unusedSimpArgs false
set_option linter.unusedVariables false
namespace Gojq.OptVM
open Gojq Gojq.VM

/-- `xs` is the list of values along the `next` chain from slot `i`; links strictly decrease -/
inductive Chain (data : Array (Block V)) : Int → List V → Prop
  | nil {i : Int} : i < 0 → Chain data i []
  | cons {i : Int} {v : V} {nx : Int} {xs : List V} :
      0 ≤ i → data[i.toNat]? = some ⟨v, nx⟩ → nx < i → Chain data nx xs → Chain data i (v :: xs)

/-- a chain only depends on the slots at or below its start -/
theorem Chain.frame {d d' : Array (Block V)} {i : Int} {xs : List V} (h : Chain d i xs)
    (hd : ∀ j : Nat, (j : Int) ≤ i → d'[j]? = d[j]?) : Chain d' i xs := by
  induction h with
  | nil hi => exact .nil hi
  | cons h0 hb hn _ ih =>
    refine .cons h0 ?_ hn (ih ?_)
    · rw [hd _ (by omega)]; exact hb
    · intro j hj; exact hd j (by omega)

theorem Chain.index_lt {d : Array (Block V)} {i : Int} {xs : List V} (h : Chain d i xs) : i < d.size := by
  cases h with
  | nil hi => omega
  | cons h0 hb hn _ =>
    have := (Array.getElem?_eq_some_iff.mp hb).1
    omega

/-! ## `Stack.push` -/

theorem push_spec (s : Stack V) (v : V) (h1 : -1 ≤ s.limit) (h2 : s.limit < s.data.size)
    (h3 : s.index < s.data.size) :
    (s.push v).index = max s.index s.limit + 1 ∧ (s.push v).limit = s.limit ∧
    (s.push v).data[(max s.index s.limit + 1).toNat]? = some ⟨v, s.index⟩ ∧
    (∀ j : Nat, (j : Int) ≤ max s.index s.limit → (s.push v).data[j]? = s.data[j]?) ∧
    s.data.size ≤ (s.push v).data.size := by
  unfold Stack.push
  simp only
  split
  · rename_i hlt
    refine ⟨rfl, rfl, ?_, ?_, by simp⟩
    · simp [Array.getElem?_setIfInBounds, hlt]
    · intro j hj
      rw [Array.getElem?_setIfInBounds_ne]
      omega
  · rename_i hge
    have heq : (max s.index s.limit + 1).toNat = s.data.size := by omega
    refine ⟨rfl, rfl, ?_, ?_, by simp⟩
    · rw [heq]; simp
    · intro j hj
      have : j < s.data.size := by omega
      rw [Array.getElem?_push_lt this]
      simp [this]

/-! ## forks -/

/-- stack.go's protection invariant on the pending forks: the newest fork saved an index and a
    limit at or below the limit in force, and the older forks are protected by the limit it saved -/
def FW : List Fork → Int → Prop
  | [], _ => True
  | f :: rest, m => f.stackindex ≤ m ∧ f.stacklimit ≤ m ∧ -1 ≤ f.stacklimit ∧ FW rest f.stacklimit

theorem FW.mono : ∀ {fs : List Fork} {m m' : Int}, FW fs m → m ≤ m' → FW fs m'
  | [], _, _, _, _ => trivial
  | f :: rest, m, m', h, hm => ⟨Int.le_trans h.1 hm, Int.le_trans h.2.1 hm, h.2.2.1, h.2.2.2⟩

theorem FW.index_le : ∀ {fs : List Fork} {m : Int}, FW fs m → ∀ f ∈ fs, f.stackindex ≤ m
  | [], _, _, f, hf => by simp at hf
  | g :: rest, m, h, f, hf => by
    simp only [List.mem_cons] at hf
    rcases hf with rfl | hf
    · exact h.1
    · exact FW.index_le (FW.mono h.2.2.2 h.2.1) f hf

/-- the parts of a fork record other than the saved data-stack index and limit -/
def ForkCore (f g : Fork) : Prop :=
  f.pc = g.pc ∧ f.scopeindex = g.scopeindex ∧ f.scopelimit = g.scopelimit ∧
  f.pathindex = g.pathindex ∧ f.pathlimit = g.pathlimit ∧ f.offset = g.offset ∧ f.expdepth = g.expdepth

/-- corresponding forks restore the same data-stack contents -/
def ForksRel (da db : Array (Block V)) : List Fork → List Fork → Prop
  | [], [] => True
  | f :: fs, g :: gs =>
    ForkCore f g ∧ (∃ xs, Chain da f.stackindex xs ∧ Chain db g.stackindex xs) ∧ ForksRel da db fs gs
  | _, _ => False

theorem ForksRel.frame {da db da' db' : Array (Block V)} {ma mb : Int} :
    ∀ {fs gs : List Fork}, ForksRel da db fs gs →
    (∀ f ∈ fs, f.stackindex ≤ ma) → (∀ g ∈ gs, g.stackindex ≤ mb) →
    (∀ j : Nat, (j : Int) ≤ ma → da'[j]? = da[j]?) → (∀ j : Nat, (j : Int) ≤ mb → db'[j]? = db[j]?) →
    ForksRel da' db' fs gs
  | [], [], _, _, _, _, _ => trivial
  | [], _ :: _, h, _, _, _, _ => h.elim
  | _ :: _, [], h, _, _, _, _ => h.elim
  | f :: fs, g :: gs, h, ha, hb, hda, hdb => by
    obtain ⟨hc, ⟨xs, c1, c2⟩, hr⟩ := h
    have hf := ha f (by simp)
    have hg := hb g (by simp)
    refine ⟨hc, ⟨xs, c1.frame (fun j hj => hda j (by omega)), c2.frame (fun j hj => hdb j (by omega))⟩, ?_⟩
    exact ForksRel.frame hr (fun f' hf' => ha f' (by simp [hf'])) (fun g' hg' => hb g' (by simp [hg'])) hda hdb

/-! ## the relation -/

/-- the data stacks and fork lists of the two runs denote the same contents, and each side keeps
    stack.go's protection invariant -/
structure SRel (a : Stack V) (fa : List Fork) (b : Stack V) (fb : List Fork) : Prop where
  chain : ∃ xs, Chain a.data a.index xs ∧ Chain b.data b.index xs
  forks : ForksRel a.data b.data fa fb
  la : -1 ≤ a.limit ∧ a.limit < a.data.size
  lb : -1 ≤ b.limit ∧ b.limit < b.data.size
  fwa : FW fa a.limit
  fwb : FW fb b.limit

/-- everything but the data stack and the fork list is equal; those two denote the same -/
def EnvRel (e e' : Env) : Prop :=
  e' = { e with stack := e'.stack, forks := e'.forks } ∧ SRel e.stack e.forks e'.stack e'.forks

theorem EnvRel.mk' {e : Env} {st : Stack V} {fk : List Fork} (h : SRel e.stack e.forks st fk) :
    EnvRel e { e with stack := st, forks := fk } := ⟨rfl, h⟩

theorem EnvRel.elim {e e' : Env} (h : EnvRel e e') :
    ∃ st fk, e' = { e with stack := st, forks := fk } ∧ SRel e.stack e.forks st fk :=
  ⟨_, _, h.1, h.2⟩

theorem SRel.push {a b : Stack V} {fa fb : List Fork} (h : SRel a fa b fb) (v : V) :
    SRel (a.push v) fa (b.push v) fb := by
  obtain ⟨⟨xs, c1, c2⟩, hf, la, lb, fwa, fwb⟩ := h
  obtain ⟨a1, a2, a3, a4, a5⟩ := push_spec a v la.1 la.2 c1.index_lt
  obtain ⟨b1, b2, b3, b4, b5⟩ := push_spec b v lb.1 lb.2 c2.index_lt
  refine ⟨⟨v :: xs, ?_, ?_⟩, ?_, ?_, ?_, ?_, ?_⟩
  · rw [a1]
    exact .cons (by omega) a3 (by omega) (c1.frame (fun j hj => a4 j (by omega)))
  · rw [b1]
    exact .cons (by omega) b3 (by omega) (c2.frame (fun j hj => b4 j (by omega)))
  · exact hf.frame (FW.index_le fwa) (FW.index_le fwb) (fun j hj => a4 j (by omega)) (fun j hj => b4 j (by omega))
  · rw [a2]; exact ⟨la.1, by omega⟩
  · rw [b2]; exact ⟨lb.1, by omega⟩
  · rw [a2]; exact fwa
  · rw [b2]; exact fwb

/-- both pops fail, or both succeed with the same value and related rests -/
theorem SRel.pop {a b : Stack V} {fa fb : List Fork} (h : SRel a fa b fb) :
    (a.pop? = none ∧ b.pop? = none) ∨
    ∃ v a' b', a.pop? = some (v, a') ∧ b.pop? = some (v, b') ∧ SRel a' fa b' fb ∧
      a'.data = a.data ∧ b'.data = b.data := by
  obtain ⟨⟨xs, c1, c2⟩, hf, la, lb, fwa, fwb⟩ := h
  cases c1 with
  | nil hi =>
    cases c2 with
    | nil hj =>
      left
      unfold Stack.pop? Stack.blockAt?
      simp [Int.not_le.mpr hi, Int.not_le.mpr hj]
  | @cons _ v nx xs h0 hb hn ct =>
    cases c2 with
    | @cons _ _ ny _ g0 gb gn dt =>
      right
      refine ⟨v, { a with index := nx }, { b with index := ny }, ?_, ?_, ⟨⟨_, ct, dt⟩, hf, la, lb, fwa, fwb⟩, rfl, rfl⟩
      · unfold Stack.pop? Stack.blockAt?
        simp [h0, hb]
      · unfold Stack.pop? Stack.blockAt?
        simp [g0, gb]

theorem SRel.top {a b : Stack V} {fa fb : List Fork} (h : SRel a fa b fb) : a.top? = b.top? := by
  obtain ⟨⟨xs, c1, c2⟩, _⟩ := h
  cases c1 with
  | nil hi =>
    cases c2 with
    | nil hj =>
      unfold Stack.top? Stack.blockAt?
      simp [Int.not_le.mpr hi, Int.not_le.mpr hj]
  | cons h0 hb hn ct =>
    cases c2 with
    | cons g0 gb gn dt =>
      unfold Stack.top? Stack.blockAt?
      simp [h0, hb, g0, gb]

theorem save_facts (s : Stack V) :
    s.save.1 = (s.index, s.limit) ∧ s.save.2.data = s.data ∧ s.save.2.index = s.index ∧
    s.save.2.limit = max s.index s.limit := by
  unfold Stack.save
  by_cases h : s.index > s.limit
  · rw [if_pos h]
    refine ⟨rfl, rfl, rfl, ?_⟩
    show s.index = _
    omega
  · rw [if_neg h]
    refine ⟨rfl, rfl, rfl, ?_⟩
    show s.limit = _
    omega

/-- `pushfork`: both sides save their index and limit in a new fork -/
theorem SRel.save {a b : Stack V} {fa fb : List Fork} (h : SRel a fa b fb) (f g : Fork)
    (hc : ForkCore f g) (hf1 : f.stackindex = a.save.1.1) (hf2 : f.stacklimit = a.save.1.2)
    (hg1 : g.stackindex = b.save.1.1) (hg2 : g.stacklimit = b.save.1.2) :
    SRel a.save.2 (f :: fa) b.save.2 (g :: fb) := by
  obtain ⟨⟨xs, c1, c2⟩, hf, la, lb, fwa, fwb⟩ := h
  obtain ⟨a0, a1, a2, a3⟩ := save_facts a
  obtain ⟨b0, b1, b2, b3⟩ := save_facts b
  rw [a0] at hf1 hf2
  rw [b0] at hg1 hg2
  simp only at hf1 hf2 hg1 hg2
  have hi1 := c1.index_lt
  have hi2 := c2.index_lt
  refine ⟨⟨xs, ?_, ?_⟩, ⟨hc, ⟨xs, ?_, ?_⟩, ?_⟩, ?_, ?_, ?_, ?_⟩
  · rw [a1, a2]; exact c1
  · rw [b1, b2]; exact c2
  · rw [a1, hf1]; exact c1
  · rw [b1, hg1]; exact c2
  · rw [a1, b1]; exact hf
  · rw [a1, a3]; omega
  · rw [b1, b3]; omega
  · rw [a3]; exact ⟨by omega, by omega, by omega, by rw [hf2]; exact fwa⟩
  · rw [b3]; exact ⟨by omega, by omega, by omega, by rw [hg2]; exact fwb⟩

/-- `popfork`: both sides restore the index and limit their newest fork saved -/
theorem SRel.restore {a b : Stack V} {f g : Fork} {fa fb : List Fork} (h : SRel a (f :: fa) b (g :: fb)) :
    ForkCore f g ∧
    SRel (a.restore f.stackindex f.stacklimit) fa (b.restore g.stackindex g.stacklimit) fb := by
  obtain ⟨_, ⟨hc, ⟨xs, c1, c2⟩, hr⟩, la, lb, fwa, fwb⟩ := h
  refine ⟨hc, ⟨xs, c1, c2⟩, hr, ?_, ?_, fwa.2.2.2, fwb.2.2.2⟩
  · show -1 ≤ f.stacklimit ∧ f.stacklimit < a.data.size
    have := fwa.2.1; have := fwa.2.2.1; omega
  · show -1 ≤ g.stacklimit ∧ g.stacklimit < b.data.size
    have := fwb.2.1; have := fwb.2.2.1; omega

end Gojq.OptVM

/-
  The image of the reference parser is Printable, part 2: the step lemmas for the list-like and
  delimited parser functions.
-/
import Gojq.Proofs.RoundTripImage2
namespace Gojq.RefTerm
open Gojq Gojq.Lexer

macro "ext_do " h:ident : tactic =>
  `(tactic| simp only [Option.bind_eq_bind, Option.bind_eq_some_iff, Option.some.injEq, Prod.mk.injEq, Prod.exists] at $h:ident)

theorem one_le_three (_ : true = true) : 1 ≤ 3 := by omega

theorem step_ifRest (f : Nat) (ih : IH f) : ∀ (ts : List Tok) (r : IfRest) (rest : List Tok),
    pIfRest (f + 1) ts = some (r, rest) → Good ts → okIf r = true ∧ Good rest := by
  intro ts r rest h hg
  unfold pIfRest at h
  split at h
  · simp at h; obtain ⟨rfl, rfl⟩ := h; exact ⟨rfl, hg.tail⟩
  · ext_do h
    obtain ⟨e, b, h1, a1, h2, rfl, rfl⟩ := h
    obtain ⟨p1, p2, _, _⟩ := ih.climb true 1 _ e b h1 hg.tail (fun _ => by omega)
    have := expect_some h2; subst this
    exact ⟨by simpa [okIf] using p1, p2.tail⟩
  · ext_do h
    obtain ⟨cnd, b, h1, a1, h2, t, b2, h3, r', b3, h4, rfl, rfl⟩ := h
    obtain ⟨p1, p2, _, _⟩ := ih.climb true 1 _ cnd b h1 hg.tail (fun _ => by omega)
    have := expect_some h2; subst this
    obtain ⟨q1, q2, _, _⟩ := ih.climb true 1 _ t b2 h3 p2.tail (fun _ => by omega)
    obtain ⟨r1, r2⟩ := ih.ifRest _ r' _ h4 q2
    exact ⟨by simp [okIf, p1, q1, r1], r2⟩
  · cases h

theorem step_argsT (f : Nat) (ih : IH f) : ∀ (ts : List Tok) (qs : List Query) (rest : List Tok),
    pArgsT (f + 1) ts = some (qs, rest) → Good ts → okQs qs = true ∧ Good rest := by
  intro ts qs rest h hg
  unfold pArgsT at h
  split at h
  · simp at h; obtain ⟨rfl, rfl⟩ := h; exact ⟨rfl, hg.tail⟩
  · ext_do h
    obtain ⟨q, b, h1, qs', b2, h2, rfl, rfl⟩ := h
    obtain ⟨p1, p2, _, _⟩ := ih.climb true 1 _ q b h1 hg.tail (fun _ => by omega)
    obtain ⟨r1, r2⟩ := ih.argsT _ qs' _ h2 p2
    exact ⟨by simp [okQs, p1, r1], r2⟩
  · cases h

theorem step_psT (f : Nat) (ih : IH f) : ∀ (ts : List Tok) (ps : List Pattern) (rest : List Tok),
    pPsT (f + 1) ts = some (ps, rest) → Good ts → okPs ps = true ∧ Good rest := by
  intro ts ps rest h hg
  unfold pPsT at h
  split at h
  · simp at h; obtain ⟨rfl, rfl⟩ := h; exact ⟨rfl, hg.tail⟩
  · ext_do h
    obtain ⟨p, b, h1, ps', b2, h2, rfl, rfl⟩ := h
    obtain ⟨p1, p2⟩ := ih.pattern _ p b h1 hg.tail
    obtain ⟨r1, r2⟩ := ih.psT _ ps' _ h2 p2
    exact ⟨by simp [okPs, p1, r1], r2⟩
  · cases h

theorem step_altT (f : Nat) (ih : IH f) : ∀ (ts : List Tok) (ps : List Pattern) (rest : List Tok),
    pAltT (f + 1) ts = some (ps, rest) → Good ts → okPs ps = true ∧ Good rest := by
  intro ts ps rest h hg
  unfold pAltT at h
  split at h
  · ext_do h
    obtain ⟨p, b, h1, ps', b2, h2, rfl, rfl⟩ := h
    obtain ⟨p1, p2⟩ := ih.pattern _ p b h1 hg.tail
    obtain ⟨r1, r2⟩ := ih.altT _ ps' _ h2 p2
    exact ⟨by simp [okPs, p1, r1], r2⟩
  · simp at h; obtain ⟨rfl, rfl⟩ := h; exact ⟨rfl, hg⟩

theorem step_pkvsT (f : Nat) (ih : IH f) : ∀ (ts : List Tok) (kvs : List PKV) (rest : List Tok),
    pPKVsT (f + 1) ts = some (kvs, rest) → Good ts → okPKVs kvs = true ∧ Good rest := by
  intro ts kvs rest h hg
  unfold pPKVsT at h
  split at h
  · simp at h; obtain ⟨rfl, rfl⟩ := h; exact ⟨rfl, hg.tail⟩
  · ext_do h
    obtain ⟨kv, b, h1, kvs', b2, h2, rfl, rfl⟩ := h
    obtain ⟨p1, p2⟩ := ih.pkv _ kv b h1 hg.tail
    obtain ⟨r1, r2⟩ := ih.pkvsT _ kvs' _ h2 p2
    exact ⟨by simp [okPKVs, p1, r1], r2⟩
  · cases h

theorem step_kvsT (f : Nat) (ih : IH f) : ∀ (ts : List Tok) (kvs : List KV) (rest : List Tok),
    pKVsT (f + 1) ts = some (kvs, rest) → Good ts → okKVs kvs = true ∧ Good rest := by
  intro ts kvs rest h hg
  unfold pKVsT at h
  split at h
  · simp at h; obtain ⟨rfl, rfl⟩ := h; exact ⟨rfl, hg.tail⟩
  · simp at h; obtain ⟨rfl, rfl⟩ := h; exact ⟨rfl, hg.tail2⟩
  · ext_do h
    obtain ⟨kv, b, h1, kvs', b2, h2, rfl, rfl⟩ := h
    obtain ⟨p1, p2⟩ := ih.kv _ kv b h1 hg.tail
    obtain ⟨r1, r2⟩ := ih.kvsT _ kvs' _ h2 p2
    exact ⟨by simp [okKVs, p1, r1], r2⟩
  · cases h

theorem step_pattern (f : Nat) (ih : IH f) : ∀ (ts : List Tok) (p : Pattern) (rest : List Tok),
    pPattern (f + 1) ts = some (p, rest) → Good ts → okP p = true ∧ Good rest := by
  intro ts p rest h hg
  unfold pPattern at h
  split at h
  · simp at h; obtain ⟨rfl, rfl⟩ := h
    exact ⟨by simpa [okP, Tok.wf, Tok.wfI] using hg.head, hg.tail⟩
  · ext_do h
    obtain ⟨p0, b, h1, ps, b2, h2, rfl, rfl⟩ := h
    obtain ⟨p1, p2⟩ := ih.pattern _ p0 b h1 hg.tail
    obtain ⟨r1, r2⟩ := ih.psT _ ps _ h2 p2
    exact ⟨by simp [okP, okPs, p1, r1], r2⟩
  · ext_do h
    obtain ⟨kv, b, h1, kvs, b2, h2, rfl, rfl⟩ := h
    obtain ⟨p1, p2⟩ := ih.pkv _ kv b h1 hg.tail
    obtain ⟨r1, r2⟩ := ih.pkvsT _ kvs _ h2 p2
    exact ⟨by simp [okP, okPKVs, p1, r1], r2⟩
  · cases h

theorem step_objVal (f : Nat) (ih : IH f) : ∀ (ts : List Tok) (v : Query) (rest : List Tok),
    pObjVal (f + 1) ts = some (v, rest) → Good ts → okOV v = true ∧ Good rest := by
  intro ts v rest h hg
  unfold pObjVal at h
  ext_do h
  obtain ⟨e, b, h1, h2⟩ := h
  obtain ⟨p1, p2, _, _⟩ := ih.climb false 3 _ e b h1 hg (fun hh => by cases hh)
  split at h2
  · ext_do h2
    obtain ⟨r, b2, h3, rfl, rfl⟩ := h2
    obtain ⟨r1, r2⟩ := ih.objVal _ r _ h3 p2.tail
    refine ⟨?_, r2⟩
    simp [okOV, p1, r1, closedQ_of_ok e 3 (Nat.le_refl _) p1]
  · simp at h2; obtain ⟨rfl, rfl⟩ := h2
    exact ⟨okOV_of_okQ3 e p1, p2⟩

theorem wf_str {v : Bytes} (h : (Tok.str v).wfI = true) : okLit v = true := h
theorem wf_var {v : Bytes} (h : (Tok.var v).wfI = true) : isVarName v = true := h

theorem okS_interp {ts : List Tok} (ps : List Part) (h1 : okParts ps = true) (h2 : partsShape ps = true)
    (h3 : FirstQ ts ps) (hg : Good (.strStart :: ts)) : okS (.interp ps) = true := by
  have hq : hasQ ps = true := by
    have hs := hg.2
    simp only [shapeOK] at hs
    split at hs
    · next r' =>
      obtain ⟨q, ps', e⟩ := h3.1 _ rfl
      subst e; rfl
    · next v r' =>
      obtain ⟨q, ps', e⟩ := h3.2.1 _ _ rfl
      subst e; rfl
    · cases hs
  simp [okS, h1, h2, hq]

theorem step_parts (f : Nat) (ih : IH f) : ∀ (ts : List Tok) (ps : List Part) (rest : List Tok),
    pParts (f + 1) ts = some (ps, rest) → Good ts →
      okParts ps = true ∧ Good rest ∧ partsShape ps = true ∧ FirstQ ts ps := by
  intro ts ps rest h hg
  unfold pParts at h
  split at h
  · next v rest' =>
    ext_do h
    obtain ⟨ps2, b, h1, rfl, rfl⟩ := h
    obtain ⟨p1, p2, p3, p4⟩ := ih.parts _ ps2 b h1 hg.tail
    have hwf := hg.head
    simp only [Tok.wfI, Tok.wf, Bool.and_eq_true] at hwf
    refine ⟨by simp [okParts, okPart, hwf.1, hwf.2, p1], p2, ?_, ?_, ?_, ?_⟩
    · cases ps2 with
      | nil => rfl
      | cons p ps3 =>
        cases p with
        | q q => simpa [partsShape] using p3
        | lit w =>
          exfalso
          obtain ⟨r, e⟩ := p4.2.2 w ps3 rfl
          subst e
          have := hg.2
          simp [shapeOK] at this
    · intro r e; cases e
    · intro v' r e
      injection e with e1 e2
      injection e1 with e1
      subst e1 e2
      obtain ⟨q, ps', e⟩ := p4.1 _ rfl
      exact ⟨q, ps', by rw [e]⟩
    · intro v' ps' e
      injection e with e1 _
      injection e1 with e1
      subst e1
      exact ⟨_, rfl⟩
  · next rest' =>
    ext_do h
    obtain ⟨q, b, h1, a1, h2, ps2, b2, h3, rfl, rfl⟩ := h
    obtain ⟨p1, p2, _, _⟩ := ih.climb true 1 _ q b h1 hg.tail (fun _ => by omega)
    have := expect_some h2; subst this
    obtain ⟨r1, r2, r3, _⟩ := ih.parts _ ps2 _ h3 p2.tail
    refine ⟨by simp [okParts, okPart, p1, r1], r2, by simpa [partsShape] using r3, ?_, ?_, ?_⟩
    · intro r e; exact ⟨q, ps2, rfl⟩
    · intro v r e; cases e
    · intro v ps' e; cases e
  · simp at h; obtain ⟨rfl, rfl⟩ := h
    refine ⟨rfl, hg.tail, rfl, ?_, ?_, ?_⟩
    · intro r e; cases e
    · intro v r e; cases e
    · intro v ps' e; cases e
  · cases h

end Gojq.RefTerm

/-
  C04, groundwork (see Proofs/TailClosParam.lean): all opcodes together (`exec_param`) and one whole
  turn of the loop of `Next` (`stepE_param`): unless the turn executes `callpc`, two runs whose
  environments differ only in closure indices make the same turn.
-/
import Gojq.Proofs.TailClosParamOps
set_option linter.unusedSimpArgs false
set_option linter.unusedVariables false
namespace Gojq.CloParam
open Gojq Gojq.VM Gojq.OptVM

/-- EVERY OPCODE BUT `callpc`: from related environments and related locals, the same failure on both
    sides, or the same control result, related locals and related environments.  The side condition
    is used by `opforklabel` only (Go's `==` on the value of a `break` error and the label: two
    closures would be compared index by index); on real runs break values are label numbers. -/
theorem exec_param (ins : Instr) (hins : ins ≠ .callpc) (x : ExtRec) {l l' : L} (hl : LR l l')
    (hE : ∀ n p i, l.err ≠ some (.brk n (.clo p i))) : PC CLR (exec ins x l) (exec ins x l') := by
  cases ins with
  | nop => exact exec_param_nop x hl
  | push v => exact exec_param_push v x hl
  | pop => exact exec_param_pop x hl
  | dup => exact exec_param_dup x hl
  | const v => exact exec_param_const v x hl
  | load a b => exact exec_param_load a b x hl
  | store a b => exact exec_param_store a b x hl
  | object n => exact exec_param_object n x hl
  | append a b => exact exec_param_append a b x hl
  | fork t => exact exec_param_fork t x hl
  | forktrybegin t => exact exec_param_forktrybegin t x hl
  | forktryend => exact exec_param_forktryend x hl
  | forkalt t => exact exec_param_forkalt t x hl
  | forklabel a b => exact exec_param_forklabel a b x hl hE
  | backtrack => exact exec_param_backtrack x hl
  | jump t => exact exec_param_jump t x hl
  | jumpifnot t => exact exec_param_jumpifnot t x hl
  | index k => exact exec_param_index k x hl
  | indexarray k => exact exec_param_indexarray k x hl
  | call t => exact exec_param_call t x hl
  | callNative k a => exact exec_param_callNative k a x hl
  | callrec t => exact exec_param_callrec t x hl
  | pushpc t => exact exec_param_pushpc t x hl
  | callpc => exact absurd rfl hins
  | scope a b c => exact exec_param_scope a b c x hl
  | ret => exact exec_param_ret x hl
  | iter => exact exec_param_iter x hl
  | expbegin => exact exec_param_expbegin x hl
  | expend => exact exec_param_expend x hl
  | pathbegin => exact exec_param_pathbegin x hl
  | pathend => exact exec_param_pathend x hl
  | bad => exact exec_param_bad x hl

/-! ## one turn -/

/-- outcomes of `Next`, equal up to closure indices -/
def OutR : Outcome → Outcome → Prop
  | .value v, .value v' => VR v v'
  | .error e, .error e' => ER e e'
  | .done, .done => True
  | .ctxErr, .ctxErr => True
  | .panic s, .panic s' => s = s'
  | .stuck w, .stuck w' => w = w'
  | .outOfFuel, .outOfFuel => True
  | _, _ => False

def StepR : StepE → StepE → Prop
  | .cont l e, .cont l' e' => LR l l' ∧ PRel e e'
  | .fin o e, .fin o' e' => OutR o o' ∧ PRel e e'
  | _, _ => False

theorem PRel.saveE {e e' : Env} (h : PRel e e') (pc : Int) : PRel (saveE e pc) (saveE e' pc) :=
  h.other (fun e => OptVM.saveE e pc) (fun _ _ _ _ => rfl) (fun _ => ⟨rfl, rfl, rfl⟩)

theorem PRel.popfork {e e' : Env} (h : PRel e e') (f : Fork) (rest : List Fork) :
    PRel (popfork f rest e).1 (popfork f rest e').1 ∧ (popfork f rest e).2 = (popfork f rest e').2 := by
  unfold VM.popfork
  refine ⟨⟨h.stack.restore _ _, h.paths.restore _ _, h.values, ?_⟩, rfl⟩
  simp only
  rw [h.scopes]
  have := h.rest
  rw [this]

theorem unwindE_param (size : Nat) {l l' : L} (hl : LR l l') {e e' : Env} (he : PRel e e') :
    StepR (unwindE size l e) (unwindE size l' e') := by
  obtain ⟨pc, cp, ix, bt, er, er', rfl, rfl, herr⟩ := hl.elim
  unfold unwindE
  rw [he.forks]
  cases e.forks with
  | nil =>
    cases er <;> cases er' <;> simp only [OR] at herr
    · exact ⟨trivial, he.saveE _⟩
    · exact ⟨herr, he.saveE _⟩
  | cons f rest =>
    obtain ⟨h1, h2⟩ := he.popfork f rest
    simp only
    rw [← h2]
    exact ⟨LR.mk' herr, h1⟩

/-- ONE TURN.  Unless the instruction at `l.pc` is `callpc`, the turn from related locals and
    environments ends the call with related outcomes, or continues with related locals and
    environments. -/
theorem stepE_param (c : Array Instr) (x : ExtRec) {l l' : L} (hl : LR l l') {e e' : Env} (he : PRel e e')
    (hins : c.getD l.pc.toNat .bad ≠ .callpc) (hE : ∀ n p i, l.err ≠ some (.brk n (.clo p i))) :
    StepR (stepE c x l e) (stepE c x l' e') := by
  have hpc : l'.pc = l.pc := by rw [hl.rest]
  unfold stepE
  rw [hpc]
  split
  · split
    · exact ⟨rfl, he.saveE _⟩
    · have := exec_param _ hins x hl hE e e' he
      cases h1 : exec (c.getD l.pc.toNat .bad) x l e <;> cases h2 : exec (c.getD l.pc.toNat .bad) x l' e' <;>
        rw [h1, h2] at this <;> simp only [RR] at this
      · rename_i r e1 r' e1'
        obtain ⟨⟨hc, hl1⟩, he1⟩ := this
        obtain ⟨ctl, l1⟩ := r
        obtain ⟨ctl', l1'⟩ := r'
        replace hc : CR ctl ctl' := hc
        replace hl1 : LR l1 l1' := hl1
        have hpc1 : l1'.pc = l1.pc := by rw [hl1.rest]
        cases ctl <;> cases ctl' <;> simp only [CR] at hc
        · obtain ⟨pc, cp, ix, bt, er, er', rfl, rfl, herr⟩ := hl1.elim
          exact ⟨LR.mk' herr, he1⟩
        · exact ⟨hl1, he1⟩
        · exact unwindE_param _ hl1 he1
        · simp only
          rw [hpc1]
          exact ⟨hc, he1.saveE _⟩
      · subst this; exact ⟨rfl, he.saveE _⟩
      · subst this; exact ⟨rfl, he.saveE _⟩
  · exact unwindE_param _ hl he

/-! ## the relation is reflexive -/

theorem AR.refl {α : Type} {R : α → α → Prop} (hR : ∀ a, R a a) (a : Array α) : AR R a a :=
  ⟨rfl, fun i x x' hx hx' => by rw [hx] at hx'; cases hx'; exact hR x⟩

theorem SR.refl (s : Stack V) : SR s s := ⟨rfl, rfl, AR.refl (fun b => ⟨rfl, .refl _⟩) _⟩

theorem PRel.refl (e : Env) : PRel e e := ⟨SR.refl _, SR.refl _, AR.refl VR.refl _, rfl⟩

end Gojq.CloParam

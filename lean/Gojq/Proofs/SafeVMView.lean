/-
  C08 (bytecode checker): the abstract view of an interpreter environment and what each primitive
  of the loop does to it.

  `View e A`  — the data stack and the scope stack of `e` denote the lists `A.stk`, `A.frames`, and
                the i-th pending fork restores the lists `A.forks[i].stk`, `A.forks[i].frames`.
  `GInv S e`  — facts about ALL blocks ever written (live or not), monotone in time: every scope
                block links to its caller through `next = saveindex`, its variable slots lie inside
                `values`, its `outerindex` is a slot; every closure value anywhere points at a
                checked function entry and at a slot of the scope array; every `[]pathValue` is
                non-empty.
  `WP`        — partial-correctness weakest precondition where a panic must be an UNCOVERED site.
-/
import Gojq.Model.SafeVM
import Gojq.Proofs.SafeVMStack
set_option linter.unusedSimpArgs false
set_option linter.unusedVariables false
namespace Gojq.SafeVM
open Gojq Gojq.VM

/-! ## static context -/

structure SC where
  code : Array Shape
  nvars : Nat
  ann : Ann

def SC.tab (S : SC) : List (Int × Nat) := scopeTab S.code
/-- a checked closure target: a function entry without closure parameters -/
def SC.target (S : SC) (t : Int) : Bool := entryHI S.code S.nvars t == some 1

/-- the panic sites this layer covers -/
def covered : Site → Bool
  | .stackPop | .scopesPop | .scopesData | .valuesIndex | .argsSlice | .xsIndex | .uncomparable
  | .codesIndex | .badOp | .pathsPop | .assertPathValue | .assertInt => true
  | .envIndex | .assertArray | .assertClosure => false

/-! ## values -/

/-- not the nil path (the marker of `pathbegin`) -/
def notNullV : V → Bool
  | .jv .null => false
  | _ => true

theorem notNullV_ne {p : V} (h : notNullV p = true) : p ≠ .jv .null := by
  intro heq; subst heq; simp [notNullV] at h

mutual
/-- closures point at a checked entry and at a slot below `n`; `[]pathValue`s are non-empty and
    their paths are not nil -/
def vok (S : SC) (n : Int) : V → Bool
  | .clo pc idx => S.target pc && decide (idx < n)
  | .pvs xs => !xs.isEmpty && pok S n xs
  | _ => true
def pok (S : SC) (n : Int) : List (V × V) → Bool
  | [] => true
  | pv :: xs => vok S n pv.2 && notNullV pv.1 && pok S n xs
end

def eok (S : SC) (n : Int) : Err → Bool
  | .value v => vok S n v
  | .halt v => vok S n v
  | .brk _ v => vok S n v
  | .tryEnd e => eok S n e
  | _ => true

mutual
theorem vok_mono (S : SC) {n m : Int} (hnm : n ≤ m) : ∀ (v : V), vok S n v = true → vok S m v = true
  | .clo pc idx, h => by
    simp only [vok, Bool.and_eq_true, decide_eq_true_eq] at h ⊢
    exact ⟨h.1, by omega⟩
  | .pvs xs, h => by
    simp only [vok, Bool.and_eq_true] at h ⊢
    exact ⟨h.1, pok_mono S hnm xs h.2⟩
  | .jv _, _ => rfl
  | .pv _ _, _ => rfl
  | .iter _, _ => rfl
  | .emptyIter, _ => rfl
  | .tok, _ => rfl
theorem pok_mono (S : SC) {n m : Int} (hnm : n ≤ m) : ∀ (xs : List (V × V)), pok S n xs = true → pok S m xs = true
  | [], _ => rfl
  | pv :: xs, h => by
    simp only [pok, Bool.and_eq_true] at h ⊢
    exact ⟨⟨vok_mono S hnm pv.2 h.1.1, h.1.2⟩, pok_mono S hnm xs h.2⟩
end

theorem eok_mono (S : SC) {n m : Int} (hnm : n ≤ m) : ∀ (er : Err), eok S n er = true → eok S m er = true
  | .value v, h => vok_mono S hnm v h
  | .halt v, h => vok_mono S hnm v h
  | .brk _ v, h => vok_mono S hnm v h
  | .tryEnd e, h => eok_mono S hnm e h
  | .msg _, _ => rfl
  | .vm _ _, _ => rfl

def eokO (S : SC) (n : Int) (o : Option Err) : Prop := ∀ er, o = some er → eok S n er = true

/-! ## the view -/

structure FView where
  pc : Int
  stk : List (Int × V)
  frames : List (Int × Scope)
  paths : List (Int × V)

structure AView where
  stk : List (Int × V)
  frames : List (Int × Scope)
  paths : List (Int × V)
  forks : List FView

def stkSaved (fs : List Fork) : List (Int × Int) := fs.map fun f => (f.stackindex, f.stacklimit)
def scSaved (fs : List Fork) : List (Int × Int) := fs.map fun f => (f.scopeindex, f.scopelimit)
def paSaved (fs : List Fork) : List (Int × Int) := fs.map fun f => (f.pathindex, f.pathlimit)

structure View (e : Env) (A : AView) : Prop where
  stack : SView e.stack (stkSaved e.forks) A.stk (A.forks.map (·.stk))
  scopes : SView e.scopes (scSaved e.forks) A.frames (A.forks.map (·.frames))
  paths : SView e.paths (paSaved e.forks) A.paths (A.forks.map (·.paths))
  pcs : e.forks.map (·.pc) = A.forks.map (·.pc)

/-- facts about all blocks ever written -/
structure GInv (S : SC) (e : Env) : Prop where
  save : ∀ (j : Nat) (b : Block Scope), e.scopes.data[j]? = some b → b.next = b.value.saveindex
  slots : ∀ (j : Nat) (b : Block Scope), e.scopes.data[j]? = some b →
    0 ≤ b.value.offset ∧ ∃ n, S.tab.lookup b.value.id = some n ∧ b.value.offset + n ≤ e.values.size
  outer : ∀ (j : Nat) (b : Block Scope), e.scopes.data[j]? = some b → b.value.outerindex < e.scopes.data.size
  stk : ∀ (j : Nat) (b : Block V), e.stack.data[j]? = some b → vok S e.scopes.data.size b.value = true
  vals : ∀ (j : Nat) (v : V), e.values[j]? = some v → vok S e.scopes.data.size v = true
  off : 0 ≤ e.offset ∧ ∀ f ∈ e.forks, 0 ≤ f.offset

abbrev VOK (S : SC) (e : Env) (v : V) : Prop := vok S e.scopes.data.size v = true

/-! ## weakest preconditions -/

def WP {α : Type} (m : M α) (Q : α → Env → Prop) (e : Env) : Prop :=
  match m e with
  | .ok a e' => Q a e'
  | .panic s => covered s = false
  | .stuck _ => True

theorem WP.pure {α : Type} {Q : α → Env → Prop} {a : α} {e : Env} (h : Q a e) : WP (pure a : M α) Q e := h

theorem WP.bind {α β : Type} {m : M α} {f : α → M β} {Q : β → Env → Prop} {e : Env}
    (h : WP m (fun a e' => WP (f a) Q e') e) : WP (m >>= f) Q e := by
  show WP (M.bind m f) Q e
  unfold WP M.bind at *
  cases hm : m e with
  | ok a e' => simp only [hm] at h ⊢; exact h
  | panic s => simp only [hm] at h ⊢; exact h
  | stuck w => simp

/-- the first computation of a `do` block is known to succeed -/
theorem WP.step {α β : Type} {m : M α} {f : α → M β} {Q : β → Env → Prop} {e e1 : Env} {a : α}
    (h : m e = .ok a e1) (h2 : WP (f a) Q e1) : WP (m >>= f) Q e := by
  apply WP.bind
  unfold WP
  rw [h]
  exact h2

theorem WP.panic {α : Type} {Q : α → Env → Prop} {s : Site} {e : Env} (h : covered s = false) :
    WP (VM.panic s : M α) Q e := h

theorem WP.stuck {α : Type} {Q : α → Env → Prop} {w : String} {e : Env} : WP (VM.stuck w : M α) Q e := trivial

theorem WP.mono {α : Type} {m : M α} {Q Q' : α → Env → Prop} {e : Env} (h : WP m Q e)
    (hq : ∀ a e', Q a e' → Q' a e') : WP m Q' e := by
  unfold WP at *
  cases hm : m e with
  | ok a e' => simp only [hm] at h ⊢; exact hq _ _ h
  | panic s => simp only [hm] at h ⊢; exact h
  | stuck w => trivial

/-! ## primitives on the view -/

/-- the part of the environment that the view and the global facts read is unchanged -/
def Fr (e e' : Env) : Prop :=
  e'.stack = e.stack ∧ e'.scopes = e.scopes ∧ e'.forks = e.forks ∧ e'.values = e.values ∧ e'.offset = e.offset

theorem Fr.refl (e : Env) : Fr e e := ⟨rfl, rfl, rfl, rfl, rfl⟩

theorem Fr.trans {e e' e'' : Env} (h : Fr e e') (g : Fr e' e'') : Fr e e'' :=
  ⟨g.1.trans h.1, g.2.1.trans h.2.1, g.2.2.1.trans h.2.2.1, g.2.2.2.1.trans h.2.2.2.1, g.2.2.2.2.trans h.2.2.2.2⟩

theorem View.fr {e e' : Env} {A : AView} (hV : View e A) (h : Fr e e') (hp : e'.paths = e.paths := by rfl) :
    View e' A := by
  obtain ⟨h1, h2, h3, _, _⟩ := h
  exact ⟨by rw [h1, h3]; exact hV.stack, by rw [h2, h3]; exact hV.scopes, by rw [hp, h3]; exact hV.paths,
    by rw [h3]; exact hV.pcs⟩

theorem GInv.fr {S : SC} {e e' : Env} (G : GInv S e) (h : Fr e e') : GInv S e' := by
  obtain ⟨h1, h2, h3, h4, h5⟩ := h
  exact ⟨by rw [h2]; exact G.save, by rw [h2, h4]; exact G.slots, by rw [h2]; exact G.outer,
    by rw [h1, h2]; exact G.stk, by rw [h2, h4]; exact G.vals, by rw [h3, h5]; exact G.off⟩

/-- a computation that leaves stack, scopes, forks, values and offset alone, and never panics at a
    covered site -/
theorem WP.frame {α β : Type} {m : M α} {f : α → M β} {Q : β → Env → Prop} {e : Env}
    (hfr : ∀ a e', m e = .ok a e' → Fr e e') (hp : ∀ s, m e = .panic s → covered s = false)
    (h : ∀ a e', m e = .ok a e' → Fr e e' → WP (f a) Q e') : WP (m >>= f) Q e := by
  apply WP.bind
  unfold WP
  cases hm : m e with
  | ok a e' => exact h a e' hm (hfr a e' hm)
  | panic s => exact hp s hm
  | stuck w => trivial

theorem push_eq (v : V) (e : Env) : push v e = .ok () { e with stack := e.stack.push v } := rfl

theorem View.push {e : Env} {A : AView} (hV : View e A) (v : V) :
    View { e with stack := e.stack.push v } { A with stk := ((e.stack.push v).index, v) :: A.stk } :=
  ⟨hV.stack.push v, hV.scopes, hV.paths, hV.pcs⟩

theorem GInv.push {S : SC} {e : Env} (G : GInv S e) {v : V} (hv : VOK S e v) :
    GInv S { e with stack := e.stack.push v } :=
  ⟨G.save, G.slots, G.outer,
    push_all (fun b => vok S e.scopes.data.size b.value = true) e.stack v G.stk hv, G.vals, G.off⟩

/-- `pop` on a non-empty view -/
theorem pop_spec {S : SC} {e : Env} {A : AView} (hV : View e A) (G : GInv S e) {i : Int} {v : V}
    {r : List (Int × V)} (hA : A.stk = (i, v) :: r) :
    ∃ nx, pop e = .ok v { e with stack := { e.stack with index := nx } } ∧
      View { e with stack := { e.stack with index := nx } } { A with stk := r } ∧
      GInv S { e with stack := { e.stack with index := nx } } ∧ VOK S e v := by
  have hs := hV.stack
  rw [hA] at hs
  obtain ⟨nx, hp, hv, hd, _⟩ := hs.pop_cons
  refine ⟨nx, ?_, ⟨hv, hV.scopes, hV.paths, hV.pcs⟩, ⟨G.save, G.slots, G.outer, G.stk, G.vals, G.off⟩, ?_⟩
  · unfold pop; rw [hp]
  · exact G.stk _ _ hd

theorem pop_nil {e : Env} {A : AView} (hV : View e A) (hA : A.stk = []) : pop e = .panic .stackPop := by
  have hs := hV.stack
  rw [hA] at hs
  unfold pop; rw [hs.pop_nil]

theorem stackTop_spec {S : SC} {e : Env} {A : AView} (hV : View e A) (G : GInv S e) {i : Int} {v : V}
    {r : List (Int × V)} (hA : A.stk = (i, v) :: r) : stackTop e = .ok v e ∧ VOK S e v := by
  have hs := hV.stack
  rw [hA] at hs
  have ht := hs.top_cons
  obtain ⟨nx, _, _, hd, _⟩ := hs.pop_cons
  exact ⟨by unfold stackTop; rw [ht], G.stk _ _ hd⟩

/-- `pushfork` -/
def forkOf (pc : Int) (e : Env) : Fork :=
  { pc := pc, offset := e.offset, expdepth := e.expdepth,
    stackindex := e.stack.save.1.1, stacklimit := e.stack.save.1.2,
    scopeindex := e.scopes.save.1.1, scopelimit := e.scopes.save.1.2,
    pathindex := e.paths.save.1.1, pathlimit := e.paths.save.1.2 }

def pushforkEnv (pc : Int) (e : Env) : Env :=
  { e with stack := e.stack.save.2, scopes := e.scopes.save.2, paths := e.paths.save.2,
           forks := forkOf pc e :: e.forks }

theorem pushfork_eq (pc : Int) (e : Env) : pushfork pc e = .ok () (pushforkEnv pc e) := rfl

theorem View.pushfork {e : Env} {A : AView} (hV : View e A) (pc : Int) :
    View (pushforkEnv pc e) { A with forks := ⟨pc, A.stk, A.frames, A.paths⟩ :: A.forks } := by
  refine ⟨?_, ?_, ?_, ?_⟩
  · have := hV.stack.save
    simpa [pushforkEnv, stkSaved, forkOf] using this
  · have := hV.scopes.save
    simpa [pushforkEnv, scSaved, forkOf] using this
  · have := hV.paths.save
    simpa [pushforkEnv, paSaved, forkOf] using this
  · simp [pushforkEnv, forkOf, hV.pcs]

theorem GInv.pushfork {S : SC} {e : Env} (G : GInv S e) (pc : Int) : GInv S (pushforkEnv pc e) := by
  have h1 := (save_facts e.stack).2.1
  have h2 := (save_facts e.scopes).2.1
  refine ⟨?_, ?_, ?_, ?_, ?_, ?_⟩
  · simp only [pushforkEnv, h2]; exact G.save
  · simp only [pushforkEnv, h2]; exact G.slots
  · simp only [pushforkEnv, h2]; exact G.outer
  · simp only [pushforkEnv, h1, h2]; exact G.stk
  · simp only [pushforkEnv, h2]; exact G.vals
  · refine ⟨G.off.1, ?_⟩
    intro f hf
    simp only [pushforkEnv, List.mem_cons] at hf
    rcases hf with rfl | hf
    · exact G.off.1
    · exact G.off.2 f hf

theorem pushfork_index (pc : Int) (e : Env) :
    (pushforkEnv pc e).scopes.index = e.scopes.index ∧ (pushforkEnv pc e).scopes.data = e.scopes.data ∧
    (pushforkEnv pc e).values = e.values ∧ (pushforkEnv pc e).offset = e.offset ∧
    (pushforkEnv pc e).label = e.label ∧ (pushforkEnv pc e).expdepth = e.expdepth :=
  ⟨(save_facts e.scopes).2.2.1, (save_facts e.scopes).2.1, rfl, rfl, rfl, rfl⟩

/-- `popfork` -/
theorem View.popfork {e : Env} {A : AView} {f : Fork} {rest : List Fork} {g : FView} {restA : List FView}
    (hV : View e A) (hf : e.forks = f :: rest) (hA : A.forks = g :: restA) :
    View (popfork f rest e).1 ⟨g.stk, g.frames, g.paths, restA⟩ ∧ g.pc = f.pc := by
  obtain ⟨h1, h2, h4, h3⟩ := hV
  rw [hf, hA] at h1 h2 h3 h4
  simp only [stkSaved, scSaved, paSaved, List.map_cons] at h1 h2 h3 h4
  refine ⟨⟨?_, ?_, ?_, ?_⟩, ?_⟩
  · exact h1.restore
  · exact h2.restore
  · exact h4.restore
  · simp only [popfork]; simp only [List.cons.injEq] at h3; exact h3.2
  · simp only [List.cons.injEq] at h3; exact h3.1.symm

theorem GInv.popfork {S : SC} {e : Env} {f : Fork} {rest : List Fork} (G : GInv S e) (hf : e.forks = f :: rest) :
    GInv S (popfork f rest e).1 := by
  have ho := G.off
  rw [hf] at ho
  exact ⟨G.save, G.slots, G.outer, G.stk, G.vals, ho.2 f (by simp), fun g hg => ho.2 g (List.mem_cons_of_mem _ hg)⟩

/-- `getValue` inside the array -/
theorem getValue_spec {S : SC} {e : Env} (G : GInv S e) {k : Int} (h0 : 0 ≤ k) (h1 : k < e.values.size) :
    ∃ v, getValue k e = .ok v e ∧ VOK S e v := by
  have hlt : k.toNat < e.values.size := by omega
  refine ⟨e.values[k.toNat], ?_, G.vals k.toNat _ (by simp [hlt])⟩
  unfold getValue
  simp [h0, hlt]

theorem setValue_spec {S : SC} {e : Env} {A : AView} (hV : View e A) (G : GInv S e) {k : Int} {v : V}
    (h0 : 0 ≤ k) (h1 : k < e.values.size) (hv : VOK S e v) :
    setValue k v e = .ok () { e with values := e.values.setIfInBounds k.toNat v } ∧
    View { e with values := e.values.setIfInBounds k.toNat v } A ∧
    GInv S { e with values := e.values.setIfInBounds k.toNat v } := by
  have hlt : k.toNat < e.values.size := by omega
  refine ⟨?_, ⟨hV.stack, hV.scopes, hV.paths, hV.pcs⟩, ⟨G.save, ?_, G.outer, G.stk, ?_, G.off⟩⟩
  · unfold setValue
    simp [h0, hlt]
  · intro j b hb
    have := G.slots j b hb
    simpa using this
  · intro j w hw
    simp only [Array.getElem?_setIfInBounds] at hw
    split at hw
    · first
      | (split at hw
         · simp at hw; rw [← hw]; exact hv
         · simp at hw)
      | (simp at hw; rw [← hw]; exact hv)
    · exact G.vals j w hw

/-- `env.index`: the walk never leaves the scope array; it ends at a block with the wanted id, at
    the bottom (`panic("env.index")`, not covered here), or it cycles -/
theorem scopeWalk_spec {data : Array (Block Scope)} (ho : ∀ (j : Nat) (b : Block Scope), data[j]? = some b → b.value.outerindex < data.size)
    (id off : Int) : ∀ (fuel : Nat) (i : Int), i < data.size →
    match scopeWalk data id off fuel i with
    | .ok k => ∃ (j : Nat) (b : Block Scope), data[j]? = some b ∧ b.value.id = id ∧ k = b.value.offset + off
    | .panic s => s = .envIndex
    | .cyclic => True := by
  intro fuel
  induction fuel with
  | zero => intro i _; simp [scopeWalk]
  | succ n ih =>
    intro i hi
    unfold scopeWalk
    by_cases h0 : i < 0
    · simp [h0]
    · simp only [h0, if_false]
      have hlt : i.toNat < data.size := by omega
      have hget : data[i.toNat]? = some data[i.toNat] := by simp [hlt]
      rw [hget]
      simp only
      by_cases hid : data[i.toNat].value.id = id
      · simp only [hid, if_true]
        exact ⟨i.toNat, _, hget, hid, rfl⟩
      · simp only [hid, if_false]
        exact ih _ (ho _ _ hget)

theorem envIndex_spec {S : SC} {e : Env} {A : AView} (hV : View e A) (G : GInv S e) (id off : Int) :
    match envIndex id off e with
    | .ok k e' => e' = e ∧ ∃ (j : Nat) (b : Block Scope), e.scopes.data[j]? = some b ∧ b.value.id = id ∧ k = b.value.offset + off
    | .panic s => s = .envIndex
    | .stuck _ => True := by
  have := scopeWalk_spec G.outer id off (e.scopes.data.size + 1) e.scopes.index hV.scopes.chain.index_lt
  unfold envIndex
  cases h : scopeWalk e.scopes.data id off (e.scopes.data.size + 1) e.scopes.index with
  | ok k => rw [h] at this; exact ⟨rfl, this⟩
  | panic s => rw [h] at this; exact this
  | cyclic => trivial

/-- a variable operand accepted by the checker resolves to a slot inside `values` -/
theorem envIndex_slot {S : SC} {e : Env} {A : AView} (hV : View e A) (G : GInv S e) {id off : Int}
    (hs : slotOK S.tab id off = true) :
    match envIndex id off e with
    | .ok k e' => e' = e ∧ 0 ≤ k ∧ k < e.values.size
    | .panic s => covered s = false
    | .stuck _ => True := by
  have := envIndex_spec hV G id off
  cases h : envIndex id off e with
  | ok k e' =>
    rw [h] at this
    obtain ⟨he, j, b, hb, hid, hk⟩ := this
    obtain ⟨h0, n, hn, hle⟩ := G.slots j b hb
    unfold slotOK at hs
    rw [hid] at hn
    rw [hn] at hs
    simp only [Bool.and_eq_true, decide_eq_true_eq] at hs
    exact ⟨he, by omega, by omega⟩
  | panic s => rw [h] at this; subst this; rfl
  | stuck w => trivial

end Gojq.SafeVM

/-
  C08 (bytecode checker): from one instruction to whole runs.  A turn of the loop (`VM.step`) keeps
  the invariant; a call of `Next` that ends properly (value, error, `(nil, false)`, context error)
  leaves a state from which the next call can be made (`Between`); no call ends in a covered panic.
-/
import Gojq.Proofs.SafeVMExec3
set_option linter.unusedSimpArgs false
set_option linter.unusedVariables false
namespace Gojq.SafeVM
open Gojq Gojq.VM

/-- every opcode keeps the invariant and panics only at uncovered sites -/
theorem exec_post {S : SC} (C : Checked S) (ins : Instr) {x : ExtRec} (hx : ExtOK x) {l : L} {e : Env}
    (hk : keyOK ins (stackList e.stack) x)
    (hc : codeAt S l.pc = some (shape ins)) (hI : Inv S l e) : WP (exec ins x l) (Post S) e := by
  cases ins with
  | nop => exact exec_nop C hc hI
  | push v => exact exec_push C hc hI
  | pop => exact exec_pop C hc hI
  | dup => exact exec_dup C hc hI
  | const v => exact exec_const C hc hI
  | load a b => exact exec_load C hc hI
  | store a b => exact exec_store C hc hI
  | object n => exact exec_object C hc hI
  | append a b => exact exec_append C hc hI
  | fork t => exact exec_fork C hc hI
  | forktrybegin t => exact exec_forktrybegin C hc hI
  | forktryend => exact exec_forktryend C hc hI
  | forkalt t => exact exec_forkalt C hc hI
  | forklabel a b => exact exec_forklabel C hc hI
  | backtrack => exact exec_backtrack C hc hI
  | jump t => exact exec_jump C hc hI
  | jumpifnot t => exact exec_jumpifnot C hc hI
  | index k => exact exec_index C hx hc hI
  | indexarray k => exact exec_indexarray C hx hc hI
  | call t => exact exec_call C hc hI
  | callNative k n => exact exec_callNative C hx hk hc hI
  | callrec t => exact exec_callrec C hc hI
  | pushpc t => exact exec_pushpc C hc hI
  | callpc => exact exec_callpc C hc hI
  | scope a b c => exact exec_scope C hc hI
  | ret => exact exec_ret C hc hI
  | iter => exact exec_iter C hx hc hI
  | expbegin => exact exec_expbegin C hc hI
  | expend => exact exec_expend C hc hI
  | pathbegin => exact exec_pathbegin C hc hI
  | pathend => exact exec_pathend C hc hI
  | bad => exact exec_bad C hc hI

/-! ## outcomes -/

/-- an outcome that is not a panic at a covered site -/
def NoCov : Outcome → Prop
  | .panic s => covered s = false
  | _ => True

/-- an answer of the real `Next` after which the iterator may be called again -/
def Proper : Outcome → Prop
  | .value _ | .error _ | .done | .ctxErr => True
  | _ => False

/-- the state between two calls of `Next` -/
def Between (S : SC) (P : Params) (s : St) : Prop := Inv S (entry P s) s.env

theorem codeAt_map {P : Params} {S : SC} (hS : S.code = P.code.map shape) {pc : Int} (h0 : 0 ≤ pc)
    (h1 : pc < P.code.size) : codeAt S pc = some (shape (P.code.getD pc.toNat .bad)) := by
  have hlt : pc.toNat < P.code.size := by omega
  unfold codeAt
  simp [h0, hS, Array.getD, hlt]

theorem size_map {P : Params} {S : SC} (hS : S.code = P.code.map shape) : S.size = P.code.size := by
  unfold SC.size; rw [hS]; simp

theorem Inv.pc_range {S : SC} {l : L} {e : Env} (hI : Inv S l e) : 0 ≤ l.pc ∧ l.pc ≤ S.size := by
  obtain ⟨A, _, _, _, _, hM⟩ := hI
  split at hM
  · rcases hM.2 with h | h
    · rw [h]; unfold SC.size; omega
    · unfold BConf at h
      cases hc : codeAt S l.pc with
      | none => rw [hc] at h; exact h.elim
      | some i => have := codeAt_range hc; omega
  · obtain ⟨_, a, ins, _, hc, _⟩ := hM
    have := codeAt_range hc; omega

theorem Inv.normal_range {S : SC} {l : L} {e : Env} (hI : Inv S l e) (hb : l.backtrack = false) : l.pc < S.size := by
  obtain ⟨A, _, _, _, _, hM⟩ := hI
  rw [if_neg (by rw [hb]; simp)] at hM
  obtain ⟨_, a, ins, _, hc, _⟩ := hM
  exact (codeAt_range hc).2

theorem View.forks_nil {e : Env} {A : AView} (hV : View e A) : e.forks = [] ↔ A.forks = [] := by
  have := congrArg List.length hV.pcs
  simp only [List.length_map] at this
  constructor
  · intro h; rw [h] at this; exact List.length_eq_zero_iff.mp this.symm
  · intro h; rw [h] at this; exact List.length_eq_zero_iff.mp this

theorem saveFr (e : Env) (pc : Int) : Fr e { e with pc := pc, backtrack := true } := ⟨rfl, rfl, rfl, rfl, rfl⟩

/-- what a turn of the loop establishes -/
def StepOK (S : SC) (P : Params) : Step → Prop
  | .cont l' s' => Inv S l' s'.env
  | .fin o s' => NoCov o ∧ (Proper o → Between S P s')

/-- after `break loop` -/
theorem unwind_inv {S : SC} {P : Params} (hS : S.code = P.code.map shape) {l : L} {s : St} {A : AView}
    (hV : View s.env A) (G : GInv S s.env) (hF : ForksConf S A.forks) (hP : PathsInv A)
    (he : eokO S s.env.scopes.data.size l.err)
    (hre : A.forks = [] → l.err ≠ none → l.pc = S.size ∨ BConf S False l.pc none A.stk A.paths A.frames) :
    StepOK S P (unwind P l s) := by
  unfold unwind
  split
  · rename_i hf
    have hAf := hV.forks_nil.mp hf
    unfold finish
    split
    · rename_i er her
      refine ⟨trivial, fun _ => ?_⟩
      refine ⟨A, hV.fr (saveFr _ _), G.fr (saveFr _ _), hF, hP, ?_⟩
      show (if true = true then BMode S (entry P (s.save l.pc)) (s.save l.pc).env A else _)
      rw [if_pos rfl]
      refine ⟨eokO_none _ _, ?_⟩
      rcases hre hAf (by rw [her]; simp) with h | h
      · exact .inl h
      · exact .inr (h.mono (fun hh => hh.elim))
    · refine ⟨trivial, fun _ => ?_⟩
      refine ⟨A, hV.fr (saveFr _ _), G.fr (saveFr _ _), hF, hP, ?_⟩
      show (if true = true then BMode S (entry P (s.save P.code.size)) (s.save P.code.size).env A else _)
      rw [if_pos rfl]
      exact ⟨eokO_none _ _, .inl (size_map hS).symm⟩
  · rename_i f rest hf
    cases hAf : A.forks with
    | nil => have := hV.forks_nil.mpr hAf; rw [hf] at this; cases this
    | cons g restA =>
      obtain ⟨hV', hpc⟩ := hV.popfork hf hAf
      have G' := G.popfork hf
      rw [hAf] at hF
      refine ⟨⟨g.stk, g.frames, g.paths, restA⟩, hV', G', hF.2,
        ⟨hP.2 g (by rw [hAf]; simp), fun f' hf' => hP.2 f' (by rw [hAf]; simp [hf'])⟩, ?_⟩
      show (if true = true then BMode S _ _ _ else _)
      rw [if_pos rfl]
      refine ⟨he, .inr ?_⟩
      show BConf S (restA ≠ []) f.pc l.err g.stk g.paths g.frames
      rw [← hpc]
      exact hF.1 l.err

/-- one turn of the loop -/
theorem step_inv {S : SC} (C : Checked S) {P : Params} (hS : S.code = P.code.map shape)
    (hext : ∀ k, ExtOK (P.ext k)) {l : L} {s : St} (hI : Inv S l s.env)
    (hk : keyOK (P.code.getD l.pc.toNat .bad) (stackList s.env.stack) (P.ext s.polls)) :
    StepOK S P (step P l s) := by
  have hr := hI.pc_range
  have hsz := size_map hS
  unfold step
  by_cases h1 : l.pc < P.code.size
  · rw [if_pos h1, if_neg (by omega)]
    split
    · -- cancelled
      refine ⟨trivial, fun _ => ?_⟩
      obtain ⟨A, hV, G, hF, hP, _⟩ := hI
      refine ⟨{ A with forks := [] }, ⟨hV.stack.forget, hV.scopes.forget, hV.paths.forget, rfl⟩,
        ⟨G.save, G.slots, G.outer, G.stk, G.vals, G.off.1, fun f hf => by simp [St.save] at hf⟩, trivial,
        ⟨hP.1, fun f hf => by simp at hf⟩, ?_⟩
      show (if true = true then BMode S _ _ _ else _)
      rw [if_pos rfl]
      exact ⟨eokO_none _ _, .inl hsz.symm⟩
    · have hc := codeAt_map hS hr.1 h1
      have hwp := exec_post C (P.code.getD l.pc.toNat .bad) (hext s.polls) hk hc hI
      unfold WP at hwp
      split
      · rename_i site hex
        rw [hex] at hwp
        exact ⟨hwp, fun h => h.elim⟩
      · exact ⟨trivial, fun h => h.elim⟩
      · rename_i ctl l' env' hex
        rw [hex] at hwp
        obtain ⟨A', hV', G', hF', hP', hpost⟩ := hwp
        split
        · -- fall
          simp only at hpost
          refine ⟨A', hV', G', hF', hP', ?_⟩
          show (if l'.backtrack = true then _ else _)
          rw [if_neg (by rw [hpost.1]; simp)]
          exact hpost.2
        · simp only at hpost
          refine ⟨A', hV', G', hF', hP', ?_⟩
          rw [if_neg (by rw [hpost.1]; simp)]
          exact hpost.2
        · -- ret
          rename_i v
          simp only at hpost
          refine ⟨trivial, fun _ => ?_⟩
          refine ⟨A', hV'.fr (saveFr _ _), G'.fr (saveFr _ _), hF', hP', ?_⟩
          show (if true = true then BMode S _ _ _ else _)
          rw [if_pos rfl]
          refine ⟨eokO_none _ _, .inr ?_⟩
          show BConf S _ l'.pc none _ _ _
          rw [hpost]
          exact BConf.triv C.last rfl
        · -- break
          simp only at hpost
          exact unwind_inv hS (s := ⟨env', s.polls + 1⟩) hV' G' hF' hP' hpost.1
            (fun hf he => .inr (hpost.2 hf he))
  · rw [if_neg h1]
    have hpc : l.pc = S.size := by omega
    obtain ⟨A, hV, G, hF, hP, hM⟩ := hI
    by_cases hb : l.backtrack = true
    · rw [if_pos hb] at hM
      exact unwind_inv hS hV G hF hP hM.1 (fun _ _ => .inl hpc)
    · rw [if_neg hb] at hM
      obtain ⟨_, a, ins, _, hc, _⟩ := hM
      have := codeAt_range hc; omega

/-- the states at which a turn of the loop starts, over all calls of `Next` that ended properly,
    from the state `s0` before the first call -/
inductive Reach (P : Params) (s0 : St) : L → St → Prop
  | init : Reach P s0 (entry P s0) s0
  | turn {l : L} {s : St} {l' : L} {s' : St} : Reach P s0 l s → step P l s = .cont l' s' → Reach P s0 l' s'
  | call {l : L} {s : St} {o : Outcome} {s' : St} : Reach P s0 l s → step P l s = .fin o s' → Proper o →
      Reach P s0 (entry P s') s'

/-- at every turn of the run the answer of a native `_index` / `getpath` call respects null keys -/
def KeysOK (P : Params) (s0 : St) : Prop :=
  ∀ l s, Reach P s0 l s → keyOK (P.code.getD l.pc.toNat .bad) (stackList s.env.stack) (P.ext s.polls)

/-- the loop of one call -/
theorem loop_inv {S : SC} (C : Checked S) {P : Params} (hS : S.code = P.code.map shape)
    (hext : ∀ k, ExtOK (P.ext k)) {s0 : St} (hkeys : KeysOK P s0) : ∀ (fuel : Nat) (l : L) (s : St),
    Reach P s0 l s → Inv S l s.env →
    NoCov (loop P fuel l s).1 ∧ (Proper (loop P fuel l s).1 →
      Between S P (loop P fuel l s).2 ∧ Reach P s0 (entry P (loop P fuel l s).2) (loop P fuel l s).2) := by
  intro fuel
  induction fuel with
  | zero =>
    intro l s hR hI
    have := step_inv C hS hext hI (hkeys l s hR)
    rw [loop]
    split
    · rename_i o s' hs
      rw [hs] at this
      exact ⟨this.1, fun hp => ⟨this.2 hp, hR.call hs hp⟩⟩
    · exact ⟨trivial, fun h => h.elim⟩
  | succ n ih =>
    intro l s hR hI
    have := step_inv C hS hext hI (hkeys l s hR)
    rw [loop]
    split
    · rename_i o s' hs
      rw [hs] at this
      exact ⟨this.1, fun hp => ⟨this.2 hp, hR.call hs hp⟩⟩
    · rename_i l' s' hs
      rw [hs] at this
      exact ih l' s' (hR.turn hs) this

theorem next_inv {S : SC} (C : Checked S) {P : Params} (hS : S.code = P.code.map shape)
    (hext : ∀ k, ExtOK (P.ext k)) {s0 : St} (hkeys : KeysOK P s0) (fuel : Nat) (s : St)
    (hR : Reach P s0 (entry P s) s) (hB : Between S P s) :
    NoCov (next P fuel s).1 ∧ (Proper (next P fuel s).1 →
      Between S P (next P fuel s).2 ∧ Reach P s0 (entry P (next P fuel s).2) (next P fuel s).2) :=
  loop_inv C hS hext hkeys fuel _ s hR hB

/-- a history in which no call ends in a covered panic as long as all earlier calls ended properly -/
def SafeHist : List Outcome → Prop
  | [] => True
  | o :: rest => NoCov o ∧ (Proper o → SafeHist rest)

theorem history_safe {S : SC} (C : Checked S) {P : Params} (hS : S.code = P.code.map shape)
    (hext : ∀ k, ExtOK (P.ext k)) {s0 : St} (hkeys : KeysOK P s0) (fuel : Nat) : ∀ (n : Nat) (s : St),
    Reach P s0 (entry P s) s → Between S P s → SafeHist (history P fuel n s) := by
  intro n
  induction n with
  | zero => intro s _ _; exact trivial
  | succ n ih =>
    intro s hR hB
    have := next_inv C hS hext hkeys fuel s hR hB
    simp only [history]
    exact ⟨this.1, fun hp => ih _ (this.2 hp).2 (this.2 hp).1⟩

/-! ## the initial state -/

theorem view_empty : View ({} : Env) ⟨[], [], [], []⟩ :=
  ⟨⟨.nil (by decide), ⟨by decide, by decide⟩, trivial, trivial⟩,
   ⟨.nil (by decide), ⟨by decide, by decide⟩, trivial, trivial⟩,
   ⟨.nil (by decide), ⟨by decide, by decide⟩, trivial, trivial⟩, rfl⟩

theorem ginv_empty (S : SC) : GInv S ({} : Env) :=
  ⟨fun j b h => by simp at h, fun j b h => by simp at h, fun j b h => by simp at h,
   fun j b h => by simp at h, fun j v h => by simp at h, ⟨by decide, fun f h => by simp at h⟩⟩

theorem pushes_view {S : SC} : ∀ (vs : List V) (e : Env) (A : AView), View e A → GInv S e → (∀ v ∈ vs, vpure v = true) →
    ∃ A', View (vs.foldl (fun e v => { e with stack := e.stack.push v }) e) A' ∧
      GInv S (vs.foldl (fun e v => { e with stack := e.stack.push v }) e) ∧
      A'.stk.length = A.stk.length + vs.length ∧ A'.frames = A.frames ∧ A'.forks = A.forks ∧ A'.paths = A.paths ∧
      (vs.foldl (fun e v => { e with stack := e.stack.push v }) e).scopes = e.scopes ∧
      (vs.foldl (fun e v => { e with stack := e.stack.push v }) e).pc = e.pc ∧
      (vs.foldl (fun e v => { e with stack := e.stack.push v }) e).backtrack = e.backtrack := by
  intro vs
  induction vs with
  | nil => intro e A hV G _; exact ⟨A, hV, G, by simp, rfl, rfl, rfl, rfl, rfl, rfl⟩
  | cons v vs ih =>
    intro e A hV G hvs
    have hv := hvs v (by simp)
    obtain ⟨A', h1, h2, h3, h4, h5, h9, h6, h7, h8⟩ := ih _ _ (hV.push v) (G.push (vok_of_pure S _ v hv))
      (fun w hw => hvs w (by simp [hw]))
    refine ⟨A', h1, h2, ?_, h4, h5, h9, h6, h7, h8⟩
    simp only [List.length_cons] at h3 ⊢
    omega

theorem between_init {S : SC} (C : Checked S) {P : Params} (hS : S.code = P.code.map shape)
    (input : V) (vars : List V) (hi : vpure input = true) (hv : ∀ v ∈ vars, vpure v = true)
    (hn : vars.length = S.nvars) : Between S P (initSt input vars) := by
  unfold Between initSt
  simp only
  obtain ⟨A1, hV1, G1, hl1, hf1, hk1, hq1, hs1, hp1, hb1⟩ := pushes_view (S := S) [input] {} ⟨[], [], [], []⟩ view_empty (ginv_empty S)
    (fun v hv' => by simp at hv'; rw [hv']; exact hi)
  simp only [List.foldl_cons, List.foldl_nil] at hV1 G1 hs1 hp1 hb1
  obtain ⟨A2, hV2, G2, hl2, hf2, hk2, hq2, hs2, hp2, hb2⟩ := pushes_view (S := S) vars.reverse _ A1 hV1 G1
    (fun v hv' => hv v (by simpa using hv'))
  have hpaths : A2.paths = [] := by rw [hq2, hq1]
  have hPI : PathsInv A2 := ⟨by rw [hpaths]; exact POK.nil, fun f hf => by rw [hk2, hk1] at hf; simp at hf⟩
  refine ⟨A2, hV2, G2, by rw [hk2, hk1]; trivial, hPI, ?_⟩
  have hbt : (entry P ⟨List.foldl (fun e v => { e with stack := e.stack.push v }) { ({} : Env) with stack := ({} : Env).stack.push input } vars.reverse, 0⟩).backtrack = false := by
    simp only [entry]; rw [hb2]
  rw [if_neg (by rw [hbt]; simp)]
  have hpc : (entry P ⟨List.foldl (fun e v => { e with stack := e.stack.push v }) { ({} : Env) with stack := ({} : Env).stack.push input } vars.reverse, 0⟩).pc = 0 := by
    simp only [entry]; rw [hp2]
  -- pc 0 is the entry of the main program
  have hroot := C.root
  have hc0 : ∃ id vars nargs, codeAt S 0 = some (.scope id vars nargs) := by
    unfold entryH at hroot
    split at hroot
    · rename_i id vr nargs hcode
      exact ⟨id, vr, nargs, by unfold codeAt; simpa using hcode⟩
    · simp at hroot
  obtain ⟨id, vr, nargs, hc0⟩ := hc0
  obtain ⟨a, ha, hea⟩ := C.entry 0 _ hc0 rfl
  have hah : a.h = S.nvars + 1 := by
    unfold entryAbs at hea
    simp only [Int.toNat_zero] at hea
    rw [hroot] at hea
    simp only [Option.map_some, Option.some.injEq] at hea
    rw [← hea]
  have hpend : a.pend = false := by
    unfold entryAbs at hea
    simp only [Int.toNat_zero] at hea
    rw [hroot] at hea
    simp only [Option.map_some, Option.some.injEq] at hea
    rw [← hea]
  have hsize : 1 ≤ S.size := by have := codeAt_range C.last; omega
  refine ⟨rfl, a, _, (by rw [hpc]; exact ha), (by rw [hpc]; exact hc0), (fun h => by rw [hpend] at h; cases h), ?_⟩
  rw [if_pos (by simp [isScope])]
  have hfr : A2.frames = [] := by rw [hf2, hf1]
  refine ⟨⟨by rw [hfr]; trivial, .inl ⟨?_, fun _ => ?_, fun h => absurd hfr h, ?_, ?_⟩⟩, ?_⟩
  · show 0 ≤ (P.code.size : Int) - 1
    rw [← size_map hS]; omega
  · show (P.code.size : Int) - 1 = S.size - 1
    rw [size_map hS]
  · rw [hfr]
    simp only [if_true, need]
    rw [hl2, hl1, hah]
    simp only [List.length_nil, List.length_cons, List.length_reverse]
    omega
  · rw [hfr, hpaths]
    have hpd : a.pd = 0 := by
      unfold entryAbs at hea
      simp only [Int.toNat_zero] at hea
      rw [hroot] at hea
      simp only [Option.map_some, Option.some.injEq] at hea
      rw [← hea]
    simp [needP, segs, hpd]
  · show (-1 : Int) < _
    omega

end Gojq.SafeVM

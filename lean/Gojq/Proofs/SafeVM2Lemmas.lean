/-
  C08 (bytecode checker, layer 2): how the claims of the invariant move between states.
-/
import Gojq.Proofs.SafeVM2Inv
set_option linter.unusedSimpArgs false
set_option linter.unusedVariables false
namespace Gojq.SafeVM
open Gojq Gojq.VM

/-! ## the view determines the abstract state -/

theorem ChainI.slots {α : Type} {d : Array (Block α)} {i : Int} {xs : List (Int × α)} (h : ChainI d i xs) :
    ∀ p ∈ xs, 0 ≤ p.1 ∧ p.1 ≤ i ∧ ∃ nx, d[p.1.toNat]? = some ⟨p.2, nx⟩ := by
  induction h with
  | nil _ => intro p hp; simp at hp
  | cons h0 hb hn _ ih =>
    intro p hp
    simp only [List.mem_cons] at hp
    rcases hp with rfl | hp
    · exact ⟨h0, Int.le_refl _, _, hb⟩
    · have := ih p hp
      exact ⟨this.1, by omega, this.2.2⟩

theorem Olds.mem {α : Type} {d : Array (Block α)} : ∀ {ps : List (Int × Int)} {os : List (List (Int × α))},
    Olds d ps os → ∀ o ∈ os, ∃ p ∈ ps, ChainI d p.1 o
  | [], [], _, o, ho => by simp at ho
  | [], _ :: _, h, _, _ => h.elim
  | _ :: _, [], h, _, _ => h.elim
  | p :: ps, o' :: os, h, o, ho => by
    simp only [List.mem_cons] at ho
    rcases ho with rfl | ho
    · exact ⟨p, by simp, h.1⟩
    · obtain ⟨q, hq, hc⟩ := Olds.mem h.2 o ho
      exact ⟨q, by simp [hq], hc⟩

theorem Olds.unique {α : Type} {d : Array (Block α)} : ∀ {ps : List (Int × Int)} {os os' : List (List (Int × α))},
    Olds d ps os → Olds d ps os' → os = os'
  | [], [], [], _, _ => rfl
  | [], [], _ :: _, _, h => h.elim
  | [], _ :: _, _, h, _ => h.elim
  | _ :: _, [], _, h, _ => h.elim
  | _ :: _, _ :: _, [], _, h => h.elim
  | p :: ps, o :: os, o' :: os', h, h' => by
    rw [h.1.unique h'.1, Olds.unique h.2 h'.2]

theorem blockAt_of_get {d : Array (Block Scope)} {j : Int} {sc : Scope} {nx : Int} (h0 : 0 ≤ j)
    (h : d[j.toNat]? = some ⟨sc, nx⟩) : blockAt d j = some sc := by
  unfold blockAt; simp [h0, h]

theorem View.frames_le {e : Env} {A : AView} (hV : View e A) :
    ∀ p ∈ A.frames, 0 ≤ p.1 ∧ p.1 ≤ e.scopes.index ∧ blockAt e.scopes.data p.1 = some p.2 := by
  intro p hp
  obtain ⟨h0, h1, nx, h2⟩ := hV.scopes.chain.slots p hp
  exact ⟨h0, h1, blockAt_of_get h0 h2⟩

theorem View.fork_frames_le {e : Env} {A : AView} (hV : View e A) :
    ∀ g ∈ A.forks, ∀ p ∈ g.frames, 0 ≤ p.1 ∧ p.1 ≤ e.scopes.limit ∧ blockAt e.scopes.data p.1 = some p.2 := by
  intro g hg p hp
  obtain ⟨q, hq, hc⟩ := Olds.mem hV.scopes.olds g.frames (List.mem_map.mpr ⟨g, hg, rfl⟩)
  have hle := Prot.index_le hV.scopes.prot q hq
  obtain ⟨h0, h1, nx, h2⟩ := hc.slots p hp
  exact ⟨h0, by omega, blockAt_of_get h0 h2⟩

theorem index_le_Rg (s : Stack Scope) : s.index ≤ Rg s ∧ s.limit ≤ Rg s := by
  unfold Rg; omega

theorem map_eq_of_fields : ∀ {fs gs : List FView}, fs.map (·.pc) = gs.map (·.pc) → fs.map (·.stk) = gs.map (·.stk) →
    fs.map (·.frames) = gs.map (·.frames) → fs.map (·.paths) = gs.map (·.paths) → fs = gs
  | [], [], _, _, _, _ => rfl
  | [], _ :: _, h, _, _, _ => by simp at h
  | _ :: _, [], h, _, _, _ => by simp at h
  | f :: fs, g :: gs, h1, h2, h3, h4 => by
    simp only [List.map_cons, List.cons.injEq] at h1 h2 h3 h4
    have := map_eq_of_fields h1.2 h2.2 h3.2 h4.2
    subst this
    obtain ⟨a1, a2, a3, a4⟩ := f
    obtain ⟨b1, b2, b3, b4⟩ := g
    simp only at h1 h2 h3 h4
    rw [h1.1, h2.1, h3.1, h4.1]

/-- the abstract view of an environment is unique -/
theorem View.unique {e : Env} {A B : AView} (hA : View e A) (hB : View e B) : A = B := by
  have h1 := hA.stack.chain.unique hB.stack.chain
  have h2 := hA.scopes.chain.unique hB.scopes.chain
  have h3 := hA.paths.chain.unique hB.paths.chain
  have h4 := Olds.unique hA.stack.olds hB.stack.olds
  have h5 := Olds.unique hA.scopes.olds hB.scopes.olds
  have h6 := Olds.unique hA.paths.olds hB.paths.olds
  have h7 : A.forks.map (·.pc) = B.forks.map (·.pc) := by rw [← hA.pcs, ← hB.pcs]
  have h8 := map_eq_of_fields h7 h4 h5 h6
  obtain ⟨a1, a2, a3, a4⟩ := A
  obtain ⟨b1, b2, b3, b4⟩ := B
  simp only at h1 h2 h3 h8
  rw [h1, h2, h3, h8]

/-! ## transport of claims -/

/-- the scope array at or below `M` and the variable slots of the frames there are unchanged -/
def SameBelow (S : SC) (M : Int) (d d' : Array (Block Scope)) (vs vs' : Array V) : Prop :=
  (∀ n : Int, n ≤ M → blockAt d' n = blockAt d n) ∧
  (∀ (j : Int) (sc : Scope) (i : Int) (nv : Nat), j ≤ M → blockAt d j = some sc → 0 ≤ i →
    S.tab.lookup sc.id = some nv → i < nv → vs'[(sc.offset + i).toNat]? = vs[(sc.offset + i).toNat]?)

theorem SameBelow.refl (S : SC) (M : Int) (d : Array (Block Scope)) (vs : Array V) : SameBelow S M d d vs vs :=
  ⟨fun _ _ => rfl, fun _ _ _ _ _ _ _ _ _ => rfl⟩

theorem SameBelow.mono {S : SC} {M M' : Int} {d d' vs vs'} (h : SameBelow S M d d' vs vs') (hm : M' ≤ M) :
    SameBelow S M' d d' vs vs' :=
  ⟨fun n hn => h.1 n (by omega), fun j sc i nv hj => h.2 j sc i nv (by omega)⟩

theorem Good.same {S : SC} {Ct : Cert} {M : Int} {d d' vs vs'} (h : SameBelow S M d d' vs vs') {q : J}
    (g : Good S Ct d vs q) (hb : q.bnd ≤ M) : Good S Ct d' vs' q :=
  g.transport h.1 h.2 hb

theorem KOK.same {S : SC} {Ct : Cert} {M : Int} {d d' vs vs'} (h : SameBelow S M d d' vs vs') {k : Kind} {v : V}
    {jt : Int} (hj : jt ≤ M) (c : KOK S Ct d vs k v jt) : KOK S Ct d' vs' k v jt := by
  unfold KOK at *
  cases k with
  | any => trivial
  | arr => exact Good.same h c (by simp only [J.bnd]; omega)
  | clo => exact Good.same h c (by simp only [J.bnd]; omega)
  | cloL => exact Good.same h c (by simp only [J.bnd]; omega)

theorem SlotCl.same {S : SC} {Ct : Cert} {M : Int} {d d' vs vs'} (h : SameBelow S M d d' vs vs') {j : Int} {sc : Scope}
    {sl : List Kind} (hj : j ≤ M) (c : SlotCl S Ct d vs j sc sl) : SlotCl S Ct d' vs' j sc sl :=
  fun i k hk hne => Good.same h (c i k hk hne) (by simp only [J.bnd]; omega)

theorem StackCl.same {S : SC} {Ct : Cert} {M : Int} {d d' vs vs'} (h : SameBelow S M d d' vs vs') {jt : Int}
    {ks : List Kind} {stk : List (Int × V)} (hj : jt ≤ M) (c : StackCl S Ct d vs jt ks stk) :
    StackCl S Ct d' vs' jt ks stk := by
  intro n k hk hne
  obtain ⟨p, hp, hg⟩ := c n k hk hne
  exact ⟨p, hp, KOK.same h hj hg⟩

theorem Susp.same {S : SC} {Ct : Cert} {M : Int} {d d' vs vs'} (h : SameBelow S M d d' vs vs') :
    ∀ {r : Int} {frames : List (Int × Scope)}, (∀ p ∈ frames, p.1 ≤ M) → Susp S Ct d vs r frames → Susp S Ct d' vs' r frames
  | _, [], _, _ => trivial
  | r, (j, sc) :: rest, hle, c => by
    obtain ⟨a2, h1, h2, h3, h4, h5⟩ := c
    exact ⟨a2, h1, h2, h3, h4.same h (hle (j, sc) (by simp)), Susp.same h (fun p hp => hle p (by simp [hp])) h5⟩

theorem FCur.same {S : SC} {Ct : Cert} {M : Int} {d d' vs vs'} (h : SameBelow S M d d' vs vs') {a2 : Abs2}
    {frames : List (Int × Scope)} (hle : ∀ p ∈ frames, p.1 ≤ M) (c : FCur S Ct d vs a2 frames) : FCur S Ct d' vs' a2 frames := by
  obtain ⟨j, sc, rest, rfl, h2, h3, h4⟩ := c
  exact ⟨j, sc, rest, rfl, h2, h3.same h (hle (j, sc) (by simp)), Susp.same h (fun p hp => hle p (by simp [hp])) h4⟩

theorem BConf2.same {S : SC} {Ct : Cert} {M : Int} {d d' vs vs'} (h : SameBelow S M d d' vs vs') {pc : Int}
    {frames : List (Int × Scope)} (hle : ∀ p ∈ frames, p.1 ≤ M) (c : BConf2 S Ct d vs pc frames) : BConf2 S Ct d' vs' pc frames := by
  unfold BConf2 at *
  split
  all_goals (rename_i hc; simp only [hc] at c)
  · obtain ⟨a2, h1, h2⟩ := c; exact ⟨a2, h1, h2.same h hle⟩
  · obtain ⟨a2, h1, h2⟩ := c; exact ⟨a2, h1, h2.same h hle⟩
  · obtain ⟨a2, h1, h2⟩ := c; exact ⟨a2, h1, h2.same h hle⟩
  · obtain ⟨a2, h1, h2⟩ := c; exact ⟨a2, h1, h2.same h hle⟩
  · trivial

theorem ForksConf2.same {S : SC} {Ct : Cert} {M : Int} {d d' vs vs'} (h : SameBelow S M d d' vs vs') {fs : List FView}
    (hle : ∀ f ∈ fs, ∀ p ∈ f.frames, p.1 ≤ M) (c : ForksConf2 S Ct d vs fs) : ForksConf2 S Ct d' vs' fs :=
  fun f hf => (c f hf).same h (hle f hf)

/-! ## kinds: weakening along an accepted successor -/

theorem KOK.any {S : SC} {Ct : Cert} {d vs} (v : V) (jt : Int) : KOK S Ct d vs .any v jt := trivial

theorem weaker_eq {b s : Kind} (h : b.weaker s = true) (hb : b ≠ .any) : b = s := by
  unfold Kind.weaker at h
  simp only [Bool.or_eq_true, beq_iff_eq] at h
  rcases h with h | h
  · exact absurd h hb
  · exact h

theorem ksAccept_get : ∀ {b s : List Kind}, ksAccept b s = true → ∀ (n : Nat) (k : Kind), b[n]? = some k → k ≠ .any →
    s[n]? = some k
  | [], _, _, n, k, hk, _ => by simp at hk
  | b0 :: bs, [], h, n, k, hk, hne => by
    simp only [ksAccept, Bool.and_eq_true, beq_iff_eq] at h
    cases n with
    | zero => simp at hk; rw [hk] at h; exact absurd h.1 hne
    | succ n => exact ksAccept_get h.2 n k (by simpa using hk) hne
  | b0 :: bs, s0 :: ss, h, n, k, hk, hne => by
    simp only [ksAccept, Bool.and_eq_true] at h
    cases n with
    | zero =>
      simp at hk; subst hk
      simp [weaker_eq h.1 hne]
    | succ n => simpa using ksAccept_get h.2 n k (by simpa using hk) hne

theorem slAccept_get : ∀ {b s : List Kind}, slAccept b s = true → ∀ (n : Nat) (k : Kind), b[n]? = some k → k ≠ .any →
    s[n]? = some k
  | [], [], _, n, k, hk, _ => by simp at hk
  | [], _ :: _, h, _, _, _, _ => by simp [slAccept] at h
  | _ :: _, [], h, _, _, _, _ => by simp [slAccept] at h
  | b0 :: bs, s0 :: ss, h, n, k, hk, hne => by
    simp only [slAccept, Bool.and_eq_true] at h
    cases n with
    | zero =>
      simp at hk; subst hk
      simp [weaker_eq h.1 hne]
    | succ n => simpa using slAccept_get h.2 n k (by simpa using hk) hne

theorem StackCl.weaken {S : SC} {Ct : Cert} {d vs} {jt : Int} {b s : List Kind} {stk : List (Int × V)}
    (h : ksAccept b s = true) (c : StackCl S Ct d vs jt s stk) : StackCl S Ct d vs jt b stk :=
  fun n k hk hne => c n k (ksAccept_get h n k hk hne) hne

theorem SlotCl.weaken {S : SC} {Ct : Cert} {d vs} {j : Int} {sc : Scope} {b s : List Kind}
    (h : slAccept b s = true) (c : SlotCl S Ct d vs j sc s) : SlotCl S Ct d vs j sc b :=
  fun n k hk hne => c n k (slAccept_get h n k hk hne) hne

theorem Cur.accept {S : SC} {Ct : Cert} {d vs} {b a : Abs2} {stk : List (Int × V)} {frames : List (Int × Scope)}
    (h : b.accepts a = true) (c : Cur S Ct d vs a stk frames) : Cur S Ct d vs b stk frames := by
  unfold Abs2.accepts at h
  simp only [Bool.and_eq_true, beq_iff_eq] at h
  obtain ⟨j, sc, rest, h1, h2, h3, h4, h5⟩ := c
  exact ⟨j, sc, rest, h1, by rw [h.1.1]; exact h2, h3.weaken h.2, h4.weaken h.1.2, h5⟩

/-- the successor of an instruction, entered in normal mode -/
theorem NMode2.of_succ {S : SC} {Ct : Cert} {s : Int × Abs2} (hs : SuccOK2 Ct s) {l : L} {e : Env} {A : AView}
    (hpc : l.pc = s.1) {ins : Shape} (hc : codeAt S s.1 = some ins) (hns : isScope ins = false)
    (c : Cur S Ct e.scopes.data e.values s.2 A.stk A.frames) : NMode2 S Ct l e A := by
  obtain ⟨b, hb, hacc⟩ := hs
  refine ⟨b, ins, by rw [hpc]; exact hb, by rw [hpc]; exact hc, ?_⟩
  rw [if_neg (by rw [hns]; simp)]
  exact c.accept hacc

theorem succ_code {S : SC} {s : Int × Abs} (h : SuccOK S s) : ∃ i, codeAt S s.1 = some i ∧ isScope i = false := by
  obtain ⟨b, i, _, h2, h3, _⟩ := h
  exact ⟨i, h2, h3⟩

/-! ## stack claims under push / pop -/

theorem StackCl.push {S : SC} {Ct : Cert} {d vs} {jt : Int} {ks : List Kind} {stk : List (Int × V)} {k : Kind}
    {p : Int × V} (c : StackCl S Ct d vs jt ks stk) (hk : KOK S Ct d vs k p.2 jt) :
    StackCl S Ct d vs jt (k :: ks) (p :: stk) := by
  intro n k' hk' hne
  cases n with
  | zero => simp at hk'; subst hk'; exact ⟨p, by simp, hk⟩
  | succ n => simpa using c n k' (by simpa using hk') hne

theorem StackCl.tail {S : SC} {Ct : Cert} {d vs} {jt : Int} {ks : List Kind} {stk : List (Int × V)} {p : Int × V}
    (c : StackCl S Ct d vs jt ks (p :: stk)) : StackCl S Ct d vs jt ks.tail stk := by
  intro n k hk hne
  cases ks with
  | nil => simp at hk
  | cons k0 ks => simpa using c (n + 1) k (by simpa using hk) hne

theorem StackCl.nil {S : SC} {Ct : Cert} {d vs} {jt : Int} (stk : List (Int × V)) : StackCl S Ct d vs jt [] stk :=
  fun n k hk _ => by simp at hk

theorem StackCl.drop {S : SC} {Ct : Cert} {d vs} {jt : Int} {ks : List Kind} {stk : List (Int × V)} (m : Nat)
    (c : StackCl S Ct d vs jt ks stk) : StackCl S Ct d vs jt (ks.drop m) (stk.drop m) := by
  intro n k hk hne
  have := c (m + n) k (by simpa using hk) hne
  simpa using this

theorem StackCl.head {S : SC} {Ct : Cert} {d vs} {jt : Int} {ks : List Kind} {stk : List (Int × V)} {p : Int × V}
    (c : StackCl S Ct d vs jt ks (p :: stk)) : KOK S Ct d vs (kget ks 0) p.2 jt := by
  unfold kget
  cases ks with
  | nil => exact trivial
  | cons k0 ks =>
    simp only [List.getD_cons_zero]
    by_cases hne : k0 = .any
    · rw [hne]; exact trivial
    · obtain ⟨q, hq, hg⟩ := c 0 k0 (by simp) hne
      simp at hq; subst hq; exact hg

end Gojq.SafeVM

/-
  Helper lemmas for the slice extension of the heap model (`Gojq/Model/HeapSlice.lean`), part 1:
  bounds, the three parts of a sliced array, the value-level meaning of `updS` (`updS_abs`), write
  confinement without hypotheses on labels (`updS_confined`, `markS_confined`), and `updS` on paths
  without slices is `upd`.  Core Lean only.
-/
import Gojq.Model.HeapSlice
import Gojq.Proofs.HeapChain
namespace Gojq.Heap
open Gojq

/-! ### bounds -/

theorem clampIndex_range (i : Int) (lo hi : Nat) (h : lo ≤ hi) :
    lo ≤ clampIndex i lo hi ∧ clampIndex i lo hi ≤ hi := by
  unfold clampIndex
  simp only []
  split <;> split <;> (try split) <;> omega

theorem sliceBounds_le (s e : Option Int) (len : Nat) :
    (sliceBounds s e len).1 ≤ (sliceBounds s e len).2 ∧ (sliceBounds s e len).2 ≤ len := by
  unfold sliceBounds
  simp only []
  have hs : (match s with | none => 0 | some i => clampIndex i 0 len) ≤ len := by
    cases s with
    | none => simp
    | some i => exact (clampIndex_range i 0 len (Nat.zero_le _)).2
  cases e with
  | none => exact ⟨hs, Nat.le_refl _⟩
  | some i => exact clampIndex_range i _ len hs

theorem take_mid_drop {α : Type} (l : List α) (a b : Nat) (h : a ≤ b) :
    l = l.take a ++ (l.drop a).take (b - a) ++ l.drop b := by
  have h1 : l.drop b = (l.drop a).drop (b - a) := by
    rw [List.drop_drop]; congr 1; omega
  rw [h1, List.append_assoc, List.take_append_drop, List.take_append_drop]

/-! ### children lists -/

theorem absA_take : ∀ (ks : Kids) (n : Nat), absA (ks.take n) = (absA ks).take n
  | [], n => by simp [absA]
  | (_, t) :: ks, 0 => by simp [absA]
  | (_, t) :: ks, n + 1 => by simp [absA, absA_take ks n]

theorem absA_drop : ∀ (ks : Kids) (n : Nat), absA (ks.drop n) = (absA ks).drop n
  | [], n => by simp [absA]
  | (_, t) :: ks, 0 => by simp [absA]
  | (_, t) :: ks, n + 1 => by simp [absA, absA_drop ks n]

/-- the kids of a container, its labels below the root -/
def kidsOf : T → Kids
  | .node _ _ _ ks => ks
  | _ => []

def kidIds (t : T) : List Nat := idsK (kidsOf t)

theorem ids_root_kid (t : T) : t.ids = t.root?.toList ++ kidIds t := by
  cases t <;> simp [T.ids, T.root?, kidIds, kidsOf, idsK]

theorem count_root_kid (t : T) (a : Nat) :
    t.ids.count a = (if t.root? = some a then 1 else 0) + (kidIds t).count a := by
  cases t with
  | leaf s => simp [T.ids, T.root?, kidIds, kidsOf, idsK]
  | hole => simp [T.ids, T.root?, kidIds, kidsOf, idsK]
  | node id o c ks =>
    simp only [T.ids, T.root?, kidIds, kidsOf, List.count_cons, Option.some.injEq]
    by_cases h : id = a
    · subst h; simp; omega
    · have : ¬ (id == a) = true := by simpa using h
      simp [this, h]

/-! ### what a slice element finds -/

/-- the two shapes of `enterSlice`: `null` (a nil slice), or an array cut into three parts -/
theorem enterSlice_cases (s e : Option Int) (v : T) (sf : SFocus) (h : enterSlice s e v = some sf) :
    (v = T.null ∧ sf = ⟨none, [], [], []⟩) ∨
    (∃ id c ks, v = .node id false c ks ∧ sf.cell = some (id, c) ∧ ks = sf.pre ++ sf.mid ++ sf.post ∧
      sf.pre = ks.take (sliceBounds s e ks.length).1 ∧
      sf.mid = (ks.drop (sliceBounds s e ks.length).1).take ((sliceBounds s e ks.length).2 - (sliceBounds s e ks.length).1) ∧
      sf.post = ks.drop (sliceBounds s e ks.length).2) := by
  cases v with
  | hole => simp [enterSlice] at h
  | leaf sc =>
    cases sc <;> simp only [enterSlice, Option.some.injEq, reduceCtorEq] at h
    subst h
    exact Or.inl ⟨rfl, rfl⟩
  | node id o c ks =>
    cases o with
    | true => simp [enterSlice] at h
    | false =>
      simp only [enterSlice, Option.some.injEq] at h
      subst h
      refine Or.inr ⟨id, c, ks, rfl, rfl, ?_, rfl, rfl, rfl⟩
      exact take_mid_drop ks _ _ (sliceBounds_le s e ks.length).1

theorem viewLabel_cases (sf : SFocus) (f : Nat) :
    ((viewLabel sf f).2 = f ∧ ∃ id c, sf.cell = some (id, c) ∧ (viewLabel sf f).1 = id ∧ (sf.pre = [] ∨ sf.mid = [])) ∨
    ((viewLabel sf f).1 = f ∧ (viewLabel sf f).2 = f + 1 ∧ (∀ id c, sf.cell = some (id, c) → sf.pre ≠ [] ∧ sf.mid ≠ [])) := by
  cases hc : sf.cell with
  | none =>
    have hv : viewLabel sf f = (f, f + 1) := by simp [viewLabel, hc]
    rw [hv]
    exact Or.inr ⟨rfl, rfl, fun id c h => by cases h⟩
  | some ic =>
    obtain ⟨id, c⟩ := ic
    by_cases h : (sf.pre.isEmpty || sf.mid.isEmpty) = true
    · have hv : viewLabel sf f = (id, f) := by simp only [viewLabel, hc, h, if_true]
      rw [hv]
      refine Or.inl ⟨rfl, id, c, rfl, rfl, ?_⟩
      simp only [Bool.or_eq_true, List.isEmpty_iff] at h
      exact h
    · have hv : viewLabel sf f = (f, f + 1) := by simp only [viewLabel, hc, h, Bool.false_eq_true, if_false]
      rw [hv]
      refine Or.inr ⟨rfl, rfl, ?_⟩
      intro id' c' _
      simp only [Bool.or_eq_true, List.isEmpty_iff, not_or] at h
      exact h

/-! ### (1) value-level meaning of `updS` -/

/-- at value level, entering a key/index element and rebuilding around the updated child is `setpathS` -/
theorem enter_absS (e : PE) (v : T) (cell o fo) (h : enter e v = some (cell, o, fo)) (p : PathS) (n : JV) :
    setpathS (e.toS :: p) (abs v) n = (setpathS p (abs fo.child) n).map (plug o fo) := by
  cases e with
  | key k =>
    cases v with
    | hole => simp [enter] at h
    | leaf s =>
      cases s <;> simp only [enter, Option.some.injEq, Prod.mk.injEq, reduceCtorEq] at h
      obtain ⟨rfl, rfl, rfl⟩ := h
      simp only [abs, Sc.toJV, setpathS, PE.toS, T.null]
      congr 1
    | node id ob c ks =>
      cases ob with
      | false => simp [enter] at h
      | true =>
        simp only [enter, Option.some.injEq, Prod.mk.injEq] at h
        obtain ⟨rfl, rfl, rfl⟩ := h
        simp only [abs, setpathS, PE.toS, (splitKey_abs JV.null k ks).1, getD_map_abs]
        congr 1
        funext w
        simp [plug, (splitKey_abs w k ks).2]
  | idx i =>
    cases v with
    | hole => simp [enter] at h
    | leaf s =>
      cases s <;> simp only [enter, reduceCtorEq] at h
      simp only [abs, Sc.toJV, setpathS, PE.toS]
      split at h
      · rename_i i' hr
        split at h
        · cases h
        · rename_i hlt
          simp only [Option.some.injEq, Prod.mk.injEq] at h
          obtain ⟨rfl, rfl, rfl⟩ := h
          simp only [hr, hlt, if_false, T.null, abs, Sc.toJV]
          congr 1
          funext w
          simp [plug, absA_nullKids, absA]
      · cases h
    | node id ob c ks =>
      cases ob with
      | true => simp [enter] at h
      | false =>
        simp only [enter] at h
        simp only [abs, setpathS, PE.toS, absA_length]
        split at h
        · cases h
        · rename_i j hr
          simp only [Option.map_eq_some_iff] at h
          obtain ⟨⟨pre, x, post⟩, hs, h2⟩ := h
          simp only [Prod.mk.injEq] at h2
          obtain ⟨rfl, rfl, rfl⟩ := h2
          simp only [hr, (splitIdx_abs JV.null j ks pre post x hs).1]
          congr 1
          funext w
          simp [plug, (splitIdx_abs w j ks pre post x hs).2]
        · rename_i i' hr
          split at h
          · cases h
          · rename_i hlt
            simp only [Option.some.injEq, Prod.mk.injEq] at h
            obtain ⟨rfl, rfl, rfl⟩ := h
            simp only [hr, hlt, if_false, T.null, abs, Sc.toJV]
            congr 1
            funext w
            simp [plug, absA_append, absA_nullKids, absA]

theorem plugE_abs (cell : Option (Nat × Nat)) (o : Bool) (fo : Focus) (r : T × List Nat × Nat × Log) :
    abs (plugE cell o fo r).1 = plug o fo (abs r.1) := by
  unfold plugE
  simp only []
  split
  · split
    · split <;> exact abs_node_plug _ _ _ _ _
    · exact abs_node_plug _ _ _ _ _
  · exact abs_node_plug _ _ _ _ _

/-- at value level, entering a slice element: the view denotes the sliced list, and splicing the elements
    of the updated view back is `spliceV` -/
theorem enterSlice_abs (s e : Option Int) (v : T) (sf : SFocus) (h : enterSlice s e v = some sf) (f : Nat) (p : PathS) (n : JV) :
    setpathS (.slice s e :: p) (abs v) n =
      (setpathS p (abs (view sf f)) n).bind fun u => match u with
        | .arr us => some (.arr (absA sf.pre ++ us ++ absA sf.post))
        | _ => none := by
  rcases enterSlice_cases s e v sf h with ⟨rfl, rfl⟩ | ⟨id, c, ks, rfl, _, _, hpre, hmid, hpost⟩
  · simp only [T.null, abs, Sc.toJV, setpathS, view, absA, List.length_nil]
    congr 1
    funext u
    cases u <;> simp [spliceV, sliceBounds]
  · simp only [abs, setpathS, view]
    have hv : absA sf.mid = sliceV s e (absA ks) := by
      rw [hmid, absA_take, absA_drop]; simp [sliceV, absA_length]
    rw [hv]
    congr 1
    funext u
    cases u <;> simp only [spliceV]
    rw [hpre, hpost, absA_take, absA_drop, absA_length]

theorem plugSlice_abs (sf : SFocus) (vl : Nat) (r r' : T × List Nat × Nat × Log) (h : plugSlice sf vl r = some r') :
    ∃ us, abs r.1 = .arr us ∧ abs r'.1 = .arr (absA sf.pre ++ us ++ absA sf.post) := by
  unfold plugSlice at h
  split at h
  · rename_i ul c uks heq
    refine ⟨absA uks, by rw [heq]; simp [abs], ?_⟩
    simp only [] at h
    split at h
    · split at h <;> (simp only [Option.some.injEq] at h; subst h; simp [abs, absA_append])
    · simp only [Option.some.injEq] at h; subst h; simp [abs, absA_append]
  · cases h

theorem updS_abs : ∀ (p : PathS) (v n : T) (A : List Nat) (f : Nat) r,
    updS A f p v n = some r → setpathS p (abs v) (abs n) = some (abs r.1) := by
  intro p
  induction p with
  | nil => intro v n A f r h; simp only [updS, Option.some.injEq] at h; subst h; simp [setpathS]
  | cons e p ih =>
    intro v n A f r h
    cases e with
    | key k =>
      simp only [updS] at h
      split at h
      · cases h
      · rename_i cell o fo he
        simp only [Option.map_eq_some_iff] at h
        obtain ⟨r1, hr1, rfl⟩ := h
        have := enter_absS (.key k) v cell o fo he p (abs n)
        simp only [PE.toS] at this
        rw [this, ih _ _ _ _ _ hr1, Option.map_some, plugE_abs]
    | idx i =>
      simp only [updS] at h
      split at h
      · cases h
      · rename_i cell o fo he
        simp only [Option.map_eq_some_iff] at h
        obtain ⟨r1, hr1, rfl⟩ := h
        have := enter_absS (.idx i) v cell o fo he p (abs n)
        simp only [PE.toS] at this
        rw [this, ih _ _ _ _ _ hr1, Option.map_some, plugE_abs]
    | slice s e =>
      simp only [updS] at h
      split at h
      · cases h
      · rename_i sf he
        simp only [Option.bind_eq_some_iff] at h
        obtain ⟨r1, hr1, hp⟩ := h
        rw [enterSlice_abs s e v sf he f p (abs n), ih _ _ _ _ _ hr1]
        obtain ⟨us, h1, h2⟩ := plugSlice_abs sf _ r1 r hp
        simp only [Option.bind_some, h1, h2]

/-! ### the small pieces of the slice step -/

theorem freeU_sub (same : Bool) (u : T) (uks : Kids) (A : List Nat) : ∀ a ∈ freeU same u uks A, a ∈ A := by
  intro a ha
  unfold freeU at ha
  split at ha
  · exact ha
  · split at ha
    · exact (List.mem_filter.mp ha).1
    · exact ha

theorem mem_freeU (same : Bool) (u : T) (uks : Kids) (A : List Nat) (a : Nat) (ha : a ∈ A)
    (hne : u.root? ≠ some a) : a ∈ freeU same u uks A := by
  unfold freeU
  split
  · exact ha
  · split
    · rename_i l hl
      refine List.mem_filter.mpr ⟨ha, ?_⟩
      have : a ≠ l := fun e => hne (by rw [hl, e])
      simpa using this
    · exact ha

theorem regFresh_sub (l : Nat) (kids : Kids) (A : List Nat) : ∀ a ∈ regFresh l kids A, a = l ∨ a ∈ A := by
  intro a ha
  unfold regFresh at ha
  split at ha
  · exact Or.inr ha
  · exact List.mem_cons.mp ha

theorem mem_regFresh (l : Nat) (kids : Kids) (A : List Nat) (a : Nat) (ha : a ∈ A) : a ∈ regFresh l kids A := by
  unfold regFresh
  split
  · exact ha
  · exact List.mem_cons_of_mem _ ha

theorem regFresh_self (l : Nat) (kids : Kids) (A : List Nat) (h : kids ≠ []) : l ∈ regFresh l kids A := by
  unfold regFresh
  have : kids.isEmpty = false := by cases kids <;> simp_all
  simp [this]

theorem mem_rebase (id : Nat) (post : Kids) (log : Log) :
    ∀ e ∈ rebase id post log, ∃ e' ∈ log, e.1 = e'.1 ∧ ((e'.1 = id ∧ e.2 = e'.2 ++ post) ∨ (e'.1 ≠ id ∧ e = e')) := by
  intro e he
  simp only [rebase, List.mem_map] at he
  obtain ⟨e', he', rfl⟩ := he
  refine ⟨e', he', ?_⟩
  by_cases h : e'.1 = id
  · simp [h]
  · simp [h]

/-- the three shapes of a successful `plugSlice` -/
theorem plugSlice_cases (sf : SFocus) (vl : Nat) (r r' : T × List Nat × Nat × Log) (h : plugSlice sf vl r = some r') :
    ∃ ul uc uks, r.1 = .node ul false uc uks ∧
      ((∃ id c, sf.cell = some (id, c) ∧ uks.length = sf.mid.length ∧ id ∈ r.2.1 ∧
          r' = (.node id false c (sf.pre ++ uks ++ sf.post), freeU (ul == vl) r.1 uks r.2.1, r.2.2.1,
            (if sf.pre.isEmpty then rebase id sf.post r.2.2.2 else r.2.2.2) ++
              (if uks.isEmpty then [] else [(id, sf.pre ++ uks ++ sf.post)]))) ∨
       (∃ A2, r' = (.node r.2.2.1 false (sf.pre ++ uks ++ sf.post).length (sf.pre ++ uks ++ sf.post),
            regFresh r.2.2.1 (sf.pre ++ uks ++ sf.post) (freeU false r.1 uks A2), r.2.2.1 + 1, r.2.2.2) ∧
          ((sf.cell = none ∧ A2 = r.2.1) ∨
           (∃ id c, sf.cell = some (id, c) ∧ ¬ (uks.length = sf.mid.length ∧ id ∈ r.2.1) ∧ A2 = r.2.1.filter (· ≠ id))))) := by
  unfold plugSlice at h
  split at h
  · rename_i ul uc uks heq
    refine ⟨ul, uc, uks, heq, ?_⟩
    simp only [] at h
    split at h
    · rename_i id c hc
      split at h
      · rename_i hcond
        simp only [Option.some.injEq] at h
        exact Or.inl ⟨id, c, hc, hcond.1, hcond.2, h.symm⟩
      · rename_i hcond
        simp only [Option.some.injEq] at h
        exact Or.inr ⟨_, h.symm, Or.inr ⟨id, c, hc, hcond, rfl⟩⟩
    · rename_i hc
      simp only [Option.some.injEq] at h
      exact Or.inr ⟨_, h.symm, Or.inl ⟨hc, rfl⟩⟩
  · cases h

/-- the shapes of `plugE` -/
theorem plugE_cases (cell : Option (Nat × Nat)) (o : Bool) (fo : Focus) (r : T × List Nat × Nat × Log) :
    (∃ id c, cell = some (id, c) ∧ id ∈ r.2.1 ∧ fo.fits = true ∧
        plugE cell o fo r = (.node id o c (fo.pre ++ (fo.key, r.1) :: fo.post), r.2.1, r.2.2.1,
          r.2.2.2 ++ [(id, fo.pre ++ (fo.key, r.1) :: fo.post)])) ∨
    (∃ c' A2, plugE cell o fo r = (.node r.2.2.1 o c' (fo.pre ++ (fo.key, r.1) :: fo.post), r.2.2.1 :: A2, r.2.2.1 + 1, r.2.2.2) ∧
        ((A2 = r.2.1 ∧ ∀ id c, cell = some (id, c) → id ∉ r.2.1) ∨
          ∃ id c, cell = some (id, c) ∧ id ∈ r.2.1 ∧ A2 = r.2.1.filter (· ≠ id))) := by
  unfold plugE
  simp only []
  split
  · rename_i id c
    split
    · rename_i hin
      split
      · rename_i hfit
        exact Or.inl ⟨id, c, rfl, hin, hfit, rfl⟩
      · exact Or.inr ⟨_, _, rfl, Or.inr ⟨id, c, rfl, hin, rfl⟩⟩
    · rename_i hnin
      refine Or.inr ⟨_, _, rfl, Or.inl ⟨rfl, ?_⟩⟩
      intro id' c' hc
      simp only [Option.some.injEq, Prod.mk.injEq] at hc
      obtain ⟨rfl, rfl⟩ := hc
      exact hnin
  · exact Or.inr ⟨_, _, rfl, Or.inl ⟨rfl, fun id c hc => by cases hc⟩⟩

/-! ### (2) write confinement without any hypothesis on the labels -/

/-- `r` is confined relative to the allocator `A` and counter `f` the call started with -/
def Confined (A : List Nat) (f : Nat) (r : T × List Nat × Nat × Log) : Prop :=
  f ≤ r.2.2.1 ∧ (∀ a ∈ r.2.1, a ∈ A ∨ (f ≤ a ∧ a < r.2.2.1)) ∧ (∀ e ∈ r.2.2.2, e.1 ∈ A ∨ (f ≤ e.1 ∧ e.1 < r.2.2.1))

theorem plugE_confined (A : List Nat) (f : Nat) (cell o fo) (r : T × List Nat × Nat × Log) (h : Confined A f r) :
    Confined A f (plugE cell o fo r) := by
  obtain ⟨hf, h2, h3⟩ := h
  rcases plugE_cases cell o fo r with ⟨id, c, _, hin, _, heq⟩ | ⟨c', A2, heq, hA2⟩
  · rw [heq]
    refine ⟨hf, h2, ?_⟩
    intro e he
    simp only [List.mem_append, List.mem_singleton] at he
    rcases he with he | rfl
    · exact h3 e he
    · exact h2 _ hin
  · rw [heq]
    have hA2sub : ∀ a ∈ A2, a ∈ r.2.1 := by
      rcases hA2 with ⟨hEq, _⟩ | ⟨id, c, _, _, hEq⟩
      · rw [hEq]; exact fun a h => h
      · rw [hEq]; exact fun a h => (List.mem_filter.mp h).1
    refine ⟨Nat.le_succ_of_le hf, ?_, ?_⟩
    · intro a ha
      rcases List.mem_cons.mp ha with rfl | ha
      · exact Or.inr ⟨hf, Nat.lt_succ_self _⟩
      · rcases h2 a (hA2sub a ha) with h | h
        · exact Or.inl h
        · exact Or.inr ⟨h.1, Nat.lt_succ_of_lt h.2⟩
    · intro e he
      rcases h3 e he with h | h
      · exact Or.inl h
      · exact Or.inr ⟨h.1, Nat.lt_succ_of_lt h.2⟩

theorem plugSlice_confined (A : List Nat) (f f0 : Nat) (hf0 : f ≤ f0) (sf : SFocus) (vl : Nat)
    (r r' : T × List Nat × Nat × Log) (h : Confined A f0 r) (hp : plugSlice sf vl r = some r') : Confined A f r' := by
  obtain ⟨hf, h2, h3⟩ := h
  have h2' : ∀ a ∈ r.2.1, a ∈ A ∨ (f ≤ a ∧ a < r.2.2.1) := fun a ha => by
    rcases h2 a ha with h | h
    · exact Or.inl h
    · exact Or.inr ⟨by omega, h.2⟩
  have h3' : ∀ e ∈ r.2.2.2, e.1 ∈ A ∨ (f ≤ e.1 ∧ e.1 < r.2.2.1) := fun e he => by
    rcases h3 e he with h | h
    · exact Or.inl h
    · exact Or.inr ⟨by omega, h.2⟩
  obtain ⟨ul, uc, uks, hu, hcase⟩ := plugSlice_cases sf vl r r' hp
  rcases hcase with ⟨id, c, _, _, hin, rfl⟩ | ⟨A2, rfl, hA2⟩
  · refine ⟨by show f ≤ r.2.2.1; omega, fun a ha => h2' a (freeU_sub _ _ _ _ a ha), ?_⟩
    intro e he
    simp only [List.mem_append] at he
    rcases he with he | he
    · split at he
      · obtain ⟨e', he', h1, _⟩ := mem_rebase id sf.post r.2.2.2 e he
        rw [h1]; exact h3' e' he'
      · exact h3' e he
    · split at he
      · cases he
      · simp only [List.mem_singleton] at he
        subst he
        exact h2' _ hin
  · have hA2sub : ∀ a ∈ A2, a ∈ r.2.1 := by
      rcases hA2 with ⟨_, hEq⟩ | ⟨id, c, _, _, hEq⟩
      · rw [hEq]; exact fun a h => h
      · rw [hEq]; exact fun a h => (List.mem_filter.mp h).1
    refine ⟨by simp only []; omega, ?_, ?_⟩
    · intro a ha
      rcases regFresh_sub _ _ _ a ha with rfl | ha
      · exact Or.inr ⟨by omega, Nat.lt_succ_self _⟩
      · rcases h2' a (hA2sub a (freeU_sub _ _ _ _ a ha)) with h | h
        · exact Or.inl h
        · exact Or.inr ⟨h.1, Nat.lt_succ_of_lt h.2⟩
    · intro e he
      rcases h3' e he with h | h
      · exact Or.inl h
      · exact Or.inr ⟨h.1, Nat.lt_succ_of_lt h.2⟩

theorem viewLabel_ge (sf : SFocus) (f : Nat) : f ≤ (viewLabel sf f).2 := by
  rcases viewLabel_cases sf f with ⟨h, _⟩ | ⟨_, h, _⟩ <;> omega

/-- every cell written in place by `updS` was registered in the allocator before the call or allocated
    by the call, and so is every cell registered afterwards -/
theorem updS_confined : ∀ (p : PathS) (v n : T) (A : List Nat) (f : Nat) r,
    updS A f p v n = some r → Confined A f r := by
  intro p
  induction p with
  | nil =>
    intro v n A f r h
    simp only [updS, Option.some.injEq] at h
    subst h
    exact ⟨Nat.le_refl _, fun a h => Or.inl h, by simp⟩
  | cons e p ih =>
    intro v n A f r h
    cases e with
    | key k =>
      simp only [updS] at h
      split at h
      · cases h
      · simp only [Option.map_eq_some_iff] at h
        obtain ⟨r1, hr1, rfl⟩ := h
        exact plugE_confined A f _ _ _ r1 (ih _ _ _ _ _ hr1)
    | idx i =>
      simp only [updS] at h
      split at h
      · cases h
      · simp only [Option.map_eq_some_iff] at h
        obtain ⟨r1, hr1, rfl⟩ := h
        exact plugE_confined A f _ _ _ r1 (ih _ _ _ _ _ hr1)
    | slice s e =>
      simp only [updS] at h
      split at h
      · cases h
      · rename_i sf _
        simp only [Option.bind_eq_some_iff] at h
        obtain ⟨r1, hr1, hp⟩ := h
        exact plugSlice_confined A f _ (viewLabel_ge sf f) sf _ r1 r (ih _ _ _ _ _ hr1) hp

/-- the marking pass: every cell registered before stays registered, every written cell is registered
    at the end or was registered before (the array that carried the marked elements of a slice may have
    been written and then dropped and unregistered) or was allocated by the call -/
def ConfinedD (A : List Nat) (f : Nat) (r : T × List Nat × Nat × Log) : Prop :=
  f ≤ r.2.2.1 ∧ (∀ a ∈ r.2.1, a ∈ A ∨ (f ≤ a ∧ a < r.2.2.1)) ∧ (∀ e ∈ r.2.2.2, e.1 ∈ A ∨ (f ≤ e.1 ∧ e.1 < r.2.2.1))

theorem plugDel_confined (A : List Nat) (f : Nat) (id o c cCopy pre key post) (r : T × List Nat × Nat × Log)
    (h : ConfinedD A f r) : ConfinedD A f (plugDel id o c cCopy pre key post r) := by
  obtain ⟨hf, h2, h3⟩ := h
  unfold plugDel
  simp only []
  split
  · rename_i hin
    refine ⟨hf, h2, ?_⟩
    intro e he
    simp only [List.mem_append, List.mem_singleton] at he
    rcases he with he | rfl
    · exact h3 e he
    · exact h2 _ hin
  · refine ⟨Nat.le_succ_of_le hf, ?_, ?_⟩
    · intro a ha
      rcases List.mem_cons.mp ha with rfl | ha
      · exact Or.inr ⟨hf, Nat.lt_succ_self _⟩
      · rcases h2 a ha with h | h
        · exact Or.inl h
        · exact Or.inr ⟨h.1, Nat.lt_succ_of_lt h.2⟩
    · intro e he
      rcases h3 e he with h | h
      · exact Or.inl h
      · exact Or.inr ⟨h.1, Nat.lt_succ_of_lt h.2⟩

theorem plugSliceDel_confined (A : List Nat) (f f0 : Nat) (hf0 : f ≤ f0) (sf : SFocus) (vl : Nat)
    (r r' : T × List Nat × Nat × Log) (h : ConfinedD A f0 r) (hp : plugSliceDel sf vl r = some r') : ConfinedD A f r' := by
  unfold plugSliceDel at hp
  split at hp
  · obtain ⟨hf, h2, h3⟩ := h
    have h2' : ∀ a ∈ r.2.1, a ∈ A ∨ (f ≤ a ∧ a < r.2.2.1) := fun a ha => by
      rcases h2 a ha with h | h
      · exact Or.inl h
      · exact Or.inr ⟨by omega, h.2⟩
    have h3' : ∀ e ∈ r.2.2.2, e.1 ∈ A ∨ (f ≤ e.1 ∧ e.1 < r.2.2.1) := fun e he => by
      rcases h3 e he with h | h
      · exact Or.inl h
      · exact Or.inr ⟨by omega, h.2⟩
    split at hp
    · simp only [] at hp
      split at hp
      · rename_i hin
        simp only [Option.some.injEq] at hp
        subst hp
        refine ⟨by show f ≤ r.2.2.1; omega, h2', ?_⟩
        intro e he
        simp only [List.mem_append, List.mem_singleton] at he
        rcases he with he | rfl
        · exact h3' e he
        · exact h2' _ hin
      · simp only [Option.some.injEq] at hp
        subst hp
        refine ⟨by simp only []; omega, ?_, ?_⟩
        · intro a ha
          rcases List.mem_cons.mp ha with rfl | ha
          · exact Or.inr ⟨by omega, Nat.lt_succ_self _⟩
          · rcases h2' a ha with h | h
            · exact Or.inl h
            · exact Or.inr ⟨h.1, Nat.lt_succ_of_lt h.2⟩
        · intro e he
          rcases h3' e he with h | h
          · exact Or.inl h
          · exact Or.inr ⟨h.1, Nat.lt_succ_of_lt h.2⟩
    · cases hp
  · exact plugSlice_confined A f f0 hf0 sf vl r r' h hp

theorem markS_confined : ∀ (p : PathS) (v : T) (A : List Nat) (f : Nat) r,
    markS A f p v = some r → ConfinedD A f r := by
  intro p
  induction p with
  | nil =>
    intro v A f r h
    simp only [markS, Option.some.injEq] at h
    subst h
    exact ⟨Nat.le_refl _, fun a h => Or.inl h, by simp⟩
  | cons e p ih =>
    intro v A f r h
    have same : ConfinedD A f (v, A, f, []) := ⟨Nat.le_refl _, fun a h => Or.inl h, by simp⟩
    cases e with
    | key k =>
      simp only [markS] at h
      split at h
      · cases h
      · simp only [Option.some.injEq] at h; subst h; exact same
      · simp only [Option.map_eq_some_iff] at h
        obtain ⟨r1, hr1, rfl⟩ := h
        exact plugDel_confined A f _ _ _ _ _ _ _ r1 (ih _ _ _ _ hr1)
    | idx i =>
      simp only [markS] at h
      split at h
      · cases h
      · simp only [Option.some.injEq] at h; subst h; exact same
      · simp only [Option.map_eq_some_iff] at h
        obtain ⟨r1, hr1, rfl⟩ := h
        exact plugDel_confined A f _ _ _ _ _ _ _ r1 (ih _ _ _ _ hr1)
    | slice s e =>
      simp only [markS] at h
      split at h
      · simp only [Option.some.injEq] at h; subst h; exact same
      · split at h
        · cases h
        · rename_i sf _
          split at h
          · simp only [Option.some.injEq] at h; subst h; exact same
          · simp only [Option.bind_eq_some_iff] at h
            obtain ⟨r1, hr1, hp⟩ := h
            exact plugSliceDel_confined A f _ (viewLabel_ge sf f) sf _ r1 r (ih _ _ _ _ hr1) hp

theorem markAllS_confined : ∀ (ps : List PathS) (v : T) (A : List Nat) (f : Nat) (log0 : Log) r,
    markAllS ps (v, A, f, log0) = some r → (∀ e ∈ log0, e.1 ∈ A0 ∨ (f0 ≤ e.1 ∧ e.1 < f)) →
    (∀ a ∈ A, a ∈ A0 ∨ (f0 ≤ a ∧ a < f)) → f0 ≤ f → ConfinedD A0 f0 r := by
  intro ps
  induction ps with
  | nil =>
    intro v A f log0 r h h0 hA hf
    simp only [markAllS, Option.some.injEq] at h
    subst h
    exact ⟨hf, hA, h0⟩
  | cons p ps ih =>
    intro v A f log0 r h h0 hA hf
    simp only [markAllS] at h
    split at h
    · cases h
    · rename_i v1 A1 f1 log1 hm
      obtain ⟨g1, g2, g3⟩ := markS_confined p v A f _ hm
      simp only [] at g1 g2 g3
      have lift : ∀ a, (a ∈ A ∨ (f ≤ a ∧ a < f1)) → a ∈ A0 ∨ (f0 ≤ a ∧ a < f1) := by
        intro a ha
        rcases ha with ha | ha
        · rcases hA a ha with h | h
          · exact Or.inl h
          · exact Or.inr ⟨h.1, by omega⟩
        · exact Or.inr ⟨by omega, ha.2⟩
      apply ih v1 A1 f1 (log0 ++ log1) r h
      · intro e he
        rcases List.mem_append.mp he with he | he
        · rcases h0 e he with h | h
          · exact Or.inl h
          · exact Or.inr ⟨h.1, by omega⟩
        · exact lift _ (g3 e he)
      · exact fun a ha => lift _ (g2 a ha)
      · omega

/-! ### (3) on paths without slices `updS` is `upd`, `markS` is `mark` -/

theorem plugE_eq (A f) (e : PE) (p : Path) (v n : T) (cell o fo) (he : enter e v = some (cell, o, fo)) :
    upd A f (e :: p) v n = (upd A f p fo.child n).map (plugE cell o fo) := by
  simp only [upd, he]
  cases hu : upd A f p fo.child n with
  | none => rfl
  | some r =>
    obtain ⟨u, A1, f1, log⟩ := r
    simp only [Option.map_some, plugE]
    cases cell with
    | none => rfl
    | some ic =>
      obtain ⟨id, c⟩ := ic
      simp only []
      split
      · split <;> rfl
      · rfl

theorem updS_toS : ∀ (p : Path) (v n : T) (A : List Nat) (f : Nat),
    updS A f (p.map PE.toS) v n = upd A f p v n := by
  intro p
  induction p with
  | nil => intro v n A f; rfl
  | cons e p ih =>
    intro v n A f
    cases e with
    | key k =>
      simp only [List.map_cons, PE.toS, updS]
      cases he : enter (.key k) v with
      | none => simp [upd, he]
      | some r => obtain ⟨cell, o, fo⟩ := r; simp only []; rw [plugE_eq A f _ p v n cell o fo he, ih]
    | idx i =>
      simp only [List.map_cons, PE.toS, updS]
      cases he : enter (.idx i) v with
      | none => simp [upd, he]
      | some r => obtain ⟨cell, o, fo⟩ := r; simp only []; rw [plugE_eq A f _ p v n cell o fo he, ih]

end Gojq.Heap

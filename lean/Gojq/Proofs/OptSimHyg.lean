/-
  Control hygiene of a run, relative to one pc `B` (the SECOND instruction of a merged pair):
  no control transfer other than falling through from `B - 1` ever lands on `B`.

  The places a pc can come from are: the static operands of jump / fork / call / pushpc
  instructions (a hypothesis on the code), the pc saved in a pending fork (always the pc of a
  fork-like instruction), the return address saved in a scope frame (always the pc of a
  call / callpc instruction, `len(codes) - 1` from `Next`'s entry, or -1 from `callrec`), and the
  pc inside a closure value `[2]int{pc, scopeindex}` — pushed by `pushpc`, then moved between the
  data stack and the variable slots.  `HygEnv` says that none of them is `B` (a return address
  `r` resumes at `r + 1`, so neither `r` nor `r + 1` is `B`), and every opcode keeps it.
-/
import Gojq.Proofs.VMExec
import Gojq.Model.OptVM
set_option linter.unusedSimpArgs false
set_option linter.unusedVariables false
namespace Gojq.OptVM
open Gojq Gojq.VM

mutual
/-- no closure pointing at `B` inside (a `pathValue` only ever lives on the paths stack and never
    flows back, so it is not inspected) -/
def vclean (B : Int) : V → Bool
  | .clo pc _ => pc != B
  | .pvs xs => pclean B xs
  | _ => true
def pclean (B : Int) : List (V × V) → Bool
  | [] => true
  | pv :: xs => vclean B pv.2 && pclean B xs
end

def eclean (B : Int) : Err → Bool
  | .value v => vclean B v
  | .halt v => vclean B v
  | .brk _ v => vclean B v
  | .tryEnd e => eclean B e
  | _ => true

/-- a saved return address: `ret` resumes at `pc + 1`, and `Next` saves `pc` itself after a value -/
def PcOK (B pc : Int) : Prop := pc ≠ B ∧ pc + 1 ≠ B

structure HygEnv (B : Int) (e : Env) : Prop where
  stack : ∀ (j : Nat) (b : Block V), e.stack.data[j]? = some b → vclean B b.value = true
  values : ∀ (j : Nat) (v : V), e.values[j]? = some v → vclean B v = true
  scopes : ∀ (j : Nat) (b : Block Scope), e.scopes.data[j]? = some b → PcOK B b.value.pc
  forks : ∀ f ∈ e.forks, f.pc ≠ B

/-- the oracle never answers a closure pointing at `B` (natives return JSON values, iterators and
    errors carrying JSON values — never a `[2]int`) -/
def ExtOK (B : Int) (x : ExtRec) : Prop :=
  match x.call with
  | some (.val w) => vclean B w = true
  | some (.err er) => eclean B er = true
  | _ => True

def ErrOK (B : Int) (o : Option Err) : Prop := ∀ er, o = some er → eclean B er = true

def CallResOK (B : Int) : CallRes → Prop
  | .val w => vclean B w = true
  | .err er => eclean B er = true
  | .iterEnd => True

/-- `m` keeps `HygEnv` and its result satisfies `φ` (a panic or `stuck` satisfies everything) -/
def HSpec {α : Type} (B : Int) (φ : α → Prop) (m : M α) : Prop :=
  ∀ e, HygEnv B e → wp m (fun a e' => HygEnv B e' ∧ φ a) e

theorem HSpec.pure {α : Type} {B : Int} {φ : α → Prop} {a : α} (h : φ a) : HSpec B φ (pure a : M α) :=
  fun _ he => wp_pure ⟨he, h⟩

theorem HSpec.bind {α β : Type} {B : Int} {ψ : α → Prop} {φ : β → Prop} {m : M α} {f : α → M β}
    (hm : HSpec B ψ m) (hf : ∀ a, ψ a → HSpec B φ (f a)) : HSpec B φ (m >>= f) := by
  intro e he
  apply wp_bind
  have := hm e he
  unfold wp at this ⊢
  cases hme : m e with
  | ok a e' => simp only [hme] at this ⊢; exact hf a this.2 e' this.1
  | panic s => trivial
  | stuck w => trivial

theorem HSpec.weaken {α : Type} {B : Int} {ψ φ : α → Prop} {m : M α}
    (hm : HSpec B ψ m) (h : ∀ a, ψ a → φ a) : HSpec B φ m := by
  intro e he
  have := hm e he
  unfold wp at this ⊢
  cases hme : m e with
  | ok a e' => simp only [hme] at this ⊢; exact ⟨this.1, h a this.2⟩
  | panic s => trivial
  | stuck w => trivial

theorem HSpec.panic {α : Type} {B : Int} {φ : α → Prop} {s : Site} : HSpec B φ (panic s : M α) :=
  fun _ _ => by simp [wp, VM.panic]

theorem HSpec.stuck {α : Type} {B : Int} {φ : α → Prop} {w : String} : HSpec B φ (stuck w : M α) :=
  fun _ _ => by simp [wp, VM.stuck]

/-- a computation that leaves the data stack, the variable slots, the scope frames and the forks -/
theorem HSpec.inert {α : Type} {B : Int} {m : M α}
    (h : ∀ e a e', m e = .ok a e' →
      e'.stack = e.stack ∧ e'.values = e.values ∧ e'.scopes = e.scopes ∧ e'.forks = e.forks) :
    HSpec B (fun _ => True) m := by
  intro e he
  unfold wp
  cases hme : m e with
  | ok a e' =>
    obtain ⟨h1, h2, h3, h4⟩ := h e a e' hme
    exact ⟨⟨by rw [h1]; exact he.stack, by rw [h2]; exact he.values, by rw [h3]; exact he.scopes,
      by rw [h4]; exact he.forks⟩, trivial⟩
  | panic s => trivial
  | stuck w => trivial

/-! ## the stack primitives -/

theorem push_all {α : Type} (P : Block α → Prop) (s : Stack α) (v : α)
    (h : ∀ (j : Nat) (b : Block α), s.data[j]? = some b → P b) (hv : P ⟨v, s.index⟩) :
    ∀ (j : Nat) (b : Block α), (s.push v).data[j]? = some b → P b := by
  intro j b hb
  unfold Stack.push at hb
  simp only at hb
  split at hb
  · rename_i hlt
    by_cases hj : (max s.index s.limit + 1).toNat = j
    · subst hj
      simp [Array.getElem?_setIfInBounds, hlt] at hb
      rw [← hb]; exact hv
    · rw [Array.getElem?_setIfInBounds_ne hj] at hb
      exact h j b hb
  · by_cases hj : j < s.data.size
    · rw [Array.getElem?_push_lt hj] at hb
      exact h j b (by simp [hj]; simpa using hb)
    · by_cases hj2 : j = s.data.size
      · subst hj2
        simp at hb
        rw [← hb]; exact hv
      · have : ¬ j < (s.data.push ⟨v, s.index⟩).size := by simp; omega
        simp [Array.getElem?_eq_none_iff.mpr (by simp; omega : (s.data.push ⟨v, s.index⟩).size ≤ j)] at hb

theorem pop?_data {α : Type} (s s' : Stack α) (v : α) (h : s.pop? = some (v, s')) :
    s'.data = s.data ∧ ∃ (j : Nat) (b : Block α), s.data[j]? = some b ∧ b.value = v := by
  unfold Stack.pop? at h
  split at h
  · rename_i b hb
    simp at h
    obtain ⟨rfl, rfl⟩ := h
    refine ⟨rfl, ?_⟩
    unfold Stack.blockAt? at hb
    split at hb
    · exact ⟨_, b, hb, rfl⟩
    · simp at hb
  · simp at h

theorem top?_data {α : Type} (s : Stack α) (v : α) (h : s.top? = some v) :
    ∃ (j : Nat) (b : Block α), s.data[j]? = some b ∧ b.value = v := by
  unfold Stack.top? at h
  split at h
  · rename_i b hb
    simp at h
    subst h
    unfold Stack.blockAt? at hb
    split at hb
    · exact ⟨_, b, hb, rfl⟩
    · simp at hb
  · simp at h

theorem save_data {α : Type} (s : Stack α) : s.save.2.data = s.data := by
  unfold Stack.save
  simp only
  split <;> rfl

theorem HSpec.push {B : Int} (v : V) (hv : vclean B v = true) : HSpec B (fun _ => True) (push v) := by
  intro e he
  exact ⟨⟨push_all (fun b => vclean B b.value = true) e.stack v he.stack hv, he.values, he.scopes, he.forks⟩, trivial⟩

theorem HSpec.pop {B : Int} : HSpec B (fun v => vclean B v = true) pop := by
  intro e he
  unfold wp VM.pop
  cases hp : e.stack.pop? with
  | none => simp
  | some p =>
    obtain ⟨v, s'⟩ := p
    obtain ⟨hd, j, b, hb, rfl⟩ := pop?_data _ _ _ hp
    simp only
    exact ⟨⟨by rw [hd]; exact he.stack, he.values, he.scopes, he.forks⟩, he.stack j b hb⟩

theorem HSpec.stackTop {B : Int} : HSpec B (fun v => vclean B v = true) stackTop := by
  intro e he
  unfold wp VM.stackTop
  cases hp : e.stack.top? with
  | none => simp
  | some v =>
    obtain ⟨j, b, hb, rfl⟩ := top?_data _ _ hp
    simp only
    exact ⟨he, he.stack j b hb⟩

theorem HSpec.getValue {B : Int} (i : Int) : HSpec B (fun v => vclean B v = true) (getValue i) := by
  intro e he
  by_cases h0 : 0 ≤ i
  · cases hv : e.values[i.toNat]? with
    | none => simp [wp, VM.getValue, h0, hv]
    | some v => simp only [wp, VM.getValue, h0, hv, if_true]; exact ⟨he, he.values _ v hv⟩
  · simp [wp, VM.getValue, h0]

theorem HSpec.setValue {B : Int} (i : Int) (v : V) (hv : vclean B v = true) :
    HSpec B (fun _ => True) (setValue i v) := by
  intro e he
  by_cases h0 : 0 ≤ i ∧ i.toNat < e.values.size
  · simp only [wp, VM.setValue, h0, and_self, if_true]
    refine ⟨⟨he.stack, ?_, he.scopes, he.forks⟩, trivial⟩
    intro j w hw
    simp only at hw
    by_cases hj : i.toNat = j
    · subst hj
      simp [Array.getElem?_setIfInBounds, h0.2] at hw
      rw [← hw]; exact hv
    · rw [Array.getElem?_setIfInBounds_ne hj] at hw
      exact he.values j w hw
  · simp [wp, VM.setValue, h0]

theorem HSpec.pushfork {B : Int} (pc : Int) (h : pc ≠ B) : HSpec B (fun _ => True) (pushfork pc) := by
  intro e he
  refine ⟨⟨?_, he.values, ?_, ?_⟩, trivial⟩
  · show ∀ (j : Nat) (b : Block V), e.stack.save.2.data[j]? = some b → _
    rw [save_data]; exact he.stack
  · show ∀ (j : Nat) (b : Block Scope), e.scopes.save.2.data[j]? = some b → _
    rw [save_data]; exact he.scopes
  · intro f hf
    have hf' : f ∈ _ :: e.forks := hf
    simp only [List.mem_cons] at hf'
    rcases hf' with rfl | hf'
    · exact h
    · exact he.forks f hf'

theorem HSpec.popscope {B : Int} : HSpec B (fun r => PcOK B r.1) popscope := by
  intro e he
  unfold wp VM.popscope
  cases hp : e.scopes.pop? with
  | none => simp
  | some p =>
    obtain ⟨sc, s'⟩ := p
    obtain ⟨hd, j, b, hb, rfl⟩ := pop?_data _ _ _ hp
    simp only
    exact ⟨⟨he.stack, he.values, by rw [hd]; exact he.scopes, he.forks⟩, he.scopes j b hb⟩

theorem HSpec.extCall {B : Int} (x : ExtRec) (hx : ExtOK B x) : HSpec B (CallResOK B) (extCall x) := by
  intro e he
  unfold wp VM.extCall
  unfold ExtOK at hx
  cases hc : x.call with
  | none => simp
  | some r =>
    rw [hc] at hx
    simp only
    refine ⟨he, ?_⟩
    cases r <;> exact hx

theorem HSpec.modify {B : Int} (f : Env → Env) (hf : ∀ e, HygEnv B e → HygEnv B (f e)) :
    HSpec B (fun _ => True) (modifyEnv f) := fun e he => ⟨hf e he, trivial⟩

/-! ## inert primitives -/

theorem HSpec.pathsPush {B : Int} (v : V) : HSpec B (fun _ => True) (pathsPush v) := by
  apply HSpec.inert; intro e a e' h; simp [VM.pathsPush, modifyEnv] at h; obtain ⟨_, rfl⟩ := h; exact ⟨rfl, rfl, rfl, rfl⟩
theorem HSpec.pathsPop {B : Int} : HSpec B (fun _ => True) pathsPop := by
  apply HSpec.inert; intro e a e' h; unfold VM.pathsPop at h; split at h <;> simp at h
  obtain ⟨_, rfl⟩ := h; exact ⟨rfl, rfl, rfl, rfl⟩
theorem HSpec.pathsTop {B : Int} : HSpec B (fun _ => True) pathsTop := by
  apply HSpec.inert; intro e a e' h; unfold VM.pathsTop at h; split at h <;> simp_all
theorem HSpec.envIndex {B : Int} (a b : Int) : HSpec B (fun _ => True) (envIndex a b) := by
  apply HSpec.inert; intro e a e' h; unfold VM.envIndex at h; split at h <;> simp_all
theorem HSpec.getEnv {B : Int} : HSpec B (fun _ => True) getEnv := by
  apply HSpec.inert; intro e a e' h; simp [VM.getEnv] at h; obtain ⟨_, rfl⟩ := h; exact ⟨rfl, rfl, rfl, rfl⟩
theorem HSpec.tracking {B : Int} : HSpec B (fun _ => True) tracking := by
  apply HSpec.inert; intro e a e' h; simp [VM.tracking] at h; obtain ⟨_, rfl⟩ := h; exact ⟨rfl, rfl, rfl, rfl⟩
theorem HSpec.asJV {B : Int} (v : V) : HSpec B (fun _ => True) (asJV v) := by
  unfold VM.asJV; split
  · exact HSpec.pure trivial
  · exact HSpec.stuck

theorem HSpec.pathIntact {B : Int} (x : ExtRec) : HSpec B (fun _ => True) (pathIntact x) := by
  unfold VM.pathIntact
  refine HSpec.bind HSpec.pathsTop (fun w _ => ?_)
  split
  · split
    · exact HSpec.pure trivial
    · exact HSpec.stuck
  · exact HSpec.panic

theorem HSpec.poppathsLoop {B : Int} : ∀ (n : Nat) (acc : List JV), HSpec B (fun _ => True) (poppathsLoop n acc) := by
  intro n
  induction n with
  | zero => intro acc; unfold VM.poppathsLoop; exact HSpec.stuck
  | succ n ih =>
    intro acc
    unfold VM.poppathsLoop
    refine HSpec.bind HSpec.pathsPop (fun p _ => ?_)
    split
    · exact HSpec.pure trivial
    · exact HSpec.bind (HSpec.asJV _) (fun j _ => ih _)
    · exact HSpec.panic

theorem HSpec.poppaths {B : Int} : HSpec B (fun _ => True) poppaths := by
  intro e he
  exact HSpec.poppathsLoop _ _ e he

theorem HSpec.pushPaths {B : Int} (w : V) : ∀ (ps : List JV), HSpec B (fun _ => True) (pushPaths w ps) := by
  intro ps
  induction ps with
  | nil => unfold VM.pushPaths; exact HSpec.pure trivial
  | cons p ps ih =>
    unfold VM.pushPaths
    exact HSpec.bind (HSpec.pathsPush _) (fun _ _ => ih)

theorem HSpec.objectLoop {B : Int} (x : ExtRec) : ∀ (n : Nat) (m : List (Bytes × JV)),
    HSpec B (fun r => ∀ er, r = .error er → eclean B er = true) (objectLoop x n m) := by
  intro n
  induction n with
  | zero => intro m; unfold VM.objectLoop; exact HSpec.pure (fun er h => by cases h)
  | succ n ih =>
    intro m
    unfold VM.objectLoop
    refine HSpec.bind HSpec.pop (fun v _ => ?_)
    refine HSpec.bind HSpec.pop (fun k _ => ?_)
    split
    · exact HSpec.bind (HSpec.asJV _) (fun j _ => ih _)
    · exact HSpec.pure (fun er h => by cases h; rfl)

theorem HSpec.popArgs {B : Int} : ∀ (n : Nat), HSpec B (fun _ => True) (popArgs n) := by
  intro n
  induction n with
  | zero => unfold VM.popArgs; exact HSpec.pure trivial
  | succ n ih =>
    unfold VM.popArgs
    exact HSpec.bind HSpec.pop (fun a _ => HSpec.bind ih (fun r _ => HSpec.pure trivial))

theorem HSpec.pushforkOver {B : Int} (v : V) (pc : Int) (hv : vclean B v = true) (h : pc ≠ B) :
    HSpec B (fun _ => True) (pushforkOver v pc) := by
  unfold VM.pushforkOver
  exact HSpec.bind (HSpec.push v hv) (fun _ _ => HSpec.bind (HSpec.pushfork pc h) (fun _ _ =>
    HSpec.bind HSpec.pop (fun _ _ => HSpec.pure trivial)))

end Gojq.OptVM

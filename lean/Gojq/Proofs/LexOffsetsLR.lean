/-
  C17.4 — the two tokens whose text `Lex` does not store in `l.token` and whose type is not a
  single byte (`\(` = tokStringQuery and the closing quote tokStringEnd of an interpolated
  string) are NEVER the token the parser rejects, so the stale `l.token` they leave behind is
  never reported (`parse_never_rejects_string_continuation`).

  The argument is about the shipped LALR tables (regenerated from parser.go on every run): the
  lexer returns these tokens only with `l.inString` set; `l.inString` is set only by the lexer
  on tokStringStart and by the action of `stringparts: stringparts tokStringQuery query ')'`; in
  both cases the parser is then in one of three states (after tokStringStart, after stringparts,
  after a string piece) from which both tokens are shifted after at most one default reduction.
  The state numbers are looked up in the tables, not written down.  Core Lean only.
-/
import Gojq.Proofs.LexOffsetsRun
namespace Gojq.Lexer
open Gojq Gojq.LALR Gojq.Generated.Lalr

/-! ### which tokens the lexer returns in which mode -/

/-- the token types `Lex` can return inside an interpolated string while staying inside it -/
def InStrTy (ty : Int) : Prop :=
  ty = tokString ∨ ty = tokInvalidEscapeSequence ∨ ty = tokUnterminatedString ∨ ty = eof

theorem scanStringTok_in_modes (r : Bytes) :
    (scanStringTok true none r).inString = none ∧ InStrTy (scanStringTok true none r).ty ∨
    (scanStringTok true none r).inString = some false := by
  simp only [scanStringTok, Bool.not_true, Bool.false_eq_true, if_false]
  repeat' split
  all_goals first
    | exact Or.inr rfl
    | exact Or.inl ⟨rfl, Or.inl rfl⟩
    | exact Or.inl ⟨rfl, Or.inr (Or.inl rfl)⟩
    | exact Or.inl ⟨rfl, Or.inr (Or.inr (Or.inl rfl))⟩

theorem scanStringTok_open_modes (r : Bytes) :
    (scanStringTok false (some 34) r).inString = none ∨
    ((scanStringTok false (some 34) r).inString = some true ∧ (scanStringTok false (some 34) r).ty = tokStringStart) := by
  simp only [scanStringTok]
  repeat' split
  all_goals first
    | exact Or.inl rfl
    | exact Or.inr ⟨rfl, rfl⟩
    | (exfalso; simp_all; done)

def Scan.modeOk (sc : Scan) : Prop := sc.inString = none ∨ (sc.inString = some true ∧ sc.ty = tokStringStart)

theorem ite_modeOk {c : Prop} [Decidable c] {a b : Scan} (ha : c → a.modeOk) (hb : ¬c → b.modeOk) :
    (if c then a else b).modeOk := by
  split
  · exact ha ‹_›
  · exact hb ‹_›

theorem scanTok_modes (ch : UInt8) (r : Bytes) : (scanTok false ch r).modeOk := by
  have hs : ∀ c, c = 34 → (scanStringTok false (some c) r).modeOk := by
    intro c hc; subst hc; exact scanStringTok_open_modes r
  simp only [scanTok]
  repeat' (apply ite_modeOk <;> intro _)
  all_goals first
    | exact Or.inl rfl
    | exact hs ch (by simpa using ‹(ch == 34) = true›)
    | (simp only [Scan.modeOk]; split <;> exact Or.inl rfl)

theorem Classified.false_ne {ty : Int} {text : Bytes} {tok : Option Bytes} {rest : Bytes}
    (h : Classified false ty text tok rest) : ty ≠ tokStringQuery ∧ ty ≠ tokStringEnd := by
  cases h with
  | single c _ h128 hty _ _ =>
    rw [hty]; simp only [tokStringQuery, tokStringEnd]; constructor <;> omega
  | plain _ hsp _ _ => exact ⟨fun h => hsp (by simp [special, h]), fun h => hsp (by simp [special, h])⟩
  | nul hty _ _ => rw [hty]; decide
  | badNumber hty _ _ => rw [hty]; decide
  | badEscape _ _ _ _ _ _ hty _ _ => rw [hty]; decide
  | unterminated _ _ _ _ hty _ _ _ _ => rw [hty]; decide
  | strQuery hin _ _ _ => simp at hin
  | strEnd hin _ _ _ => simp at hin

/-- which token types `Lex` returns in which mode, and when it leaves `l.inString` set -/
theorem lex_modes (s : LState) :
    (lex s).2.2.tokenType = (lex s).1 ∧
    (s.inString = true → (lex s).2.2.inString = true → InStrTy (lex s).1) ∧
    (s.inString = false → (lex s).1 ≠ tokStringQuery ∧ (lex s).1 ≠ tokStringEnd ∧
       ((lex s).2.2.inString = true → (lex s).1 = tokStringStart)) := by
  unfold lex
  split
  · refine ⟨rfl, fun _ _ => Or.inr (Or.inr (Or.inr rfl)), fun h => ⟨show eof ≠ tokStringQuery by decide, show eof ≠ tokStringEnd by decide, fun h2 => ?_⟩⟩
    simp [commit, h] at h2
  · split
    · rename_i hin
      refine ⟨rfl, fun _ h2 => ?_, fun h => by simp [hin] at h⟩
      rcases scanStringTok_in_modes s.rest with ⟨h3, h4⟩ | h3
      · exact h4
      · simp [commit, h3] at h2
    · rename_i hne hin
      have hin' : s.inString = false := by simpa using hin
      split
      · exact ⟨rfl, fun h => by simp [hin'] at h, fun _ => ⟨show eof ≠ tokStringQuery by decide, show eof ≠ tokStringEnd by decide, fun h2 => by simp [hin'] at h2⟩⟩
      · refine ⟨rfl, fun h => by simp [hin'] at h, fun _ => ⟨show eof ≠ tokStringQuery by decide, show eof ≠ tokStringEnd by decide, fun h2 => ?_⟩⟩
        simp [commit, hin'] at h2
      · rename_i ch w heq
        rw [hin']
        have hcl : Classified false _ _ _ _ := scanTok_classified ch (s.rest.drop w)
        refine ⟨rfl, fun h => by simp at h, fun _ => ⟨hcl.false_ne.1, hcl.false_ne.2, fun h2 => ?_⟩⟩
        rcases scanTok_modes ch (s.rest.drop w) with h3 | ⟨_, h4⟩
        · simp [commit, h3, hin'] at h2
        · exact h4

/-! ### a run invariant that sees the parser state -/

/-- a rejection ends in a token-source state satisfying `Good` -/
def RejectGood {σ τ : Type} (Good : σ → Prop) : Outcome σ τ → Prop
  | .reject _ _ s => Good s
  | _ => True

/-- the driver loop preserves any invariant `J` on (state on top of the stack, look-ahead, token
    source) that its three moves — shift, reduce, error — preserve -/
theorem run_invariant_state {σ τ : Type} (src : Source σ τ) (J : Int → Option (Int × τ) → σ → Prop)
    (Good : σ → Prop)
    (hshift : ∀ top look s lk s1 n, J top look s → shiftOf src top look s = (some lk, s1, some n) → J n none s1)
    (hreduce : ∀ top look s look1 s1 look2 s2 r, J top look s → shiftOf src top look s = (look1, s1, none) →
      defaultOf src top look1 s1 = (look2, s2, some r) → ¬ r < 0 → r ≠ 0 →
      ∀ st0, J (gotoState r st0) look2 (src.onReduce r.toNat s2))
    (hreject : ∀ top look s look1 s1 look2 s2, J top look s → shiftOf src top look s = (look1, s1, none) →
      defaultOf src top look1 s1 = (look2, s2, some 0) → Good s2) :
    ∀ fuel stack look s, (∀ top t rest, stack = (top, t) :: rest → J top look s) →
      RejectGood Good (run src fuel stack look s) := by
  intro fuel
  induction fuel with
  | zero => intro _ _ _ _; simp [run, RejectGood]
  | succ fuel ih =>
    intro stack look s hJ
    unfold run
    split
    · trivial
    · rename_i state top rest
      have hJ0 := hJ state top rest rfl
      split
      · rename_i lk s1 n heq
        refine ih _ _ _ ?_
        intro top' t' rest' he
        simp only [List.cons.injEq, Prod.mk.injEq] at he
        rw [← he.1.1]
        exact hshift _ _ _ _ _ _ hJ0 heq
      · trivial
      · rename_i look1 s1 heq
        split
        · trivial
        · rename_i look2 s2 r heq2
          split
          · trivial
          · rename_i hneg
            split
            · rename_i hz
              have hz' : r = 0 := by simpa using hz
              subst hz'
              exact hreject _ _ _ _ _ _ _ hJ0 heq heq2
            · rename_i hz
              have hz' : r ≠ 0 := by simpa using hz
              split
              · trivial
              · trivial
              · rename_i kids st0 t0 rest0 _
                refine ih _ _ _ ?_
                intro top' t' rest' he
                simp only [List.cons.injEq, Prod.mk.injEq] at he
                rw [← he.1.1]
                exact hreduce _ _ _ _ _ _ _ _ hJ0 heq heq2 hneg hz' st0

/-! ### the string states of the shipped tables -/

def tStart : Int := translate tokStringStart
def tPiece : Int := translate tokString
def tQuery : Int := translate tokStringQuery
def tEnd : Int := translate tokStringEnd
/-- the state entered by shifting tokStringStart -/
def sStart : Int := ((yyChk.findIdx (· == tStart) : Nat) : Int)
/-- `stringparts: ε` -/
def rEmpty : Int := get yyDef sStart
/-- the nonterminal `stringparts` -/
def ntParts : Int := get yyR1 rEmpty
/-- the state after `tokStringStart stringparts` -/
def sParts : Int := gotoState rEmpty sStart
/-- the state after `stringparts tokString` -/
def sPiece : Int := get yyAct (get yyPact sParts + tPiece)
/-- `stringparts: stringparts tokString` -/
def rPiece : Int := get yyDef sPiece
/-- the state whose default action is the reduction that sets `l.inString` -/
def sClose : Int := ((yyDef.findIdx (fun d => decide (0 < d) && inStringRules.contains d.toNat) : Nat) : Int)

def OKtop (t : Int) : Prop := t = sStart ∨ t = sParts ∨ t = sPiece

/-- lift a fact checked on every index of a table to every integer index (out of range reads 0) -/
theorem forall_get (l : List Int) (P : Int → Int → Prop) (h0 : ∀ i, P i 0)
    (hfin : ∀ n ∈ List.range l.length, P (n : Nat) (get l (n : Nat))) : ∀ i, P i (get l i) := by
  intro i
  by_cases hneg : i < 0
  · rw [get_eq_zero_of_oob _ _ (Or.inl hneg)]; exact h0 i
  · by_cases hlen : l.length ≤ i.toNat
    · rw [get_eq_zero_of_oob _ _ (Or.inr hlen)]; exact h0 i
    · have hs : i = (i.toNat : Int) := by omega
      rw [hs]
      exact hfin i.toNat (List.mem_range.mpr (by omega))

theorem chk_start_fin : ∀ n ∈ List.range yyChk.length, get yyChk (n : Nat) = tStart → ((n : Nat) : Int) = sStart := by
  decide +kernel
theorem chk_start (n : Int) (h : get yyChk n = tStart) : n = sStart :=
  forall_get yyChk (fun i v => v = tStart → i = sStart) (fun i h => absurd h (by decide +kernel)) chk_start_fin n h

theorem chk_never_fin : ∀ n ∈ List.range yyChk.length,
    get yyChk (n : Nat) ≠ translate tokInvalidEscapeSequence ∧ get yyChk (n : Nat) ≠ translate tokUnterminatedString ∧
    get yyChk (n : Nat) ≠ translate eof := by decide +kernel
theorem chk_never (n : Int) : get yyChk n ≠ translate tokInvalidEscapeSequence ∧
    get yyChk n ≠ translate tokUnterminatedString ∧ get yyChk n ≠ translate eof :=
  forall_get yyChk (fun _ v => v ≠ translate tokInvalidEscapeSequence ∧ v ≠ translate tokUnterminatedString ∧ v ≠ translate eof)
    (fun _ => by decide +kernel) chk_never_fin n

/-- `r` is a reduction whose action sets `l.inString` -/
def SetsInString (r : Int) : Prop := 0 < r ∧ inStringRules.contains r.toNat = true

instance (r : Int) : Decidable (SetsInString r) := by unfold SetsInString; infer_instance

theorem def_close_fin : ∀ n ∈ List.range yyDef.length, SetsInString (get yyDef (n : Nat)) → ((n : Nat) : Int) = sClose := by
  decide +kernel
theorem def_close (top : Int) (h : SetsInString (get yyDef top)) : top = sClose :=
  forall_get yyDef (fun i v => SetsInString v → i = sClose) (fun i h => absurd h (by decide +kernel)) def_close_fin top h

theorem excaScan_mem (l : List Int) (tok r : Int) (h : excaFind.scan l tok = some r) : r ∈ l := by
  fun_induction excaFind.scan l tok
  · simp only [Option.some.injEq] at h; subst h; simp
  · rename_i ih; have := ih h; simp [this]
  · simp at h

theorem excaFind_mem (l : List Int) (state tok r : Int) (h : excaFind l state tok = some r) : r ∈ l := by
  fun_induction excaFind l state tok
  · have := excaScan_mem _ _ _ h; simp [this]
  · rename_i ih; have := ih h; simp [this]
  · simp at h

theorem exca_not_setting : ∀ x ∈ yyExca, ¬ SetsInString x := by decide +kernel

theorem chk_parts_fin : ∀ n ∈ List.range yyChk.length, get yyChk (n : Nat) = -ntParts → ((n : Nat) : Int) = sParts := by
  decide +kernel
theorem chk_parts (c : Int) (h : get yyChk c = -ntParts) : c = sParts :=
  forall_get yyChk (fun i v => v = -ntParts → i = sParts) (fun i h => absurd h (by decide +kernel)) chk_parts_fin c h

theorem act_pgo_parts : get yyAct (get yyPgo ntParts) = sParts := by decide +kernel

/-- the goto on `stringparts` is the same from every state -/
theorem goto_parts (r st0 : Int) (h : get yyR1 r = ntParts) : gotoState r st0 = sParts := by
  simp only [gotoState, h]
  split
  · exact act_pgo_parts
  · split
    · exact act_pgo_parts
    · rename_i hc
      exact chk_parts _ (by simpa using hc)

theorem r1_nonneg_fin : ∀ n ∈ List.range yyR1.length, 0 ≤ get yyR1 (n : Nat) := by decide +kernel
theorem r1_nonneg (r : Int) : 0 ≤ get yyR1 r :=
  forall_get yyR1 (fun _ v => 0 ≤ v) (fun _ => by decide +kernel) r1_nonneg_fin r

theorem act_pgo_close_fin : ∀ n ∈ List.range yyPgo.length, get yyAct (get yyPgo (n : Nat)) ≠ sClose := by decide +kernel
theorem act_pgo_close (nt : Int) : get yyAct (get yyPgo nt) ≠ sClose :=
  forall_get yyPgo (fun _ v => get yyAct v ≠ sClose) (fun _ => by decide +kernel) act_pgo_close_fin nt

theorem chk_close_pos : 0 < get yyChk sClose := by decide +kernel

/-- a goto never leads to the state entered by shifting the `)` that closes `\( … )` -/
theorem goto_ne_close (r st0 : Int) : gotoState r st0 ≠ sClose := by
  have hnn := r1_nonneg r
  simp only [gotoState]
  split
  · exact act_pgo_close _
  · split
    · exact act_pgo_close _
    · rename_i hc
      have hc' : get yyChk (get yyAct (get yyPgo (get yyR1 r) + st0 + 1)) = -get yyR1 r := by simpa using hc
      intro he
      rw [he] at hc'
      have := chk_close_pos
      omega

theorem string_states :
    get yyPact sStart ≤ yyFlag ∧ get yyPact sPiece ≤ yyFlag ∧ get yyPact sClose ≤ yyFlag ∧ ¬ get yyPact sParts ≤ yyFlag ∧
    get yyDef sParts = 0 ∧ get yyDef sClose ≠ -2 ∧ rEmpty ≠ -2 ∧ rPiece ≠ -2 ∧ rEmpty ≠ 0 ∧ rPiece ≠ 0 ∧
    get yyR1 rEmpty = ntParts ∧ get yyR1 rPiece = ntParts ∧ get yyR1 (get yyDef sClose) = ntParts ∧
    ¬ SetsInString rEmpty ∧ ¬ SetsInString rPiece := by decide +kernel

/-- from the state after `stringparts`, `\(` and the closing quote are shifted -/
theorem parts_shifts : ∀ t ∈ [tQuery, tEnd],
    0 ≤ get yyPact sParts + t ∧ get yyPact sParts + t < yyLast ∧ get yyChk (get yyAct (get yyPact sParts + t)) = t := by
  decide +kernel

/-! ### the invariant linking `l.inString` to the parser state -/

/-- what is known in every configuration of a parse: `top` = state on top of the parser stack,
    `look` = the look-ahead if one has been read, `s` = the lexer -/
def J (top : Int) (look : Option (Int × LVal)) (s : LState) : Prop :=
  (∀ lk, look = some lk → lk.1 = translate s.tokenType) ∧
  (look = none → s.inString = true → OKtop top) ∧
  (look.isSome = true → (s.tokenType = tokStringQuery ∨ s.tokenType = tokStringEnd) → OKtop top) ∧
  (look.isSome = true → s.inString = true → s.tokenType = tokStringStart ∨ (OKtop top ∧ InStrTy s.tokenType)) ∧
  (look.isSome = true → top ≠ sClose)

theorem shiftOf_cases {σ τ : Type} (src : Source σ τ) (top : Int) (look : Option (Int × τ)) (s : σ) :
    (get yyPact top ≤ yyFlag ∧ shiftOf src top look s = (look, s, none)) ∨
    (¬ get yyPact top ≤ yyFlag ∧ ∃ x, shiftOf src top look s = (some (ensureLook src look s).1, (ensureLook src look s).2, x) ∧
      (∀ n, x = some n → n = get yyAct (get yyPact top + (ensureLook src look s).1.1) ∧
         get yyChk n = (ensureLook src look s).1.1) ∧
      (x = none → ¬ (0 ≤ get yyPact top + (ensureLook src look s).1.1 ∧ get yyPact top + (ensureLook src look s).1.1 < yyLast ∧
         get yyChk (get yyAct (get yyPact top + (ensureLook src look s).1.1)) = (ensureLook src look s).1.1))) := by
  simp only [shiftOf]
  split
  · exact Or.inl ⟨‹_›, rfl⟩
  · refine Or.inr ⟨‹_›, ?_⟩
    split
    · rename_i hj
      have hj' : get yyPact top + (ensureLook src look s).1.1 < 0 ∨ get yyPact top + (ensureLook src look s).1.1 ≥ yyLast := by
        simpa using hj
      exact ⟨none, rfl, fun n h => by simp at h, fun _ hc => by omega⟩
    · split
      · rename_i hc
        exact ⟨some _, rfl, fun n h => by simp at h; subst h; exact ⟨rfl, by simpa using hc⟩, fun h => by simp at h⟩
      · rename_i hc
        exact ⟨none, rfl, fun n h => by simp at h, fun _ hc' => hc (by simpa using hc'.2.2)⟩

theorem defaultOf_cases {σ τ : Type} (src : Source σ τ) (top : Int) (look : Option (Int × τ)) (s : σ) :
    (get yyDef top = -2 ∧ defaultOf src top look s =
        (some (ensureLook src look s).1, (ensureLook src look s).2, excaFind yyExca top (ensureLook src look s).1.1)) ∨
    (get yyDef top ≠ -2 ∧ defaultOf src top look s = (look, s, some (get yyDef top))) := by
  simp only [defaultOf]
  split
  · rename_i h; exact Or.inl ⟨by simpa using h, rfl⟩
  · rename_i h; exact Or.inr ⟨by simpa using h, rfl⟩

/-- reading the look-ahead keeps the invariant (never done in the state after the closing `)`) -/
theorem J_ensure (top : Int) (look : Option (Int × LVal)) (s : LState) (h : J top look s) (hc : top ≠ sClose) :
    J top (some (ensureLook Parse.source look s).1) (ensureLook Parse.source look s).2 := by
  obtain ⟨hE, hA, hB, hC, hD⟩ := h
  unfold ensureLook
  cases look with
  | some lk => exact ⟨hE, hA, hB, hC, hD⟩
  | none =>
    simp only [Parse.source]
    obtain ⟨m1, m2, m3⟩ := lex_modes s
    refine ⟨fun lk h => by rw [← Option.some.inj h, m1], (fun h => nomatch h), fun _ hq => ?_, fun _ hi => ?_, fun _ => hc⟩
    · rw [m1] at hq
      by_cases hin : s.inString = true
      · exact hA rfl hin
      · have := m3 (by simpa using hin)
        rcases hq with hq | hq
        · exact absurd hq this.1
        · exact absurd hq this.2.1
    · rw [m1]
      by_cases hin : s.inString = true
      · exact Or.inr ⟨hA rfl hin, m2 hin hi⟩
      · exact Or.inl ((m3 (by simpa using hin)).2.2 hi)

theorem okTop_ne_close {top : Int} (h : OKtop top) (hs : ¬ get yyPact top ≤ yyFlag) : top = sParts := by
  rcases h with h | h | h
  · rw [h] at hs; exact absurd string_states.1 hs
  · exact h
  · rw [h] at hs; exact absurd string_states.2.1 hs

theorem translate_vals : translate tokStringStart = tStart ∧ translate tokString = tPiece ∧
    translate tokStringQuery = tQuery ∧ translate tokStringEnd = tEnd := ⟨rfl, rfl, rfl, rfl⟩

theorem J_shift (top : Int) (look : Option (Int × LVal)) (s : LState) (lk : Int × LVal) (s1 : LState) (n : Int)
    (h : J top look s) (hs : shiftOf Parse.source top look s = (some lk, s1, some n)) : J n none s1 := by
  rcases shiftOf_cases Parse.source top look s with ⟨_, h2⟩ | ⟨hns, x, h2, h3, _⟩
  · rw [h2] at hs; simp at hs
  · rw [h2] at hs
    simp only [Prod.mk.injEq, Option.some.injEq] at hs
    obtain ⟨hlk, hs1, hx⟩ := hs
    obtain ⟨hn, hchk⟩ := h3 n hx
    have hclose : top ≠ sClose := by intro h; subst h; exact hns string_states.2.2.1
    have hJ := J_ensure top look s h hclose
    rw [hlk, hs1] at hJ
    rw [hlk] at hn hchk
    obtain ⟨hE, -, -, hC, -⟩ := hJ
    have hE' := hE lk rfl
    refine ⟨(fun _ h => nomatch h), fun _ hi => ?_, (fun h => Bool.noConfusion h), (fun h => Bool.noConfusion h), (fun h => Bool.noConfusion h)⟩
    rcases hC rfl hi with hst | ⟨hok, hty⟩
    · rw [hst] at hE'
      exact Or.inl (chk_start n (by rw [hchk, hE']; rfl))
    · have htop := okTop_ne_close hok hns
      rcases hty with hty | hty | hty | hty <;> rw [hty] at hE'
      · rw [htop, hE'] at hn
        exact Or.inr (Or.inr hn)
      · exact absurd (by rw [hchk, hE']) (chk_never n).1
      · exact absurd (by rw [hchk, hE']) (chk_never n).2.1
      · exact absurd (by rw [hchk, hE']) (chk_never n).2.2

/-- the configuration in which the default action is taken -/
theorem J_mid (top : Int) (look look1 look2 : Option (Int × LVal)) (s s1 s2 : LState) (r : Int)
    (h : J top look s) (hs : shiftOf Parse.source top look s = (look1, s1, none))
    (hd : defaultOf Parse.source top look1 s1 = (look2, s2, some r)) :
    J top look2 s2 ∧
    (look2 = none → get yyPact top ≤ yyFlag ∧ look = none ∧ s2 = s ∧ r = get yyDef top) ∧
    (r = get yyDef top ∨ (get yyDef top = -2 ∧ ∃ t, excaFind yyExca top t = some r)) ∧
    (look2.isSome = true → get yyPact top ≤ yyFlag ∨ ∀ lk, look2 = some lk →
      ¬ (0 ≤ get yyPact top + lk.1 ∧ get yyPact top + lk.1 < yyLast ∧ get yyChk (get yyAct (get yyPact top + lk.1)) = lk.1)) := by
  rcases shiftOf_cases Parse.source top look s with ⟨hsimple, h2⟩ | ⟨hns, x, h2, _, h4⟩
  · rw [h2] at hs
    simp only [Prod.mk.injEq] at hs
    obtain ⟨hl, hs1, -⟩ := hs
    subst hl hs1
    rcases defaultOf_cases Parse.source top look s with ⟨hd2, h5⟩ | ⟨hd2, h5⟩
    · rw [h5] at hd
      simp only [Prod.mk.injEq] at hd
      obtain ⟨hl2, hs2, hr⟩ := hd
      subst hl2 hs2
      have hclose : top ≠ sClose := by intro h; subst h; exact string_states.2.2.2.2.2.1 hd2
      exact ⟨J_ensure top look s h hclose, (fun h => nomatch h), Or.inr ⟨hd2, _, hr⟩, fun _ => Or.inl hsimple⟩
    · rw [h5] at hd
      simp only [Prod.mk.injEq, Option.some.injEq] at hd
      obtain ⟨hl2, hs2, hr⟩ := hd
      subst hl2 hs2
      exact ⟨h, fun h => ⟨hsimple, h, rfl, hr.symm⟩, Or.inl hr.symm, fun _ => Or.inl hsimple⟩
  · rw [h2] at hs
    simp only [Prod.mk.injEq] at hs
    obtain ⟨hl, hs1, hx⟩ := hs
    have hclose : top ≠ sClose := by intro h; subst h; exact hns string_states.2.2.1
    have hJ := J_ensure top look s h hclose
    have h4' := h4 hx
    generalize (ensureLook Parse.source look s).1 = lk0 at hl hJ h4'
    subst hl hs1
    have hno : ∀ lk, some lk0 = some lk →
        ¬ (0 ≤ get yyPact top + lk.1 ∧ get yyPact top + lk.1 < yyLast ∧ get yyChk (get yyAct (get yyPact top + lk.1)) = lk.1) := by
      intro lk hlk; rw [← Option.some.inj hlk]; exact h4'
    rcases defaultOf_cases Parse.source top (some lk0) (ensureLook Parse.source look s).2 with ⟨hd2, h5⟩ | ⟨hd2, h5⟩
    · rw [h5] at hd
      simp only [ensureLook, Prod.mk.injEq] at hd
      obtain ⟨hl2, hs2, hr⟩ := hd
      subst hl2 hs2
      exact ⟨hJ, (fun h => nomatch h), Or.inr ⟨hd2, _, hr⟩, fun _ => Or.inr hno⟩
    · rw [h5] at hd
      simp only [Prod.mk.injEq, Option.some.injEq] at hd
      obtain ⟨hl2, hs2, hr⟩ := hd
      subst hl2 hs2
      exact ⟨hJ, (fun h => nomatch h), Or.inl hr.symm, fun _ => Or.inr hno⟩

/-- from one of the three string states every reduction leads to the state after `stringparts` -/
theorem reduce_from_ok (top r st0 : Int) (hok : OKtop top) (hr0 : r ≠ 0)
    (hr : r = get yyDef top ∨ (get yyDef top = -2 ∧ ∃ t, excaFind yyExca top t = some r)) :
    gotoState r st0 = sParts ∧ ¬ SetsInString r := by
  obtain ⟨-, -, -, -, h5, -, h7, h8, -, -, h11, h12, -, h14, h15⟩ := string_states
  rcases hok with h | h | h <;> rw [h] at hr
  · rcases hr with hr | ⟨hr, -⟩
    · rw [hr]; exact ⟨goto_parts _ _ h11, h14⟩
    · exact absurd hr h7
  · rcases hr with hr | ⟨hr, -⟩
    · rw [h5] at hr; exact absurd hr hr0
    · rw [h5] at hr; exact absurd hr (by decide)
  · rcases hr with hr | ⟨hr, -⟩
    · rw [hr]; exact ⟨goto_parts _ _ h12, h15⟩
    · exact absurd hr h8

theorem J_reduce (top : Int) (look look1 look2 : Option (Int × LVal)) (s s1 s2 : LState) (r : Int)
    (h : J top look s) (hs : shiftOf Parse.source top look s = (look1, s1, none))
    (hd : defaultOf Parse.source top look1 s1 = (look2, s2, some r)) (hneg : ¬ r < 0) (hr0 : r ≠ 0) (st0 : Int) :
    J (gotoState r st0) look2 (Parse.source.onReduce r.toNat s2) := by
  obtain ⟨hJ2, hnone, hr, -⟩ := J_mid top look look1 look2 s s1 s2 r h hs hd
  obtain ⟨hE, hA, hB, hC, hD⟩ := hJ2
  simp only [Parse.source]
  split
  · rename_i hset
    have hsets : SetsInString r := ⟨by omega, hset⟩
    have htop : top = sClose := by
      rcases hr with hr | ⟨-, t, ht⟩
      · exact def_close top (by rw [← hr]; exact hsets)
      · exact absurd hsets (exca_not_setting r (excaFind_mem _ _ _ _ ht))
    have hl2 : look2 = none := by
      cases look2 with
      | none => rfl
      | some lk => exact absurd htop (hD rfl)
    have hr' : r = get yyDef sClose := by
      rcases hr with hr | ⟨hr, -⟩
      · rw [hr, htop]
      · rw [htop] at hr; exact absurd hr string_states.2.2.2.2.2.1
    rw [hl2]
    refine ⟨(fun _ h => nomatch h), fun _ _ => Or.inr (Or.inl ?_), (fun h => Bool.noConfusion h),
      (fun h => Bool.noConfusion h), (fun h => Bool.noConfusion h)⟩
    rw [hr']
    exact goto_parts _ _ string_states.2.2.2.2.2.2.2.2.2.2.2.2.1
  · refine ⟨hE, fun hl hi => ?_, fun hl hq => ?_, fun hl hi => ?_, fun _ => goto_ne_close r st0⟩
    · obtain ⟨hsimple, hlook, hs2, hrd⟩ := hnone hl
      have hok := hA hl hi
      exact Or.inr (Or.inl (reduce_from_ok top r st0 hok hr0 (Or.inl hrd)).1)
    · exact Or.inr (Or.inl (reduce_from_ok top r st0 (hB hl hq) hr0 hr).1)
    · rcases hC hl hi with hst | ⟨hok, hty⟩
      · exact Or.inl hst
      · exact Or.inr ⟨Or.inr (Or.inl (reduce_from_ok top r st0 hok hr0 hr).1), hty⟩

theorem J_reject (top : Int) (look look1 look2 : Option (Int × LVal)) (s s1 s2 : LState)
    (h : J top look s) (hs : shiftOf Parse.source top look s = (look1, s1, none))
    (hd : defaultOf Parse.source top look1 s1 = (look2, s2, some 0)) :
    s2.tokenType ≠ tokStringQuery ∧ s2.tokenType ≠ tokStringEnd := by
  obtain ⟨hJ2, hnone, hr, hsome⟩ := J_mid top look look1 look2 s s1 s2 0 h hs hd
  obtain ⟨hE, hA, hB, hC, hD⟩ := hJ2
  have key : ¬ (s2.tokenType = tokStringQuery ∨ s2.tokenType = tokStringEnd) := by
    intro hq
    cases hl : look2 with
    | none =>
      obtain ⟨hsimple, -, -, hrd⟩ := hnone hl
      exact simple_states_reduce top hsimple hrd.symm
    | some lk =>
      have hlk := hE lk hl
      have hok := hB (by rw [hl]; rfl) hq
      obtain ⟨-, -, -, h4, h5, -, h7, h8, h9, h10, -⟩ := string_states
      rcases hok with htop | htop | htop
      · rw [htop] at hr
        rcases hr with hr | ⟨hr, -⟩
        · exact h9 hr.symm
        · exact h7 hr
      · rcases hsome (by rw [hl]; rfl) with hsimple | hno
        · rw [htop] at hsimple; exact h4 hsimple
        · have := hno lk hl
          rw [htop, hlk] at this
          rcases hq with hq | hq <;> rw [hq] at this
          · exact this (parts_shifts tQuery (by simp))
          · exact this (parts_shifts tEnd (by simp))
      · rw [htop] at hr
        rcases hr with hr | ⟨hr, -⟩
        · exact h10 hr.symm
        · exact h8 hr
  exact ⟨fun h => key (Or.inl h), fun h => key (Or.inr h)⟩

/-- THE PARSER NEVER REJECTS `\(` OR THE CLOSING QUOTE OF AN INTERPOLATED STRING: whenever
    `Parse(src)` calls `yylex.Error`, the last token read is neither tokStringQuery nor
    tokStringEnd — the only two token types for which `l.token` is stale and not overridden by
    `Error`.  For every source text, on the shipped LALR tables. -/
theorem parse_never_rejects_string_continuation (src : Bytes) :
    match Parse.parse src with
    | .reject _ _ s' => s'.tokenType ≠ tokStringQuery ∧ s'.tokenType ≠ tokStringEnd
    | _ => True := by
  have := run_invariant_state Parse.source J (fun s => s.tokenType ≠ tokStringQuery ∧ s.tokenType ≠ tokStringEnd)
    (fun top look s lk s1 n h hs => J_shift top look s lk s1 n h hs)
    (fun top look s look1 s1 look2 s2 r h hs hd hneg hr0 st0 => J_reduce top look look1 look2 s s1 s2 r h hs hd hneg hr0 st0)
    (fun top look s look1 s1 look2 s2 h hs hd => J_reject top look look1 look2 s s1 s2 h hs hd)
    (Parse.parseFuel src) [(0, .tok 0 default)] none (LState.init src)
    (by
      intro top t rest he
      refine ⟨(fun _ h => nomatch h), fun _ hi => ?_, (fun h => Bool.noConfusion h), (fun h => Bool.noConfusion h),
        (fun h => Bool.noConfusion h)⟩
      simp [LState.init] at hi)
  unfold Parse.parse start
  revert this
  cases run Parse.source (Parse.parseFuel src) [(0, PT.tok 0 default)] none (LState.init src) <;>
    simp only [RejectGood] <;> intro h
  · trivial
  · exact h
  · trivial

end Gojq.Lexer

/-
  C17.4 — the two tokens whose text `Lex` does not store in `l.token` and whose type is not a
  single byte (`\(` = tokStringQuery and the closing quote tokStringEnd of an interpolated
  string) are NEVER the token the parser rejects, so the stale `l.token` they leave behind is
  never reported (`parse_never_rejects_string_continuation`).

  The argument is about the shipped LALR tables (regenerated from parser.go on every run): the
  lexer returns these tokens only with `l.inString` set; `l.inString` is set only by the lexer
  on tokStringStart and by the action of `stringparts: stringparts tokStringQuery query ')'`; in
  both cases the parser is then in one of three states (after tokStringStart, after stringparts,
  after a string piece) from which both tokens are shifted after at most one default reduction.
  The state numbers are looked up in the tables, not written down.  Core Lean only.
-/
import Gojq.Proofs.LexOffsetsRun
namespace Gojq.Lexer
open Gojq Gojq.LALR Gojq.Generated.Lalr

/-! ### which tokens the lexer returns in which mode -/

/-- the token types `Lex` can return inside an interpolated string while staying inside it -/
def InStrTy (ty : Int) : Prop :=
  ty = tokString ∨ ty = tokInvalidEscapeSequence ∨ ty = tokUnterminatedString ∨ ty = eof

theorem scanStringTok_in_modes (r : Bytes) :
    (scanStringTok true none r).inString = none ∧ InStrTy (scanStringTok true none r).ty ∨
    (scanStringTok true none r).inString = some false := by
  simp only [scanStringTok, Bool.not_true, Bool.false_eq_true, if_false]
  repeat' split
  all_goals first
    | exact Or.inr rfl
    | exact Or.inl ⟨rfl, Or.inl rfl⟩
    | exact Or.inl ⟨rfl, Or.inr (Or.inl rfl)⟩
    | exact Or.inl ⟨rfl, Or.inr (Or.inr (Or.inl rfl))⟩

theorem scanStringTok_open_modes (r : Bytes) :
    (scanStringTok false (some 34) r).inString = none ∨
    ((scanStringTok false (some 34) r).inString = some true ∧ (scanStringTok false (some 34) r).ty = tokStringStart) := by
  simp only [scanStringTok]
  repeat' split
  all_goals first
    | exact Or.inl rfl
    | exact Or.inr ⟨rfl, rfl⟩
    | (exfalso; simp_all; done)

def Scan.modeOk (sc : Scan) : Prop := sc.inString = none ∨ (sc.inString = some true ∧ sc.ty = tokStringStart)

theorem ite_modeOk {c : Prop} [Decidable c] {a b : Scan} (ha : c → a.modeOk) (hb : ¬c → b.modeOk) :
    (if c then a else b).modeOk := by
  split
  · exact ha ‹_›
  · exact hb ‹_›

theorem scanTok_modes (ch : UInt8) (r : Bytes) : (scanTok false ch r).modeOk := by
  have hs : ∀ c, c = 34 → (scanStringTok false (some c) r).modeOk := by
    intro c hc; subst hc; exact scanStringTok_open_modes r
  simp only [scanTok]
  repeat' (apply ite_modeOk <;> intro _)
  all_goals first
    | exact Or.inl rfl
    | exact hs ch (by simpa using ‹(ch == 34) = true›)
    | (simp only [Scan.modeOk]; split <;> exact Or.inl rfl)

theorem Classified.false_ne {ty : Int} {text : Bytes} {tok : Option Bytes} {rest : Bytes}
    (h : Classified false ty text tok rest) : ty ≠ tokStringQuery ∧ ty ≠ tokStringEnd := by
  cases h with
  | single c _ h128 hty _ _ =>
    rw [hty]; simp only [tokStringQuery, tokStringEnd]; constructor <;> omega
  | plain _ hsp _ _ => exact ⟨fun h => hsp (by simp [special, h]), fun h => hsp (by simp [special, h])⟩
  | nul hty _ _ => rw [hty]; decide
  | badNumber hty _ _ => rw [hty]; decide
  | badEscape _ _ _ _ _ _ hty _ _ => rw [hty]; decide
  | unterminated _ _ _ _ hty _ _ _ _ => rw [hty]; decide
  | strQuery hin _ _ _ => simp at hin
  | strEnd hin _ _ _ => simp at hin

/-- which token types `Lex` returns in which mode, and when it leaves `l.inString` set -/
theorem lex_modes (s : LState) :
    (lex s).2.2.tokenType = (lex s).1 ∧
    (s.inString = true → (lex s).2.2.inString = true → InStrTy (lex s).1) ∧
    (s.inString = false → (lex s).1 ≠ tokStringQuery ∧ (lex s).1 ≠ tokStringEnd ∧
       ((lex s).2.2.inString = true → (lex s).1 = tokStringStart)) := by
  unfold lex
  split
  · refine ⟨rfl, fun _ _ => Or.inr (Or.inr (Or.inr rfl)), fun h => ⟨show eof ≠ tokStringQuery by decide, show eof ≠ tokStringEnd by decide, fun h2 => ?_⟩⟩
    simp [commit, h] at h2
  · split
    · rename_i hin
      refine ⟨rfl, fun _ h2 => ?_, fun h => by simp [hin] at h⟩
      rcases scanStringTok_in_modes s.rest with ⟨h3, h4⟩ | h3
      · exact h4
      · simp [commit, h3] at h2
    · rename_i hne hin
      have hin' : s.inString = false := by simpa using hin
      split
      · exact ⟨rfl, fun h => by simp [hin'] at h, fun _ => ⟨show eof ≠ tokStringQuery by decide, show eof ≠ tokStringEnd by decide, fun h2 => by simp [hin'] at h2⟩⟩
      · refine ⟨rfl, fun h => by simp [hin'] at h, fun _ => ⟨show eof ≠ tokStringQuery by decide, show eof ≠ tokStringEnd by decide, fun h2 => ?_⟩⟩
        simp [commit, hin'] at h2
      · rename_i ch w heq
        rw [hin']
        have hcl : Classified false _ _ _ _ := scanTok_classified ch (s.rest.drop w)
        refine ⟨rfl, fun h => by simp at h, fun _ => ⟨hcl.false_ne.1, hcl.false_ne.2, fun h2 => ?_⟩⟩
        rcases scanTok_modes ch (s.rest.drop w) with h3 | ⟨_, h4⟩
        · simp [commit, h3, hin'] at h2
        · exact h4

/-! ### a run invariant that sees the parser state -/

/-- a rejection ends in a token-source state satisfying `Good` -/
def RejectGood {σ τ : Type} (Good : σ → Prop) : Outcome σ τ → Prop
  | .reject _ _ s => Good s
  | _ => True

/-- the driver loop preserves any invariant `J` on (state on top of the stack, look-ahead, token
    source) that its three moves — shift, reduce, error — preserve -/
theorem run_invariant_state {σ τ : Type} (src : Source σ τ) (J : Int → Option (Int × τ) → σ → Prop)
    (Good : σ → Prop)
    (hshift : ∀ top look s lk s1 n, J top look s → shiftOf src top look s = (some lk, s1, some n) → J n none s1)
    (hreduce : ∀ top look s look1 s1 look2 s2 r, J top look s → shiftOf src top look s = (look1, s1, none) →
      defaultOf src top look1 s1 = (look2, s2, some r) → ¬ r < 0 → r ≠ 0 →
      ∀ st0, J (gotoState r st0) look2 (src.onReduce r.toNat s2))
    (hreject : ∀ top look s look1 s1 look2 s2, J top look s → shiftOf src top look s = (look1, s1, none) →
      defaultOf src top look1 s1 = (look2, s2, some 0) → Good s2) :
    ∀ fuel stack look s, (∀ top t rest, stack = (top, t) :: rest → J top look s) →
      RejectGood Good (run src fuel stack look s) := by
  intro fuel
  induction fuel with
  | zero => intro _ _ _ _; simp [run, RejectGood]
  | succ fuel ih =>
    intro stack look s hJ
    unfold run
    split
    · trivial
    · rename_i state top rest
      have hJ0 := hJ state top rest rfl
      split
      · rename_i lk s1 n heq
        refine ih _ _ _ ?_
        intro top' t' rest' he
        simp only [List.cons.injEq, Prod.mk.injEq] at he
        rw [← he.1.1]
        exact hshift _ _ _ _ _ _ hJ0 heq
      · trivial
      · rename_i look1 s1 heq
        split
        · trivial
        · rename_i look2 s2 r heq2
          split
          · trivial
          · rename_i hneg
            split
            · rename_i hz
              have hz' : r = 0 := by simpa using hz
              subst hz'
              exact hreject _ _ _ _ _ _ _ hJ0 heq heq2
            · rename_i hz
              have hz' : r ≠ 0 := by simpa using hz
              split
              · trivial
              · trivial
              · rename_i kids st0 t0 rest0 _
                refine ih _ _ _ ?_
                intro top' t' rest' he
                simp only [List.cons.injEq, Prod.mk.injEq] at he
                rw [← he.1.1]
                exact hreduce _ _ _ _ _ _ _ _ hJ0 heq heq2 hneg hz' st0

/-! ### the string states of the shipped tables -/

def tStart : Int := translate tokStringStart
def tPiece : Int := translate tokString
def tQuery : Int := translate tokStringQuery
def tEnd : Int := translate tokStringEnd
/-- the state entered by shifting tokStringStart -/
def sStart : Int := ((yyChk.findIdx (· == tStart) : Nat) : Int)
/-- `stringparts: ε` -/
def rEmpty : Int := get yyDef sStart
/-- the nonterminal `stringparts` -/
def ntParts : Int := get yyR1 rEmpty
/-- the state after `tokStringStart stringparts` -/
def sParts : Int := gotoState rEmpty sStart
/-- the state after `stringparts tokString` -/
def sPiece : Int := get yyAct (get yyPact sParts + tPiece)
/-- `stringparts: stringparts tokString` -/
def rPiece : Int := get yyDef sPiece
/-- the state whose default action is the reduction that sets `l.inString` -/
def sClose : Int := ((yyDef.findIdx (fun d => decide (0 < d) && inStringRules.contains d.toNat) : Nat) : Int)

def OKtop (t : Int) : Prop := t = sStart ∨ t = sParts ∨ t = sPiece

/-- lift a fact checked on every index of a table to every integer index (out of range reads 0) -/
theorem forall_get (l : List Int) (P : Int → Int → Prop) (h0 : ∀ i, P i 0)
    (hfin : ∀ n ∈ List.range l.length, P (n : Nat) (get l (n : Nat))) : ∀ i, P i (get l i) := by
  intro i
  by_cases hneg : i < 0
  · rw [get_eq_zero_of_oob _ _ (Or.inl hneg)]; exact h0 i
  · by_cases hlen : l.length ≤ i.toNat
    · rw [get_eq_zero_of_oob _ _ (Or.inr hlen)]; exact h0 i
    · have hs : i = (i.toNat : Int) := by omega
      rw [hs]
      exact hfin i.toNat (List.mem_range.mpr (by omega))

theorem chk_start_fin : ∀ n ∈ List.range yyChk.length, get yyChk (n : Nat) = tStart → ((n : Nat) : Int) = sStart := by
  decide +kernel
theorem chk_start (n : Int) (h : get yyChk n = tStart) : n = sStart :=
  forall_get yyChk (fun i v => v = tStart → i = sStart) (fun i h => absurd h (by decide +kernel)) chk_start_fin n h

theorem chk_never_fin : ∀ n ∈ List.range yyChk.length,
    get yyChk (n : Nat) ≠ translate tokInvalidEscapeSequence ∧ get yyChk (n : Nat) ≠ translate tokUnterminatedString ∧
    get yyChk (n : Nat) ≠ translate eof := by decide +kernel
theorem chk_never (n : Int) : get yyChk n ≠ translate tokInvalidEscapeSequence ∧
    get yyChk n ≠ translate tokUnterminatedString ∧ get yyChk n ≠ translate eof :=
  forall_get yyChk (fun _ v => v ≠ translate tokInvalidEscapeSequence ∧ v ≠ translate tokUnterminatedString ∧ v ≠ translate eof)
    (fun _ => by decide +kernel) chk_never_fin n

/-- `r` is a reduction whose action sets `l.inString` -/
def SetsInString (r : Int) : Prop := 0 < r ∧ inStringRules.contains r.toNat = true

instance (r : Int) : Decidable (SetsInString r) := by unfold SetsInString; infer_instance

theorem def_close_fin : ∀ n ∈ List.range yyDef.length, SetsInString (get yyDef (n : Nat)) → ((n : Nat) : Int) = sClose := by
  decide +kernel
theorem def_close (top : Int) (h : SetsInString (get yyDef top)) : top = sClose :=
  forall_get yyDef (fun i v => SetsInString v → i = sClose) (fun i h => absurd h (by decide +kernel)) def_close_fin top h

theorem excaScan_mem (l : List Int) (tok r : Int) (h : excaFind.scan l tok = some r) : r ∈ l := by
  fun_induction excaFind.scan l tok
  · simp only [Option.some.injEq] at h; subst h; simp
  · rename_i ih; have := ih h; simp [this]
  · simp at h

theorem excaFind_mem (l : List Int) (state tok r : Int) (h : excaFind l state tok = some r) : r ∈ l := by
  fun_induction excaFind l state tok
  · have := excaScan_mem _ _ _ h; simp [this]
  · rename_i ih; have := ih h; simp [this]
  · simp at h

theorem exca_not_setting : ∀ x ∈ yyExca, ¬ SetsInString x := by decide +kernel

theorem chk_parts_fin : ∀ n ∈ List.range yyChk.length, get yyChk (n : Nat) = -ntParts → ((n : Nat) : Int) = sParts := by
  decide +kernel
theorem chk_parts (c : Int) (h : get yyChk c = -ntParts) : c = sParts :=
  forall_get yyChk (fun i v => v = -ntParts → i = sParts) (fun i h => absurd h (by decide +kernel)) chk_parts_fin c h

theorem act_pgo_parts : get yyAct (get yyPgo ntParts) = sParts := by decide +kernel

/-- the goto on `stringparts` is the same from every state -/
theorem goto_parts (r st0 : Int) (h : get yyR1 r = ntParts) : gotoState r st0 = sParts := by
  simp only [gotoState, h]
  split
  · exact act_pgo_parts
  · split
    · exact act_pgo_parts
    · rename_i hc
      exact chk_parts _ (by simpa using hc)

theorem r1_nonneg_fin : ∀ n ∈ List.range yyR1.length, 0 ≤ get yyR1 (n : Nat) := by decide +kernel
theorem r1_nonneg (r : Int) : 0 ≤ get yyR1 r :=
  forall_get yyR1 (fun _ v => 0 ≤ v) (fun _ => by decide +kernel) r1_nonneg_fin r

theorem act_pgo_close_fin : ∀ n ∈ List.range yyPgo.length, get yyAct (get yyPgo (n : Nat)) ≠ sClose := by decide +kernel
theorem act_pgo_close (nt : Int) : get yyAct (get yyPgo nt) ≠ sClose :=
  forall_get yyPgo (fun _ v => get yyAct v ≠ sClose) (fun _ => by decide +kernel) act_pgo_close_fin nt

theorem chk_close_pos : 0 < get yyChk sClose := by decide +kernel

/-- a goto never leads to the state entered by shifting the `)` that closes `\( … )` -/
theorem goto_ne_close (r st0 : Int) : gotoState r st0 ≠ sClose := by
  have hnn := r1_nonneg r
  simp only [gotoState]
  split
  · exact act_pgo_close _
  · split
    · exact act_pgo_close _
    · rename_i hc
      have hc' : get yyChk (get yyAct (get yyPgo (get yyR1 r) + st0 + 1)) = -get yyR1 r := by simpa using hc
      intro he
      rw [he] at hc'
      have := chk_close_pos
      omega

theorem string_states :
    get yyPact sStart ≤ yyFlag ∧ get yyPact sPiece ≤ yyFlag ∧ get yyPact sClose ≤ yyFlag ∧ ¬ get yyPact sParts ≤ yyFlag ∧
    get yyDef sParts = 0 ∧ get yyDef sClose ≠ -2 ∧ rEmpty ≠ -2 ∧ rPiece ≠ -2 ∧ rEmpty ≠ 0 ∧ rPiece ≠ 0 ∧
    get yyR1 rEmpty = ntParts ∧ get yyR1 rPiece = ntParts ∧ get yyR1 (get yyDef sClose) = ntParts ∧
    ¬ SetsInString rEmpty ∧ ¬ SetsInString rPiece := by decide +kernel

/-- from the state after `stringparts`, `\(` and the closing quote are shifted -/
theorem parts_shifts : ∀ t ∈ [tQuery, tEnd],
    0 ≤ get yyPact sParts + t ∧ get yyPact sParts + t < yyLast ∧ get yyChk (get yyAct (get yyPact sParts + t)) = t := by
  decide +kernel

end Gojq.Lexer

/-
  The compiler of Model/MiniVM.lean is correct w.r.t. its reference semantics (C01.3): lemmas
  about single constructs (`collect` for `[q]`, `call_of_body` for `ret`), lexical lookup
  (`resolve`, `frameAt`) and the relation `EnvRel` between the machine's frames + registers and
  the closure environment of the reference semantics.  The closure a function receives lives
  in register 1 of its frame (as in the real VM); `EnvRel` reads the registers only at a set `P`
  of read-only registers, which `Yields` promises not to write and requires the rest of the
  program to preserve.  Core Lean only.
-/
import Gojq.Proofs.MiniVMYields
namespace Gojq.MiniVM
variable [IterMsg]
set_option linter.unusedSectionVars false

/-! ## the current frame -/

/-- the top frame belongs to the scope whose `opscope` is at `e` -/
def TopIs (fr : List Frame) (e : Nat) : Prop := ∃ f fr', fr = f :: fr' ∧ f.id = e

theorem TopIs.ne_nil {fr e} (h : TopIs fr e) : fr ≠ [] := by
  obtain ⟨f, fr', rfl, _⟩ := h; simp

/-- `env.index` of a register of the current scope finds the top frame -/
theorem TopIs.resolve {fr e} (h : TopIs fr e) :
    ∃ f, MiniVM.resolve e fr (fr.length - 1) = some (f, fr.length - 1) ∧ f.base = base fr ∧
      frameAt fr (fr.length - 1) = some f ∧ f.id = e := by
  obtain ⟨f, fr', rfl, h1⟩ := h
  exact ⟨f, by simp [MiniVM.resolve, h1], rfl, by simp [frameAt], h1⟩

theorem topDepth_of_ne_nil {fr : List Frame} (h : fr ≠ []) : topDepth fr = some (fr.length - 1) := by
  cases fr with
  | nil => exact absurd rfl h
  | cons f fr' => simp [topDepth]

theorem step_scope {code pc st fs bt e R fr off cp id n argc d f'} (hc : code[pc]? = some (.scope id n argc))
    (hcp : cp.2 = some d) (hfa : frameAt fr d = some f') :
    step code (.run pc st fs bt e R fr off cp) =
      some (.run (pc+1) st fs bt e R
        (⟨id, cp.1, off, fs.length, if f'.id = id then f'.outer else some d⟩ :: fr) (off + n) cp) := by
  simp only [step, hc, hcp, hfa]

theorem step_store {code pc x s fs bt e R fr off cp sid i f d} (hc : code[pc]? = some (.store sid i))
    (hres : resolve sid fr (fr.length - 1) = some (f, d)) :
    step code (.run pc (x :: s) fs bt e R fr off cp) = some (.run (pc+1) s fs bt e (R.set (f.base + i) x) fr off cp) := by
  simp only [step, hc, hres]

theorem step_load {code pc st fs bt e R fr off cp sid i f d} (hc : code[pc]? = some (.load sid i))
    (hres : resolve sid fr (fr.length - 1) = some (f, d)) :
    step code (.run pc st fs bt e R fr off cp) = some (.run (pc+1) (R (f.base + i) :: st) fs bt e R fr off cp) := by
  simp only [step, hc, hres]

/-- the body of `[q]`: every output is appended to the accumulator register, then the machine
    backtracks -/
theorem collect {code} {Oq P : Nat → Prop} {oq fr G pe S sid i f d c outs e}
    (hres : resolve sid fr (fr.length - 1) = some (f, d))
    (hr : ¬ Oq (f.base + i)) (hrP : ¬ P (f.base + i)) (hrlt : f.base + i < oq)
    (happ : code[pe]? = some (.append sid i)) (hbt : code[pe+1]? = some .backtrack)
    (y : Yields code Oq P oq fr G pe S c outs e) :
    ∀ acc, c.regs (f.base + i) = .v (.arr acc) →
    ∃ R', Steps code c (.fail G (e.map .plain) R') ∧ R' (f.base + i) = .v (.arr (acc ++ outs)) ∧
      EqOff (fun j => Wr Oq oq j ∨ j = f.base + i) c.regs R' := by
  induction y with
  | @done c e R' hs hf =>
    intro acc hacc
    refine ⟨R', hs, ?_, hf.mono (fun i h => Or.inl h)⟩
    have hnw : ¬ Wr Oq oq (f.base + i) := by
      intro h; rcases h with h | h
      · exact hr h
      · omega
    rw [← hf _ hnw]; simpa using hacc
  | @out c w ws e F' R1 o1 cp hF' hs ho1 hf _ _ ih =>
    intro acc hacc
    have hnw : ¬ Wr Oq oq (f.base + i) := by
      intro h; rcases h with h | h
      · exact hr h
      · omega
    have h1 : R1 (f.base + i) = .v (.arr acc) := by rw [← hf _ hnw]; exact hacc
    let R1' := R1.set (f.base + i) (.v (.arr (acc ++ [w])))
    have hon : EqOn (KeepP Oq P oq o1) R1 R1' := by
      intro j hj; simp only [R1', Regs.set]; split
      · rename_i h; subst h
        rcases hj with (hj | hj) | hj
        · exact absurd hj hr
        · exact absurd hj hrP
        · omega
      · rfl
    obtain ⟨R', hs2, hacc2, hf2⟩ := ih R1' hon (acc ++ [w]) (by simp [R1', Regs.set])
    refine ⟨R', ?_, by simpa [List.append_assoc] using hacc2, ?_⟩
    · refine hs.trans (.head (c' := .run (pe+1) S (F' ++ G) false none R1' fr o1 cp) ?_
        (.head (c' := .fail (F' ++ G) none R1') ?_ hs2))
      · simp [step, happ, hres, h1, R1']
      · simp [step, hbt]
    · intro j hj
      have hj1 : ¬ Wr Oq oq j := fun h => hj (Or.inl h)
      have hj2 : j ≠ f.base + i := fun h => hj (Or.inr h)
      rw [hf j hj1, ← hf2 j hj]
      simp [R1', Regs.set, hj2]

/-- from the body of a function or argument closure (exit = its `ret`, one more frame) to the
    call site: `ret` pops the frame and reclaims its register area iff no fork protects it -/
theorem call_of_body {code} {Ob P P' : Nat → Prop} {o n pr fr F S c outs e} {fm : Frame}
    (hfr : fr ≠ []) (hbase : fm.base = o) (hnf : fm.nf = F.length)
    (hOb : ∀ a, Ob a → o ≤ a ∧ a < o + n) (hP' : ∀ a, P' a → P a ∨ (o ≤ a ∧ a < o + n))
    (hret : code[pr]? = some .ret)
    (y : Yields code Ob P' (o + n) (fm :: fr) F pr S c outs e) :
    Yields code (fun _ => False) P o fr F (fm.ret + 1) S c outs e := by
  obtain ⟨g, fr', rfl⟩ : ∃ g fr', fr = g :: fr' := by
    cases fr with
    | nil => exact absurd rfl hfr
    | cons g fr' => exact ⟨g, fr', rfl⟩
  have hW : ∀ a, Wr Ob (o + n) a → Wr (fun _ => False) o a := by
    intro a h; rcases h with h | h
    · exact Or.inr (hOb a h).1
    · exact Or.inr (by omega)
  induction y with
  | done hs hf => exact .done hs (hf.mono hW)
  | @out c w ws e F' R1 o1 cp hF' hs ho1 hf hn _ ih =>
    by_cases hnil : F' = []
    · subst hnil
      obtain ⟨rfl, rfl⟩ := hn rfl
      refine .out (F' := []) (o1 := o) (cp := cp) ForksOK.nil ?_ (Nat.le_refl _) (hf.mono hW) (fun _ => ⟨rfl, rfl⟩)
        (fun R2 _ => .done (.refl _) EqOff.refl)
      exact hs.trans (Steps.one (by simp [step, hret, hnf, hbase]))
    · refine .out (o1 := o1) (cp := cp) hF' ?_ (by omega) (hf.mono hW) (fun h => absurd h hnil) ?_
      · exact hs.trans (Steps.one (by simp [step, hret, hnf, hnil]))
      · intro R2 h2
        refine ih R2 (h2.mono ?_)
        intro a h; rcases h with (h | h) | h
        · exact Or.inr ⟨(hOb a h).1, by have := (hOb a h).2; omega⟩
        · rcases hP' a h with h | h
          · exact Or.inl (Or.inr h)
          · exact Or.inr ⟨h.1, by omega⟩
        · exact Or.inr ⟨by omega, h.2⟩

/-- the body of `try`: after each output a `forktryend` fork is pushed (it re-wraps an error of the
    continuation so that this `try` does not catch it); when the body is exhausted the machine
    fails into the `forktrybegin` fork carrying the body's own error, and `tail` says what happens
    then (nothing, or the handler) -/
theorem try_body_aux {code Ob P o fr G pe S c outs eb}
    (y : Yields code Ob P o fr G pe S c outs eb) :
    ∀ {O K : Nat → Prop} {F : List Fork} {p : Nat} {v : V} {L pend : Nat} {out2 : List V} {e : Option Err} {Rref : Regs},
    G = ⟨p, .v v :: S, fr, o⟩ :: F →
    code[p]? = some (.forktrybegin L) → code[pe]? = some .forktryend → code[pe+1]? = some (.jump pend) →
    (∀ a, Ob a → O a) → (∀ a, K a → O a ∨ P a) → (∀ a, K a → ¬ Wr Ob o a) →
    EqOn K Rref c.regs →
    (∀ R', EqOn K Rref R' →
      Yields code O P o fr F pend S (.fail (⟨p, .v v :: S, fr, o⟩ :: F) (eb.map .plain) R') out2 e) →
    Yields code O P o fr F pend S c (outs ++ out2) e := by
  induction y with
  | @done c e' R' hs hf =>
    intro O K F p v L pend out2 e Rref hG _ _ _ hO _ hd hK tail
    subst hG
    have hW : ∀ a, Wr Ob o a → Wr O o a := fun a h => h.elim (fun h => Or.inl (hO a h)) Or.inr
    exact (tail R' (hK.trans (hf.toOn hd))).steps_left hs (hf.mono hW)
  | @out c w ws e' F'' R1 oo cp hF'' hs ho1 hf hn _ ih =>
    intro O K F p v L pend out2 e Rref hG hbeg hend hjmp hO hk hd hK tail
    subst hG
    have hW : ∀ a, Wr Ob o a → Wr O o a := fun a h => h.elim (fun h => Or.inl (hO a h)) Or.inr
    have hforks : (⟨pe, .v w :: S, fr, oo⟩ : Fork) :: (F'' ++ ⟨p, .v v :: S, fr, o⟩ :: F) =
        ((⟨pe, .v w :: S, fr, oo⟩ : Fork) :: (F'' ++ [⟨p, .v v :: S, fr, o⟩])) ++ F := by simp
    have hok : ForksOK code ((⟨pe, .v w :: S, fr, oo⟩ : Fork) :: (F'' ++ [⟨p, .v v :: S, fr, o⟩])) :=
      ForksOK.tri (fe := ⟨pe, .v w :: S, fr, oo⟩) (fb := ⟨p, .v v :: S, fr, o⟩) hend hF'' hbeg .nil
    have hs' : Steps code c (.run pend (.v w :: S)
        (((⟨pe, .v w :: S, fr, oo⟩ : Fork) :: (F'' ++ [⟨p, .v v :: S, fr, o⟩])) ++ F) false none R1 fr oo cp) := by
      rw [← hforks]
      refine hs.trans (.head (c' := .run (pe+1) (.v w :: S)
        ((⟨pe, .v w :: S, fr, oo⟩ : Fork) :: (F'' ++ ⟨p, .v v :: S, fr, o⟩ :: F)) false none R1 fr oo cp) ?_ ?_)
      · simp [step, hend]
      · exact Steps.one (by simp [step, hjmp])
    refine .out hok hs' ho1 (hf.mono hW) (fun h => by simp at h) ?_
    intro R2 h2
    have hKeep : ∀ a, KeepP Ob P o oo a → KeepP O P o oo a := by
      intro a h; rcases h with (h | h) | h
      · exact Or.inl (Or.inl (hO a h))
      · exact Or.inl (Or.inr h)
      · exact Or.inr h
    have hKK : ∀ a, K a → KeepP O P o oo a := fun a h => Or.inl (hk a h)
    have hK2 : EqOn K Rref R2 := (hK.trans (hf.toOn hd)).trans (h2.mono hKK)
    have := ih R2 (h2.mono hKeep) rfl hbeg hend hjmp hO hk hd (by simpa using hK2) tail
    have y' : Yields code O P o fr F pend S
        (.fail ((⟨pe, .v w :: S, fr, oo⟩ : Fork) :: (F'' ++ ⟨p, .v v :: S, fr, o⟩ :: F)) none R2) (ws ++ out2) e := by
      refine Yields.steps_left (c' := .fail (F'' ++ ⟨p, .v v :: S, fr, o⟩ :: F) none R2) ?_ EqOff.refl this
      refine .head (c' := .run pe (.v w :: S) (F'' ++ ⟨p, .v v :: S, fr, o⟩ :: F) true none R2 fr oo 0) (by simp [step]) ?_
      exact Steps.one (by simp [step, hend])
    rw [hforks] at y'
    exact y'

theorem filter_isEmpty_eq_not_any {α} (p : α → Bool) (l : List α) : (l.filter p).isEmpty = !l.any p := by
  induction l with
  | nil => rfl
  | cons x xs ih => by_cases h : p x <;> simp [List.filter, h, ih]

/-- the left operand of `l // r`: an output that is `null`/`false` is dropped (`pop; backtrack`), any
    other is passed on after setting the register `found`; when `l` is exhausted the machine fails
    into the `fork` of the `//` with `found` telling whether anything was emitted, and `tail` says
    what happens then (nothing, the error of `l`, or `r`) -/
theorem alt_left_aux {code Ol P o fr G pa S c outs el}
    (y : Yields code Ol P o fr G pa S c outs el) :
    ∀ {O K : Nat → Prop} {F : List Fork} {pf : Nat} {v : V} {L1 pend sid i : Nat} {f : Frame} {d : Nat}
      {out2 : List V} {e2 : Option Err} {Rref : Regs} (b bf : Bool),
    bf = (b || outs.any (fun w => !falsy w)) →
    G = ⟨pf, .v v :: S, fr, o⟩ :: F →
    code[pf]? = some (.fork L1) →
    code[pa]? = some .dup → code[pa+1]? = some (.jumpifnot (pa+5)) → code[pa+2]? = some (.push (.bool true)) →
    code[pa+3]? = some (.store sid i) → code[pa+4]? = some (.jump pend) →
    code[pa+5]? = some .pop → code[pa+6]? = some .backtrack →
    resolve sid fr (fr.length - 1) = some (f, d) →
    O (f.base + i) → ¬ Ol (f.base + i) → ¬ P (f.base + i) → f.base + i < o →
    (∀ a, Ol a → O a) → (∀ a, K a → O a ∨ P a) → (∀ a, K a → ¬ Wr Ol o a) → (∀ a, K a → a ≠ f.base + i) →
    EqOn K Rref c.regs → c.regs (f.base + i) = .v (.bool b) →
    (∀ R', EqOn K Rref R' → R' (f.base + i) = .v (.bool bf) →
      Yields code O P o fr F pend S (.fail (⟨pf, .v v :: S, fr, o⟩ :: F) (el.map .plain) R') out2 e2) →
    Yields code O P o fr F pend S c (outs.filter (fun w => !falsy w) ++ out2) e2 := by
  induction y with
  | @done c e' R' hs hf =>
    intro O K F pf v L1 pend sid i f d out2 e2 Rref b bf hbf hG _ _ _ _ _ _ _ _ _ _ hrl hrP hrlt hO _ hd _ hK hb tail
    subst hG
    have hbf' : b = bf := by simpa using hbf.symm
    subst hbf'
    have hW : ∀ a, Wr Ol o a → Wr O o a := fun a h => h.elim (fun h => Or.inl (hO a h)) Or.inr
    have hnw : ¬ Wr Ol o (f.base + i) := by
      intro h; rcases h with h | h
      · exact hrl h
      · omega
    have hb' : R' (f.base + i) = .v (.bool b) := by rw [← hf _ hnw]; exact hb
    have := (tail R' (hK.trans (hf.toOn hd)) hb').steps_left hs (hf.mono hW)
    simpa using this
  | @out c w ws e' F'' R1 oo cp hF'' hs ho1 hf hn _ ih =>
    intro O K F pf v L1 pend sid i f d out2 e2 Rref b bf hbf hG hfork k0 k1 k2 k3 k4 k5 k6 hres hrO hrl hrP hrlt hO hk hd hkr hK hb tail
    subst hG
    have hW : ∀ a, Wr Ol o a → Wr O o a := fun a h => h.elim (fun h => Or.inl (hO a h)) Or.inr
    have hnw : ¬ Wr Ol o (f.base + i) := by
      intro h; rcases h with h | h
      · exact hrl h
      · omega
    have hb1 : R1 (f.base + i) = .v (.bool b) := by rw [← hf _ hnw]; exact hb
    have hK1 : EqOn K Rref R1 := hK.trans (hf.toOn hd)
    by_cases hw : falsy w = true
    · -- dropped: dup; jumpifnot; pop; backtrack
      have hdrop : Steps code c (.fail (F'' ++ ⟨pf, .v v :: S, fr, o⟩ :: F) none R1) := by
        refine hs.trans ?_
        refine .head (c' := .run (pa+1) (.v w :: .v w :: S) (F'' ++ ⟨pf, .v v :: S, fr, o⟩ :: F) false none R1 fr oo cp) (by simp [step, k0]) ?_
        refine .head (c' := .run (pa+5) (.v w :: S) (F'' ++ ⟨pf, .v v :: S, fr, o⟩ :: F) false none R1 fr oo cp) (by simp [step, k1, hw]) ?_
        refine .head (c' := .run (pa+6) S (F'' ++ ⟨pf, .v v :: S, fr, o⟩ :: F) false none R1 fr oo cp) (by simp [step, k5]) ?_
        exact Steps.one (by simp [step, k6])
      have := ih R1 EqOn.refl b bf (by simpa [hw] using hbf) rfl hfork k0 k1 k2 k3 k4 k5 k6 hres hrO hrl hrP hrlt hO hk hd hkr (by simpa using hK1) (by simpa using hb1) tail
      have y' := this.steps_left hdrop (hf.mono hW)
      simpa [List.filter, hw] using y'
    · -- passed on: dup; jumpifnot; push true; store found; jump END
      have hw' : falsy w = false := by cases h : falsy w <;> simp_all
      let R1' := R1.set (f.base + i) (.v (.bool true))
      have hforks : F'' ++ ⟨pf, .v v :: S, fr, o⟩ :: F = (F'' ++ [⟨pf, .v v :: S, fr, o⟩]) ++ F := by simp
      have hok : ForksOK code (F'' ++ [⟨pf, .v v :: S, fr, o⟩]) :=
        hF''.append (.plain (Or.inl ⟨L1, hfork⟩) .nil)
      have hpass : Steps code c (.run pend (.v w :: S) ((F'' ++ [⟨pf, .v v :: S, fr, o⟩]) ++ F) false none R1' fr oo cp) := by
        rw [← hforks]
        refine hs.trans ?_
        refine .head (c' := .run (pa+1) (.v w :: .v w :: S) (F'' ++ ⟨pf, .v v :: S, fr, o⟩ :: F) false none R1 fr oo cp) (by simp [step, k0]) ?_
        refine .head (c' := .run (pa+2) (.v w :: S) (F'' ++ ⟨pf, .v v :: S, fr, o⟩ :: F) false none R1 fr oo cp) (by simp [step, k1, hw']) ?_
        refine .head (c' := .run (pa+3) (.v (.bool true) :: .v w :: S) (F'' ++ ⟨pf, .v v :: S, fr, o⟩ :: F) false none R1 fr oo cp) (by simp [step, k2]) ?_
        refine .head (c' := .run (pa+4) (.v w :: S) (F'' ++ ⟨pf, .v v :: S, fr, o⟩ :: F) false none R1' fr oo cp) (by simp [step, k3, hres, R1']) ?_
        exact Steps.one (by simp [step, k4])
      have hf' : EqOff (Wr O o) c.regs R1' := by
        intro a ha
        have hne : a ≠ f.base + i := fun h => ha (Or.inl (h ▸ hrO))
        rw [hf.mono hW a ha]
        simp [R1', Regs.set, hne]
      have hout : (w :: ws).filter (fun w => !falsy w) = w :: ws.filter (fun w => !falsy w) := by
        simp [List.filter, hw']
      have hany : bf = true := by simpa [hw'] using hbf
      rw [hout, List.cons_append]
      refine .out hok hpass ho1 hf' (fun h => by simp at h) ?_
      intro R2 h2
      have hl : EqOn (KeepP Ol P o oo) R1 R2 := by
        intro a ha
        have hne : a ≠ f.base + i := by
          intro h; subst h
          rcases ha with (ha | ha) | ha
          · exact hrl ha
          · exact hrP ha
          · omega
        have hin : KeepP O P o oo a := by
          rcases ha with (ha | ha) | ha
          · exact Or.inl (Or.inl (hO a ha))
          · exact Or.inl (Or.inr ha)
          · exact Or.inr ha
        rw [← h2 a hin]
        simp [R1', Regs.set, hne]
      have hK2 : EqOn K Rref R2 := by
        intro a ha
        have hne : a ≠ f.base + i := hkr a ha
        have hin : KeepP O P o oo a := Or.inl (hk a ha)
        rw [hK1 a ha, ← h2 a hin]
        simp [R1', Regs.set, hne]
      have hb2 : R2 (f.base + i) = .v (.bool true) := by
        rw [← h2 _ (Or.inl (Or.inl hrO))]; simp [R1', Regs.set]
      have := ih R2 hl true bf (by simp [hany]) rfl hfork k0 k1 k2 k3 k4 k5 k6 hres hrO hrl hrP hrlt hO hk hd hkr (by simpa using hK2) (by simpa using hb2) tail
      rw [hforks] at this
      simpa using this

/-! ## lexical lookup -/

theorem resolve_push (sid : Nat) (x : Frame) (fr : List Frame) (t : Nat) (h : t < fr.length) :
    resolve sid (x :: fr) t = resolve sid fr t := by
  simp only [resolve]
  have : fr.length ≠ t := by omega
  simp [this]

theorem resolve_lt (sid : Nat) : ∀ (fr : List Frame) (t : Nat) f d, resolve sid fr t = some (f, d) → d < fr.length := by
  intro fr
  induction fr with
  | nil => intro t f d h; simp [resolve] at h
  | cons x fr ih =>
    intro t f d h
    simp only [resolve] at h
    split at h
    · rename_i heq
      split at h
      · simp only [Option.some.injEq, Prod.mk.injEq] at h
        obtain ⟨_, rfl⟩ := h
        simp [heq]
      · split at h
        · rename_i t' _
          have := ih t' f d h
          simp; omega
        · cases h
    · have := ih t f d h
      simp; omega

theorem frameAt_push (x : Frame) (fr : List Frame) (d : Nat) (h : d < fr.length) :
    frameAt (x :: fr) d = frameAt fr d := by
  simp only [frameAt, List.length_cons]
  rw [if_pos (by omega), if_pos h]
  have e : fr.length + 1 - 1 - d = (fr.length - 1 - d) + 1 := by omega
  rw [e, List.getElem?_cons_succ]

/-- the argument closure for `q`, created inside the body of `h`, is laid out at `pcL`:
    `scope [pcL, n, 0]; q; ret`, lexically after the `opscope` of `h` -/
def LamAt (code : Code) (entry : Name → Nat) (pcL : Nat) (h : Option Name) (q : Q) : Prop :=
  code[pcL]? = some (.scope pcL ((compile entry ⟨h, []⟩ pcL (pcL+1) q).length + 1) 0) ∧
  Seg code (pcL+1) (compile entry ⟨h, []⟩ pcL (pcL+1) q) ∧
  code[pcL + 1 + (compile entry ⟨h, []⟩ pcL (pcL+1) q).length]? = some .ret ∧
  scopeOfFn entry h < pcL

/-- the machine's frames and registers realise the closure environment `ρ` of code lexically
    inside function `g`, looked up from the frame at depth `t`: walking `outerindex` from `t`
    reaches the frame of `g`, whose register 1 — a read-only register, in `P` — holds the closure
    `(pcL, d')`: the code of the argument expression and the depth of the frame it was created
    in, which in turn realises the environment captured -/
inductive EnvRel (code : Code) (entry : Name → Nat) (nf : Nat) (P : Nat → Prop) (R : Regs) :
    List Frame → Nat → Clo → Option Name → Prop where
  | none {fr t g} : EnvRel code entry nf P R fr t .none g
  | mk {fr t g h q ρ f dg pcL d' fd} :
      resolve (scopeOfFn entry g) fr t = some (f, dg) → R (f.base + 1) = .clo pcL d' → P (f.base + 1) → d' < dg →
      frameAt fr d' = some fd → fd.id < pcL →
      LamAt code entry pcL h q → q.Closed nf [] → (q.HasParam → ρ ≠ .none) →
      EnvRel code entry nf P R fr d' ρ h → EnvRel code entry nf P R fr t (.mk h q ρ) g

theorem EnvRel.push {code entry nf P R fr t ρ g} (x : Frame) (h : EnvRel code entry nf P R fr t ρ g) (ht : t < fr.length) :
    EnvRel code entry nf P R (x :: fr) t ρ g := by
  induction h with
  | none => exact EnvRel.none
  | mk hr hp hP hd hfd hid hl hc hpar _ ih =>
    have hdg := resolve_lt _ _ _ _ _ hr
    exact EnvRel.mk (by rw [resolve_push _ _ _ _ ht]; exact hr) hp hP hd
      (by rw [frameAt_push _ _ _ (by omega)]; exact hfd) hid hl hc hpar (ih (by omega))

/-- entering an argument closure whose lexical parent is the frame at depth `d'` -/
theorem EnvRel.lam {code entry nf P R fr d' ρ h} (x : Frame) (he : EnvRel code entry nf P R fr d' ρ h) (hd : d' < fr.length)
    (hid : x.id ≠ scopeOfFn entry h) (hout : x.outer = some d') : EnvRel code entry nf P R (x :: fr) fr.length ρ h := by
  cases he with
  | none => exact EnvRel.none
  | mk hr hp hP hdd hfd hidd hl hc hpar hrec =>
    have hdg := resolve_lt _ _ _ _ _ hr
    exact EnvRel.mk (by simp [resolve, hid, hout, hr]) hp hP hdd
      (by rw [frameAt_push _ _ _ (by omega)]; exact hfd) hidd hl hc hpar (hrec.push x (by omega))

/-- the relation reads the registers only at `P` -/
theorem EnvRel.congr {code entry nf P R R' fr t ρ g} (h : EnvRel code entry nf P R fr t ρ g) (heq : EqOn P R R') :
    EnvRel code entry nf P R' fr t ρ g := by
  induction h with
  | none => exact EnvRel.none
  | mk hr hp hP hd hfd hid hl hc hpar _ ih =>
    exact EnvRel.mk hr (by rw [← heq _ hP]; exact hp) hP hd hfd hid hl hc hpar ih

theorem EnvRel.monoP {code entry nf} {P P' : Nat → Prop} {R fr t ρ g} (h : EnvRel code entry nf P R fr t ρ g)
    (hPP : ∀ a, P a → P' a) : EnvRel code entry nf P' R fr t ρ g := by
  induction h with
  | none => exact EnvRel.none
  | mk hr hp hP hd hfd hid hl hc hpar _ ih =>
    exact EnvRel.mk hr hp (hPP _ hP) hd hfd hid hl hc hpar ih

theorem EnvRel.inv_mk {code entry nf P R fr t g h q ρ} (he : EnvRel code entry nf P R fr t (.mk h q ρ) g) :
    ∃ f dg pcL d' fd, resolve (scopeOfFn entry g) fr t = some (f, dg) ∧ R (f.base + 1) = .clo pcL d' ∧ P (f.base + 1) ∧ d' < dg ∧
      frameAt fr d' = some fd ∧ fd.id < pcL ∧
      LamAt code entry pcL h q ∧ q.Closed nf [] ∧ (q.HasParam → ρ ≠ .none) ∧ EnvRel code entry nf P R fr d' ρ h := by
  cases he with
  | mk hr hp hP hd hfd hid hl hc hpar hrec => exact ⟨_, _, _, _, _, hr, hp, hP, hd, hfd, hid, hl, hc, hpar, hrec⟩

/-- every function `f < nf` is laid out as compileFuncDef does:
    `scope [id, n, 1]; store [id,0]; store [id,1]; load [id,0]; body; ret` with `id = entry f` -/
structure FuncsOK (code : Code) (defs : Name → Q) (entry : Name → Nat) (nf : Nat) : Prop where
  scope : ∀ f, f < nf → code[entry f]? =
    some (.scope (entry f) ((compile entry ⟨some f, []⟩ (entry f) (entry f + 4) (defs f)).length + 4) 1)
  st0 : ∀ f, f < nf → code[entry f + 1]? = some (.store (entry f) 0)
  st1 : ∀ f, f < nf → code[entry f + 2]? = some (.store (entry f) 1)
  ld0 : ∀ f, f < nf → code[entry f + 3]? = some (.load (entry f) 0)
  body : ∀ f, f < nf → Seg code (entry f + 4) (compile entry ⟨some f, []⟩ (entry f) (entry f + 4) (defs f))
  ret : ∀ f, f < nf → code[entry f + 4 + (compile entry ⟨some f, []⟩ (entry f) (entry f + 4) (defs f)).length]? = some .ret
  closed : ∀ f, f < nf → (defs f).Closed nf []

/-- static registers (absolute) of the segment `[p, p+len)` of a scope entered at `e`, frame base `b` -/
def Own (b e p len : Nat) : Nat → Prop := fun a => ∃ i, p ≤ i ∧ i < p + len ∧ a = b + (i - e)

/-- the variables in scope live in read-only registers of the current frame and hold the values
    the reference environment gives them -/
def VarsOK (σ : List (Nat × V)) (Γ : List (Nat × Nat)) (R : Regs) (b : Nat) (P : Nat → Prop) : Prop :=
  ∀ x r, lookup x Γ = some r → ∃ w, lookup x σ = some w ∧ R (b + r) = .v w ∧ P (b + r)

/-- frames and registers realise the environment: the closure chain (`EnvRel`) and the variables -/
def EnvOK (code : Code) (entry : Name → Nat) (nf : Nat) (P : Nat → Prop) (R : Regs) (fr : List Frame)
    (ρ : Env) (g : Ctx) : Prop :=
  EnvRel code entry nf P R fr (fr.length - 1) ρ.clo g.fn ∧ VarsOK ρ.vars g.vars R (base fr) P

theorem EnvOK.congr {code entry nf P R R' fr ρ g} (h : EnvOK code entry nf P R fr ρ g) (heq : EqOn P R R') :
    EnvOK code entry nf P R' fr ρ g := by
  refine ⟨h.1.congr heq, ?_⟩
  intro x r hx
  obtain ⟨w, h1, h2, h3⟩ := h.2 x r hx
  exact ⟨w, h1, by rw [← heq _ h3]; exact h2, h3⟩

theorem lookup_of_mem {α : Type} (x : Nat) : ∀ (l : List (Nat × α)), x ∈ l.map (·.1) → ∃ a, lookup x l = some a := by
  intro l
  induction l with
  | nil => intro h; simp at h
  | cons y l ih =>
    intro h
    obtain ⟨y1, y2⟩ := y
    by_cases hy : y1 = x
    · exact ⟨y2, by simp [lookup, hy]⟩
    · have : x ∈ l.map (·.1) := by
        simp only [List.map_cons, List.mem_cons] at h
        rcases h with h | h
        · exact absurd h.symm hy
        · exact h
      obtain ⟨a, ha⟩ := ih this
      exact ⟨a, by simp [lookup, hy, ha]⟩

end Gojq.MiniVM

/-
  The image of the reference parser is Printable, part 3: object entries, pattern entries,
  definitions, brackets, terms and suffix lists.
-/
import Gojq.Proofs.RoundTripImage3
namespace Gojq.RefTerm
open Gojq Gojq.Lexer

theorem step_kv (f : Nat) (ih : IH f) : ∀ (ts : List Tok) (kv : KV) (rest : List Tok),
    pKV (f + 1) ts = some (kv, rest) → Good ts → okKV kv = true ∧ Good rest := by
  intro ts kv rest h hg
  unfold pKV at h
  split at h
  · ext_do h
    obtain ⟨val, b, h1, rfl, rfl⟩ := h
    obtain ⟨p1, p2⟩ := ih.objVal _ val b h1 hg.tail2
    exact ⟨by simp [okKV, okS, wf_str hg.head, p1], p2⟩
  · simp at h; obtain ⟨rfl, rfl⟩ := h
    exact ⟨by simp [okKV, okS, wf_str hg.head], hg.tail⟩
  · ext_do h
    obtain ⟨ps, b, h1, h2⟩ := h
    obtain ⟨p1, p2, p3, p4⟩ := ih.parts _ ps b h1 hg.tail
    have hs := okS_interp ps p1 p3 p4 hg
    split at h2
    · ext_do h2
      obtain ⟨val, b2, h3, rfl, rfl⟩ := h2
      obtain ⟨r1, r2⟩ := ih.objVal _ val b2 h3 p2.tail
      exact ⟨by simp [okKV, hs, r1], r2⟩
    · simp at h2; obtain ⟨rfl, rfl⟩ := h2
      exact ⟨by simp [okKV, hs], p2⟩
  · ext_do h
    obtain ⟨kq, b, h1, a1, h2, a2, h3, val, b2, h4, rfl, rfl⟩ := h
    obtain ⟨p1, p2, _, _⟩ := ih.climb true 1 _ kq b h1 hg.tail (fun _ => by omega)
    have := expect_some h2; subst this
    have := expect_some h3; subst this
    obtain ⟨r1, r2⟩ := ih.objVal _ val b2 h4 p2.tail2
    exact ⟨by simp [okKV, p1, r1], r2⟩
  · ext_do h
    obtain ⟨n, hn, val, b, h1, rfl, rfl⟩ := h
    obtain ⟨p1, p2⟩ := ih.objVal _ val b h1 hg.tail2
    exact ⟨by simp [okKV, wf_keyOfTok hg.head hn, p1], p2⟩
  · ext_do h
    obtain ⟨n, hn, rfl, rfl⟩ := h
    exact ⟨by simp [okKV, wf_keyOfTok hg.head hn], hg.tail⟩
  · cases h

theorem step_pkv (f : Nat) (ih : IH f) : ∀ (ts : List Tok) (kv : PKV) (rest : List Tok),
    pPKV (f + 1) ts = some (kv, rest) → Good ts → okPKV kv = true ∧ Good rest := by
  intro ts kv rest h hg
  unfold pPKV at h
  split at h
  · ext_do h
    obtain ⟨p, b, h1, rfl, rfl⟩ := h
    obtain ⟨p1, p2⟩ := ih.pattern _ p b h1 hg.tail2
    exact ⟨by simp [okPKV, okS, wf_str hg.head, p1], p2⟩
  · ext_do h
    obtain ⟨ps, b, h1, a1, h2, p, b2, h3, rfl, rfl⟩ := h
    obtain ⟨p1, p2, p3, p4⟩ := ih.parts _ ps b h1 hg.tail
    have hs := okS_interp ps p1 p3 p4 hg
    have := expect_some h2; subst this
    obtain ⟨r1, r2⟩ := ih.pattern _ p b2 h3 p2.tail
    exact ⟨by simp [okPKV, hs, r1], r2⟩
  · ext_do h
    obtain ⟨kq, b, h1, a1, h2, a2, h3, p, b2, h4, rfl, rfl⟩ := h
    obtain ⟨p1, p2, _, _⟩ := ih.climb true 1 _ kq b h1 hg.tail (fun _ => by omega)
    have := expect_some h2; subst this
    have := expect_some h3; subst this
    obtain ⟨r1, r2⟩ := ih.pattern _ p b2 h4 p2.tail2
    exact ⟨by simp [okPKV, p1, r1], r2⟩
  · ext_do h
    obtain ⟨n, hn, p, b, h1, rfl, rfl⟩ := h
    obtain ⟨p1, p2⟩ := ih.pattern _ p b h1 hg.tail2
    exact ⟨by simp [okPKV, wf_keyOfTok hg.head hn, p1], p2⟩
  · simp at h; obtain ⟨rfl, rfl⟩ := h
    exact ⟨by simp [okPKV, wf_var hg.head], hg.tail⟩
  · cases h

theorem step_funcDef (f : Nat) (ih : IH f) : ∀ (ts : List Tok) (fd : FuncDef) (rest : List Tok),
    pFuncDef (f + 1) ts = some (fd, rest) → Good ts → okFD fd = true ∧ Good rest := by
  intro ts fd rest h hg
  unfold pFuncDef at h
  split at h
  · ext_do h
    obtain ⟨b, ts1, h1, a1, h2, rfl, rfl⟩ := h
    obtain ⟨p1, p2, _, _⟩ := ih.climb true 1 _ b ts1 h1 hg.tail2 (fun _ => by omega)
    have := expect_some h2; subst this
    exact ⟨by simp [okFD, show isPlainIdent _ = true from hg.head, p1], p2.tail⟩
  · ext_do h
    obtain ⟨p, hp, ps, ts1, h1, a1, h2, b, ts2, h3, a2, h4, rfl, rfl⟩ := h
    obtain ⟨q1, q2⟩ := pParamsT_img _ ps ts1 h1 hg.tail3
    have := expect_some h2; subst this
    obtain ⟨p1, p2, _, _⟩ := ih.climb true 1 _ b ts2 h3 q2.tail (fun _ => by omega)
    have := expect_some h4; subst this
    exact ⟨by simp [okFD, show isPlainIdent _ = true from hg.head, wf_paramOfTok hg.tail2.head hp, q1, p1], p2.tail⟩
  · cases h

theorem step_bracket (f : Nat) (ih : IH f) : ∀ (ts : List Tok) (s : Suffix) (rest : List Tok),
    pBracket (f + 1) ts = some (s, rest) → Good ts →
      okSuf s = true ∧ Good rest ∧ (isIndexForm s = true ∨ s = .iter) := by
  intro ts s rest h hg
  unfold pBracket at h
  split at h
  · simp at h; obtain ⟨rfl, rfl⟩ := h; exact ⟨rfl, hg.tail, Or.inr rfl⟩
  · ext_do h
    obtain ⟨b, ts1, h1, a1, h2, rfl, rfl⟩ := h
    obtain ⟨p1, p2, _, _⟩ := ih.climb true 1 _ b ts1 h1 hg.tail (fun _ => by omega)
    have := expect_some h2; subst this
    exact ⟨by simpa [okSuf] using p1, p2.tail, Or.inl rfl⟩
  · ext_do h
    obtain ⟨a, ts1, h1, h2⟩ := h
    obtain ⟨p1, p2, _, _⟩ := ih.climb true 1 _ a ts1 h1 hg (fun _ => by omega)
    split at h2
    · simp at h2; obtain ⟨rfl, rfl⟩ := h2
      exact ⟨by simpa [okSuf] using p1, p2.tail, Or.inl rfl⟩
    · simp at h2; obtain ⟨rfl, rfl⟩ := h2
      exact ⟨by simpa [okSuf] using p1, p2.tail2, Or.inl rfl⟩
    · ext_do h2
      obtain ⟨b, ts2, h3, a2, h4, rfl, rfl⟩ := h2
      obtain ⟨q1, q2, _, _⟩ := ih.climb true 1 _ b ts2 h3 p2.tail (fun _ => by omega)
      have := expect_some h4; subst this
      exact ⟨by simp [okSuf, p1, q1], q2.tail, Or.inl rfl⟩
    · cases h2

theorem step_term (f : Nat) (ih : IH f) : ∀ (ts : List Tok) (t : Term) (rest : List Tok),
    pTerm (f + 1) ts = some (t, rest) → Good ts →
      okT t = true ∧ Good rest ∧ SufStop rest ∧ (openTryT t = true → CatchStop rest) := by
  intro ts t rest h hg
  unfold pTerm at h
  ext_do h
  obtain ⟨t0, ts0, h1, h2⟩ := h
  obtain ⟨a1, a2, a3, a4⟩ := ih.primary ts t0 ts0 h1 hg
  exact ih.suf t0 ts0 t rest h2 a2 a1 a3 a4

theorem sufStop_false (ts : List Tok) (h : SufStop ts) (hnone : ∀ t, pSuf 1 t ts = none) : False := by
  have := h 0 .identity
  rw [hnone] at this
  cases this

theorem step_suf (f : Nat) (ih : IH f) : ∀ (t : Term) (ts : List Tok) (t' : Term) (rest : List Tok),
    pSuf (f + 1) t ts = some (t', rest) → Good ts → okT t = true → (suffixable t = true ∨ SufStop ts) →
      (openTryT t = true → CatchStop ts) →
      okT t' = true ∧ Good rest ∧ SufStop rest ∧ (openTryT t' = true → CatchStop rest) := by
  intro t ts t' rest h hg hok hsuf hcatch
  have hsufT : (∀ x, pSuf 1 x ts = none) → suffixable t = true := by
    intro hn
    rcases hsuf with h' | h'
    · exact h'
    · exact (sufStop_false ts h' hn).elim
  unfold pSuf at h
  split at h
  · next n rest' =>
    have hs := hsufT (fun x => by simp [pSuf])
    exact ih.suf _ _ t' rest h hg.tail
      (by simp [okT, hok, hs, okSuf, show isIdentName n = true from hg.head]) (Or.inl rfl) (by simp [openTryT])
  · have hs := hsufT (fun x => by simp [pSuf])
    exact ih.suf _ _ t' rest h hg.tail (by simp [okT, hok, hs, okSuf]) (Or.inl rfl) (by simp [openTryT])
  · have hs := hsufT (fun x => by simp [pSuf, pBracket])
    ext_do h
    obtain ⟨s, ts1, h1, h2⟩ := h
    obtain ⟨p1, p2, _⟩ := ih.bracket _ s ts1 h1 hg.tail
    exact ih.suf _ _ t' rest h2 p2 (by simp [okT, hok, hs, p1]) (Or.inl rfl) (by simp [openTryT])
  · have hs := hsufT (fun x => by simp [pSuf, pBracket])
    ext_do h
    obtain ⟨s, ts1, h1, h2⟩ := h
    obtain ⟨p1, p2, _⟩ := ih.bracket _ s ts1 h1 hg.tail2
    exact ih.suf _ _ t' rest h2 p2 (by simp [okT, hok, hs, p1]) (Or.inl rfl) (by simp [openTryT])
  · have hs := hsufT (fun x => by simp [pSuf])
    exact ih.suf _ _ t' rest h hg.tail2
      (by simp [okT, hok, hs, okSuf, okS, wf_str hg.tail.head]) (Or.inl rfl) (by simp [openTryT])
  · have hs := hsufT (fun x => by simp [pSuf, pParts])
    ext_do h
    obtain ⟨ps, ts1, h1, h2⟩ := h
    obtain ⟨p1, p2, p3, p4⟩ := ih.parts _ ps ts1 h1 hg.tail2
    have hS := okS_interp ps p1 p3 p4 hg.tail
    exact ih.suf _ _ t' rest h2 p2 (by simp [okT, hok, hs, okSuf, hS]) (Or.inl rfl) (by simp [openTryT])
  · simp at h; obtain ⟨rfl, rfl⟩ := h
    refine ⟨hok, hg, ?_, hcatch⟩
    intro g x
    unfold pSuf
    split <;> simp_all

end Gojq.RefTerm

/-
  C04, groundwork (see Proofs/TailClosParam.lean): `exec_param` — every opcode other than `callpc`
  respects `PRel`, opcode by opcode.
-/
import Gojq.Proofs.TailClosParamExec
set_option linter.unusedSimpArgs false
set_option linter.unusedVariables false
namespace Gojq.CloParam
open Gojq Gojq.VM

/-- a change of the fields other than the data stack, the paths stack and the variable array, computed
    from those other fields only -/
theorem PRel.other {e e' : Env} (h : PRel e e') (f : Env → Env)
    (hf : ∀ (e : Env) (st pa : Stack V) (vs : Array V),
      f { e with stack := st, paths := pa, values := vs } = { f e with stack := st, paths := pa, values := vs })
    (hs : ∀ e, (f e).stack = e.stack ∧ (f e).paths = e.paths ∧ (f e).values = e.values) : PRel (f e) (f e') := by
  have hr := h.rest
  have e1 : f e' = { f e with stack := e'.stack, paths := e'.paths, values := e'.values } := by
    rw [← hf, ← hr]
  obtain ⟨s1, s2, s3⟩ := hs e
  rw [e1]
  exact ⟨by rw [s1]; exact h.stack, by rw [s2]; exact h.paths, by rw [s3]; exact h.values, rfl⟩

theorem PC.other (f : Env → Env)
    (hf : ∀ (e : Env) (st pa : Stack V) (vs : Array V),
      f { e with stack := st, paths := pa, values := vs } = { f e with stack := st, paths := pa, values := vs })
    (hs : ∀ e, (f e).stack = e.stack ∧ (f e).paths = e.paths ∧ (f e).values = e.values) :
    PC TT (modifyEnv f) (modifyEnv f) := PC.modify (fun e e' h => h.other f hf hs)

macro "pc_other" : tactic => `(tactic|
  refine PC.bind (PC.other _ (fun _ _ _ _ => rfl) (fun _ => ⟨rfl, rfl, rfl⟩)) (fun _ _ _ => ?_))

theorem exec_param_nop (x : ExtRec) {l l' : L} (hl : LR l l') : PC CLR (exec .nop x l) (exec .nop x l') := by
  obtain ⟨pc, cp, ix, bt, er, er', rfl, rfl, he⟩ := hl.elim
  simp only [exec, exec.execIndex]
  repeat pc_go
theorem exec_param_push (v : JV) (x : ExtRec) {l l' : L} (hl : LR l l') :
    PC CLR (exec (.push v) x l) (exec (.push v) x l') := by
  obtain ⟨pc, cp, ix, bt, er, er', rfl, rfl, he⟩ := hl.elim
  simp only [exec, exec.execIndex]
  repeat pc_go
theorem exec_param_pop (x : ExtRec) {l l' : L} (hl : LR l l') : PC CLR (exec .pop x l) (exec .pop x l') := by
  obtain ⟨pc, cp, ix, bt, er, er', rfl, rfl, he⟩ := hl.elim
  simp only [exec, exec.execIndex]
  repeat pc_go
theorem exec_param_dup (x : ExtRec) {l l' : L} (hl : LR l l') : PC CLR (exec .dup x l) (exec .dup x l') := by
  obtain ⟨pc, cp, ix, bt, er, er', rfl, rfl, he⟩ := hl.elim
  simp only [exec, exec.execIndex]
  repeat pc_go
theorem exec_param_const (v : JV) (x : ExtRec) {l l' : L} (hl : LR l l') :
    PC CLR (exec (.const v) x l) (exec (.const v) x l') := by
  obtain ⟨pc, cp, ix, bt, er, er', rfl, rfl, he⟩ := hl.elim
  simp only [exec, exec.execIndex]
  repeat pc_go
theorem exec_param_load (a b : Int) (x : ExtRec) {l l' : L} (hl : LR l l') :
    PC CLR (exec (.load a b) x l) (exec (.load a b) x l') := by
  obtain ⟨pc, cp, ix, bt, er, er', rfl, rfl, he⟩ := hl.elim
  simp only [exec, exec.execIndex]
  repeat pc_go
theorem exec_param_store (a b : Int) (x : ExtRec) {l l' : L} (hl : LR l l') :
    PC CLR (exec (.store a b) x l) (exec (.store a b) x l') := by
  obtain ⟨pc, cp, ix, bt, er, er', rfl, rfl, he⟩ := hl.elim
  simp only [exec, exec.execIndex]
  repeat pc_go
theorem exec_param_object (n : Int) (x : ExtRec) {l l' : L} (hl : LR l l') :
    PC CLR (exec (.object n) x l) (exec (.object n) x l') := by
  obtain ⟨pc, cp, ix, bt, er, er', rfl, rfl, he⟩ := hl.elim
  simp only [exec, exec.execIndex]
  repeat pc_go
theorem exec_param_backtrack (x : ExtRec) {l l' : L} (hl : LR l l') :
    PC CLR (exec .backtrack x l) (exec .backtrack x l') := by
  obtain ⟨pc, cp, ix, bt, er, er', rfl, rfl, he⟩ := hl.elim
  simp only [exec, exec.execIndex]
  repeat pc_go
theorem exec_param_jump (t : Int) (x : ExtRec) {l l' : L} (hl : LR l l') :
    PC CLR (exec (.jump t) x l) (exec (.jump t) x l') := by
  obtain ⟨pc, cp, ix, bt, er, er', rfl, rfl, he⟩ := hl.elim
  simp only [exec, exec.execIndex]
  repeat pc_go
theorem exec_param_bad (x : ExtRec) {l l' : L} (hl : LR l l') : PC CLR (exec .bad x l) (exec .bad x l') := by
  obtain ⟨pc, cp, ix, bt, er, er', rfl, rfl, he⟩ := hl.elim
  simp only [exec, exec.execIndex]
  repeat pc_go

theorem OR.map_tryEnd {er er' : Option Err} (h : OR ER er er') : OR ER (er.map .tryEnd) (er'.map .tryEnd) := by
  cases er <;> cases er' <;> simp only [OR] at h <;> try exact h.elim
  · trivial
  · exact ER.tryEnd h

theorem exec_param_append (a b : Int) (x : ExtRec) {l l' : L} (hl : LR l l') :
    PC CLR (exec (.append a b) x l) (exec (.append a b) x l') := by
  obtain ⟨pc, cp, ix, bt, er, er', rfl, rfl, he⟩ := hl.elim
  simp only [exec, exec.execIndex]
  refine PC.bind (PC.envIndex _ _) (fun k k' hk => ?_); subst hk
  refine PC.bind (PC.getValue _) (fun w w' hw => ?_)
  cases hw with
  | refl w => repeat pc_go
  | clo _ _ _ => exact PC.panic _
  | pv _ _ => exact PC.panic _

theorem exec_param_fork (t : Int) (x : ExtRec) {l l' : L} (hl : LR l l') :
    PC CLR (exec (.fork t) x l) (exec (.fork t) x l') := by
  obtain ⟨pc, cp, ix, bt, er, er', rfl, rfl, he⟩ := hl.elim
  simp only [exec, exec.execIndex]
  cases er <;> cases er' <;> simp only [OR] at he <;>
    simp only [Option.isSome, Option.isNone, Bool.false_eq_true, if_false, if_true] <;> repeat pc_go

theorem exec_param_forkalt (t : Int) (x : ExtRec) {l l' : L} (hl : LR l l') :
    PC CLR (exec (.forkalt t) x l) (exec (.forkalt t) x l') := by
  obtain ⟨pc, cp, ix, bt, er, er', rfl, rfl, he⟩ := hl.elim
  simp only [exec, exec.execIndex]
  cases er <;> cases er' <;> simp only [OR] at he <;>
    simp only [Option.isSome, Option.isNone, Bool.false_eq_true, if_false, if_true] <;> repeat pc_go

theorem exec_param_forktryend (x : ExtRec) {l l' : L} (hl : LR l l') :
    PC CLR (exec .forktryend x l) (exec .forktryend x l') := by
  obtain ⟨pc, cp, ix, bt, er, er', rfl, rfl, he⟩ := hl.elim
  simp only [exec, exec.execIndex]
  split
  · exact PC.pure (clr_brk (LR.mk' (OR.map_tryEnd he)))
  · repeat pc_go

theorem exec_param_forktrybegin (t : Int) (x : ExtRec) {l l' : L} (hl : LR l l') :
    PC CLR (exec (.forktrybegin t) x l) (exec (.forktrybegin t) x l') := by
  obtain ⟨pc, cp, ix, bt, er, er', rfl, rfl, he⟩ := hl.elim
  simp only [exec, exec.execIndex]
  split
  · cases er <;> cases er' <;> simp only [OR] at he
    · repeat pc_go
    · cases he with
      | refl e => repeat pc_go
      | value hv => dsimp only; repeat pc_go
      | halt hv => exact PC.pure (clr_brk (LR.mk' (ER.halt hv)))
      | brk n hv => exact PC.pure (clr_brk (LR.mk' (ER.brk n hv)))
      | tryEnd h => exact PC.pure (clr_brk (LR.mk' h))
  · repeat pc_go

theorem exec_param_jumpifnot (t : Int) (x : ExtRec) {l l' : L} (hl : LR l l') :
    PC CLR (exec (.jumpifnot t) x l) (exec (.jumpifnot t) x l') := by
  obtain ⟨pc, cp, ix, bt, er, er', rfl, rfl, he⟩ := hl.elim
  simp only [exec, exec.execIndex]
  refine PC.bind PC.pop (fun w w' hw => ?_)
  cases hw with
  | refl w => repeat pc_go
  | clo _ _ _ => exact PC.pure (clr_fall (LR.mk' he))
  | pv _ _ => exact PC.pure (clr_fall (LR.mk' he))

theorem exec_param_expbegin (x : ExtRec) {l l' : L} (hl : LR l l') :
    PC CLR (exec .expbegin x l) (exec .expbegin x l') := by
  obtain ⟨pc, cp, ix, bt, er, er', rfl, rfl, he⟩ := hl.elim
  simp only [exec, exec.execIndex]
  pc_other
  repeat pc_go

theorem exec_param_expend (x : ExtRec) {l l' : L} (hl : LR l l') :
    PC CLR (exec .expend x l) (exec .expend x l') := by
  obtain ⟨pc, cp, ix, bt, er, er', rfl, rfl, he⟩ := hl.elim
  simp only [exec, exec.execIndex]
  pc_other
  repeat pc_go

theorem exec_param_call (t : Int) (x : ExtRec) {l l' : L} (hl : LR l l') :
    PC CLR (exec (.call t) x l) (exec (.call t) x l') := by
  obtain ⟨pc, cp, ix, bt, er, er', rfl, rfl, he⟩ := hl.elim
  simp only [exec, exec.execIndex]
  split
  · repeat pc_go
  · refine PC.bind PC.getEnv (fun e1 e1' h1 => ?_)
    rw [h1.scopes]
    repeat pc_go

theorem exec_param_callrec (t : Int) (x : ExtRec) {l l' : L} (hl : LR l l') :
    PC CLR (exec (.callrec t) x l) (exec (.callrec t) x l') := by
  obtain ⟨pc, cp, ix, bt, er, er', rfl, rfl, he⟩ := hl.elim
  simp only [exec, exec.execIndex]
  refine PC.bind PC.getEnv (fun e1 e1' h1 => ?_)
  rw [h1.scopes]
  repeat pc_go

theorem exec_param_pushpc (t : Int) (x : ExtRec) {l l' : L} (hl : LR l l') :
    PC CLR (exec (.pushpc t) x l) (exec (.pushpc t) x l') := by
  obtain ⟨pc, cp, ix, bt, er, er', rfl, rfl, he⟩ := hl.elim
  simp only [exec, exec.execIndex]
  refine PC.bind PC.getEnv (fun e1 e1' h1 => ?_)
  rw [h1.scopes]
  repeat pc_go

theorem exec_param_index (k : JV) (x : ExtRec) {l l' : L} (hl : LR l l') :
    PC CLR (exec (.index k) x l) (exec (.index k) x l') := by
  obtain ⟨pc, cp, ix, bt, er, er', rfl, rfl, he⟩ := hl.elim
  simp only [exec, exec.execIndex]
  split
  · repeat pc_go
  · refine PC.bind PC.pop (fun w w' hw => ?_)
    cases hw with
    | refl w => repeat pc_go
    | clo _ _ _ => dsimp only; repeat pc_go
    | pv _ _ => dsimp only; repeat pc_go

theorem exec_param_indexarray (k : JV) (x : ExtRec) {l l' : L} (hl : LR l l') :
    PC CLR (exec (.indexarray k) x l) (exec (.indexarray k) x l') := by
  obtain ⟨pc, cp, ix, bt, er, er', rfl, rfl, he⟩ := hl.elim
  simp only [exec, exec.execIndex]
  split
  · repeat pc_go
  · refine PC.bind PC.pop (fun w w' hw => ?_)
    cases hw with
    | refl w => repeat pc_go
    | clo _ _ _ => dsimp only; repeat pc_go
    | pv _ _ => dsimp only; repeat pc_go

theorem exec_param_pathbegin (x : ExtRec) {l l' : L} (hl : LR l l') :
    PC CLR (exec .pathbegin x l) (exec .pathbegin x l') := by
  obtain ⟨pc, cp, ix, bt, er, er', rfl, rfl, he⟩ := hl.elim
  simp only [exec, exec.execIndex]
  refine PC.bind PC.getEnv (fun e1 e1' h1 => ?_)
  rw [h1.expdepth]
  refine PC.bind (PC.pathsPush (.refl _)) (fun _ _ _ => ?_)
  refine PC.bind PC.stackTop (fun w w' hw => ?_)
  refine PC.bind (PC.pathsPush (.pv (.refl _) hw)) (fun _ _ _ => ?_)
  pc_other
  repeat pc_go

theorem exec_param_pathend (x : ExtRec) {l l' : L} (hl : LR l l') :
    PC CLR (exec .pathend x l) (exec .pathend x l') := by
  obtain ⟨pc, cp, ix, bt, er, er', rfl, rfl, he⟩ := hl.elim
  simp only [exec, exec.execIndex]
  split
  · repeat pc_go
  · refine PC.bind PC.pop (fun _ _ _ => ?_)
    refine PC.bind PC.pop (fun _ _ _ => ?_)
    refine PC.bind (PC.pathIntact _) (fun b b' hb => ?_); subst hb
    split
    · repeat pc_go
    · refine PC.bind PC.poppaths (fun r r' hr => ?_); subst hr
      refine PC.bind (PC.push (.refl _)) (fun _ _ _ => ?_)
      refine PC.bind PC.pathsPop (fun w w' hw => ?_)
      cases hw with
      | refl w =>
        split
        · pc_other
          repeat pc_go
        · exact PC.panic _
      | clo _ _ _ => exact PC.panic _
      | pv _ _ => exact PC.panic _

/-- Go's `==` does not see the closure index unless BOTH operands are closures -/
theorem goEq_VR {a a' b b' : V} (ha : VR a a') (hb : VR b b') (hna : ∀ pc i, a ≠ .clo pc i) :
    goEq a b = goEq a' b' := by
  cases ha with
  | refl a =>
    cases hb with
    | refl b => rfl
    | clo pc i j =>
      cases a with
      | jv v => cases v <;> first | rfl | (rename_i n; cases n <;> rfl)
      | clo p q => exact absurd rfl (hna p q)
      | _ => rfl
    | pv _ _ =>
      cases a with
      | jv v => cases v <;> first | rfl | (rename_i n; cases n <;> rfl)
      | _ => rfl
  | clo p q r => exact absurd rfl (hna p q)
  | pv _ _ =>
    cases hb with
    | refl b => cases b <;> rfl
    | clo pc i j => rfl
    | pv _ _ => rfl

theorem exec_param_forklabel (a b : Int) (x : ExtRec) {l l' : L} (hl : LR l l')
    (hE : ∀ n p i, l.err ≠ some (.brk n (.clo p i))) :
    PC CLR (exec (.forklabel a b) x l) (exec (.forklabel a b) x l') := by
  obtain ⟨pc, cp, ix, bt, er, er', rfl, rfl, he⟩ := hl.elim
  simp only [exec, exec.execIndex]
  split
  · refine PC.bind PC.pop (fun lab lab' hlab => ?_)
    cases er <;> cases er' <;> simp only [OR] at he
    · repeat pc_go
    · rename_i e e'
      cases he with
      | refl _ =>
        cases e with
        | brk n v =>
          dsimp only
          rw [goEq_VR (.refl v) hlab (fun p i h => hE n p i (by rw [h]))]
          repeat pc_go
        | _ => dsimp only; repeat pc_go
      | @brk n v v' hv =>
        have he2 : OR ER (some (.brk n v)) (some (.brk n v')) := ER.brk n hv
        dsimp only
        rw [goEq_VR hv hlab (fun p i h => hE n p i (by rw [h]))]
        repeat pc_go
      | value hv => exact PC.pure (clr_brk (LR.mk' (ER.value hv)))
      | halt hv => exact PC.pure (clr_brk (LR.mk' (ER.halt hv)))
      | tryEnd h => exact PC.pure (clr_brk (LR.mk' (ER.tryEnd h)))
  · refine PC.bind PC.getEnv (fun e1 e1' h1 => ?_)
    rw [h1.label]
    refine PC.bind (PC.pushforkOver (.refl _) _) (fun _ _ _ => ?_)
    refine PC.bind (PC.envIndex _ _) (fun k k' hk => ?_); subst hk
    refine PC.bind (PC.setValue _ (.refl _)) (fun _ _ _ => ?_)
    pc_other
    repeat pc_go

theorem exec_param_ret (x : ExtRec) {l l' : L} (hl : LR l l') : PC CLR (exec .ret x l) (exec .ret x l') := by
  obtain ⟨pc, cp, ix, bt, er, er', rfl, rfl, he⟩ := hl.elim
  simp only [exec, exec.execIndex]
  split
  · repeat pc_go
  · refine PC.bind PC.popscope (fun r r' hr => ?_); subst hr
    obtain ⟨rpc, rsi⟩ := r
    try dsimp only
    pc_other
    refine PC.bind PC.getEnv (fun e1 e1' h1 => ?_)
    rw [h1.scopes]
    split
    · refine PC.bind PC.pop (fun w w' hw => ?_)
      exact PC.pure ⟨hw, LR.mk' he⟩
    · repeat pc_go

theorem exec_param_scope (id vars n : Int) (x : ExtRec) {l l' : L} (hl : LR l l') :
    PC CLR (exec (.scope id vars n) x l) (exec (.scope id vars n) x l') := by
  obtain ⟨pc, cp, ix, bt, er, er', rfl, rfl, he⟩ := hl.elim
  simp only [exec, exec.execIndex]
  refine PC.bind PC.getEnv (fun e1 e1' h1 => ?_)
  rw [h1.scopes]
  refine PC.bind (R := Eq) ?_ (fun r r' hr => ?_)
  · split
    · split
      · exact PC.pure rfl
      · exact PC.popscope
    · exact PC.pure rfl
  subst hr
  obtain ⟨rcp, rsi⟩ := r
  try dsimp only
  refine PC.bind PC.getEnv (fun e2 e2' h2 => ?_)
  rw [h2.scopes]
  refine PC.bind (R := Eq) ?_ (fun o o' ho => ?_)
  · split
    · split
      · exact PC.panic _
      · exact PC.pure rfl
    · exact PC.pure rfl
  subst ho
  pc_other
  refine PC.bind PC.getEnv (fun e3 e3' h3 => ?_)
  rw [h3.offset, ← h3.values.1]
  split
  · refine PC.bind (PC.modify ?_) (fun _ _ _ => ?_)
    · intro e e' h
      have hn : (e'.offset * 2).toNat - e'.values.size = (e.offset * 2).toNat - e.values.size := by
        rw [h.offset, h.values.1]
      try dsimp only
      rw [hn]
      exact h.mk_values (h.values.append_replicate _ (.refl _))
    · repeat pc_go
  · repeat pc_go

theorem exec_param_iter (x : ExtRec) {l l' : L} (hl : LR l l') : PC CLR (exec .iter x l) (exec .iter x l') := by
  obtain ⟨pc, cp, ix, bt, er, er', rfl, rfl, he⟩ := hl.elim
  simp only [exec, exec.execIndex]
  cases er <;> cases er' <;> simp only [OR] at he <;>
    simp only [Option.isSome, Bool.false_eq_true, if_false, if_true]
  · refine PC.bind PC.pop (fun w w' hw => ?_)
    cases hw with
    | refl w => repeat pc_go
    | clo _ _ _ => dsimp only; repeat pc_go
    | pv _ _ => dsimp only; repeat pc_go
  · repeat pc_go

theorem exec_param_callNative (kind : NativeKind) (argc : Int) (x : ExtRec) {l l' : L} (hl : LR l l') :
    PC CLR (exec (.callNative kind argc) x l) (exec (.callNative kind argc) x l') := by
  obtain ⟨pc, cp, ix, bt, er, er', rfl, rfl, he⟩ := hl.elim
  simp only [exec, exec.execIndex]
  split
  · repeat pc_go
  · refine PC.bind PC.pop (fun _ _ _ => ?_)
    split
    · exact PC.panic _
    · refine PC.bind (PC.popArgs _) (fun args args' hargs => ?_)
      refine PC.bind (PC.extCall _) (fun r r' hr => ?_); subst hr
      split
      · exact PC.stuck _
      · repeat pc_go
      · refine PC.bind (PC.push (.refl _)) (fun _ _ _ => ?_)
        refine PC.bind PC.tracking (fun b b' hb => ?_); subst hb
        split
        · cases kind
          · cases hargs with
            | nil => exact PC.panic _
            | cons h1 hrest =>
              dsimp only
              refine PC.bind (PC.pathIntact _) (fun b b' hb => ?_); subst hb
              split
              · repeat pc_go
              · cases hrest with
                | nil => exact PC.panic _
                | cons h2 _ =>
                  exact PC.bind (PC.pathsPush (.pv h2 (.refl _))) (fun _ _ _ => PC.pure (clr_fall (LR.mk' he)))
          · cases hargs with
            | nil => exact PC.panic _
            | cons h1 hrest =>
              dsimp only
              refine PC.bind (PC.pathIntact _) (fun b b' hb => ?_); subst hb
              split
              · repeat pc_go
              · cases hrest with
                | nil => exact PC.panic _
                | cons h2 hr2 =>
                  cases hr2 with
                  | nil => exact PC.panic _
                  | cons h3 _ =>
                    dsimp only
                    refine PC.bind (PC.asJV h2) (fun j j' hj => ?_); subst hj
                    refine PC.bind (PC.asJV h3) (fun j j' hj => ?_); subst hj
                    repeat pc_go
          · refine PC.bind (PC.pathIntact _) (fun b b' hb => ?_); subst hb
            split
            · repeat pc_go
            · cases hargs with
              | nil => exact PC.panic _
              | @cons a a' as as' h1 _ =>
                cases h1 with
                | refl _ =>
                  cases a with
                  | jv j => cases j <;> dsimp only <;> repeat pc_go
                  | _ => dsimp only; repeat pc_go
                | clo _ _ _ => exact PC.panic _
                | pv _ _ => exact PC.panic _
          · repeat pc_go
        · repeat pc_go

end Gojq.CloParam

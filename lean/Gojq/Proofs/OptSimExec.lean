/-
  Congruence of `exec` (one instruction of the loop of `Next`) with respect to `EnvRel`, opcode by
  opcode, and of the control skeleton around it (`stepE`): two runs of the SAME instruction from
  related environments stay related.  For arbitrary code.
-/
import Gojq.Proofs.OptSimCong
set_option linter.unusedSimpArgs false
set_option linter.unusedVariables false
namespace Gojq.OptVM
open Gojq Gojq.VM

theorem Cong.objectLoop (x : ExtRec) : ∀ (n : Nat) (m : List (Bytes × JV)), Cong (objectLoop x n m) := by
  intro n
  induction n with
  | zero => intro m; unfold VM.objectLoop; exact Cong.pure _
  | succ n ih =>
    intro m
    unfold VM.objectLoop
    refine Cong.bind Cong.pop (fun v => ?_)
    refine Cong.bind Cong.pop (fun k => ?_)
    split
    · exact Cong.bind (Cong.frame (Frame.asJV _)) (fun j => ih _)
    · exact Cong.pure _

theorem Cong.popArgs : ∀ (n : Nat), Cong (popArgs n) := by
  intro n
  induction n with
  | zero => unfold VM.popArgs; exact Cong.pure _
  | succ n ih =>
    unfold VM.popArgs
    exact Cong.bind Cong.pop (fun a => Cong.bind ih (fun r => Cong.pure _))

theorem Cong.pushforkOver (v : V) (pc : Int) : Cong (pushforkOver v pc) := by
  unfold VM.pushforkOver
  exact Cong.bind (Cong.push v) (fun _ => Cong.bind (Cong.pushfork pc) (fun _ => Cong.bind Cong.pop (fun _ => Cong.pure _)))

theorem Cong.modify (f : Env → Env)
    (hf : ∀ (e : Env) (st : Stack V) (fk : List Fork),
      f { e with stack := st, forks := fk } = { f e with stack := st, forks := fk }) :
    Cong (modifyEnv f) := Cong.frame (Frame.modify f hf)

/-- the primitives; unification at reducible transparency so that a mismatch fails at once -/
macro "cg_prim" : tactic => `(tactic| with_reducible first
  | exact Cong.pure _ | exact Cong.push _ | exact Cong.pop | exact Cong.stackTop | exact Cong.pushfork _
  | exact Cong.pushforkOver _ _ | exact Cong.objectLoop _ _ _ | exact Cong.popArgs _
  | exact Cong.frame (Frame.pathsPush _) | exact Cong.frame Frame.pathsPop | exact Cong.frame Frame.pathsTop
  | exact Cong.frame (Frame.envIndex _ _) | exact Cong.frame (Frame.getValue _)
  | exact Cong.frame (Frame.setValue _ _) | exact Cong.frame Frame.popscope
  | exact Cong.frame (Frame.extCall _) | exact Cong.frame Frame.tracking | exact Cong.frame (Frame.asJV _)
  | exact Cong.frame (Frame.pathIntact _) | exact Cong.frame Frame.poppaths
  | exact Cong.frame (Frame.pushPaths _ _)
  | exact Cong.panic _ | exact Cong.stuck _)

macro "cg_exec" : tactic => `(tactic| repeat' (first
  | cg_prim
  | (with_reducible refine Cong.modify _ ?_
     intro _ _ _; rfl)
  | (with_reducible refine Cong.getEnv_bind _ ?_ (fun _ => ?_)
     · intro _ _ _; rfl)
  | with_reducible refine Cong.bind ?_ (fun _ => ?_)
  | split))

theorem exec_cong_nop (x : ExtRec) (l : L) : Cong (exec Instr.nop x l) := by
  simp only [exec, exec.execIndex, iterEmit, iterInvalid, pathBroken]
  cg_exec

theorem exec_cong_push (v : JV) (x : ExtRec) (l : L) : Cong (exec (Instr.push v) x l) := by
  simp only [exec, exec.execIndex, iterEmit, iterInvalid, pathBroken]
  cg_exec

theorem exec_cong_pop (x : ExtRec) (l : L) : Cong (exec Instr.pop x l) := by
  simp only [exec, exec.execIndex, iterEmit, iterInvalid, pathBroken]
  cg_exec

theorem exec_cong_dup (x : ExtRec) (l : L) : Cong (exec Instr.dup x l) := by
  simp only [exec, exec.execIndex, iterEmit, iterInvalid, pathBroken]
  cg_exec

theorem exec_cong_const (v : JV) (x : ExtRec) (l : L) : Cong (exec (Instr.const v) x l) := by
  simp only [exec, exec.execIndex, iterEmit, iterInvalid, pathBroken]
  cg_exec

theorem exec_cong_load (a : Int) (b : Int) (x : ExtRec) (l : L) : Cong (exec (Instr.load a b) x l) := by
  simp only [exec, exec.execIndex, iterEmit, iterInvalid, pathBroken]
  cg_exec

theorem exec_cong_store (a : Int) (b : Int) (x : ExtRec) (l : L) : Cong (exec (Instr.store a b) x l) := by
  simp only [exec, exec.execIndex, iterEmit, iterInvalid, pathBroken]
  cg_exec

theorem exec_cong_object (n : Int) (x : ExtRec) (l : L) : Cong (exec (Instr.object n) x l) := by
  simp only [exec, exec.execIndex, iterEmit, iterInvalid, pathBroken]
  cg_exec

theorem exec_cong_append (a : Int) (b : Int) (x : ExtRec) (l : L) : Cong (exec (Instr.append a b) x l) := by
  simp only [exec, exec.execIndex, iterEmit, iterInvalid, pathBroken]
  cg_exec

theorem exec_cong_fork (t : Int) (x : ExtRec) (l : L) : Cong (exec (Instr.fork t) x l) := by
  simp only [exec, exec.execIndex, iterEmit, iterInvalid, pathBroken]
  cg_exec

theorem exec_cong_forktrybegin (t : Int) (x : ExtRec) (l : L) : Cong (exec (Instr.forktrybegin t) x l) := by
  simp only [exec, exec.execIndex, iterEmit, iterInvalid, pathBroken]
  cg_exec

theorem exec_cong_forktryend (x : ExtRec) (l : L) : Cong (exec Instr.forktryend x l) := by
  simp only [exec, exec.execIndex, iterEmit, iterInvalid, pathBroken]
  cg_exec

theorem exec_cong_forkalt (t : Int) (x : ExtRec) (l : L) : Cong (exec (Instr.forkalt t) x l) := by
  simp only [exec, exec.execIndex, iterEmit, iterInvalid, pathBroken]
  cg_exec

theorem exec_cong_forklabel (a : Int) (b : Int) (x : ExtRec) (l : L) : Cong (exec (Instr.forklabel a b) x l) := by
  simp only [exec, exec.execIndex, iterEmit, iterInvalid, pathBroken]
  cg_exec

theorem exec_cong_backtrack (x : ExtRec) (l : L) : Cong (exec Instr.backtrack x l) := by
  simp only [exec, exec.execIndex, iterEmit, iterInvalid, pathBroken]
  cg_exec

theorem exec_cong_jump (t : Int) (x : ExtRec) (l : L) : Cong (exec (Instr.jump t) x l) := by
  simp only [exec, exec.execIndex, iterEmit, iterInvalid, pathBroken]
  cg_exec

theorem exec_cong_jumpifnot (t : Int) (x : ExtRec) (l : L) : Cong (exec (Instr.jumpifnot t) x l) := by
  simp only [exec, exec.execIndex, iterEmit, iterInvalid, pathBroken]
  cg_exec

theorem exec_cong_index (k : JV) (x : ExtRec) (l : L) : Cong (exec (Instr.index k) x l) := by
  simp only [exec, exec.execIndex, iterEmit, iterInvalid, pathBroken]
  cg_exec

theorem exec_cong_indexarray (k : JV) (x : ExtRec) (l : L) : Cong (exec (Instr.indexarray k) x l) := by
  simp only [exec, exec.execIndex, iterEmit, iterInvalid, pathBroken]
  cg_exec

theorem exec_cong_call (t : Int) (x : ExtRec) (l : L) : Cong (exec (Instr.call t) x l) := by
  simp only [exec, exec.execIndex, iterEmit, iterInvalid, pathBroken]
  cg_exec

theorem exec_cong_callNative (kd : NativeKind) (n : Int) (x : ExtRec) (l : L) : Cong (exec (Instr.callNative kd n) x l) := by
  simp only [exec, exec.execIndex, iterEmit, iterInvalid, pathBroken]
  cg_exec

theorem exec_cong_callrec (t : Int) (x : ExtRec) (l : L) : Cong (exec (Instr.callrec t) x l) := by
  simp only [exec, exec.execIndex, iterEmit, iterInvalid, pathBroken]
  cg_exec

theorem exec_cong_pushpc (t : Int) (x : ExtRec) (l : L) : Cong (exec (Instr.pushpc t) x l) := by
  simp only [exec, exec.execIndex, iterEmit, iterInvalid, pathBroken]
  cg_exec

theorem exec_cong_callpc (x : ExtRec) (l : L) : Cong (exec Instr.callpc x l) := by
  simp only [exec, exec.execIndex, iterEmit, iterInvalid, pathBroken]
  cg_exec

theorem exec_cong_scope (a : Int) (b : Int) (c : Int) (x : ExtRec) (l : L) : Cong (exec (Instr.scope a b c) x l) := by
  simp only [exec, exec.execIndex, iterEmit, iterInvalid, pathBroken]
  cg_exec

theorem exec_cong_ret (x : ExtRec) (l : L) : Cong (exec Instr.ret x l) := by
  simp only [exec, exec.execIndex, iterEmit, iterInvalid, pathBroken]
  cg_exec

theorem exec_cong_iter (x : ExtRec) (l : L) : Cong (exec Instr.iter x l) := by
  simp only [exec, exec.execIndex, iterEmit, iterInvalid, pathBroken]
  cg_exec

theorem exec_cong_expbegin (x : ExtRec) (l : L) : Cong (exec Instr.expbegin x l) := by
  simp only [exec, exec.execIndex, iterEmit, iterInvalid, pathBroken]
  cg_exec

theorem exec_cong_expend (x : ExtRec) (l : L) : Cong (exec Instr.expend x l) := by
  simp only [exec, exec.execIndex, iterEmit, iterInvalid, pathBroken]
  cg_exec

theorem exec_cong_pathbegin (x : ExtRec) (l : L) : Cong (exec Instr.pathbegin x l) := by
  simp only [exec, exec.execIndex, iterEmit, iterInvalid, pathBroken]
  cg_exec

theorem exec_cong_pathend (x : ExtRec) (l : L) : Cong (exec Instr.pathend x l) := by
  simp only [exec, exec.execIndex, iterEmit, iterInvalid, pathBroken]
  cg_exec

theorem exec_cong_bad (x : ExtRec) (l : L) : Cong (exec Instr.bad x l) := by
  simp only [exec, exec.execIndex, iterEmit, iterInvalid, pathBroken]
  cg_exec

/-- every opcode respects `EnvRel` -/
theorem exec_cong (ins : Instr) (x : ExtRec) (l : L) : Cong (exec ins x l) := by
  cases ins with
  | nop => exact exec_cong_nop  x l
  | push v => exact exec_cong_push v x l
  | pop => exact exec_cong_pop  x l
  | dup => exact exec_cong_dup  x l
  | const v => exact exec_cong_const v x l
  | load a b => exact exec_cong_load a b x l
  | store a b => exact exec_cong_store a b x l
  | object n => exact exec_cong_object n x l
  | append a b => exact exec_cong_append a b x l
  | fork t => exact exec_cong_fork t x l
  | forktrybegin t => exact exec_cong_forktrybegin t x l
  | forktryend => exact exec_cong_forktryend  x l
  | forkalt t => exact exec_cong_forkalt t x l
  | forklabel a b => exact exec_cong_forklabel a b x l
  | backtrack => exact exec_cong_backtrack  x l
  | jump t => exact exec_cong_jump t x l
  | jumpifnot t => exact exec_cong_jumpifnot t x l
  | index k => exact exec_cong_index k x l
  | indexarray k => exact exec_cong_indexarray k x l
  | call t => exact exec_cong_call t x l
  | callNative kd n => exact exec_cong_callNative kd n x l
  | callrec t => exact exec_cong_callrec t x l
  | pushpc t => exact exec_cong_pushpc t x l
  | callpc => exact exec_cong_callpc  x l
  | scope a b c => exact exec_cong_scope a b c x l
  | ret => exact exec_cong_ret  x l
  | iter => exact exec_cong_iter  x l
  | expbegin => exact exec_cong_expbegin  x l
  | expend => exact exec_cong_expend  x l
  | pathbegin => exact exec_cong_pathbegin  x l
  | pathend => exact exec_cong_pathend  x l
  | bad => exact exec_cong_bad  x l

/-! ## the control skeleton -/

/-- related turns: both continue with the same locals, or both end the call with the same outcome;
    the environments are related -/
def StepRel : StepE → StepE → Prop
  | .cont l e, .cont l' e' => l = l' ∧ EnvRel e e'
  | .fin o e, .fin o' e' => o = o' ∧ EnvRel e e'
  | _, _ => False

theorem EnvRel.saveE {e e' : Env} (h : EnvRel e e') (pc : Int) : EnvRel (saveE e pc) (saveE e' pc) := by
  obtain ⟨st, fk, rfl, hs⟩ := h.elim
  exact EnvRel.mk' (e := OptVM.saveE e pc) hs

theorem unwindE_cong (size : Nat) (l : L) {e e' : Env} (h : EnvRel e e') :
    StepRel (unwindE size l e) (unwindE size l e') := by
  obtain ⟨st, fk, rfl, hs⟩ := h.elim
  unfold unwindE
  cases hfa : e.forks with
  | nil =>
    cases fk with
    | nil =>
      simp only
      cases l.err with
      | none => exact ⟨rfl, EnvRel.saveE ⟨rfl, hs⟩ _⟩
      | some er => exact ⟨rfl, EnvRel.saveE ⟨rfl, hs⟩ _⟩
    | cons g gs => have := hs.forks; rw [hfa] at this; exact this.elim
  | cons f fs =>
    cases fk with
    | nil => have := hs.forks; rw [hfa] at this; exact this.elim
    | cons g gs =>
      rw [hfa] at hs
      obtain ⟨hc, hr⟩ := hs.restore
      obtain ⟨c1, c2, c3, c4, c5, c6, c7⟩ := hc
      simp only [popfork]
      refine ⟨by rw [c1], ?_⟩
      rw [← c2, ← c3, ← c4, ← c5, ← c6, ← c7]
      exact EnvRel.mk' (e := (popfork f fs e).1) hr

/-- one turn of the SAME code from related environments -/
theorem stepE_cong (c : Array Instr) (x : ExtRec) (l : L) {e e' : Env} (h : EnvRel e e') :
    StepRel (stepE c x l e) (stepE c x l e') := by
  unfold stepE
  split
  · split
    · exact ⟨rfl, h.saveE _⟩
    · have hx := exec_cong (c.getD l.pc.toNat .bad) x l e e' h
      cases h1 : exec (c.getD l.pc.toNat .bad) x l e with
      | panic s =>
        cases h2 : exec (c.getD l.pc.toNat .bad) x l e' with
        | panic s' => rw [h1, h2] at hx; exact ⟨by rw [show s = s' from hx], h.saveE _⟩
        | ok r e1 => rw [h1, h2] at hx; exact hx.elim
        | stuck w => rw [h1, h2] at hx; exact hx.elim
      | stuck w =>
        cases h2 : exec (c.getD l.pc.toNat .bad) x l e' with
        | stuck w' => rw [h1, h2] at hx; exact ⟨by rw [show w = w' from hx], h.saveE _⟩
        | ok r e1 => rw [h1, h2] at hx; exact hx.elim
        | panic s => rw [h1, h2] at hx; exact hx.elim
      | ok r e1 =>
        cases h2 : exec (c.getD l.pc.toNat .bad) x l e' with
        | panic s => rw [h1, h2] at hx; exact hx.elim
        | stuck w => rw [h1, h2] at hx; exact hx.elim
        | ok r' e1' =>
          rw [h1, h2] at hx
          obtain ⟨rfl, hr⟩ := hx
          obtain ⟨ctl, l'⟩ := r
          cases ctl with
          | fall => exact ⟨rfl, hr⟩
          | jump => exact ⟨rfl, hr⟩
          | ret v => exact ⟨rfl, hr.saveE _⟩
          | brk => exact unwindE_cong _ _ hr
  · exact unwindE_cong _ _ h

end Gojq.OptVM

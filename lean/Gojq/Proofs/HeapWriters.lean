/-
  Helper lemmas for the writers (`Gojq/Model/HeapWriters.lean`): the shape "allocates fresh cells, writes
  only into them, returns fresh cells and parts of its arguments" (`FreshWriter`), that it implies
  confinement, and that each native's model has the shape.  Core Lean only.
-/
import Gojq.Model.HeapWriters
import Gojq.Model.Conc
import Gojq.Proofs.HeapSlice
namespace Gojq.Heap
open Gojq

/-- the labels of the arguments -/
def argIds (args : List T) : List Nat := (args.map T.ids).flatten

/-- a result state of a writer that started at counter `f0` with argument labels `L`: the counter only
    grew, every write went to a cell allocated since `f0`, the labels of the result are argument labels
    or were allocated since `f0` -/
structure WGood (L : List Nat) (f0 : Nat) (t : T) (f : Nat) (log : Log) : Prop where
  hf : f0 ≤ f
  hlog : ∀ e ∈ log, f0 ≤ e.1 ∧ e.1 < f
  hids : ∀ j ∈ t.ids, j ∈ L ∨ (f0 ≤ j ∧ j < f)

/-- **the shape**: whenever the writer returns a value, it allocated fresh cells (the counter grew),
    wrote only into them, and its result consists of fresh cells and parts of its arguments -/
def FreshWriter (w : Writer) : Prop :=
  ∀ args f t f' log, w args f = .ok t f' log → WGood (argIds args) f t f' log

/-! ### the building blocks -/

theorem mem_argIds {args : List T} {a : T} (ha : a ∈ args) {j : Nat} (hj : j ∈ a.ids) : j ∈ argIds args := by
  simp only [argIds, List.mem_flatten, List.mem_map]
  exact ⟨a.ids, ⟨a, ha, rfl⟩, hj⟩

theorem WGood.mono {L f0 t f log} (g : WGood L f0 t f log) {f'} (h : f ≤ f') : ∀ e ∈ log, f0 ≤ e.1 ∧ e.1 < f' :=
  fun e he => ⟨(g.hlog e he).1, by have := (g.hlog e he).2; omega⟩

theorem allocArr_good (L : List Nat) (f0 : Nat) (ks : Kids) (f : Nat) (log : Log)
    (hf : f0 ≤ f) (hlog : ∀ e ∈ log, f0 ≤ e.1 ∧ e.1 < f) (hks : ∀ j ∈ idsK ks, j ∈ L ∨ (f0 ≤ j ∧ j < f)) :
    WGood L f0 (allocArr ks f log).1 (allocArr ks f log).2.1 (allocArr ks f log).2.2 := by
  refine ⟨Nat.le_succ_of_le hf, ?_, ?_⟩
  · intro e he
    simp only [allocArr, List.mem_append, List.mem_singleton] at he
    rcases he with he | rfl
    · exact ⟨(hlog e he).1, Nat.lt_succ_of_lt (hlog e he).2⟩
    · exact ⟨hf, Nat.lt_succ_self _⟩
  · intro j hj
    simp only [allocArr, T.ids, List.mem_cons] at hj
    rcases hj with rfl | hj
    · exact Or.inr ⟨hf, Nat.lt_succ_self _⟩
    · rcases hks j hj with h | h
      · exact Or.inl h
      · exact Or.inr ⟨h.1, Nat.lt_succ_of_lt h.2⟩

theorem allocObj_good (L : List Nat) (f0 : Nat) (ks : Kids) (f : Nat) (log : Log)
    (hf : f0 ≤ f) (hlog : ∀ e ∈ log, f0 ≤ e.1 ∧ e.1 < f) (hks : ∀ j ∈ idsK ks, j ∈ L ∨ (f0 ≤ j ∧ j < f)) :
    WGood L f0 (allocObj ks f log).1 (allocObj ks f log).2.1 (allocObj ks f log).2.2 := by
  refine ⟨Nat.le_succ_of_le hf, ?_, ?_⟩
  · intro e he
    simp only [allocObj, List.mem_append, List.mem_singleton] at he
    rcases he with he | rfl
    · exact ⟨(hlog e he).1, Nat.lt_succ_of_lt (hlog e he).2⟩
    · exact ⟨hf, Nat.lt_succ_self _⟩
  · intro j hj
    simp only [allocObj, T.ids, List.mem_cons] at hj
    rcases hj with rfl | hj
    · exact Or.inr ⟨hf, Nat.lt_succ_self _⟩
    · rcases hks j hj with h | h
      · exact Or.inl h
      · exact Or.inr ⟨h.1, Nat.lt_succ_of_lt h.2⟩

theorem emptyLit_good (L : List Nat) (f0 : Nat) (f : Nat) (log : Log)
    (hf : f0 ≤ f) (hlog : ∀ e ∈ log, f0 ≤ e.1 ∧ e.1 < f) :
    WGood L f0 (emptyLit f log).1 (emptyLit f log).2.1 (emptyLit f log).2.2 := by
  refine ⟨Nat.le_succ_of_le hf, fun e he => ⟨(hlog e he).1, Nat.lt_succ_of_lt (hlog e he).2⟩, ?_⟩
  intro j hj
  simp only [emptyLit, T.ids, idsK, List.mem_cons, List.not_mem_nil, or_false] at hj
  subst hj
  exact Or.inr ⟨hf, Nat.lt_succ_self _⟩

theorem arrOrEmpty_good (L : List Nat) (f0 : Nat) (ks : Kids) (f : Nat) (log : Log)
    (hf : f0 ≤ f) (hlog : ∀ e ∈ log, f0 ≤ e.1 ∧ e.1 < f) (hks : ∀ j ∈ idsK ks, j ∈ L ∨ (f0 ≤ j ∧ j < f)) :
    WGood L f0 (arrOrEmpty ks f log).1 (arrOrEmpty ks f log).2.1 (arrOrEmpty ks f log).2.2 := by
  unfold arrOrEmpty
  split
  · exact emptyLit_good L f0 f log hf hlog
  · exact allocArr_good L f0 ks f log hf hlog hks

/-- labels of a rearrangement: every element is an element of `ks` or holds no label -/
theorem idsK_sub_of_mem (ks ks' : Kids) (h : ∀ x ∈ ks', ∀ j ∈ x.2.ids, j ∈ idsK ks) : ∀ j ∈ idsK ks', j ∈ idsK ks := by
  induction ks' with
  | nil => intro j hj; simp [idsK] at hj
  | cons y ys ih =>
    obtain ⟨k, t⟩ := y
    intro j hj
    simp only [idsK, List.mem_append] at hj
    rcases hj with hj | hj
    · exact h (k, t) (by simp) j hj
    · exact ih (fun x hx => h x (by simp [hx])) j hj

theorem splitKey_sub (k : Bytes) (ks : Kids) :
    (∀ j ∈ idsK (splitKey k ks).1, j ∈ idsK ks) ∧ (∀ j ∈ idsK (splitKey k ks).2.2, j ∈ idsK ks) := by
  have := splitKey_ids k ks
  constructor
  · intro j hj; rw [this]; simp [hj]
  · intro j hj; rw [this]; simp [hj]

theorem kidsInsert_ids (k : Bytes) (t : T) (ks : Kids) : ∀ j ∈ idsK (kidsInsert k t ks), j ∈ t.ids ∨ j ∈ idsK ks := by
  intro j hj
  simp only [kidsInsert, idsK_append, idsK, List.mem_append] at hj
  rcases hj with hj | hj | hj
  · exact Or.inr ((splitKey_sub k ks).1 j hj)
  · exact Or.inl hj
  · exact Or.inr ((splitKey_sub k ks).2 j hj)

theorem kidsMerge_ids : ∀ (src dst : Kids), ∀ j ∈ idsK (kidsMerge dst src), j ∈ idsK dst ∨ j ∈ idsK src := by
  intro src
  induction src with
  | nil => intro dst j hj; exact Or.inl hj
  | cons y ys ih =>
    obtain ⟨k, t⟩ := y
    intro dst j hj
    simp only [kidsMerge, List.foldl_cons] at hj
    rcases ih (kidsInsert k t dst) j hj with h | h
    · rcases kidsInsert_ids k t dst j h with h' | h'
      · exact Or.inr (by simp [idsK, h'])
      · exact Or.inl h'
    · exact Or.inr (by simp [idsK, h])

/-- `append`: when the accumulator is a cell allocated since `f0`, or has no room (then it is not
    written), the state stays good and the accumulator is again a cell allocated since `f0` or is unchanged -/
theorem appendTo_good (L : List Nat) (f0 : Nat) (id c : Nat) (ks xs : Kids) (f : Nat) (log : Log)
    (hf : f0 ≤ f) (hlog : ∀ e ∈ log, f0 ≤ e.1 ∧ e.1 < f)
    (hacc : (f0 ≤ id ∧ id < f) ∨ c ≤ ks.length)
    (hks : ∀ j ∈ idsK ks, j ∈ L ∨ (f0 ≤ j ∧ j < f)) (hxs : ∀ j ∈ idsK xs, j ∈ L ∨ (f0 ≤ j ∧ j < f)) :
    let a := appendTo (.node id false c ks) xs f log
    f ≤ a.2.1 ∧ (∀ e ∈ a.2.2, f0 ≤ e.1 ∧ e.1 < a.2.1) ∧
    ∃ id' c' ks', a.1 = .node id' false c' ks' ∧ (∀ j ∈ idsK ks', j ∈ L ∨ (f0 ≤ j ∧ j < a.2.1)) ∧
      ((id' = id ∧ ((f0 ≤ id ∧ id < f) ∨ (c' = c ∧ ks' = ks))) ∨ (f0 ≤ id' ∧ id' < a.2.1)) := by
  simp only [appendTo]
  have hall : ∀ j ∈ idsK (ks ++ xs), j ∈ L ∨ (f0 ≤ j ∧ j < f) := by
    intro j hj
    simp only [idsK_append, List.mem_append] at hj
    rcases hj with h | h
    · exact hks j h
    · exact hxs j h
  split
  · exact ⟨Nat.le_refl _, hlog, id, c, ks, rfl, hks, Or.inl ⟨rfl, Or.inr ⟨rfl, rfl⟩⟩⟩
  · rename_i hne
    split
    · rename_i hfit
      have hid : f0 ≤ id ∧ id < f := by
        rcases hacc with h | h
        · exact h
        · exfalso
          have : xs.length = 0 := by omega
          exact hne (by simpa using this)
      refine ⟨Nat.le_refl _, ?_, id, c, ks ++ xs, rfl, hall, Or.inl ⟨rfl, Or.inl hid⟩⟩
      intro e he
      simp only [List.mem_append, List.mem_singleton] at he
      rcases he with he | rfl
      · exact hlog e he
      · exact hid
    · refine ⟨Nat.le_succ _, ?_, f, _, ks ++ xs, rfl, ?_, Or.inr ⟨hf, Nat.lt_succ_self _⟩⟩
      · intro e he
        simp only [List.mem_append, List.mem_singleton] at he
        rcases he with he | rfl
        · exact ⟨(hlog e he).1, Nat.lt_succ_of_lt (hlog e he).2⟩
        · exact ⟨hf, Nat.lt_succ_self _⟩
      · intro j hj
        rcases hall j hj with h | h
        · exact Or.inl h
        · exact Or.inr ⟨h.1, Nat.lt_succ_of_lt h.2⟩

/-! ### confinement follows from the shape -/

theorem lastWrite_none (log : Log) (a : Nat) (h : ∀ e ∈ log, e.1 ≠ a) : lastWrite log a = none := by
  unfold lastWrite
  suffices ∀ acc : Option Kids, acc = none →
      log.foldl (fun acc e => if e.1 = a then some e.2 else acc) acc = none from this none rfl
  induction log with
  | nil => intro acc h; exact h
  | cons e es ih =>
    intro acc hacc
    simp only [List.foldl_cons]
    apply ih (fun e' he' => h e' (List.mem_cons_of_mem _ he'))
    have := h e (by simp)
    simp [this, hacc]

/-- the effect of a log on a heap given as a function from labels to cell contents -/
def writeH (log : Log) (h : Nat → Option Kids) : Nat → Option Kids :=
  fun a => match lastWrite log a with
    | some ks => some ks
    | none => h a

/-- one call of a writer as a step of a run (C06, `Conc.Sys`): the run owns the labels from `f` on -/
def writerSys (w : Writer) (args : List T) (f : Nat) : Conc.Sys Unit (Option Kids) where
  own := fun _ a => f ≤ a
  step := fun _ s h => (s, match w args f with
    | .ok _ _ log => writeH log h
    | _ => h)

/-! ### each native has the shape -/

theorem wOpAdd_fresh : FreshWriter wOpAdd := by
  intro args f t f' log h
  unfold wOpAdd at h
  split at h
  · rename_i l r
    have hl : ∀ j ∈ l.ids, j ∈ argIds [l, r] := fun j hj => mem_argIds (a := l) (by simp) hj
    have hr : ∀ j ∈ r.ids, j ∈ argIds [l, r] := fun j hj => mem_argIds (a := r) (by simp) hj
    have ret : ∀ x : T, (∀ j ∈ x.ids, j ∈ argIds [l, r]) → WRes.ok x f [] = WRes.ok t f' log →
        WGood (argIds [l, r]) f t f' log := by
      intro x hx he
      injection he with h1 h2 h3
      subst h1 h2 h3
      exact ⟨Nat.le_refl _, by simp, fun j hj => Or.inl (hx j hj)⟩
    split at h
    · rename_i lk _ _ rk
      split at h
      · exact ret _ hr h
      · split at h
        · exact ret _ hl h
        · simp only [] at h
          injection h with h1 h2 h3
          subst h1 h2 h3
          apply allocArr_good _ f _ f [] (Nat.le_refl _) (by simp)
          intro j hj
          simp only [idsK_append, List.mem_append] at hj
          rcases hj with hj | hj
          · exact Or.inl (hl j (by simp [T.ids, hj]))
          · exact Or.inl (hr j (by simp [T.ids, hj]))
    · rename_i lk _ _ rk
      split at h
      · exact ret _ hr h
      · split at h
        · exact ret _ hl h
        · simp only [] at h
          injection h with h1 h2 h3
          subst h1 h2 h3
          apply allocObj_good _ f _ f [] (Nat.le_refl _) (by simp)
          intro j hj
          rcases kidsMerge_ids rk lk j hj with hj | hj
          · exact Or.inl (hl j (by simp [T.ids, hj]))
          · exact Or.inl (hr j (by simp [T.ids, hj]))
    · exact ret _ hr h
    · exact ret _ hl h
    · cases h
    · cases h
  · cases h

/-- the accumulator of `add` is `nil` or a cell allocated by this call -/
def AccGood (L : List Nat) (f0 : Nat) (acc : Acc) (f : Nat) : Prop :=
  match acc with
  | .none => True
  | .cell t => ∃ id o c ks, t = .node id o c ks ∧ f0 ≤ id ∧ id < f ∧ ∀ j ∈ idsK ks, j ∈ L ∨ (f0 ≤ j ∧ j < f)

theorem addElem_good (L : List Nat) (f0 : Nat) (acc : Acc) (x : T) (f : Nat) (log : Log) (acc' : Acc) (f' : Nat) (log' : Log)
    (h : addElem acc x f log = some (acc', f', log'))
    (hf : f0 ≤ f) (hlog : ∀ e ∈ log, f0 ≤ e.1 ∧ e.1 < f) (hacc : AccGood L f0 acc f) (hx : ∀ j ∈ x.ids, j ∈ L) :
    f0 ≤ f' ∧ (∀ e ∈ log', f0 ≤ e.1 ∧ e.1 < f') ∧ AccGood L f0 acc' f' := by
  unfold addElem at h
  split at h
  · simp only [Option.some.injEq, Prod.mk.injEq] at h
    obtain ⟨rfl, rfl, rfl⟩ := h
    exact ⟨hf, hlog, hacc⟩
  · rename_i xid xc xk
    have hxk : ∀ j ∈ idsK xk, j ∈ L ∨ (f0 ≤ j ∧ j < f) := fun j hj => Or.inl (hx j (by simp [T.ids, hj]))
    split at h
    · simp only [Option.some.injEq, Prod.mk.injEq] at h
      obtain ⟨rfl, rfl, rfl⟩ := h
      have g := allocArr_good L f0 xk f log hf hlog hxk
      refine ⟨g.hf, g.hlog, f, false, xk.length, xk, rfl, hf, Nat.lt_succ_self _, ?_⟩
      intro j hj
      rcases hxk j hj with h | h
      · exact Or.inl h
      · exact Or.inr ⟨h.1, Nat.lt_succ_of_lt h.2⟩
    · rename_i id c ks
      simp only [Option.some.injEq, Prod.mk.injEq] at h
      obtain ⟨rfl, rfl, rfl⟩ := h
      obtain ⟨id0, o0, c0, ks0, heq, h1, h2, h3⟩ := hacc
      injection heq with e1 e2 e3 e4
      subst e1 e2 e3 e4
      obtain ⟨g1, g2, id', c', ks', g3, g4, g5⟩ := appendTo_good L f0 id c ks xk f log hf hlog (Or.inl ⟨h1, h2⟩) h3 hxk
      refine ⟨Nat.le_trans hf g1, g2, ?_⟩
      rw [g3]
      refine ⟨id', false, c', ks', rfl, ?_, ?_, g4⟩
      · rcases g5 with ⟨rfl, _⟩ | g5
        · exact h1
        · exact g5.1
      · rcases g5 with ⟨rfl, _⟩ | g5
        · omega
        · exact g5.2
    · cases h
  · rename_i xid xc xk
    have hxk : ∀ j ∈ idsK xk, j ∈ L ∨ (f0 ≤ j ∧ j < f) := fun j hj => Or.inl (hx j (by simp [T.ids, hj]))
    split at h
    · simp only [Option.some.injEq, Prod.mk.injEq] at h
      obtain ⟨rfl, rfl, rfl⟩ := h
      have g := allocObj_good L f0 xk f log hf hlog hxk
      refine ⟨g.hf, g.hlog, f, true, 0, xk, rfl, hf, Nat.lt_succ_self _, ?_⟩
      intro j hj
      rcases hxk j hj with h | h
      · exact Or.inl h
      · exact Or.inr ⟨h.1, Nat.lt_succ_of_lt h.2⟩
    · rename_i id c ks
      simp only [Option.some.injEq, Prod.mk.injEq] at h
      obtain ⟨rfl, rfl, rfl⟩ := h
      obtain ⟨id0, o0, c0, ks0, heq, h1, h2, h3⟩ := hacc
      injection heq with e1 e2 e3 e4
      subst e1 e2 e3 e4
      refine ⟨hf, ?_, id, true, c, _, rfl, h1, h2, ?_⟩
      · intro e he
        simp only [List.mem_append, List.mem_singleton] at he
        rcases he with he | rfl
        · exact hlog e he
        · exact ⟨h1, h2⟩
      · intro j hj
        rcases kidsMerge_ids xk ks j hj with h | h
        · exact h3 j h
        · exact hxk j h
    · cases h
  · cases h

theorem addLoop_good (L : List Nat) (f0 : Nat) : ∀ (ks : Kids) (acc : Acc) (f : Nat) (log : Log) t f' log',
    addLoop ks acc f log = .ok t f' log' → f0 ≤ f → (∀ e ∈ log, f0 ≤ e.1 ∧ e.1 < f) → AccGood L f0 acc f →
    (∀ j ∈ idsK ks, j ∈ L) → WGood L f0 t f' log' := by
  intro ks
  induction ks with
  | nil =>
    intro acc f log t f' log' h hf hlog hacc _
    cases acc with
    | none =>
      simp only [addLoop] at h
      injection h with h1 h2 h3
      subst h1 h2 h3
      exact ⟨hf, hlog, by simp [T.null, T.ids]⟩
    | cell t0 =>
      simp only [addLoop] at h
      injection h with h1 h2 h3
      subst h1 h2 h3
      obtain ⟨id, o, c, ks, rfl, h1, h2, h3⟩ := hacc
      refine ⟨hf, hlog, ?_⟩
      intro j hj
      simp only [T.ids, List.mem_cons] at hj
      rcases hj with rfl | hj
      · exact Or.inr ⟨h1, h2⟩
      · exact h3 j hj
  | cons y ys ih =>
    obtain ⟨k, x⟩ := y
    intro acc f log t f' log' h hf hlog hacc hks
    simp only [addLoop] at h
    split at h
    · rename_i acc1 f1 log1 he
      have hx : ∀ j ∈ x.ids, j ∈ L := fun j hj => hks j (by simp [idsK, hj])
      obtain ⟨g1, g2, g3⟩ := addElem_good L f0 acc x f log acc1 f1 log1 he hf hlog hacc hx
      exact ih acc1 f1 log1 t f' log' h g1 g2 g3 (fun j hj => hks j (by simp [idsK, hj]))
    · split at h <;> cases h

theorem wAdd_fresh : FreshWriter wAdd := by
  intro args f t f' log h
  unfold wAdd at h
  split at h
  · rename_i id o c ks
    refine addLoop_good _ f ks .none f [] t f' log h (Nat.le_refl _) (by simp) trivial ?_
    intro j hj
    exact mem_argIds (a := T.node id o c ks) (by simp) (by simp [T.ids, hj])
  · cases h

theorem flatK_ids (d : Option Nat) (ks : Kids) : ∀ j ∈ idsK (flatK d ks), j ∈ idsK ks := by
  fun_induction flatK d ks with
  | case1 d => simp [idsK]
  | case2 k rest id c ks ih =>
    intro j hj
    simp only [idsK, T.ids, List.mem_append, List.mem_cons] at hj ⊢
    rcases hj with (rfl | hj) | hj
    · exact Or.inl (Or.inl rfl)
    · exact Or.inl (Or.inr hj)
    · exact Or.inr (ih j hj)
  | case3 d k rest id c ks h ih1 ih2 =>
    intro j hj
    simp only [idsK_append, idsK, T.ids, List.mem_append, List.mem_cons] at hj ⊢
    rcases hj with hj | hj
    · exact Or.inl (Or.inr (ih1 j hj))
    · exact Or.inr (ih2 j hj)
  | case4 d k t rest hnot ih =>
    intro j hj
    simp only [idsK, List.mem_append] at hj ⊢
    rcases hj with hj | hj
    · exact Or.inl hj
    · exact Or.inr (ih j hj)

theorem idsK_map_values (ks : Kids) : idsK (ks.map fun x => (([] : Bytes), x.2)) = idsK ks := by
  induction ks with
  | nil => rfl
  | cons y ys ih => obtain ⟨k, t⟩ := y; simp [idsK, ih]

theorem valuesOf_ids (v : T) (ks : Kids) (h : valuesOf v = some ks) : ∀ j ∈ idsK ks, j ∈ v.ids := by
  cases v with
  | leaf s => simp [valuesOf] at h
  | hole => simp [valuesOf] at h
  | node id o c ks0 =>
    cases o with
    | false =>
      simp only [valuesOf, Option.some.injEq] at h; subst h
      intro j hj; simp [T.ids, hj]
    | true =>
      simp only [valuesOf, Option.some.injEq] at h; subst h
      intro j hj; rw [idsK_map_values] at hj; simp [T.ids, hj]

theorem wFlatten_fresh (d : Option Nat) : FreshWriter (wFlatten d) := by
  intro args f t f' log h
  unfold wFlatten at h
  split at h
  · rename_i v
    split at h
    · rename_i ks hv
      simp only [] at h
      injection h with h1 h2 h3
      subst h1 h2 h3
      apply arrOrEmpty_good _ f _ f [] (Nat.le_refl _) (by simp)
      intro j hj
      exact Or.inl (mem_argIds (a := v) (by simp) (valuesOf_ids v ks hv j (flatK_ids d ks j hj)))
    · cases h
  · cases h

/-- rows allocated one after the other: fresh cells holding argument labels -/
theorem allocRows_good (L : List Nat) (f0 : Nat) : ∀ (rows : List Kids) (f : Nat) (log : Log),
    f0 ≤ f → (∀ e ∈ log, f0 ≤ e.1 ∧ e.1 < f) → (∀ r ∈ rows, ∀ j ∈ idsK r, j ∈ L) →
    f ≤ (allocRows rows f log).2.1 ∧ (∀ e ∈ (allocRows rows f log).2.2, f0 ≤ e.1 ∧ e.1 < (allocRows rows f log).2.1) ∧
    (∀ j ∈ idsK (allocRows rows f log).1, j ∈ L ∨ (f0 ≤ j ∧ j < (allocRows rows f log).2.1)) := by
  intro rows
  induction rows with
  | nil => intro f log hf hlog _; exact ⟨Nat.le_refl _, hlog, by simp [allocRows, idsK]⟩
  | cons r rest ih =>
    intro f log hf hlog hrows
    simp only [allocRows]
    have g := allocArr_good L f0 r f log hf hlog (fun j hj => Or.inl (hrows r (by simp) j hj))
    obtain ⟨i1, i2, i3⟩ := ih (allocArr r f log).2.1 (allocArr r f log).2.2 g.hf g.hlog
      (fun r' hr' => hrows r' (by simp [hr']))
    refine ⟨by have : f ≤ (allocArr r f log).2.1 := Nat.le_succ _; omega, i2, ?_⟩
    intro j hj
    simp only [idsK, List.mem_append] at hj
    rcases hj with hj | hj
    · rcases g.hids j hj with h | h
      · exact Or.inl h
      · exact Or.inr ⟨h.1, by omega⟩
    · exact i3 j hj

/-- an outer array whose label was drawn before its rows were allocated -/
theorem outer_good (L : List Nat) (f : Nat) (rows : List Kids) (l : Nat) (hrows : ∀ r ∈ rows, ∀ j ∈ idsK r, j ∈ L) :
    WGood L f (.node f false l (allocRows rows (f + 1) []).1) (allocRows rows (f + 1) []).2.1
      ((allocRows rows (f + 1) []).2.2 ++ [(f, (allocRows rows (f + 1) []).1)]) := by
  obtain ⟨i1, i2, i3⟩ := allocRows_good L f rows (f + 1) [] (Nat.le_succ _) (by simp) hrows
  refine ⟨by omega, ?_, ?_⟩
  · intro e he
    simp only [List.mem_append, List.mem_singleton] at he
    rcases he with he | rfl
    · exact i2 e he
    · exact ⟨Nat.le_refl _, by show f < _; omega⟩
  · intro j hj
    simp only [T.ids, List.mem_cons] at hj
    rcases hj with rfl | hj
    · exact Or.inr ⟨Nat.le_refl _, by omega⟩
    · exact i3 j hj

theorem mapM_arrKids_ids : ∀ (ks : Kids) (rows : List Kids), ks.mapM (fun x => arrKids x.2) = some rows →
    ∀ r ∈ rows, ∀ j ∈ idsK r, j ∈ idsK ks := by
  intro ks
  induction ks with
  | nil => intro rows h; simp at h; subst h; simp
  | cons y ys ih =>
    obtain ⟨k, t⟩ := y
    intro rows h
    simp only [List.mapM_cons, Option.bind_eq_bind, Option.bind_eq_some_iff] at h
    obtain ⟨r0, hr0, rest, hrest, hrows⟩ := h
    simp only [Option.pure_def, Option.some.injEq] at hrows
    subst hrows
    intro r hr j hj
    simp only [idsK, List.mem_append]
    rcases List.mem_cons.mp hr with rfl | hr
    · left
      cases t with
      | leaf s => simp [arrKids] at hr0
      | hole => simp [arrKids] at hr0
      | node id o c ks0 =>
        cases o with
        | true => simp [arrKids] at hr0
        | false =>
          simp only [arrKids, Option.some.injEq] at hr0; subst hr0
          simp [T.ids, hj]
    · exact Or.inr (ih rest hrest r hr j hj)

theorem column_ids (rows : List Kids) (c : Nat) : ∀ j ∈ idsK (column rows c), ∃ r ∈ rows, j ∈ idsK r := by
  induction rows with
  | nil => simp [column, idsK]
  | cons r rest ih =>
    intro j hj
    simp only [column, List.map_cons, idsK, List.mem_append] at hj
    rcases hj with hj | hj
    · refine ⟨r, by simp, ?_⟩
      cases hrc : r[c]? with
      | none => simp [hrc, T.null, T.ids] at hj
      | some x =>
        simp only [hrc, Option.map_some, Option.getD_some] at hj
        exact mem_idsK (List.mem_of_getElem? hrc) j hj
    · obtain ⟨r', hr', h⟩ := ih j hj
      exact ⟨r', by simp [hr'], h⟩

theorem wTranspose_fresh : FreshWriter wTranspose := by
  intro args f t f' log h
  unfold wTranspose at h
  split at h
  · rename_i id c ks
    have harg : ∀ j ∈ idsK ks, j ∈ argIds [T.node id false c ks] :=
      fun j hj => mem_argIds (a := T.node id false c ks) (by simp) (by simp [T.ids, hj])
    split at h
    · simp only [] at h
      injection h with h1 h2 h3
      subst h1 h2 h3
      exact emptyLit_good _ f f [] (Nat.le_refl _) (by simp)
    · split at h
      · cases h
      · rename_i rows hrows
        simp only [] at h
        injection h with h1 h2 h3
        subst h1 h2 h3
        apply outer_good
        intro r hr j hj
        simp only [List.mem_map, List.mem_range] at hr
        obtain ⟨cidx, _, rfl⟩ := hr
        obtain ⟨r', hr', hj'⟩ := column_ids rows cidx j hj
        exact harg j (mapM_arrKids_ids ks rows hrows r' hr' j hj')
  · cases h

theorem wReverse_fresh : FreshWriter wReverse := by
  intro args f t f' log h
  unfold wReverse at h
  split at h
  · rename_i id c ks
    simp only [] at h
    injection h with h1 h2 h3
    subst h1 h2 h3
    apply allocArr_good _ f _ f [] (Nat.le_refl _) (by simp)
    intro j hj
    have := idsK_sub_of_mem ks ks.reverse (fun x hx j hj => mem_idsK (List.mem_reverse.mp hx) j hj) j hj
    exact Or.inl (mem_argIds (a := T.node id false c ks) (by simp) (by simp [T.ids, this]))
  · cases h

theorem pick_ids (ks : Kids) (it : Item) : ∀ j ∈ (pick ks it).2.ids, j ∈ idsK ks := by
  intro j hj
  simp only [pick] at hj
  cases hg : ks[itemIdx it]? with
  | none => simp [hg, T.null, T.ids] at hj
  | some x =>
    simp only [hg, Option.map_some, Option.getD_some] at hj
    exact mem_idsK (List.mem_of_getElem? hg) j hj

theorem picks_ids (ks : Kids) (items : List Item) : ∀ j ∈ idsK (items.map (pick ks)), j ∈ idsK ks :=
  idsK_sub_of_mem ks _ (fun x hx j hj => by
    simp only [List.mem_map] at hx
    obtain ⟨it, _, rfl⟩ := hx
    exact pick_ids ks it j hj)

theorem wSort_fresh : FreshWriter wSort := by
  intro args f t f' log h
  unfold wSort at h
  split at h
  · rename_i id c ks
    simp only [] at h
    injection h with h1 h2 h3
    subst h1 h2 h3
    apply allocArr_good _ f _ f [] (Nat.le_refl _) (by simp)
    intro j hj
    exact Or.inl (mem_argIds (a := T.node id false c ks) (by simp) (by simp [T.ids, picks_ids ks _ j hj]))
  · cases h

theorem wUnique_fresh : FreshWriter wUnique := by
  intro args f t f' log h
  unfold wUnique at h
  split at h
  · rename_i id c ks
    simp only [] at h
    injection h with h1 h2 h3
    subst h1 h2 h3
    apply arrOrEmpty_good _ f _ f [] (Nat.le_refl _) (by simp)
    intro j hj
    exact Or.inl (mem_argIds (a := T.node id false c ks) (by simp) (by simp [T.ids, picks_ids ks _ j hj]))
  · cases h

theorem wGroupBy_fresh : FreshWriter wGroupBy := by
  intro args f t f' log h
  unfold wGroupBy at h
  split at h
  · rename_i id c ks
    simp only [] at h
    split at h
    · injection h with h1 h2 h3
      subst h1 h2 h3
      exact emptyLit_good _ f f [] (Nat.le_refl _) (by simp)
    · injection h with h1 h2 h3
      subst h1 h2 h3
      apply outer_good
      intro r hr j hj
      simp only [List.mem_map] at hr
      obtain ⟨g, _, rfl⟩ := hr
      exact mem_argIds (a := T.node id false c ks) (by simp) (by simp [T.ids, picks_ids ks g j hj])
  · cases h

/-! ### the natives with an array of keys, and `deepMergeObjects` -/

theorem wSortBy_fresh : FreshWriter wSortBy := by
  intro args f t f' log h
  unfold wSortBy at h
  split at h
  · rename_i id c ks id2 c2 xs
    split at h
    · simp only [] at h
      injection h with h1 h2 h3
      subst h1 h2 h3
      apply allocArr_good _ f _ f [] (Nat.le_refl _) (by simp)
      intro j hj
      exact Or.inl (mem_argIds (a := T.node id false c ks) (by simp) (by simp [T.ids, picks_ids ks _ j hj]))
    · cases h
  · cases h

theorem wUniqueBy_fresh : FreshWriter wUniqueBy := by
  intro args f t f' log h
  unfold wUniqueBy at h
  split at h
  · rename_i id c ks id2 c2 xs
    split at h
    · simp only [] at h
      injection h with h1 h2 h3
      subst h1 h2 h3
      apply arrOrEmpty_good _ f _ f [] (Nat.le_refl _) (by simp)
      intro j hj
      exact Or.inl (mem_argIds (a := T.node id false c ks) (by simp) (by simp [T.ids, picks_ids ks _ j hj]))
    · cases h
  · cases h

theorem wGroupByK_fresh : FreshWriter wGroupByK := by
  intro args f t f' log h
  unfold wGroupByK at h
  split at h
  · rename_i id c ks id2 c2 xs
    split at h
    · simp only [] at h
      split at h
      · injection h with h1 h2 h3
        subst h1 h2 h3
        exact emptyLit_good _ f f [] (Nat.le_refl _) (by simp)
      · injection h with h1 h2 h3
        subst h1 h2 h3
        apply outer_good
        intro r hr j hj
        simp only [List.mem_map] at hr
        obtain ⟨g, _, rfl⟩ := hr
        exact mem_argIds (a := T.node id false c ks) (by simp) (by simp [T.ids, picks_ids ks g j hj])
    · cases h
  · cases h

theorem wMinMaxBy_fresh (isMin : Bool) : FreshWriter (wMinMaxBy isMin) := by
  intro args f t f' log h
  unfold wMinMaxBy at h
  split at h
  · rename_i id c ks id2 c2 xs
    split at h
    · split at h
      · injection h with h1 h2 h3
        subst h1 h2 h3
        exact ⟨Nat.le_refl _, by simp, by simp [T.null, T.ids]⟩
      · injection h with h1 h2 h3
        subst h1 h2 h3
        refine ⟨Nat.le_refl _, by simp, fun j hj => Or.inl ?_⟩
        exact mem_argIds (a := T.node id false c ks) (by simp) (by simp [T.ids, pick_ids ks _ j hj])
    · cases h
  · cases h

theorem splitKey_found_ids (k : Bytes) (m : Kids) (x : T) (h : (splitKey k m).2.1 = some x) : ∀ j ∈ x.ids, j ∈ idsK m := by
  intro j hj
  rw [splitKey_ids k m, h]
  simp [hj]

theorem mergeKids_good (L : List Nat) (f0 : Nat) : ∀ (m rk : Kids) (f : Nat) (log : Log),
    f0 ≤ f → (∀ e ∈ log, f0 ≤ e.1 ∧ e.1 < f) → (∀ j ∈ idsK m, j ∈ L ∨ (f0 ≤ j ∧ j < f)) → (∀ j ∈ idsK rk, j ∈ L) →
    f ≤ (mergeKids m rk f log).2.1 ∧ (∀ e ∈ (mergeKids m rk f log).2.2, f0 ≤ e.1 ∧ e.1 < (mergeKids m rk f log).2.1) ∧
    (∀ j ∈ idsK (mergeKids m rk f log).1, j ∈ L ∨ (f0 ≤ j ∧ j < (mergeKids m rk f log).2.1)) := by
  intro m rk f log
  fun_induction mergeKids m rk f log with
  | case1 m f log =>
    intro hf hlog hm _
    exact ⟨Nat.le_refl _, hlog, hm⟩
  | case2 m k rest f log id cap mk id1 cap1 rk hfound r1 ih1 ih2 =>
    intro hf hlog hm hr
    have hmk : ∀ j ∈ idsK mk, j ∈ L ∨ (f0 ≤ j ∧ j < f + 1) := by
      intro j hj
      rcases hm j (splitKey_found_ids k m _ hfound j (by simp [T.ids, hj])) with h | h
      · exact Or.inl h
      · exact Or.inr ⟨h.1, by omega⟩
    have hrk : ∀ j ∈ idsK rk, j ∈ L := fun j hj => hr j (by simp [idsK, T.ids, hj])
    obtain ⟨g1, g2, g3⟩ := ih1 (by omega) (fun e he => ⟨(hlog e he).1, by have := (hlog e he).2; omega⟩) hmk hrk
    have hr1 : r1 = mergeKids mk rk (f + 1) log := rfl
    rw [← hr1] at g1 g2 g3
    have hlog' : ∀ e ∈ r1.2.2 ++ [(f, r1.1)], f0 ≤ e.1 ∧ e.1 < r1.2.1 := by
      intro e he
      simp only [List.mem_append, List.mem_singleton] at he
      rcases he with he | rfl
      · exact g2 e he
      · exact ⟨hf, by show f < r1.2.1; omega⟩
    have hm' : ∀ j ∈ idsK (kidsInsert k (T.node f true 0 r1.1) m), j ∈ L ∨ (f0 ≤ j ∧ j < r1.2.1) := by
      intro j hj
      rcases kidsInsert_ids k _ m j hj with h | h
      · simp only [T.ids, List.mem_cons] at h
        rcases h with rfl | h
        · exact Or.inr ⟨hf, by omega⟩
        · exact g3 j h
      · rcases hm j h with h' | h'
        · exact Or.inl h'
        · exact Or.inr ⟨h'.1, by omega⟩
    obtain ⟨i1, i2, i3⟩ := ih2 (by omega) hlog' hm' (fun j hj => hr j (by simp [idsK, hj]))
    exact ⟨by omega, i2, i3⟩
  | case3 m k v rest f log hnot ih =>
    intro hf hlog hm hr
    have hm' : ∀ j ∈ idsK (kidsInsert k v m), j ∈ L ∨ (f0 ≤ j ∧ j < f) := by
      intro j hj
      rcases kidsInsert_ids k v m j hj with h | h
      · exact Or.inl (hr j (by simp [idsK, h]))
      · exact hm j h
    exact ih hf hlog hm' (fun j hj => hr j (by simp [idsK, hj]))

theorem wDeepMerge_fresh : FreshWriter wDeepMerge := by
  intro args f t f' log h
  unfold wDeepMerge at h
  split at h
  · rename_i id c lk id2 c2 rk
    simp only [] at h
    injection h with h1 h2 h3
    subst h1 h2 h3
    have hl : ∀ j ∈ idsK lk, j ∈ argIds [T.node id true c lk, T.node id2 true c2 rk] ∨ (f ≤ j ∧ j < f + 1) :=
      fun j hj => Or.inl (mem_argIds (a := T.node id true c lk) (by simp) (by simp [T.ids, hj]))
    have hr : ∀ j ∈ idsK rk, j ∈ argIds [T.node id true c lk, T.node id2 true c2 rk] :=
      fun j hj => mem_argIds (a := T.node id2 true c2 rk) (by simp) (by simp [T.ids, hj])
    obtain ⟨g1, g2, g3⟩ := mergeKids_good _ f lk rk (f + 1) [] (Nat.le_succ _) (by simp) hl hr
    refine ⟨by omega, ?_, ?_⟩
    · intro e he
      simp only [List.mem_append, List.mem_singleton] at he
      rcases he with he | rfl
      · exact g2 e he
      · exact ⟨Nat.le_refl _, by show f < _; omega⟩
    · intro j hj
      simp only [T.ids, List.mem_cons] at hj
      rcases hj with rfl | hj
      · exact Or.inr ⟨Nat.le_refl _, by omega⟩
      · exact g3 j hj
  · cases h
  · cases h

/-! ### object construction -/

theorem objPairs_ids : ∀ (args : List T) (ps : Kids), objPairs args = some ps → ∀ j ∈ idsK ps, j ∈ argIds args := by
  intro args
  induction args using objPairs.induct with
  | case1 => intro ps h; simp only [objPairs, Option.some.injEq] at h; subst h; simp [idsK]
  | case2 k v rest ih =>
    intro ps h
    simp only [objPairs, Option.map_eq_some_iff] at h
    obtain ⟨ps0, h0, rfl⟩ := h
    intro j hj
    simp only [idsK, List.mem_append] at hj
    simp only [argIds, List.map_cons, List.flatten_cons, List.mem_append]
    rcases hj with hj | hj
    · exact Or.inr (Or.inl hj)
    · exact Or.inr (Or.inr (ih ps0 h0 j hj))
  | case3 args h1 h2 => intro ps h; simp [objPairs] at h

theorem insertNew_ids (acc : Kids) (x : Bytes × T) : ∀ j ∈ idsK (insertNew acc x), j ∈ idsK acc ∨ j ∈ x.2.ids := by
  intro j hj
  unfold insertNew at hj
  split at hj
  · exact Or.inl hj
  · rcases kidsInsert_ids x.1 x.2 acc j hj with h | h
    · exact Or.inr h
    · exact Or.inl h

theorem foldl_insertNew_ids : ∀ (ps acc : Kids), ∀ j ∈ idsK (ps.foldl insertNew acc), j ∈ idsK acc ∨ j ∈ idsK ps := by
  intro ps
  induction ps with
  | nil => intro acc j hj; exact Or.inl hj
  | cons y ys ih =>
    obtain ⟨k, t⟩ := y
    intro acc j hj
    simp only [List.foldl_cons] at hj
    rcases ih (insertNew acc (k, t)) j hj with h | h
    · rcases insertNew_ids acc (k, t) j h with h' | h'
      · exact Or.inl h'
      · exact Or.inr (by simp [idsK, h'])
    · exact Or.inr (by simp [idsK, h])

theorem wObject_fresh : FreshWriter wObject := by
  intro args f t f' log h
  cases hps : objPairs args with
  | none => simp [wObject, hps] at h
  | some ps =>
    simp only [wObject, hps] at h
    injection h with h1 h2 h3
    subst h1 h2 h3
    apply allocObj_good _ f _ f [] (Nat.le_refl _) (by simp)
    intro j hj
    rcases foldl_insertNew_ids ps [] j hj with h | h
    · simp [idsK] at h
    · exact Or.inl (objPairs_ids args ps hps j h)

/-! ### array construction: a chain of `opappend`s -/

/-- `[x1, x2, …]`: the elements are appended one by one to the accumulator -/
def appendAll : List T → T → Nat → Log → T × Nat × Log
  | [], acc, f, log => (acc, f, log)
  | x :: xs, acc, f, log =>
    let a := appendTo acc [([], x)] f log
    appendAll xs a.1 a.2.1 a.2.2

theorem appendAll_good (L : List Nat) (f0 : Nat) : ∀ (xs : List T) (id c : Nat) (ks : Kids) (f : Nat) (log : Log),
    f0 ≤ f → (∀ e ∈ log, f0 ≤ e.1 ∧ e.1 < f) → ((f0 ≤ id ∧ id < f) ∨ (c ≤ ks.length ∧ id ∈ L)) →
    (∀ j ∈ idsK ks, j ∈ L ∨ (f0 ≤ j ∧ j < f)) → (∀ x ∈ xs, ∀ j ∈ x.ids, j ∈ L) →
    WGood L f0 (appendAll xs (.node id false c ks) f log).1 (appendAll xs (.node id false c ks) f log).2.1
      (appendAll xs (.node id false c ks) f log).2.2 := by
  intro xs
  induction xs with
  | nil =>
    intro id c ks f log hf hlog hacc hks _
    refine ⟨hf, hlog, ?_⟩
    intro j hj
    simp only [appendAll, T.ids, List.mem_cons] at hj
    rcases hj with rfl | hj
    · rcases hacc with h | h
      · exact Or.inr h
      · exact Or.inl h.2
    · exact hks j hj
  | cons x xs ih =>
    intro id c ks f log hf hlog hacc hks hxs
    simp only [appendAll]
    have hx : ∀ j ∈ idsK [(([] : Bytes), x)], j ∈ L ∨ (f0 ≤ j ∧ j < f) := by
      intro j hj
      simp only [idsK, List.append_nil] at hj
      exact Or.inl (hxs x (by simp) j hj)
    have hacc' : (f0 ≤ id ∧ id < f) ∨ c ≤ ks.length := by
      rcases hacc with h | h
      · exact Or.inl h
      · exact Or.inr h.1
    obtain ⟨g1, g2, id', c', ks', g3, g4, g5⟩ := appendTo_good L f0 id c ks [([], x)] f log hf hlog hacc' hks hx
    rw [g3]
    apply ih id' c' ks' _ _ (Nat.le_trans hf g1) g2 ?_ g4 (fun x' hx' => hxs x' (by simp [hx']))
    rcases g5 with ⟨rfl, h | ⟨rfl, rfl⟩⟩ | h
    · exact Or.inl ⟨h.1, by omega⟩
    · rcases hacc with h | h
      · exact Or.inl ⟨h.1, by omega⟩
      · exact Or.inr h
    · exact Or.inl h

theorem wScalar_fresh : FreshWriter wScalar := by
  intro args f t f' log h
  cases h

end Gojq.Heap

/-
  `compile_yields`, the case `reduce src as $x (init; upd)` (C01.3).  Core Lean only.
-/
import Gojq.Proofs.MiniVMRefineVar
namespace Gojq.MiniVM
variable [IterMsg]
set_option linter.unusedSectionVars false

theorem getLast?_getD_cons {α} (w : α) (ws : List α) (cur : α) :
    (w :: ws).getLast?.getD cur = ws.getLast?.getD w := by
  cases ws with
  | nil => rfl
  | cons y ys =>
    rw [List.getLast?_cons_cons]
    cases hl : (y :: ys).getLast? with
    | none => simp at hl
    | some z => rfl

/-- the update of `reduce`: every output is stored into the state register, then the machine
    backtracks — when the update is exhausted the register holds its LAST output, or what it
    held before if there was none -/
theorem collect_last {code} {Ou P : Nat → Prop} {ou fr G pe S sid i f d c outs e}
    (hres : resolve sid fr (fr.length - 1) = some (f, d))
    (hr : ¬ Ou (f.base + i)) (hrP : ¬ P (f.base + i)) (hrlt : f.base + i < ou)
    (hst : code[pe]? = some (.store sid i)) (hbt : code[pe+1]? = some .backtrack)
    (y : Yields code Ou P ou fr G pe S c outs e) :
    ∀ cur, c.regs (f.base + i) = .v cur →
    ∃ R', Steps code c (.fail G (e.map .plain) R') ∧ R' (f.base + i) = .v (outs.getLast?.getD cur) ∧
      EqOff (fun j => Wr Ou ou j ∨ j = f.base + i) c.regs R' := by
  induction y with
  | @done c e R' hs hf =>
    intro cur hcur
    refine ⟨R', hs, ?_, hf.mono (fun i h => Or.inl h)⟩
    have hnw : ¬ Wr Ou ou (f.base + i) := by
      intro h; rcases h with h | h
      · exact hr h
      · omega
    rw [← hf _ hnw]; simpa using hcur
  | @out c w ws e F' R1 o1 cp hF' hs ho1 hf _ _ ih =>
    intro cur hcur
    let R1' := R1.set (f.base + i) (.v w)
    have hon : EqOn (KeepP Ou P ou o1) R1 R1' := by
      intro j hj; simp only [R1', Regs.set]; split
      · rename_i h; subst h
        rcases hj with (hj | hj) | hj
        · exact absurd hj hr
        · exact absurd hj hrP
        · omega
      · rfl
    obtain ⟨R', hs2, hacc2, hf2⟩ := ih R1' hon w (by simp [R1', Regs.set])
    refine ⟨R', ?_, by rw [getLast?_getD_cons]; exact hacc2, ?_⟩
    · refine hs.trans (.head (c' := .run (pe+1) S (F' ++ G) false none R1' fr o1 cp) ?_
        (.head (c' := .fail (F' ++ G) none R1') ?_ hs2))
      · rw [step_store hst hres]
      · simp [step, hbt]
    · intro j hj
      have hj1 : ¬ Wr Ou ou j := fun h => hj (Or.inl h)
      have hj2 : j ≠ f.base + i := fun h => hj (Or.inr h)
      rw [hf j hj1, ← hf2 j hj]
      simp [R1', Regs.set, hj2]

/-- the loop of `reduce` over the outputs of the source.  `helem`: what one pass through the loop
    body does (from the exit of the source back to a failure into the same forks). -/
theorem reduce_src_aux {code Os P o fr G0 px S c ws es}
    (ys : Yields code Os P o fr G0 px S c ws es) :
    ∀ {O K : Nat → Prop} {F : List Fork} {pfk : Nat} {v : V} {L sid i : Nat} {f : Frame} {d : Nat}
      {upd : V → V → Res} {Rref : Regs} (ss : Stop) (cur : V),
    es = ss.toErr →
    G0 = ⟨pfk, .v v :: S, fr, o⟩ :: F →
    code[pfk]? = some (.fork L) → code[L]? = some .pop → code[L+1]? = some (.load sid i) →
    resolve sid fr (fr.length - 1) = some (f, d) →
    ¬ Os (f.base + i) → f.base + i < o →
    (∀ a, Os a → O a) → (∀ a, K a → ¬ Wr Os o a) →
    (∀ w G' R1 o1 cp s, o ≤ o1 → R1 (f.base + i) = .v s → EqOn K Rref R1 → ND (upd w s).stop →
      ∃ R1', Steps code (.run px (.v w :: S) G' false none R1 fr o1 cp)
          (.fail G' ((upd w s).stop.toErr.map .plain) R1') ∧
        R1' (f.base + i) = .v ((upd w s).outs.getLast?.getD s) ∧
        EqOff (Wr O o) R1 R1' ∧ EqOn (KeepP Os P o o1) R1 R1' ∧ EqOn K R1 R1') →
    EqOn K Rref c.regs → c.regs (f.base + i) = .v cur → ND (reduceL upd ss ws cur).stop →
    Yields code O P o fr F (L + 2) S c (reduceL upd ss ws cur).outs (reduceL upd ss ws cur).stop.toErr := by
  induction ys with
  | @done c e' R' hs hf =>
    intro O K F pfk v L sid i f d upd Rref ss cur hss hG hfork hpop hload hres hrs hrlt hO hd _ hK hcur hnd
    subst hG
    have hW : ∀ a, Wr Os o a → Wr O o a := fun a h => h.elim (fun h => Or.inl (hO a h)) Or.inr
    have hnw : ¬ Wr Os o (f.base + i) := by
      intro h; rcases h with h | h
      · exact hrs h
      · omega
    have hcur' : R' (f.base + i) = .v cur := by rw [← hf _ hnw]; exact hcur
    cases ss with
    | diverge => simp [reduceL, ND] at hnd
    | done =>
      simp only [Stop.toErr] at hss
      subst hss
      simp only [reduceL, Stop.toErr]
      refine .out (F' := []) (R1 := R') (o1 := o) (cp := 0) ForksOK.nil ?_ (Nat.le_refl _) (hf.mono hW) (fun _ => ⟨rfl, rfl⟩)
        (fun R2 _ => .done (.refl _) EqOff.refl)
      refine hs.trans ?_
      refine .head (c' := .run pfk (.v v :: S) F true none R' fr o 0) (by simp [step]) ?_
      refine .head (c' := .run L (.v v :: S) F false none R' fr o 0) (by simp [step, hfork]) ?_
      refine .head (c' := .run (L+1) S F false none R' fr o 0) (by simp [step, hpop]) ?_
      refine Steps.one ?_
      rw [step_load hload hres, hcur']
      rfl
    | err ee =>
      simp only [Stop.toErr] at hss
      subst hss
      simp only [reduceL, Stop.toErr]
      refine .done (e := some ee) (hs.trans ?_) (hf.mono hW)
      refine .head (c' := .run pfk (.v v :: S) F true (some (.plain ee)) R' fr o 0) (by simp [step]) ?_
      exact Steps.one (by simp [step, hfork])
  | @out c w ws e' F'' R1 oo cp hF'' hs ho1 hf hn _ ih =>
    intro O K F pfk v L sid i f d upd Rref ss cur hss hG hfork hpop hload hres hrs hrlt hO hd helem hK hcur hnd
    subst hG
    have hW : ∀ a, Wr Os o a → Wr O o a := fun a h => h.elim (fun h => Or.inl (hO a h)) Or.inr
    have hnw : ¬ Wr Os o (f.base + i) := by
      intro h; rcases h with h | h
      · exact hrs h
      · omega
    have hcur1 : R1 (f.base + i) = .v cur := by rw [← hf _ hnw]; exact hcur
    have hK1 : EqOn K Rref R1 := hK.trans (hf.toOn hd)
    have hndu : ND (upd w cur).stop := by
      simp only [reduceL] at hnd
      rcases hu : upd w cur with ⟨ou', su⟩
      rw [hu] at hnd
      cases su <;> simp_all [ND]
    obtain ⟨R1', hst, hlast, hfr, hkeep, hKK⟩ := helem w (F'' ++ ⟨pfk, .v v :: S, fr, o⟩ :: F) R1 oo cp cur ho1 hcur1 hK1 hndu
    simp only [reduceL] at hnd ⊢
    rcases hu : upd w cur with ⟨ou', su⟩
    rw [hu] at hnd hst hlast hndu
    cases su with
    | diverge => simp [ND] at hndu
    | done =>
      simp only [Stop.toErr, Option.map_none] at hst
      simp only [] at hnd ⊢
      have := ih R1' hkeep ss (ou'.getLast?.getD cur) hss rfl hfork hpop hload hres hrs hrlt hO hd helem
        (by simpa using hK1.trans hKK) (by simpa using hlast) hnd
      exact this.steps_left (hs.trans hst) ((hf.mono hW).trans hfr)
    | err ee =>
      simp only [Stop.toErr, Option.map_some] at hst
      simp only [Stop.toErr]
      refine .done (e := some ee) ?_ ((hf.mono hW).trans hfr)
      refine (hs.trans hst).trans ?_
      refine (err_through hF'' (⟨pfk, .v v :: S, fr, o⟩ :: F) (.plain ee) R1').trans ?_
      refine .head (c' := .run pfk (.v v :: S) F true (some (.plain ee)) R1' fr o 0) (by simp [step]) ?_
      exact Steps.one (by simp [step, hfork])

theorem guardND_of_nd {r k : Res} (h : ND r.stop) : guardND r k = k := by
  rcases r with ⟨o, st⟩
  cases st <;> simp_all [guardND, ND]

theorem nd_of_guardND {r k : Res} (h : ND (guardND r k).stop) : ND r.stop := by
  rcases r with ⟨o, st⟩
  cases st <;> simp_all [guardND, ND]

theorem eval_reduce_nd_left {defs n g ρ x src init upd v} (h : ND (eval defs (n+1) g ρ (.reduce x src init upd) v).stop) :
    ND (eval defs n g ρ init v).stop := by
  simp only [eval] at h
  generalize eval defs n g ρ init v = ri at h
  rcases ri with ⟨oi, si⟩
  cases si <;> simp_all [ND]

theorem eval_reduce_of_nd {defs n g ρ x src init upd v} (h : ND (eval defs n g ρ init v).stop) :
    eval defs (n+1) g ρ (.reduce x src init upd) v =
      Res.bindL (fun s0 =>
        guardND (eval defs n g ρ src v)
          (reduceL (fun w s => eval defs n g ⟨ρ.clo, (x, w) :: ρ.vars⟩ upd s)
            (eval defs n g ρ src v).stop (eval defs n g ρ src v).outs s0))
        (eval defs n g ρ init v).outs (eval defs n g ρ init v).stop := by
  simp only [eval]
  generalize eval defs n g ρ init v = ri at h
  rcases ri with ⟨oi, si⟩
  cases si <;> simp_all [ND]

theorem cy_reduce {code defs entry nf n} (hfun : FuncsOK code defs entry nf) (ihn : CY code defs entry nf n)
    (x : Nat) (src init upd : Q) :
    CYq code defs entry nf (n+1) (.reduce x src init upd) := by
  intro g e p hep hseg hcl ρ v S F R fr o cp P htop hge hpar hP henv hoff hnd
  simp only [compile] at hseg hoff ⊢
  simp only [Q.Closed] at hcl
  simp only [Q.HasParam] at hpar
  obtain ⟨ft, hres, hbase, _, _⟩ := htop.resolve
  generalize hci : compile entry g e (p+1) init = ci at hseg hoff ⊢
  generalize hpst : p + 1 + ci.length = pst at hseg hoff ⊢
  generalize hcs : compile entry g e (pst + 2) src = cs at hseg hoff ⊢
  generalize hpx : pst + 2 + cs.length = px at hseg hoff ⊢
  generalize hcu : compile entry ⟨g.fn, (x, px - e) :: g.vars⟩ e (px + 2) upd = cu at hseg hoff ⊢
  -- the pieces of the code
  have h0 : code[p]? = some .dup := by have := hseg 0 (by simp); simpa using this
  have hsi : Seg code (p+1) ci := by
    have := Seg.append_right (a := [Instr.dup]) (b := ci)
      (Seg.append_left (Seg.append_left (Seg.append_left (Seg.append_left (Seg.append_left hseg)))))
    simpa using this
  have hm1 := Seg.append_right (a := [Instr.dup] ++ ci) (b := [Instr.store e (pst - e), .fork (px + 2 + cu.length + 2)])
    (Seg.append_left (Seg.append_left (Seg.append_left (Seg.append_left hseg))))
  have e1 : p + ([Instr.dup] ++ ci).length = pst := by simp; omega
  rw [e1] at hm1
  have a0 : code[pst]? = some (.store e (pst - e)) := by have := hm1 0 (by simp); simpa using this
  have a1 : code[pst+1]? = some (.fork (px + 2 + cu.length + 2)) := by have := hm1 1 (by simp); simpa using this
  have hss : Seg code (pst + 2) cs := by
    have := Seg.append_right (a := [Instr.dup] ++ ci ++ [Instr.store e (pst - e), .fork (px + 2 + cu.length + 2)]) (b := cs)
      (Seg.append_left (Seg.append_left (Seg.append_left hseg)))
    have e2 : p + ([Instr.dup] ++ ci ++ [Instr.store e (pst - e), .fork (px + 2 + cu.length + 2)]).length = pst + 2 := by simp; omega
    rw [e2] at this; exact this
  have hm2 := Seg.append_right (a := [Instr.dup] ++ ci ++ [Instr.store e (pst - e), .fork (px + 2 + cu.length + 2)] ++ cs)
    (b := [Instr.store e (px - e), .load e (pst - e)]) (Seg.append_left (Seg.append_left hseg))
  have e3 : p + ([Instr.dup] ++ ci ++ [Instr.store e (pst - e), .fork (px + 2 + cu.length + 2)] ++ cs).length = px := by simp; omega
  rw [e3] at hm2
  have b0 : code[px]? = some (.store e (px - e)) := by have := hm2 0 (by simp); simpa using this
  have b1 : code[px+1]? = some (.load e (pst - e)) := by have := hm2 1 (by simp); simpa using this
  have hsu : Seg code (px + 2) cu := by
    have := Seg.append_right (a := [Instr.dup] ++ ci ++ [Instr.store e (pst - e), .fork (px + 2 + cu.length + 2)] ++ cs ++
      [Instr.store e (px - e), .load e (pst - e)]) (b := cu) (Seg.append_left hseg)
    have e4 : p + ([Instr.dup] ++ ci ++ [Instr.store e (pst - e), .fork (px + 2 + cu.length + 2)] ++ cs ++
      [Instr.store e (px - e), .load e (pst - e)]).length = px + 2 := by simp; omega
    rw [e4] at this; exact this
  have htl := Seg.append_right (a := [Instr.dup] ++ ci ++ [Instr.store e (pst - e), .fork (px + 2 + cu.length + 2)] ++ cs ++
      [Instr.store e (px - e), .load e (pst - e)] ++ cu) hseg
  have e5 : p + ([Instr.dup] ++ ci ++ [Instr.store e (pst - e), .fork (px + 2 + cu.length + 2)] ++ cs ++
      [Instr.store e (px - e), .load e (pst - e)] ++ cu).length = px + 2 + cu.length := by simp; omega
  rw [e5] at htl
  have t0 : code[px + 2 + cu.length]? = some (.store e (pst - e)) := by have := htl 0 (by simp); simpa using this
  have t1 : code[px + 2 + cu.length + 1]? = some .backtrack := by have := htl 1 (by simp); simpa using this
  have t2 : code[px + 2 + cu.length + 2]? = some .pop := by have := htl 2 (by simp); simpa using this
  have t3 : code[px + 2 + cu.length + 2 + 1]? = some (.load e (pst - e)) := by have := htl 3 (by simp); simpa using this
  have hlen : ([Instr.dup] ++ ci ++ [Instr.store e (pst - e), .fork (px + 2 + cu.length + 2)] ++ cs ++
      [Instr.store e (px - e), .load e (pst - e)] ++ cu ++
      [Instr.store e (pst - e), .backtrack, .pop, .load e (pst - e)]).length = 1 + ci.length + 2 + cs.length + 2 + cu.length + 4 := by
    simp; omega
  rw [hlen] at hoff ⊢
  have hexit : p + (1 + ci.length + 2 + cs.length + 2 + cu.length + 4) = px + 2 + cu.length + 2 + 2 := by omega
  rw [hexit]
  -- registers
  let rs := ft.base + (pst - e)
  let rx := ft.base + (px - e)
  have hrsP : ¬ P rs := by intro h; have := hP _ h; simp only [rs] at this; omega
  have hrxP : ¬ P rx := by intro h; have := hP _ h; simp only [rx] at this; omega
  have hndi : ND (eval defs n g ρ init v).stop := eval_reduce_nd_left hnd
  rw [eval_reduce_of_nd hndi] at hnd ⊢
  have start : Steps code (.run p (.v v :: S) F false none R fr o cp) (.run (p+1) (.v v :: .v v :: S) F false none R fr o cp) :=
    Steps.one (by simp [step, h0])
  refine Yields.steps_left start EqOff.refl ?_
  have yi := ihn init g e (p+1) (by omega) (hci ▸ hsi) hcl.2.1 ρ v (.v v :: S) F R fr o cp P htop hge
    (fun h => hpar (Or.inr (Or.inl h))) (fun a h => by have := hP a h; omega) henv (by rw [hci]; omega) hndi
  rw [hci, hpst] at yi
  have := Yields.bind (R0 := R)
    (f := fun s0 => guardND (eval defs n g ρ src v)
      (reduceL (fun w s => eval defs n g ⟨ρ.clo, (x, w) :: ρ.vars⟩ upd s)
        (eval defs n g ρ src v).stop (eval defs n g ρ src v).outs s0))
    (Oa := Own (base fr) e (p+1) ci.length)
    (Ob := Own (base fr) e pst (2 + cs.length + 2 + cu.length + 4))
    (O := Own (base fr) e p (1 + ci.length + 2 + cs.length + 2 + cu.length + 4))
    (p' := px + 2 + cu.length + 2 + 2) (S := S)
    (by intro i h; obtain ⟨j, h1, h2, h3⟩ := h; exact ⟨j, by omega, by omega, h3⟩)
    (by intro i h; obtain ⟨j, h1, h2, h3⟩ := h; exact ⟨j, by omega, by omega, h3⟩)
    (by intro i h h'; obtain ⟨j, h1, h2, h3⟩ := h; obtain ⟨k, k1, k2, k3⟩ := h'; omega)
    (by intro i h; obtain ⟨j, h1, h2, h3⟩ := h; omega)
    (by intro i h; have := hP i h; refine ⟨by omega, ?_⟩; intro h'; obtain ⟨j, h1, h2, h3⟩ := h'; omega)
    yi
    (fun s0 G R' o1 cp' ho1 hR' hs0 => by
      have hnds : ND (eval defs n g ρ src v).stop := nd_of_guardND hs0
      simp only [guardND_of_nd hnds] at hs0 ⊢
      let R'' := R'.set rs (.v s0)
      have hR'' : EqOn P R' R'' := by
        intro a ha; simp only [R'', Regs.set]; split
        · rename_i h; subst h; exact absurd ha hrsP
        · rfl
      have st1 : Steps code (.run pst (.v s0 :: .v v :: S) G false none R' fr o1 cp')
          (.run (pst + 2) (.v v :: S) (⟨pst + 1, .v v :: S, fr, o1⟩ :: G) false none R'' fr o1 cp') :=
        .head (c' := .run (pst + 1) (.v v :: S) G false none R'' fr o1 cp') (by rw [step_store a0 hres])
          (Steps.one (by simp [step, a1]))
      have ys := ihn src g e (pst + 2) (by omega) (hcs ▸ hss) hcl.1 ρ v S (⟨pst + 1, .v v :: S, fr, o1⟩ :: G) R'' fr o1 cp' P htop hge
        (fun h => hpar (Or.inl h)) (fun a h => by have := hP a h; omega) ((henv.congr hR').congr hR'') (by rw [hcs]; omega) hnds
      rw [hcs, hpx] at ys
      have key := reduce_src_aux ys
        (O := Own (base fr) e pst (2 + cs.length + 2 + cu.length + 4)) (K := P) (F := G) (pfk := pst + 1) (v := v)
        (L := px + 2 + cu.length + 2) (sid := e) (i := pst - e) (f := ft)
        (upd := fun w s => eval defs n g ⟨ρ.clo, (x, w) :: ρ.vars⟩ upd s) (Rref := R'')
        (eval defs n g ρ src v).stop s0 rfl rfl a1 t2 t3 hres
        (by intro h; obtain ⟨j, j1, j2, j3⟩ := h; omega)
        (by omega)
        (by intro a h; obtain ⟨j, h1, h2, h3⟩ := h; exact ⟨j, by omega, by omega, h3⟩)
        (by intro a h hw
            have := hP a h
            rcases hw with hw | hw
            · obtain ⟨j, j1, j2, j3⟩ := hw; omega
            · omega)
        (by
          -- one pass through the loop body
          intro w G' R1 oo cpp s hoo hR1s hR1P hndu
          let R1x := R1.set rx (.v w)
          let P' : Nat → Prop := fun a => P a ∨ a = rx
          have hR1x : EqOn P R1 R1x := by
            intro a ha; simp only [R1x, Regs.set]; split
            · rename_i h; subst h; exact absurd ha hrxP
            · rfl
          have hne : rs ≠ rx := by simp only [rs, rx]; omega
          have hR1xs : R1x rs = .v s := by
            have : R1 rs = .v s := hR1s
            simp [R1x, Regs.set, hne, this]
          have henv' : EnvOK code entry nf P' R1x fr ⟨ρ.clo, (x, w) :: ρ.vars⟩ ⟨g.fn, (x, px - e) :: g.vars⟩ := by
            have he := (((henv.congr hR').congr hR'').congr hR1P).congr hR1x
            refine ⟨he.1.monoP (fun a h => Or.inl h), ?_⟩
            intro y r hy
            by_cases hyx : x = y
            · subst hyx
              simp only [lookup, if_true, Option.some.injEq] at hy
              subst hy
              exact ⟨w, by simp [lookup], by simp [R1x, Regs.set, rx, hbase], Or.inr (by simp [rx, hbase])⟩
            · simp only [lookup, hyx, if_false] at hy
              obtain ⟨u, h1, h2, h3⟩ := he.2 y r hy
              exact ⟨u, by simp [lookup, hyx, h1], h2, Or.inl h3⟩
          have hirr := eval_ctx_irrel defs n upd g ⟨g.fn, (x, px - e) :: g.vars⟩ ⟨ρ.clo, (x, w) :: ρ.vars⟩ s rfl
          simp only [hirr] at hndu ⊢
          have yu := ihn upd ⟨g.fn, (x, px - e) :: g.vars⟩ e (px + 2) (by omega) (hcu ▸ hsu) (by simpa using hcl.2.2)
            ⟨ρ.clo, (x, w) :: ρ.vars⟩ s S G' R1x fr oo cpp P' htop hge
            (fun h => hpar (Or.inr (Or.inr h)))
            (fun a h => by
              rcases h with h | h
              · have := hP a h; omega
              · simp only [h, rx, hbase]; omega)
            henv' (by rw [hcu]; omega) hndu
          rw [hcu] at yu
          obtain ⟨R1', hs', hlast, hfr⟩ := collect_last (sid := e) (i := pst - e) hres
            (by intro h; obtain ⟨j, j1, j2, j3⟩ := h; omega)
            (by intro h; rcases h with h | h
                · exact hrsP h
                · exact hne h)
            (by omega) t0 t1 yu s hR1xs
          refine ⟨R1', ?_, hlast, ?_, ?_, ?_⟩
          · refine .head (c' := .run (px + 1) S G' false none R1x fr oo cpp) (by rw [step_store b0 hres]) ?_
            refine .head (c' := .run (px + 2) (.v s :: S) G' false none R1x fr oo cpp) (by rw [step_load b1 hres, hR1xs]) ?_
            exact hs'
          · intro a ha
            have h1 : a ≠ rx := fun h => ha (Or.inl ⟨px, by omega, by omega, by simp [h, rx, hbase]⟩)
            have h2 : ¬ (Wr (Own (base fr) e (px + 2) cu.length) oo a ∨ a = ft.base + (pst - e)) := by
              intro h; rcases h with (h | h) | h
              · apply ha; left; obtain ⟨j, j1, j2, j3⟩ := h; exact ⟨j, by omega, by omega, j3⟩
              · exact ha (Or.inr (by omega))
              · apply ha; left; exact ⟨pst, by omega, by omega, by simp [h, hbase]⟩
            rw [← hfr a h2]; simp [R1x, Regs.set, h1]
          · intro a ha
            have hlt : a < base fr + (pst + 2 - e) ∨ (o1 ≤ a ∧ a < oo) ∨ (∃ j, pst + 2 ≤ j ∧ j < px ∧ a = base fr + (j - e)) := by
              rcases ha with (ha | ha) | ha
              · obtain ⟨j, j1, j2, j3⟩ := ha; exact Or.inr (Or.inr ⟨j, j1, by omega, j3⟩)
              · have := hP a ha; exact Or.inl (by omega)
              · exact Or.inr (Or.inl ha)
            have h1 : a ≠ rx := by
              simp only [rx, hbase]
              rcases hlt with h | h | ⟨j, j1, j2, j3⟩
              · rcases ha with (ha | ha) | ha
                · obtain ⟨j, j1, j2, j3⟩ := ha; omega
                · intro h'; exact hrxP (by simpa [rx, hbase] using h' ▸ ha)
                · omega
              · omega
              · omega
            have h2 : ¬ (Wr (Own (base fr) e (px + 2) cu.length) oo a ∨ a = ft.base + (pst - e)) := by
              intro h; rcases h with (h | h) | h
              · obtain ⟨k, k1, k2, k3⟩ := h
                rcases ha with (ha | ha) | ha
                · obtain ⟨j, j1, j2, j3⟩ := ha; omega
                · have := hP a ha; omega
                · omega
              · rcases ha with (ha | ha) | ha
                · obtain ⟨j, j1, j2, j3⟩ := ha; omega
                · have := hP a ha; omega
                · omega
              · rcases ha with (ha | ha) | ha
                · obtain ⟨j, j1, j2, j3⟩ := ha; omega
                · exact hrsP (by simpa [rs] using h ▸ ha)
                · omega
            rw [← hfr a h2]; simp [R1x, Regs.set, h1]
          · intro a ha
            have hpa := hP a ha
            have h1 : a ≠ rx := fun h => hrxP (h ▸ ha)
            have h2 : ¬ (Wr (Own (base fr) e (px + 2) cu.length) oo a ∨ a = ft.base + (pst - e)) := by
              intro h; rcases h with (h | h) | h
              · obtain ⟨k, k1, k2, k3⟩ := h; omega
              · omega
              · exact hrsP (by simpa [rs] using h ▸ ha)
            rw [← hfr a h2]; simp [R1x, Regs.set, h1])
        EqOn.refl (by simp [R'', Regs.set, rs]) hs0
      refine Yields.steps_left st1 ?_ key
      intro a ha
      have h1 : a ≠ rs := fun h => ha (Or.inl ⟨pst, by omega, by omega, by simp [h, rs, hbase]⟩)
      simp [R'', Regs.set, h1])
    (eval defs n g ρ init v).stop rfl EqOn.refl hnd
  exact this

end Gojq.MiniVM

/-
  Helper lemmas for Props/C13Shipped.lean, part 3: `path(..)`, `paths` as shipped, on every value
  whose integers fit a Go `int` (`IntsOK`: `pathIntact` compares `*big.Int` by pointer, which the
  reference evaluator leaves undecided).
-/
import Gojq.Proofs.PairsShippedRec
namespace Gojq.Pairs
open Gojq Gojq.Spec Gojq.Pairs.Tie

/-! ### integers that fit a Go `int` -/

/-- a scalar on which `pathIntact` is decided by the model: not an integer outside the Go `int` range -/
def ScalarOK (w : JV) : Prop := ∀ i, w = .num (.int i) → InRange i

mutual
/-- every integer, at any depth, fits a Go `int` -/
def IntsOK : JV → Prop
  | .arr xs => IntsOKL xs
  | .obj kvs => IntsOKM kvs
  | .num (.int i) => InRange i
  | .num _ => True
  | .null => True
  | .bool _ => True
  | .str _ => True
def IntsOKL : List JV → Prop
  | [] => True
  | x :: xs => IntsOK x ∧ IntsOKL xs
def IntsOKM : List (Bytes × JV) → Prop
  | [] => True
  | (_, x) :: kvs => IntsOK x ∧ IntsOKM kvs
end

theorem ScalarOK_arr (xs : List JV) : ScalarOK (.arr xs) := by intro i h; cases h
theorem ScalarOK_obj (kvs : List (Bytes × JV)) : ScalarOK (.obj kvs) := by intro i h; cases h

mutual
theorem nodes_scalarOK (post : Bool) : ∀ (v : JV) (rp : List JV), IntsOK v → ∀ n ∈ nodes post rp v, ScalarOK n.2 ∧ IntsOK n.2
  | .null, rp, h, n, hn => by
    simp only [nodes, List.mem_singleton] at hn; subst hn; exact ⟨(by intro i h; cases h), h⟩
  | .bool b, rp, h, n, hn => by
    simp only [nodes, List.mem_singleton] at hn; subst hn; exact ⟨(by intro i h; cases h), h⟩
  | .str b, rp, h, n, hn => by
    simp only [nodes, List.mem_singleton] at hn; subst hn; exact ⟨(by intro i h; cases h), h⟩
  | .num x, rp, h, n, hn => by
    simp only [nodes, List.mem_singleton] at hn; subst hn
    refine ⟨?_, h⟩
    intro i hi
    simp only [JV.num.injEq] at hi
    subst hi
    simpa only [IntsOK] using h
  | .arr xs, rp, h, n, hn => by
    have hl := nodesL_scalarOK post xs rp 0 (by simpa only [IntsOK] using h) n
    simp only [nodes] at hn
    cases post with
    | false =>
      simp only [Bool.false_eq_true, if_false, List.mem_cons] at hn
      rcases hn with rfl | hn
      · exact ⟨ScalarOK_arr xs, h⟩
      · exact hl hn
    | true =>
      simp only [if_true, List.mem_append, List.mem_singleton] at hn
      rcases hn with hn | rfl
      · exact hl hn
      · exact ⟨ScalarOK_arr xs, h⟩
  | .obj kvs, rp, h, n, hn => by
    have hl := nodesM_scalarOK post kvs rp (by simpa only [IntsOK] using h) n
    simp only [nodes] at hn
    cases post with
    | false =>
      simp only [Bool.false_eq_true, if_false, List.mem_cons] at hn
      rcases hn with rfl | hn
      · exact ⟨ScalarOK_obj kvs, h⟩
      · exact hl hn
    | true =>
      simp only [if_true, List.mem_append, List.mem_singleton] at hn
      rcases hn with hn | rfl
      · exact hl hn
      · exact ⟨ScalarOK_obj kvs, h⟩
theorem nodesL_scalarOK (post : Bool) : ∀ (xs : List JV) (rp : List JV) (i : Nat), IntsOKL xs →
    ∀ n ∈ nodesL post rp i xs, ScalarOK n.2 ∧ IntsOK n.2
  | [], _, _, _, n, hn => by simp [nodesL] at hn
  | x :: xs, rp, i, h, n, hn => by
    simp only [IntsOKL] at h
    simp only [nodesL, List.mem_append] at hn
    rcases hn with hn | hn
    · exact nodes_scalarOK post x _ h.1 n hn
    · exact nodesL_scalarOK post xs rp (i + 1) h.2 n hn
theorem nodesM_scalarOK (post : Bool) : ∀ (kvs : List (Bytes × JV)) (rp : List JV), IntsOKM kvs →
    ∀ n ∈ nodesM post rp kvs, ScalarOK n.2 ∧ IntsOK n.2
  | [], _, _, n, hn => by simp [nodesM] at hn
  | (k, x) :: kvs, rp, h, n, hn => by
    simp only [IntsOKM] at h
    simp only [nodesM, List.mem_append] at hn
    rcases hn with hn | hn
    · exact nodes_scalarOK post x _ h.1 n hn
    · exact nodesM_scalarOK post kvs rp h.2 n hn
end

/-! ### `pathIntact` on the states of a walk -/

theorem pathIntact_self (x : St) (c : PCtx) (hw : c.w = x.v) (hwid : c.wid = x.id) (r : Nat) (p : List JV)
    (hid : x.id = .known r p) (hv : ScalarOK x.v) : pathIntact x c = some true := by
  cases hx : x.v with
  | arr xs => exact pathIntact_container x c _ (by rw [hx]; exact iterItems_arr xs) hw hwid r p hid
  | obj kvs => exact pathIntact_container x c _ (by rw [hx]; exact iterItems_obj kvs) hw hwid r p hid
  | null => simp only [pathIntact, hw, hx]; rfl
  | bool b => simp only [pathIntact, hw, hx]; exact congrArg some (JV.beq_self _)
  | str b => simp only [pathIntact, hw, hx]; exact congrArg some (JV.beq_self _)
  | num m =>
    cases m with
    | int i =>
      have := hv i hx
      simp only [pathIntact, hw, hx, and_self, beq_self_eq_true]
      rw [if_pos this]
    | flt q => simp only [pathIntact, hw, hx, beq_self_eq_true]
    | nzero => simp only [pathIntact, hw, hx]
    | nan => simp only [pathIntact, hw, hx]
    | inf b => simp only [pathIntact, hw, hx, beq_self_eq_true]

/-- what `path(f)` emits for the node `(q, w)` of a walk started at the tracked state `s0` -/
theorem pathEmit_desc (s s0 : St) (h0 : Trk s0) (c0 : PCtx) (hc : s0.ctx = some c0) (q : List JV) (w : JV)
    (hw : ScalarOK w) : pathEmit s (desc s0 q w) = .one (computed s (.arr (c0.path ++ q))) := by
  obtain ⟨_, _, r, p, hid⟩ := h0.ctx c0 hc
  have hi := pathIntact_self (desc s0 q w) { path := c0.path ++ q, w := w, wid := q.foldl childIdent s0.id } rfl rfl
    r (p ++ q) (by simp only [desc, hid, foldl_childIdent_known]) hw
  simp only [pathEmit, desc, hc, Option.map_some] at hi ⊢
  simp only [hi]

/-! ### `path(f)` -/

theorem find_path : cfgGo.builtins.find "path" 1 = none := by rfl

theorem evalCall_path (n : Nat) (env : Env) (fq : Query) (s : St) (h : lookupCall "path" 1 env.bs = .none) :
    evalCall (n + 1) cfgGo env "path" [fq] s = (eval n cfgGo env fq (pathStart n s)).bind fun x => pathEmit s x := by
  have hsw : "path".startsWith "$" = false := by decide +kernel
  simp only [evalCall_succ, List.length_cons, List.length_nil, Nat.zero_add, h, hsw, Bool.false_eq_true, if_false, find_path]
  rfl

theorem trk_pathStart (n : Nat) (s : St) : Trk (pathStart n s) := by
  refine ⟨rfl, ?_⟩
  intro c hc
  simp only [pathStart, Option.some.injEq] at hc
  subst hc
  refine ⟨rfl, rfl, ?_⟩
  simp only [pathStart]
  cases s.id with
  | known r p => exact ⟨r, p, rfl⟩
  | fresh => exact ⟨n + 1, [], rfl⟩
  | unknown => exact ⟨n + 1, [], rfl⟩

theorem pathStart_ctx (n : Nat) (s : St) : ∃ c0, (pathStart n s).ctx = some c0 ∧ c0.path = [] := ⟨_, rfl, rfl⟩
theorem pathStart_v (n : Nat) (s : St) : (pathStart n s).v = s.v := rfl

/-- `path(f)` for an `f` that walks the value: the relative paths of the nodes, in order -/
theorem evalCall_path_walk (n : Nat) (env : Env) (fq : Query) (s : St) (post : Bool)
    (h : lookupCall "path" 1 env.bs = .none) (hv : IntsOK s.v)
    (hf : eval n cfgGo env fq (pathStart n s) = ⟨(nodes post [] s.v).map (descN (pathStart n s)), .done⟩) :
    evalCall (n + 1) cfgGo env "path" [fq] s = ⟨(nodes post [] s.v).map fun nd => computed s (.arr nd.1), .done⟩ := by
  rw [evalCall_path n env fq s h, hf]
  obtain ⟨c0, hc0, hp0⟩ := pathStart_ctx n s
  simp only [Res.bind]
  rw [bindList_ones (fun x => pathEmit s x)
    (fun x => computed s (.arr (match x.ctx with | some c => c.path | none => [])))]
  · simp only [List.map_map]
    congr 1
  · intro x hx
    obtain ⟨nd, hnd, rfl⟩ := List.mem_map.mp hx
    refine ⟨rfl, ?_⟩
    have hok := (nodes_scalarOK post s.v [] hv nd hnd).1
    rw [descN, pathEmit_desc s _ (trk_pathStart n s) c0 hc0 nd.1 nd.2 hok]
    simp only [desc, hc0, Option.map_some]

/-! ### the relative paths of the pre-order nodes are `[path(..)]` of Model/Pairs.lean -/

mutual
theorem nodes_paths : ∀ (v : JV) (rp : List JV), (nodes false rp v).map (·.1) = recPathsFrom rp v
  | .null, _ => rfl
  | .bool _, _ => rfl
  | .num _, _ => rfl
  | .str _, _ => rfl
  | .arr xs, rp => by
    simp only [nodes, Bool.false_eq_true, if_false, List.map_cons, recPathsFrom, nodesL_paths xs rp 0]
  | .obj kvs, rp => by
    simp only [nodes, Bool.false_eq_true, if_false, List.map_cons, recPathsFrom, nodesM_paths kvs rp]
theorem nodesL_paths : ∀ (xs : List JV) (rp : List JV) (i : Nat), (nodesL false rp i xs).map (·.1) = recPathsL rp i xs
  | [], _, _ => rfl
  | x :: xs, rp, i => by
    simp only [nodesL, List.map_append, recPathsL, nodesL_paths xs rp (i + 1)]
    rw [show jvInt (i : Nat) = Stream.idxJV i from rfl, nodes_paths x]
theorem nodesM_paths : ∀ (kvs : List (Bytes × JV)) (rp : List JV), (nodesM false rp kvs).map (·.1) = recPathsM rp kvs
  | [], _ => rfl
  | (k, x) :: kvs, rp => by
    simp only [nodesM, List.map_append, recPathsM, nodesM_paths kvs rp, nodes_paths x]
end

/-- `path(..)` -/
def pathRecurseQ : Query := (Query.term [] (Term.mk (TermCore.func "path" [recurseQ]) []))

/-- **`path(..)` as shipped**: the paths `recPaths` of Model/Pairs.lean, in order -/
theorem eval_pathRecurseQ (m : Nat) (env : Env) (s : St) (hv : IntsOK s.v) (hm : 10 * depth s.v + 32 ≤ m)
    (hP : lookupCall "path" 1 env.bs = .none) (hR : lookupCall "recurse" 0 env.bs = .none) :
    eval m cfgGo env pathRecurseQ s = ⟨(recPaths s.v).map fun p => computed s (.arr p), .done⟩ := by
  obtain ⟨n, rfl⟩ : ∃ n, m = n + 4 := ⟨m - 4, by omega⟩
  simp only [pathRecurseQ, eval_term, Env.defs, List.foldl_nil, evalTerm_succ, evalTermRev, List.reverse_nil, evalCore_succ]
  rw [evalCall_path_walk n env recurseQ s false hP hv
    (eval_recurseQ n env _ (trk_pathStart n s) (by rw [pathStart_v]; omega) hR)]
  rw [recPaths, ← nodes_paths s.v [], List.map_map]
  rfl

/-! ### `select(f)` -/

/-- `if f then . else empty end` -/
def selectBody : Query := (Query.term [] (Term.mk (TermCore.if_ (Query.term [] (Term.mk (TermCore.func "f" []) [])) (Query.term [] (Term.mk TermCore.identity [])) [] (some (Query.term [] (Term.mk (TermCore.func "empty" []) [])))) []))

theorem shipped_select : Generated.Builtins.go_select_a01 = .mk "select" ["f"] selectBody := rfl

theorem find_select : cfgGo.builtins.find "select" 1 = some (.mk "select" ["f"] selectBody) := by
  rw [← shipped_select]; rfl

theorem evalCall_select (n : Nat) (env : Env) (fq : Query) (s : St) (h : lookupCall "select" 1 env.bs = .none) :
    evalCall (n + 2) cfgGo env "select" [fq] s =
      eval n cfgGo (.mk [.clo "f" fq env, .fn "select" ["f"] selectBody true]) selectBody s := by
  have hsw : "select".startsWith "$" = false := by decide +kernel
  have hf : "f".startsWith "$" = false := by decide +kernel
  simp only [evalCall_succ, List.length_cons, List.length_nil, Nat.zero_add, h, hsw, Bool.false_eq_true, if_false, find_select,
    callDef_succ, FuncDef.name, FuncDef.params, FuncDef.body, List.zip_cons_cons, List.zip_nil_right, List.foldl_cons,
    List.foldl_nil, List.filter_cons, List.filter_nil, hf, bindValsK]
  rfl

/-- `select(f)` when `f`, run without tracking on the input, yields the one boolean `b` -/
theorem evalCall_select_test (n : Nat) (env : Env) (fq : Query) (s : St) (b : Bool) (i : Ident)
    (h : lookupCall "select" 1 env.bs = .none)
    (hf : eval (n + 1) cfgGo env fq (withCtx none s) = .one { v := .bool b, id := i }) :
    evalCall (n + 10) cfgGo env "select" [fq] s = if b then .one s else .empty := by
  have hsw : "empty".startsWith "$" = false := by decide +kernel
  rw [evalCall_select (n + 8) env fq s h]
  simp only [selectBody, eval_term, Env.defs, List.foldl_nil, evalTerm_succ, evalTermRev, List.reverse_nil, evalCore_succ,
    evalCall_succ (n + 1) cfgGo _ "f", List.length_nil, Env.bs, lookupCall, beq_self_eq_true, Bool.and_self, if_true, hf,
    one_bind_mk]
  cases b with
  | true => simp only [isFalsy, Bool.not_false, if_true]
  | false =>
    simp only [isFalsy, Bool.not_true, Bool.false_eq_true, if_false, evalCall_succ (n + 1) cfgGo _ "empty", List.length_nil,
      Env.bs, lookupCall, hsw, find_empty]
    rfl

theorem bindList_filter (f : St → Res) (φ : St → Bool) : ∀ xs : List St,
    (∀ x ∈ xs, x.pend = false ∧ f x = if φ x then .one x else .empty) →
    Res.bindList f .done xs = ⟨xs.filter φ, .done⟩
  | [], _ => rfl
  | x :: xs, h => by
    have hx := h x (by simp)
    rw [bindList_cons_nopend f .done x xs hx.1, hx.2, bindList_filter f φ xs (fun y hy => h y (by simp [hy]))]
    cases hφ : φ x <;> simp [Res.one, Res.empty, List.filter, hφ]

/-! ### `paths` -/

/-- `. != []` -/
def neNilQ : Query := (Query.binop [] Op.ne (Query.term [] (Term.mk TermCore.identity [])) (Query.term [] (Term.mk (TermCore.array none) [])))

theorem eval_neNilQ (m : Nat) (hm : 5 ≤ m) (env : Env) (p : List JV) (id : Ident) :
    ∃ i, eval m cfgGo env neNilQ { v := .arr p, id := id } = .one { v := .bool (!p.isEmpty), id := i } := by
  obtain ⟨n, rfl⟩ : ∃ n, m = n + 5 := ⟨m - 5, by omega⟩
  have hne : ("_notequal" == "_add") = false := by decide
  have hc : callNative "_notequal" (.arr p) [.arr p, .arr []] = some (pure (.bool (opNe (.arr p) (.arr [])))) := rfl
  have hop : opNe (.arr p) (.arr []) = !p.isEmpty := by
    cases p with
    | nil => rfl
    | cons a p => rfl
  simp only [neNilQ, eval_binop, Env.defs, List.foldl_nil, evalBinNative_eq, eval_term, evalTerm_succ, evalTermRev,
    List.reverse_nil, evalCore_succ, computed, one_bind_mk, binApply, hne, Bool.false_and, Bool.false_eq_true, if_false, hc,
    nativeRes, pure, Except.pure, resultOf, hop]
  exact ⟨_, rfl⟩

/-- `path(..) | select(. != [])` -/
def pathsBody : Query := (Query.binop [] Op.pipe pathRecurseQ (Query.term [] (Term.mk (TermCore.func "select" [neNilQ]) [])))

theorem shipped_paths : Generated.Builtins.go_paths_a00 = .mk "paths" [] pathsBody := rfl

theorem find_paths : cfgGo.builtins.find "paths" 0 = some (.mk "paths" [] pathsBody) := by
  rw [← shipped_paths]; rfl

theorem evalCall_paths (n : Nat) (env : Env) (s : St) (h : lookupCall "paths" 0 env.bs = .none) :
    evalCall (n + 2) cfgGo env "paths" [] s = eval n cfgGo (.mk [.fn "paths" [] pathsBody true]) pathsBody s := by
  have hsw : "paths".startsWith "$" = false := by decide +kernel
  simp only [evalCall_succ, List.length_nil, h, hsw, Bool.false_eq_true, if_false, find_paths, callDef_succ,
    FuncDef.name, FuncDef.params, FuncDef.body, List.zip_nil_right, List.filter_nil, List.foldl_nil, bindValsK]
  rfl

theorem filter_recPaths (v : JV) : (recPaths v).filter (fun p => !p.isEmpty) = allPaths v := by
  rw [recPaths_eq]
  simp only [List.filter, List.isEmpty_nil, Bool.not_true]
  apply List.filter_eq_self.mpr
  intro p hp
  have := allPaths_ne_nil v p hp
  cases p with
  | nil => exact absurd rfl this
  | cons a p => rfl

/-- the body of `paths` in an environment that shadows none of the names it uses -/
theorem eval_pathsBody (m : Nat) (env : Env) (s : St) (hv : IntsOK s.v) (hm : 10 * depth s.v + 40 ≤ m)
    (hP : lookupCall "path" 1 env.bs = .none) (hR : lookupCall "recurse" 0 env.bs = .none)
    (hS : lookupCall "select" 1 env.bs = .none) :
    eval m cfgGo env pathsBody s = ⟨(allPaths s.v).map fun p => computed s (.arr p), .done⟩ := by
  obtain ⟨n, rfl⟩ : ∃ n, m = n + 14 := ⟨m - 14, by omega⟩
  simp only [pathsBody, eval_binop, Env.defs, List.foldl_nil]
  rw [eval_pathRecurseQ (n + 13) env s hv (by omega) hP hR]
  simp only [Res.bind, eval_term, Env.defs, List.foldl_nil, evalTerm_succ, evalTermRev, List.reverse_nil, evalCore_succ]
  rw [bindList_filter _ (fun x => match x.v with | .arr p => !p.isEmpty | _ => false)]
  · rw [← filter_recPaths s.v, List.filter_map]
    congr 1
  · intro x hx
    obtain ⟨p, _, rfl⟩ := List.mem_map.mp hx
    refine ⟨rfl, ?_⟩
    obtain ⟨i, hi⟩ := eval_neNilQ (n + 1) (by omega) env p .fresh
    exact evalCall_select_test n env neNilQ (computed s (.arr p)) (!p.isEmpty) i hS hi

/-- `paths` -/
def pathsQ : Query := (Query.term [] (Term.mk (TermCore.func "paths" []) []))

/-- **`paths` as shipped**: the paths `allPaths` of Model/Pairs.lean, in order -/
theorem eval_pathsQ (m : Nat) (env : Env) (s : St) (hv : IntsOK s.v) (hm : 10 * depth s.v + 45 ≤ m)
    (h : lookupCall "paths" 0 env.bs = .none) :
    eval m cfgGo env pathsQ s = ⟨(allPaths s.v).map fun p => computed s (.arr p), .done⟩ := by
  obtain ⟨n, rfl⟩ : ∃ n, m = n + 5 := ⟨m - 5, by omega⟩
  simp only [pathsQ, eval_term, Env.defs, List.foldl_nil, evalTerm_succ, evalTermRev, List.reverse_nil, evalCore_succ]
  rw [evalCall_paths n env s h]
  exact eval_pathsBody n _ s hv (by omega) rfl rfl rfl

end Gojq.Pairs

/- Helper lemmas for C12: removing SGR sequences and insignificant white space from the
   command's output gives the library encoder's text; whole-output byte properties.
   Core Lean only. -/
import Gojq.Proofs.EncodeParse
import Gojq.Proofs.Encode
namespace Gojq.Encode
open Gojq

/-! ### bytes of scalars -/

/-- a byte that is neither white space, a quote, a backslash, ESC nor a control/non-ASCII byte -/
def PlainByte (x : UInt8) : Prop :=
  isWs x = false ∧ x ≠ cQuote ∧ x ≠ cEsc ∧ 0x20 ≤ x.toNat ∧ x.toNat < 0x80

theorem numByte_plain {x : UInt8} (h : NumByte x) : PlainByte x := by
  rcases h with h | rfl | rfl | rfl | rfl
  · have hx : 0x30 ≤ x.toNat ∧ x.toNat ≤ 0x39 := by simpa [isDigit] using h
    have ne : ∀ c : UInt8, (c.toNat < 0x30 ∨ 0x39 < c.toNat) → x ≠ c := fun c hc => ne_of_toNat_ne (by omega)
    refine ⟨?_, ne _ (by decide), ne _ (by decide), by omega, by omega⟩
    simp only [isWs, Bool.or_eq_false_iff, decide_eq_false_iff_not]
    exact ⟨⟨⟨ne _ (by decide), ne _ (by decide)⟩, ne _ (by decide)⟩, ne _ (by decide)⟩
  all_goals (unfold PlainByte; decide)

theorem encodeNum_plain (n : Num) : ∀ x ∈ encodeNum n, PlainByte x := by
  by_cases hn : n = .nan
  · subst hn; unfold PlainByte; decide
  by_cases hm : modelledNum n = true
  · obtain ⟨ng, ip, fp, ex, r, h1, h2, _⟩ := encodeNum_shape n hn hm
    rw [h1]; exact fun x hx => numByte_plain (numText_bytes h2 x hx)
  · cases n with
    | flt q =>
      have : encodeFloat q = none := by
        simp only [modelledNum] at hm
        cases h : encodeFloat q with
        | none => rfl
        | some _ => rw [h] at hm; simp at hm
      simp only [encodeNum, this, Option.getD_none]
      unfold PlainByte; decide
    | _ => simp [modelledNum] at hm

theorem encodeString_noCtl (s : Bytes) : ∀ x ∈ encodeString s, 0x20 ≤ x.toNat := by
  intro x hx
  have hs := shapes_noCtl (pieces_shapes (encStrAux_pieces s.length s (Nat.le_refl _)))
  simp only [encodeString, List.mem_cons, List.mem_append, List.mem_nil_iff, or_false] at hx
  rcases hx with rfl | hx | rfl
  · decide
  · exact hs x hx
  · decide

/-! ### SGR sequences -/

/-- colour parameters as `validColor` (cli/color.go) accepts them: digits and `;` -/
def ColorParam (p : Bytes) : Prop := ∀ x ∈ p, isDigit x = true ∨ x = 0x3b

theorem ColorParam.noM {p : Bytes} (h : ColorParam p) : ∀ x ∈ p, x ≠ 0x6d := by
  intro x hx
  rcases h x hx with h | rfl
  · exact isDigit_ne h (by decide)
  · decide

theorem ColorParam.ascii {p : Bytes} (h : ColorParam p) : ∀ x ∈ p, x.toNat < 0x80 := by
  intro x hx
  rcases h x hx with h | rfl
  · have : 0x30 ≤ x.toNat ∧ x.toNat ≤ 0x39 := by simpa [isDigit] using h
    omega
  · decide

/-- a colour as the encoder writes it: absent, or `newColor p` with valid parameters -/
def ColOK (oc : Option Bytes) : Prop :=
  ∀ c, oc = some c → ∃ p, c = Cli.newColor p ∧ ColorParam p

/-- every colour of the option record is an SGR sequence -/
structure OptsOK (o : Cli.Opts) : Prop where
  null : ColOK (o.col (·.null))
  false_ : ColOK (o.col (·.false_))
  true_ : ColOK (o.col (·.true_))
  number : ColOK (o.col (·.number))
  string : ColOK (o.col (·.string))
  objectKey : ColOK (o.col (·.objectKey))
  array : ColOK (o.col (·.array))
  object : ColOK (o.col (·.object))

theorem sgr_skip : ∀ (p t : Bytes), (∀ x ∈ p, x ≠ 0x6d) → stripSGRGo true (p ++ 0x6d :: t) = stripSGRGo false t
  | [], t, _ => by simp [stripSGRGo]
  | b :: p, t, h => by
    simp only [List.cons_append, stripSGRGo, if_neg (h b (by simp))]
    exact sgr_skip p t (fun x hx => h x (by simp [hx]))

theorem sgr_color (p t : Bytes) (h : ∀ x ∈ p, x ≠ 0x6d) : stripSGRGo false (Cli.newColor p ++ t) = stripSGRGo false t := by
  have : Cli.newColor p ++ t = cEsc :: 0x5b :: (p ++ 0x6d :: t) := by simp [Cli.newColor]
  rw [this]
  simp only [stripSGRGo, if_true]
  rw [if_neg (by decide)]
  exact sgr_skip p t h

theorem sgr_reset (t : Bytes) : stripSGRGo false (Cli.resetColor ++ t) = stripSGRGo false t :=
  sgr_color _ t (by decide)

theorem sgr_tok (bs : Bytes) (oc : Option Bytes) (t : Bytes) (hc : ColOK oc) (hb : ∀ x ∈ bs, x ≠ cEsc) :
    stripSGRGo false (Cli.tok bs oc ++ t) = bs ++ stripSGRGo false t := by
  cases oc with
  | none => simpa [Cli.tok] using sgr_clean bs t hb
  | some c =>
    obtain ⟨p, rfl, hp⟩ := hc c rfl
    simp only [Cli.tok, List.append_assoc]
    rw [sgr_color p _ hp.noM, sgr_clean bs _ hb, sgr_reset]

theorem plain_ne_esc {bs : Bytes} (h : ∀ x ∈ bs, PlainByte x) : ∀ x ∈ bs, x ≠ cEsc := fun x hx => (h x hx).2.2.1

theorem noCtl_ne_esc {bs : Bytes} (h : ∀ x ∈ bs, 0x20 ≤ x.toNat) : ∀ x ∈ bs, x ≠ cEsc :=
  fun x hx => ne_of_toNat_ne (by have := h x hx; simp [cEsc]; omega)

theorem newline_ne_esc (o : Cli.Opts) (level : Nat) : ∀ x ∈ Cli.newline o level, x ≠ cEsc := by
  intro x hx
  unfold Cli.newline at hx
  split at hx
  · simp only [List.mem_cons, List.mem_replicate] at hx
    rcases hx with rfl | ⟨_, rfl⟩
    · decide
    · unfold Cli.Opts.unit; split <;> decide
  · cases hx

/-- the same options without colours -/
def mono (o : Cli.Opts) : Cli.Opts := { o with color := none }

theorem mono_col (o : Cli.Opts) (f : Cli.Colors → Option Bytes) : (mono o).col f = none := rfl
theorem mono_newline (o : Cli.Opts) (l : Nat) : Cli.newline (mono o) l = Cli.newline o l := rfl

theorem tok_none (bs : Bytes) : Cli.tok bs none = bs := rfl

theorem numColor_ok (o : Cli.Opts) (ho : OptsOK o) (n : Num) : ColOK (Cli.numColor o n) := by
  cases n <;> simp only [Cli.numColor] <;> first | exact ho.null | exact ho.number

theorem numColor_mono (o : Cli.Opts) (n : Num) : Cli.numColor (mono o) n = none := by
  cases n <;> rfl

open Cli in
mutual
  theorem sgr_render (o : Opts) (ho : OptsOK o) (l : Nat) : ∀ (v : JV) (rest : Bytes),
      stripSGRGo false (render o l v ++ rest) = render (mono o) l v ++ stripSGRGo false rest
    | .null, rest => by
      simp only [render, mono_col, tok_none]
      exact sgr_tok _ _ _ ho.null (by decide)
    | .bool true, rest => by
      simp only [render, mono_col, tok_none]
      exact sgr_tok _ _ _ ho.true_ (by decide)
    | .bool false, rest => by
      simp only [render, mono_col, tok_none]
      exact sgr_tok _ _ _ ho.false_ (by decide)
    | .num n, rest => by
      simp only [render, numColor_mono, tok_none]
      exact sgr_tok _ _ _ (numColor_ok o ho n) (plain_ne_esc (encodeNum_plain n))
    | .str s, rest => by
      simp only [render, mono_col, tok_none]
      exact sgr_tok _ _ _ ho.string (noCtl_ne_esc (encodeString_noCtl s))
    | .arr xs, rest => by
      simp only [render, mono_col, tok_none, List.append_assoc, mono_newline]
      rw [sgr_tok _ _ _ ho.array (by decide), sgr_renderElems o ho (l + 1) xs true]
      cases xs with
      | nil => simp only [List.isEmpty_nil, if_true, List.nil_append]; rw [sgr_tok _ _ _ ho.array (by decide)]
      | cons x xs =>
        simp only [List.isEmpty_cons, Bool.false_eq_true, if_false]
        rw [sgr_clean _ _ (newline_ne_esc o l), sgr_tok _ _ _ ho.array (by decide)]
    | .obj kvs, rest => by
      simp only [render, mono_col, tok_none, List.append_assoc, mono_newline]
      rw [sgr_tok _ _ _ ho.object (by decide), sgr_renderMembers o ho (l + 1) kvs true]
      cases kvs with
      | nil => simp only [List.isEmpty_nil, if_true, List.nil_append]; rw [sgr_tok _ _ _ ho.object (by decide)]
      | cons x xs =>
        simp only [List.isEmpty_cons, Bool.false_eq_true, if_false]
        rw [sgr_clean _ _ (newline_ne_esc o l), sgr_tok _ _ _ ho.object (by decide)]
  theorem sgr_renderElems (o : Opts) (ho : OptsOK o) (l : Nat) : ∀ (xs : List JV) (first : Bool) (rest : Bytes),
      stripSGRGo false (renderElems o l xs first ++ rest) = renderElems (mono o) l xs first ++ stripSGRGo false rest
    | [], _, rest => by simp [renderElems]
    | x :: xs, first, rest => by
      simp only [renderElems, mono_col, tok_none, List.append_assoc, mono_newline]
      cases first
      · simp only [Bool.false_eq_true, if_false]
        rw [sgr_tok _ _ _ ho.array (by decide), sgr_clean _ _ (newline_ne_esc o l), sgr_render o ho l x,
          sgr_renderElems o ho l xs false]
      · simp only [if_true, List.nil_append]
        rw [sgr_clean _ _ (newline_ne_esc o l), sgr_render o ho l x, sgr_renderElems o ho l xs false]
  theorem sgr_renderMembers (o : Opts) (ho : OptsOK o) (l : Nat) : ∀ (kvs : List (Bytes × JV)) (first : Bool) (rest : Bytes),
      stripSGRGo false (renderMembers o l kvs first ++ rest) = renderMembers (mono o) l kvs first ++ stripSGRGo false rest
    | [], _, rest => by simp [renderMembers]
    | (k, x) :: xs, first, rest => by
      simp only [renderMembers, mono_col, tok_none, List.append_assoc, mono_newline]
      have hsp : ∀ t, stripSGRGo false ((if o.indent ≥ 0 then [cSpace] else []) ++ t) =
          (if (mono o).indent ≥ 0 then [cSpace] else []) ++ stripSGRGo false t := by
        intro t
        show stripSGRGo false ((if o.indent ≥ 0 then [cSpace] else []) ++ t) =
          (if o.indent ≥ 0 then [cSpace] else []) ++ stripSGRGo false t
        split
        · exact sgr_clean _ _ (by decide)
        · rfl
      cases first
      · simp only [Bool.false_eq_true, if_false]
        rw [sgr_tok _ _ _ ho.object (by decide), sgr_clean _ _ (newline_ne_esc o l),
          sgr_tok _ _ _ ho.objectKey (noCtl_ne_esc (encodeString_noCtl k)), sgr_tok _ _ _ ho.object (by decide),
          hsp, sgr_render o ho l x, sgr_renderMembers o ho l xs false]
      · simp only [if_true, List.nil_append]
        rw [sgr_clean _ _ (newline_ne_esc o l),
          sgr_tok _ _ _ ho.objectKey (noCtl_ne_esc (encodeString_noCtl k)), sgr_tok _ _ _ ho.object (by decide),
          hsp, sgr_render o ho l x, sgr_renderMembers o ho l xs false]
end

theorem stripSGR_render (o : Cli.Opts) (ho : OptsOK o) (l : Nat) (v : JV) :
    stripSGR (Cli.render o l v) = Cli.render (mono o) l v := by
  have := sgr_render o ho l v []
  simpa [stripSGR, stripSGRGo] using this

end Gojq.Encode

namespace Gojq.Encode
open Gojq

/-! ### white space outside strings -/

theorem ws_plain_out : ∀ (a t : Bytes), (∀ x ∈ a, isWs x = false ∧ x ≠ cQuote) →
    stripWsGo .out (a ++ t) = a ++ stripWsGo .out t
  | [], t, _ => rfl
  | b :: a, t, h => by
    have hb := h b (by simp)
    simp only [List.cons_append, stripWsGo, hb.1, Bool.false_eq_true, if_false, if_neg hb.2]
    rw [ws_plain_out a t (fun x hx => h x (by simp [hx]))]

theorem ws_skip : ∀ (a t : Bytes), (∀ x ∈ a, isWs x = true) → stripWsGo .out (a ++ t) = stripWsGo .out t
  | [], t, _ => rfl
  | b :: a, t, h => by
    simp only [List.cons_append, stripWsGo, h b (by simp), if_true]
    exact ws_skip a t (fun x hx => h x (by simp [hx]))

theorem ws_string (s t : Bytes) : stripWsGo .out (encodeString s ++ t) = encodeString s ++ stripWsGo .out t := by
  have hq : ∀ X, stripWsGo .out (cQuote :: X) = cQuote :: stripWsGo .str X := by
    intro X; simp +decide [stripWsGo]
  rw [encodeString_append, hq, ws_shapes (pieces_shapes (encStrAux_pieces s.length s (Nat.le_refl _)))]
  simp [encodeString]

theorem plain_ws {bs : Bytes} (h : ∀ x ∈ bs, PlainByte x) : ∀ x ∈ bs, isWs x = false ∧ x ≠ cQuote :=
  fun x hx => ⟨(h x hx).1, (h x hx).2.1⟩

theorem newline_ws (o : Cli.Opts) (level : Nat) : ∀ x ∈ Cli.newline o level, isWs x = true := by
  intro x hx
  unfold Cli.newline at hx
  split at hx
  · simp only [List.mem_cons, List.mem_replicate] at hx
    rcases hx with rfl | ⟨_, rfl⟩
    · decide
    · unfold Cli.Opts.unit; split <;> decide
  · cases hx

/-- separators as the library encoder places them, seen from the element loop -/
def elemsFrom (first : Bool) : List JV → Bytes
  | [] => []
  | x :: xs => (if first then [] else [cComma]) ++ encodeElems (x :: xs)
def membersFrom (first : Bool) : List (Bytes × JV) → Bytes
  | [] => []
  | x :: xs => (if first then [] else [cComma]) ++ encodeMembers (x :: xs)

theorem encodeElems_cons (x : JV) (xs : List JV) : encodeElems (x :: xs) = encodeValue x ++ elemsFrom false xs := by
  cases xs <;> simp [encodeElems, elemsFrom]

theorem encodeMembers_cons (k : Bytes) (x : JV) (xs : List (Bytes × JV)) :
    encodeMembers ((k, x) :: xs) = encodeString k ++ cColon :: (encodeValue x ++ membersFrom false xs) := by
  cases xs <;> simp [encodeMembers, membersFrom]

theorem elemsFrom_cons (first : Bool) (x : JV) (xs : List JV) :
    elemsFrom first (x :: xs) = (if first then [] else [cComma]) ++ (encodeValue x ++ elemsFrom false xs) := by
  rw [← encodeElems_cons]; rfl

theorem membersFrom_cons (first : Bool) (k : Bytes) (x : JV) (xs : List (Bytes × JV)) :
    membersFrom first ((k, x) :: xs) =
      (if first then [] else [cComma]) ++ (encodeString k ++ cColon :: (encodeValue x ++ membersFrom false xs)) := by
  rw [← encodeMembers_cons]; rfl

theorem col_none {o : Cli.Opts} (h : o.color = none) (f : Cli.Colors → Option Bytes) : o.col f = none := by
  simp [Cli.Opts.col, h]

theorem numColor_none {o : Cli.Opts} (h : o.color = none) (n : Num) : Cli.numColor o n = none := by
  cases n <;> simp [Cli.numColor, col_none h]

open Cli in
mutual
  theorem ws_render (o : Opts) (hc : o.color = none) (l : Nat) : ∀ (v : JV) (rest : Bytes),
      stripWsGo .out (render o l v ++ rest) = encodeValue v ++ stripWsGo .out rest
    | .null, rest => by
      simp only [render, col_none hc, tok_none, encodeValue]; exact ws_plain_out _ _ (by decide)
    | .bool true, rest => by
      simp only [render, col_none hc, tok_none, encodeValue]; exact ws_plain_out _ _ (by decide)
    | .bool false, rest => by
      simp only [render, col_none hc, tok_none, encodeValue]; exact ws_plain_out _ _ (by decide)
    | .num n, rest => by
      simp only [render, numColor_none hc, tok_none, encodeValue]
      exact ws_plain_out _ _ (plain_ws (encodeNum_plain n))
    | .str s, rest => by
      simp only [render, col_none hc, tok_none, encodeValue]; exact ws_string s rest
    | .arr xs, rest => by
      simp only [render, col_none hc, tok_none, encodeValue, List.append_assoc]
      rw [ws_plain_out [cLBrack] _ (by decide), ws_renderElems o hc (l + 1) xs true]
      cases xs with
      | nil =>
        simp only [List.isEmpty_nil, if_true, List.nil_append, elemsFrom, encodeElems]
        rw [ws_plain_out [cRBrack] _ (by decide)]; rfl
      | cons x xs =>
        simp only [List.isEmpty_cons, Bool.false_eq_true, if_false]
        rw [ws_skip _ _ (newline_ws o l), ws_plain_out [cRBrack] _ (by decide)]
        simp [elemsFrom]
    | .obj kvs, rest => by
      simp only [render, col_none hc, tok_none, encodeValue, List.append_assoc]
      rw [ws_plain_out [cLBrace] _ (by decide), ws_renderMembers o hc (l + 1) kvs true]
      cases kvs with
      | nil =>
        simp only [List.isEmpty_nil, if_true, List.nil_append, membersFrom, encodeMembers]
        rw [ws_plain_out [cRBrace] _ (by decide)]; rfl
      | cons x xs =>
        simp only [List.isEmpty_cons, Bool.false_eq_true, if_false]
        rw [ws_skip _ _ (newline_ws o l), ws_plain_out [cRBrace] _ (by decide)]
        simp [membersFrom]
  theorem ws_renderElems (o : Opts) (hc : o.color = none) (l : Nat) : ∀ (xs : List JV) (first : Bool) (rest : Bytes),
      stripWsGo .out (renderElems o l xs first ++ rest) = elemsFrom first xs ++ stripWsGo .out rest
    | [], _, rest => by simp [renderElems, elemsFrom]
    | x :: xs, first, rest => by
      simp only [renderElems, col_none hc, tok_none, List.append_assoc, elemsFrom_cons]
      cases first
      · simp only [Bool.false_eq_true, if_false]
        rw [ws_plain_out [cComma] _ (by decide), ws_skip _ _ (newline_ws o l), ws_render o hc l x,
          ws_renderElems o hc l xs false]
      · simp only [if_true, List.nil_append]
        rw [ws_skip _ _ (newline_ws o l), ws_render o hc l x, ws_renderElems o hc l xs false]
  theorem ws_renderMembers (o : Opts) (hc : o.color = none) (l : Nat) : ∀ (kvs : List (Bytes × JV)) (first : Bool) (rest : Bytes),
      stripWsGo .out (renderMembers o l kvs first ++ rest) = membersFrom first kvs ++ stripWsGo .out rest
    | [], _, rest => by simp [renderMembers, membersFrom]
    | (k, x) :: xs, first, rest => by
      simp only [renderMembers, col_none hc, tok_none, List.append_assoc, membersFrom_cons]
      have hsp : ∀ t, stripWsGo .out ((if o.indent ≥ 0 then [cSpace] else []) ++ t) = stripWsGo .out t := by
        intro t; split
        · exact ws_skip _ _ (by decide)
        · rfl
      cases first
      · simp only [Bool.false_eq_true, if_false]
        rw [ws_plain_out [cComma] _ (by decide), ws_skip _ _ (newline_ws o l), ws_string,
          ws_plain_out [cColon] _ (by decide), hsp, ws_render o hc l x, ws_renderMembers o hc l xs false]
        simp
      · simp only [if_true, List.nil_append]
        rw [ws_skip _ _ (newline_ws o l), ws_string,
          ws_plain_out [cColon] _ (by decide), hsp, ws_render o hc l x, ws_renderMembers o hc l xs false]
        simp
end

theorem stripWs_render (o : Cli.Opts) (hc : o.color = none) (l : Nat) (v : JV) :
    stripWs (Cli.render o l v) = encodeValue v := by
  have := ws_render o hc l v []
  simpa [stripWs, stripWsGo] using this

/-- white space and SGR sequences removed, every layout of the command is the library's text -/
theorem strip_render (o : Cli.Opts) (ho : OptsOK o) (l : Nat) (v : JV) :
    stripWs (stripSGR (Cli.render o l v)) = encodeValue v := by
  rw [stripSGR_render o ho, stripWs_render (mono o) rfl]

end Gojq.Encode

namespace Gojq.Encode
open Gojq

/-! ### the option records the command can build -/

/-- all colour parameters of a record are valid -/
def Cli.Colors.Valid (c : Cli.Colors) : Prop :=
  ∀ p, (c.null = some p ∨ c.false_ = some p ∨ c.true_ = some p ∨ c.number = some p ∨ c.string = some p ∨
    c.objectKey = some p ∨ c.array = some p ∨ c.object = some p) → ColorParam p

theorem colOK_of_valid (o : Cli.Opts) (f : Cli.Colors → Option Bytes)
    (h : ∀ c p, o.color = some c → f c = some p → ColorParam p) : ColOK (o.col f) := by
  intro c' hc'
  unfold Cli.Opts.col at hc'
  cases hcol : o.color with
  | none => rw [hcol] at hc'; cases hc'
  | some c =>
    rw [hcol] at hc'
    simp only [] at hc'
    cases hf : f c with
    | none => rw [hf] at hc'; cases hc'
    | some p =>
      rw [hf] at hc'
      simp only [Option.map_some, Option.some.injEq] at hc'
      exact ⟨p, hc'.symm, h c p hcol hf⟩

/-- no colours, or a record of valid colours (what `setColors` accepts): all is well -/
theorem optsOK_of_valid (o : Cli.Opts) (h : ∀ c, o.color = some c → c.Valid) : OptsOK o := by
  constructor <;> apply colOK_of_valid <;> intro c p hc hf <;> apply h c hc p <;> simp [hf]

theorem defaultColors_valid : Cli.defaultColors.Valid := by
  intro p hp
  simp [Cli.defaultColors] at hp
  rcases hp with rfl | rfl | rfl | rfl | rfl | rfl <;> (unfold ColorParam; decide)

/-! ### well-formed UTF-8 and no raw control bytes, for whole outputs -/

theorem valid_plain {bs : Bytes} (h : ∀ x ∈ bs, PlainByte x) : ValidSeq bs :=
  ValidSeq.of_ascii bs (fun x hx => (h x hx).2.2.2.2)

theorem valid_encodeString (s : Bytes) : ValidSeq (encodeString s) := by
  have := (pieces_valid (encStrAux_pieces s.length s (Nat.le_refl _))).1
  exact ValidSeq.ascii (by decide) (this.append (ValidSeq.ascii (by decide) .nil))

mutual
  theorem valid_encodeValue : ∀ v : JV, ValidSeq (encodeValue v)
    | .null => ValidSeq.of_ascii _ (by decide)
    | .bool true => ValidSeq.of_ascii _ (by decide)
    | .bool false => ValidSeq.of_ascii _ (by decide)
    | .num n => valid_plain (encodeNum_plain n)
    | .str s => valid_encodeString s
    | .arr xs => ValidSeq.ascii (by decide) ((valid_encodeElems xs).append (ValidSeq.ascii (by decide) .nil))
    | .obj kvs => ValidSeq.ascii (by decide) ((valid_encodeMembers kvs).append (ValidSeq.ascii (by decide) .nil))
  theorem valid_encodeElems : ∀ xs : List JV, ValidSeq (encodeElems xs)
    | [] => .nil
    | [x] => valid_encodeValue x
    | x :: y :: r => (valid_encodeValue x).append (ValidSeq.ascii (by decide) (valid_encodeElems (y :: r)))
  theorem valid_encodeMembers : ∀ kvs : List (Bytes × JV), ValidSeq (encodeMembers kvs)
    | [] => .nil
    | [(k, x)] => (valid_encodeString k).append (ValidSeq.ascii (by decide) (valid_encodeValue x))
    | (k, x) :: y :: r =>
      (valid_encodeString k).append (ValidSeq.ascii (by decide)
        ((valid_encodeValue x).append (ValidSeq.ascii (by decide) (valid_encodeMembers (y :: r)))))
end

mutual
  theorem noCtl_encodeValue : ∀ v : JV, ∀ x ∈ encodeValue v, 0x20 ≤ x.toNat
    | .null => by decide
    | .bool true => by decide
    | .bool false => by decide
    | .num n => fun x hx => (encodeNum_plain n x hx).2.2.2.1
    | .str s => encodeString_noCtl s
    | .arr xs => by
      intro x hx
      simp only [encodeValue, List.mem_cons, List.mem_append, List.mem_nil_iff, or_false] at hx
      rcases hx with rfl | hx | rfl
      · decide
      · exact noCtl_encodeElems xs x hx
      · decide
    | .obj kvs => by
      intro x hx
      simp only [encodeValue, List.mem_cons, List.mem_append, List.mem_nil_iff, or_false] at hx
      rcases hx with rfl | hx | rfl
      · decide
      · exact noCtl_encodeMembers kvs x hx
      · decide
  theorem noCtl_encodeElems : ∀ xs : List JV, ∀ x ∈ encodeElems xs, 0x20 ≤ x.toNat
    | [] => by simp [encodeElems]
    | [v] => by simpa [encodeElems] using noCtl_encodeValue v
    | v :: y :: r => by
      intro x hx
      simp only [encodeElems, List.mem_append, List.mem_cons] at hx
      rcases hx with hx | rfl | hx
      · exact noCtl_encodeValue v x hx
      · decide
      · exact noCtl_encodeElems (y :: r) x hx
  theorem noCtl_encodeMembers : ∀ kvs : List (Bytes × JV), ∀ x ∈ encodeMembers kvs, 0x20 ≤ x.toNat
    | [] => by simp [encodeMembers]
    | [(k, v)] => by
      intro x hx
      simp only [encodeMembers, List.mem_append, List.mem_cons] at hx
      rcases hx with hx | rfl | hx
      · exact encodeString_noCtl k x hx
      · decide
      · exact noCtl_encodeValue v x hx
    | (k, v) :: y :: r => by
      intro x hx
      simp only [encodeMembers, List.mem_append, List.mem_cons] at hx
      rcases hx with hx | rfl | hx | rfl | hx
      · exact encodeString_noCtl k x hx
      · decide
      · exact noCtl_encodeValue v x hx
      · decide
      · exact noCtl_encodeMembers (y :: r) x hx
end

/-- coloured tokens, newlines and indentation are ASCII -/
theorem valid_tok (bs : Bytes) (oc : Option Bytes) (hb : ValidSeq bs) (hc : ColOK oc) : ValidSeq (Cli.tok bs oc) := by
  cases oc with
  | none => exact hb
  | some c =>
    obtain ⟨p, rfl, hp⟩ := hc c rfl
    have hcol : ∀ q, ColorParam q → ValidSeq (Cli.newColor q) := by
      intro q hq
      apply ValidSeq.of_ascii
      intro x hx
      simp only [Cli.newColor, List.mem_append, List.mem_cons, List.mem_nil_iff, or_false] at hx
      rcases hx with ((rfl | rfl) | hx) | rfl
      · decide
      · decide
      · exact hq.ascii x hx
      · decide
    exact ((hcol p hp).append hb).append (hcol _ (by unfold ColorParam; decide))

theorem valid_newline (o : Cli.Opts) (l : Nat) : ValidSeq (Cli.newline o l) := by
  apply ValidSeq.of_ascii
  intro x hx
  have := newline_ws o l x hx
  simp only [isWs, Bool.or_eq_true, decide_eq_true_eq] at this
  rcases this with ((rfl | rfl) | rfl) | rfl <;> decide

open Cli in
mutual
  theorem valid_render (o : Opts) (ho : OptsOK o) (l : Nat) : ∀ v : JV, ValidSeq (render o l v)
    | .null => valid_tok _ _ (ValidSeq.of_ascii _ (by decide)) ho.null
    | .bool true => valid_tok _ _ (ValidSeq.of_ascii _ (by decide)) ho.true_
    | .bool false => valid_tok _ _ (ValidSeq.of_ascii _ (by decide)) ho.false_
    | .num n => valid_tok _ _ (valid_plain (encodeNum_plain n)) (numColor_ok o ho n)
    | .str s => valid_tok _ _ (valid_encodeString s) ho.string
    | .arr xs => by
      simp only [render]
      refine (((valid_tok _ _ (ValidSeq.of_ascii _ (by decide)) ho.array).append
        (valid_renderElems o ho (l + 1) xs true)).append ?_).append (valid_tok _ _ (ValidSeq.of_ascii _ (by decide)) ho.array)
      split
      · exact .nil
      · exact valid_newline o l
    | .obj kvs => by
      simp only [render]
      refine (((valid_tok _ _ (ValidSeq.of_ascii _ (by decide)) ho.object).append
        (valid_renderMembers o ho (l + 1) kvs true)).append ?_).append (valid_tok _ _ (ValidSeq.of_ascii _ (by decide)) ho.object)
      split
      · exact .nil
      · exact valid_newline o l
  theorem valid_renderElems (o : Opts) (ho : OptsOK o) (l : Nat) : ∀ (xs : List JV) (first : Bool), ValidSeq (renderElems o l xs first)
    | [], _ => .nil
    | x :: xs, first => by
      simp only [renderElems]
      refine (((?_ : ValidSeq _).append (valid_newline o l)).append (valid_render o ho l x)).append (valid_renderElems o ho l xs false)
      split
      · exact .nil
      · exact valid_tok _ _ (ValidSeq.of_ascii _ (by decide)) ho.array
  theorem valid_renderMembers (o : Opts) (ho : OptsOK o) (l : Nat) : ∀ (kvs : List (Bytes × JV)) (first : Bool), ValidSeq (renderMembers o l kvs first)
    | [], _ => .nil
    | (k, x) :: xs, first => by
      simp only [renderMembers]
      refine ((((((?_ : ValidSeq _).append (valid_newline o l)).append (valid_tok _ _ (valid_encodeString k) ho.objectKey)).append
        (valid_tok _ _ (ValidSeq.of_ascii _ (by decide)) ho.object)).append ?_).append (valid_render o ho l x)).append
        (valid_renderMembers o ho l xs false)
      · split
        · exact .nil
        · exact valid_tok _ _ (ValidSeq.of_ascii _ (by decide)) ho.object
      · split
        · exact ValidSeq.of_ascii _ (by decide)
        · exact .nil
end

end Gojq.Encode

/-
  The printer's output satisfies the adjacency condition, part 3: every printed construct leaves
  the lexer in the mode and with the parenthesis stack it found (parentheses and interpolations
  are balanced).
-/
import Gojq.Proofs.SpacedSafe
namespace Gojq.RefTerm
open Gojq Gojq.Lexer Gojq.Printer

/-- the stack after `(` -/
def openStk (stk : List Nat) : List Nat := (stepStk (.ch 40) stk).1

@[simp] theorem stepStk_open (stk : List Nat) : stepStk (.ch 40) stk = (openStk stk, false) := by
  cases stk <;> rfl
@[simp] theorem stepStk_close (stk : List Nat) : stepStk (.ch 41) (openStk stk) = (stk, false) := by
  cases stk <;> rfl
@[simp] theorem stepStk_closeQ (stk : List Nat) : stepStk (.ch 41) (0 :: stk) = (stk, true) := rfl
@[simp] theorem stepStk_strQuery (stk : List Nat) : stepStk .strQuery stk = (0 :: stk, false) := rfl

/-- tokens that do not touch the stack -/
def plainStk : Tok → Bool
  | .ch 40 => false
  | .ch 41 => false
  | .strQuery => false
  | _ => true

theorem stepStk_plain (t : Tok) (stk : List Nat) (h : plainStk t = true) : stepStk t stk = (stk, false) := by
  unfold stepStk
  split <;> simp_all [plainStk]

@[simp] theorem endMode_nil (m : Bool) (stk : List Nat) : endMode m stk [] = (m, stk) := rfl
@[simp] theorem endMode_sp (m : Bool) (stk : List Nat) (r : List Item) : endMode m stk (.sp :: r) = endMode false stk r := rfl
@[simp] theorem endMode_soft (m : Bool) (stk : List Nat) (r : List Item) : endMode m stk (.soft :: r) = endMode false stk r := rfl
@[simp] theorem endMode_nl (m : Bool) (stk : List Nat) (r : List Item) : endMode m stk (.nl :: r) = endMode false stk r := rfl

theorem endMode_tok (m : Bool) (stk : List Nat) (t : Tok) (r : List Item) :
    endMode m stk (.t t :: r) = endMode (if (stepStk t stk).2 then true else t.modeAfter) (stepStk t stk).1 r := rfl

theorem endMode_plain (m : Bool) (stk : List Nat) (t : Tok) (r : List Item) (h : plainStk t = true) :
    endMode m stk (.t t :: r) = endMode t.modeAfter stk r := by
  rw [endMode_tok, stepStk_plain t stk h]; rfl

@[simp] theorem endMode_ch (m : Bool) (stk : List Nat) (b : UInt8) (r : List Item) (h1 : b ≠ 40) (h2 : b ≠ 41) :
    endMode m stk (.t (.ch b) :: r) = endMode false stk r := by
  rw [endMode_plain]
  · rfl
  · unfold plainStk; split <;> simp_all

@[simp] theorem endMode_ident (m : Bool) (stk : List Nat) (s : Bytes) (r : List Item) :
    endMode m stk (.t (.ident s) :: r) = endMode false stk r := endMode_plain m stk _ r rfl
@[simp] theorem endMode_modIdent (m : Bool) (stk : List Nat) (s : Bytes) (r : List Item) :
    endMode m stk (.t (.modIdent s) :: r) = endMode false stk r := endMode_plain m stk _ r rfl
@[simp] theorem endMode_var (m : Bool) (stk : List Nat) (s : Bytes) (r : List Item) :
    endMode m stk (.t (.var s) :: r) = endMode false stk r := endMode_plain m stk _ r rfl
@[simp] theorem endMode_modVar (m : Bool) (stk : List Nat) (s : Bytes) (r : List Item) :
    endMode m stk (.t (.modVar s) :: r) = endMode false stk r := endMode_plain m stk _ r rfl
@[simp] theorem endMode_index (m : Bool) (stk : List Nat) (s : Bytes) (r : List Item) :
    endMode m stk (.t (.index s) :: r) = endMode false stk r := endMode_plain m stk _ r rfl
@[simp] theorem endMode_number (m : Bool) (stk : List Nat) (s : Bytes) (r : List Item) :
    endMode m stk (.t (.number s) :: r) = endMode false stk r := endMode_plain m stk _ r rfl
@[simp] theorem endMode_format (m : Bool) (stk : List Nat) (s : Bytes) (r : List Item) :
    endMode m stk (.t (.format s) :: r) = endMode false stk r := endMode_plain m stk _ r rfl
@[simp] theorem endMode_kw (m : Bool) (stk : List Nat) (w : Kw) (r : List Item) :
    endMode m stk (.t (.kw w) :: r) = endMode false stk r := endMode_plain m stk _ r rfl
@[simp] theorem endMode_recurse (m : Bool) (stk : List Nat)  (r : List Item) :
    endMode m stk (.t .recurse :: r) = endMode false stk r := endMode_plain m stk _ r rfl
@[simp] theorem endMode_op (m : Bool) (stk : List Nat) (o : BOp) (r : List Item) :
    endMode m stk (.t (.op o) :: r) = endMode false stk r := endMode_plain m stk _ r rfl
@[simp] theorem endMode_destAlt (m : Bool) (stk : List Nat)  (r : List Item) :
    endMode m stk (.t .destAlt :: r) = endMode false stk r := endMode_plain m stk _ r rfl
@[simp] theorem endMode_str (m : Bool) (stk : List Nat) (v : Bytes) (r : List Item) :
    endMode m stk (.t (.str v) :: r) = endMode false stk r := endMode_plain m stk _ r rfl
@[simp] theorem endMode_chunk (m : Bool) (stk : List Nat) (v : Bytes) (r : List Item) :
    endMode m stk (.t (.chunk v) :: r) = endMode true stk r := endMode_plain m stk _ r rfl
@[simp] theorem endMode_strStart (m : Bool) (stk : List Nat)  (r : List Item) :
    endMode m stk (.t .strStart :: r) = endMode true stk r := endMode_plain m stk _ r rfl
@[simp] theorem endMode_strEnd (m : Bool) (stk : List Nat)  (r : List Item) :
    endMode m stk (.t .strEnd :: r) = endMode false stk r := endMode_plain m stk _ r rfl

@[simp] theorem endMode_open (m : Bool) (stk : List Nat) (r : List Item) :
    endMode m stk (.t (.ch 40) :: r) = endMode false (openStk stk) r := by
  rw [endMode_tok, stepStk_open]; rfl
@[simp] theorem endMode_close (m : Bool) (stk : List Nat) (r : List Item) :
    endMode m (openStk stk) (.t (.ch 41) :: r) = endMode false stk r := by
  rw [endMode_tok, stepStk_close]; rfl
@[simp] theorem endMode_closeQ (m : Bool) (stk : List Nat) (r : List Item) :
    endMode m (0 :: stk) (.t (.ch 41) :: r) = endMode true stk r := by
  rw [endMode_tok, stepStk_closeQ]; rfl
@[simp] theorem endMode_strQuery (m : Bool) (stk : List Nat) (r : List Item) :
    endMode m stk (.t .strQuery :: r) = endMode false (0 :: stk) r := by
  rw [endMode_tok, stepStk_strQuery]; rfl

@[simp] theorem plainStk_nameTok (n : Bytes) : plainStk (nameTok n) = true := by
  unfold nameTok; split <;> split <;> rfl
@[simp] theorem plainStk_keyTok (n : Bytes) : plainStk (keyTok n) = true := by
  unfold keyTok; split
  · rfl
  · split <;> rfl
@[simp] theorem plainStk_opTok (o : BOp) : plainStk (opTok o) = true := by cases o <;> rfl
@[simp] theorem modeAfter_nameTok (n : Bytes) : (nameTok n).modeAfter = false := by
  unfold nameTok; split <;> split <;> rfl
@[simp] theorem modeAfter_keyTok (n : Bytes) : (keyTok n).modeAfter = false := by
  unfold keyTok; split
  · rfl
  · split <;> rfl
@[simp] theorem modeAfter_opTok (o : BOp) : (opTok o).modeAfter = false := by cases o <;> rfl

@[simp] theorem endMode_nameTok (m : Bool) (stk : List Nat) (n : Bytes) (r : List Item) :
    endMode m stk (.t (nameTok n) :: r) = endMode false stk r := by
  rw [endMode_plain _ _ _ _ (plainStk_nameTok n), modeAfter_nameTok]
@[simp] theorem endMode_keyTok (m : Bool) (stk : List Nat) (n : Bytes) (r : List Item) :
    endMode m stk (.t (keyTok n) :: r) = endMode false stk r := by
  rw [endMode_plain _ _ _ _ (plainStk_keyTok n), modeAfter_keyTok]
@[simp] theorem endMode_opTok (m : Bool) (stk : List Nat) (o : BOp) (r : List Item) :
    endMode m stk (.t (opTok o) :: r) = endMode false stk r := by
  rw [endMode_plain _ _ _ _ (plainStk_opTok o), modeAfter_opTok]

theorem endMode_params (ps : List Bytes) (stk : List Nat) :
    endMode false stk (ps.flatMap (fun p => [c 59, Item.sp, Item.t (keyTok p)])) = (false, stk) := by
  induction ps with
  | nil => rfl
  | cons p ps ih => simp [List.flatMap_cons, ih]

theorem endMode_opSep (o : BOp) (stk : List Nat) : endMode false stk (opSep o) = (false, stk) := by
  cases o <;> simp [opSep]

mutual
  theorem endQ : ∀ (q : Query) (stk : List Nat), endMode false stk (itemsQ q) = (false, stk)
    | .term t, stk => by simp [itemsQ, endT t]
    | .binop o l r, stk => by
      simp [itemsQ, endMode_append, endQ l, endQ r, endMode_opSep]
    | .bind s [] b, stk => by simp [itemsQ, endMode_append, endQ s, endQ b]
    | .bind s (p :: ps) b, stk => by
      simp [itemsQ, endMode_append, endQ s, endQ b, endP p, endAltT ps]
    | .def_ fd q, stk => by simp [itemsQ, endMode_append, endFD fd, endQ q]
    | .label v b, stk => by simp [itemsQ, endQ b]
  theorem endFD : ∀ (fd : FuncDef) (stk : List Nat), endMode false stk (itemsFD fd) = (false, stk)
    | .mk name [] body, stk => by simp [itemsFD, endMode_append, endQ body]
    | .mk name (p :: ps) body, stk => by
      simp [itemsFD, endMode_append, endMode_params, endQ body]
  theorem endT : ∀ (t : Term) (stk : List Nat), endMode false stk (itemsT t) = (false, stk)
    | .identity, stk => by simp [itemsT]
    | .recurse, stk => by simp [itemsT]
    | .null, stk => by simp [itemsT]
    | .true_, stk => by simp [itemsT]
    | .false_, stk => by simp [itemsT]
    | .index i, stk => by simp [itemsT, endSuf i]
    | .func n [], stk => by simp [itemsT]
    | .func n (a :: as), stk => by simp [itemsT, endMode_append, endQ a, endArgsT as]
    | .object [], stk => by simp [itemsT]
    | .object (kv :: kvs), stk => by
      simp [itemsT, endMode_append, endKV kv, endKVsT kvs]
    | .arrayEmpty, stk => by simp [itemsT]
    | .array q, stk => by simp [itemsT, endMode_append, endQ q]
    | .number s, stk => by simp [itemsT]
    | .unary true t, stk => by simp [itemsT, endT t]
    | .unary false t, stk => by simp [itemsT, endT t]
    | .format f, stk => by simp [itemsT]
    | .formatStr f s, stk => by simp [itemsT, endS s]
    | .str s, stk => by simp [itemsT, endS s]
    | .if_ cnd t r, stk => by
      simp [itemsT, endMode_append, endQ cnd, endQ t, endIf r]
    | .try_ b, stk => by simp [itemsT, endQ b]
    | .tryCatch b h, stk => by simp [itemsT, endMode_append, endQ b, endQ h]
    | .reduce s p a u, stk => by
      simp [itemsT, endMode_append, endQ s, endP p, endQ a, endQ u]
    | .foreach s p a u, stk => by
      simp [itemsT, endMode_append, endQ s, endP p, endQ a, endQ u]
    | .foreach3 s p a u e, stk => by
      simp [itemsT, endMode_append, endQ s, endP p, endQ a, endQ u, endQ e]
    | .break_ v, stk => by simp [itemsT]
    | .paren q, stk => by simp [itemsT, endMode_append, endQ q]
    | .suf t s, stk => by simp [itemsT, endMode_append, endT t, endSuf s]
  theorem endSuf : ∀ (s : Suffix) (dot : Bool) (stk : List Nat), endMode false stk (itemsSuf dot s) = (false, stk)
    | .name n, dot, stk => by simp [itemsSuf]
    | .str s, dot, stk => by simp [itemsSuf, endS s]
    | .at q, dot, stk => by cases dot <;> simp [itemsSuf, endMode_append, endQ q]
    | .sliceFrom a, dot, stk => by
      cases dot <;> simp [itemsSuf, endMode_append, endQ a]
    | .sliceTo b, dot, stk => by
      cases dot <;> simp [itemsSuf, endMode_append, endQ b]
    | .slice a b, dot, stk => by
      cases dot <;> simp [itemsSuf, endMode_append, endQ a, endQ b]
    | .iter, dot, stk => by simp [itemsSuf]
    | .opt, dot, stk => by simp [itemsSuf]
  theorem endS : ∀ (s : Str) (stk : List Nat), endMode false stk (itemsS s) = (false, stk)
    | .lit v, stk => by simp [itemsS]
    | .interp ps, stk => by
      simp [itemsS, endMode_append, endParts ps]
  theorem endParts : ∀ (ps : List Part) (stk : List Nat), endMode true stk (itemsParts ps) = (true, stk)
    | [], stk => rfl
    | .lit v :: ps, stk => by simp [itemsParts, itemsPart, endParts ps]
    | .q q :: ps, stk => by simp [itemsParts, itemsPart, endMode_append, endQ q, endParts ps]
  theorem endArgsT : ∀ (qs : List Query) (stk : List Nat), endMode false stk (itemsArgsT qs) = (false, stk)
    | [], stk => rfl
    | q :: qs, stk => by simp [itemsArgsT, endMode_append, endQ q, endArgsT qs]
  theorem endKV : ∀ (kv : KV) (stk : List Nat), endMode false stk (itemsKV kv) = (false, stk)
    | .nameVal n v, stk => by simp [itemsKV, endQ v]
    | .strVal s v, stk => by simp [itemsKV, endMode_append, endS s, endQ v]
    | .qVal kq v, stk => by simp [itemsKV, endMode_append, endQ kq, endQ v]
    | .name n, stk => by simp [itemsKV]
    | .str s, stk => by simp [itemsKV, endS s]
  theorem endKVsT : ∀ (kvs : List KV) (stk : List Nat), endMode false stk (itemsKVsT kvs) = (false, stk)
    | [], stk => rfl
    | kv :: kvs, stk => by simp [itemsKVsT, endMode_append, endKV kv, endKVsT kvs]
  theorem endP : ∀ (p : Pattern) (stk : List Nat), endMode false stk (itemsP p) = (false, stk)
    | .var n, stk => by simp [itemsP]
    | .arr [], stk => rfl
    | .arr (p :: ps), stk => by simp [itemsP, endMode_append, endP p, endPsT ps]
    | .obj [], stk => rfl
    | .obj (kv :: kvs), stk => by simp [itemsP, endMode_append, endPKV kv, endPKVsT kvs]
  theorem endPsT : ∀ (ps : List Pattern) (stk : List Nat), endMode false stk (itemsPsT ps) = (false, stk)
    | [], stk => rfl
    | p :: ps, stk => by simp [itemsPsT, endMode_append, endP p, endPsT ps]
  theorem endAltT : ∀ (ps : List Pattern) (stk : List Nat), endMode false stk (itemsAltT ps) = (false, stk)
    | [], stk => rfl
    | p :: ps, stk => by simp [itemsAltT, endMode_append, endP p, endAltT ps]
  theorem endPKV : ∀ (kv : PKV) (stk : List Nat), endMode false stk (itemsPKV kv) = (false, stk)
    | .nameVal n p, stk => by simp [itemsPKV, endP p]
    | .strVal s p, stk => by simp [itemsPKV, endMode_append, endS s, endP p]
    | .qVal kq p, stk => by simp [itemsPKV, endMode_append, endQ kq, endP p]
    | .name n, stk => by simp [itemsPKV]
  theorem endPKVsT : ∀ (kvs : List PKV) (stk : List Nat), endMode false stk (itemsPKVsT kvs) = (false, stk)
    | [], stk => rfl
    | kv :: kvs, stk => by simp [itemsPKVsT, endMode_append, endPKV kv, endPKVsT kvs]
  theorem endIf : ∀ (r : IfRest) (stk : List Nat), endMode false stk (itemsIf r) = (false, stk)
    | .end_, stk => by simp [itemsIf]
    | .else_ e, stk => by simp [itemsIf, endMode_append, endQ e]
    | .elif_ cnd t r, stk => by
      simp [itemsIf, endMode_append, endQ cnd, endQ t, endIf r]
end

end Gojq.RefTerm

/-
  C08 (bytecode checker): every opcode keeps the invariant — part 2: forks, calls, frames.
-/
import Gojq.Proofs.SafeVMExec1
set_option linter.unusedSimpArgs false
set_option linter.unusedVariables false
namespace Gojq.SafeVM
open Gojq Gojq.VM

/-- breakers whose backtrack branch only breaks the loop -/
def trivB : Shape → Bool
  | .forktryend | .object _ | .backtrack | .index _ | .indexarray _ | .call _ | .callNative _ _ | .ret | .pathend => true
  | _ => false

theorem BConf.triv {S : SC} {fne : Prop} {pc err stk pa fr} {i : Shape} (hc : codeAt S pc = some i)
    (hi : trivB i = true) : BConf S fne pc err stk pa fr := by
  unfold BConf
  rw [hc]
  cases i <;> first | trivial | cases hi

theorem Inv.cases {S : SC} {l : L} {e : Env} (hI : Inv S l e) :
    (l.backtrack = true ∧ ∃ A, View e A ∧ GInv S e ∧ ForksConf S A.forks ∧ PathsInv A ∧ BMode S l e A) ∨
    (l.backtrack = false ∧ ∃ A, View e A ∧ GInv S e ∧ ForksConf S A.forks ∧ PathsInv A ∧ NMode S l e A) := by
  obtain ⟨A, hV, G, hF, hP, hM⟩ := hI
  by_cases hbt : l.backtrack = true
  · rw [if_pos hbt] at hM; exact .inl ⟨hbt, A, hV, G, hF, hP, hM⟩
  · rw [if_neg hbt] at hM; exact .inr ⟨by simpa using hbt, A, hV, G, hF, hP, hM⟩

/-- the backtrack-mode configuration at an instruction inside the code -/
theorem BMode.conf {S : SC} {l : L} {e : Env} {A : AView} (h : BMode S l e A) {i : Shape}
    (hc : codeAt S l.pc = some i) : BConf S (A.forks ≠ []) l.pc l.err A.stk A.paths A.frames := by
  rcases h.2 with h | h
  · have := codeAt_range hc; omega
  · exact h

theorem Post.brk {S : SC} {l : L} {e' : Env} {A' : AView} (hV : View e' A') (G : GInv S e')
    (hF : ForksConf S A'.forks) (hP : PathsInv A') (he : eokO S e'.scopes.data.size l.err)
    (hr : A'.forks = [] → l.err ≠ none → BConf S False l.pc none A'.stk A'.paths A'.frames) :
    Post S (.brk, l) e' := ⟨A', hV, G, hF, hP, he, hr⟩

theorem eokO_none (S : SC) (n : Int) : eokO S n none := fun _ h => by simp at h

/-- a breaker entered in backtrack mode just breaks the loop -/
theorem Post.brk_triv {S : SC} {l : L} {e : Env} {A : AView} (hV : View e A) (G : GInv S e)
    (hF : ForksConf S A.forks) (hP : PathsInv A) (hM : BMode S l e A) {i : Shape} (hc : codeAt S l.pc = some i)
    (hi : trivB i = true) : Post S (.brk, l) e :=
  Post.brk hV G hF hP hM.1 (fun _ _ => BConf.triv hc hi)

/-! ## `pushfork`, `pushforkOver` -/

theorem ForksConf.cons {S : SC} {f : FView} {rest : List FView}
    (h : ∀ err, BConf S (rest ≠ []) f.pc err f.stk f.paths f.frames) (hr : ForksConf S rest) : ForksConf S (f :: rest) :=
  ⟨h, hr⟩

theorem pushforkOver_spec {S : SC} {e : Env} {A : AView} (hV : View e A) (G : GInv S e) {v : V}
    (hv : VOK S e v) (pc : Int) :
    ∃ e' j, pushforkOver v pc e = .ok () e' ∧
      View e' { A with forks := ⟨pc, (j, v) :: A.stk, A.frames, A.paths⟩ :: A.forks } ∧ GInv S e' ∧
      e'.scopes.data = e.scopes.data ∧ e'.scopes.index = e.scopes.index ∧ e'.values = e.values ∧
      e'.offset = e.offset ∧ e'.label = e.label ∧ e'.expdepth = e.expdepth ∧ e'.paths.data = e.paths.data := by
  have hV1 := hV.push v
  have G1 := G.push hv
  have hV2 := hV1.pushfork pc
  have G2 := G1.pushfork pc
  obtain ⟨nx, hpop, hV3, G3, _⟩ := pop_spec hV2 G2 rfl
  refine ⟨_, (e.stack.push v).index, ?_, hV3, G3, ?_, ?_, rfl, rfl, rfl, rfl, ?_⟩
  · unfold pushforkOver
    show M.bind (push v) (fun _ => M.bind (pushfork pc) (fun _ => M.bind pop fun _ => pure ())) e = _
    simp only [M.bind, push_eq, pushfork_eq, hpop]
    rfl
  · exact (save_facts _).2.1
  · exact (save_facts _).2.2.1
  · exact (save_facts _).2.1

/-! ## `popscope` -/

theorem popscope_spec {S : SC} {e : Env} {A : AView} (hV : View e A) (G : GInv S e) {i : Int} {s : Scope}
    {r : List (Int × Scope)} (hA : A.frames = (i, s) :: r) :
    ∃ e1, popscope e = .ok (s.pc, s.saveindex) e1 ∧ View e1 { A with frames := r } ∧ GInv S e1 ∧
      e1.scopes.index = s.saveindex ∧ e1.scopes.data = e.scopes.data ∧ e1.values = e.values ∧
      e1.stack = e.stack ∧ e1.forks = e.forks := by
  have hs := hV.scopes
  rw [hA] at hs
  obtain ⟨nx, hp, hv, hd, _⟩ := hs.pop_cons
  have hsave := G.save _ _ hd
  have hslot := G.slots _ _ hd
  simp only at hsave
  refine ⟨{ e with scopes := { e.scopes with index := nx },
                   offset := if e.scopes.index > e.scopes.limit then s.offset else e.offset }, ?_,
    ⟨hV.stack, hv, hV.paths, hV.pcs⟩, ⟨G.save, G.slots, G.outer, G.stk, G.vals, ?_, G.off.2⟩, hsave, rfl, rfl, rfl, rfl⟩
  · unfold popscope
    simp only [hp]
  · show 0 ≤ (if e.scopes.index > e.scopes.limit then s.offset else e.offset)
    split
    · exact hslot.1
    · exact G.off.1

theorem popscope_nil {e : Env} {A : AView} (hV : View e A) (hA : A.frames = []) : popscope e = .panic .scopesPop := by
  have hs := hV.scopes
  rw [hA] at hs
  unfold popscope; simp only [hs.pop_nil]

theorem Env.setIndex_self {e : Env} {k : Int} (h : e.scopes.index = k) :
    { e with scopes := { e.scopes with index := k } } = e := by
  subst h; rfl

/-! ## fork-like instructions -/

theorem PathsInv.pushfork {A : AView} (hP : PathsInv A) (pc : Int) (stk : List (Int × V)) :
    PathsInv { A with forks := ⟨pc, stk, A.frames, A.paths⟩ :: A.forks } := by
  refine ⟨hP.1, ?_⟩
  intro f hf
  simp only [List.mem_cons] at hf
  rcases hf with rfl | hf
  · exact hP.1
  · exact hP.2 f hf

/-- normal mode of `fork` / `forkalt` / `forktrybegin` / `forktryend`: push a fork, fall through -/
theorem fork_normal {S : SC} {l : L} {e : Env} {A : AView} (hV : View e A) (G : GInv S e)
    (hF : ForksConf S A.forks) (hP : PathsInv A) (hb : l.backtrack = false) (herr : l.err = none) {a : Abs}
    (hs : SuccOK S (l.pc + 1, { a with pend := true }))
    (hconf : HConf S (A.forks ≠ []) a A.stk A.paths A.frames)
    (hB : ∀ err, BConf S (A.forks ≠ []) l.pc err A.stk A.paths A.frames) :
    WP (do pushfork l.pc; pure (Ctl.fall, l) : M (Ctl × L)) (Post S) e := by
  apply WP.step (pushfork_eq _ _)
  apply WP.pure
  refine Post.fall (hV.pushfork l.pc) (G.pushfork l.pc) (ForksConf.cons hB hF) (hP.pushfork _ _) hb ?_
  exact NMode.fall hs herr (fun _ => List.cons_ne_nil _ _) (hconf.mono (fun _ => List.cons_ne_nil _ _))

theorem exec_fork {S : SC} (C : Checked S) {t : Int} {x : ExtRec} {l : L} {e : Env}
    (hc : codeAt S l.pc = some (.fork t)) (hI : Inv S l e) : WP (exec (.fork t) x l) (Post S) e := by
  rcases hI.cases with ⟨hb, A, hV, G, hF, hP, hM⟩ | ⟨hb, A, hV, G, hF, hP, hN⟩
  · have hB := hM.conf hc
    have hB' := hB
    unfold BConf at hB'
    simp only [hc] at hB'
    obtain ⟨a, ha, hconf, hp⟩ := hB'
    obtain ⟨_, succs, hst, hsucc, hpc⟩ := C.step l.pc a _ ha hc
    simp only [step1, Option.some.injEq] at hst
    subst hst
    rw [hpc] at hsucc
    simp only [exec, hb, if_true]
    split
    · apply WP.pure
      exact Post.brk hV G hF hP hM.1 (fun hf _ => by
        have := hB.mono (q := False) (fun h => h hf)
        rcases hle : l.err with _ | er
        · rw [hle] at this; exact this
        · unfold BConf at this ⊢; simp only [hc] at this ⊢; exact this)
    · rename_i hnone
      apply WP.pure
      have herr : l.err = none := by cases h : l.err <;> simp_all
      exact Post.jump hV G hF hP rfl (NMode.of_succ (succ2 hsucc).2 herr rfl hp hconf)
  · obtain ⟨herr, a, succs, ha, hst, hsucc, hpc, hp, hconf⟩ := hN.unpack C hc
    simp only [step1, Option.some.injEq] at hst
    subst hst
    rw [hpc] at hsucc
    rw [if_neg (by simp [isScope])] at hconf
    simp only [exec, hb]
    exact fork_normal hV G hF hP hb herr (succ2 hsucc).1 hconf (fun err => by
      unfold BConf; simp only [hc]; exact ⟨a, ha, hconf, hp⟩)

theorem exec_forkalt {S : SC} (C : Checked S) {t : Int} {x : ExtRec} {l : L} {e : Env}
    (hc : codeAt S l.pc = some (.forkalt t)) (hI : Inv S l e) : WP (exec (.forkalt t) x l) (Post S) e := by
  rcases hI.cases with ⟨hb, A, hV, G, hF, hP, hM⟩ | ⟨hb, A, hV, G, hF, hP, hN⟩
  · have hB := hM.conf hc
    have hB' := hB
    unfold BConf at hB'
    simp only [hc] at hB'
    obtain ⟨a, ha, hconf, hp⟩ := hB'
    obtain ⟨_, succs, hst, hsucc, hpc⟩ := C.step l.pc a _ ha hc
    simp only [step1, Option.some.injEq] at hst
    subst hst
    rw [hpc] at hsucc
    simp only [exec, hb, if_true]
    split
    · rename_i hnone
      apply WP.pure
      exact Post.brk hV G hF hP hM.1 (fun _ hne => by
        cases h : l.err <;> simp_all)
    · apply WP.pure
      exact Post.jump hV G hF hP rfl (NMode.of_succ (succ2 hsucc).2 rfl rfl hp hconf)
  · obtain ⟨herr, a, succs, ha, hst, hsucc, hpc, hp, hconf⟩ := hN.unpack C hc
    simp only [step1, Option.some.injEq] at hst
    subst hst
    rw [hpc] at hsucc
    rw [if_neg (by simp [isScope])] at hconf
    simp only [exec, hb]
    exact fork_normal hV G hF hP hb herr (succ2 hsucc).1 hconf (fun err => by
      unfold BConf; simp only [hc]; exact ⟨a, ha, hconf, hp⟩)

theorem exec_forktryend {S : SC} (C : Checked S) {x : ExtRec} {l : L} {e : Env}
    (hc : codeAt S l.pc = some .forktryend) (hI : Inv S l e) : WP (exec .forktryend x l) (Post S) e := by
  rcases hI.cases with ⟨hb, A, hV, G, hF, hP, hM⟩ | ⟨hb, A, hV, G, hF, hP, hN⟩
  · simp only [exec, hb, if_true]
    apply WP.pure
    refine Post.brk hV G hF hP ?_ (fun _ _ => BConf.triv hc rfl)
    intro er her
    cases hle : l.err with
    | none => rw [hle] at her; simp at her
    | some er0 =>
      rw [hle] at her
      simp only [Option.map_some, Option.some.injEq] at her
      subst her
      exact hM.1 er0 hle
  · obtain ⟨herr, a, succs, ha, hst, hsucc, hpc, hp, hconf⟩ := hN.unpack C hc
    simp only [step1, Option.some.injEq] at hst
    subst hst
    rw [hpc] at hsucc
    rw [if_neg (by simp [isScope])] at hconf
    simp only [exec, hb]
    exact fork_normal hV G hF hP hb herr (succ1 hsucc) hconf (fun err => BConf.triv hc rfl)

theorem exec_backtrack {S : SC} (C : Checked S) {x : ExtRec} {l : L} {e : Env}
    (hc : codeAt S l.pc = some .backtrack) (hI : Inv S l e) : WP (exec .backtrack x l) (Post S) e := by
  simp only [exec]
  apply WP.pure
  rcases hI.cases with ⟨hb, A, hV, G, hF, hP, hM⟩ | ⟨hb, A, hV, G, hF, hP, hN⟩
  · exact Post.brk_triv hV G hF hP hM hc rfl
  · exact Post.brk hV G hF hP (by rw [hN.1]; exact eokO_none _ _) (fun _ _ => BConf.triv hc rfl)

theorem exec_forktrybegin {S : SC} (C : Checked S) {t : Int} {x : ExtRec} {l : L} {e : Env}
    (hc : codeAt S l.pc = some (.forktrybegin t)) (hI : Inv S l e) :
    WP (exec (.forktrybegin t) x l) (Post S) e := by
  rcases hI.cases with ⟨hb, A, hV, G, hF, hP, hM⟩ | ⟨hb, A, hV, G, hF, hP, hN⟩
  · have hB := hM.conf hc
    have hB' := hB
    unfold BConf at hB'
    simp only [hc] at hB'
    obtain ⟨a, ha, hconf, hp⟩ := hB'
    obtain ⟨_, succs, hst, hsucc, hpc⟩ := C.step l.pc a _ ha hc
    simp only [step1] at hst
    split at hst
    · rename_i hh
      simp only [Option.some.injEq] at hst
      subst hst
      rw [hpc] at hsucc
      obtain ⟨i, v, r, hstk⟩ := hconf.cons_of_pos hh
      obtain ⟨nx, hpop, hV1, G1, hv⟩ := pop_spec hV G hstk
      -- the state a `break` leaves is the restored one
      have hre : ∀ (l' : L), l'.pc = l.pc → A.forks = [] → BConf S False l'.pc none A.stk A.paths A.frames := by
        intro l' hl' hf
        rw [hl']
        unfold BConf; simp only [hc]
        exact ⟨a, ha, hconf.mono (fun h => h hf), fun hb => hp hb hf⟩
      have hjump : ∀ (w : V), VOK S e w →
          WP (do let _ ← pop; push w; pure (Ctl.jump, { l with pc := t, backtrack := false, err := none }) : M (Ctl × L))
            (Post S) e := by
        intro w hw
        apply WP.step hpop
        apply WP.step (push_eq _ _)
        apply WP.pure
        exact Post.jump (hV1.push w) (G1.push hw) hF hP rfl
          (NMode.of_succ (succ2 hsucc).2 rfl rfl hp (hconf.resize (by simp [hstk])))
      simp only [exec, hb, if_true]
      split
      · apply WP.pure
        exact Post.brk hV G hF hP hM.1 (fun _ hne => by simp_all)
      · rename_i er her
        apply WP.pure
        exact Post.brk hV G hF hP (fun er' h' => by
          simp only [Option.some.injEq] at h'; subst h'
          have := hM.1 _ her; simpa [eok] using this) (fun hf _ => hre _ rfl hf)
      · apply WP.pure
        exact Post.brk hV G hF hP hM.1 (fun hf _ => hre _ rfl hf)
      · apply WP.pure
        exact Post.brk hV G hF hP hM.1 (fun hf _ => hre _ rfl hf)
      · rename_i w her
        exact hjump w (by have := hM.1 _ her; simpa [eok] using this)
      · exact hjump _ rfl
    · simp at hst
  · obtain ⟨herr, a, succs, ha, hst, hsucc, hpc, hp, hconf⟩ := hN.unpack C hc
    simp only [step1] at hst
    split at hst
    · simp only [Option.some.injEq] at hst
      subst hst
      rw [hpc] at hsucc
      rw [if_neg (by simp [isScope])] at hconf
      simp only [exec, hb]
      exact fork_normal hV G hF hP hb herr (succ2 hsucc).1 hconf (fun err => by
        unfold BConf; simp only [hc]; exact ⟨a, ha, hconf, hp⟩)
    · simp at hst

theorem goEq_label (w : V) (k : Int) : goEq w (.jv (.num (.int k))) ≠ .panic := by
  unfold goEq
  split <;> (try simp_all) <;> (repeat' split) <;> simp

theorem exec_forklabel {S : SC} (C : Checked S) {id i : Int} {x : ExtRec} {l : L} {e : Env}
    (hc : codeAt S l.pc = some (.forklabel id i)) (hI : Inv S l e) :
    WP (exec (.forklabel id i) x l) (Post S) e := by
  rcases hI.cases with ⟨hb, A, hV, G, hF, hP, hM⟩ | ⟨hb, A, hV, G, hF, hP, hN⟩
  · have hB := hM.conf hc
    unfold BConf at hB
    simp only [hc] at hB
    obtain ⟨j, v, r, hstk, hlab, hre⟩ := hB
    obtain ⟨nx, hpop, hV1, G1, hv⟩ := pop_spec hV G hstk
    have hpost : ∀ (l' : L), l'.pc = l.pc → eokO S e.scopes.data.size l'.err → (l'.err ≠ none → l.err ≠ none) →
        Post S (.brk, l') { e with stack := { e.stack with index := nx } } := by
      intro l' hl' he hne
      refine Post.brk hV1 G1 hF hP he ?_
      intro hf hne'
      rw [hl']
      unfold BConf; simp only [hc]
      rcases hre (hne hne') with h | h
      · cases r with
        | nil => exact absurd rfl h
        | cons q r' => exact ⟨q.1, q.2, r', rfl, .inl trivial, fun h => absurd rfl h⟩
      · exact absurd hf h
    simp only [exec, hb, if_true]
    apply WP.step hpop
    split
    · rename_i n w her
      have hv' : isLabel v = true := by
        rcases hlab with h | h
        · rw [h] at her; simp at her
        · exact h
      split
      · apply WP.pure
        exact hpost _ rfl (eokO_none _ _) (fun h => absurd rfl h)
      · apply WP.pure
        exact hpost _ rfl hM.1 (fun h => h)
      · rename_i hpan
        exfalso
        cases v with
        | jv jv =>
          cases jv with
          | num nn =>
            cases nn with
            | int k => exact goEq_label _ _ hpan
            | _ => simp [isLabel] at hv'
          | _ => simp [isLabel] at hv'
        | _ => simp [isLabel] at hv'
      · exact WP.stuck
    · apply WP.pure
      exact hpost _ rfl hM.1 (fun h => h)
  · obtain ⟨herr, a, succs, ha, hst, hsucc, hpc, hp, hconf⟩ := hN.unpack C hc
    simp only [step1] at hst
    split at hst
    · rename_i hh
      obtain ⟨hh, hslot⟩ := hh
      simp only [Option.some.injEq] at hst
      subst hst
      rw [hpc] at hsucc
      rw [if_neg (by simp [isScope])] at hconf
      simp only [exec, hb]
      apply WP.step (getEnv_eq _)
      obtain ⟨e1, j, hpf, hV1, G1, hd, hidx, hvals, hoff, hlabel, _, _⟩ :=
        pushforkOver_spec hV G (v := .jv (.num (.int e.label))) rfl l.pc
      apply WP.step hpf
      apply WP.envIndex hV1 G1 hslot
      intro k h0 h1
      obtain ⟨hset, hV2, G2⟩ := setValue_spec hV1 G1 (k := k) (v := .jv (.num (.int e.label))) h0 h1 rfl
      apply WP.step hset
      apply WP.step (modifyEnv_eq _ _)
      apply WP.pure
      refine Post.fall (hV2.fr ⟨rfl, rfl, rfl, rfl, rfl⟩) (G2.fr ⟨rfl, rfl, rfl, rfl, rfl⟩) ?_ (hP.pushfork _ _) hb ?_
      · refine ForksConf.cons (fun err => ?_) hF
        unfold BConf; simp only [hc]
        refine ⟨j, _, A.stk, rfl, .inr rfl, fun _ => ?_⟩
        rcases hh with h | h
        · obtain ⟨i', v', r', hs'⟩ := hconf.cons_of_pos h
          left; rw [hs']; simp
        · exact .inr (hp h)
      · exact NMode.fall (succ1 hsucc) herr (fun _ => by simp) (hconf.mono (fun _ => by simp))
    · simp at hst

/-! ## calls and frames -/

theorem entry_ann {S : SC} (C : Checked S) {t : Int} {k : Nat} (h : entryHI S.code S.nvars t = some k) :
    ∃ ins, codeAt S t = some ins ∧ isScope ins = true ∧ annAt S t = some ⟨k, false, 0⟩ := by
  unfold entryHI at h
  split at h
  · rename_i h0
    have h' := h
    unfold entryH at h'
    split at h'
    · rename_i id vars nargs hcode
      have hcA : codeAt S t = some (.scope id vars nargs) := by unfold codeAt; simp [h0, hcode]
      obtain ⟨a, ha, hea⟩ := C.entry t _ hcA rfl
      refine ⟨_, hcA, rfl, ?_⟩
      unfold entryAbs at hea
      rw [h] at hea
      simp only [Option.map_some, Option.some.injEq] at hea
      rw [ha, ← hea]
    · simp at h'
  · simp at h

theorem exec_call {S : SC} (C : Checked S) {t : Int} {x : ExtRec} {l : L} {e : Env}
    (hc : codeAt S l.pc = some (.call t)) (hI : Inv S l e) : WP (exec (.call t) x l) (Post S) e := by
  rcases hI.cases with ⟨hb, A, hV, G, hF, hP, hM⟩ | ⟨hb, A, hV, G, hF, hP, hN⟩
  · simp only [exec, hb, if_true]
    apply WP.pure
    exact Post.brk_triv hV G hF hP hM hc rfl
  · obtain ⟨herr, a, succs, ha, hst, hsucc, hpc, hp, hconf⟩ := hN.unpack C hc
    simp only [step1] at hst
    split at hst
    · rename_i k hk
      split at hst
      · rename_i hka
        simp only [Option.some.injEq] at hst
        subst hst
        rw [hpc] at hsucc
        rw [if_neg (by simp [isScope])] at hconf
        obtain ⟨ins, hct, hsc, hat⟩ := entry_ann C hk
        obtain ⟨b, i, hb1, hb2, hb3, hb4, hb5, hb6⟩ := succ1 hsucc
        simp only [exec, hb]
        apply WP.step (getEnv_eq _)
        apply WP.pure
        refine Post.jump hV G hF hP rfl ⟨herr, ⟨k, false, 0⟩, ins, hat, hct, fun h => by simp at h, ?_⟩
        rw [if_pos hsc]
        refine ⟨⟨hconf.fr, .inl ⟨(codeAt_range hc).1, fun h => absurd h hconf.ne, fun _ => ?_, ?_, ?_⟩⟩, ?_⟩
        · exact ⟨b, i, hb1, hb2, hb3, fun h => hp (hb5 h)⟩
        · have hA : hAfter S l.pc = b.h := by unfold hAfter; rw [hb1]
          simp only [hconf.ne, if_false]
          show k + (hAfter S l.pc - 1) + need S A.frames ≤ A.stk.length
          have := hconf.len
          simp only at hb4
          rw [hA]; omega
        · have hA : pdAfter S l.pc = b.pd := by unfold pdAfter; rw [hb1]
          simp only [hconf.ne, if_false]
          show 0 + pdAfter S l.pc + needP S A.frames ≤ segs A.paths
          have := hconf.plen
          simp only at hb6
          rw [hA]; omega
        · exact hV.scopes.chain.index_lt
      · simp at hst
    · simp at hst

theorem exec_callrec {S : SC} (C : Checked S) {t : Int} {x : ExtRec} {l : L} {e : Env}
    (hc : codeAt S l.pc = some (.callrec t)) (hI : Inv S l e) : WP (exec (.callrec t) x l) (Post S) e := by
  obtain ⟨hb, A, hV, G, hF, hP, hN⟩ := hI.elimN hc rfl
  obtain ⟨herr, a, succs, ha, hst, hsucc, hpc, hp, hconf⟩ := hN.unpack C hc
  simp only [step1] at hst
  split at hst
  · rename_i k hk
    split at hst
    · rename_i hka
      rw [if_neg (by simp [isScope])] at hconf
      obtain ⟨ins, hct, hsc, hat⟩ := entry_ann C hk
      simp only [exec]
      apply WP.step (getEnv_eq _)
      apply WP.pure
      refine Post.jump hV G hF hP hb ⟨herr, ⟨k, false, 0⟩, ins, hat, hct, fun h => by simp at h, ?_⟩
      rw [if_pos hsc]
      refine ⟨⟨hconf.fr, .inr ⟨rfl, ?_, ?_, ?_⟩⟩, hV.scopes.chain.index_lt⟩
      · cases hfr : A.frames with
        | nil => exact absurd hfr hconf.ne
        | cons q r =>
          have hs := hV.scopes
          rw [hfr] at hs
          exact ⟨q.1, q.2, r, rfl, (hs.index_cons (i := q.1) (v := q.2)).1⟩
      · rw [hka]; exact hconf.len
      · show 0 + needP S A.frames ≤ segs A.paths
        have := hconf.plen; omega
    · simp at hst
  · simp at hst

theorem target_entry {S : SC} {t : Int} (h : S.target t = true) : entryHI S.code S.nvars t = some 1 := by
  unfold SC.target at h
  simpa using h

theorem exec_callpc {S : SC} (C : Checked S) {x : ExtRec} {l : L} {e : Env}
    (hc : codeAt S l.pc = some .callpc) (hI : Inv S l e) : WP (exec .callpc x l) (Post S) e := by
  obtain ⟨hb, A, hV, G, hF, hP, hN⟩ := hI.elimN hc rfl
  obtain ⟨herr, a, succs, ha, hst, hsucc, hpc, hp, hconf⟩ := hN.unpack C hc
  simp only [step1] at hst
  split at hst
  · rename_i hh
    simp only [Option.some.injEq] at hst
    subst hst
    rw [hpc] at hsucc
    rw [if_neg (by simp [isScope])] at hconf
    obtain ⟨j, v, r, hstk⟩ := hconf.cons_of_pos (by omega)
    obtain ⟨nx, hpop, hV1, G1, hv⟩ := pop_spec hV G hstk
    obtain ⟨b, i, hb1, hb2, hb3, hb4, hb5, hb6⟩ := succ1 hsucc
    simp only [exec]
    apply WP.step hpop
    split
    · rename_i tpc idx
      simp only [VOK, vok, Bool.and_eq_true, decide_eq_true_eq] at hv
      obtain ⟨ins, hct, hsc, hat⟩ := entry_ann C (target_entry hv.1)
      apply WP.pure
      refine Post.jump hV1 G1 hF hP hb ⟨herr, ⟨1, false, 0⟩, ins, hat, hct, fun h => by simp at h, ?_⟩
      rw [if_pos hsc]
      refine ⟨⟨hconf.fr, .inl ⟨(codeAt_range hc).1, fun h => absurd h hconf.ne, fun _ => ?_, ?_, ?_⟩⟩, hv.2⟩
      · exact ⟨b, i, hb1, hb2, hb3, fun h => hp (hb5 h)⟩
      · have hA : hAfter S l.pc = b.h := by unfold hAfter; rw [hb1]
        simp only [hconf.ne, if_false]
        show 1 + (hAfter S l.pc - 1) + need S A.frames ≤ r.length
        have := hconf.len
        rw [hstk] at this
        simp only [List.length_cons] at this
        simp only at hb4
        rw [hA]; omega
      · have hA : pdAfter S l.pc = b.pd := by unfold pdAfter; rw [hb1]
        simp only [hconf.ne, if_false]
        show 0 + pdAfter S l.pc + needP S A.frames ≤ segs A.paths
        have := hconf.plen
        simp only at hb6
        rw [hA]; omega
    · exact WP.panic rfl
  · simp at hst

/-! ## `scope` -/

/-- `if env.offset > len(env.values) { … grow … }` -/
def growEnv (e : Env) : Env :=
  if e.offset > e.values.size then
    { e with values := e.values ++ Array.replicate ((e.offset * 2).toNat - e.values.size) (.jv .null) }
  else e

theorem growEnv_fields (e : Env) :
    (growEnv e).stack = e.stack ∧ (growEnv e).scopes = e.scopes ∧ (growEnv e).forks = e.forks ∧
    (growEnv e).offset = e.offset ∧ e.values.size ≤ (growEnv e).values.size ∧
    (e.offset : Int) ≤ (growEnv e).values.size ∧
    (∀ (j : Nat) (v : V), (growEnv e).values[j]? = some v → e.values[j]? = some v ∨ v = .jv .null) := by
  unfold growEnv
  split
  · rename_i h
    refine ⟨rfl, rfl, rfl, rfl, by simp, ?_, ?_⟩
    · simp only [Array.size_append, Array.size_replicate]
      omega
    · intro j v hv
      simp only [Array.getElem?_append] at hv
      split at hv
      · exact .inl hv
      · right
        simp only [Array.getElem?_replicate] at hv
        split at hv
        · simp at hv; exact hv.symm
        · simp at hv
  · rename_i h
    exact ⟨rfl, rfl, rfl, rfl, Nat.le_refl _, by omega, fun j v hv => .inl hv⟩

theorem push_size_le {α : Type} (s : Stack α) (v : α) : s.data.size ≤ (s.push v).data.size := by
  unfold Stack.push
  simp only
  split <;> simp

/-- the environment after `scope` pushed its frame and grew `values` -/
def scopeEnv (sc : Scope) (vars : Int) (e : Env) : Env :=
  growEnv { e with scopes := e.scopes.push sc, offset := e.offset + vars }

theorem View.scope {e : Env} {A : AView} (hV : View e A) (sc : Scope) (vars : Int) :
    View (scopeEnv sc vars e) { A with frames := ((e.scopes.push sc).index, sc) :: A.frames } := by
  obtain ⟨h1, h2, h3, _, _, _, _⟩ := growEnv_fields { e with scopes := e.scopes.push sc, offset := e.offset + vars }
  unfold scopeEnv
  have hp : (growEnv { e with scopes := e.scopes.push sc, offset := e.offset + vars }).paths = e.paths := by
    unfold growEnv; split <;> rfl
  refine ⟨?_, ?_, ?_, ?_⟩
  · rw [h1, h3]; exact hV.stack
  · rw [h2, h3]; exact hV.scopes.push sc
  · rw [hp, h3]; exact hV.paths
  · rw [h3]; exact hV.pcs

theorem GInv.scope {S : SC} {e : Env} (G : GInv S e) {sc : Scope} {vars : Int} (hvars : 0 ≤ vars)
    (hlook : S.tab.lookup sc.id = some vars.toNat) (hoff : sc.offset = e.offset)
    (hsave : sc.saveindex = e.scopes.index) (houter : sc.outerindex < e.scopes.data.size) :
    GInv S (scopeEnv sc vars e) := by
  obtain ⟨h1, h2, h3, h4, h5, h6, h7⟩ := growEnv_fields { e with scopes := e.scopes.push sc, offset := e.offset + vars }
  have hsz := push_size_le e.scopes sc
  have hszI : (e.scopes.data.size : Int) ≤ ((e.scopes.push sc).data.size : Int) := by omega
  unfold scopeEnv
  refine ⟨?_, ?_, ?_, ?_, ?_, ?_⟩
  · rw [h2]
    exact push_all (fun b => b.next = b.value.saveindex) e.scopes sc G.save hsave.symm
  · rw [h2]
    refine push_all (fun b => 0 ≤ b.value.offset ∧ ∃ n : Nat, S.tab.lookup b.value.id = some n ∧
      b.value.offset + (n : Int) ≤ ((growEnv { e with scopes := e.scopes.push sc, offset := e.offset + vars }).values.size : Int))
      e.scopes sc ?_ ?_
    · intro j b hb
      obtain ⟨g0, n, g1, g2⟩ := G.slots j b hb
      refine ⟨g0, n, g1, ?_⟩
      simp only at h5
      omega
    · refine ⟨by rw [hoff]; exact G.off.1, vars.toNat, hlook, ?_⟩
      simp only at h6
      rw [hoff]
      omega
  · rw [h2]
    exact push_all (fun b => b.value.outerindex < ((e.scopes.push sc).data.size : Int)) e.scopes sc
      (fun j b hb => by have := G.outer j b hb; omega) (by simp only; omega)
  · rw [h1, h2]
    intro j b hb
    exact vok_mono S hszI _ (G.stk j b hb)
  · rw [h2]
    intro j v hv
    rcases h7 j v hv with h | h
    · exact vok_mono S hszI _ (G.vals j v h)
    · subst h; rfl
  · rw [h3, h4]
    exact ⟨by have := G.off.1; simp only; omega, G.off.2⟩

theorem bind_ok_eq {α β : Type} {m : M α} {f : α → M β} {e e1 : Env} {a : α} (h : m e = .ok a e1) :
    (m >>= f) e = f a e1 := by
  show M.bind m f e = _
  unfold M.bind; rw [h]

theorem scope_tail_eq (sc : Scope) (vars : Int) (r : Ctl × L) (e : Env) :
    (do modifyEnv fun e => { e with scopes := e.scopes.push sc, offset := e.offset + vars }
        let e ← getEnv
        if e.offset > e.values.size then
          modifyEnv fun e => { e with values := e.values ++ Array.replicate ((e.offset * 2).toNat - e.values.size) (.jv .null) }
        pure r : M (Ctl × L)) e = .ok r (scopeEnv sc vars e) := by
  rw [bind_ok_eq (modifyEnv_eq _ _), bind_ok_eq (getEnv_eq _)]
  unfold scopeEnv growEnv
  simp only
  split
  · rw [bind_ok_eq (modifyEnv_eq _ _)]
    rfl
  · rfl

theorem need_cons (S : SC) (f : Int × Scope) (r : List (Int × Scope)) :
    need S (f :: r) = (if r = [] then 0 else hAfter S f.2.pc - 1) + need S r := by
  cases r with
  | nil => simp [need]
  | cons g r => simp [need]

theorem needP_cons (S : SC) (f : Int × Scope) (r : List (Int × Scope)) :
    needP S (f :: r) = (if r = [] then 0 else pdAfter S f.2.pc) + needP S r := by
  cases r with
  | nil => simp [needP]
  | cons g r => simp [needP]

theorem FramesOK.cons_iff {S : SC} {p : Prop} (f : Int × Scope) (r : List (Int × Scope)) :
    FramesOK S p (f :: r) ↔ (r = [] → f.2.pc = S.size - 1) ∧ (r ≠ [] → RetPt S p f.2.pc) ∧ FramesOK S p r := by
  cases r with
  | nil => simp [FramesOK]
  | cons g r => simp [FramesOK]

/-- what the new frame needs of the registers and the frames below it -/
def NewFrame (S : SC) (fne : Prop) (a : Abs) (cp : Int) (stk pa : List (Int × V)) (fr : List (Int × Scope)) : Prop :=
  FramesOK S fne fr ∧ (fr = [] → cp = S.size - 1) ∧ (fr ≠ [] → RetPt S fne cp) ∧
  a.h + (if fr = [] then 0 else hAfter S cp - 1) + need S fr ≤ stk.length ∧
  a.pd + (if fr = [] then 0 else pdAfter S cp) + needP S fr ≤ segs pa

theorem scope_stage1 {S : SC} {l : L} {e : Env} {A : AView} {a : Abs} (hV : View e A) (G : GInv S e)
    (hE : EntryConf S (A.forks ≠ []) l a A) :
    WP (if l.index = e.scopes.index then
          if l.callpc ≥ 0 then pure (l.callpc, l.index) else popscope
        else pure (l.callpc, e.scopes.index) : M (Int × Int))
      (fun p e1 => ∃ fr, View e1 { A with frames := fr } ∧ GInv S e1 ∧ p.2 = e1.scopes.index ∧
        e1.scopes.data = e.scopes.data ∧ NewFrame S (A.forks ≠ []) a p.1 A.stk A.paths fr) e := by
  obtain ⟨hfr, hE⟩ := hE
  rcases hE with ⟨h0, h1, h2, h3, h4⟩ | ⟨h0, ⟨i, s, r, hA, hi⟩, h3, h4⟩
  · by_cases hidx : l.index = e.scopes.index
    · rw [if_pos hidx, if_pos h0]
      apply WP.pure
      exact ⟨A.frames, hV, G, hidx, rfl, hfr, h1, h2, h3, h4⟩
    · rw [if_neg hidx]
      apply WP.pure
      exact ⟨A.frames, hV, G, rfl, rfl, hfr, h1, h2, h3, h4⟩
  · have hs := hV.scopes
    rw [hA] at hs
    have hidx : l.index = e.scopes.index := by rw [hi]; exact (hs.index_cons).1.symm
    rw [if_pos hidx, if_neg (by omega)]
    obtain ⟨e1, hpop, hV1, G1, hsi, hd, _, _, _⟩ := popscope_spec hV G hA
    unfold WP
    rw [hpop]
    refine ⟨r, hV1, G1, hsi.symm, hd, ?_⟩
    rw [hA] at hfr h3 h4
    rw [FramesOK.cons_iff] at hfr
    rw [need_cons] at h3
    rw [needP_cons] at h4
    exact ⟨hfr.2.2, hfr.1, hfr.2.1, by simp only at h3 ⊢; omega, by simp only at h4 ⊢; omega⟩

theorem scope_stage2 {S : SC} {l : L} {e : Env} (G : GInv S e) (id : Int) (hi : l.index < e.scopes.data.size) :
    WP (if l.index ≥ 0 then
          match e.scopes.data[l.index.toNat]? with
          | none => VM.panic .scopesData
          | some b => pure (if b.value.id = id then b.value.outerindex else l.index)
        else pure l.index : M Int)
      (fun oi e1 => e1 = e ∧ oi < e.scopes.data.size) e := by
  split
  · rename_i h0
    have hlt : l.index.toNat < e.scopes.data.size := by omega
    have hget : e.scopes.data[l.index.toNat]? = some e.scopes.data[l.index.toNat] := by simp [hlt]
    rw [hget]
    simp only
    apply WP.pure
    refine ⟨rfl, ?_⟩
    split
    · exact G.outer _ _ hget
    · exact hi
  · apply WP.pure
    exact ⟨rfl, by omega⟩

theorem exec_scope {S : SC} (C : Checked S) {id vars nargs : Int} {x : ExtRec} {l : L} {e : Env}
    (hc : codeAt S l.pc = some (.scope id vars nargs)) (hI : Inv S l e) :
    WP (exec (.scope id vars nargs) x l) (Post S) e := by
  obtain ⟨hb, A, hV, G, hF, hP, hN⟩ := hI.elimN hc rfl
  obtain ⟨herr, a, succs, ha, hst, hsucc, hpc, hp, hconf⟩ := hN.unpack C hc
  simp only [step1] at hst
  split at hst
  · rename_i hh
    obtain ⟨hvars, hlook⟩ := hh
    simp only [Option.some.injEq] at hst
    subst hst
    rw [hpc] at hsucc
    rw [if_pos (by simp [isScope])] at hconf
    obtain ⟨hE, hidx⟩ := hconf
    simp only [exec]
    apply WP.step (getEnv_eq _)
    apply WP.bind
    apply WP.mono (scope_stage1 hV G hE)
    rintro ⟨cp, si⟩ e1 ⟨fr, hV1, G1, hsi, hd, hNF⟩
    simp only at hsi
    simp only
    apply WP.step (getEnv_eq _)
    apply WP.bind
    apply WP.mono (scope_stage2 G1 id (by rw [hd]; exact hidx))
    rintro oi e2 ⟨rfl, hoi⟩
    have htail : ∀ (m : M (Ctl × L)) (r : Ctl × L), m e2 = .ok r (scopeEnv ⟨id, e2.offset, cp, si, oi⟩ vars e2) →
        Post S r (scopeEnv ⟨id, e2.offset, cp, si, oi⟩ vars e2) → WP m (Post S) e2 := by
      intro m r hm hP; unfold WP; rw [hm]; exact hP
    apply htail _ (.fall, { l with callpc := cp })
    · rw [bind_ok_eq (modifyEnv_eq _ _), bind_ok_eq (getEnv_eq _)]
      unfold scopeEnv growEnv
      simp only
      split
      · rw [bind_ok_eq (modifyEnv_eq _ _)]
        rfl
      · rfl
    have hV2 := hV1.scope ⟨id, e2.offset, cp, si, oi⟩ vars
    have G2 := G1.scope (sc := ⟨id, e2.offset, cp, si, oi⟩) hvars hlook rfl hsi hoi
    refine Post.fall hV2 G2 hF hP hb (NMode.fall (succ1 hsucc) herr hp ?_)
    obtain ⟨n1, n2, n3, n4, n5⟩ := hNF
    refine ⟨by simp, ?_, ?_, ?_⟩
    · rw [FramesOK.cons_iff]; exact ⟨n2, n3, n1⟩
    · rw [need_cons]; simp only at n4 ⊢; omega
    · rw [needP_cons]; simp only at n5 ⊢; omega
  · simp at hst

theorem exec_ret {S : SC} (C : Checked S) {x : ExtRec} {l : L} {e : Env}
    (hc : codeAt S l.pc = some .ret) (hI : Inv S l e) : WP (exec .ret x l) (Post S) e := by
  rcases hI.cases with ⟨hb, A, hV, G, hF, hP, hM⟩ | ⟨hb, A, hV, G, hF, hP, hN⟩
  · simp only [exec, hb, if_true]
    apply WP.pure
    exact Post.brk_triv hV G hF hP hM hc rfl
  · obtain ⟨herr, a, succs, ha, hst, hsucc, hpc, hp, hconf⟩ := hN.unpack C hc
    simp only [step1] at hst
    split at hst
    · rename_i hh
      rw [if_neg (by simp [isScope])] at hconf
      obtain ⟨hne, hfr, hlen, hplen⟩ := hconf
      cases hA : A.frames with
      | nil => exact absurd hA hne
      | cons q r =>
        obtain ⟨i, s⟩ := q
        obtain ⟨e1, hpop, hV1, G1, hsi, hd, _, _, _⟩ := popscope_spec hV G hA
        rw [hA, FramesOK.cons_iff] at hfr
        rw [hA, need_cons] at hlen
        rw [hA, needP_cons] at hplen
        simp only [exec, hb]
        apply WP.step hpop
        simp only
        apply WP.step (modifyEnv_eq _ _)
        rw [Env.setIndex_self hsi]
        apply WP.step (getEnv_eq _)
        cases r with
        | nil =>
          have hs1 := hV1.scopes
          have hemp : e1.scopes.empty = true := by
            unfold Stack.empty; simpa using hs1.index_nil
          simp only [hemp, if_true]
          obtain ⟨j, v, r', hstk⟩ : ∃ j v r', A.stk = (j, v) :: r' := by
            cases hs : A.stk with
            | nil => rw [hs] at hlen; simp at hlen; omega
            | cons q r' => exact ⟨q.1, q.2, r', rfl⟩
          obtain ⟨nx, hpop2, hV2, G2, _⟩ := pop_spec (A := { A with frames := [] }) hV1 G1 hstk
          apply WP.step hpop2
          apply WP.pure
          exact ⟨_, hV2, G2, hF, hP, hfr.1 rfl⟩
        | cons g r' =>
          have hs1 := hV1.scopes
          obtain ⟨gi, gs⟩ := g
          have hemp : e1.scopes.empty = false := by
            unfold Stack.empty
            have := (hs1.index_cons (i := gi) (v := gs)).1
            have := (hs1.index_cons (i := gi) (v := gs)).2
            simp only [decide_eq_false_iff_not]; omega
          simp only [hemp]
          apply WP.pure
          obtain ⟨b, ib, hb1, hb2, hb3, hb4⟩ := hfr.2.1 (by simp)
          refine Post.fall hV1 G1 hF hP rfl ⟨herr, b, ib, hb1, hb2, hb4, ?_⟩
          rw [if_neg (by rw [hb3]; simp)]
          refine ⟨by simp, hfr.2.2, ?_, ?_⟩
          · have hA' : hAfter S s.pc = b.h := by unfold hAfter; rw [hb1]
            simp only [List.cons_ne_nil, if_false, reduceCtorEq] at hlen
            simp only at hlen ⊢
            rw [hA'] at hlen
            omega
          · have hA' : pdAfter S s.pc = b.pd := by unfold pdAfter; rw [hb1]
            simp only [List.cons_ne_nil, if_false, reduceCtorEq] at hplen
            simp only at hplen ⊢
            rw [hA'] at hplen
            omega
    · simp at hst

end Gojq.SafeVM

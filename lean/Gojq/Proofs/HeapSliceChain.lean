/-
  Helper lemmas for the slice extension of the heap model, part 4: tree-level `getpath` with slices, the
  release/clone of `funcGetpathWithAllocator`, and the invariant that chains the iterations of one
  `_modify` reduction over paths with slices.  Core Lean only.
-/
import Gojq.Proofs.HeapSliceStep
namespace Gojq.Heap
open Gojq

/-! ### tree-level `getpath` with slices -/

theorem getpS_null : ∀ (p : PathS) (x : T), getpS p T.null = some x → x = T.null := by
  intro p
  induction p with
  | nil => intro x h; simp only [getpS, Option.some.injEq] at h; exact h.symm
  | cons e p ih =>
    intro x h
    cases e <;> (simp only [getpS, T.null] at h; exact ih x h)

/-- one step of `getpS`: into `null`, into a child, or onto a second header of the same cell -/
theorem getpS_step (e : PES) (p : PathS) (v x : T) (h : getpS (e :: p) v = some x) :
    ∃ ch, getpS p ch = some x ∧
      (ch = T.null ∨
       ((∀ s e', e ≠ .slice s e') ∧ ∃ id o c pre k post, v = .node id o c (pre ++ (k, ch) :: post)) ∨
       (∃ s e' id c c' pre mid post, e = .slice s e' ∧ v = .node id false c (pre ++ mid ++ post) ∧
          ch = .node id false c' mid)) := by
  cases e with
  | key k =>
    cases v with
    | hole => simp [getpS] at h
    | leaf s =>
      cases s <;> simp only [getpS, reduceCtorEq] at h
      exact ⟨T.null, h, Or.inl rfl⟩
    | node id ob c ks =>
      cases ob with
      | false => simp [getpS] at h
      | true =>
        simp only [getpS] at h
        rcases hs : splitKey k ks with ⟨pre, ox, post⟩
        simp only [hs] at h
        cases ox with
        | none => exact ⟨T.null, h, Or.inl rfl⟩
        | some y =>
          refine ⟨y, h, Or.inr (Or.inl ⟨fun s e' he => (by cases he), id, true, c, pre, k, post, ?_⟩)⟩
          rw [splitKey_found k ks pre post y hs]
  | idx i =>
    cases v with
    | hole => simp [getpS] at h
    | leaf s =>
      cases s <;> simp only [getpS, reduceCtorEq] at h
      exact ⟨T.null, h, Or.inl rfl⟩
    | node id ob c ks =>
      cases ob with
      | true => simp [getpS] at h
      | false =>
        simp only [getpS] at h
        split at h
        · split at h
          · rename_i r hs
            obtain ⟨pre, y, post⟩ := r
            obtain ⟨k, hks, _⟩ := splitIdx_eq _ ks pre post y hs
            exact ⟨y, h, Or.inr (Or.inl ⟨fun s e' he => (by cases he), id, false, c, pre, k, post, by rw [hks]⟩)⟩
          · exact ⟨T.null, h, Or.inl rfl⟩
        · exact ⟨T.null, h, Or.inl rfl⟩
  | slice s e' =>
    cases v with
    | hole => simp [getpS] at h
    | leaf sc =>
      cases sc <;> simp only [getpS, reduceCtorEq] at h
      exact ⟨T.null, h, Or.inl rfl⟩
    | node id ob c ks =>
      cases ob with
      | true => simp [getpS] at h
      | false =>
        simp only [getpS] at h
        refine ⟨_, h, Or.inr (Or.inr ⟨s, e', id, c, _, ks.take (sliceBounds s e' ks.length).1,
          (ks.drop (sliceBounds s e' ks.length).1).take ((sliceBounds s e' ks.length).2 - (sliceBounds s e' ks.length).1),
          ks.drop (sliceBounds s e' ks.length).2, rfl, ?_, rfl⟩)⟩
        rw [← take_mid_drop ks _ _ (sliceBounds_le s e' ks.length).1]

theorem getpS_abs : ∀ (p : PathS) (v x : T), getpS p v = some x → getpathS p (abs v) = some (abs x) := by
  intro p
  induction p with
  | nil => intro v x h; simp only [getpS, Option.some.injEq] at h; subst h; rfl
  | cons e p ih =>
    intro v x h
    cases e with
    | key k =>
      cases v with
      | hole => simp [getpS] at h
      | leaf s =>
        cases s <;> simp only [getpS, reduceCtorEq] at h
        simpa [abs, Sc.toJV, getpathS, T.null] using ih _ x h
      | node id ob c ks =>
        cases ob with
        | false => simp [getpS] at h
        | true =>
          simp only [getpS] at h
          simp only [abs, getpathS, (splitKey_abs JV.null k ks).1, getD_map_abs]
          exact ih _ x h
    | idx i =>
      cases v with
      | hole => simp [getpS] at h
      | leaf s =>
        cases s <;> simp only [getpS, reduceCtorEq] at h
        simpa [abs, Sc.toJV, getpathS, T.null] using ih _ x h
      | node id ob c ks =>
        cases ob with
        | true => simp [getpS] at h
        | false =>
          simp only [getpS] at h
          simp only [abs, getpathS, absA_length]
          split at h
          · rename_i j hr
            split at h
            · rename_i r hs
              obtain ⟨pre, y, post⟩ := r
              rw [(splitIdx_abs JV.null j ks pre post y hs).1]
              exact ih _ x h
            · rename_i hs
              have hlen := splitIdx_none j ks hs
              have : (absA ks).getD j JV.null = JV.null := by
                simp [List.getD, absA_length, hlen]
              rw [this]
              simpa [abs, Sc.toJV, T.null] using ih _ x h
          · rename_i hr
            have := ih _ x h
            simp only [T.null, abs, Sc.toJV] at this
            exact this
    | slice s e' =>
      cases v with
      | hole => simp [getpS] at h
      | leaf sc =>
        cases sc <;> simp only [getpS, reduceCtorEq] at h
        simpa [abs, Sc.toJV, getpathS, T.null] using ih _ x h
      | node id ob c ks =>
        cases ob with
        | true => simp [getpS] at h
        | false =>
          simp only [getpS] at h
          have := ih _ x h
          simp only [abs, getpathS] at this ⊢
          rw [absA_take, absA_drop] at this
          simpa [sliceV, absA_length] using this

/-! ### what `funcGetpathWithAllocator` releases -/

/-- the allocator after `funcGetpathWithAllocator` found `x` at `p` -/
def relFinal (A : List Nat) (p : PathS) (x : T) : List Nat :=
  match endsWithSlice p, x with
  | true, .node _ false _ xs => releaseK A xs
  | _, _ => release A x

theorem endsWithSlice_nonslice (e : PES) (p : PathS) (he : ∀ s e', e ≠ .slice s e') :
    endsWithSlice (e :: p) = endsWithSlice p := by
  cases p with
  | nil => cases e with
    | key k => rfl
    | idx i => rfl
    | slice s e' => exact absurd rfl (he s e')
  | cons e' p' => exact endsWithSlice_cons e _ (by simp)

theorem replG_of {p : PathS} {v x : T} (h : getpS p v = some x) :
    replG p v = if endsWithSlice p then kidIds x else x.ids := by
  simp [replG, h]

/-- releasing at `p`: the owned part of the whole value stays top-closed, exactly the owned labels of the
    replaced part are forgotten -/
structure RelOK (A : List Nat) (p : PathS) (v : T) (A' : List Nat) : Prop where
  tcv : tc A' v
  sub : ∀ a ∈ A', a ∈ A
  keep : ∀ a ∈ A, a ∉ v.ids → a ∈ A'
  gone : ∀ a ∈ replG p v, a ∉ A'
  back : ∀ a ∈ A, a ∉ A' → a ∈ replG p v
  cntk : p ≠ [] → ∀ a, (replG p v).count a ≤ (kidIds v).count a
  cnt0 : p = [] → replG p v = v.ids

theorem RelOK.cnt {A p v A'} (R : RelOK A p v A') : ∀ a, (replG p v).count a ≤ v.ids.count a := by
  intro a
  by_cases hp : p = []
  · rw [R.cnt0 hp]; exact Nat.le_refl _
  · have := R.cntk hp a
    have := kid_le_ids v a
    omega

theorem cntmem : ∀ (l : Kids) (y : Bytes × T), y ∈ l → ∀ a, y.2.ids.count a ≤ (idsK l).count a := by
  intro l
  induction l with
  | nil => intro y hy; cases hy
  | cons z zs ihl =>
    obtain ⟨kz, tz⟩ := z
    intro y hy a
    simp only [idsK, List.count_append]
    rcases List.mem_cons.mp hy with rfl | hy
    · simp only []; omega
    · have := ihl y hy a; omega

theorem relS_ok (A : List Nat) : ∀ (p : PathS) (v x : T), getpS p v = some x → tc A v → Uniq A v →
    RelOK A p v (relFinal A p x) := by
  intro p
  induction p with
  | nil =>
    intro v x h ht hu
    simp only [getpS, Option.some.injEq] at h
    subst h
    have hr : relFinal A [] v = release A v := by simp [relFinal, endsWithSlice]
    have hg : replG [] v = v.ids := by simp [replG, getpS, endsWithSlice]
    rw [hr]
    refine ⟨tc_of_disjoint _ _ (release_est v A ht hu), release_sub v A, fun a h1 h2 => release_keep v A a h1 h2,
      ?_, ?_, fun h => absurd rfl h, fun _ => hg⟩
    · rw [hg]; exact release_est v A ht hu
    · intro a ha hna
      rw [hg]
      exact Classical.byContradiction fun hn => hna (release_keep v A a ha hn)
  | cons e p ih =>
    intro v x h ht hu
    obtain ⟨ch, hch, hcase⟩ := getpS_step e p v x h
    have hrg := replG_of h
    rcases hcase with rfl | ⟨hns, id, o, c, pre, k, post, rfl⟩ | ⟨s, e', id, c, c', pre, mid, post, rfl, rfl, rfl⟩
    · -- the path leaves the value: nothing is released
      have hx := getpS_null p x hch
      subst hx
      have hr : relFinal A (e :: p) T.null = A := by
        unfold relFinal; split <;> simp_all [T.null, release]
      have hg : replG (e :: p) v = [] := by rw [hrg]; split <;> simp [T.null, kidIds, kidsOf, idsK, T.ids]
      rw [hr]
      refine ⟨ht, fun a h => h, fun a h _ => h, ?_, ?_, ?_, fun h => by cases h⟩
      · rw [hg]; simp
      · intro a ha hna; exact absurd ha hna
      · intro _ a; rw [hg]; simp
    · -- into a child
      have hends := endsWithSlice_nonslice e p hns
      have hr : relFinal A (e :: p) x = relFinal A p x := by unfold relFinal; rw [hends]
      have hg : replG (e :: p) (T.node id o c (pre ++ (k, ch) :: post)) = replG p ch := by
        rw [hrg, replG_of hch, hends]
      have hroot : ∀ a, (T.node id o c (pre ++ (k, ch) :: post)).ids.count a =
          (if id == a then 1 else 0) + ((idsK pre).count a + ch.ids.count a + (idsK post).count a) := by
        intro a; rw [ids_node_plug]; simp only [List.count_cons, List.count_append]; omega
      have huch : Uniq A ch := fun a ha => by have := hu a ha; have := hroot a; omega
      have htK := tc_kid ht
      have R := ih ch x hch (htK (k, ch) (by simp)) huch
      rw [hr]
      have hcnt := R.cnt
      refine ⟨?_, R.sub, ?_, by rw [hg]; exact R.gone, by rw [hg]; exact R.back, ?_, fun h => by cases h⟩
      · by_cases hin : id ∈ A
        · have hidch : id ∉ ch.ids := by
            have h1 := hu id hin
            have h2 := hroot id
            simp only [beq_self_eq_true, if_true] at h2
            exact List.count_eq_zero.mp (by omega)
          have hkeep : id ∈ relFinal A p x := R.keep id hin hidch
          have sib : ∀ y : Bytes × T, (∀ a, y.2.ids.count a ≤ (idsK pre).count a + (idsK post).count a) →
              tc A y.2 → tc (relFinal A p x) y.2 := by
            intro y hy hty
            refine tc_congr A _ y.2 ?_ hty
            intro j hj
            refine ⟨fun hA => R.keep j hA ?_, R.sub j⟩
            have h1 := hu j hA
            have h2 := hroot j
            have h3 := hy j
            have h4 := count_pos_of_mem hj
            exact List.count_eq_zero.mp (by omega)
          simp only [tc]
          refine ⟨fun _ => ?_, fun hnin => absurd hkeep hnin⟩
          rw [tcK_iff]
          intro y hy
          simp only [List.mem_append, List.mem_cons] at hy
          rcases hy with hy | rfl | hy
          · exact sib y (fun a => by have := cntmem pre y hy a; omega) (htK y (by simp [hy]))
          · exact R.tcv
          · exact sib y (fun a => by have := cntmem post y hy a; omega) (htK y (by simp [hy]))
        · simp only [tc] at ht ⊢
          exact ⟨fun h => absurd (R.sub id h) hin, fun _ a ha hm => ht.2 hin a ha (R.sub a hm)⟩
      · intro a ha hnv
        apply R.keep a ha
        intro hm
        exact hnv (by rw [ids_node_plug]; simp [hm])
      · intro _ a
        rw [hg]
        have := hcnt a
        simp only [kidIds, kidsOf, idsK_append, idsK, List.count_append]
        omega
    · -- onto a second header of the same cell
      have hroot : ∀ a, (T.node id false c (pre ++ mid ++ post)).ids.count a =
          (if id == a then 1 else 0) + ((idsK pre).count a + (idsK mid).count a + (idsK post).count a) := by
        intro a; simp only [T.ids, idsK_append, List.count_cons, List.count_append]; omega
      have htK := tc_kid ht
      have sibAll : ∀ (A' : List Nat), (∀ a ∈ A', a ∈ A) → (∀ a ∈ A, a ∉ idsK mid → a ∈ A') →
          ∀ y ∈ pre ++ post, tc A' y.2 := by
        intro A' hsub hkeep y hy
        refine tc_congr A _ y.2 ?_ (htK y (by
          simp only [List.mem_append] at hy ⊢
          rcases hy with h | h
          · exact Or.inl (Or.inl h)
          · exact Or.inr h))
        intro j hj
        refine ⟨fun hA => hkeep j hA ?_, hsub j⟩
        have h1 := hu j hA
        have h2 := hroot j
        have h3 : y.2.ids.count j ≤ (idsK pre).count j + (idsK post).count j := by
          rcases List.mem_append.mp hy with h | h
          · have := cntmem pre y h j; omega
          · have := cntmem post y h j; omega
        have h4 := count_pos_of_mem hj
        exact List.count_eq_zero.mp (by omega)
      by_cases hp : p = []
      · subst hp
        simp only [getpS, Option.some.injEq] at hch
        subst hch
        have hr : relFinal A [.slice s e'] (T.node id false c' mid) = releaseK A mid := by
          simp [relFinal, endsWithSlice]
        have hg : replG [.slice s e'] (T.node id false c (pre ++ mid ++ post)) = idsK mid := by
          rw [hrg]; simp [endsWithSlice, kidIds, kidsOf]
        rw [hr]
        have humid : ∀ a ∈ A, (idsK mid).count a ≤ 1 := fun a ha => by have := hu a ha; have := hroot a; omega
        have htmid : tcK A mid := by
          rw [tcK_iff]; intro y hy; exact htK y (by simp [hy])
        have hest := releaseK_est mid A htmid humid
        refine ⟨?_, releaseK_sub mid A, ?_, by rw [hg]; exact hest, ?_, ?_, fun h => by cases h⟩
        · by_cases hin : id ∈ A
          · have hidmid : id ∉ idsK mid := by
              have h1 := hu id hin
              have h2 := hroot id
              simp only [beq_self_eq_true, if_true] at h2
              exact List.count_eq_zero.mp (by omega)
            have hkeep : id ∈ releaseK A mid := releaseK_keep mid A id hin hidmid
            simp only [tc]
            refine ⟨fun _ => ?_, fun hnin => absurd hkeep hnin⟩
            rw [tcK_iff]
            intro y hy
            simp only [List.mem_append] at hy
            have sib := sibAll (releaseK A mid) (releaseK_sub mid A) (fun a h1 h2 => releaseK_keep mid A a h1 h2)
            rcases hy with (hy | hy) | hy
            · exact sib y (by simp [hy])
            · exact (tcK_iff _ _).mp (tcK_of_disjoint _ mid hest) y hy
            · exact sib y (by simp [hy])
          · simp only [tc] at ht ⊢
            exact ⟨fun h => absurd (releaseK_sub mid A id h) hin,
              fun _ a ha hm => ht.2 hin a ha (releaseK_sub mid A a hm)⟩
        · intro a ha hnv
          apply releaseK_keep mid A a ha
          intro hm
          exact hnv (by simp [T.ids, idsK_append, hm])
        · intro a ha hna
          rw [hg]
          exact Classical.byContradiction fun hn => hna (releaseK_keep mid A a ha hn)
        · intro _ a
          rw [hg]
          simp only [kidIds, kidsOf, idsK_append, List.count_append]
          omega
      · have hends := endsWithSlice_cons (.slice s e') p hp
        have hr : relFinal A (.slice s e' :: p) x = relFinal A p x := by unfold relFinal; rw [hends]
        have hg : replG (.slice s e' :: p) (T.node id false c (pre ++ mid ++ post)) =
            replG p (T.node id false c' mid) := by
          rw [hrg, replG_of hch, hends]
        have hch_tc : tc A (T.node id false c' mid) := by
          simp only [tc] at ht ⊢
          refine ⟨fun hin => ?_, fun hnin a ha => ht.2 hnin a (by simp [idsK_append, ha])⟩
          rw [tcK_iff]; intro y hy; exact htK y (by simp [hy])
        have hch_u : Uniq A (T.node id false c' mid) := by
          intro a ha
          have := hu a ha
          have := hroot a
          simp only [T.ids, List.count_cons]
          omega
        have R := ih _ x hch hch_tc hch_u
        rw [hr]
        have hk := R.cntk hp
        simp only [kidIds, kidsOf] at hk
        -- the cell itself is not released: it does not occur among its own elements
        have hidkeep : id ∈ A → id ∈ relFinal A p x := by
          intro hin
          apply Classical.byContradiction
          intro hn
          have h0 := R.back id hin hn
          have h1 := hu id hin
          have h2 := hroot id
          simp only [beq_self_eq_true, if_true] at h2
          have h3 := hk id
          have h4 := count_pos_of_mem h0
          omega
        refine ⟨?_, R.sub, ?_, by rw [hg]; exact R.gone, by rw [hg]; exact R.back, ?_, fun h => by cases h⟩
        · by_cases hin : id ∈ A
          · have hkeep := hidkeep hin
            have R1 := R.tcv
            simp only [tc] at R1 ⊢
            refine ⟨fun _ => ?_, fun hnin => absurd hkeep hnin⟩
            rw [tcK_iff]
            intro y hy
            simp only [List.mem_append] at hy
            have sib := sibAll (relFinal A p x) R.sub (fun a h1 h2 => by
              by_cases hai : a = id
              · rw [hai]; exact hkeep
              · exact R.keep a h1 (by simp only [T.ids, List.mem_cons, not_or]; exact ⟨hai, h2⟩))
            rcases hy with (hy | hy) | hy
            · exact sib y (by simp [hy])
            · exact (tcK_iff _ _).mp (R1.1 hkeep) y hy
            · exact sib y (by simp [hy])
          · simp only [tc] at ht ⊢
            exact ⟨fun h => absurd (R.sub id h) hin, fun _ a ha hm => ht.2 hin a ha (R.sub a hm)⟩
        · intro a ha hnv
          apply R.keep a ha
          intro hm
          apply hnv
          simp only [T.ids, List.mem_cons, idsK_append, List.mem_append] at hm ⊢
          rcases hm with h | h
          · exact Or.inl h
          · exact Or.inr (Or.inl (Or.inr h))
        · intro _ a
          rw [hg]
          have := hk a
          simp only [kidIds, kidsOf, idsK_append, List.count_append]
          omega

/-! ### one iteration of `_modify`, paths with slices -/

theorem getpS_endsWithSlice : ∀ (p : PathS) (v x : T), endsWithSlice p = true → getpS p v = some x →
    x = T.null ∨ ∃ l c xs, x = .node l false c xs := by
  intro p
  induction p with
  | nil => intro v x h; simp [endsWithSlice] at h
  | cons e p ih =>
    intro v x hends h
    obtain ⟨ch, hch, hcase⟩ := getpS_step e p v x h
    by_cases hp : p = []
    · subst hp
      simp only [getpS, Option.some.injEq] at hch
      subst hch
      rcases hcase with h1 | ⟨hns, _⟩ | ⟨s, e', id, c, c', pre, mid, post, _, _, h1⟩
      · exact Or.inl h1
      · cases e with
        | key k => simp [endsWithSlice] at hends
        | idx i => simp [endsWithSlice] at hends
        | slice s e' => exact absurd rfl (hns s e')
      · exact Or.inr ⟨_, _, _, h1⟩
    · rw [endsWithSlice_cons e p hp] at hends
      exact ih ch x hends hch

theorem getpReleaseS_of (A : List Nat) (f : Nat) (p : PathS) (v x : T) (hx : getpS p v = some x) :
    getpReleaseS A f p v =
      if endsWithSlice p = true then
        (match x with
          | .node _ false _ xs => some (.node f false xs.length xs, releaseK A xs, f + 1)
          | _ => some (x, release A x, f))
      else some (x, release A x, f) := by
  unfold getpReleaseS
  simp only [hx]
  cases hends : endsWithSlice p with
  | false => simp
  | true =>
    cases x with
    | leaf s => simp
    | hole => simp
    | node l o c xs => cases o <;> simp

/-- what `getpReleaseS` returns: the value found (or the clone of a final slice), the released
    allocator, the counter -/
theorem getpReleaseS_eq (A : List Nat) (f : Nat) (p : PathS) (v x' : T) (A1 : List Nat) (f1 : Nat)
    (h : getpReleaseS A f p v = some (x', A1, f1)) :
    ∃ x, getpS p v = some x ∧ A1 = relFinal A p x ∧ abs x' = abs x ∧ f ≤ f1 ∧
      (∀ a ∈ x'.ids, (a = f ∧ f1 = f + 1) ∨ a ∈ replG p v) := by
  cases hx : getpS p v with
  | none => simp [getpReleaseS, hx] at h
  | some x =>
    refine ⟨x, rfl, ?_⟩
    rw [getpReleaseS_of A f p v x hx] at h
    have hrg := replG_of hx
    have plain : some (x, release A x, f) = some (x', A1, f1) → (endsWithSlice p = true → x = T.null) →
        A1 = relFinal A p x ∧ abs x' = abs x ∧ f ≤ f1 ∧ (∀ a ∈ x'.ids, (a = f ∧ f1 = f + 1) ∨ a ∈ replG p v) := by
      intro h hshape
      simp only [Option.some.injEq, Prod.mk.injEq] at h
      obtain ⟨h1, h2, h3⟩ := h
      refine ⟨?_, by rw [← h1], by omega, ?_⟩
      · rw [← h2]
        cases hends : endsWithSlice p with
        | false => simp [relFinal, hends]
        | true => rw [hshape hends]; simp [relFinal, hends, T.null]
      · intro a ha
        right
        rw [hrg]
        rw [← h1] at ha
        by_cases hends : endsWithSlice p = true
        · rw [hshape hends] at ha; simp [T.null, T.ids] at ha
        · simp only [hends, Bool.false_eq_true, if_false]; exact ha
    by_cases hends : endsWithSlice p = true
    · simp only [hends, if_true] at h
      rcases getpS_endsWithSlice p v x hends hx with h0 | ⟨l, c, xs, h0⟩
      · subst h0
        exact plain h (fun _ => rfl)
      · subst h0
        simp only [Option.some.injEq, Prod.mk.injEq] at h
        obtain ⟨h1, h2, h3⟩ := h
        refine ⟨by rw [← h2]; simp [relFinal, hends], by rw [← h1]; simp [abs], by omega, ?_⟩
        intro a ha
        rw [← h1] at ha
        simp only [T.ids, List.mem_cons] at ha
        rcases ha with rfl | ha
        · exact Or.inl ⟨rfl, h3.symm⟩
        · right; rw [hrg, hends]; simpa [kidIds, kidsOf] using ha
    · simp only [hends, Bool.false_eq_true, if_false] at h
      exact plain h (fun h' => absurd h' hends)

theorem modifyStepS_sound (q : T → Nat → T × Nat) (hq : QOK q) (v : T) (A : List Nat) (f : Nat) (p : PathS)
    (v' : T) (A' : List Nat) (f' : Nat) (log : Log)
    (h : modifyStepS q (v, A, f) p = some (v', A', f', log)) (inv : Inv A f v) :
    Inv A' f' v' ∧ (∀ e ∈ log, cons e.1 e.2 v') ∧ (∀ e ∈ log, e.1 ∈ A) ∧
    (∃ x' A1 f1, getpReleaseS A f p v = some (x', A1, f1) ∧ getpathS p (abs v) = some (abs x') ∧
      setpathS p (abs v) (abs (q x' f1).1) = some (abs v')) ∧
    f ≤ f' ∧ (∀ a ∈ A', a ∈ A ∨ (f ≤ a ∧ a < f')) ∧
    ((∀ a ∈ A, a ∈ v.ids) → ∀ a ∈ A', a ∈ v'.ids) := by
  simp only [modifyStepS] at h
  cases hg : getpReleaseS A f p v with
  | none => simp [hg] at h
  | some g =>
    obtain ⟨x', A1, f1⟩ := g
    simp only [hg] at h
    obtain ⟨x, hx, hA1, habs, hff1, hxids⟩ := getpReleaseS_eq A f p v x' A1 f1 hg
    have R := relS_ok A p v x hx inv.top inv.uniq
    rw [← hA1] at R
    obtain ⟨hqf, hqids⟩ := hq x' f1
    have hrepl : ∀ a ∈ replG p v, a ∈ v.ids := fun a ha =>
      List.count_pos_iff.mp (by have := R.cnt a; have := count_pos_of_mem ha; omega)
    have hx'lt : ∀ j ∈ x'.ids, j < f1 := by
      intro j hj
      rcases hxids j hj with ⟨rfl, h2⟩ | h2
      · omega
      · have := inv.hv j (hrepl j h2); omega
    have H : Hyp A1 (q x' f1).2 v (q x' f1).1 := by
      refine ⟨fun a ha => inv.uniq a (R.sub a ha), ?_, ?_, ?_, ?_, ?_⟩
      · intro y hy
        cases v with
        | leaf s => simp [kidsOf] at hy
        | hole => simp [kidsOf] at hy
        | node id o c ks => exact tc_kid R.tcv y hy
      · intro a ha hn
        have haf := inv.hA a (R.sub a ha)
        rcases hqids a hn with h1 | h1
        · rcases hxids a h1 with ⟨rfl, _⟩ | h2
          · omega
          · exact R.gone a h2 ha
        · omega
      · intro j hj; have := inv.hv j hj; omega
      · intro j hj
        rcases hqids j hj with h1 | h1
        · have := hx'lt j h1; omega
        · exact h1.2
      · intro a ha; have := inv.hA a (R.sub a ha); omega
    have U := updS_res p v _ A1 _ _ h H
    refine ⟨⟨U.uniq H, U.tcr, U.hub, U.hAf H⟩, U.cons, fun e he => R.sub _ (U.logA e he).1,
      ⟨x', A1, f1, rfl, ?_, ?_⟩, ?_, ?_, ?_⟩
    · rw [getpS_abs p v x hx, habs]
    · exact updS_abs p v _ A1 _ _ h
    · have := U.hf; show f ≤ f'; simp only [] at this; omega
    · intro a ha
      rcases U.hA1 a ha with h1 | h1
      · exact Or.inl (R.sub a h1)
      · exact Or.inr ⟨by omega, h1.2⟩
    · intro hlive a ha
      apply Classical.byContradiction
      intro hnot
      obtain ⟨g1, g2⟩ := U.live a ha hnot
      rcases g2 with g2 | g2
      · exact g2 (hlive a (R.sub a g1))
      · exact R.gone a g2 g1

/-- The reduction of `_modify` over a list of paths with slices, under the invariant: it computes the
    defining reduction on values, re-establishes the invariant, every cell it writes in place was
    registered by this reduction or at its start, and the registered cells stay live. -/
theorem modifyAllS_sound (q : T → Nat → T × Nat) (qv : JV → JV) (hq : QOK q)
    (habs : ∀ x f, abs (q x f).1 = qv (abs x)) :
    ∀ (ps : List PathS) (v : T) (A : List Nat) (f : Nat) (r : T × List Nat × Nat),
      Inv A f v → modifyAllS q ps (v, A, f) = some r →
      modifyVS qv ps (abs v) = some (abs r.1) ∧ Inv r.2.1 r.2.2 r.1 ∧ f ≤ r.2.2 ∧
      (∀ a ∈ r.2.1, a ∈ A ∨ (f ≤ a ∧ a < r.2.2)) ∧
      ((∀ a ∈ A, a ∈ v.ids) → ∀ a ∈ r.2.1, a ∈ r.1.ids) := by
  intro ps
  induction ps with
  | nil =>
    intro v A f r inv h
    simp only [modifyAllS, Option.some.injEq] at h
    subst h
    exact ⟨rfl, inv, Nat.le_refl _, fun a ha => Or.inl ha, fun hl => hl⟩
  | cons p ps ih =>
    intro v A f r inv h
    simp only [modifyAllS] at h
    split at h
    · cases h
    · rename_i v' A' f' log hs
      obtain ⟨inv', hcons, _, ⟨x', A1, f1, _, hget, hset⟩, hf, hrange, hlive⟩ :=
        modifyStepS_sound q hq v A f p v' A' f' log hs inv
      rw [applyLog_id log v' hcons] at h
      obtain ⟨g1, g2, g3, g4, g5⟩ := ih v' A' f' r inv' h
      refine ⟨?_, g2, by omega, ?_, fun hl => g5 (hlive hl)⟩
      · simp only [modifyVS, hget, ← habs x' f1, hset]
        exact g1
      · intro a ha
        rcases g4 a ha with h1 | h1
        · rcases hrange a h1 with h2 | h2
          · exact Or.inl h2
          · exact Or.inr ⟨h2.1, by omega⟩
        · exact Or.inr ⟨by omega, h1.2⟩

/-- the label part of `modifyAllS_sound`, for an arbitrary update query -/
theorem modifyAllS_inv (q : T → Nat → T × Nat) (hq : QOK q) :
    ∀ (ps : List PathS) (v : T) (A : List Nat) (f : Nat) (r : T × List Nat × Nat),
      Inv A f v → modifyAllS q ps (v, A, f) = some r →
      Inv r.2.1 r.2.2 r.1 ∧ f ≤ r.2.2 ∧ (∀ a ∈ r.2.1, a ∈ A ∨ (f ≤ a ∧ a < r.2.2)) ∧
      ((∀ a ∈ A, a ∈ v.ids) → ∀ a ∈ r.2.1, a ∈ r.1.ids) := by
  intro ps
  induction ps with
  | nil =>
    intro v A f r inv h
    simp only [modifyAllS, Option.some.injEq] at h
    subst h
    exact ⟨inv, Nat.le_refl _, fun a ha => Or.inl ha, fun hl => hl⟩
  | cons p ps ih =>
    intro v A f r inv h
    simp only [modifyAllS] at h
    split at h
    · cases h
    · rename_i v' A' f' log hs
      obtain ⟨inv', hcons, _, _, hf, hrange, hlive⟩ := modifyStepS_sound q hq v A f p v' A' f' log hs inv
      rw [applyLog_id log v' hcons] at h
      obtain ⟨g2, g3, g4, g5⟩ := ih v' A' f' r inv' h
      refine ⟨g2, by omega, ?_, fun hl => g5 (hlive hl)⟩
      intro a ha
      rcases g4 a ha with h1 | h1
      · rcases hrange a h1 with h2 | h2
        · exact Or.inl h2
        · exact Or.inr ⟨h2.1, by omega⟩
      · exact Or.inr ⟨by omega, h1.2⟩

/-! ### `_assign`: one value stored through every path, nothing released -/

/-- The reduction of `_assign` over a list of paths with slices.  `f0` is the counter the reduction
    started with: the assigned value and everything else that existed then lies below it, everything
    registered was allocated since. -/
theorem assignAllS_sound (n : T) (f0 : Nat) (hn : ∀ j ∈ n.ids, j < f0) :
    ∀ (ps : List PathS) (v : T) (A : List Nat) (f : Nat) (r : T × List Nat × Nat),
      Inv A f v → f0 ≤ f → (∀ a ∈ A, f0 ≤ a) → assignAllS n ps (v, A, f) = some r →
      assignVS (abs n) ps (abs v) = some (abs r.1) ∧ Inv r.2.1 r.2.2 r.1 ∧ (∀ a ∈ r.2.1, f0 ≤ a) := by
  intro ps
  induction ps with
  | nil =>
    intro v A f r inv _ hA h
    simp only [assignAllS, Option.some.injEq] at h
    subst h
    exact ⟨rfl, inv, hA⟩
  | cons p ps ih =>
    intro v A f r inv hf hA h
    simp only [assignAllS] at h
    split at h
    · cases h
    · rename_i v' A' f' log hs
      have H : Hyp A f v n := by
        refine ⟨inv.uniq, ?_, ?_, inv.hv, fun j hj => by have := hn j hj; omega, inv.hA⟩
        · intro y hy
          cases v with
          | leaf s => simp [kidsOf] at hy
          | hole => simp [kidsOf] at hy
          | node id o c ks => exact tc_kid inv.top y hy
        · intro a ha hm
          have := hA a ha
          have := hn a hm
          omega
      have U := updS_res p v n A f _ hs H
      have inv' : Inv A' f' v' := ⟨U.uniq H, U.tcr, U.hub, U.hAf H⟩
      rw [applyLog_id log v' U.cons] at h
      have hA' : ∀ a ∈ A', f0 ≤ a := by
        intro a ha
        rcases U.hA1 a ha with h1 | h1
        · exact hA a h1
        · have := h1.1; omega
      obtain ⟨g1, g2, g3⟩ := ih v' A' f' r inv' (by have := U.hf; show f0 ≤ f'; simp only [] at this; omega) hA' h
      refine ⟨?_, g2, g3⟩
      simp only [assignVS, updS_abs p v n A f _ hs]
      exact g1

/-- every in-place write of an `_assign` reduction goes to a cell allocated since the reduction started
    (no hypothesis on labels beyond the start condition) -/
theorem assignAllS_writes (n : T) (f0 : Nat) :
    ∀ (ps : List PathS) (v : T) (A : List Nat) (f : Nat), f0 ≤ f → (∀ a ∈ A, f0 ≤ a) →
      ∀ (pre : List PathS) (p : PathS), ps = pre ++ [p] →
      ∀ r1, assignAllS n pre (v, A, f) = some r1 →
      ∀ r, updS r1.2.1 r1.2.2 p r1.1 n = some r → ∀ e ∈ r.2.2.2, f0 ≤ e.1 := by
  intro ps v A f hf hA pre
  induction pre generalizing v A f ps with
  | nil =>
    intro p _ r1 h1 r h e he
    simp only [assignAllS, Option.some.injEq] at h1
    subst h1
    rcases (updS_confined p v n A f r h).2.2 e he with h2 | h2
    · exact hA _ h2
    · have := h2.1; omega
  | cons q pre ih =>
    intro p _ r1 h1 r h e he
    simp only [assignAllS] at h1
    split at h1
    · cases h1
    · rename_i v' A' f' log hs
      obtain ⟨g1, g2, _⟩ := updS_confined q v n A f _ hs
      simp only [] at g1 g2
      refine ih (pre ++ [p]) (applyLog log v') A' f' (by omega) ?_ p rfl r1 h1 r h e he
      intro a ha
      rcases g2 a ha with h2 | h2
      · exact hA a h2
      · omega

end Gojq.Heap

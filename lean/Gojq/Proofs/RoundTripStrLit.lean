/-
  String literals: a valid UTF-8 string is a value the lexer can have decoded — printing it with
  `jsonEncodeString` and decoding the text with the lexer's `unquote` gives it back
  (`okLit_of_valid`).
-/
import Gojq.Proofs.RoundTripLexStr
import Gojq.Proofs.EncodeStr
import Gojq.Proofs.Codec
namespace Gojq.RefTerm
open Gojq Gojq.Lexer Gojq.Printer Gojq.Utf8

/-- valid UTF-8, as a derivation -/
inductive ValidU : Bytes → Prop where
  | nil : ValidU []
  | step (c : UInt8) (r : Bytes) (rr w : Nat) : decodeRune (c :: r) = (rr, w, true) →
      ValidU ((c :: r).drop (max w 1)) → ValidU (c :: r)

theorem validU_of_validAux : ∀ (n : Nat) (s : Bytes), validAux n s = true → ValidU s := by
  intro n
  induction n with
  | zero => intro s h; simp [validAux] at h; subst h; exact .nil
  | succ n ih =>
    intro s h
    cases s with
    | nil => exact .nil
    | cons c r =>
      simp only [validAux] at h
      generalize hd : decodeRune (c :: r) = d at h
      obtain ⟨rr, w, ok⟩ := d
      simp only [Bool.and_eq_true] at h
      obtain ⟨hok, hv⟩ := h
      subst hok
      exact .step c r rr w hd (ih _ hv)

theorem validU_of_valid (s : Bytes) (h : Utf8.valid s = true) : ValidU s := validU_of_validAux _ s h

/-- printable ASCII that `encodeBody` copies -/
def plainB (c : UInt8) : Bool := decide (32 ≤ c) && decide (c ≤ 126) && c != 34 && c != 92

theorem hexVal_hexLower : ∀ n, n < 16 → hexVal (hexLower n) = n := by decide

theorem unquote_plain (fu : Nat) (c : UInt8) (X : Bytes) (h1 : c.toNat < 128) (h2 : c ≠ 92) :
    unquote (fu + 1) (c :: X) = c :: unquote fu X := by
  have h3 : c < 128 := h1
  simp [unquote, h2, h3]

theorem unquote_esc (fu : Nat) (c : UInt8) (X : Bytes) (h1 : c.toNat < 128) :
    unquote (fu + 1) (escOf c ++ X) = c :: unquote fu X := by
  have hlo : c.toNat / 16 < 16 := by omega
  have hhi : c.toNat % 16 < 16 := by omega
  unfold escOf
  split
  · next h => simp at h; subst h; simp [unquote]
  · split
    · next h => simp at h; subst h; simp [unquote]
    · split
      · next h => simp at h; subst h; simp [unquote]
      · split
        · next h => simp at h; subst h; simp [unquote]
        · split
          · next h => simp at h; subst h; simp [unquote]
          · split
            · next h => simp at h; subst h; simp [unquote]
            · split
              · next h => simp at h; subst h; simp [unquote]
              · have hu : u4 48 48 (hexLower (c.toNat / 16)) (hexLower (c.toNat % 16)) = c.toNat := by
                  simp only [u4, hexVal_hexLower _ hlo, hexVal_hexLower _ hhi]
                  have : hexVal 48 = 0 := by decide
                  rw [this]; omega
                simp only [List.cons_append, List.nil_append, unquote]
                simp only [beq_self_eq_true, if_true, hu]
                have hns : ¬ (0xD800 ≤ c.toNat ∧ c.toNat < 0xE000) := by omega
                simp [hns, Gojq.Encode.encodeRune_ascii h1]

/-- a well-formed multi-byte sequence is copied by the printer and decoded back by the lexer -/
theorem multi_step (pre t : Bytes) (rr : Nat) (b0 : UInt8) (tl : Bytes) (hpre : pre = b0 :: tl) (hb : 128 ≤ b0.toNat)
    (hdec : ∀ X, decodeRune (pre ++ X) = (rr, pre.length, true)) (fe fu : Nat) :
    encodeBody (fe + 1) (pre ++ t) = pre ++ encodeBody fe t ∧
    ∀ X, unquote (fu + 1) (pre ++ X) = pre ++ unquote fu X := by
  have hlen : 1 ≤ pre.length := by rw [hpre]; simp
  have henc : encodeRune rr = pre := by
    have := (Gojq.Codec.decode_valid (pre ++ []) rr pre.length (hdec [])).2.2.1
    simpa using this
  have hnlt : ¬ b0 < 128 := by
    intro h; have : b0.toNat < 128 := h; omega
  constructor
  · have e : pre ++ t = b0 :: (tl ++ t) := by rw [hpre]; rfl
    rw [e, encodeBody]
    simp only [hnlt, if_false]
    rw [← e, hdec t]
    simp
  · intro X
    have e : pre ++ X = b0 :: (tl ++ X) := by rw [hpre]; rfl
    have h92 : b0 ≠ 92 := by intro h; subst h; simp at hb
    rw [e, unquote.eq_def]
    simp only [beq_iff_eq, h92, if_false, hnlt]
    rw [← e, hdec X]
    simp only [henc]
    congr 1
    rw [Nat.max_eq_left hlen]
    simp

theorem unquote_encodeBody (v : Bytes) (hv : ValidU v) : ∀ (fe : Nat), v.length < fe → ∀ (fu : Nat),
    (encodeBody fe v).length < fu → unquote fu (encodeBody fe v) = v := by
  induction hv with
  | nil =>
    intro fe _ fu _
    cases fe <;> cases fu <;> simp [encodeBody, unquote]
  | step c r rr w hdec _ ih =>
    intro fe hfe fu hfu
    obtain ⟨fe', rfl⟩ : ∃ k, fe = k + 1 := ⟨fe - 1, by omega⟩
    by_cases hc : c.toNat < 128
    · -- ASCII
      have hd := Gojq.Encode.decodeRune_ascii hc r
      rw [hd] at hdec
      simp only [Prod.mk.injEq] at hdec
      obtain ⟨_, rfl, _⟩ := hdec
      have hlt : c < 128 := hc
      simp only [Nat.max_self, List.drop_succ_cons, List.drop_zero] at ih
      simp only [List.length_cons] at hfe
      by_cases hp : plainB c = true
      · have e : encodeBody (fe' + 1) (c :: r) = c :: encodeBody fe' r := by
          rw [encodeBody]; simp only [hlt, if_true]; unfold plainB at hp; simp only [hp, if_true]
        rw [e] at hfu ⊢
        simp only [List.length_cons] at hfu
        obtain ⟨fu', rfl⟩ : ∃ k, fu = k + 1 := ⟨fu - 1, by omega⟩
        have h92 : c ≠ 92 := by
          intro h; subst h; simp [plainB] at hp
        rw [unquote_plain fu' c _ hc h92, ih fe' (by omega) fu' (by omega)]
      · have e : encodeBody (fe' + 1) (c :: r) = escOf c ++ encodeBody fe' r := by
          rw [encodeBody]; simp only [hlt, if_true]; unfold plainB at hp; simp only [hp]; rfl
        rw [e] at hfu ⊢
        have hel : 1 ≤ (escOf c).length := List.length_pos_iff.mpr (escOf_ne_nil c)
        simp only [List.length_append] at hfu
        obtain ⟨fu', rfl⟩ : ∃ k, fu = k + 1 := ⟨fu - 1, by omega⟩
        rw [unquote_esc fu' c _ hc, ih fe' (by omega) fu' (by omega)]
    · -- a multi-byte sequence
      have hb : 128 ≤ c.toNat := by omega
      rcases Gojq.Encode.decodeRune_cases c r hb with hbad | ⟨b1, t, rfl, hs⟩ | ⟨b1, b2, t, rfl, hs⟩ |
          ⟨b1, b2, b3, t, rfl, hs⟩
      · rw [hbad] at hdec; simp at hdec
      · have hw : w = 2 := by
          have := Gojq.Encode.decodeRune_seq2 hs t; rw [this] at hdec; simp at hdec; exact hdec.2.symm
        subst hw
        obtain ⟨e1, e2⟩ := multi_step [c, b1] t _ c [b1] rfl hb (fun X => Gojq.Encode.decodeRune_seq2 hs X) fe' (fu - 1)
        simp only [List.cons_append, List.nil_append] at e1 e2
        have ih' := ih
        simp only [show max 2 1 = 2 by decide, List.drop_succ_cons, List.drop_zero] at ih'
        rw [e1] at hfu ⊢
        simp only [List.length_cons] at hfu hfe
        obtain ⟨fu', rfl⟩ : ∃ k, fu = k + 1 := ⟨fu - 1, by omega⟩
        simp only [Nat.add_sub_cancel] at e2
        rw [e2, ih' fe' (by omega) fu' (by omega)]
      · have hw : w = 3 := by
          have := Gojq.Encode.decodeRune_seq3 hs t; rw [this] at hdec; simp at hdec; exact hdec.2.symm
        subst hw
        obtain ⟨e1, e2⟩ := multi_step [c, b1, b2] t _ c [b1, b2] rfl hb
          (fun X => Gojq.Encode.decodeRune_seq3 hs X) fe' (fu - 1)
        simp only [List.cons_append, List.nil_append] at e1 e2
        have ih' := ih
        simp only [show max 3 1 = 3 by decide, List.drop_succ_cons, List.drop_zero] at ih'
        rw [e1] at hfu ⊢
        simp only [List.length_cons] at hfu hfe
        obtain ⟨fu', rfl⟩ : ∃ k, fu = k + 1 := ⟨fu - 1, by omega⟩
        simp only [Nat.add_sub_cancel] at e2
        rw [e2, ih' fe' (by omega) fu' (by omega)]
      · have hw : w = 4 := by
          have := Gojq.Encode.decodeRune_seq4 hs t; rw [this] at hdec; simp at hdec; exact hdec.2.symm
        subst hw
        obtain ⟨e1, e2⟩ := multi_step [c, b1, b2, b3] t _ c [b1, b2, b3] rfl hb
          (fun X => Gojq.Encode.decodeRune_seq4 hs X) fe' (fu - 1)
        simp only [List.cons_append, List.nil_append] at e1 e2
        have ih' := ih
        simp only [show max 4 1 = 4 by decide, List.drop_succ_cons, List.drop_zero] at ih'
        rw [e1] at hfu ⊢
        simp only [List.length_cons] at hfu hfe
        obtain ⟨fu', rfl⟩ : ∃ k, fu = k + 1 := ⟨fu - 1, by omega⟩
        simp only [Nat.add_sub_cancel] at e2
        rw [e2, ih' fe' (by omega) fu' (by omega)]

/-- A VALID UTF-8 STRING IS A PRINTABLE STRING VALUE: `jsonEncodeString` followed by the lexer's
    decoding is the identity on it -/
theorem okLit_of_valid (v : Bytes) (h : Utf8.valid v = true) : okLit v = true := by
  simp only [okLit, beq_iff_eq, unquoteStr]
  exact unquote_encodeBody v (validU_of_valid v h) (v.length + 1) (by omega) _ (by omega)

end Gojq.RefTerm

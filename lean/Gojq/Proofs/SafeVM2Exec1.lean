/-
  C08 (bytecode checker, layer 2): every opcode keeps the layer-2 invariant — part 1: infrastructure
  and the opcodes that only touch the data stack.
-/
import Gojq.Proofs.SafeVM2Lemmas
set_option linter.unusedSimpArgs false
set_option linter.unusedVariables false
namespace Gojq.SafeVM
open Gojq Gojq.VM

theorem WP2.pure {α : Type} {Q : α → Env → Prop} {a : α} {e : Env} (h : Q a e) : WP2 (pure a : M α) Q e := h

theorem WP2.bind {α β : Type} {m : M α} {f : α → M β} {Q : β → Env → Prop} {e : Env}
    (h : WP2 m (fun a e' => WP2 (f a) Q e') e) : WP2 (m >>= f) Q e := by
  show WP2 (M.bind m f) Q e
  unfold WP2 M.bind at *
  cases hm : m e with
  | ok a e' => simp only [hm] at h ⊢; exact h
  | panic s => simp only [hm] at h ⊢; exact h
  | stuck w => simp

theorem WP2.step {α β : Type} {m : M α} {f : α → M β} {Q : β → Env → Prop} {e e1 : Env} {a : α}
    (h : m e = .ok a e1) (h2 : WP2 (f a) Q e1) : WP2 (m >>= f) Q e := by
  apply WP2.bind
  unfold WP2
  rw [h]
  exact h2

theorem WP2.panic {α : Type} {Q : α → Env → Prop} {s : Site} {e : Env} (h : covered2 s = false) :
    WP2 (VM.panic s : M α) Q e := h

theorem WP2.stuck {α : Type} {Q : α → Env → Prop} {w : String} {e : Env} : WP2 (VM.stuck w : M α) Q e := trivial

theorem WP2.mono {α : Type} {m : M α} {Q Q' : α → Env → Prop} {e : Env} (h : WP2 m Q e)
    (hq : ∀ a e', Q a e' → Q' a e') : WP2 m Q' e := by
  unfold WP2 at *
  cases hm : m e with
  | ok a e' => simp only [hm] at h ⊢; exact hq _ _ h
  | panic s => simp only [hm] at h ⊢; exact h
  | stuck w => trivial

/-- scopes, forks, values and offset are unchanged -/
def Fr2 (e e' : Env) : Prop :=
  e'.scopes = e.scopes ∧ e'.forks = e.forks ∧ e'.values = e.values ∧ e'.offset = e.offset

theorem Fr2.refl (e : Env) : Fr2 e e := ⟨rfl, rfl, rfl, rfl⟩
theorem Fr.to2 {e e' : Env} (h : Fr e e') : Fr2 e e' := ⟨h.2.1, h.2.2.1, h.2.2.2.1, h.2.2.2.2⟩
theorem Fr2.trans {e e' e'' : Env} (h : Fr2 e e') (g : Fr2 e' e'') : Fr2 e e'' :=
  ⟨g.1.trans h.1, g.2.1.trans h.2.1, g.2.2.1.trans h.2.2.1, g.2.2.2.trans h.2.2.2⟩

theorem RegInv.fr {S : SC} {Ct : Cert} {e e' : Env} (R : RegInv S Ct e) (h : Fr2 e e') : RegInv S Ct e' := by
  obtain ⟨h2, h3, h4, h5⟩ := h
  exact ⟨by rw [h2, h4]; exact R.reg, by rw [h2, h5]; exact R.o1, by rw [h2]; exact R.o2, by rw [h2, h3]; exact R.o3⟩

/-- both layers, at an instruction that is only entered in normal mode -/
theorem both_normal {S : SC} {Ct : Cert} {l : L} {e : Env} (hI1 : Inv S l e) (hI2 : Inv2 S Ct l e) {i : Shape}
    (hc : codeAt S l.pc = some i) (hb : bOK i = false) :
    l.backtrack = false ∧ ∃ A, View e A ∧ GInv S e ∧ NMode S l e A ∧ RegInv S Ct e ∧
      ForksConf2 S Ct e.scopes.data e.values A.forks ∧ NMode2 S Ct l e A := by
  obtain ⟨hbt, A, hV, G, _, _, hN⟩ := hI1.elimN hc hb
  obtain ⟨B, hVB, R, hF2, hM⟩ := hI2
  have := hVB.unique hV
  subst this
  rw [if_neg (by rw [hbt]; simp)] at hM
  exact ⟨hbt, B, hV, G, hN, R, hF2, hM⟩

/-- both layers, at an instruction that may be entered in either mode -/
theorem both_cases {S : SC} {Ct : Cert} {l : L} {e : Env} (hI1 : Inv S l e) (hI2 : Inv2 S Ct l e) :
    ∃ A, View e A ∧ GInv S e ∧ RegInv S Ct e ∧ ForksConf2 S Ct e.scopes.data e.values A.forks ∧
      ((l.backtrack = true ∧ BMode S l e A ∧ BMode2 S Ct l e A) ∨
       (l.backtrack = false ∧ NMode S l e A ∧ NMode2 S Ct l e A)) := by
  obtain ⟨B, hVB, R, hF2, hM2⟩ := hI2
  rcases hI1.cases with ⟨hb, A, hV, G, _, _, hM⟩ | ⟨hb, A, hV, G, _, _, hN⟩
  · have := hVB.unique hV; subst this
    rw [if_pos hb] at hM2
    exact ⟨B, hV, G, R, hF2, .inl ⟨hb, hM, hM2⟩⟩
  · have := hVB.unique hV; subst this
    rw [if_neg (by rw [hb]; simp)] at hM2
    exact ⟨B, hV, G, R, hF2, .inr ⟨hb, hN, hM2⟩⟩

theorem NMode2.unpack {S : SC} {Ct : Cert} (C2 : Checked2 S Ct) {l : L} {e : Env} {A : AView} (hN : NMode2 S Ct l e A)
    {i : Shape} (hc : codeAt S l.pc = some i) :
    ∃ a2 succs idF nv na, ann2At Ct l.pc = some a2 ∧ scopeAt S.code a2.fn = some (idF, nv, na) ∧ a2.sl.length = nv ∧
      step2 S.code Ct l.pc.toNat a2 i = some succs ∧ (∀ s ∈ succs, SuccOK2 Ct s) ∧ ((l.pc.toNat : Nat) : Int) = l.pc ∧
      (isScope i = true → entryAbs2 S.code l.pc.toNat = some a2) ∧
      (if isScope i = true then
        ∃ idt nv na, scopeAt S.code l.pc.toNat = some (idt, nv, na) ∧ EntryConf2 S Ct l e A idt na
       else Cur S Ct e.scopes.data e.values a2 A.stk A.frames) := by
  obtain ⟨a2, i', ha, hc', hconf⟩ := hN
  rw [hc] at hc'
  simp only [Option.some.injEq] at hc'
  subst hc'
  obtain ⟨he, ⟨idF, nv, na, hsa, hlen⟩, succs, hst, hs, hpc⟩ := C2.step l.pc a2 i ha hc
  exact ⟨a2, succs, idF, nv, na, ha, hsa, hlen, hst, hs, hpc, he, hconf⟩

theorem idOf_eq {S : SC} {fn : Nat} {idF : Int} {r : Nat × Nat} (h : scopeAt S.code fn = some (idF, r)) :
    idOf S fn = some idF := by
  unfold idOf; rw [h]; rfl

/-- `Post2` for an instruction that falls through having changed only the data stack, the paths stack
    and counters -/
theorem Post2.fall_stack {S : SC} {Ct : Cert} {l : L} {e e' : Env} {A A' : AView} {a' : Abs2} (hfr : Fr2 e e')
    (hV' : View e' A') (hfrm : A'.frames = A.frames) (hfk : A'.forks = A.forks)
    (R : RegInv S Ct e) (hF2 : ForksConf2 S Ct e.scopes.data e.values A.forks)
    (hs2 : SuccOK2 Ct (l.pc + 1, a')) (hs1 : ∃ i, codeAt S (l.pc + 1) = some i ∧ isScope i = false)
    (hcur : Cur S Ct e.scopes.data e.values a' A'.stk A.frames) : Post2 S Ct (.fall, l) e' := by
  obtain ⟨i, hci, hns⟩ := hs1
  have hd : e'.scopes.data = e.scopes.data := by rw [hfr.1]
  have hv : e'.values = e.values := hfr.2.2.1
  refine ⟨A', hV', R.fr hfr, by rw [hd, hv, hfk]; exact hF2, ?_⟩
  refine NMode2.of_succ hs2 rfl hci hns ?_
  rw [hd, hv, hfrm]; exact hcur

theorem Post2.jump_stack {S : SC} {Ct : Cert} {l : L} {e e' : Env} {A A' : AView} {a' : Abs2} {t : Int} (hfr : Fr2 e e')
    (hV' : View e' A') (hfrm : A'.frames = A.frames) (hfk : A'.forks = A.forks)
    (R : RegInv S Ct e) (hF2 : ForksConf2 S Ct e.scopes.data e.values A.forks) (hpc : l.pc = t)
    (hs2 : SuccOK2 Ct (t, a')) (hs1 : ∃ i, codeAt S t = some i ∧ isScope i = false)
    (hcur : Cur S Ct e.scopes.data e.values a' A'.stk A.frames) : Post2 S Ct (.jump, l) e' := by
  obtain ⟨i, hci, hns⟩ := hs1
  have hd : e'.scopes.data = e.scopes.data := by rw [hfr.1]
  have hv : e'.values = e.values := hfr.2.2.1
  refine ⟨A', hV', R.fr hfr, by rw [hd, hv, hfk]; exact hF2, ?_⟩
  refine NMode2.of_succ hs2 hpc hci hns ?_
  rw [hd, hv, hfrm]; exact hcur

/-- a break: nothing is needed of the state unless it is the last fork's instruction re-entered -/
theorem Post2.brk_here {S : SC} {Ct : Cert} {l : L} {e e' : Env} {A A' : AView} (hfr : Fr2 e e')
    (hV' : View e' A') (hfk : A'.forks = A.forks)
    (R : RegInv S Ct e) (hF2 : ForksConf2 S Ct e.scopes.data e.values A.forks)
    (hre : A'.forks = [] → l.err ≠ none → BConf2 S Ct e.scopes.data e.values l.pc A'.frames) : Post2 S Ct (.brk, l) e' := by
  have hd : e'.scopes.data = e.scopes.data := by rw [hfr.1]
  have hv : e'.values = e.values := hfr.2.2.1
  exact ⟨A', hV', R.fr hfr, by rw [hd, hv, hfk]; exact hF2, by rw [hd, hv]; exact hre⟩

theorem BConf2.triv {S : SC} {Ct : Cert} {d vs} {pc : Int} {frames : List (Int × Scope)} {i : Shape}
    (hc : codeAt S pc = some i) (hi : trivB i = true) : BConf2 S Ct d vs pc frames := by
  unfold BConf2
  rw [hc]
  cases i <;> first | trivial | cases hi

/-- the change of the current activation's claims when only stack kinds change -/
theorem Cur.restack {S : SC} {Ct : Cert} {d vs} {a2 : Abs2} {stk stk' : List (Int × V)} {frames : List (Int × Scope)}
    {ks' : List Kind} (c : Cur S Ct d vs a2 stk frames)
    (h : ∀ j sc rest, frames = (j, sc) :: rest → StackCl S Ct d vs j a2.ks stk → StackCl S Ct d vs j ks' stk') :
    Cur S Ct d vs { a2 with ks := ks' } stk' frames := by
  obtain ⟨j, sc, rest, h1, h2, h3, h4, h5⟩ := c
  exact ⟨j, sc, rest, h1, h2, h3, h j sc rest h1 h4, h5⟩

end Gojq.SafeVM

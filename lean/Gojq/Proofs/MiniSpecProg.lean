/-
  Helper lemmas for Props/C01Tie.lean, part 5: whole programs.  The header definitions of the
  translated program become the bindings `E`, the empty mini environment is realised by them, and
  the side conditions of the translation (`tieOK`) give what the simulation needs of every body.
  Also the witness program for the one difference between the two reference evaluators (the mini
  one is strict in the outputs of a sub-evaluation, `Spec.eval` is not).
  Core Lean only.
-/
import Gojq.Proofs.MiniSpecTie
import Gojq.Proofs.MiniSpecLit
import Gojq.Proofs.MiniVMProg
namespace Gojq.MiniSpec
open Gojq Gojq.MiniVM

attribute [local instance] specMsg

/-! ### the header definitions -/

theorem Tr.defs_nil {q : Q} {A : Query} (h : Tr q A) : A.defs = [] := by
  induction h with
  | delay _ ih => exact ih
  | _ => rfl

theorem eval_withDefs (N : Nat) (cfg : Spec.Cfg) (env : Spec.Env) (A : Query) (ds : List FuncDef) (s : Spec.St)
    (h : A.defs = []) : Spec.eval N cfg env (A.withDefs ds) s = Spec.eval N cfg (env.defs ds) A s := by
  cases N with
  | zero => rfl
  | succ N =>
    cases A with
    | term d t => simp only [Query.defs] at h; subst h; rfl
    | binop d op l r => simp only [Query.defs] at h; subst h; rfl
    | bind d src pats body => simp only [Query.defs] at h; subst h; rfl

/-- the body of function `f` -/
def bodyFn (bodies : List Query) : Nat → Query := fun f => bodies.getD f (T .identity)

theorem bodyFn_get (bodies : List Query) (f : Nat) (h : f < bodies.length) : bodyFn bodies f = bodies[f] := by
  simp [bodyFn, h]

theorem defs_defsFrom (body : Nat → Query) : ∀ (Bs : List Query) (i : Nat),
    (∀ j (h : j < Bs.length), body (i + j) = Bs[j]) →
    (Spec.Env.mk (E body i)).defs (defsFrom i Bs) = .mk (E body (i + Bs.length))
  | [], i, _ => rfl
  | B :: Bs, i, h => by
    have h0 : body i = B := h 0 (by simp)
    have ih := defs_defsFrom body Bs (i+1) (fun j hj => by
      have := h (j+1) (by simpa using hj)
      simpa [Nat.add_assoc, Nat.add_comm 1 j] using this)
    show (Spec.Env.push (.fn (fname i) [pname] B false) (.mk (E body i))).defs (defsFrom (i+1) Bs) = _
    rw [← h0]
    show (Spec.Env.mk (E body (i+1))).defs (defsFrom (i+1) Bs) = _
    rw [ih]
    simp [Nat.add_assoc, Nat.add_comm 1]

/-! ### the side conditions -/

mutual
theorem closed_of_callsBelow {nf k : Nat} : ∀ (q : Q) (vs : List Nat), q.Closed nf vs → callsBelow k q = true → q.Closed k vs
  | .id, _, _, _ => trivial
  | .const _, _, _, _ => trivial
  | .iter, _, _, _ => trivial
  | .empty, _, _, _ => trivial
  | .param, _, _, _ => trivial
  | .error, _, _, _ => trivial
  | .index _, _, _, _ => trivial
  | .var _, _, h, _ => h
  | .pipe a b, vs, h, hc => by
    simp only [callsBelow, Bool.and_eq_true] at hc
    exact ⟨closed_of_callsBelow a vs h.1 hc.1, closed_of_callsBelow b vs h.2 hc.2⟩
  | .comma a b, vs, h, hc => by
    simp only [callsBelow, Bool.and_eq_true] at hc
    exact ⟨closed_of_callsBelow a vs h.1 hc.1, closed_of_callsBelow b vs h.2 hc.2⟩
  | .arr a, vs, h, hc => closed_of_callsBelow a vs h hc
  | .call1 f a, vs, h, hc => by
    simp only [callsBelow, Bool.and_eq_true, decide_eq_true_eq] at hc
    exact ⟨hc.1, closed_of_callsBelow a [] h.2 hc.2⟩
  | .try_ a, vs, h, hc => closed_of_callsBelow a vs h hc
  | .tryCatch a b, vs, h, hc => by
    simp only [callsBelow, Bool.and_eq_true] at hc
    exact ⟨closed_of_callsBelow a vs h.1 hc.1, closed_of_callsBelow b vs h.2 hc.2⟩
  | .ite c a b, vs, h, hc => by
    simp only [callsBelow, Bool.and_eq_true] at hc
    exact ⟨closed_of_callsBelow c vs h.1 hc.1.1, closed_of_callsBelow a vs h.2.1 hc.1.2,
      closed_of_callsBelow b vs h.2.2 hc.2⟩
  | .alt a b, vs, h, hc => by
    simp only [callsBelow, Bool.and_eq_true] at hc
    exact ⟨closed_of_callsBelow a vs h.1 hc.1, closed_of_callsBelow b vs h.2 hc.2⟩
  | .bind x a b, vs, h, hc => by
    simp only [callsBelow, Bool.and_eq_true] at hc
    exact ⟨closed_of_callsBelow a vs h.1 hc.1, closed_of_callsBelow b (x :: vs) h.2 hc.2⟩
  | .reduce x a b c, vs, h, hc => by
    simp only [callsBelow, Bool.and_eq_true] at hc
    exact ⟨closed_of_callsBelow a vs h.1 hc.1.1, closed_of_callsBelow b vs h.2.1 hc.1.2,
      closed_of_callsBelow c (x :: vs) h.2.2 hc.2⟩
  | .foreach x a b c d, vs, h, hc => by
    simp only [callsBelow, Bool.and_eq_true] at hc
    exact ⟨closed_of_callsBelow a vs h.1 hc.1.1.1, closed_of_callsBelow b vs h.2.1 hc.1.1.2,
      closed_of_callsBelow c (x :: vs) h.2.2.1 hc.1.2, closed_of_callsBelow d (x :: vs) h.2.2.2 hc.2⟩
  | .obj sp, vs, h, hc => by
    simp only [callsBelow] at hc
    exact ⟨closed_of_spineCallsBelow sp vs h.1 hc, h.2⟩
  | .objStart, _, _, hc => by simp [callsBelow] at hc
  | .objSnoc _ _ _, _, _, hc => by simp [callsBelow] at hc
  | .objSnocC _ _ _, _, _, hc => by simp [callsBelow] at hc
  | .delay q, vs, h, hc => by
    simp only [callsBelow] at hc
    exact closed_of_callsBelow q vs h hc
theorem closed_of_spineCallsBelow {nf k : Nat} : ∀ (q : Q) (vs : List Nat), q.Closed nf vs → spineCallsBelow k q = true → q.Closed k vs
  | .objStart, _, _, _ => trivial
  | .objSnoc init kq v, vs, h, hc => by
    simp only [spineCallsBelow, Bool.and_eq_true] at hc
    exact ⟨closed_of_spineCallsBelow init vs h.1 hc.1.1, closed_of_callsBelow kq vs h.2.1 hc.1.2,
      closed_of_callsBelow v vs h.2.2 hc.2⟩
  | .objSnocC init _ v, vs, h, hc => by
    simp only [spineCallsBelow, Bool.and_eq_true] at hc
    exact ⟨closed_of_spineCallsBelow init vs h.1 hc.1, closed_of_callsBelow v vs h.2 hc.2⟩
  | .id, _, _, hc | .const _, _, _, hc | .pipe _ _, _, _, hc | .comma _ _, _, _, hc | .iter, _, _, hc
  | .empty, _, _, hc | .arr _, _, _, hc | .param, _, _, hc | .call1 _ _, _, _, hc | .error, _, _, hc
  | .try_ _, _, _, hc | .tryCatch _ _, _, _, hc | .index _, _, _, hc | .ite _ _ _, _, _, hc | .alt _ _, _, _, hc
  | .var _, _, _, hc | .bind _ _ _, _, _, hc | .reduce _ _ _ _, _, _, hc | .foreach _ _ _ _ _, _, _, hc
  | .obj _, _, _, hc | .delay _, _, _, hc => by simp [spineCallsBelow] at hc
end

theorem orderedFrom_get : ∀ (qs : List Q) (i : Nat), orderedFrom i qs = true →
    ∀ j (h : j < qs.length), callsBelow (i + j + 1) qs[j] = true
  | [], _, _, j, h => by simp at h
  | q :: qs, i, ho, j, h => by
    simp only [orderedFrom, Bool.and_eq_true] at ho
    cases j with
    | zero => simpa using ho.1
    | succ j =>
      have := orderedFrom_get qs (i+1) ho.2 j (by simpa using h)
      simpa [Nat.add_assoc, Nat.add_comm 1 j] using this

/-- the translation `toQuery` is one of the readings -/
theorem Tr_toQuery : ∀ (q : Q), qLitOK q = true → Tr q (toQuery q)
  | .id, _ => .id
  | .const c, h => .const c h
  | .iter, _ => .iter
  | .empty, _ => .empty
  | .param, _ => .param
  | .error, _ => .error
  | .var x, _ => .var x
  | .index k, h => by
    cases k with
    | str nm => exact .index nm
    | _ => simp [qLitOK] at h
  | .pipe a b, h => by
    simp only [qLitOK, Bool.and_eq_true] at h
    exact .pipe (Tr_toQuery a h.1) (Tr_toQuery b h.2)
  | .comma a b, h => by
    simp only [qLitOK, Bool.and_eq_true] at h
    exact .comma (Tr_toQuery a h.1) (Tr_toQuery b h.2)
  | .arr a, h => .arr (Tr_toQuery a h)
  | .call1 f a, h => .call1 f (Tr_toQuery a h)
  | .try_ a, h => .try_ (Tr_toQuery a h)
  | .tryCatch a b, h => by
    simp only [qLitOK, Bool.and_eq_true] at h
    exact .tryCatch (Tr_toQuery a h.1) (Tr_toQuery b h.2)
  | .ite c a b, h => by
    simp only [qLitOK, Bool.and_eq_true] at h
    exact .ite (Tr_toQuery c h.1.1) (Tr_toQuery a h.1.2) (Tr_toQuery b h.2)
  | .alt a b, h => by
    simp only [qLitOK, Bool.and_eq_true] at h
    exact .alt (Tr_toQuery a h.1) (Tr_toQuery b h.2)
  | .bind x a b, h => by
    simp only [qLitOK, Bool.and_eq_true] at h
    exact .bind x (Tr_toQuery a h.1) (Tr_toQuery b h.2)
  | .reduce x a b c, h => by
    simp only [qLitOK, Bool.and_eq_true] at h
    exact .reduce x (Tr_toQuery a h.1.1) (Tr_toQuery b h.1.2) (Tr_toQuery c h.2)
  | .foreach x a b c d, h => by
    simp only [qLitOK, Bool.and_eq_true] at h
    exact .foreach x (Tr_toQuery a h.1.1.1) (Tr_toQuery b h.1.1.2) (Tr_toQuery c h.1.2) (Tr_toQuery d h.2)
  | .obj _, h => by simp [qLitOK] at h
  | .objStart, h => by simp [qLitOK] at h
  | .objSnoc _ _ _, h => by simp [qLitOK] at h
  | .objSnocC _ _ _, h => by simp [qLitOK] at h
  | .delay q, h => .delay (Tr_toQuery q h)

/-- `toSyntax p` is a reading of `p` -/
theorem trProg_toSyntax (p : Prog) (hok : tieOK p = true) : TrProg p (p.defs.map toQuery) (toQuery p.main) := by
  simp only [tieOK, Bool.and_eq_true, List.all_eq_true] at hok
  refine ⟨by simp, fun i h => ?_, Tr_toQuery _ hok.2⟩
  simp only [List.getElem_map]
  exact Tr_toQuery _ (hok.1.2 _ (List.getElem_mem h))

theorem tieOK_ordered (p : Prog) (hok : tieOK p = true) : ordered p = true := by
  simp only [tieOK, Bool.and_eq_true] at hok
  exact hok.1.1

/-- what `Prog.WF`, `ordered` and `TrProg` give of every definition -/
theorem defs_ok (p : Prog) (hwf : p.WF) (hord : ordered p = true) {bodies : List Query} {main : Query}
    (htr : TrProg p bodies main) :
    ∀ f, f < p.defs.length → (p.defsFn f).Closed (f+1) [] ∧ Tr (p.defsFn f) (bodyFn bodies f) := by
  intro f hf
  rw [defsFn_get p f hf, bodyFn_get bodies f (htr.len ▸ hf)]
  have hmem : p.defs[f] ∈ p.defs := List.getElem_mem hf
  refine ⟨closed_of_callsBelow _ [] (hwf.defs_closed _ hmem) ?_, htr.defs f hf⟩
  simpa using orderedFrom_get p.defs 0 hord f hf

/-- the environment `Spec.eval` evaluates the main query in realises the empty mini environment -/
theorem envRel_main (p : Prog) (hwf : p.WF) (hord : ordered p = true) {bodies : List Query} {main : Query}
    (htr : TrProg p bodies main) :
    EnvRel p.defsFn (bodyFn bodies) p.defs.length ⟨.none, []⟩ (E (bodyFn bodies) p.defs.length) where
  fns := FnOK_E _ _ _ (defs_ok p hwf hord htr)
  ok := BsOK_E _ _
  vars := by intro x w h; simp [MiniVM.lookup] at h
  clo := trivial

theorem qok_main (p : Prog) (hwf : p.WF) : QOK p.defs.length ⟨.none, []⟩ p.main where
  closed := hwf.main_closed
  par := fun h => absurd h hwf.main_noparam

theorem progSyntax_eval (p : Prog) {bodies : List Query} {main : Query} (htr : TrProg p bodies main)
    (N : Nat) (cfg : Spec.Cfg) (s : Spec.St) :
    Spec.eval N cfg Spec.Env.empty (progSyntax bodies main) s =
      Spec.eval N cfg (.mk (E (bodyFn bodies) p.defs.length)) main s := by
  unfold progSyntax
  rw [eval_withDefs _ _ _ _ _ _ htr.main.defs_nil]
  have := defs_defsFrom (bodyFn bodies) bodies 0 (fun j hj => by simpa using bodyFn_get bodies j hj)
  simp only [E, Nat.zero_add] at this
  show Spec.eval N cfg ((Spec.Env.mk []).defs (defsFrom 0 bodies)) main s = _
  rw [this, htr.len]

/-- the simulation for whole programs -/
theorem prog_rel (p : Prog) (hwf : p.WF) (hord : ordered p = true) {bodies : List Query} {main : Query}
    (htr : TrProg p bodies main) (cfg : Spec.Cfg) (hc : NoShadow cfg)
    (s : Spec.St) (hs : Clean s) (n N : Nat) (b : Bool) (hN : b = true → 6 * n ≤ N)
    (hnd : ND (eval p.defsFn n ⟨none, []⟩ ⟨.none, []⟩ p.main s.v).stop) :
    Rel b (Spec.eval N cfg Spec.Env.empty (progSyntax bodies main) s)
      (eval p.defsFn n ⟨none, []⟩ ⟨.none, []⟩ p.main s.v) := by
  rw [progSyntax_eval p htr]
  exact tie_all p.defsFn (bodyFn bodies) cfg hc n N b p.main main ⟨none, []⟩ ⟨.none, []⟩ p.defs.length _ s htr.main hN
    (envRel_main p hwf hord htr) hs (qok_main p hwf) hnd

/-! ### the two evaluations of a program, and reading `Rel` as plain statements -/

/-- `Spec.eval` on the jq program `def f0(g): bodies[0]; …; main`, from the empty environment -/
def specRunOf (bodies : List Query) (main : Query) (cfg : Spec.Cfg) (N : Nat) (s : Spec.St) : Spec.Res :=
  Spec.eval N cfg Spec.Env.empty (progSyntax bodies main) s

/-- `Spec.eval` on the translated program `toSyntax p`, from the empty environment -/
def specRun (p : Prog) (cfg : Spec.Cfg) (N : Nat) (s : Spec.St) : Spec.Res :=
  Spec.eval N cfg Spec.Env.empty (toSyntax p) s

theorem specRun_eq (p : Prog) : specRun p = specRunOf (p.defs.map toQuery) (toQuery p.main) := rfl

/-- the mini reference evaluator on the program (what Props/C01Compile.lean proves the mini VM yields),
    with the host-library parameter read off `Spec.eval` -/
def miniRun (p : Prog) (n : Nat) (v : V) : MiniVM.Res :=
  eval p.defsFn n ⟨none, []⟩ ⟨.none, []⟩ p.main v

/-- `Spec.eval` ended normally or by an error (not out of fuel, not `unmodelled`) -/
def Definite (st : Spec.Stop) : Prop := st = .done ∨ ∃ e, st = .err e

theorem Definite.of_isDone {st : Spec.Stop} (h : st.isDone = true) : Definite st := by
  cases st <;> simp [Spec.Stop.isDone] at h
  exact .inl rfl

theorem Rel.of_definite {b rs rm} (h : Rel b rs rm) (hd : Definite rs.stop) :
    vals rs.outs = rm.outs ∧ rs.stop = trStop rm.stop := by
  rcases h.stop_cases with ⟨h1, h2⟩ | ⟨e, h1, h2⟩ | hi
  · subst h2; exact ⟨rfl, h1⟩
  · subst h2; exact ⟨rfl, h1⟩
  · rcases hd with hd | ⟨e, hd⟩
    · exact absurd hd hi.ne_done
    · exact absurd hd (hi.ne_err e)

theorem Rel.definite_or {rs rm} (h : Rel true rs rm) : rs.stop = .unmodelled catchWhy ∨ Definite rs.stop := by
  rcases h.stop_cases with ⟨h1, _⟩ | ⟨e, h1, _⟩ | hi
  · exact .inr (.inl h1)
  · exact .inr (.inr ⟨_, h1⟩)
  · rcases hi with hi | hi
    · exact absurd hi (h.nofuel rfl)
    · exact .inl hi

/-- the error a `Spec` stop stands for on the machine -/
def stopOfErr : Option MiniVM.Err → Spec.Stop
  | none => .done
  | some e => .err (trErr e)

theorem trStop_toErr (st : MiniVM.Stop) (h : ND st) : trStop st = stopOfErr st.toErr := by
  cases st with
  | done => rfl
  | err e => rfl
  | diverge => exact absurd h (by simp [ND])

/-! ### example programs for Props/C01Tie.lean -/

/-- `def f0(g): g | g; [f0(.[])]` -/
def exTie : Prog := { defs := [.pipe .param .param], main := .arr (.call1 0 .iter) }
/-- `[[1], [2, 3]]` -/
def exTieInput : V := .arr [.arr [.num (.int 1)], .arr [.num (.int 2), .num (.int 3)]]

/-- `try error catch .` on a float the message model has no digits for is not an example: an
    example of the `unmodelled` outcome needs such a value; the examples use modelled ones -/
def exCatchIter : Prog := { defs := [], main := .tryCatch .iter .id }

/-- the jq query `[.[] | (if .a and .b then .a elif .b then .b? end)]` as the parser dumps it: forms
    outside the image of `toQuery` (parentheses, `and`, `elif`, no `else`, `?`) -/
def exSugarMain : Query :=
  T (.array (some (.binop [] .pipe (.term [] (.mk .identity [.iter]))
    (T (.query (T (.if_
      (.binop [] .and (T (.index (.name (B "a")))) (T (.index (.name (B "b")))))
      (T (.index (.name (B "a"))))
      [(T (.index (.name (B "b"))), .term [] (.mk (.index (.name (B "b"))) [.optional]))]
      none)))))))

/-- the mini program compiler.go's instructions for it are the instructions of:
    `[.[] | (if (if .a then (if .b then true else false end) else false end) then .a
             else (if .b then (try .b) else . end) end | .)]` -/
def exSugar : Prog :=
  { defs := [],
    main := .arr (.pipe .iter (.pipe
      (.ite (.ite (.index (.str (B "a"))) (.ite (.index (.str (B "b"))) qTrue qFalse) qFalse)
        (.index (.str (B "a")))
        (.ite (.index (.str (B "b"))) (.try_ (.index (.str (B "b")))) .id))
      .id)) }

theorem exSugar_tr : TrProg exSugar [] exSugarMain :=
  ⟨rfl, fun i h => absurd h (by simp [exSugar]),
    .arr (.pipe .iter (.paren (.elif (.and (.index _) (.index _)) (.index _)
      (.if1 (.index _) (.sfxOpt (core := .index (.name (B "b"))) (sfx := []) (.index _) trivial)))))⟩

/-- `[{"a":1,"b":2}, {"a":null,"b":3}, {"b":false}]` -/
def exSugarInput : V :=
  .arr [.obj [(B "a", .num (.int 1)), (B "b", .num (.int 2))], .obj [(B "a", .null), (B "b", .num (.int 3))],
        .obj [(B "b", .bool false)]]

/-! ### the witness: an infinite generator whose first output raises an error downstream -/

/-- `def f0(g): ., f0(g); f0(.) | error` -/
def exLazy : Prog :=
  { defs := [.comma .id (.call1 0 .param)], main := .pipe (.call1 0 .id) .error }

theorem exLazy_body_diverges : ∀ (n : Nat) (g : Ctx) (ρ : MiniVM.Env) (v : V),
    (eval exLazy.defsFn n g ρ (.comma .id (.call1 0 .param)) v).stop = .diverge := by
  intro n
  induction n using Nat.strongRecOn with
  | _ n ih =>
    intro g ρ v
    match n with
    | 0 => rfl
    | 1 => rfl
    | n+2 =>
      have h := ih n (by omega) ⟨some 0, []⟩ ⟨.mk g.fn .param ρ.clo, []⟩ v
      have hb : eval exLazy.defsFn (n+1) g ρ (.call1 0 .param) v =
          eval exLazy.defsFn n ⟨some 0, []⟩ ⟨.mk g.fn .param ρ.clo, []⟩ (.comma .id (.call1 0 .param)) v := rfl
      have hm : eval exLazy.defsFn (n+2) g ρ (.comma .id (.call1 0 .param)) v =
          ⟨[v] ++ (eval exLazy.defsFn (n+1) g ρ (.call1 0 .param) v).outs,
            (eval exLazy.defsFn (n+1) g ρ (.call1 0 .param) v).stop⟩ := rfl
      rw [hm, hb]
      exact h

/-- the mini reference evaluator runs out of fuel on `exLazy` whatever the fuel -/
theorem exLazy_mini_diverges (n : Nat) (v : V) :
    (eval exLazy.defsFn n ⟨none, []⟩ ⟨.none, []⟩ exLazy.main v).stop = .diverge := by
  match n with
  | 0 => rfl
  | 1 => rfl
  | n+2 =>
    have h := exLazy_body_diverges n ⟨some 0, []⟩ ⟨.mk none .id .none, []⟩ v
    have hm : eval exLazy.defsFn (n+2) ⟨none, []⟩ ⟨.none, []⟩ exLazy.main v =
        guardND (eval exLazy.defsFn n ⟨some 0, []⟩ ⟨.mk none .id .none, []⟩ (.comma .id (.call1 0 .param)) v)
          (Res.bindL (eval exLazy.defsFn (n+1) ⟨none, []⟩ ⟨.none, []⟩ .error)
            (eval exLazy.defsFn n ⟨some 0, []⟩ ⟨.mk none .id .none, []⟩ (.comma .id (.call1 0 .param)) v).outs
            (eval exLazy.defsFn n ⟨some 0, []⟩ ⟨.mk none .id .none, []⟩ (.comma .id (.call1 0 .param)) v).stop) := rfl
    rw [hm]
    simp [guardND, h]

end Gojq.MiniSpec

/-
  C19 — no ambient authority by default; each compile option grants exactly its own.
  Property theorems only.  `Generated.Facts` / `Generated.NativeTable` are regenerated from the
  repository on every run (verifgen `facts`, `nativetable`), so the table theorems below are
  re-checked against what the source says now.  Helper lemmas: Gojq/Proofs/Options.lean;
  model of option.go / RunWithContext: Gojq/Model/Options.lean.

  Out of scope here (owned by the evaluator model): a non-interference theorem over a full
  evaluator.  The behavioural side of the property is searched by harness/cmd/c19.
-/
import Gojq.Proofs.Options
import Gojq.Generated.Facts
import Gojq.Generated.NativeTable
namespace Gojq.C19
open Gojq.Options Gojq.Generated

/-! ## 1. who touches ambient state -/

/-- EXPECTED: every place in package gojq (default build) that touches the process
    environment, the file system, the clock, the time zone, the network, … -/
def expectedAmbientUses : List (String × String × String) := [
  -- excluded by the property: "time-zone dependent date functions"
  ("func.go", "funcLocaltime", "time.Local"),
  -- excluded by the property: `now`
  ("func.go", "funcNow", "time.Now"),
  -- excluded by the property: "time-zone dependent date functions" (both branches)
  ("func.go", "funcStrflocaltime", "time.Local"),
  -- module_loader.go: the file-system loader.  Only reachable through a non-nil
  -- `compiler.moduleLoader`, i.e. after WithModuleLoader(NewModuleLoader(…)) — see
  -- `ambient_entry_points` for the three call sites, all behind the loader interface.
  ("module_loader.go", "moduleLoader.LoadInitModules", "os.IsNotExist"),
  ("module_loader.go", "moduleLoader.LoadInitModules", "os.ReadFile"),
  ("module_loader.go", "moduleLoader.LoadInitModules", "os.Stat"),
  ("module_loader.go", "moduleLoader.LoadJSONWithMeta", "os.Open"),
  ("module_loader.go", "moduleLoader.LoadModuleWithMeta", "os.ReadFile"),
  ("module_loader.go", "moduleLoader.lookupModule", "os.Stat"),
  -- `$ORIGIN/` and `~/` expansion of search paths (NewModuleLoader, lookupModule, parseModule)
  ("module_loader.go", "resolvePath", "filepath.EvalSymlinks"),
  ("module_loader.go", "resolvePath", "os.Executable"),
  ("module_loader.go", "resolvePath", "os.UserHomeDir"),
  -- goyacc's debug printing: output only, behind `yyDebug >= 1`, a package variable that is
  -- initialised to 0 and never assigned; reads nothing
  ("parser.go", "yyParserImpl.Parse", "__yyfmt__.Printf"),
  ("parser.go", "yylex1", "__yyfmt__.Printf")]

/-- The functions of package gojq that touch ambient state are exactly the expected ones:
    `now`, the two local-time date functions, the file-system module loader, and goyacc's
    dormant debug prints.  In particular `env`/`$ENV`, `input`, `getpath`, `ltrimstr`, …
    reach none of `os.*`, `time.Now`, `time.Local`, `net.*`, `syscall.*`, `os/exec`. -/
theorem ambient_uses_table : Facts.ambientUses = expectedAmbientUses := by decide

/-- EXPECTED: third-party code called from package gojq — timefmt-go only.  `strptime` parses
    `%Z` zone names against `time.Local` inside timefmt-go (the property's "strptime with a
    zone name" exclusion); `strftime` formats UTC broken-down times. -/
def expectedThirdParty : List (String × String × String) := [
  ("func.go", "funcStrflocaltime", "timefmt.Format"),
  ("func.go", "funcStrftime", "timefmt.Format"),
  ("func.go", "funcStrptime", "timefmt.Parse")]

theorem third_party_table : Facts.thirdPartyUses = expectedThirdParty := by decide

/-- EXPECTED: references from other files to the functions that (transitively, inside their
    own file) touch ambient state.  The loader methods are called only on the value of
    `compiler.moduleLoader` after a `!= nil` test / interface assertion; `Parse` → `yyParse`
    is the dormant debug print. -/
def expectedEntryEdges : List (String × String × String) := [
  ("compiler.go", "Compile", "moduleLoader.LoadInitModules"),
  ("compiler.go", "compiler.compileImport", "moduleLoader.LoadJSONWithMeta"),
  ("compiler.go", "compiler.compileImport", "moduleLoader.LoadModuleWithMeta"),
  ("compiler.go", "compiler.funcModulemeta", "moduleLoader.LoadModuleWithMeta"),
  ("query.go", "Parse", "yyParse")]

theorem ambient_entry_points : Facts.ambientEntryEdges = expectedEntryEdges := by decide

/-- inside func.go the only referrer of `funcNow`, `funcLocaltime`, `funcStrflocaltime` is the
    `init` that builds the native table; module_loader.go and parser.go are closed sets -/
theorem ambient_closure :
    Facts.ambientClosure.map (fun t => (t.1, t.2.1)) = [
      ("func.go", "funcLocaltime"), ("func.go", "funcNow"), ("func.go", "funcStrflocaltime"), ("func.go", "init@func.go"),
      ("module_loader.go", "NewModuleLoader"), ("module_loader.go", "moduleLoader.LoadInitModules"),
      ("module_loader.go", "moduleLoader.LoadJSONWithMeta"), ("module_loader.go", "moduleLoader.LoadModuleWithMeta"),
      ("module_loader.go", "moduleLoader.lookupModule"), ("module_loader.go", "parseModule"), ("module_loader.go", "resolvePath"),
      ("parser.go", "yyParse"), ("parser.go", "yyParserImpl.Parse"), ("parser.go", "yylex1")] := by decide

/-- the natives whose callee is one of those functions are exactly `localtime`, `now`,
    `strflocaltime` (and `strptime` through timefmt-go) — the names the property excludes -/
theorem ambient_natives :
    (NativeTable.table.filter fun e =>
        ["funcNow", "funcLocaltime", "funcStrflocaltime", "funcStrptime"].contains e.callee).map (·.name)
      = ["localtime", "now", "strflocaltime", "strptime"] := by decide

/-- package gojq does not import `unsafe` (nor os/exec, net, syscall, io/ioutil, C); `os` and
    `path/filepath` are imported by module_loader.go only -/
theorem no_unsafe :
    (Facts.imports.all fun fi => !(fi.2.any fun p =>
        ["un" ++ "safe", "os/exec", "net", "net/http", "syscall", "io/ioutil", "C", "plugin", "math/rand", "crypto/rand"].contains p)) = true
      ∧ (Facts.imports.filter fun fi => fi.2.contains "os" || fi.2.contains "path/filepath").map (·.1) = ["module_loader.go"]
      ∧ (Facts.imports.filter fun fi => fi.2.contains "reflect").map (·.1) = ["execute.go", "func.go"] := by decide

/-- `reflect` is used only as `reflect.ValueOf(x).Pointer()` / `.Len()` (identity and length
    of a slice or map): `pathIntact` and the allocator -/
theorem reflect_only_pointer_len :
    Facts.unsafeReflectUses = [
      ("execute.go", "env.pathIntact", "reflect.ValueOf"),
      ("execute.go", "env.pathIntact", "reflect.ValueOf(_).Len"),
      ("execute.go", "env.pathIntact", "reflect.ValueOf(_).Pointer"),
      ("func.go", "allocator.allocated", "reflect.ValueOf(_).Pointer"),
      ("func.go", "allocator.free", "reflect.ValueOf(_).Pointer"),
      ("func.go", "allocator.makeArray", "reflect.ValueOf(_).Pointer"),
      ("func.go", "allocator.makeObject", "reflect.ValueOf(_).Pointer"),
      ("func.go", "allocator.release", "reflect.ValueOf(_).Pointer")] := by decide

/-- every arity mask of the native table is non-zero and below 2^31, and names are unique -/
theorem native_table_sane :
    (NativeTable.table.all fun e => decide (0 < e.argcount) && decide (e.argcount < 2 ^ 31)) = true
      ∧ (NativeTable.table.map (·.name)).Nodup := by decide +kernel

/-! ## 2. custom functions: arity masks -/

/-- the mask of one registration accepts exactly the arities `minarity..maxarity` -/
theorem mask_range (mn mx n : Nat) (h : mn ≤ mx) :
    accept (argcount mn mx) n = (decide (mn ≤ n) && decide (n ≤ mx)) := by
  rw [accept_eq_testBit, argcount_testBit _ _ _ h]

/-- … and stays below 2^31 for maxarity ≤ 30, so the Go `int` arithmetic is exact -/
theorem mask_fits (mn mx : Nat) (h : mx ≤ 30) : argcount mn mx < 2 ^ 31 := argcount_lt mn mx h

/-- arities outside 0 ≤ min ≤ max ≤ 30 are rejected by a panic when the option is built -/
theorem invalid_arity_panics (prev : Option Entry) (id : Nat) (mn mx : Int) (iter : Bool)
    (h : ¬ (0 ≤ mn ∧ mn ≤ mx ∧ mx ≤ 30)) : register prev id mn mx iter = .panicArity := by
  have : validArity mn mx = false := by
    simp only [validArity]
    by_cases h1 : 0 ≤ mn <;> by_cases h2 : mn ≤ mx <;> by_cases h3 : mx ≤ 30 <;> simp_all
  simp [register, this]

/-- an iterator and a non-iterator function of one name cannot both be registered -/
theorem iter_conflict_panics (e : Entry) (id : Nat) (mn mx : Int) (iter : Bool)
    (hv : validArity mn mx = true) (h : e.iter ≠ iter) : register (some e) id mn mx iter = .panicIter := by
  simp [register, hv, h]

/-- `WithFunction`'s arity-mask MERGING: after any sequence of registrations of one name
    (newest first in `L`), a call with `n` arguments is accepted exactly when some registered
    range contains `n` (the union S₁ ∪ S₂ ∪ …), and it is answered by the newest registration
    whose range contains `n`. -/
theorem mask_merge (iter : Bool) (L : List Reg) (hL : ∀ r ∈ L, r.mn ≤ r.mx) (n : Nat) :
    accept (build iter L).mask n = L.any (·.covers n)
      ∧ call (build iter L) n = (L.find? (·.covers n)).map (·.id) :=
  ⟨mask_build iter L hL n, call_build iter L hL n⟩

/-- `build` is what the code computes: the first and every further registration -/
theorem register_is_build (L : List Reg) (id : Nat) (mn mx : Int) (iter : Bool) (h : validArity mn mx = true) :
    register none id mn mx iter = .ok (build iter [⟨id, mn.toNat, mx.toNat⟩])
      ∧ register (some (build iter L)) id mn mx iter = .ok (build iter (⟨id, mn.toNat, mx.toNat⟩ :: L)) :=
  ⟨register_first id mn mx iter h, register_next L id mn mx iter h⟩

example : (build false [⟨2, 1, 3⟩, ⟨1, 0, 1⟩]).mask = 15 := by decide
example : [0, 1, 2, 3, 4].map (call (build false [⟨2, 1, 3⟩, ⟨1, 0, 1⟩])) = [some 1, some 2, some 2, some 2, none] := by decide
example : registerAll none 1 [(0, 1, false), (1, 3, false)] = .ok (build false [⟨2, 1, 3⟩, ⟨1, 0, 1⟩]) := by decide
example : register none 1 0 31 false = .panicArity := by decide
example : register (some (build false [⟨1, 0, 0⟩])) 2 0 0 true = .panicIter := by decide
example : accept (argcount 30 30) 30 = true ∧ accept (argcount 0 30) 31 = false := by decide

/-! ## 3. variables -/

/-- With as many values as names (names distinct), execution starts with the i-th value bound
    to the i-th name and the input on top of the stack. -/
theorem variables_bind_in_order {α} (names : List String) (hn : names.Nodup) (input : α) (values : List α)
    (hl : values.length = names.length) :
    start names input values = .run (names.zip values) [input] := by
  have key : ∀ (ns : List String) (vs : List α) (env : List (String × α)),
      ns.Nodup → vs.length = ns.length → (∀ n ∈ ns, ∀ kv ∈ env, kv.1 ≠ n) →
      storeAll ns (vs ++ [input]) env = (env ++ ns.zip vs, [input]) := by
    intro ns
    induction ns with
    | nil => intro vs env _ h _; cases vs <;> simp_all [storeAll]
    | cons n ns ih =>
      intro vs env hnd h hfresh
      cases vs with
      | nil => simp at h
      | cons v vs =>
        have hstore : store env n v = env ++ [(n, v)] := by
          have : env.any (fun kv => kv.1 == n) = false := by
            rw [List.any_eq_false]; intro kv hkv; simpa using hfresh n (by simp) kv hkv
          simp [store, this]
        simp only [List.cons_append, storeAll, hstore]
        rw [ih vs _ (List.nodup_cons.mp hnd).2 (by simpa using h)]
        · simp
        · intro m hm kv hkv
          rcases List.mem_append.mp hkv with h1 | h1
          · exact hfresh m (by simp [hm]) kv h1
          · simp at h1; subst h1
            intro heq; simp at heq
            exact (List.nodup_cons.mp hnd).1 (heq ▸ hm)
  simp only [start, hl, Nat.lt_irrefl, gt_iff_lt, if_false, dite_false]
  rw [key names values [] hn hl (by simp)]
  simp

/-- Too many or too few values never start execution and never panic: the iterator yields
    one error value — "too many variable values provided", or "variable defined but not
    bound" naming the first name left without a value. -/
theorem too_few_or_many_is_error_value {α} (names : List String) (input : α) (values : List α)
    (h : values.length ≠ names.length) :
    (names.length < values.length ∧ start names input values = .tooMany)
      ∨ (∃ hlt : values.length < names.length, start names input values = .expected (names[values.length])) := by
  by_cases h1 : names.length < values.length
  · left; exact ⟨h1, by simp [start, h1]⟩
  · right
    have hlt : values.length < names.length := by omega
    exact ⟨hlt, by simp [start, h1, hlt]⟩

example : start ["$a", "$b"] (0 : Nat) [1, 2] = .run [("$a", 1), ("$b", 2)] [0] := by decide
example : start ["$a", "$b"] (0 : Nat) [1] = .expected "$b" := by decide
example : start ["$a"] (0 : Nat) [1, 2] = .tooMany := by decide
/-- a repeated name shares one slot: the later value wins -/
example : start ["$a", "$a"] (0 : Nat) [1, 2] = .run [("$a", 2)] [0] := by decide

end Gojq.C19

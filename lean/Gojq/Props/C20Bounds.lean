/-
  C20: the certified footprint bounds as numbers.  `Certs.bounds` lists, per certified subject
  program, the constant `<program>_bound` that the theorems `bounded_<program>` (Props/C20Iter,
  Props/C20TailRec) use; `Certs.explored` records what the worklist saw for every subject and
  control program.
-/
import Gojq.Generated.Certs
namespace Gojq.C20
open Gojq.Generated

/-- every certified bound is a small constant: at most 64 blocks/forks/slots in total,
    whatever the number of turns -/
theorem bounds_small : ∀ p ∈ Certs.bounds, p.2 ≤ 64 := by decide

/-- all 30 subject programs (every iteration form and the tail-recursive family) are certified -/
theorem all_subjects_certified : Certs.bounds.length = 30 := by decide

/-- the worklist closed for a program exactly when it has a certificate; the three
    non-tail-recursive controls did not close below the cap (the method can tell a leak) -/
theorem controls_not_closed :
    (Certs.explored.filter (fun e => !e.2.2.2)).map (·.1) = ["ctlAltLeft", "ctlPipeAfter", "ctlCommaLeft"] := by
  decide

end Gojq.C20

/-
  C20, per-program theorems for user-defined parameterless functions whose recursive call
  is in tail position: under if / elif / else, as right operand of `//`, in the right
  branch of a comma, under `as` bindings (also destructuring), and nested definitions
  (each tail recursive; with and without variables; generator inside).  Depending on
  whether the function's scope has variables the compiler turns the call into a jump or
  into `callrec` (optimizeTailRec).  The three non-tail controls of the subject list have
  no certificate: their worklist does not close (see `Certs.explored`).
-/
import Gojq.Props.C20
import Gojq.Generated.Programs
import Gojq.Generated.Certs.tailIf
import Gojq.Generated.Certs.tailElif
import Gojq.Generated.Certs.tailElse
import Gojq.Generated.Certs.tailAlt
import Gojq.Generated.Certs.tailComma
import Gojq.Generated.Certs.tailCommaVar
import Gojq.Generated.Certs.tailAs
import Gojq.Generated.Certs.tailDestructure
import Gojq.Generated.Certs.tailNested
import Gojq.Generated.Certs.tailNestedVar
import Gojq.Generated.Certs.tailNestedGen
namespace Gojq.C20
open Gojq.ShVM Gojq.Generated

/-- tailrec: `def f: if . < N then . + 1 | f else . end; 0 | f` (N = 10^9) — after ANY number of VM instructions, on any data, the
    interpreter footprint is at most the certified bound and no Go panic site is reached. -/
theorem bounded_tailIf : ∀ n s, ReachN Programs.tailIf n s →
    footprint s ≤ Certs.tailIf_bound ∧ stuckFree Programs.tailIf s = true :=
  bounded_of_certificate _ Certs.tailIf_I Certs.tailIf_succ _ (by decide +kernel)

example : ReachN Programs.tailIf 1 (Certs.tailIf_I.getD 1 (init [])) :=
  .succ .zero (mem_step_of_isSucc (by decide +kernel))

/-- tailrec: `def f: if . < 0 then . elif . < N then . + 1 | f else . end; 0 | f` (N = 10^9) — after ANY number of VM instructions, on any data, the
    interpreter footprint is at most the certified bound and no Go panic site is reached. -/
theorem bounded_tailElif : ∀ n s, ReachN Programs.tailElif n s →
    footprint s ≤ Certs.tailElif_bound ∧ stuckFree Programs.tailElif s = true :=
  bounded_of_certificate _ Certs.tailElif_I Certs.tailElif_succ _ (by decide +kernel)

example : ReachN Programs.tailElif 1 (Certs.tailElif_I.getD 1 (init [])) :=
  .succ .zero (mem_step_of_isSucc (by decide +kernel))

/-- tailrec: `def f: if . >= N then . else . + 1 | f end; 0 | f` (N = 10^9) — after ANY number of VM instructions, on any data, the
    interpreter footprint is at most the certified bound and no Go panic site is reached. -/
theorem bounded_tailElse : ∀ n s, ReachN Programs.tailElse n s →
    footprint s ≤ Certs.tailElse_bound ∧ stuckFree Programs.tailElse s = true :=
  bounded_of_certificate _ Certs.tailElse_I Certs.tailElse_succ _ (by decide +kernel)

example : ReachN Programs.tailElse 1 (Certs.tailElse_I.getD 1 (init [])) :=
  .succ .zero (mem_step_of_isSucc (by decide +kernel))

/-- tailrec: `def f: select(. >= N) // (. + 1 | f); 0 | f` (N = 10^9) — after ANY number of VM instructions, on any data, the
    interpreter footprint is at most the certified bound and no Go panic site is reached. -/
theorem bounded_tailAlt : ∀ n s, ReachN Programs.tailAlt n s →
    footprint s ≤ Certs.tailAlt_bound ∧ stuckFree Programs.tailAlt s = true :=
  bounded_of_certificate _ Certs.tailAlt_I Certs.tailAlt_succ _ (by decide +kernel)

example : ReachN Programs.tailAlt 1 (Certs.tailAlt_I.getD 1 (init [])) :=
  .succ .zero (mem_step_of_isSucc (by decide +kernel))

/-- tailrec: `def f: ., (. + 1 | f); 0 | f` (N = 10^9) — after ANY number of VM instructions, on any data, the
    interpreter footprint is at most the certified bound and no Go panic site is reached. -/
theorem bounded_tailComma : ∀ n s, ReachN Programs.tailComma n s →
    footprint s ≤ Certs.tailComma_bound ∧ stuckFree Programs.tailComma s = true :=
  bounded_of_certificate _ Certs.tailComma_I Certs.tailComma_succ _ (by decide +kernel)

example : ReachN Programs.tailComma 1 (Certs.tailComma_I.getD 1 (init [])) :=
  .succ .zero (mem_step_of_isSucc (by decide +kernel))

/-- tailrec: `def f: . as $x | $x, ($x + 1 | f); 0 | f` (N = 10^9) — after ANY number of VM instructions, on any data, the
    interpreter footprint is at most the certified bound and no Go panic site is reached. -/
theorem bounded_tailCommaVar : ∀ n s, ReachN Programs.tailCommaVar n s →
    footprint s ≤ Certs.tailCommaVar_bound ∧ stuckFree Programs.tailCommaVar s = true :=
  bounded_of_certificate _ Certs.tailCommaVar_I Certs.tailCommaVar_succ _ (by decide +kernel)

example : ReachN Programs.tailCommaVar 1 (Certs.tailCommaVar_I.getD 1 (init [])) :=
  .succ .zero (mem_step_of_isSucc (by decide +kernel))

/-- tailrec: `def f: . as $x | if $x < N then $x + 1 | f else $x end; 0 | f` (N = 10^9) — after ANY number of VM instructions, on any data, the
    interpreter footprint is at most the certified bound and no Go panic site is reached. -/
theorem bounded_tailAs : ∀ n s, ReachN Programs.tailAs n s →
    footprint s ≤ Certs.tailAs_bound ∧ stuckFree Programs.tailAs s = true :=
  bounded_of_certificate _ Certs.tailAs_I Certs.tailAs_succ _ (by decide +kernel)

example : ReachN Programs.tailAs 1 (Certs.tailAs_I.getD 1 (init [])) :=
  .succ .zero (mem_step_of_isSucc (by decide +kernel))

/-- tailrec: `def f: [., 1] as [$a, $b] | if $a < N then $a + $b | f else $a end; 0 | f` (N = 10^9) — after ANY number of VM instructions, on any data, the
    interpreter footprint is at most the certified bound and no Go panic site is reached. -/
theorem bounded_tailDestructure : ∀ n s, ReachN Programs.tailDestructure n s →
    footprint s ≤ Certs.tailDestructure_bound ∧ stuckFree Programs.tailDestructure s = true :=
  bounded_of_certificate _ Certs.tailDestructure_I Certs.tailDestructure_succ _ (by decide +kernel)

example : ReachN Programs.tailDestructure 1 (Certs.tailDestructure_I.getD 1 (init [])) :=
  .succ .zero (mem_step_of_isSucc (by decide +kernel))

/-- tailrec: `def f: def g: if . % 7 != 0 then . + 1 | g else . end; if . < N then . + 1 | g | f else . end; 0 | f` (N = 10^9) — after ANY number of VM instructions, on any data, the
    interpreter footprint is at most the certified bound and no Go panic site is reached. -/
theorem bounded_tailNested : ∀ n s, ReachN Programs.tailNested n s →
    footprint s ≤ Certs.tailNested_bound ∧ stuckFree Programs.tailNested s = true :=
  bounded_of_certificate _ Certs.tailNested_I Certs.tailNested_succ _ (by decide +kernel)

example : ReachN Programs.tailNested 1 (Certs.tailNested_I.getD 1 (init [])) :=
  .succ .zero (mem_step_of_isSucc (by decide +kernel))

/-- tailrec: `def f: def g: . as $y | if $y % 7 != 0 then $y + 1 | g else $y end; . as $x | if $x < N then $x + 1 | g | f else $x end; 0 | f` (N = 10^9) — after ANY number of VM instructions, on any data, the
    interpreter footprint is at most the certified bound and no Go panic site is reached. -/
theorem bounded_tailNestedVar : ∀ n s, ReachN Programs.tailNestedVar n s →
    footprint s ≤ Certs.tailNestedVar_bound ∧ stuckFree Programs.tailNestedVar s = true :=
  bounded_of_certificate _ Certs.tailNestedVar_I Certs.tailNestedVar_succ _ (by decide +kernel)

example : ReachN Programs.tailNestedVar 1 (Certs.tailNestedVar_I.getD 1 (init [])) :=
  .succ .zero (mem_step_of_isSucc (by decide +kernel))

/-- tailrec: `def f: def g: ., (select(. % 3 != 0) | . + 1 | g); . as $x | $x, (last($x + 1 | g) | f); 0 | f` (N = 10^9) — after ANY number of VM instructions, on any data, the
    interpreter footprint is at most the certified bound and no Go panic site is reached. -/
theorem bounded_tailNestedGen : ∀ n s, ReachN Programs.tailNestedGen n s →
    footprint s ≤ Certs.tailNestedGen_bound ∧ stuckFree Programs.tailNestedGen s = true :=
  bounded_of_certificate _ Certs.tailNestedGen_I Certs.tailNestedGen_succ _ (by decide +kernel)

example : ReachN Programs.tailNestedGen 1 (Certs.tailNestedGen_I.getD 1 (init [])) :=
  .succ .zero (mem_step_of_isSucc (by decide +kernel))

end Gojq.C20

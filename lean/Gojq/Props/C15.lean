/-
  C15 — the command prints exactly what the library yields, with documented statuses.
  Property theorems only; helper lemmas are in Gojq/Proofs/Process.lean.  The model
  Gojq/Model/Cli/Process.lean transliterates cli.go `run`/`process`/`printValues`/
  `createMarshaler`, marshaler.go and the status codes of error.go; the library's outputs for
  each input, and the selected encoder's rendering of each value, are given.
-/
import Gojq.Proofs.Process
import Gojq.Proofs.Flags
namespace Gojq.C15
open Gojq Gojq.Process

/-! ## stdout -/

/-- stdout is the concatenation over the inputs, in order, of `render y ++ terminator` for the
    outputs `y` before the first error / halt of that input; input errors contribute nothing;
    nothing follows the input that halts; nothing else is ever written to stdout. -/
theorem stdout_is_concat (o : Opts) (ins : List In) :
    (process o ins {}).stdout = stdoutSpec o ins := by
  simpa using process_stdout o ins {}

/-- When nothing fails: stdout is simply every output of every input, rendered and terminated,
    in order. -/
theorem stdout_all_values (o : Opts) (vss : List (List Val))
    (hok : ∀ vs ∈ vss, ∀ v ∈ vs, (marshal o v).isSome = true) :
    (process o (vss.map fun vs => .value (vs.map .value)) {}).stdout =
      vss.flatten.flatMap fun v => (marshal o v).getD [] ++ term o := by
  rw [stdout_is_concat]
  have h1 : ∀ (vs : List Val), (∀ v ∈ vs, (marshal o v).isSome = true) →
      outPrefix o (vs.map .value) = (vs.flatMap fun v => (marshal o v).getD [] ++ term o) ∧
      firstStop o (vs.map .value) = none := by
    intro vs
    induction vs with
    | nil => intro _; simp [outPrefix, firstStop]
    | cons v vs ih =>
      intro h
      have hv := h v (by simp)
      obtain ⟨b, hb⟩ := Option.isSome_iff_exists.mp hv
      obtain ⟨i1, i2⟩ := ih (fun w hw => h w (by simp [hw]))
      simp [outPrefix, firstStop, hb, i1, i2, List.append_assoc]
  induction vss with
  | nil => simp [stdoutSpec]
  | cons vs vss ih =>
    obtain ⟨a1, a2⟩ := h1 vs (hok vs (by simp))
    simp [stdoutSpec, a1, a2, isHalt, ih (fun ws hws => hok ws (by simp [hws]))]

/-- The terminator: NUL under --raw-output0, nothing under -j, newline otherwise. -/
theorem terminator_table (o : Opts) :
    (o.raw0 = true → term o = [0]) ∧
    (o.raw0 = false → o.join = true → term o = []) ∧
    (o.raw0 = false → o.join = false → term o = [10]) := by
  refine ⟨?_, ?_, ?_⟩ <;> intros <;> simp_all [term]

/-- Rendering: under -r / -j / --raw-output0 a string is written raw (its bytes, no quotes);
    every other value, and every value without those flags, is written by the encoder. -/
theorem strings_raw (o : Opts) (v : Val) :
    (∀ s, v.str = some s → (o.raw || o.raw0 || o.join) = true → (o.raw0 = false ∨ (0 : UInt8) ∉ s) →
      marshal o v = some s) ∧
    (v.str = none → marshal o v = some v.enc) ∧
    ((o.raw || o.raw0 || o.join) = false → marshal o v = some v.enc) := by
  refine ⟨?_, ?_, ?_⟩
  · intro s hs hr hn
    simp only [marshal, hr, if_true, hs]
    rcases hn with hn | hn <;> simp [hn]
  · intro hs; simp [marshal, hs]
  · intro hr; simp [marshal, hr]

/-! ## errors, halt -/

/-- An error on one input ends that input's outputs (whatever the library would have yielded
    afterwards, `post`, is never looked at), writes one diagnostic to stderr, and the fold
    continues with the next input. -/
theorem error_continues (o : Opts) (pre post : List Out) (m : Bytes) (c : Option Int) (rest : List In) (st : St)
    (hpre : firstStop o pre = none) :
    process o (.value (pre ++ .error m c :: post) :: rest) st =
      process o rest { (printValues o pre st).1 with
        stderr := (printValues o pre st).1.stderr ++ [.diag m], lastErr := some c } := by
  simp only [process, printValues_append o pre _ st hpre, printValues]

/-- An input error (malformed document) is a diagnostic and the fold continues. -/
theorem input_error_continues (o : Opts) (rest : List In) (st : St) :
    process o (.error :: rest) st =
      process o rest { st with stderr := st.stderr ++ [.inputDiag], lastErr := some none } := rfl

/-- After `halt` / `halt_error` no further output is printed and no further input is read
    (the result does not depend on `post` or `rest`); the message goes to stderr — nothing for
    null, a string raw, any other value as JSON and a newline; the status is the requested
    code, which the operating system reports modulo 256. -/
theorem halt_stops (o : Opts) (pre post : List Out) (code : Int) (msg : HaltMsg) (rest : List In) (st : St)
    (hpre : firstStop o pre = none) :
    let fin := process o (.value (pre ++ .halt code msg :: post) :: rest) st
    fin = { (printValues o pre st).1 with
        stderr := (printValues o pre st).1.stderr ++ haltChunks msg, lastErr := some (some code) } ∧
    exitCode o fin = code ∧
    0 ≤ osStatus (exitCode o fin) ∧ osStatus (exitCode o fin) < 256 ∧ (osStatus (exitCode o fin) - code) % 256 = 0 := by
  simp only [process, printValues_append o pre _ st hpre, printValues, exitCode, osStatus, true_and]
  omega

/-- the message rule of `halt_error` -/
theorem halt_message_rule (s b : Bytes) :
    haltChunks .none = [] ∧ haltChunks (.str s) = [.raw s] ∧ haltChunks (.json b) = [.raw b, .raw [10]] :=
  ⟨rfl, rfl, rfl⟩

/-! ## exit status -/

/-- The status is a total function of the run's event list (`events`: values printed, errors,
    a final halt), decided from its end: halt code; else the LAST error's own code, 5 when it
    has none (every runtime, output and input error); else under -e: 1 if the LAST printed
    value of the whole run is null/false, 0 if it is anything else, 4 if nothing was printed;
    else 0.  An error status overrides -e's. -/
theorem exit_status_table (o : Opts) (ins : List In) :
    runStatus o .ok ins = statusSpec o (events o ins) := by
  simp only [runStatus, statusSpec]
  exact process_status o ins {} .none (by simp [Rel])

/-- Before the query runs: 2 for a flag (usage) error, 3 for a query parse / compile error,
    5 for the other start-up errors (indentation out of range, unreadable --slurpfile /
    --rawfile / -f file, invalid --argjson) — with or without -e. -/
theorem exit_status_early (o : Opts) (ins : List In) :
    runStatus o .flagError ins = 2 ∧ runStatus o .queryError ins = 3 ∧ runStatus o .otherError ins = 5 :=
  ⟨rfl, rfl, rfl⟩

/-- The table row by row. `evs` is any event list without a halt, `fs` the null/false-ness of
    the values printed after the last error. -/
theorem exit_status_rows (o : Opts) (evs : List Event) (fs : List Bool) (h : isHalted evs = false) :
    -- a halt decides, whatever happened before
    (∀ c, statusSpec o (evs ++ [.halted c]) = c) ∧
    -- otherwise the last error decides, whatever was printed before or after it, -e or not
    (∀ k, statusSpec o (evs ++ .failed k :: fs.map .printed) = k.getD 5) ∧
    -- no error at all, no -e: 0
    (o.exitStatus = false → statusSpec o (fs.map .printed) = 0) ∧
    -- no error at all, -e: by the last printed value
    (o.exitStatus = true → statusSpec o (fs.map .printed) =
      match fs.getLast? with
      | none => 4
      | some true => 1
      | some false => 0) := by
  have hnh := foldl_not_halted .none evs (by simp) h
  refine ⟨?_, ?_, ?_, ?_⟩
  · intro c
    simp only [statusSpec, List.foldl_append, List.foldl_cons, List.foldl_nil]
    cases hV : evs.foldl verdictStep .none with
    | halted c' => exact absurd hV (hnh c')
    | _ => simp [verdictStep, verdictStatus]
  · intro k
    simp only [statusSpec, List.foldl_append, List.foldl_cons]
    have hstep : verdictStep (evs.foldl verdictStep .none) (.failed k) = .failed k := by
      cases hV : evs.foldl verdictStep .none with
      | halted c' => exact absurd hV (hnh c')
      | _ => rfl
    rw [hstep, foldl_printed _ _ (by simp)]
    cases k <;> simp [afterPrinted, verdictStatus]
  · intro he
    simp only [statusSpec]
    rw [foldl_printed _ _ (by simp)]
    cases fs.getLast? <;> simp [afterPrinted, verdictStatus, he]
  · intro he
    simp only [statusSpec]
    rw [foldl_printed _ _ (by simp)]
    cases hl : fs.getLast? with
    | none => simp [afterPrinted, verdictStatus, he]
    | some f => cases f <;> simp [afterPrinted, verdictStatus, he]

/-! ## --raw-output0 -/

/-- --raw-output0 rejects a string containing NUL: it is an error instead of output — nothing
    of it (nor of the later outputs of that input) reaches stdout, one diagnostic goes to stderr,
    the fold continues with the next input and the status is that of an error. -/
theorem raw_output0_rejects_nul (o : Opts) (v : Val) (s : Bytes) (pre post : List Out) (rest : List In) (st : St)
    (h0 : o.raw0 = true) (hs : v.str = some s) (hnul : (0 : UInt8) ∈ s) (hpre : firstStop o pre = none) :
    marshal o v = none ∧
    process o (.value (pre ++ .value v :: post) :: rest) st =
      process o rest { (printValues o pre st).1 with
        stderr := (printValues o pre st).1.stderr ++ [.nulDiag], lastErr := some none } := by
  have hm : marshal o v = none := by simp [marshal, h0, hs, hnul]
  refine ⟨hm, ?_⟩
  simp only [process, printValues_append o pre _ st hpre, printValues, hm]

/-! ## flags (cli/flags.go parseFlags, Model/Cli/Flags.lean) -/

section flags
open Gojq.Flags

/-- Bundled short flags: `-rce…` made of boolean short flags means `-r -c -e …`. -/
theorem flags_bundled_shorts (st : PS) (c : Char) (cs : List Char) (tl : List Str)
    (h : ∀ d ∈ c :: cs, BoolShort d) (hd : st.optsDone = false) :
    parse st (('-' :: c :: cs) :: tl) = parse st ((c :: cs).map (fun d => ['-', d]) ++ tl) := by
  rw [parse_bundle st c cs tl h hd, parse_bools_seq (c :: cs) st tl h hd]

/-- `--flag=value` means `--flag value` for every long flag that takes a value
    (`--indent`, `--library-path`, and the name of the four map flags). -/
theorem flags_long_eq (st : PS) (v : Str) (tl : List Str) (hd : st.optsDone = false) :
    parse st (('-' :: '-' :: ("indent".toList ++ '=' :: v)) :: tl) = parse st (('-' :: '-' :: "indent".toList) :: v :: tl) ∧
    parse st (('-' :: '-' :: ("library-path".toList ++ '=' :: v)) :: tl) =
      parse st (('-' :: '-' :: "library-path".toList) :: v :: tl) ∧
    (∀ f ∈ mapFlagNames, parse st (('-' :: '-' :: (f ++ '=' :: v)) :: tl) = parse st (('-' :: '-' :: f) :: v :: tl)) :=
  ⟨parse_indent_eq st v tl hd, parse_lib_eq st v tl hd, fun f hf => parse_map_eq st f v tl hf hd⟩

/-- After `--` nothing is a flag: every later argument is a free argument, whatever it looks
    like. -/
theorem flags_double_dash (st : PS) (as : List Str) (hd : st.optsDone = false) :
    parse st (['-', '-'] :: as) = .ok (as.foldl addFree { st with optsDone := true }).out := by
  rw [parse_dashdash st as hd, parse_all_free as _ rfl]

/-- Positional capture: after `--args` the first free argument is still the query, the
    following free arguments are `$ARGS.positional`, in order. -/
theorem flags_positional_capture (q : Str) (xs : List Str) (hq : q.head? ≠ some '-')
    (hxs : ∀ x ∈ xs, x.head? ≠ some '-') :
    parseFlags ("--args".toList :: q :: xs) = .ok { rest := [q], args := xs.map some } :=
  positional_capture q xs hq hxs

/-- First binding of a name wins, across the four map flags: for any sequence of
    `--arg | --argjson | --slurpfile | --rawfile  name value` triples (names and values arbitrary
    strings, even flag-like ones), parsing succeeds, each name is bound exactly once, and
    looking a name up finds the flag and value of its FIRST occurrence on the command line;
    nothing else is set. -/
theorem flags_first_binding_wins (bs : List (Str × Str × Str)) (hbs : ∀ b ∈ bs, b.1 ∈ mapFlagNames) :
    ∃ p, parseFlags (argsOf bs) = .ok p ∧
      (∀ n, p.maps.find? (fun b => b.2.1 == n) = bs.find? (fun b => b.2.1 == n)) ∧
      p.maps.Pairwise (fun a b => a.2.1 ≠ b.2.1) ∧
      p.bools = [] ∧ p.indent = none ∧ p.libs = [] ∧ p.args = [] ∧ p.jsonargs = [] ∧ p.rest = [] := by
  have hk : KeysOK ({} : PS) := by intro n; simp
  have hp := parse_bindings bs {} [] hbs rfl
  simp only [List.append_nil] at hp
  refine ⟨(bindAll {} bs).out, ?_, ?_, ?_, ?_⟩
  · unfold parseFlags; rw [hp]; rfl
  · intro n; simpa using bindAll_find bs {} hk n
  · exact bindAll_nodup bs {} hk List.Pairwise.nil
  · obtain ⟨a1, a2, a3, a4, a5, a6⟩ := bindAll_other bs {}
    exact ⟨a1, a2, a3, a4, a5, a6⟩

example : parseFlags ["-rc".toList, "--indent=3".toList, ".".toList] =
    .ok { bools := ["raw-output".toList, "compact-output".toList], indent := some 3, rest := [".".toList] } := by rfl
example : BoolShort 'r' ∧ BoolShort 'e' := ⟨⟨_, rfl, rfl⟩, ⟨_, rfl, rfl⟩⟩
example : "arg".toList ∈ mapFlagNames := by decide

end flags

/-! Non-vacuity -/
def vNull : Val := ⟨true, none, [110, 117, 108, 108]⟩
def vStr : Val := ⟨false, some [97, 0, 98], [34, 97, 92, 117, 48, 48, 48, 48, 98, 34]⟩
def vOne : Val := ⟨false, none, [49]⟩

example : (process {} [.value [.value vOne, .error [120] (some 5), .value vOne], .error, .value [.value vNull]] {}).stdout
    = [49, 10, 110, 117, 108, 108, 10] := by decide
example : runStatus { exitStatus := true } .ok [.value [.value vOne], .value []] = 0 := by decide
example : runStatus { exitStatus := true } .ok [.value [.value vOne], .value [.value vNull]] = 1 := by decide
example : runStatus { exitStatus := true } .ok [.value []] = 4 := by decide
example : runStatus { exitStatus := true } .ok [.value [.error [] none], .value [.value vOne]] = 5 := by decide
example : runStatus {} .ok [.error, .value [.halt 256 .none], .value [.value vOne]] = 256 ∧ osStatus 256 = 0 := by decide
example : marshal { raw0 := true } vStr = none ∧ marshal { raw := true } vStr = some [97, 0, 98] := by decide
example : firstStop {} [.value vOne] = none := by decide

end Gojq.C15

/-
  C16 — input modes mean what their in-language equivalents mean.
  Property theorems only; helper lemmas are in Gojq/Proofs/Stream.lean, Proofs/Inputs.lean and
  Proofs/Fromstream.lean.  Models: Gojq/Model/Cli/Stream.lean (cli/stream.go over the decoder's
  token list; `tostream`, `fromstream`) and Gojq/Model/Cli/Inputs.lean (cli/inputs.go).
  `moreEnd` is what `Decoder.More()` answers where no further token can be read, `term` how the
  token list ends (io.EOF or another error): every statement holds for all of their values.
-/
import Gojq.Proofs.Stream
import Gojq.Proofs.Inputs
import Gojq.Proofs.Fromstream
import Gojq.Proofs.Flags
namespace Gojq.C16
open Gojq Gojq.Stream Gojq.Inputs

/-! ## --stream -/

/-- For EVERY document (top-level scalars, empty containers at any depth, siblings after
    nested closes, members in any order) the machine fed with the decoder's tokens emits
    exactly the `tostream` events of the document, then reports io.EOF; it never panics. -/
theorem stream_events (moreEnd : Bool) (v : JV) :
    run moreEnd .eof (tokens v) = (streamSpec v, .eof) := by
  obtain ⟨so, he, hp⟩ := doc_emits (me := moreEnd) (term := .eof) v init [] popEnd_init
  have := Emits.thenRuns he (runs_end so hp)
  simpa using run_of_Runs this

/-- The same for a reader holding any sequence of documents. -/
theorem stream_events_docs (moreEnd : Bool) (vs : List JV) :
    run moreEnd .eof (tokensDocs vs) = (streamSpecDocs vs, .eof) := by
  obtain ⟨so, he, hp⟩ := docs_emits (me := moreEnd) (term := .eof) vs init [] popEnd_init
  have := Emits.thenRuns he (runs_end so hp)
  simpa using run_of_Runs this

/-- `ttokens v` is the decoder's token list for `v` with each token tagged: does it complete a
    value (a scalar in value position, a closing `]` / `}`)? -/
theorem tagged_tokens (v : JV) : (ttokens v).map Prod.fst = tokens v := ttokens_fst v

/-- A truncated or malformed document: after any complete documents `vs`, for EVERY proper
    prefix `pre` of the tokens of a document `v` (non-empty, or empty with the decoder
    reporting an error rather than a clean end), the events emitted are all events of `vs`,
    then exactly the first `n` events of `v`, `n` = the number of value-completing tokens in
    `pre` — every event determined before the cut, and no other — then one error. No panic,
    whatever `More()` answers at the cut. -/
theorem stream_truncated (moreEnd : Bool) (term : Term) (vs : List JV) (v : JV) (pre suf : List (Tok × Bool))
    (hsplit : ttokens v = pre ++ suf) (hproper : suf ≠ []) (hcut : pre ≠ [] ∨ term = .err) :
    run moreEnd term (tokensDocs vs ++ pre.map Prod.fst) =
      (streamSpecDocs vs ++ (streamSpec v).take (completed pre), .error) := by
  obtain ⟨so, he, hp⟩ := docs_emits (me := moreEnd) (term := term) vs init (pre.map Prod.fst) popEnd_init
  obtain ⟨es, hr, hpre, hlen⟩ := doc_cut (me := moreEnd) (term := term) v so pre suf hp hsplit hproper hcut
  rw [run_of_Runs (Emits.thenRuns he hr), prefix_eq_take hpre, hlen]

/-- In particular the emitted events are a prefix of the document's full event list. -/
theorem stream_truncated_prefix (moreEnd : Bool) (term : Term) (v : JV) (pre suf : List (Tok × Bool))
    (hsplit : ttokens v = pre ++ suf) (hproper : suf ≠ []) (hcut : pre ≠ [] ∨ term = .err) :
    (run moreEnd term (pre.map Prod.fst)).2 = .error ∧ (run moreEnd term (pre.map Prod.fst)).1 <+: streamSpec v := by
  have h := stream_truncated moreEnd term [] v pre suf hsplit hproper hcut
  simp only [tokensDocs, streamSpecDocs, List.nil_append] at h
  rw [h]
  exact ⟨rfl, List.take_prefix _ _⟩

/-- `fromstream` rebuilds every document from the events the machine emits: for every document
    `v` whose objects are duplicate-free (members in ANY order), `fromstream` over the events
    yields exactly one value, the document in the library's canonical form (`canon`: members
    sorted by key). -/
theorem stream_rebuilds (moreEnd : Bool) (v : JV) (hv : nodup v) :
    fromstreamSpec (run moreEnd .eof (tokens v)).1 = .ok [canon v] := by
  rw [stream_events]
  have := rebuild_docs [v] (by simpa using hv) ⟨.null, false⟩ (Or.inr rfl) []
  simpa [fromstreamSpec, streamSpecDocs] using this

/-- For a document already in canonical form (`JV.wf`: keys strictly increasing at every
    depth — every value the library holds) the rebuilt value is the document itself. -/
theorem stream_rebuilds_wf (moreEnd : Bool) (v : JV) (hv : v.wf = true) :
    fromstreamSpec (run moreEnd .eof (tokens v)).1 = .ok [v] := by
  rw [stream_rebuilds moreEnd v (nodup_wf v hv), canon_wf v hv]

/-- `gojq --stream . | gojq -n 'fromstream(inputs)'` on a reader holding any sequence of
    documents yields the documents, in order. -/
theorem stream_rebuilds_docs (moreEnd : Bool) (vs : List JV) (hvs : ∀ v ∈ vs, nodup v) :
    fromstreamSpec (run moreEnd .eof (tokensDocs vs)).1 = .ok (vs.map canon) := by
  rw [stream_events_docs]
  simpa [fromstreamSpec] using rebuild_docs vs hvs ⟨.null, false⟩ (Or.inr rfl) []

/-- Under --stream the query's inputs for a well-formed reader are exactly the `tostream`
    events of its documents, in order, then end of input. -/
theorem stream_mode_inputs (vs : List JV) (r : Reader) (ht : r.toks = tokensDocs vs) (he : r.term = .eof) :
    inputIter { stream := true } [] r = (streamSpecDocs vs).map .val := by
  simp [inputIter, baseIter, perReader, streamIter, ht, he, stream_events_docs]

/-! ## -s, -n with input/inputs -/

/-- `-s .` = `-n [inputs]`: for every input mode except -R, file list and stdin, the single
    input the query sees under -s is the array `[inputs]` builds from the same iterator
    without -s; and it is the error (nothing else) exactly when `[inputs]` raises it. -/
theorem slurp_eq_inputs (m : Mode) (args : List Arg) (stdin : Reader) (hraw : m.raw = false) :
    inputIter { m with slurp := true } args stdin =
      match (drawInputs (inputIter { m with slurp := false } args stdin)).1 with
      | .ok vs => [.val (.arr vs)]
      | .error .err => [.err]
      | .error _ => [.panic] := by
  obtain ⟨raw, stream, slurp⟩ := m
  simp only at hraw
  subst hraw
  have hb : baseIter ⟨false, stream, true⟩ args stdin = baseIter ⟨false, stream, false⟩ args stdin := by
    simp [baseIter, perReader]
  simp only [inputIter, Bool.false_eq_true, if_false, if_true, hb, slurpIter, drawInputs]
  exact slurpGo_eq_draw [] _

/-- With -n, `input` and `inputs` consume the iterator strictly in order, each value exactly
    once: `k` calls of `input` return the first `k` values, `[inputs]` then returns the rest,
    and nothing is left. -/
theorem inputs_in_order (vs : List JV) (k : Nat) (hk : k ≤ vs.length) :
    drawN k (vs.map .val) = ((vs.take k).map .val, (vs.drop k).map .val) ∧
    drawInputs ((vs.drop k).map .val) = (.ok (vs.drop k), []) ∧
    vs.take k ++ vs.drop k = vs := by
  refine ⟨drawN_vals k vs hk, ?_, List.take_append_drop k vs⟩
  have := drawInputsGo_vals [] (vs.drop k) []
  simpa [drawInputs, drawInputsGo] using this

/-- The iterator the query draws from is the concatenation of the files in argument order
    (stdin where "-" is named), nothing skipped or repeated. -/
theorem files_in_order (pre post : List (List JV)) (sv : List JV) :
    inputIter {} ((pre.map fun vs => .file { docs := vs.map .value }) ++ .stdin ::
        (post.map fun vs => .file { docs := vs.map .value })) { docs := sv.map .value } =
      (pre.flatten ++ sv ++ post.flatten).map .val := by
  have hf : ∀ (vss : List (List JV)) (sr : Reader),
      filesIter (fun r => jsonIter r.docs) sr (vss.map fun vs => Arg.file { docs := vs.map .value }) =
        vss.flatten.map .val := by
    intro vss sr
    induction vss with
    | nil => rfl
    | cons vs vss ih =>
      have := jsonIter_values vs []
      simp [filesIter, ih, jsonIter] at this ⊢
      exact this
  have hg : ∀ (vss : List (List JV)) (rest : List Arg) (sr : Reader),
      filesIter (fun r => jsonIter r.docs) sr ((vss.map fun vs => Arg.file { docs := vs.map .value }) ++ rest) =
        vss.flatten.map .val ++ filesIter (fun r => jsonIter r.docs) sr rest := by
    intro vss rest sr
    induction vss with
    | nil => rfl
    | cons vs vss ih =>
      have := jsonIter_values vs []
      simp [filesIter, ih, jsonIter] at this ⊢
      simp [this]
  have hs := jsonIter_values sv []
  simp only [jsonIter, List.append_nil] at hs
  cases pre with
  | nil => simp [inputIter, baseIter, perReader, filesIter, hf, hs]
  | cons p pre =>
    have hp := jsonIter_values p []
    simp only [jsonIter, List.append_nil] at hp
    simp only [inputIter, baseIter, perReader]
    simp [hg, filesIter, hf, hs, hp]

/-- `input` past the end is an error (`break`), and stays one. -/
theorem input_past_end_error : drawInput [] = (.brk, []) ∧ drawN 2 [] = ([.brk, .brk], []) := ⟨rfl, rfl⟩

/-! ## malformed input -/

/-- A malformed document yields every complete value before it, then one error, then end of
    that reader — whatever follows the malformed document. -/
theorem malformed_tail (vs : List JV) (rest : List Doc) :
    jsonIter (vs.map .value ++ .malformed :: rest) = vs.map .val ++ [.err] := by
  simpa [jsonIter] using jsonIter_values vs (.malformed :: rest)

/-- Seen from the command (default mode, stdin only). -/
theorem malformed_tail_stdin (vs : List JV) (rest : List Doc) :
    inputIter {} [] { docs := vs.map .value ++ .malformed :: rest } = vs.map .val ++ [.err] := by
  simpa [inputIter, baseIter, perReader] using malformed_tail vs rest

/-- With several files the error ends only its own file: the next file is still read. -/
theorem malformed_then_next_file (vs ws : List JV) (rest : List Doc) (stdin : Reader) :
    inputIter {} [.file { docs := vs.map .value ++ .malformed :: rest }, .file { docs := ws.map .value }] stdin =
      vs.map .val ++ [.err] ++ ws.map .val := by
  have h2 := jsonIter_values ws []
  simp only [jsonIter, List.append_nil] at h2
  simp [inputIter, baseIter, perReader, filesIter, malformed_tail, h2]

/-- Under -s the error replaces the array (and latches). -/
theorem malformed_slurp (vs : List JV) (more : List Item) :
    slurpIter (vs.map .val ++ .err :: more) = [.err] := by
  simp [slurpIter, slurpGo_vals, slurpGo]

/-! ## -R, -Rs -/

/-- `-R` yields the lines: split at every "\n", the delimiter removed; a last line without
    newline is kept; an empty remainder is not a line. (The three equations determine
    `rawLines` on every text.) -/
theorem raw_lines :
    rawLines [] = [] ∧
    (∀ l rest : Bytes, (10 : UInt8) ∉ l → rawLines (l ++ 10 :: rest) = l :: rawLines rest) ∧
    (∀ l : Bytes, (10 : UInt8) ∉ l → l ≠ [] → rawLines l = [l]) := by
  refine ⟨rfl, ?_, ?_⟩
  · intro l rest hl
    simpa [rawLines] using splitLines_line [] l rest hl
  · intro l hl hne
    simpa [rawLines] using splitLines_last [] l hl (Or.inr hne)

/-- Under -R the query's inputs are those lines as strings. -/
theorem raw_mode_inputs (r : Reader) :
    inputIter { raw := true } [] r = (rawLines r.text).map fun l => .val (.str l) := by
  simp [inputIter, baseIter, perReader, rawIter]

/-- `-Rs` yields the whole text as one string; with files, their concatenation. -/
theorem raw_slurp_whole (r : Reader) (rs : List Reader) (stdin : Reader) (hne : rs ≠ []) :
    inputIter { raw := true, slurp := true } [] r = [.val (.str r.text)] ∧
    inputIter { raw := true, slurp := true } (rs.map .file) stdin = [.val (.str (rs.map (·.text)).flatten)] := by
  constructor
  · simp [inputIter, baseIter, perReader, readAllIter, slurpRawIter, slurpRawGo]
  · have hgo : ∀ (rs : List Reader) (acc : Bytes),
        slurpRawGo acc (rs.map readAllIter).flatten = [.val (.str (acc ++ (rs.map (·.text)).flatten))] := by
      intro rs
      induction rs with
      | nil => intro acc; simp [slurpRawGo]
      | cons r rs ih => intro acc; simp [readAllIter, slurpRawGo, ih, List.append_assoc]
    cases rs with
    | nil => exact absurd rfl hne
    | cons r0 rs =>
      have := hgo (r0 :: rs) []
      simp only [inputIter, baseIter, perReader, if_true, slurpRawIter, List.map_cons]
      rw [← List.map_cons, filesIter_files]
      simpa using this

/-! ## argument flags -/

/-- `--arg`, `--argjson`, `--slurpfile`, `--rawfile` bind names; the first binding of a name wins,
    across the four flags: looking a name up in what the flag parser keeps finds the flag and
    the value text of its first occurrence, and no name is kept twice (so `$name` and
    `$ARGS.named`, both built from these maps, agree). -/
theorem args_binding (bs : List (Flags.Str × Flags.Str × Flags.Str)) (hbs : ∀ b ∈ bs, b.1 ∈ Flags.mapFlagNames) :
    ∃ p, Flags.parseFlags (Flags.argsOf bs) = .ok p ∧
      (∀ n, p.maps.find? (fun b => b.2.1 == n) = bs.find? (fun b => b.2.1 == n)) ∧
      p.maps.Pairwise (fun a b => a.2.1 ≠ b.2.1) := by
  have hk : Flags.KeysOK ({} : Flags.PS) := by intro n; simp
  have hp := Flags.parse_bindings bs {} [] hbs rfl
  simp only [List.append_nil] at hp
  refine ⟨(Flags.bindAll {} bs).out, ?_, ?_, ?_⟩
  · unfold Flags.parseFlags; rw [hp]; rfl
  · intro n; simpa using Flags.bindAll_find bs {} hk n
  · exact Flags.bindAll_nodup bs {} hk List.Pairwise.nil

/-- `--args` and `--jsonargs`: the free arguments after the query are the positional values, in
    order (strings here; `--jsonargs` values are parsed afterwards by runInternal). -/
theorem args_positional (q : Flags.Str) (xs : List Flags.Str) (hq : q.head? ≠ some '-')
    (hxs : ∀ x ∈ xs, x.head? ≠ some '-') :
    Flags.parseFlags ("--args".toList :: q :: xs) = .ok { rest := [q], args := xs.map some } :=
  Flags.positional_capture q xs hq hxs

/-! Non-vacuity: concrete instances of the hypotheses above. -/
example : run false .eof (tokens (.arr [.num (.int 1), .arr [], .obj [(Bytes.ofString "b", .arr [.null])], .num (.int 2)])) =
    (streamSpec (.arr [.num (.int 1), .arr [], .obj [(Bytes.ofString "b", .arr [.null])], .num (.int 2)]), .eof) :=
  stream_events false _
example : run true .eof (tokensDocs [.null] ++ [.lbrack, .atom (.num (.int 1))]) =
    (streamSpecDocs [.null] ++ (streamSpec (.arr [.num (.int 1), .num (.int 2)])).take 1, .error) :=
  stream_truncated true .eof [.null] (.arr [.num (.int 1), .num (.int 2)]) [(.lbrack, false), (.atom (.num (.int 1)), true)]
    [(.atom (.num (.int 2)), true), (.rbrack, true)] rfl (by simp) (Or.inl (by simp))
example : Flags.parseFlags (Flags.argsOf [("arg".toList, ['a'], ['1']), ("argjson".toList, ['a'], ['2'])]) =
    .ok { maps := [("arg".toList, ['a'], ['1'])] } := by rfl
example : nodup (.obj [([98], .arr [.obj []]), ([97], .num (.int 1))]) := by simp [nodup, nodupM, nodupL]
example : (JV.obj [([97], .arr [.obj []]), ([98], .num (.int 1))]).wf = true := by decide
example : inputIter { slurp := true } [] { docs := [.value .null, .value (.bool true)] } = [.val (.arr [.null, .bool true])] := by
  rw [slurp_eq_inputs {} [] _ rfl]; rfl
example : rawLines [97, 10, 98] = [[97], [98]] ∧ rawLines [97, 10] = [[97]] ∧ rawLines [10] = [[]] := by decide

end Gojq.C16

/-
  C01.1 — the persistent stacks of the VM (stack.go, scope_stack.go) refine an immutable list.

  `pushfork` snapshots each stack as two integers `(index, limit)` and `popfork` puts them
  back; between the two, values are pushed and popped freely.  The theorems say that under
  the discipline the VM follows (snapshots are restored last-in first-out) this is exactly an
  immutable list with a stack of saved lists — for EVERY sequence of operations, of any length.
  Model: Model/Stack.lean (literal transliteration); invariant and simulation: Proofs/Stack.lean.
  Tie to the code: stream `stack` (drv_c01aux ⇄ the real stacks through `gojq.VerifStack` /
  `gojq.VerifScopeStack`).
-/
import Gojq.Proofs.Stack
namespace Gojq.C01Stack
open Gojq.Stack

variable {α : Type}

/-- A fresh stack (`newStack()`: no blocks, `index = limit = -1`) denotes the empty list and has
    no outstanding snapshots. -/
theorem init_inv : Inv (α := α) Stack.new [] [] [] :=
  ⟨by intro i h; simp [Stack.new] at h, by simp [Stack.new], by simp [Stack.new], by simp [Stack.new],
   by simp [Stack.new], by simp [Stack.abs, chainFrom, Stack.new, chain], by simp [SnapsOK]⟩

/-- Every history: if the list-level run of an operation sequence is defined (no pop of an empty
    list, no restore without a saved list), then the Go structure runs the same sequence without
    panicking, and afterwards the invariant holds again — the structure denotes the resulting
    list and every outstanding snapshot denotes the list saved with it. -/
theorem refines_list (ops : List (Op α)) :
    ∀ {s : Stack α} {sn cur sv}, Inv s sn cur sv → ∀ {cur' sv'},
      ops.foldlM specStep (cur, sv) = some (cur', sv') →
      ∃ s' sn', ops.foldlM implStep (s, sn) = some (s', sn') ∧ Inv s' sn' cur' sv' := by
  induction ops with
  | nil => intro s sn cur sv inv cur' sv' h; simp at h; obtain ⟨rfl, rfl⟩ := h; exact ⟨s, sn, rfl, inv⟩
  | cons op ops ih =>
    intro s sn cur sv inv cur' sv' h
    simp only [List.foldlM_cons, Option.bind_eq_bind] at h
    cases hstep : specStep (cur, sv) op with
    | none => simp [hstep] at h
    | some r =>
      obtain ⟨c1, v1⟩ := r
      rw [hstep] at h
      obtain ⟨s1, sn1, hi, inv1⟩ := step_refines inv op hstep
      obtain ⟨s2, sn2, h2, inv2⟩ := ih inv1 h
      exact ⟨s2, sn2, by simp [List.foldlM_cons, hi, h2], inv2⟩

/-- non-vacuity: a history with nested snapshots, pops below a snapshot and pushes after a
    restore (which overwrite the blocks above the limit) -/
example : [Op.push 1, .save, .push 2, .save, .pop, .pop, .push 3, .restore, .pop, .restore, .push 4].foldlM
    specStep (([] : List Nat), []) = some ([4, 1], []) := by decide

/-- The same from the initial state, after EVERY step: for each prefix of the operation
    sequence the Go structure has not panicked, denotes the list the prefix produces, and its
    outstanding snapshots denote the saved lists. -/
theorem refines_list_every_step (ops : List (Op α)) {cur sv}
    (h : ops.foldlM specStep (([] : List α), []) = some (cur, sv)) (k : Nat) :
    ∃ curk svk sk snk, (ops.take k).foldlM specStep (([] : List α), []) = some (curk, svk) ∧
      (ops.take k).foldlM implStep (Stack.new, []) = some (sk, snk) ∧ Inv sk snk curk svk := by
  have hsplit : ops = ops.take k ++ ops.drop k := (List.take_append_drop k ops).symm
  rw [hsplit, List.foldlM_append] at h
  cases hp : (ops.take k).foldlM specStep (([] : List α), []) with
  | none => simp [hp] at h
  | some r =>
    obtain ⟨curk, svk⟩ := r
    obtain ⟨sk, snk, hi, inv⟩ := refines_list (ops.take k) init_inv hp
    exact ⟨curk, svk, sk, snk, rfl, hi, inv⟩

/-- What the invariant says about snapshots, unfolded: there are as many outstanding
    snapshots as saved lists, and the `k`-th snapshot `(t, l)` still denotes the `k`-th saved
    list — the list the stack denoted when `save` returned it — whatever was pushed, popped,
    saved and restored since. -/
theorem snapshots_still_denote {s : Stack α} {sn cur sv} (inv : Inv s sn cur sv) :
    sn.length = sv.length ∧
    ∀ (k : Nat) (t l : Int) (c : List α), sn[k]? = some (t, l) → sv[k]? = some c → chainFrom s.data t = c := by
  have key : ∀ (sn : List (Int × Int)) (sv : List (List α)) (lim : Int), SnapsOK s.data lim sn sv →
      sn.length = sv.length ∧
      ∀ (k : Nat) (t l : Int) (c : List α), sn[k]? = some (t, l) → sv[k]? = some c → chainFrom s.data t = c := by
    intro sn
    induction sn with
    | nil => intro sv lim h; cases sv <;> simp_all [SnapsOK]
    | cons p sn ih =>
      intro sv lim h
      obtain ⟨t0, l0⟩ := p
      cases sv with
      | nil => simp [SnapsOK] at h
      | cons c0 sv =>
        simp only [SnapsOK] at h
        obtain ⟨_, _, _, hc, hrest⟩ := h
        obtain ⟨hl, hk⟩ := ih sv l0 hrest
        refine ⟨by simp [hl], ?_⟩
        intro k t l c h1 h2
        cases k with
        | zero => simp at h1 h2; obtain ⟨rfl, rfl⟩ := h1; subst h2; exact hc
        | succ k => simp at h1 h2; exact hk k t l c h1 h2
  exact key sn sv s.limit inv.snaps

/-- The Go structure denotes the list: `VerifStack.Chain()` is the abstract list. -/
theorem abs_is_list {s : Stack α} {sn cur sv} (inv : Inv s sn cur sv) : s.abs = cur := inv.abs_eq

/-- `pop` never panics when the abstract list is non-empty, and it returns its head. -/
theorem pop_never_panics_when_spec_nonempty {s : Stack α} {sn x cur sv} (inv : Inv s sn (x :: cur) sv) :
    ∃ s', s.pop = some (x, s') ∧ Inv s' sn cur sv := by
  obtain ⟨s', sn', hi, inv'⟩ := step_refines inv .pop (cur' := cur) (sv' := sv) rfl
  simp only [implStep, Option.map_eq_some_iff] at hi
  obtain ⟨⟨y, s''⟩, hp, he⟩ := hi
  simp only [Prod.mk.injEq] at he
  obtain ⟨rfl, rfl⟩ := he
  have hy : y = x := by
    have hab := inv.abs_eq
    simp only [Stack.pop] at hp
    cases hg : getBlock? s.data s.index with
    | none => simp [hg] at hp
    | some b =>
      simp only [hg, Option.some.injEq, Prod.mk.injEq] at hp
      obtain ⟨rfl, _⟩ := hp
      by_cases hneg : s.index < 0
      · simp [getBlock?_neg hneg] at hg
      · have e : (s.index + 1).toNat = s.index.toNat + 1 := by omega
        simp only [Stack.abs, chainFrom, e, chain, hg, List.cons.injEq] at hab
        exact hab.1
  subst hy
  exact ⟨s'', hp, inv'⟩

/-- `top` returns the head of the abstract list (no panic when it is non-empty). -/
theorem top_is_head {s : Stack α} {sn x cur sv} (inv : Inv s sn (x :: cur) sv) : s.top = some x := by
  obtain ⟨s', hp, _⟩ := pop_never_panics_when_spec_nonempty inv
  simp only [Stack.pop, Stack.top] at hp ⊢
  cases hg : getBlock? s.data s.index with
  | none => simp [hg] at hp
  | some b => simp only [hg, Option.some.injEq, Prod.mk.injEq] at hp ⊢; exact hp.1

/-- `empty()` answers whether the abstract list is empty. -/
theorem empty_iff_nil {s : Stack α} {sn cur sv} (inv : Inv s sn cur sv) : s.empty = cur.isEmpty := by
  cases cur with
  | nil =>
    have hab := inv.abs_eq
    by_cases hneg : s.index < 0
    · simp [Stack.empty, hneg]
    · have e : (s.index + 1).toNat = s.index.toNat + 1 := by omega
      have := inv.idx_hi
      simp [Stack.abs, chainFrom, e, chain, getBlock?_of_lt (by omega : 0 ≤ s.index) inv.idx_hi] at hab
  | cons x cur =>
    have hab := inv.abs_eq
    by_cases hneg : s.index < 0
    · simp [Stack.abs, chainFrom, chain_neg _ _ hneg] at hab
    · simp [Stack.empty, hneg]

/-- `push` never panics. -/
theorem push_never_panics {s : Stack α} {sn cur sv} (inv : Inv s sn cur sv) (v : α) :
    ∃ s', s.push v = some s' ∧ Inv s' sn (v :: cur) sv := by
  obtain ⟨s', sn', hi, inv'⟩ := step_refines inv (.push v) (cur' := v :: cur) (sv' := sv) rfl
  simp only [implStep, Option.map_eq_some_iff] at hi
  obtain ⟨s'', hp, he⟩ := hi
  simp only [Prod.mk.injEq] at he
  obtain ⟨rfl, rfl⟩ := he
  exact ⟨s'', hp, inv'⟩

example : Inv (α := Nat) Stack.new [] [] [] := init_inv

/-- The discipline is needed: restoring an OLDER snapshot while a more recent one is still
    outstanding, pushing, and then restoring the recent one loses data.  After
    `push 1; A := save; push 2; B := save`, snapshot `B` denotes `[2, 1]`; after
    `restore A; push 3; restore B` it denotes `[3, 1]` — the push after the out-of-order restore
    overwrote the block holding `2`.  (The VM never does this: forks are a stack.) -/
theorem restore_non_lifo_counterexample : nonLifoRun = some ([2, 1], [3, 1]) := by decide

/-- `scope_stack.go` is the same code at element type `scope`: the refinement theorem holds for
    it as an instance. -/
theorem scope_stack_refines_list (ops : List (Op Scope)) {cur sv}
    (h : ops.foldlM specStep (([] : List Scope), []) = some (cur, sv)) :
    ∃ (s : ScopeStack) (sn : List (Int × Int)),
      ops.foldlM implStep ((Stack.new : ScopeStack), []) = some (s, sn) ∧ Inv s sn cur sv :=
  refines_list ops init_inv h

end Gojq.C01Stack

/-
  C05.1 / C06 — the OTHER write sites: natives that build their result by writing into a container
  they allocate (`funcOpAdd` on arrays and objects, `add`, `flatten`, `transpose`, `reverse`, `sort`,
  `unique`, `group_by`, `sort_by`/`unique_by`/`group_by` with key arrays, `deepMergeObjects`), natives that
  only read (`min_by`, `max_by`, `join`, `implode`), and array construction (`opappend`).

  Model: Gojq/Model/HeapWriters.lean — each native as a `Writer` over the labelled trees of
  Gojq/Model/Heap.lean: argument values and the label counter in; result tree, counter after the
  allocations and the LOG of the writes out.  Tied to the real natives by the `heap` stream
  (harness/cmd/c05, operation `F`: the natives are called through `gojq.VerifNatives()` on values with
  aliased substructure and spare capacity; compared: which cells of the result are new and which are
  cells of the arguments, and — model-free — that no cell that existed before the call changed, its
  full backing array included).  Helper lemmas: Gojq/Proofs/HeapWriters.lean.

  One uniform treatment: `FreshWriter w` — whenever `w` returns a value it allocated fresh cells, wrote
  ONLY into them, and its result consists of fresh cells and parts of its arguments (where the code
  returns an argument unchanged — `[] + x`, `x + null` — : an existing cell, no write).
  `fresh_writers_confined`: every writer of that shape leaves every pre-existing value unchanged and is
  `WriteConfined` in the sense of C06.  Then one short lemma per native: its model has the shape.
  `opappend` has the shape only for an accumulator that is the construction's own
  (`array_construction_confined`); appended to an argument with spare capacity it writes the argument
  (`append_into_spare_capacity_writes_argument`) — the mutation the stream is there to catch.
-/
import Gojq.Proofs.HeapWriters
import Gojq.Props.C05
namespace Gojq.C05Writers
open Gojq Gojq.Heap

/-- **Fresh writers are confined** (C05.1 for every native of the shape).  If `w` is a `FreshWriter`
    and returns `t` with log `log` from counter `f`, then
    (1) every write of the call goes to a cell the call allocated itself (label `≥ f`);
    (2) every value that existed before the call — an argument, the input, a variable value, a code
        constant, an emitted value: labels below `f` — is unchanged, through whatever reference it is
        seen, under the plain and the exact last-write-wins replay;
    (3) every cell of the result is a cell of an argument or was allocated by the call. -/
theorem fresh_writers_confined (w : Writer) (hw : FreshWriter w) (args : List T) (f : Nat) (t : T) (f' : Nat) (log : Log)
    (h : w args f = .ok t f' log) :
    (∀ e ∈ log, f ≤ e.1) ∧
    (∀ s : T, (∀ j ∈ s.ids, j < f) → applyLog log s = s ∧ ∀ fuel, observe log fuel s = s) ∧
    (∀ j ∈ t.ids, j ∈ argIds args ∨ (f ≤ j ∧ j < f')) := by
  have g := hw args f t f' log h
  refine ⟨fun e he => (g.hlog e he).1, ?_, g.hids⟩
  intro s hs
  exact C05.shared_unchanged s f log hs (fun e he => (g.hlog e he).1)

/-- **… and `WriteConfined`** (the premise of C06's `confined_runs_commute`): a call of a fresh writer,
    seen as a step of a run that owns the labels from its counter on, changes no cell outside that
    region. -/
theorem fresh_writer_write_confined (w : Writer) (hw : FreshWriter w) (args : List T) (f : Nat) :
    (writerSys w args f).WriteConfined := by
  intro i s h a hn
  simp only [writerSys] at hn ⊢
  cases hr : w args f with
  | err => rfl
  | scalar => rfl
  | ok t f' log =>
    simp only [writeH]
    have g := hw args f t f' log hr
    rw [lastWrite_none log a (fun e he heq => hn (heq ▸ (g.hlog e he).1))]

/-! ### each native has the shape -/

/-- `funcOpAdd` on arrays, objects and `null` (`_add`, `+`, and through it `range`, `add`'s fallthrough):
    a new cell, or one of the operands itself -/
theorem opadd_fresh : FreshWriter wOpAdd := wOpAdd_fresh

/-- `add`: the accumulator is a copy of the first array / a clone of the first object — a cell of its
    own; later arrays are appended (in place while it has spare capacity), later objects copied into it -/
theorem add_fresh : FreshWriter wAdd := wAdd_fresh

/-- `flatten`, `flatten(depth)` -/
theorem flatten_fresh (d : Option Nat) : FreshWriter (wFlatten d) := wFlatten_fresh d

/-- `transpose`: a new outer array and a new array per row -/
theorem transpose_fresh : FreshWriter wTranspose := wTranspose_fresh

theorem reverse_fresh : FreshWriter wReverse := wReverse_fresh

/-- `sort` (`sortBy` ∘ `sortItems`; `sort_by`, `min_by`… share the helper) -/
theorem sort_fresh : FreshWriter wSort := wSort_fresh

theorem unique_fresh : FreshWriter wUnique := wUnique_fresh

/-- `group_by`: a new outer array and a new array per group -/
theorem group_by_fresh : FreshWriter wGroupBy := wGroupBy_fresh

/-- `_sort_by`, `_unique_by`, `_group_by` with an array of keys -/
theorem sort_by_fresh : FreshWriter wSortBy := wSortBy_fresh
theorem unique_by_fresh : FreshWriter wUniqueBy := wUniqueBy_fresh
theorem group_by_keys_fresh : FreshWriter wGroupByK := wGroupByK_fresh

/-- `_min_by`, `_max_by` (`minMaxBy`; `min`, `max`): an element of the array, nothing allocated, nothing written -/
theorem min_max_by_fresh (isMin : Bool) : FreshWriter (wMinMaxBy isMin) := wMinMaxBy_fresh isMin

/-- `deepMergeObjects` (`*` on objects): a new map at every level where both sides hold an object; the
    values that are not merged are shared with the operands, not copied -/
theorem deep_merge_fresh : FreshWriter wDeepMerge := wDeepMerge_fresh

/-- `opobject` (object construction `{…}`): a new map; the values are shared with the stack, not copied.
    (Modelled and proved; not called by the `heap` stream — there is no hook for a single instruction — :
    tied by the isolation oracle only.) -/
theorem object_construction_fresh : FreshWriter wObject := wObject_fresh

/-- `join`, `implode`: no cell is returned, none is written -/
theorem join_implode_fresh : FreshWriter wScalar := wScalar_fresh

/-- all of them at once: every write site of the list is confined -/
theorem listed_writers_confined (w : Writer)
    (hw : w ∈ [wOpAdd, wAdd, wFlatten none, wFlatten (some 0), wFlatten (some 1), wFlatten (some 2), wTranspose,
      wReverse, wSort, wUnique, wGroupBy, wScalar, wSortBy, wUniqueBy, wGroupByK, wMinMaxBy true, wMinMaxBy false,
      wDeepMerge])
    (args : List T) (f : Nat) (t : T) (f' : Nat) (log : Log) (h : w args f = .ok t f' log) :
    (∀ e ∈ log, f ≤ e.1) ∧
    (∀ s : T, (∀ j ∈ s.ids, j < f) → applyLog log s = s ∧ ∀ fuel, observe log fuel s = s) := by
  have hfw : FreshWriter w := by
    simp only [List.mem_cons, List.not_mem_nil, or_false] at hw
    rcases hw with rfl | rfl | rfl | rfl | rfl | rfl | rfl | rfl | rfl | rfl | rfl | rfl | rfl | rfl | rfl | rfl | rfl | rfl
    · exact opadd_fresh
    · exact add_fresh
    · exact flatten_fresh _
    · exact flatten_fresh _
    · exact flatten_fresh _
    · exact flatten_fresh _
    · exact transpose_fresh
    · exact reverse_fresh
    · exact sort_fresh
    · exact unique_fresh
    · exact group_by_fresh
    · exact join_implode_fresh
    · exact sort_by_fresh
    · exact unique_by_fresh
    · exact group_by_keys_fresh
    · exact min_max_by_fresh _
    · exact min_max_by_fresh _
    · exact deep_merge_fresh
  have g := fresh_writers_confined w hfw args f t f' log h
  exact ⟨g.1, g.2.1⟩

/-! ### returning an argument -/

/-- `[] + x` and `x + []`, `{} + x` and `x + {}`, `null + x` and `x + null` return THE OTHER OPERAND — the
    same cell, not a copy — and write nothing (so `. + []` has the identity of `.`, which the path
    tracking of C02 observes) -/
theorem opadd_returns_argument (id c : Nat) (x : T) (f : Nat) :
    wOpAdd [.leaf .null, x] f = .ok x f [] ∧
    wOpAdd [.node id false c [], .node 7 false 3 [([], x)]] f = .ok (.node 7 false 3 [([], x)]) f [] ∧
    wOpAdd [.node 7 false 3 [([], x)], .node id false c []] f = .ok (.node 7 false 3 [([], x)]) f [] ∧
    wOpAdd [.node id true c [], .node 7 true 0 [([97], x)]] f = .ok (.node 7 true 0 [([97], x)]) f [] := by
  refine ⟨?_, rfl, rfl, rfl⟩
  cases x with
  | leaf s => cases s <;> rfl
  | hole => rfl
  | node i o' c' ks => cases o' <;> rfl

/-! ### array construction -/

/-- **Array construction `[…]` is confined**: the accumulator starts from the constant `[]any{}` —
    capacity 0, nothing can be written into it — or, generally, from any array WITHOUT spare capacity;
    however many elements are appended (`opappend`), every write goes to a cell allocated by the
    construction (the first `append` allocates, later ones write into that cell's spare capacity or
    allocate again), and every pre-existing value is unchanged. -/
theorem array_construction_confined (xs : List T) (id c : Nat) (ks : Kids) (f : Nat)
    (hfull : c ≤ ks.length) (s : T) (hs : ∀ j ∈ s.ids, j < f) :
    let a := appendAll xs (.node id false c ks) f []
    (∀ e ∈ a.2.2, f ≤ e.1) ∧ applyLog a.2.2 s = s ∧ ∀ fuel, observe a.2.2 fuel s = s := by
  have g := appendAll_good ((id :: idsK ks) ++ (xs.map T.ids).flatten) f xs id c ks f [] (Nat.le_refl _) (by simp)
    (Or.inr ⟨hfull, by simp⟩) (fun j hj => Or.inl (by simp [hj]))
    (fun x hx j hj => by
      apply List.mem_append_right
      simp only [List.mem_flatten, List.mem_map]
      exact ⟨x.ids, ⟨x, hx, rfl⟩, hj⟩)
  have hl : ∀ e ∈ (appendAll xs (.node id false c ks) f []).2.2, f ≤ e.1 := fun e he => (g.hlog e he).1
  exact ⟨hl, C05.shared_unchanged s f _ hs hl⟩

/-- **Why the accumulator must be the construction's own.**  `append(acc, x)` on an array that existed
    before and has spare capacity writes INTO it: `opappend` on its own is not a fresh writer.  (This is
    what a native would do that adopted its first argument as accumulator, or `funcOpAdd` written as
    `append(l, r...)`: the `heap` stream reports both, see the seeded changes.) -/
theorem append_into_spare_capacity_writes_argument : ¬ FreshWriter wAppend := by
  intro h
  have hr : wAppend [.node 3 false 2 [([], T.null)], .leaf (.bool true)] 10 =
      .ok (.node 3 false 2 [([], T.null), ([], .leaf (.bool true))]) 10 [(3, [([], T.null), ([], .leaf (.bool true))])] := rfl
  have g := h _ _ _ _ _ hr
  have := (g.hlog (3, [([], T.null), ([], .leaf (.bool true))]) (List.mem_singleton.mpr rfl)).1
  omega

/-! ### non-vacuity: the models on concrete heaps -/

def n (i : Int) : T := .leaf (.num (.int i))

/-- `[[1],[2,3]] | add`: the accumulator is a COPY of `[1]` (cell 10, not cell 1), `[2,3]` does not fit
    its capacity 1: a second new cell 11; nothing that existed is written -/
example : (match wAdd [.node 0 false 2 [([], .node 1 false 1 [([], n 1)]), ([], .node 2 false 2 [([], n 2), ([], n 3)])]] 10 with
    | .ok t f log => some (abs t, t.ids, f, log.map (·.1))
    | _ => none) = some (.arr [.num (.int 1), .num (.int 2), .num (.int 3)], [11], 12, [10, 11]) := by rfl

/-- `[[1],[2]] | group_by(.)`… on `[2,1,2]`: outer cell 10, groups 11 and 12 -/
example : (match wGroupBy [.node 0 false 3 [([], n 2), ([], n 1), ([], n 2)]] 10 with
    | .ok t f log => some (abs t, t.ids, f, log.map (·.1))
    | _ => none) = some (.arr [.arr [.num (.int 1)], .arr [.num (.int 2), .num (.int 2)]], [10, 11, 12], 13, [11, 12, 10]) := by rfl

/-- `[[1,2],[3]] | transpose` = `[[1,3],[2,null]]`; the inner arrays of the argument are not part of the result -/
example : (match wTranspose [.node 0 false 2 [([], .node 1 false 2 [([], n 1), ([], n 2)]), ([], .node 2 false 1 [([], n 3)])]] 10 with
    | .ok t f _ => some (abs t, t.ids, f)
    | _ => none) = some (.arr [.arr [.num (.int 1), .num (.int 3)], .arr [.num (.int 2), .null]], [10, 11, 12], 13) := by rfl

/-- `[[1,[2]],3] | flatten(1)`: the inner `[2]` (cell 2) is an element of the new array 10 — shared, not copied -/
example : (match wFlatten (some 1) [.node 0 false 2 [([], .node 1 false 2 [([], n 1), ([], .node 2 false 1 [([], n 2)])]), ([], n 3)]] 10 with
    | .ok t f _ => some (abs t, t.ids, f)
    | _ => none) = some (.arr [.num (.int 1), .arr [.num (.int 2)], .num (.int 3)], [10, 2], 11) := by
  simp [wFlatten, valuesOf, flatK, arrOrEmpty, allocArr, n, abs, absA, T.ids, idsK, Sc.toJV]

/-- `[3,1,2] | sort`, `reverse`, `unique` of `[1,1]` -/
example : (match wSort [.node 0 false 3 [([], n 3), ([], n 1), ([], n 2)]] 10 with
    | .ok t _ _ => some (abs t) | _ => none) = some (.arr [.num (.int 1), .num (.int 2), .num (.int 3)]) := by rfl
example : (match wReverse [.node 0 false 3 [([], n 3), ([], n 1), ([], n 2)]] 10 with
    | .ok t _ _ => some (abs t) | _ => none) = some (.arr [.num (.int 2), .num (.int 1), .num (.int 3)]) := by rfl
example : (match wUnique [.node 0 false 2 [([], n 1), ([], n 1)]] 10 with
    | .ok t _ _ => some (abs t) | _ => none) = some (.arr [.num (.int 1)]) := by rfl

/-- `{"a":{"x":1},"b":2} * {"a":{"y":3}}`: the outer map 10 and the merged inner map 11 are new, the inner maps
    of the operands (1 and 3) are not part of the result -/
example : (match wDeepMerge [.node 0 true 0 [([97], .node 1 true 0 [([120], n 1)]), ([98], n 2)],
      .node 2 true 0 [([97], .node 3 true 0 [([121], n 3)])]] 10 with
    | .ok t f log => some (abs t, t.ids, f, log.map (·.1))
    | _ => none) = some (.obj [([97], .obj [([120], .num (.int 1)), ([121], .num (.int 3))]), ([98], .num (.int 2))], [10, 11], 12, [11, 10]) := by
  simp [wDeepMerge, mergeKids.eq_def, splitKey, kidsInsert, Bytes.cmp, n, abs, absO, T.ids, idsK, Sc.toJV]

/-- `min_by` returns the element itself: cell 1, no allocation -/
example : (match wMinMaxBy true [.node 0 false 2 [([], .node 1 false 0 []), ([], n 5)], .node 2 false 2 [([], n 1), ([], n 2)]] 10 with
    | .ok t f log => some (t.ids, f, log.length)
    | _ => none) = some ([1], 10, 0) := by rfl

/-- array construction from the constant `[]any{}` (cell 0, capacity 0): `[true, null, true, null]`: the
    first three appends allocate (capacities 1, 2, 4), the fourth writes cell 12 in place; the constant is
    not written -/
example : (appendAll [.leaf (.bool true), T.null, .leaf (.bool true), T.null] (.node 0 false 0 []) 10 []).2.2.map (·.1) =
    [10, 11, 12, 12] := by
  simp [appendAll, appendTo, growCap]

end Gojq.C05Writers

/-
  C05 / C02 item 4 / C06 — SLICE paths: `setpath`, `delpaths` and `|=` through path elements
  `{"start":…,"end":…}` (func.go `updateArraySlice`, the slice branch of `funcGetpathWithAllocator`).

  Model: Gojq/Model/HeapSlice.lean (`updS`, `markS`, `getpReleaseS`, `modifyStepS`, `modifyAllS`;
  defining value semantics `getpathS`, `setpathS`, `modifyVS`), an extension of Gojq/Model/Heap.lean: a
  slice `v[start:end:end]` is a second header onto the cell of `v` — it carries the LABEL of `v` when it
  has the address of `v` (`start = 0`, or capacity 0), a label from the counter otherwise.  Tied to the
  real natives by the `heap` stream (harness/cmd/c05: slice elements in `S`/`s`/`G`/`D`/`d` operations,
  addresses, capacities, in-place writes `W=`, dead registrations `Z=`).  Helper lemmas:
  Gojq/Proofs/HeapSlice*.lean.

  The theorems say, for every path made of keys, indices AND slices (nested, overlapping, empty,
  negative and out-of-range bounds, `null` bounds, slices of `null`):
    * every in-place write goes to a cell registered in the allocator or allocated by the same call
      (`write_confined_slices`, `delpaths_slices_write_confined`), hence nothing that existed before a
      reduction started is changed (`setpath_isolated_slices`, `emitted_stable_slices`, `code_readonly_slices`);
    * under label uniqueness the in-place writes are unobservable and the result is `setpath`
      (`upd_unobservable_slices`); every iteration of `_modify` re-establishes the invariant
      (`invariant_preserved_slices`); `delpaths` through slices denotes mark-then-sweep on plain values
      (`delpaths_slices_refines`); `_modify` IN FULL — outputs stored, paths with an `empty` update query
      collected and deleted at the end — computes its defining reduction (`modify_refines_slices`);
    * `_assign` (`paths = $x`) computes its defining reduction and is isolated (`assign_refines_slices`,
      `assign_isolated_slices`);
    * every registered cell is live (`registered_cells_live_slices`) — FALSE of the tree before bcc8a71,
      which this model found (`dead_registration_before_bcc8a71`; replay in known-findings.txt).
    * `delpaths` through slices deletes, all at once, the positions the paths denote in the ORIGINAL
      value, in any order (C02 item 3: `delpaths_slices_original_indices`, `delpaths_slices_order_irrelevant`;
      `normP p v` = the key/index paths a path with slices denotes in `v`).
-/
import Gojq.Proofs.HeapSliceChain
import Gojq.Proofs.HeapSliceDel
import Gojq.Proofs.HeapSliceSpec
import Gojq.Proofs.HeapSliceOld
import Gojq.Props.C05
namespace Gojq.C05Slices
open Gojq Gojq.Heap

/-- **`update` through slices writes only owned cells** (C05.1, `write_confined` for paths with
    slices), without any assumption on labels: a cell written in place was registered in the allocator
    BEFORE the call or was allocated by the call itself (the copy of a view, written and then dropped),
    and so is every cell registered afterwards. -/
theorem write_confined_slices (p : PathS) (v n : T) (A : List Nat) (f : Nat) (v' : T) (A' : List Nat) (f' : Nat) (log : Log)
    (h : updS A f p v n = some (v', A', f', log)) :
    (∀ e ∈ log, e.1 ∈ A ∨ (f ≤ e.1 ∧ e.1 < f')) ∧ (∀ a ∈ A', a ∈ A ∨ (f ≤ a ∧ a < f')) :=
  have hc := updS_confined p v n A f _ h
  ⟨hc.2.2, hc.2.1⟩

/-- the same with labels in use below the counter and owned labels unique: every cell written in place
    was registered BEFORE the call and is a cell of `v` — a container on the path, or the array a slice
    element cuts (written through the slice: `rebase`) -/
theorem write_confined_slices_owned (p : PathS) (v n : T) (A : List Nat) (f : Nat) (v' : T) (A' : List Nat) (f' : Nat) (log : Log)
    (h : updS A f p v n = some (v', A', f', log)) (H : Hyp A f v n) :
    (∀ e ∈ log, e.1 ∈ A ∧ e.1 ∈ v.ids) ∧ (∀ a ∈ A', a ∈ A ∨ (f ≤ a ∧ a < f')) :=
  have R := updS_res p v n A f _ h H
  ⟨R.logA, R.hA1⟩

/-- **`delpaths` through slices writes only owned cells** (C05.1): the marking pass (`update` with the
    placeholder, in place or into copies, whole slices marked element by element) and `deleteEmpty`
    store only into cells that were registered in the allocator passed in or were allocated by the call. -/
theorem delpaths_slices_write_confined (A : List Nat) (f : Nat) (ps : List PathS) (v : T)
    (v' : T) (A' : List Nat) (f' : Nat) (log : Log) (sw : List Nat)
    (h : delpathsST A f ps v = some (v', A', f', log, sw)) :
    (∀ e ∈ log, e.1 ∈ A ∨ (f ≤ e.1 ∧ e.1 < f')) ∧ (∀ a ∈ sw, a ∈ A ∨ (f ≤ a ∧ a < f')) ∧
    (∀ a ∈ A', a ∈ A ∨ (f ≤ a ∧ a < f')) := by
  simp only [delpathsST] at h
  split at h
  · simp only [Option.some.injEq, Prod.mk.injEq] at h
    obtain ⟨rfl, rfl, rfl, rfl, rfl⟩ := h
    exact ⟨by simp, by simp, fun a ha => Or.inl ha⟩
  · split at h
    · cases h
    · rename_i u A1 f1 log1 hm
      simp only [Option.some.injEq, Prod.mk.injEq] at h
      obtain ⟨rfl, rfl, rfl, rfl, rfl⟩ := h
      obtain ⟨_, h2, h3⟩ := markAllS_confined (A0 := A) (f0 := f) ps v A f [] _ hm (by simp)
        (fun a ha => Or.inl ha) (Nat.le_refl _)
      exact ⟨h3, fun a ha => h2 a (sweepWrites_sub A1 u a ha), h2⟩

/-- a `setpath` with a fresh allocator (the natives `setpath`, and what `_assign`/`_modify` start from)
    through any path with slices leaves every pre-existing value unchanged: input, variable values,
    code constants, emitted values — seen through every reference, under both replays -/
theorem setpath_isolated_slices (p : PathS) (v n t : T) (f : Nat) (v' : T) (A' : List Nat) (f' : Nat) (log : Log)
    (h : updS [] f p v n = some (v', A', f', log)) (ht : ∀ j ∈ t.ids, j < f) :
    applyLog log t = t ∧ ∀ fuel, observe log fuel t = t := by
  apply C05.shared_unchanged t f log ht
  intro e he
  rcases (write_confined_slices p v n [] f v' A' f' log h).1 e he with h3 | h3
  · cases h3
  · exact h3.1

/-- the same for `delpaths` with a fresh allocator: neither the marking pass nor the sweep touches a
    pre-existing cell -/
theorem delpaths_isolated_slices (ps : List PathS) (v t : T) (f : Nat) (v' : T) (A' : List Nat) (f' : Nat) (log : Log) (sw : List Nat)
    (h : delpathsST [] f ps v = some (v', A', f', log, sw)) (ht : ∀ j ∈ t.ids, j < f) :
    (applyLog log t = t ∧ ∀ fuel, observe log fuel t = t) ∧ ∀ a ∈ sw, a ∉ t.ids := by
  obtain ⟨h1, h2, _⟩ := delpaths_slices_write_confined [] f ps v v' A' f' log sw h
  refine ⟨C05.shared_unchanged t f log ht (fun e he => ?_), ?_⟩
  · rcases h1 e he with h | h
    · cases h
    · exact h.1
  · intro a ha hm
    rcases h2 a ha with h | h
    · cases h
    · have := ht a hm; omega

/-- **In-place updates through slices are unobservable** (C02.4, `upd_unobservable` for paths with
    slices).  If every owned label occurs at most once in `v`, the owned part of `v` is top-closed below
    the root and the inserted value holds no owned label, then replaying the logged in-place writes —
    writes through a view included — through every reference of the result changes nothing, with the
    plain replay and with the exact last-write-wins replay; the result denotes `setpathS`; every written
    cell was owned. -/
theorem upd_unobservable_slices (p : PathS) (v n : T) (A : List Nat) (f : Nat) (v' : T) (A' : List Nat) (f' : Nat) (log : Log)
    (h : updS A f p v n = some (v', A', f', log)) (H : Hyp A f v n) :
    applyLog log v' = v' ∧ (∀ fuel, observe log fuel v' = v') ∧
    setpathS p (abs v) (abs n) = some (abs v') ∧ (∀ e ∈ log, e.1 ∈ A) :=
  have R := updS_res p v n A f _ h H
  ⟨applyLog_id log v' R.cons, fun fuel => observe_id log fuel v' R.cons, updS_abs p v n A f _ h,
   fun e he => (R.logA e he).1⟩

/-- whenever `update` returns, its value is `setpathS`'s, without any hypothesis on labels: slices are
    cut with Go's `clampIndex`, the elements of the updated view replace the elements of the range, the
    result of updating a view must be an array -/
theorem upd_denotes_setpath_slices (p : PathS) (v n : T) (A : List Nat) (f : Nat) r (h : updS A f p v n = some r) :
    setpathS p (abs v) (abs n) = some (abs r.1) := updS_abs p v n A f r h

/-- on paths without slice elements the extended model IS the model of Props/C05.lean, C02Heap.lean -/
theorem updS_extends_upd (p : Path) (v n : T) (A : List Nat) (f : Nat) :
    updS A f (p.map PE.toS) v n = upd A f p v n := updS_toS p v n A f

/-- **The invariant is re-established by every iteration of `_modify`, paths with slices**: owned
    labels unique, owned part top-closed, counter above all labels.  The iteration's in-place writes
    are unobservable and hit only cells owned before it; its result denotes
    `setpath(p; getpath(p) | q)`, where the value handed to the update query is the released value, or
    the released CLONE when `p` ends with a slice (622959f). -/
theorem invariant_preserved_slices (q : T → Nat → T × Nat) (hq : QOK q) (v : T) (A : List Nat) (f : Nat) (p : PathS)
    (v' : T) (A' : List Nat) (f' : Nat) (log : Log)
    (h : modifyStepS q (v, A, f) p = some (v', A', f', log)) (inv : Inv A f v) :
    Inv A' f' v' ∧ applyLog log v' = v' ∧ (∀ e ∈ log, e.1 ∈ A) ∧
    ∃ x A1 f1, getpReleaseS A f p v = some (x, A1, f1) ∧ getpathS p (abs v) = some (abs x) ∧
      setpathS p (abs v) (abs (q x f1).1) = some (abs v') := by
  obtain ⟨i1, hc, hl, hx, _⟩ := modifyStepS_sound q hq v A f p v' A' f' log h inv
  exact ⟨i1, applyLog_id log v' hc, hl, hx⟩

/-- **`delpaths` through slice paths refines mark-then-sweep on plain values** (C02.4 for `delpaths`,
    `del(.[a:b])`, and the deferred deletions of `|=`): func.go's `delpaths` with an allocator — every
    path marked with the placeholder through `update`, in place in owned containers and through views of
    owned arrays, into registered copies otherwise, whole slices marked element by element, arrays that
    carried marked elements dropped and unregistered; then `deleteEmpty` over the owned containers —
    returns, whenever it succeeds, what the same two passes compute on a plain value without allocator,
    labels and in-place writes (`delpathsVS`), for every list of paths of keys, indices and slices, every
    allocator below the counter and every value without placeholders. -/
theorem delpaths_slices_refines (A : List Nat) (f : Nat) (ps : List PathS) (v : T) r
    (hfree : holeFree v) (hv : ∀ j ∈ v.ids, j < f) (hA : ∀ a ∈ A, a < f) (h : delpathsST A f ps v = some r) :
    delpathsVS ps (abs v) = some (abs r.1) :=
  delpathsST_abs A f ps v r hfree hv hA h

/-- on paths WITHOUT slices `delpathsVS` is the structural `delpaths` of Model/Heap.lean ("the positions the
    paths denote in the original value", C02Heap.delpaths_original_indices), whenever it succeeds -/
theorem delpaths_slices_extends_delpaths (ps : List Path) (w z : JV) (hwf : JV.wf w = true)
    (h : delpathsVS (ps.map (List.map PE.toS)) w = some z) : z = delpaths ps w :=
  delpathsVS_plain ps w z hwf h

/-- **Mark-then-sweep through slice paths deletes the positions that the paths denote in the ORIGINAL
    value** (C02 item 3 for slices, `delpaths_original_indices`): a path with slices denotes in a value
    the key/index paths `normP p v` — every slice resolved with `clampIndex` against the length of the
    array it cuts, a slice at the end of a path denoting every index of its range —; marking replaces
    elements by placeholders and never changes a length or a key, so every path of the list is resolved
    as in the original value however many paths were marked before it; func.go's `delpaths` — with its
    allocator, in-place writes, views and copies — returns, whenever it succeeds, the structural
    `delpaths` of Model/Heap.lean for the denoted key/index paths: all positions removed at once. -/
theorem delpaths_slices_original_indices (A : List Nat) (f : Nat) (ps : List PathS) (v : T) r
    (hfree : holeFree v) (hwf : JV.wf (abs v) = true) (hv : ∀ j ∈ v.ids, j < f) (hA : ∀ a ∈ A, a < f)
    (h : delpathsST A f ps v = some r) :
    abs r.1 = delpaths (ps.flatMap (normP · (abs v))) (abs v) :=
  delpathsVS_spec ps (abs v) (abs r.1) hwf (delpathsST_abs A f ps v r hfree hv hA h)

/-- … hence **independently of the order of the paths**: whenever two orders of the same slice/index/key
    paths both succeed, with whatever allocators, `delpaths` returns the same value -/
theorem delpaths_slices_order_irrelevant (A A' : List Nat) (f f' : Nat) (ps ps' : List PathS) (v : T) r r'
    (hfree : holeFree v) (hwf : JV.wf (abs v) = true) (hv : ∀ j ∈ v.ids, j < f) (hA : ∀ a ∈ A, a < f)
    (hv' : ∀ j ∈ v.ids, j < f') (hA' : ∀ a ∈ A', a < f') (hp : ps.Perm ps')
    (h : delpathsST A f ps v = some r) (h' : delpathsST A' f' ps' v = some r') : abs r.1 = abs r'.1 := by
  rw [delpaths_slices_original_indices A f ps v r hfree hwf hv hA h,
    delpaths_slices_original_indices A' f' ps' v r' hfree hwf hv' hA' h']
  exact delpaths_perm _ _ _ (List.Perm.flatMap_right _ hp)

/-- ⟦full⟧ C02.4 for paths of keys, indices and slices: `_modify` in full — for every list of paths and
    every update query that at each path either yields an output or is `empty` (the path is then
    collected and all collected paths are deleted at the end by `_delpaths`), started with an empty
    allocator on a value without placeholders — computes the defining reduction `modifyVFullS` (jq 1.7's
    `_modify`: first output stored with `setpath`, deferred `delpaths`). -/
def modify_refines_slices_statement : Prop :=
  ∀ (q : T → Nat → Option (T × Nat)) (qv : JV → Option JV), QOK' q →
    (∀ x f, (q x f).map (fun r => abs r.1) = qv (abs x)) →
    ∀ (ps : List PathS) (v : T) (f : Nat) (r : T), (∀ j ∈ v.ids, j < f) → holeFree v →
      modifyFullS q ps v f = some r → modifyVFullS qv ps (abs v) = some (abs r)

/-- **`_modify` refines its defining reduction, paths with slices** — `modify_refines_slices`, the full
    statement: for every list of paths, in any order and however they overlap — a slice and an index
    into it, a slice and the same slice again (D5's second witness), slices that share capacity with the
    array they cut (D3), slices that grow or shrink the array, paths through values stored by earlier
    updates, paths whose update query is `empty` —, and every update query that builds its output from
    parts of its input and containers of its own or is `empty` (`QOK'`), the allocator-based reduction
    with its in-place writes, writes through views, `release`/clone before each query, `free` of every
    array it drops and its final mark-then-sweep `_delpaths` returns exactly what the reduction over
    plain values returns.  (`delpathsVS`, the two passes on plain values, deletes the positions the paths
    denote in the value it is applied to: `delpaths_slices_original_indices`.) -/
theorem modify_refines_slices : modify_refines_slices_statement := by
  intro q qv hq habs ps v f r hv hf h
  exact modifyFullS_sound q qv hq habs ps v f hv hf r h

/-- the update-only fragment (every path gets an output), from an empty allocator -/
theorem modify_refines_slices_updates_only (q : T → Nat → T × Nat) (qv : JV → JV) (hq : QOK q)
    (habs : ∀ x f, abs (q x f).1 = qv (abs x)) (ps : List PathS) (v : T) (f : Nat) (r : T × List Nat × Nat)
    (hv : ∀ j ∈ v.ids, j < f) (h : modifyAllS q ps (v, [], f) = some r) :
    modifyVS qv ps (abs v) = some (abs r.1) :=
  (modifyAllS_sound q qv hq habs ps v [] f r (inv_empty v f hv) h).1

/-- the same from any state satisfying the invariant, with the invariant re-established at the end -/
theorem modify_refines_slices_from_invariant (q : T → Nat → T × Nat) (qv : JV → JV) (hq : QOK q)
    (habs : ∀ x f, abs (q x f).1 = qv (abs x)) (ps : List PathS) (v : T) (A : List Nat) (f : Nat)
    (r : T × List Nat × Nat) (inv : Inv A f v) (h : modifyAllS q ps (v, A, f) = some r) :
    modifyVS qv ps (abs v) = some (abs r.1) ∧ Inv r.2.1 r.2.2 r.1 :=
  have hs := modifyAllS_sound q qv hq habs ps v A f r inv h
  ⟨hs.1, hs.2.1⟩

/-- **Emitted values are stable, paths with slices** (C05.2): a value that exists when a `_modify`
    reduction starts (labels below the starting counter) is unchanged by every in-place write of every
    iteration, for every list of paths with slices and every update query. -/
theorem emitted_stable_slices (q : T → Nat → T × Nat) (hq : QOK q) (v t : T) (f : Nat)
    (hv : ∀ j ∈ v.ids, j < f) (ht : ∀ j ∈ t.ids, j < f) (p : PathS) (ps : List PathS)
    (r1 : T × List Nat × Nat) (h1 : modifyAllS q ps (v, [], f) = some r1)
    (v' : T) (A' : List Nat) (f' : Nat) (log : Log)
    (h2 : modifyStepS q r1 p = some (v', A', f', log)) :
    applyLog log t = t ∧ ∀ fuel, observe log fuel t = t := by
  obtain ⟨inv1, _, hrange, _⟩ := modifyAllS_inv q hq ps v [] f r1 (inv_empty v f hv) h1
  obtain ⟨_, _, hlog, _⟩ := modifyStepS_sound q hq r1.1 r1.2.1 r1.2.2 p v' A' f' log h2 inv1
  apply C05.shared_unchanged t f log ht
  intro e he
  rcases hrange e.1 (hlog e he) with h | h
  · cases h
  · exact h.1

/-- **Code is read-only, paths with slices** (the premise `WriteConfined` of C06's
    `confined_runs_commute` for `_modify` through slices): a reduction started with an empty allocator
    and a counter `f` above every cell in existence writes, at any of its steps, only cells with labels
    `≥ f` — cells it allocated itself. -/
theorem code_readonly_slices (q : T → Nat → T × Nat) (hq : QOK q) (v : T) (f : Nat)
    (hv : ∀ j ∈ v.ids, j < f) (p : PathS) (ps : List PathS)
    (r1 : T × List Nat × Nat) (h1 : modifyAllS q ps (v, [], f) = some r1)
    (v' : T) (A' : List Nat) (f' : Nat) (log : Log)
    (h2 : modifyStepS q r1 p = some (v', A', f', log)) :
    ∀ e ∈ log, f ≤ e.1 := by
  obtain ⟨inv1, _, hrange, _⟩ := modifyAllS_inv q hq ps v [] f r1 (inv_empty v f hv) h1
  obtain ⟨_, _, hlog, _⟩ := modifyStepS_sound q hq r1.1 r1.2.1 r1.2.2 p v' A' f' log h2 inv1
  intro e he
  rcases hrange e.1 (hlog e he) with h | h
  · cases h
  · exact h.1

/-! ### `_assign` (`paths = $x`) -/

/-- **`_assign` refines its defining reduction** (C02.4 for `=`; paths of keys, indices and slices —
    for paths without slices `updS` is `upd`, `updS_extends_upd`): `reduce path(paths) as $p (.; setpath($p; $x))`
    run with one allocator for the whole reduction — containers on the paths copied once and then
    written in place, arrays cut by slices written in place when the length is unchanged — returns
    exactly what the reduction over plain values returns, for every list of paths in any order and however
    they overlap, when the value `$x` and the input exist before the reduction starts (labels below the
    starting counter: `$x` is evaluated first, `compileAssign`).  Nothing is released here: the subtrees
    an assignment replaces stay registered although dead — harmless for `_assign`, which never places a
    container allocated after its start into the value (see checks.d/C05.json `assumptions`). -/
theorem assign_refines_slices (n : T) (ps : List PathS) (v : T) (f : Nat) (r : T × List Nat × Nat)
    (hv : ∀ j ∈ v.ids, j < f) (hn : ∀ j ∈ n.ids, j < f) (h : assignAllS n ps (v, [], f) = some r) :
    assignVS (abs n) ps (abs v) = some (abs r.1) :=
  (assignAllS_sound n f hn ps v [] f r (inv_empty v f hv) (Nat.le_refl _) (by simp) h).1

/-- **`_assign` is isolated**: whatever the paths and values — no hypothesis on labels beyond an empty
    allocator at the start —, every in-place write of every iteration goes to a cell allocated since the
    reduction started; so the input, `$x`, constants and emitted values are unchanged
    (`C05.shared_unchanged`) -/
theorem assign_isolated_slices (n : T) (pre : List PathS) (p : PathS) (v : T) (f : Nat)
    (r1 : T × List Nat × Nat) (h1 : assignAllS n pre (v, [], f) = some r1)
    (r : T × List Nat × Nat × Log) (h2 : updS r1.2.1 r1.2.2 p r1.1 n = some r)
    (t : T) (ht : ∀ j ∈ t.ids, j < f) :
    (∀ e ∈ r.2.2.2, f ≤ e.1) ∧ applyLog r.2.2.2 t = t ∧ ∀ fuel, observe r.2.2.2 fuel t = t := by
  have hw := assignAllS_writes n f (pre ++ [p]) v [] f (Nat.le_refl _) (by simp) pre p rfl r1 h1 r h2
  exact ⟨hw, C05.shared_unchanged t f _ ht hw⟩

/-- `[0,1,2,3] | (.[1:3], .[0]) = [9]` on the model: `[9,9,3]`… the slice is replaced by the ELEMENTS of
    `$x`, then index 0 of the result is assigned -/
example : (assignAllS (.node 5 false 1 [([], .leaf (.num (.int 9)))]) [[.slice (some 1) (some 3)], [.idx 0]]
      (.node 0 false 4 [([], .leaf (.num (.int 0))), ([], .leaf (.num (.int 1))), ([], .leaf (.num (.int 2))), ([], .leaf (.num (.int 3)))], [], 10)).map
      (fun r => abs r.1) = some (.arr [.arr [.num (.int 9)], .num (.int 9), .num (.int 3)]) := by rfl

/-! ### registered cells are live -/

/-- **Every registered label occurs in the current value**, throughout a `_modify` reduction started
    with an empty allocator, for every list of paths with slices and every update query.  This is what
    makes fresh labels a faithful model of Go addresses (the address of a collected array can be handed
    out again): the subtree — or the elements of the slice — an update replaces has been released before
    (622959f), an owned array that is re-allocated is unregistered (abb84a0, also through a view that
    has the address of the array), and the array that carried the elements of an updated slice is
    unregistered when it is dropped (bcc8a71). -/
theorem registered_cells_live_slices (q : T → Nat → T × Nat) (hq : QOK q) (ps : List PathS) (v : T) (f : Nat)
    (r : T × List Nat × Nat) (hv : ∀ j ∈ v.ids, j < f) (h : modifyAllS q ps (v, [], f) = some r) :
    ∀ a ∈ r.2.1, a ∈ r.1.ids :=
  (modifyAllS_inv q hq ps v [] f r (inv_empty v f hv) h).2.2.2 (by simp)

/-- a single `update` through slices: a registered cell that is no longer reachable was registered
    before and was dead already or sat in the part that was replaced -/
theorem update_keeps_registered_live_slices (p : PathS) (v n : T) (A : List Nat) (f : Nat) v' A' f' log
    (h : updS A f p v n = some (v', A', f', log)) (H : Hyp A f v n) :
    ∀ a ∈ A', a ∉ v'.ids → a ∈ A ∧ (a ∉ v.ids ∨ a ∈ replG p v) :=
  (updS_res p v n A f _ h H).live

/-- `[1,2,3]` in the unowned cell 0, label counter 10 -/
def arr123 : T := .node 0 false 3 [([], .leaf (.num (.int 1))), ([], .leaf (.num (.int 2))), ([], .leaf (.num (.int 3)))]

/-- **The defect this model found** (repaired by bcc8a71; C02/C05, sibling of D14).  In the tree before
    the repair `[1,2,3] | setpath([{"start":1,"end":3}, 0]; 9)` with an allocator left the array
    `[9,3]` — allocated by `updateArrayIndex` for the view `v[1:3:3]`, whose elements
    `updateArraySlice` then copied into the result — REGISTERED although nothing refers to it: label 11 is
    in the allocator and not in the value.  The Go runtime hands the address of such a dead array to a
    later allocation; when that is an array built by the update query of `|=`, it is taken for owned and
    updated in place although referenced twice (observed: thousands of wrong elements in
    `[range(20000)|[0,null,0]] | (.[][1:][0], .[][1:][0][0][0]) |= ([.,1] as $y|[$y,$y])`). -/
theorem dead_registration_before_bcc8a71 :
    ∃ v' A' f' log, updS0 [] 10 [.slice (some 1) (some 3), .idx 0] arr123 (.leaf (.num (.int 9))) = some (v', A', f', log) ∧
      11 ∈ A' ∧ 11 ∉ v'.ids :=
  ⟨_, _, _, _, rfl, by decide, by decide⟩

/-- the same update on the model of the repaired code: the only registered cell is the result -/
theorem no_dead_registration_after_bcc8a71 :
    (updS [] 10 [.slice (some 1) (some 3), .idx 0] arr123 (.leaf (.num (.int 9)))).map
      (fun r => (r.1.ids, r.2.1)) = some ([12], [12]) := by rfl

/-! ### non-vacuity -/

/-- the update query `[., .]` -/
def dup : T → Nat → T × Nat := fun x f => (.node f false 2 [([], x), ([], x)], f + 1)

theorem dup_ok : QOK dup := by
  intro x f
  refine ⟨Nat.le_succ f, ?_⟩
  intro j hj
  simp only [dup, T.ids, idsK, List.append_nil, List.mem_cons, List.mem_append] at hj
  rcases hj with rfl | hj | hj
  · exact Or.inr ⟨Nat.le_refl _, Nat.lt_succ_self _⟩
  · exact Or.inl hj
  · exact Or.inl hj

/-- the update query `7` -/
def seven : T → Nat → T × Nat := fun _ f => (.leaf (.num (.int 7)), f)

def num (i : Int) : JV := .num (.int i)
def arr0123 : T := .node 0 false 4 [([], .leaf (.num (.int 0))), ([], .leaf (.num (.int 1))), ([], .leaf (.num (.int 2))), ([], .leaf (.num (.int 3)))]

/-- D3's witness `[0,1,2,3] | (.[2], .[0:1][1]) |= 7` on the model of the repaired code: the value of the
    defining reduction `[0,7,1,7,3]` (the tree before abf8186 gave `[0,7,7,7,3]`: the view `.[0:1]` of the
    owned copy kept the capacity of the whole array and index 1 was written in place) -/
example : (modifyAllS seven [[.idx 2], [.slice (some 0) (some 1), .idx 1]] (arr0123, [], 10)).map (fun r => abs r.1) =
    some (.arr [num 0, num 7, num 1, num 7, num 3]) := by rfl

/-- D5's second witness `[0,1] | (.[1:], .[1:]) |= [.]`… with `[., .]`: no cyclic value, the value of the
    defining reduction -/
example : (modifyAllS dup [[.slice (some 1) none], [.slice (some 1) none]]
      (.node 0 false 2 [([], .leaf (.num (.int 0))), ([], .leaf (.num (.int 1)))], [], 10)).map (fun r => abs r.1) =
    some (.arr [num 0, .arr [.arr [num 1], .arr [num 1]], .arr [.arr [num 1], .arr [num 1]]]) := by rfl

/-- `[0,1,2,3] | (.[1:3], .[0]) |= empty` on the model: both paths are collected and deleted at the end —
    `[3]` (as jq 1.7; the slice is marked element by element in the copy made for it) -/
example : (modifyFullS (fun _ _ => none) [[.slice (some 1) (some 3)], [.idx 0]] arr0123 10).map abs =
    some (.arr [num 3]) := by rfl

/-- `[0,1,2,3] | (.[1:3], .[0]) |= (if type == "array" then empty else 7 end)`-like: `empty` on the slice, an
    output at the index; the value-level reduction gives the same -/
example : (modifyFullS (fun x f => match x with | .node _ _ _ _ => none | _ => some (.leaf (.num (.int 7)), f))
      [[.slice (some 1) (some 3)], [.idx 0]] arr0123 10).map abs = some (.arr [num 7, num 3]) := by rfl
example : modifyVFullS (fun x => match x with | .arr _ => none | _ => some (num 7))
      [[.slice (some 1) (some 3)], [.idx 0]] (.arr [num 0, num 1, num 2, num 3]) = some (.arr [num 7, num 3]) := by
  simp [modifyVFullS, modifyVAuxS, getpathS, setpathS, sliceV, sliceBounds, clampIndex, resolve, num, delpathsVS,
    markAllHS, markHS, specB, specBA, subPaths, sweepV, sweepVA, scOf, Sc.toJV]

/-- the hypotheses of `upd_unobservable_slices` are satisfiable with owned cells present and the write
    going THROUGH A VIEW in place: the owned array 5 = `[1,2,3]`, path `.[0:2][1]` -/
example : Hyp [5] 10 (.node 5 false 3 [([], .leaf (.num (.int 1))), ([], .leaf (.num (.int 2))), ([], .leaf (.num (.int 3)))]) (.leaf (.bool true)) where
  uniq := by intro a ha; simp at ha; subst ha; simp [T.ids, idsK]
  tck := by intro x hx; simp [kidsOf] at hx; rcases hx with rfl | rfl | rfl <;> trivial
  hnA := by simp [T.ids]
  hv := by intro j hj; simp [T.ids, idsK] at hj; omega
  hn := by simp [T.ids]
  hA := by intro a ha; simp at ha; omega

/-- … and the write is logged for cell 5 with its FULL content (the element behind the view included) -/
example : (updS [5] 10 [.slice (some 0) (some 2), .idx 1]
      (.node 5 false 3 [([], .leaf (.num (.int 1))), ([], .leaf (.num (.int 2))), ([], .leaf (.num (.int 3)))])
      (.leaf (.bool true))).map (fun r => (abs r.1, r.2.1, r.2.2.2.map (fun e => (e.1, absA e.2)))) =
    some (.arr [num 1, .bool true, num 3], [5], [(5, [num 1, .bool true, num 3]), (5, [num 1, .bool true, num 3])]) := by rfl

/-- an index beyond a view that has the address of the owned array 5 re-allocates the view and
    UNREGISTERS cell 5 (`a.free` on the view's address, observed on the real code): the result is a new
    array, nothing is written in place -/
example : (updS [5] 10 [.slice (some 0) (some 2), .idx 2]
      (.node 5 false 3 [([], .leaf (.num (.int 1))), ([], .leaf (.num (.int 2))), ([], .leaf (.num (.int 3)))])
      (.leaf (.bool true))).map (fun r => (abs r.1, r.1.ids, r.2.1, r.2.2.2.length)) =
    some (.arr [num 1, num 2, .bool true, num 3], [11], [11], 0) := by rfl

/-- `delpaths([[{"start":1,"end":3}]])` on the unowned `[0,1,2,3]`: the marking pass copies, the sweep
    writes the copy only -/
example : (delpathsST [] 10 [[.slice (some 1) (some 3)]] arr0123).map (fun r => (abs r.1, r.2.2.2.1.map (·.1), r.2.2.2.2)) =
    some (.arr [num 0, num 3], [], [11]) := by rfl

example : setpathS [.slice (some 1) none, .idx 0] (.arr [num 1, num 2, num 3]) (num 9) = some (.arr [num 1, num 9, num 3]) := by rfl
example : getpathS [.slice (some (-2)) none, .idx 0] (.arr [num 1, num 2, num 3]) = some (num 2) := by rfl
example : Inv [] 10 arr0123 := inv_empty _ _ (by intro j hj; simp [arr0123, T.ids, idsK] at hj; omega)

/-- `normP` on `[0,1,2,3]`: `.[1:3]` denotes the indices 1 and 2, `.[1:][-1]` the index 3, `.[1:][:1]` the index 1 -/
example : normP [.slice (some 1) (some 3)] (.arr [num 0, num 1, num 2, num 3]) = [[.idx 1], [.idx 2]] := by
  simp [normP, sliceBounds, clampIndex, List.range, List.range.loop]
example : normP [.slice (some 1) none, .idx (-1)] (.arr [num 0, num 1, num 2, num 3]) = [[.idx 3]] := by
  simp [normP, sliceBounds, clampIndex, sliceV, resolve, shiftIdx, num]
example : normP [.slice (some 1) none, .slice none (some 1)] (.arr [num 0, num 1, num 2, num 3]) = [[.idx 1]] := by
  simp [normP, sliceBounds, clampIndex, sliceV, shiftIdx, List.range, List.range.loop]

end Gojq.C05Slices

/-
  C07 — cancellation is prompt, prefix-consistent and terminal.
  Property theorems only; helper lemmas are in Gojq/Proofs/VM.lean and Gojq/Proofs/VMExec.lean.

  The model `Gojq/Model/VM.lean` transliterates `(*env).Next` (execute.go) and runs the real
  bytecode; `P.cancelled : Nat → Bool` is the answer of `<-ctx.Done()` at the k-th poll (one poll
  at the top of every instruction, numbered across `Next` calls); `P.ext` are the results of the
  calls out of the loop (natives, Go iterators, pathIntact), arbitrary here.  All theorems hold
  for ARBITRARY code, states and oracles unless a hypothesis says otherwise, at every fuel.
  The model follows the code WITH the fix of D7/D7b (exhaustion sets `pc = len(codes)`;
  `opiter` pushes `emptyIter{}` before raising `invalidPathIterError`).
-/
import Gojq.Proofs.VM
import Gojq.Proofs.VMReentry
namespace Gojq.C07
open Gojq Gojq.VM

/-! ### 1. prompt -/

/-- If the poll at the top of an instruction finds the context cancelled, that instruction is not
    executed: the call in progress returns the context error at once, whatever the fuel, and the
    environment is untouched except `forks = nil`, `pc = len(codes)` (and the deferred
    `backtrack = true`). -/
theorem cancel_prompt (P : Params) (fuel : Nat) (l : L) (s : St)
    (hpc : 0 ≤ l.pc ∧ l.pc < P.code.size) (hc : P.cancelled s.polls = true) :
    loop P fuel l s =
      (.ctxErr, { env := { s.env with forks := [], pc := P.code.size, backtrack := true }, polls := s.polls + 1 }) := by
  have hst := step_cancelled P l s hpc hc
  cases fuel with
  | zero => rw [loop_zero, hst]; rfl
  | succ n => rw [loop_succ, hst]; rfl

/-- The same for a whole `Next` call: if the call consulted a poll `k` at which the context was
    cancelled, it returned the context error, `k` is the last poll it made (nothing ran after it),
    no earlier poll of the call was cancelled, and it left `forks = []`, `pc = |code|`. -/
theorem cancel_prompt_call (P : Params) (fuel : Nat) (s : St) (o : Outcome) (s' : St)
    (h : next P fuel s = (o, s')) (k : Nat) (hk1 : s.polls ≤ k) (hk2 : k < s'.polls)
    (hc : P.cancelled k = true) :
    o = .ctxErr ∧ s'.polls = k + 1 ∧ s'.env.forks = [] ∧ s'.env.pc = P.code.size ∧
      ∀ j, s.polls ≤ j → j < k → P.cancelled j = false := by
  obtain ⟨a, b, c, d⟩ := loop_cancel_seen P fuel _ s o s' h k hk1 hk2 hc
  exact ⟨a, b, c.2, c.1, d⟩

/-! ### 2. prefix-consistent -/

/-- Step for step identical up to poll `k`: as long as the reference run (poll oracle `P`) has
    not gone past poll `k`, a run whose oracle `Q` agrees with `P` below `k` returns the same
    outcomes and is in the same state, call after call. -/
theorem cancel_lockstep (P Q : Params) (hcode : P.code = Q.code) (hext : P.ext = Q.ext) (k : Nat)
    (hlt : ∀ j, j < k → P.cancelled j = Q.cancelled j) (fuel : Nat) :
    ∀ (n : Nat) (s : St), (after P fuel n s).polls ≤ k →
      history Q fuel n s = history P fuel n s ∧ after Q fuel n s = after P fuel n s := by
  intro n
  induction n with
  | zero => intro s _; exact ⟨rfl, rfl⟩
  | succ n ih =>
    intro s h
    have hmono : (next P fuel s).2.polls ≤ (after P fuel n (next P fuel s).2).polls := after_polls_mono P fuel n _
    have hnext : next Q fuel s = next P fuel s := by
      unfold next
      have he : entry Q s = entry P s := by simp [entry, hcode]
      rw [he]
      apply loop_agree P Q hcode hext
      intro j _ hj2
      apply hlt
      have hj2' : j < (next P fuel s).2.polls := hj2
      simp only [after] at h
      omega
    simp only [history, after, hnext]
    have := ih (next P fuel s).2 (by simpa [after] using h)
    exact ⟨by rw [this.1], this.2⟩

/-- The history of a run cancelled at poll `k` (and not before) is: the first `m` outcomes of the
    never-cancelled history — exactly the calls that finished by poll `k` —, then one context
    error, then `(nil, false)` for ever.  `m` is determined by the reference run alone. -/
theorem cancel_prefix (P Q : Params) (hcode : P.code = Q.code) (hext : P.ext = Q.ext) (k : Nat)
    (hP : ∀ j, P.cancelled j = false)
    (hQ1 : ∀ j, j < k → Q.cancelled j = false) (hQ2 : Q.cancelled k = true) (fuel : Nat) :
    ∀ (n : Nat) (s : St), s.polls ≤ k →
      ∃ m, m ≤ n ∧ (after P fuel m s).polls ≤ k ∧ (m < n → k < (after P fuel (m + 1) s).polls) ∧
        history Q fuel n s =
          (history P fuel n s).take m ++
            (if m < n then Outcome.ctxErr :: List.replicate (n - m - 1) Outcome.done else []) := by
  have hlt : ∀ j, j < k → P.cancelled j = Q.cancelled j := fun j hj => by rw [hP, hQ1 j hj]
  intro n
  induction n with
  | zero => intro s hs; exact ⟨0, Nat.le_refl _, hs, fun h => absurd h (Nat.lt_irrefl _), by simp [history]⟩
  | succ n ih =>
    intro s hs
    by_cases hle : (next P fuel s).2.polls ≤ k
    · -- this call finishes by poll k: identical in both runs
      have h1 := cancel_lockstep P Q hcode hext k hlt fuel 1 s (by simpa [after] using hle)
      have hnext : next Q fuel s = next P fuel s := by
        have a := h1.1; have b := h1.2
        simp only [history, after] at a b
        exact Prod.ext (by simpa using a) b
      obtain ⟨m, hm1, hm2, hm3, hm4⟩ := ih (next P fuel s).2 hle
      refine ⟨m + 1, Nat.succ_le_succ hm1, by simpa [after] using hm2, fun h => ?_, ?_⟩
      · simpa [after] using hm3 (Nat.lt_of_succ_lt_succ h)
      · simp only [history, hnext, List.take_succ_cons, List.cons_append, hm4]
        have e2 : n + 1 - (m + 1) - 1 = n - m - 1 := by omega
        by_cases hmn : m < n
        · simp [hmn, e2]
        · simp [hmn]
    · -- this call goes past poll k in the reference run: cancelled here
      have hgt : k < (next P fuel s).2.polls := Nat.lt_of_not_le hle
      have he : entry Q s = entry P s := by simp [entry, hcode]
      obtain ⟨s', h1, _, h3⟩ := loop_cancel_at P Q hcode hext k hlt hQ2 fuel (entry P s) s hs hgt
      have hnext : next Q fuel s = (.ctxErr, s') := by unfold next; rw [he]; exact h1
      refine ⟨0, Nat.zero_le _, hs, fun _ => by simpa [after] using hgt, ?_⟩
      simp only [history, hnext, List.take_zero, List.nil_append, Nat.zero_lt_succ, if_true]
      rw [terminal_history Q s' h3 fuel n]
      simp

/-! ### 3. terminal after cancellation -/

/-- After `Next` has returned the context error, every later call returns `(nil, false)` — at
    every fuel, whatever the context and the natives answer later; in particular no panic. -/
theorem cancel_terminal (P : Params) (fuel : Nat) (s s' : St) (h : next P fuel s = (.ctxErr, s'))
    (Q : Params) (hcode : Q.code = P.code) (fuel' n : Nat) :
    history Q fuel' n s' = List.replicate n Outcome.done := by
  have ht := (loop_fin_terminal P fuel _ s _ s' h).2 rfl
  exact terminal_history Q s' (by unfold Terminal at *; rw [hcode]; exact ht.1) fuel' n

/-! ### 4. terminal after exhaustion (true of the FIXED code) -/

/-- After `Next` has returned `(nil, false)` it returns `(nil, false)` for ever: the saved `pc` is
    `len(codes)` and there is no fork, so no instruction is ever re-entered. -/
theorem exhausted_terminal (P : Params) (fuel : Nat) (s s' : St) (h : next P fuel s = (.done, s'))
    (Q : Params) (hcode : Q.code = P.code) (fuel' n : Nat) :
    history Q fuel' n s' = List.replicate n Outcome.done := by
  have ht := (loop_fin_terminal P fuel _ s _ s' h).1 rfl
  exact terminal_history Q s' (by unfold Terminal at *; rw [hcode]; exact ht) fuel' n

/-! ### 5. after an error -/

/-- The fork/stack invariant under which the next theorem holds (`EnvInv`: the data stack
    satisfies stack.go's representation invariant, every pending fork points at a fork-like
    instruction and into the stack, and a fork pushed by `opiter` has a value to restore) holds
    in every state reachable from `execute` by `Next` calls — for arbitrary code and oracles. -/
theorem reachable_invariant (P : Params) (fuel : Nat) (input : V) (vars : List V) (n : Nat) :
    EnvInv P (after P fuel n (initSt input vars)).env :=
  after_inv P fuel n _ (initSt_inv P input vars)

/-- ⟦full⟧ After an error value has been emitted, the next `Next` call does not panic.  Not provable
    for arbitrary code as stated (whatever runs after the re-entry may panic for its own reasons,
    e.g. `oppop` on an empty stack in hand-written code); kept as the target. -/
def after_error_advancable_statement : Prop :=
  ∀ (P : Params) (fuel : Nat) (input : V) (vars : List V) (n : Nat) (e : Err) (s' : St),
    next P fuel (after P fuel n (initSt input vars)) = (.error e, s') →
    ∀ (Q : Params), Q.code = P.code → ∀ fuel' site, (next Q fuel' s').1 ≠ .panic site

/-- Proved part: the RE-ENTRY itself is safe.  When a call returns an error, the saved `pc` is
    either past the end or at an opcode that can `break loop`, and the first turn of the next call
    — the re-entered instruction, with `backtrack = true` and no error — is not a panic:
      * for every such opcode except `opiter`/`opforklabel` the re-entry does not even look at the
        state (it breaks again, or `opfork` jumps to its alternative: `error("x"), 1` yields `1`);
      * for `opiter` the pop at its head succeeds: the top is either what the last popped fork
        restored or the `emptyIter{}` pushed before `iteratorError`/`invalidPathIterError` (the D7b fix);
    and the invariant is re-established for the following calls.
    GAP: (1) `opforklabel` pops the value beneath the label when re-entered; that it exists is a
    property of compiled code (the input is always beneath), not of arbitrary code. (2) What runs
    after the re-entered instruction is ordinary execution and is not covered here. -/
theorem after_error_advancable_partial (P : Params) (fuel : Nat) (s : St) (hinv : EnvInv P s.env)
    (e : Err) (s' : St) (h : next P fuel s = (.error e, s')) :
    EnvInv P s'.env ∧ 0 ≤ s'.env.pc ∧ ∀ (Q : Params), Q.code = P.code →
      match Q.code[s'.env.pc.toNat]? with
      | some .iter => ∃ v e1, pop s'.env = .ok v e1
      | some (.forklabel _ _) => True
      | _ => ∀ site st, step Q (entry Q s') s' ≠ .fin (.panic site) st := by
  have hl := loop_inv P fuel (entry P s) s hinv (entry_linv P s)
  have hbt : s'.env.backtrack = true := by
    have := loop_backtrack P fuel (entry P s) s
    unfold next at h; rw [h] at this; exact this
  unfold next at h
  rw [h] at hl
  obtain ⟨hE, hR⟩ := hl
  obtain ⟨hpc, hR⟩ := hR e rfl
  refine ⟨hE, hpc, fun Q hcode => ?_⟩
  rw [hcode]
  have hentry : (entry Q s').pc = s'.env.pc ∧ (entry Q s').backtrack = true ∧ (entry Q s').err = none :=
    ⟨rfl, hbt, rfl⟩
  cases hc : P.code[s'.env.pc.toNat]? with
  | none =>
    -- past the end: nothing is re-entered
    simp only
    intro site st hst
    have hge : ¬ ((entry Q s').pc < (Q.code.size : Int)) := by
      rw [hentry.1, hcode]
      intro hlt
      have : s'.env.pc.toNat < P.code.size := (Int.toNat_lt hpc).mpr hlt
      simp [this] at hc
    unfold step at hst
    simp only [hge, if_false] at hst
    exact unwind_no_panic Q _ _ site st hst
  | some ins =>
    obtain ⟨hb, hi⟩ := hR ins hc
    have hlt : s'.env.pc < (Q.code.size : Int) := by
      rw [hcode]
      have := (Array.getElem?_eq_some_iff.mp hc).1
      exact (Int.toNat_lt hpc).mp this
    have hgetD : Q.code.getD (entry Q s').pc.toNat .bad = ins := by
      rw [hentry.1, hcode]; simp [Array.getD, (Array.getElem?_eq_some_iff.mp hc).1, (Array.getElem?_eq_some_iff.mp hc).2]
    have generic : ins ≠ .iter → (∀ a b, ins ≠ .forklabel a b) →
        ∀ site st, step Q (entry Q s') s' ≠ .fin (.panic site) st := by
      intro h1 h2 site st
      apply step_no_panic_of_exec Q (entry Q s') s' (by rw [hentry.1]; exact hpc) (by rw [hentry.1]; exact hlt)
      rw [hgetD]
      obtain ⟨ctl, l', hex⟩ := breaker_reentry ins hb h1 h2 (Q.ext s'.polls) (entry Q s') s'.env hentry.2.1 hentry.2.2
      exact ⟨_, _, hex⟩
    cases ins with
    | iter => exact iter_reentry_pop s'.env (hi rfl)
    | forklabel a b => trivial
    | _ => exact generic (by intro h; cases h) (by intro a b h; cases h)

/-- `opiter`'s own error branches leave `emptyIter{}` on the stack (the fix of D7b, and what the
    `iteratorError` branch always did): on a well-formed stack, when `opiter`, entered without a
    pending error, breaks the loop with an error and has pushed no fork, the top is poppable. -/
theorem opiter_error_balanced (x : ExtRec) (l : L) (e : Env) (l' : L) (e' : Env) (hw : StackWF e.stack)
    (hno : l.err = none) (h : exec .iter x l e = .ok (.brk, l') e') (herr : l'.err.isSome = true)
    (hf : e'.forks = []) : ∃ v e1, pop e' = .ok v e1 := by
  rcases iter_brk_err x l e l' e' hw h herr with h1 | h1 | h1
  · simp [hno] at h1
  · exact iter_reentry_pop e' h1
  · exact absurd hf h1

/-! ### 6. one-shot iterators -/

/-- The iterator `RunWithContext` returns for an arity mismatch or a compile error (`unitIter`)
    yields its error once and then `(nil, false)` for ever. -/
theorem oneshot_history {α : Type} (e : α) (n : Nat) :
    UnitIter.history (n + 1) ({ value := e } : UnitIter α) = some e :: List.replicate n none := by
  have hdone : ∀ (n : Nat), UnitIter.history n ({ value := e, done := true } : UnitIter α) = List.replicate n none := by
    intro n
    induction n with
    | zero => rfl
    | succ n ih => simp [UnitIter.history, UnitIter.next, ih, List.replicate_succ]
  simp [UnitIter.history, UnitIter.next, hdone]

/-! ### non-vacuity: concrete bytecode (as dumped by `VerifCodes`) on which the hypotheses hold -/

def never : Nat → Bool := fun _ => false
def noExt : Nat → ExtRec := fun _ => {}
/-- `1, 2` -/
def codeComma : Array Instr :=
  #[.scope 1 0 0, .fork 4, .const (.num (.int 1)), .jump 5, .const (.num (.int 2)), .ret]
/-- `.[]` -/
def codeIter : Array Instr := #[.scope 1 0 0, .iter, .ret]
/-- `1 | .[]` -/
def codeIterOnOne : Array Instr := #[.scope 1 0 0, .const (.num (.int 1)), .iter, .ret]
/-- `error("x"), 1` -/
def codeErrorThenOne : Array Instr :=
  #[.scope 1 1 0, .fork 7, .store 1 0, .push (.str [120]), .load 1 0, .callNative .other 1, .jump 8,
    .const (.num (.int 1)), .ret]
/-- the native `error` called at poll 5 returns the error value "x" -/
def extErrorThenOne : Nat → ExtRec := fun k =>
  if k = 5 then { call := some (.err (.value (.jv (.str [120])))) } else {}
def sNull : St := initSt (.jv .null) []
def sEmptyArr : St := initSt (.jv (.arr [])) []
def tags (hs : List Outcome) : List Nat := hs.map Outcome.tag   -- 0 value 1 error 2 done 3 ctxErr 4 panic

-- `1, 2` never cancelled: value, value, done, done …
example : tags (history ⟨codeComma, never, noExt⟩ 50 5 sNull) = [0, 0, 2, 2, 2] := by decide +kernel
-- cancelled at poll 5 (the first instruction of the second call): value, ctxErr, done …  (cancel_prefix with m = 1)
example : tags (history ⟨codeComma, fun j => decide (5 ≤ j), noExt⟩ 50 5 sNull) = [0, 3, 2, 2, 2] := by decide +kernel
-- cancelled at poll 2, inside the first call: ctxErr at once (cancel_prompt, cancel_terminal)
example : tags (history ⟨codeComma, fun j => decide (2 ≤ j), noExt⟩ 50 5 sNull) = [3, 2, 2, 2, 2] := by decide +kernel
example : (next ⟨codeComma, fun j => decide (2 ≤ j), noExt⟩ 50 sNull).2.polls = 3 := by decide +kernel
-- the hypotheses of cancel_prompt hold at the entry of `1, 2` when poll 0 is cancelled
example : (0 : Int) ≤ (entry ⟨codeComma, fun _ => true, noExt⟩ sNull).pc ∧
    (entry ⟨codeComma, fun _ => true, noExt⟩ sNull).pc < (codeComma.size : Int) := by decide +kernel
-- `1 | .[]`: the error raised by opiter, then done for ever (after_error_advancable_partial, opiter_error_balanced)
example : tags (history ⟨codeIterOnOne, never, noExt⟩ 50 4 sNull) = [1, 2, 2, 2] := by decide +kernel
-- `error("x"), 1`: the error, then the alternative of the re-entered opfork yields 1, then done
example : tags (history ⟨codeErrorThenOne, never, extErrorThenOne⟩ 50 4 sNull) = [1, 0, 2, 2] := by decide +kernel
-- the saved pc after these errors is the re-entered opiter / opfork
example : (next ⟨codeIterOnOne, never, noExt⟩ 50 sNull).2.env.pc = 2 := by decide +kernel
example : (next ⟨codeErrorThenOne, never, extErrorThenOne⟩ 50 sNull).2.env.pc = 1 := by decide +kernel
-- `.[]` on `[]`: done, and done again on every extra call (the D7 witness; exhausted_terminal)
example : tags (history ⟨codeIter, never, noExt⟩ 50 4 sEmptyArr) = [2, 2, 2, 2] := by decide +kernel
example : (next ⟨codeIter, never, noExt⟩ 50 sEmptyArr).1.tag = 2 := by decide +kernel

end Gojq.C07

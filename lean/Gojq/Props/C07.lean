/-
  C07 — cancellation is prompt, prefix-consistent and terminal.
  Property theorems only; helper lemmas are in Gojq/Proofs/VM.lean and Gojq/Proofs/VMExec.lean.

  The model `Gojq/Model/VM.lean` transliterates `(*env).Next` (execute.go) and runs the real
  bytecode; `P.cancelled : Nat → Bool` is the answer of `<-ctx.Done()` at the k-th poll (one poll
  at the top of every instruction, numbered across `Next` calls); `P.ext` are the results of the
  calls out of the loop (natives, Go iterators, pathIntact), arbitrary here.  All theorems hold
  for ARBITRARY code, states and oracles unless a hypothesis says otherwise, at every fuel.
  The model follows the code WITH the fix of D7/D7b (exhaustion sets `pc = len(codes)`;
  `opiter` pushes `emptyIter{}` before raising `invalidPathIterError`).
-/
import Gojq.Proofs.VM
namespace Gojq.C07
open Gojq Gojq.VM

/-! ### 1. prompt -/

/-- If the poll at the top of an instruction finds the context cancelled, that instruction is not
    executed: the call in progress returns the context error at once, whatever the fuel, and the
    environment is untouched except `forks = nil`, `pc = len(codes)` (and the deferred
    `backtrack = true`). -/
theorem cancel_prompt (P : Params) (fuel : Nat) (l : L) (s : St)
    (hpc : 0 ≤ l.pc ∧ l.pc < P.code.size) (hc : P.cancelled s.polls = true) :
    loop P fuel l s =
      (.ctxErr, { env := { s.env with forks := [], pc := P.code.size, backtrack := true }, polls := s.polls + 1 }) := by
  have hst := step_cancelled P l s hpc hc
  cases fuel with
  | zero => rw [loop_zero, hst]; rfl
  | succ n => rw [loop_succ, hst]; rfl

/-- The same for a whole `Next` call: if the call consulted a poll `k` at which the context was
    cancelled, it returned the context error, `k` is the last poll it made (nothing ran after it),
    no earlier poll of the call was cancelled, and it left `forks = []`, `pc = |code|`. -/
theorem cancel_prompt_call (P : Params) (fuel : Nat) (s : St) (o : Outcome) (s' : St)
    (h : next P fuel s = (o, s')) (k : Nat) (hk1 : s.polls ≤ k) (hk2 : k < s'.polls)
    (hc : P.cancelled k = true) :
    o = .ctxErr ∧ s'.polls = k + 1 ∧ s'.env.forks = [] ∧ s'.env.pc = P.code.size ∧
      ∀ j, s.polls ≤ j → j < k → P.cancelled j = false := by
  obtain ⟨a, b, c, d⟩ := loop_cancel_seen P fuel _ s o s' h k hk1 hk2 hc
  exact ⟨a, b, c.2, c.1, d⟩

/-! ### 2. prefix-consistent -/

/-- Step for step identical up to poll `k`: as long as the reference run (poll oracle `P`) has
    not gone past poll `k`, a run whose oracle `Q` agrees with `P` below `k` returns the same
    outcomes and is in the same state, call after call. -/
theorem cancel_lockstep (P Q : Params) (hcode : P.code = Q.code) (hext : P.ext = Q.ext) (k : Nat)
    (hlt : ∀ j, j < k → P.cancelled j = Q.cancelled j) (fuel : Nat) :
    ∀ (n : Nat) (s : St), (after P fuel n s).polls ≤ k →
      history Q fuel n s = history P fuel n s ∧ after Q fuel n s = after P fuel n s := by
  intro n
  induction n with
  | zero => intro s _; exact ⟨rfl, rfl⟩
  | succ n ih =>
    intro s h
    have hmono : (next P fuel s).2.polls ≤ (after P fuel n (next P fuel s).2).polls := after_polls_mono P fuel n _
    have hnext : next Q fuel s = next P fuel s := by
      unfold next
      have he : entry Q s = entry P s := by simp [entry, hcode]
      rw [he]
      apply loop_agree P Q hcode hext
      intro j _ hj2
      apply hlt
      have hj2' : j < (next P fuel s).2.polls := hj2
      simp only [after] at h
      omega
    simp only [history, after, hnext]
    have := ih (next P fuel s).2 (by simpa [after] using h)
    exact ⟨by rw [this.1], this.2⟩

/-- The history of a run cancelled at poll `k` (and not before) is: the first `m` outcomes of the
    never-cancelled history — exactly the calls that finished by poll `k` —, then one context
    error, then `(nil, false)` for ever.  `m` is determined by the reference run alone. -/
theorem cancel_prefix (P Q : Params) (hcode : P.code = Q.code) (hext : P.ext = Q.ext) (k : Nat)
    (hP : ∀ j, P.cancelled j = false)
    (hQ1 : ∀ j, j < k → Q.cancelled j = false) (hQ2 : Q.cancelled k = true) (fuel : Nat) :
    ∀ (n : Nat) (s : St), s.polls ≤ k →
      ∃ m, m ≤ n ∧ (after P fuel m s).polls ≤ k ∧ (m < n → k < (after P fuel (m + 1) s).polls) ∧
        history Q fuel n s =
          (history P fuel n s).take m ++
            (if m < n then Outcome.ctxErr :: List.replicate (n - m - 1) Outcome.done else []) := by
  have hlt : ∀ j, j < k → P.cancelled j = Q.cancelled j := fun j hj => by rw [hP, hQ1 j hj]
  intro n
  induction n with
  | zero => intro s hs; exact ⟨0, Nat.le_refl _, hs, fun h => absurd h (Nat.lt_irrefl _), by simp [history]⟩
  | succ n ih =>
    intro s hs
    by_cases hle : (next P fuel s).2.polls ≤ k
    · -- this call finishes by poll k: identical in both runs
      have h1 := cancel_lockstep P Q hcode hext k hlt fuel 1 s (by simpa [after] using hle)
      have hnext : next Q fuel s = next P fuel s := by
        have a := h1.1; have b := h1.2
        simp only [history, after] at a b
        exact Prod.ext (by simpa using a) b
      obtain ⟨m, hm1, hm2, hm3, hm4⟩ := ih (next P fuel s).2 hle
      refine ⟨m + 1, Nat.succ_le_succ hm1, by simpa [after] using hm2, fun h => ?_, ?_⟩
      · simpa [after] using hm3 (Nat.lt_of_succ_lt_succ h)
      · simp only [history, hnext, List.take_succ_cons, List.cons_append, hm4]
        have e2 : n + 1 - (m + 1) - 1 = n - m - 1 := by omega
        by_cases hmn : m < n
        · simp [hmn, e2]
        · simp [hmn]
    · -- this call goes past poll k in the reference run: cancelled here
      have hgt : k < (next P fuel s).2.polls := Nat.lt_of_not_le hle
      have he : entry Q s = entry P s := by simp [entry, hcode]
      obtain ⟨s', h1, _, h3⟩ := loop_cancel_at P Q hcode hext k hlt hQ2 fuel (entry P s) s hs hgt
      have hnext : next Q fuel s = (.ctxErr, s') := by unfold next; rw [he]; exact h1
      refine ⟨0, Nat.zero_le _, hs, fun _ => by simpa [after] using hgt, ?_⟩
      simp only [history, hnext, List.take_zero, List.nil_append, Nat.zero_lt_succ, if_true]
      rw [terminal_history Q s' h3 fuel n]
      simp

/-! ### 3. terminal after cancellation -/

/-- After `Next` has returned the context error, every later call returns `(nil, false)` — at
    every fuel, whatever the context and the natives answer later; in particular no panic. -/
theorem cancel_terminal (P : Params) (fuel : Nat) (s s' : St) (h : next P fuel s = (.ctxErr, s'))
    (Q : Params) (hcode : Q.code = P.code) (fuel' n : Nat) :
    history Q fuel' n s' = List.replicate n Outcome.done := by
  have ht := (loop_fin_terminal P fuel _ s _ s' h).2 rfl
  exact terminal_history Q s' (by unfold Terminal at *; rw [hcode]; exact ht.1) fuel' n

/-! ### 4. terminal after exhaustion (true of the FIXED code) -/

/-- After `Next` has returned `(nil, false)` it returns `(nil, false)` for ever: the saved `pc` is
    `len(codes)` and there is no fork, so no instruction is ever re-entered. -/
theorem exhausted_terminal (P : Params) (fuel : Nat) (s s' : St) (h : next P fuel s = (.done, s'))
    (Q : Params) (hcode : Q.code = P.code) (fuel' n : Nat) :
    history Q fuel' n s' = List.replicate n Outcome.done := by
  have ht := (loop_fin_terminal P fuel _ s _ s' h).1 rfl
  exact terminal_history Q s' (by unfold Terminal at *; rw [hcode]; exact ht) fuel' n

/-! ### 6. one-shot iterators -/

/-- The iterator `RunWithContext` returns for an arity mismatch or a compile error (`unitIter`)
    yields its error once and then `(nil, false)` for ever. -/
theorem oneshot_history {α : Type} (e : α) (n : Nat) :
    UnitIter.history (n + 1) ({ value := e } : UnitIter α) = some e :: List.replicate n none := by
  have hdone : ∀ (n : Nat), UnitIter.history n ({ value := e, done := true } : UnitIter α) = List.replicate n none := by
    intro n
    induction n with
    | zero => rfl
    | succ n ih => simp [UnitIter.history, UnitIter.next, ih, List.replicate_succ]
  simp [UnitIter.history, UnitIter.next, hdone]

/-! ### non-vacuity: concrete bytecode (as dumped by `VerifCodes`) on which the hypotheses hold -/

def never : Nat → Bool := fun _ => false
def noExt : Nat → ExtRec := fun _ => {}
/-- `1, 2` -/
def codeComma : Array Instr :=
  #[.scope 1 0 0, .fork 4, .const (.num (.int 1)), .jump 5, .const (.num (.int 2)), .ret]
/-- `.[]` -/
def codeIter : Array Instr := #[.scope 1 0 0, .iter, .ret]
def sNull : St := initSt (.jv .null) []
def sEmptyArr : St := initSt (.jv (.arr [])) []
def tags (hs : List Outcome) : List Nat := hs.map Outcome.tag   -- 0 value 1 error 2 done 3 ctxErr 4 panic

-- `1, 2` never cancelled: value, value, done, done …
example : tags (history ⟨codeComma, never, noExt⟩ 50 5 sNull) = [0, 0, 2, 2, 2] := by decide
-- cancelled at poll 5 (the first instruction of the second call): value, ctxErr, done …  (cancel_prefix with m = 1)
example : tags (history ⟨codeComma, fun j => decide (5 ≤ j), noExt⟩ 50 5 sNull) = [0, 3, 2, 2, 2] := by decide
-- cancelled at poll 2, inside the first call: ctxErr at once (cancel_prompt, cancel_terminal)
example : tags (history ⟨codeComma, fun j => decide (2 ≤ j), noExt⟩ 50 5 sNull) = [3, 2, 2, 2, 2] := by decide
example : (next ⟨codeComma, fun j => decide (2 ≤ j), noExt⟩ 50 sNull).2.polls = 3 := by decide
-- the hypotheses of cancel_prompt hold at the entry of `1, 2` when poll 0 is cancelled
example : (0 : Int) ≤ (entry ⟨codeComma, fun _ => true, noExt⟩ sNull).pc ∧
    (entry ⟨codeComma, fun _ => true, noExt⟩ sNull).pc < (codeComma.size : Int) := by decide
-- `.[]` on `[]`: done, and done again on every extra call (the D7 witness; exhausted_terminal)
example : tags (history ⟨codeIter, never, noExt⟩ 50 4 sEmptyArr) = [2, 2, 2, 2] := by decide
example : (next ⟨codeIter, never, noExt⟩ 50 sEmptyArr).1.tag = 2 := by decide

end Gojq.C07

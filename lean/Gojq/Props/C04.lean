/-
  C04 — compiler optimisations never change what a query outputs.
  Theorems about the two whole-code passes of compiler.go as transliterated in
  Model/Optimize.lean (tied to the real compiler on every run by instruction-list equality).

  The peephole pass rewrites an adjacent pair without knowing how control reaches it; this is
  sound only if no jump lands between the two instructions.  The original code did not check
  that (found by the C01 correspondence: `{a: ((1, [.]) | 2)}`), the repaired code consults
  `targets`.  The theorems below state (1) what one step of the pass may change, (2) that it
  never merges a pair whose second instruction is a target, and (3) that each rewritten shape is
  equivalent on a stack machine whenever the original does not fail.
-/
import Gojq.Model.Optimize
namespace Gojq.C04
open Gojq.Opt

/-! ### an abstract stack machine for the instructions the peephole pass touches -/

/-- the stack effect of the six opcodes involved; `vals` interprets operands (constants for
    push/const, the register content for load).  `none` = the Go code panics (pop of an empty stack). -/
def exec (vals : String → Nat) (i : Instr) (st : List Nat) : Option (List Nat) :=
  if i.op == "nop" then some st
  else if i.op == "push" then some (vals i.arg :: st)
  else if i.op == "load" then some (vals i.arg :: st)
  else if i.op == "dup" then (match st with | [] => none | x :: r => some (x :: x :: r))
  else if i.op == "pop" then (match st with | [] => none | _ :: r => some r)
  else if i.op == "const" then (match st with | [] => none | _ :: r => some (vals i.arg :: r))
  else none

def exec2 (vals : String → Nat) (a b : Instr) (st : List Nat) : Option (List Nat) :=
  (exec vals a st).bind (exec vals b)

/-- `X; pop` (X ∈ push, dup, load) leaves the stack as `nop; nop` does, whenever `X; pop` does not fail -/
theorem pair_pop_sound (vals : String → Nat) (x p : Instr) (st st' : List Nat)
    (hx : isPushLike x.op = true) (hp : p.op = "pop")
    (h : exec2 vals x p st = some st') :
    exec2 vals { x with op := "nop" } { p with op := "nop" } st = some st' := by
  unfold exec2 exec at *
  simp only [isPushLike, Bool.or_eq_true, beq_iff_eq] at hx
  rcases hx with (hx | hx) | hx <;> simp_all <;> (cases st <;> simp_all)

/-- `X; const k` leaves the stack as `nop; push k` does, whenever `X; const k` does not fail -/
theorem pair_const_sound (vals : String → Nat) (x c : Instr) (st st' : List Nat)
    (hx : isPushLike x.op = true) (hc : c.op = "const")
    (h : exec2 vals x c st = some st') :
    exec2 vals { x with op := "nop" } { c with op := "push" } st = some st' := by
  unfold exec2 exec at *
  simp only [isPushLike, Bool.or_eq_true, beq_iff_eq] at hx
  rcases hx with (hx | hx) | hx <;> simp_all <;> (cases st <;> simp_all)

/-- entering a rewritten `X; const k` pair at its SECOND instruction is NOT equivalent
    (`const` replaces the top, `push` adds one): this is why a jump target must block the rewrite -/
theorem const_vs_push_differ (vals : String → Nat) (c : Instr) (hc : c.op = "const") (x : Nat) (st : List Nat) :
    exec vals c (x :: st) ≠ exec vals { c with op := "push" } (x :: st) := by
  unfold exec; simp [hc]

/-- rewriting `jumpifnot` to its own successor into `nop` would drop its pop; the harness scans
    that the compiler never emits that shape (the pass does not distinguish jump from jumpifnot) -/
theorem jumpifnot_pops (st : List Nat) (x : Nat) : (x :: st).length ≠ st.length := by simp

/-! ### what one step of the pass may do -/

theorem set!_size (c : Code) (i : Nat) (x : Instr) : (c.set! i x).size = c.size := by
  simp [Array.set!_eq_setIfInBounds]

/-- a step never changes the length of the code -/
theorem codeOpsStep_size (t : Array Bool) (c c' : Code) (i : Nat) (h : codeOpsStep t c i = some c') :
    c'.size = c.size := by
  unfold codeOpsStep at h
  split at h
  · simp at h
  · split at h
    · split at h
      · simp at h; subst h; rfl
      · split at h
        · simp at h
        · split at h
          · simp at h; subst h; simp [set!_size]
          · split at h
            · simp at h; subst h; simp [set!_size]
            · simp at h; subst h; rfl
    · split at h
      · split at h
        · simp at h
        · split at h
          · simp at h; subst h; simp [set!_size]
          · split at h
            · simp at h
            · split at h
              · simp at h
              · split at h
                · simp at h; subst h; simp [set!_size]
                · simp at h; subst h; rfl
      · simp at h; subst h; rfl

/-- the whole pass preserves the length (so every jump target keeps its meaning) -/
theorem optimizeCodeOps_size (c c' : Code) (h : optimizeCodeOps c = some c') : c'.size = c.size := by
  unfold optimizeCodeOps at h
  have : ∀ (l : List Nat) (a b : Code), l.foldlM (codeOpsStep (targetsOf c)) a = some b → b.size = a.size := by
    intro l
    induction l with
    | nil => intro a b h; simp at h; subst h; rfl
    | cons i l ih =>
      intro a b h
      simp only [List.foldlM_cons, Option.bind_eq_bind] at h
      cases hs : codeOpsStep (targetsOf c) a i with
      | none => simp [hs] at h
      | some a' => rw [hs] at h; rw [ih a' b h, codeOpsStep_size _ _ _ _ hs]
  exact this _ _ _ h

/-- THE side condition: a pair whose second instruction is a jump/fork target is left alone -/
theorem pair_not_merged_at_target (t : Array Bool) (c c' : Code) (i : Nat) (x : Instr)
    (hi : c[i]? = some x) (hx : isPushLike x.op = true) (ht : t.getD (i + 1) false = true)
    (h : codeOpsStep t c i = some c') : c' = c := by
  unfold codeOpsStep at h
  simp [hi, hx, ht] at h
  exact h.symm

/-- non-vacuity / regression: the witness program of the repaired defect.  Instruction 3 (`const`)
    is the join point of a comma; the pass must keep `load; const` there. -/
def witness : Code := #[
  { op := "fork", tgt := some 3 }, { op := "const", arg := "1" }, { op := "jump", tgt := some 5 },
  { op := "nop" }, { op := "load", arg := "x" }, { op := "const", arg := "2" }, { op := "ret" }]

example : (optimizeCodeOps witness).map (fun c => c.toList.map (·.op)) =
    some ["fork", "const", "jump", "nop", "load", "const", "ret"] := by decide

/-- without a target in between the pair is merged -/
example : (optimizeCodeOps #[{ op := "load", arg := "x" }, { op := "const", arg := "2" }, { op := "ret" }]).map
    (fun c => c.toList.map (·.op)) = some ["nop", "push", "ret"] := by decide

/-- tail-call detection: a self call followed (through jumps) by `ret` in a scope without
    variables and arguments becomes a jump to the instruction after `scope` -/
example : (optimizeTailRec #[
    { op := "jump", tgt := some 5 }, { op := "scope", ints := [1, 0, 0] }, { op := "call", tgt := some 1 },
    { op := "jump", tgt := some 4 }, { op := "ret" }, { op := "call", tgt := some 1 }, { op := "ret" }]).map
    (fun c => c.toList.map fun i => (i.op, i.tgt)) =
    some [("jump", some 5), ("scope", none), ("jump", some 2), ("jump", some 4), ("ret", none), ("call", some 1), ("ret", none)] := by
  decide

/-- … and a frame-reusing `callrec` when the scope has variables -/
example : (optimizeTailRec #[
    { op := "scope", ints := [1, 2, 0] }, { op := "call", tgt := some 0 }, { op := "ret" }]).map
    (fun c => c.toList.map (·.op)) = some ["scope", "callrec", "ret"] := by decide

/-- a call that is NOT followed by `ret` is left alone -/
example : (optimizeTailRec #[
    { op := "scope", ints := [1, 0, 0] }, { op := "call", tgt := some 0 }, { op := "pop" }, { op := "ret" }]).map
    (fun c => c.toList.map (·.op)) = some ["scope", "call", "pop", "ret"] := by decide

end Gojq.C04

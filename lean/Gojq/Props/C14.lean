/-
  C14 — string positions are code points; the regex builtins agree with `match`.
  Property theorems only; helper lemmas are in Gojq/Proofs/Regex.lean.

  The model `Gojq/Model/Regex.lean` takes the regular-expression engine's answer as a PARAMETER:
  `raw` (FindAllStringSubmatchIndex, byte offsets) and `names` (SubexpNames).  The hypothesis
  `matchesOK s names raw = true` is what Go's regexp guarantees about its answer on a valid
  UTF-8 subject (offsets in bounds, start ≤ end, on rune boundaries, successive matches ordered
  and non-overlapping, one name per group); the harness evaluates this very function on every
  answer of the real engine it feeds in (the bit is part of the `match` stream).  What matches is
  outside the model; positions and compositions are what is proved.

  `reductions_terminate`: `test`, `capture`, `scan`, `splits`, `split2`, `sub`, `gsub` of the model
  are total Lean functions defined by structural recursion / `List.map` over the finite match
  list, so they return for every `raw` — including empty matches; the theorems below give their
  exact output counts.  That the jq definitions in builtin.jq compute these folds is the
  `builtin` correspondence stream; that the real builtins stay within a step budget is the
  `termination` oracle.
-/
import Gojq.Proofs.Regex
namespace Gojq.C14
open Gojq Gojq.Regex Gojq.Codec

/-! ## 1. positions on strings are code-point positions -/

/-- `length` of a string is the number of code points `explode` yields (any byte string). -/
theorem length_eq_explode_length (s : Bytes) : strLength s = (explode s).length := rfl

/-- `explode (s[i:j]) = (explode s)[i:j]` for every pair of bounds — null, negative, out of range —
    with the array slice (`slice`/`clampIndex`) on the right-hand side. -/
theorem slice_is_codepoint_slice (s : Bytes) (hv : Utf8.valid s = true) (i j : Option Int) :
    explode (sliceStr s j i) = sliceList (explode s) j i := by
  obtain ⟨hs, he⟩ := valid_repr s hv
  have := slice_runes (Utf8.runes s) hs j i
  rw [he] at this
  exact this

/-- the same as an equation between strings: `.[i:j] == (explode | .[i:j] | implode)` -/
theorem slice_eq_implode_of_slice (s : Bytes) (hv : Utf8.valid s = true) (i j : Option Int) :
    sliceStr s j i = Utf8.encodeRunes (sliceList (explode s) j i) := by
  obtain ⟨hs, he⟩ := valid_repr s hv
  have := sliceStr_encode (Utf8.runes s) hs j i
  rw [he] at this
  exact this

/-- Go's final `v[start:end]` in sliceString cannot panic: the byte offsets are ordered and in range -/
theorem slice_bytes_ordered (s : Bytes) (hv : Utf8.valid s = true) (i j : Option Int) :
    (sliceOffsets s j i).1 ≤ (sliceOffsets s j i).2 ∧ (sliceOffsets s j i).2 ≤ s.length := by
  obtain ⟨hs, he⟩ := valid_repr s hv
  have := sliceOffsets_ok (Utf8.runes s) hs j i
  rw [he] at this
  exact this

/-- the array slice in plain words, in range: `0 ≤ i ≤ j ≤ len` selects elements `i … j-1` -/
theorem slice_in_range {α : Type} (cs : List α) (i j : Nat) (hij : i ≤ j) (hj : j ≤ cs.length) :
    sliceList cs (some (j : Int)) (some (i : Int)) = (cs.drop i).take (j - i) :=
  sliceList_nat cs i j hij hj

/-- … and the clamping of every other integer: a negative index counts from the end, then the
    result is clamped into `[minimum, maximum]` -/
theorem clampIndex_cases (i mn mx : Int) :
    clampIndex i mn mx = (let k := if i < 0 then i + mx else i; if k < mn then mn else if k < mx then k else mx) :=
  rfl

/-- `.[i]` on a string is the `i`-th code point (`index` on the exploded array), re-encoded;
    any byte string, any integer. -/
theorem index_is_codepoint (s : Bytes) (i : Int) :
    indexStr s i = (indexList (explode s) i).map Utf8.encodeRune :=
  indexStr_eq s i

/-- on a valid string the result explodes to exactly that one code point -/
theorem index_explodes_to_codepoint (s : Bytes) (hv : Utf8.valid s = true) (i : Int) :
    (indexStr s i).map explode = (indexList (explode s) i).map fun c => [c] := by
  rw [index_is_codepoint]
  cases h : indexList (explode s) i with
  | none => rfl
  | some c =>
    have hc : c ∈ Utf8.runes s := indexList_mem _ i c h
    simp only [Option.map_some, explode]
    rw [runes_encodeRune c ((valid_repr s hv).1 c hc)]

/-- the array index in plain words -/
theorem index_in_range {α : Type} (cs : List α) (i : Nat) (h : i < cs.length) :
    indexList cs (i : Int) = cs[i]? ∧ indexList cs ((i : Int) - cs.length) = cs[i]? := by
  unfold indexList
  constructor
  · simp only []
    rw [clamp_id _ _ _ (by omega) (by omega) (by omega), if_pos ⟨by omega, by omega⟩]
    simp
  · have hc : clampIndex ((i : Int) - cs.length) (-1) ((cs.length : Nat) : Int) = (i : Int) := by
      unfold clampIndex; simp only []
      split <;> split <;> (try split) <;> omega
    simp only []
    rw [hc, if_pos ⟨by omega, by omega⟩]
    simp

/-- `indices` on strings reports exactly the code-point positions at which the needle's code points
    occur in the subject's, in increasing order (`index` / `rindex` are its first / last element). -/
theorem indices_positions (s x : Bytes) (p : Nat) :
    (p ∈ strIndices s x ↔
      explode x ≠ [] ∧ p + (explode x).length ≤ (explode s).length ∧
        ((explode s).drop p).take (explode x).length = explode x) ∧
    (strIndices s x).Pairwise (· < ·) ∧
    strIndex s x = (strIndices s x).head? ∧ strRindex s x = (strIndices s x).getLast? :=
  ⟨mem_indicesList _ _ p, indicesList_sorted _ _, rfl, rfl⟩

/-- … and slicing the subject at a reported position by the needle's length returns the needle -/
theorem indices_slice_back (s x : Bytes) (hs : Utf8.valid s = true) (hx : Utf8.valid x = true) (p : Nat)
    (hp : p ∈ strIndices s x) : sliceStr s (some ((p : Int) + strLength x)) (some (p : Int)) = x := by
  obtain ⟨_, hle, heq⟩ := (mem_indicesList _ _ p).mp hp
  rw [slice_eq_implode_of_slice s hs]
  have : ((p : Int) + (strLength x : Nat)) = ((p + (Utf8.runes x).length : Nat) : Int) := by
    simp [strLength]
  rw [this, explode, sliceList_nat _ p _ (by omega) hle, Nat.add_sub_cancel_left, heq]
  exact (valid_repr x hx).2

/-! ## 2. `match` -/

/-- funcMatch cannot panic on an engine answer, and yields one match object per index list -/
theorem match_no_panic (s : Bytes) (names : List Bytes) (raw : Raw) (h : matchesOK s names raw = true) :
    ∃ ms, mkMatches s names raw = some ms ∧ ms.length = raw.length ∧
      funcMatch s raw names = some (.arr (ms.map Match.toJV)) := by
  obtain ⟨cs, ms, _, _, _, hms, _, _⟩ := matches_repr s names raw h
  exact ⟨ms, hms, mkMatches_length s names raw ms hms, by simp [funcMatch, hms]⟩

/-- for every reported `(offset, length, string)` — of a match and of each of its captures —
    slicing the subject by `[offset : offset+length]` in code points returns `string`, `length` is
    the code-point length of `string`, and the range lies inside the subject; a capture that did
    not take part has `offset = -1`, `length = 0`, `string = null`. -/
theorem match_offsets_codepoint (s : Bytes) (names : List Bytes) (raw : Raw) (h : matchesOK s names raw = true) :
    ∃ ms, mkMatches s names raw = some ms ∧ ∀ m ∈ ms,
      (sliceStr s (some (m.offset + m.length)) (some m.offset) = m.string ∧
        0 ≤ m.offset ∧ 0 ≤ m.length ∧ m.offset + m.length ≤ strLength s ∧ (strLength m.string : Int) = m.length) ∧
      ∀ c ∈ m.captures,
        match c.string with
        | none => c.offset = -1 ∧ c.length = 0
        | some str =>
          sliceStr s (some (c.offset + c.length)) (some c.offset) = str ∧
            0 ≤ c.offset ∧ 0 ≤ c.length ∧ c.offset + c.length ≤ strLength s ∧ (strLength str : Int) = c.length := by
  obtain ⟨cs, ms, hs, he, hr, hms, hch, _⟩ := matches_repr s names raw h
  refine ⟨ms, hms, ?_⟩
  intro m hm
  obtain ⟨k0, k1, hsp⟩ := chain_mem hch m hm
  have hlen : strLength s = cs.length := by rw [strLength, hr]
  have hpiece : ∀ a b : Nat, a ≤ b → b ≤ cs.length →
      strLength (Utf8.encodeRunes ((cs.drop a).take (b - a))) = b - a := by
    intro a b hab hb
    rw [strLength, runes_encode ((hs.drop a).take _), List.length_take, List.length_drop]
    omega
  constructor
  · have := spans_slice cs hs m k0 k1 hsp
    rw [he] at this
    obtain ⟨h01, h1, ho, hl, hstr, _⟩ := hsp
    refine ⟨this, by omega, by omega, by omega, ?_⟩
    rw [hstr, hpiece k0 k1 h01 h1]; omega
  · intro c hc
    rcases hsp.2.2.2.2.2 c hc with ⟨h1, h2, h3⟩ | ⟨a, b, hab, hb, ho, hl, hstr⟩
    · rw [h1]; exact ⟨h2, h3⟩
    · rw [hstr]
      have hsl : sliceStr (Utf8.encodeRunes cs) (some (c.offset + c.length)) (some c.offset)
          = Utf8.encodeRunes ((cs.drop a).take (b - a)) := by
        have : c.offset + c.length = ((b : Nat) : Int) := by omega
        rw [sliceStr_encode cs hs, this, ho, sliceList_nat cs a b hab hb]
      rw [he] at hsl
      refine ⟨hsl, by omega, by omega, by omega, ?_⟩
      rw [hpiece a b hab hb]; omega

/-! ## 3. the jq-level builtins are compositions of the match list -/

/-- `test` holds iff `match` emits at least one object.  (`test` is `r.MatchString`; that it agrees
    with the non-emptiness of the engine's match list is the engine assumption recorded at
    `Regex.test`, checked on every case of the `builtin` stream.) -/
theorem test_iff_match_nonempty (s : Bytes) (names : List Bytes) (raw : Raw) (ms : List Match)
    (h : mkMatches s names raw = some ms) : test raw = true ↔ ms ≠ [] := by
  have hl := mkMatches_length s names raw ms h
  unfold test
  cases raw <;> cases ms <;> simp_all

/-- named groups, and only they, surface as keys of the `capture` object: `k` is a key iff `k` is a
    (non-empty) group name of the regex. -/
theorem capture_named (s : Bytes) (names : List Bytes) (raw : Raw) (h : matchesOK s names raw = true) :
    ∃ ms, mkMatches s names raw = some ms ∧ (capture ms).length = ms.length ∧
      ∀ m ∈ ms, ∀ k : Bytes,
        (kvLookup k (capturesKvs m.captures)).isSome = true ↔ (k ≠ [] ∧ k ∈ names.tail) := by
  obtain ⟨cs, ms, _, _, _, hms, _, hnm⟩ := matches_repr s names raw h
  refine ⟨ms, hms, by simp [capture], ?_⟩
  intro m hm k
  rw [capturesKvs_lookup, lastNamedFrom_isSome]
  have hn := hnm m hm
  constructor
  · rintro (h0 | ⟨c, hc, hck⟩)
    · simp at h0
    · have : some k ∈ m.captures.map (·.name) := List.mem_map.mpr ⟨c, hc, hck⟩
      rw [hn, capNames] at this
      obtain ⟨n, hn1, hn2⟩ := List.mem_map.mp this
      split at hn2
      · cases hn2
      · cases hn2
        refine ⟨?_, hn1⟩
        intro e; subst e; simp_all
  · rintro ⟨hk, hmem⟩
    right
    have : some k ∈ capNames names := by
      rw [capNames]
      refine List.mem_map.mpr ⟨k, hmem, ?_⟩
      cases k with
      | nil => exact absurd rfl hk
      | cons _ _ => rfl
    rw [← hn] at this
    obtain ⟨c, hc, hck⟩ := List.mem_map.mp this
    exact ⟨c, hc, hck⟩

/-- the value under a name is the `string` of the LAST group carrying that name (null if that
    group did not take part) -/
theorem capture_value_last (k : Bytes) (pre : List Cap) (c : Cap) (post : List Cap)
    (hc : c.name = some k) (hpost : ∀ x ∈ post, x.name ≠ some k) :
    kvLookup k (capturesKvs (pre ++ c :: post)) = some (jOptStr c.string) := by
  rw [capturesKvs_lookup]
  exact lastNamedFrom_last k pre c post none hc hpost

/-- the pieces of `splits`, interleaved with the strings of the global matches, rebuild the
    subject; there is exactly one more piece than there are matches (empty matches included). -/
theorem splits_interleave (s : Bytes) (names : List Bytes) (raw : Raw) (h : matchesOK s names raw = true) :
    ∃ ms, mkMatches s names raw = some ms ∧
      interleave (splits s ms) (ms.map (·.string)) = s ∧ (splits s ms).length = ms.length + 1 ∧
      split2 s ms = .arr ((splits s ms).map .str) := by
  obtain ⟨cs, ms, hs, he, _, hms, hch, _⟩ := matches_repr s names raw h
  refine ⟨ms, hms, ?_, splitsAux_length s ms none, rfl⟩
  have := splits_chain cs hs hch none (Or.inr ⟨rfl, rfl⟩) (Nat.zero_le _)
  simp only [List.drop_zero] at this
  rw [he] at this
  exact this

/-- a replacement with exactly one (string) output per match: `sub`/`gsub` emit exactly one string,
    the pieces of `splits` interleaved with the replacement outputs (any subject, any match list). -/
theorem sub_is_interleave (s : Bytes) (ms : List Match) (rep : List (Bytes × JV) → List Bytes) (f : Match → Bytes)
    (hrep : ∀ m ∈ ms, rep (capturesKvs m.captures) = [f m]) :
    sub s ms rep = [interleave (splits s ms) (ms.map f)] ∧ gsub s ms rep = sub s ms rep := by
  refine ⟨?_, rfl⟩
  unfold sub
  rw [map_rep_eq_zip ms rep f hrep, subCore_single s ms (ms.map f) (by simp)]

/-- substituting every match by itself returns the subject, for every engine answer incl. empty
    matches: stated for any replacement that yields the matched string … -/
theorem gsub_self_identity (s : Bytes) (names : List Bytes) (raw : Raw) (h : matchesOK s names raw = true) :
    ∃ ms, mkMatches s names raw = some ms ∧
      ∀ rep : List (Bytes × JV) → List Bytes, (∀ m ∈ ms, rep (capturesKvs m.captures) = [m.string]) →
        gsub s ms rep = [s] ∧ sub s ms rep = [s] := by
  obtain ⟨ms, hms, hi, _, _⟩ := splits_interleave s names raw h
  refine ⟨ms, hms, ?_⟩
  intro rep hrep
  have := (sub_is_interleave s ms rep (·.string) hrep).1
  rw [hi] at this
  exact ⟨this, this⟩

/-- … and for the documented form `gsub("(?<zz>RE)"; .zz)`: when group 1 is the whole match and is
    the only group named `zz` (`wrappedBy`), the replacement `.zz` returns the subject. -/
theorem gsub_named_group_self (s : Bytes) (zz : Bytes) (names : List Bytes) (raw : Raw)
    (h : matchesOK s names raw = true) (hw : wrappedBy zz names raw) :
    ∃ ms, mkMatches s names raw = some ms ∧ gsub s ms (fieldRep zz) = [s] ∧ sub s ms (fieldRep zz) = [s] := by
  obtain ⟨ms, hms, hrep⟩ := gsub_self_identity s names raw h
  refine ⟨ms, hms, hrep (fieldRep zz) ?_⟩
  intro m hm
  exact fieldRep_wrapped zz m (mkMatches_wrapped s zz names raw ms hw hms m hm)

/-- output counts (the quantitative side of `reductions_terminate`): one `scan`/`capture` output per
    match, `|matches| + 1` pieces of `splits`, and `sub`/`gsub` never emit nothing. -/
theorem output_counts (s : Bytes) (ms : List Match) (rep : List (Bytes × JV) → List Bytes) :
    (scan ms).length = ms.length ∧ (capture ms).length = ms.length ∧
    (splits s ms).length = ms.length + 1 ∧ sub s ms rep ≠ [] ∧ gsub s ms rep ≠ [] := by
  refine ⟨by simp [scan], by simp [capture], splitsAux_length s ms none, ?_, ?_⟩ <;>
    exact subFinish_ne_nil s _

/-! ## non-vacuity: concrete engine answers satisfying the hypotheses -/

/-- "aé漢a" = 61 C3A9 E6BCA2 61 -/
def subj : Bytes := [0x61, 0xC3, 0xA9, 0xE6, 0xBC, 0xA2, 0x61]

-- `[^a]` global: é at bytes 1..3, 漢 at 3..6
example : matchesOK subj [[]] [[1, 3], [3, 6]] = true := by decide
-- `x*` global: empty matches at every rune boundary
example : matchesOK subj [[]] [[0, 0], [1, 1], [3, 3], [6, 6], [7, 7]] = true := by decide
-- `(?<zz>(é)|(b))` on the subject: group 3 did not take part
example : matchesOK subj [[], [0x7A, 0x7A], [], []] [[1, 3, 1, 3, 1, 3, -1, -1]] = true := by decide
example : wrappedBy [0x7A, 0x7A] [[], [0x7A, 0x7A], [], []] [[1, 3, 1, 3, 1, 3, -1, -1]] :=
  ⟨by decide, ⟨[], [[], []], rfl, by decide⟩, fun x hx => by simp at hx; subst hx; exact ⟨1, 3, _, rfl⟩⟩
-- an offset inside a rune, an overlap and an out-of-range offset are rejected
example : matchesOK subj [[]] [[2, 3]] = false := by decide
example : matchesOK subj [[]] [[1, 3], [1, 6]] = false := by decide
example : matchesOK subj [[]] [[6, 8]] = false := by decide
example : Utf8.valid subj = true := by decide
example : 2 ∈ strIndices subj [0xE6, 0xBC, 0xA2] := by decide
example : mkMatches subj [[]] [[3, 6]] = some [{ offset := 2, length := 1, string := [0xE6, 0xBC, 0xA2], captures := [] }] := by
  decide

end Gojq.C14

/-
  C02 — paths and update operators equal their defining reductions.
  This file: the path-tracking part of `Spec.eval` (Model/Spec.lean).  Every navigation step of
  the evaluator goes through `navigated` / `iterate`; the theorems below say that these keep the
  invariant "the recorded path, applied with getpath to the root of the `path(…)` call, yields
  the value last navigated to", which is what makes `path(p)` emit exactly paths `q` with
  `getpath(q)` = the corresponding output of `p`.  The value-level setpath/getpath/delpaths
  algebra and the in-place allocator refinement are in Props/C02Heap.lean.

  The invariant needs the navigated-from value NOT to be a string: gojq indexes and slices
  strings, `getpath` rejects them (known finding `path-through-string-index`); the hypothesis
  `navigable` states exactly that.
-/
import Gojq.Model.Spec
namespace Gojq.C02
open Gojq Gojq.Spec

/-- `getpath` accepts a value as a navigation source -/
def navigable : JV → Bool
  | .null | .arr _ | .obj _ => true
  | _ => false

/-- the tracking context of a state denotes a real location of `root` -/
def PathInv (root : JV) (s : St) : Prop :=
  ∀ c, s.ctx = some c → getpath root c.path = .ok c.w

/-- getpath along `p ++ [k]` is getpath along `p` followed by one indexing step -/
theorem getpath_snoc (root : JV) (p : List JV) (k w x : JV)
    (hp : getpath root p = .ok w) (hn : navigable w = true) (hx : funcIndex2 w k = .ok x) :
    getpath root (p ++ [k]) = .ok x := by
  unfold getpath at *
  rw [List.foldlM_append]
  show (List.foldlM _ root p >>= fun b => List.foldlM _ b [k]) = _
  rw [hp]
  cases w <;> simp_all [navigable, List.foldlM_cons, List.foldlM_nil, bind, Except.bind, pure, Except.pure]

/-- a tracked state whose value is the value last navigated to -/
def AtLocation (s : St) : Prop := ∀ c, s.ctx = some c → s.v = c.w

/-- ONE NAVIGATION STEP keeps the invariant: if `.k` is applied to a state that sits at a real
    location, every output of `navigated` sits at the real location `path ++ [k]`.
    (When the source is not intact the step is an invalid-path error: no output at all.) -/
theorem navigated_inv (root : JV) (s : St) (k w : JV)
    (hinv : PathInv root s) (hat : AtLocation s) (hnav : navigable s.v = true)
    (hidx : funcIndex2 s.v k = .ok w) :
    ∀ s' ∈ (navigated s k w).outs, PathInv root s' ∧ AtLocation s' := by
  intro s' hs'
  unfold navigated at hs'
  cases hc : s.ctx with
  | none =>
    simp [hc, Res.one] at hs'
    subst hs'
    exact ⟨by intro c h; simp at h, by intro c h; simp at h⟩
  | some c =>
    simp only [hc] at hs'
    split at hs'
    · simp [Res.one] at hs'
      subst hs'
      refine ⟨?_, ?_⟩
      · intro c' h'
        simp at h'
        subst h'
        have hw := hat c hc
        exact getpath_snoc root c.path k c.w w (hinv c hc) (hw ▸ hnav) (hw ▸ hidx)
      · intro c' h'; simp at h'; subst h'; rfl
    · simp [Res.fail] at hs'
    · simp [Res.unmodelled] at hs'

/-- a navigation from a value that is not the one last navigated to (a constructed container,
    or a scalar differing from the value at the current location) is an invalid-path ERROR,
    never an output -/
theorem navigated_not_intact_is_error (s : St) (c : PCtx) (k w : JV)
    (hc : s.ctx = some c) (hni : pathIntact s c = some false) :
    (navigated s k w).outs = [] ∧ ∃ e, (navigated s k w).stop = .err e := by
  unfold navigated
  simp [hc, hni, Res.fail]

/-- a computed value keeps the tracking context (so a later navigation from it is checked
    against the location the context records, not against the computed value) -/
theorem computed_keeps_ctx (s : St) (w : JV) : (computed s w).ctx = s.ctx := rfl

/-- sequencing preserves any invariant of outputs that does not look at the `pend` mark
    (used to lift the step lemma through pipes) -/
theorem bindList_all (P : St → Prop) (hP : ∀ y, P y → P { y with pend := true }) (f : St → Res) (final : Stop) :
    ∀ (xs : List St), (∀ x ∈ xs, ∀ y ∈ (f x).outs, P y) → ∀ y ∈ (Res.bindList f final xs).outs, P y := by
  intro xs
  induction xs with
  | nil => intro _ y hy; simp [Res.bindList] at hy
  | cons x xs ih =>
    intro h y hy
    have hx : ∀ y ∈ (f x).outs, P y := h x (List.mem_cons_self ..)
    have hrest := ih (fun x' hx' => h x' (List.mem_cons_of_mem _ hx'))
    have hfirst : ∀ y ∈ (if x.pend = true then
        (⟨(f x).outs.map ({ · with pend := true }), pendStop true (f x).stop⟩ : Res) else f x).outs, P y := by
      intro y hy
      split at hy
      · simp only [List.mem_map] at hy
        obtain ⟨z, hz, rfl⟩ := hy
        exact hP z (hx z hz)
      · exact hx y hy
    unfold Res.bindList at hy
    simp only [] at hy
    split at hy
    · simp only [List.mem_append] at hy
      rcases hy with hy | hy
      · exact hfirst y hy
      · exact hrest y hy
    · exact hfirst y hy

/-- `PathInv` and `AtLocation` do not look at the `pend` mark -/
theorem pathInv_pend (root : JV) (y : St) (h : PathInv root y ∧ AtLocation y) :
    PathInv root { y with pend := true } ∧ AtLocation { y with pend := true } := h

/-- pipes of navigation steps keep the invariant: the lifting used for `a | b` in path mode -/
theorem bind_inv (root : JV) (r : Res) (f : St → Res)
    (hr : ∀ x ∈ r.outs, PathInv root x ∧ AtLocation x)
    (hf : ∀ x, PathInv root x ∧ AtLocation x → ∀ y ∈ (f x).outs, PathInv root y ∧ AtLocation y) :
    ∀ y ∈ (r.bind f).outs, PathInv root y ∧ AtLocation y := by
  unfold Res.bind
  exact bindList_all _ (pathInv_pend root) f r.stop r.outs (fun x hx => hf x (hr x hx))

/-! Non-vacuity: `.a` on `{"a": 5}` in path mode records the path `["a"]` with getpath = 5. -/
example :
    (navigated { v := .obj [([0x61], .num (.int 5))], id := .known 0 [],
                 ctx := some { path := [], w := .obj [([0x61], .num (.int 5))], wid := .known 0 [] } }
        (.str [0x61]) (.num (.int 5))).outs.map (fun s => s.ctx.map (·.path.length)) = [some 1] := by
  rfl

end Gojq.C02
